(* Reads one case per line (space-separated hex integers, optional leading '-'),
   runs the extracted Coq model, prints one answer per line in the same syntax.
   usage: driver <engine> <oc:0|1>  < cases > answers *)
open Model

let pos_of_hex (s : Stdlib.String.t) (start : int) : z =
  (* build a positive from hex digits, most significant first *)
  let acc = ref None in   (* None = zero so far *)
  for i = start to String.length s - 1 do
    let c = s.[i] in
    let d = match c with
      | '0'..'9' -> Char.code c - 48
      | 'a'..'f' -> Char.code c - 87
      | 'A'..'F' -> Char.code c - 55
      | _ -> failwith ("bad hex digit in " ^ s) in
    for b = 3 downto 0 do
      let bit = (d lsr b) land 1 = 1 in
      acc := (match !acc with
        | None -> if bit then Some XH else None
        | Some p -> Some (if bit then XI p else XO p))
    done
  done;
  match !acc with None -> Z0 | Some p -> Zpos p

let z_of_string (s : Stdlib.String.t) : z =
  if String.length s > 0 && s.[0] = '-' then
    (match pos_of_hex s 1 with Zpos p -> Zneg p | z -> z)
  else pos_of_hex s 0

let hex_of_pos (p : positive) : Stdlib.String.t =
  (* collect bits little-endian *)
  let rec bits p acc = match p with
    | XH -> true :: acc
    | XO q -> bits q (false :: acc)
    | XI q -> bits q (true :: acc) in
  (* bits returns most-significant first because we cons while descending?  we descend
     from least significant, consing: the last consed is the most significant -> head *)
  let bl = bits p [] in
  let n = List.length bl in
  let pad = (4 - n mod 4) mod 4 in
  let bl = List.init pad (fun _ -> false) @ bl in
  let buf = Buffer.create 16 in
  let rec go l = match l with
    | a :: b :: c :: d :: rest ->
        let v = (if a then 8 else 0) + (if b then 4 else 0) + (if c then 2 else 0) + (if d then 1 else 0) in
        Buffer.add_char buf "0123456789abcdef".[v]; go rest
    | [] -> ()
    | _ -> assert false in
  go bl; Buffer.contents buf

let string_of_z (z : z) : Stdlib.String.t = match z with
  | Z0 -> "0"
  | Zpos p -> hex_of_pos p
  | Zneg p -> "-" ^ hex_of_pos p

let () =
  let engine = Sys.argv.(1) in
  let oc = Sys.argv.(2) = "1" in
  let run : z list -> z list = match engine with
    | "addr" -> Model.run_addr oc
    | "pte" -> Model.run_pte oc
    | "mach" -> Model.run_mach oc
    | "tbl" -> Model.run_tbl oc
    | "codec" -> Model.run_codec oc
    | "map" -> Model.run_map oc
    | "tree" -> Model.run_ptree oc
    | "rec" -> Model.run_rec oc
    | "gh" -> Model.run_gh oc
    | _ -> failwith ("unknown engine " ^ engine) in
  let out = Buffer.create 65536 in
  (try
    while true do
      let line = input_line stdin in
      let toks = List.filter (fun s -> s <> "") (String.split_on_char ' ' line) in
      let c = List.map z_of_string toks in
      let r = run c in
      Buffer.add_string out (String.concat " " (List.map string_of_z r));
      Buffer.add_char out '\n';
      if Buffer.length out > 60000 then (print_string (Buffer.contents out); Buffer.clear out)
    done
  with End_of_file -> ());
  print_string (Buffer.contents out)
