#!/bin/sh
# extract the Coq model to OCaml and build the driver (called by ./check --setup and whenever a .vo is newer)
set -e
cd "$(dirname "$0")"
mkdir -p _build && cd _build
coqc -Q ../../coq/theories X86 ../../coq/theories/Extract/Extract.v > extract.log 2>&1 || { cat extract.log; exit 1; }
cp ../driver.ml .
ocamlfind ocamlopt -O3 -w -a model.mli model.ml driver.ml -o driver 2>/dev/null || ocamlfind ocamlopt -w -a model.mli model.ml driver.ml -o driver
