(* Extraction of the executable model for the correspondence check.
   Only ExtrOcamlBasic: Z, positive, N, nat stay Coq datatypes. *)
Require Import ExtrOcamlBasic.
From X86 Require Addr.Run Paging.EntryRun Machine.Run Tables.Run Codec.Run Paging.Run Paging.TreeRun Paging.RecNew Tables.General.
Extraction Language OCaml.
Definition run_addr := Addr.Run.run_addr.
Definition run_pte := Paging.EntryRun.run_pte.
Definition run_mach := Machine.Run.run_mach.
Definition run_tbl := Tables.Run.run_tbl.
Definition run_codec := Codec.Run.run_codec.
Definition run_map := Paging.Run.run_map.
Definition run_ptree := Paging.TreeRun.run_ptree.
Definition run_rec := Paging.RecNew.run_rec.
Definition run_gh := Tables.General.run_gh.
Extraction "model.ml" run_addr run_pte run_mach run_tbl run_codec run_map run_ptree run_rec run_gh.
