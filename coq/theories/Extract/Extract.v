(* Extraction of the executable model for the correspondence check.
   Only ExtrOcamlBasic: Z, positive, N, nat stay Coq datatypes. *)
Require Import ExtrOcamlBasic.
From X86 Require Addr.Run.
Extraction Language OCaml.
Definition run_addr := Addr.Run.run_addr.
Extraction "model.ml" run_addr.
