(* The read path of the RecursivePageTable memory model (translate through the recursive
   addresses) returns what the tree -- and hence the hardware walk -- says, for every address
   outside the recursive slot.  The table memory is related to the tree by `repx`: rep for every
   slot of the level-4 table except the recursive one, which points to the level-4 table. *)
From X86 Require Import Base.Bits Addr.Canon Addr.Index Paging.EntryProofs Paging.Mapped Paging.MemProofs
  Paging.Tree Paging.TreeProofs Paging.Refine Paging.RefineWalk Paging.Recursive Paging.RecNew
  Paging.RecNewProofs Paging.RecResolve Paging.Run.
Require Import Lia ZifyBool.
Open Scope Z_scope.

Definition repx (r : Z) (s : pstate) (ch : list node) : Prop :=
  tab_entry (rd s (root s + 8 * r)) (root s) /\
  forall i, 0 <= i < 512 -> i <> r -> rep_entry 3 s (child ch (Z.to_nat i)) (rd s (root s + 8 * i)).

Lemma tab_entry_of_rep l s f fl sub e : rep_entry l s (Tab f fl sub) e -> tab_entry e f.
Proof. cbn [rep_entry]. intros (He & Hf & Hfl & _). exists fl. auto. Qed.

Lemma deref_ok s v f : (exists w, hw_walk s v = Some w /\ w_phys w = f /\ w_size w = S4K) -> deref s v = Some f.
Proof. intros (w & Hw & Hp & _). unfold deref. rewrite Hw, Hp. reflexivity. Qed.

Lemma table_at_ok s vp v f : vp = Ok v -> deref s v = Some f -> table_at s vp = RVal f.
Proof. intros -> H. unfold table_at. cbn [rlift rb]. rewrite H. reflexivity. Qed.

(* the walk of the recursive mapper (rdescend: lax checks, tables reached through the recursive
   addresses) reaches the slot the tree walk reaches *)
Lemma chk_lax_entry l s n e b : rep_entry l s n e -> (b = true -> (1 <= l)%nat) ->
  chk_lax s e b = match n with
                  | Empty => RErr s [E_NOT_MAPPED]
                  | Leaf _ => if b then RErr s [E_PARENT_HUGE] else RVal tt
                  | Tab _ _ _ => RVal tt
                  end.
Proof.
  intros H Hb. unfold chk_lax. destruct n as [|w|f fl sub]; cbn [rep_entry] in H.
  - subst e. reflexivity.
  - destruct H as [-> (Hw & Hp & Hh & _)].
    assert (Hnz : (w =? 0) = false) by (apply Z.eqb_neq; intros H0; rewrite H0, Z.bits_0 in Hp; discriminate).
    rewrite Hnz. destruct b; [|reflexivity]. rewrite e_huge_bit, (Hh ltac:(specialize (Hb eq_refl); lia)). reflexivity.
  - destruct H as (-> & Hf & Hfl & _). destruct (tab_word f fl Hf Hfl) as (Hnz & Hhu & _).
    apply Z.eqb_neq in Hnz. rewrite Hnz, Hhu. rewrite Bool.andb_false_r. reflexivity.
Qed.

Lemma rdescend_repx s ch k page :
  0 <= k <= 2 -> 0 <= rec_index s < 512 -> repx (rec_index s) s ch -> p4_index page <> rec_index s ->
  match slot_at ch (idx_list k page) with
  | inr e => rdescend s k page = RErr s e
  | inl n => exists sl, rdescend s k page = RVal sl /\ rep_entry (Z.to_nat k) s n (rd s sl)
  end.
Proof.
  intros Hk Hr (Hrec & Hrep) Hne.
  destruct (index_ranges page) as (H1 & H2 & H3 & H4 & _).
  pose proof (Hrep (p4_index page) H4 Hne) as E4.
  unfold rdescend, slot4, idx_list.
  rewrite (chk_lax_entry 3 s _ _ false E4 ltac:(discriminate)).
  destruct (child ch (Z.to_nat (p4_index page))) as [|w4|f4 fl4 sub4] eqn:C4.
  - destruct (k =? 2); [|destruct (k =? 1)]; cbn [slot_at rb]; rewrite ?C4; reflexivity.
  - cbn [rep_entry] in E4. destruct E4 as [_ (_ & _ & _ & Hl)]. lia.
  - pose proof (tab_entry_of_rep _ _ _ _ _ _ E4) as T4.
    cbn [rep_entry] in E4. destruct E4 as (_ & Hf4 & _ & R3).
    destruct (p3_page_spec page (rec_index s) Hr) as (pg3 & Ep3 & _).
    cbn [rb].
    rewrite (table_at_ok s _ pg3 f4 Ep3 (deref_ok s pg3 f4 (p3_page_resolves s (rec_index s) Hr Hrec page pg3 f4 Ep3 T4))). cbn [rb].
    pose proof (proj1 (rep_unfold _ _ _ _) R3 (p3_index page) H3) as E3.
    unfold slot3, slot2, slot1.
    destruct (k =? 2) eqn:K2.
    { cbn [slot_at]. rewrite C4. exists (f4 + 8 * p3_index page). split; [reflexivity|].
      assert (k = 2) by lia. subst k. exact E3. }
    rewrite (chk_lax_entry 2 s _ _ true E3 ltac:(lia)).
    destruct (child sub4 (Z.to_nat (p3_index page))) as [|w3|f3 fl3 sub3] eqn:C3.
    + destruct (k =? 1); cbn [slot_at rb]; rewrite ?C4, ?C3; reflexivity.
    + destruct (k =? 1); cbn [slot_at rb]; rewrite ?C4, ?C3; reflexivity.
    + pose proof (tab_entry_of_rep _ _ _ _ _ _ E3) as T3.
      cbn [rep_entry] in E3. destruct E3 as (_ & Hf3 & _ & R2).
      destruct (p2_page_spec page (rec_index s) Hr) as (pg2 & Ep2 & _).
      cbn [rb].
      rewrite (table_at_ok s _ pg2 f3 Ep2 (deref_ok s pg2 f3 (p2_page_resolves s (rec_index s) Hr Hrec page pg2 f4 f3 Ep2 T4 T3))). cbn [rb].
      pose proof (proj1 (rep_unfold _ _ _ _) R2 (p2_index page) H2) as E2.
      destruct (k =? 1) eqn:K1.
      { cbn [slot_at]. rewrite C4, C3. exists (f3 + 8 * p2_index page). split; [reflexivity|].
        assert (k = 1) by lia. subst k. exact E2. }
      assert (k = 0) by lia. subst k.
      rewrite (chk_lax_entry 1 s _ _ true E2 ltac:(lia)).
      destruct (child sub3 (Z.to_nat (p2_index page))) as [|w2|f2 fl2 sub2] eqn:C2.
      * cbn [slot_at rb]. rewrite C4, C3, C2. reflexivity.
      * cbn [slot_at rb]. rewrite C4, C3, C2. reflexivity.
      * pose proof (tab_entry_of_rep _ _ _ _ _ _ E2) as T2.
        cbn [rep_entry] in E2. destruct E2 as (_ & Hf2 & _ & R1).
        destruct (p1_page_spec page (rec_index s) Hr) as (pg1 & Ep1 & _).
        cbn [rb].
        rewrite (table_at_ok s _ pg1 f2 Ep1 (deref_ok s pg1 f2 (p1_page_resolves s (rec_index s) Hr Hrec page pg1 f4 f3 f2 Ep1 T4 T3 T2))). cbn [rb].
        cbn [slot_at]. rewrite C4, C3, C2. exists (f2 + 8 * p1_index page). split; [reflexivity|].
        exact (proj1 (rep_unfold _ _ _ _) R1 (p1_index page) H1).
Qed.

(* translate_page through the recursive addresses agrees with the tree *)
Theorem rtranslate_page_repx s ch k page :
  0 <= k <= 2 -> 0 <= rec_index s < 512 -> repx (rec_index s) s ch -> p4_index page <> rec_index s ->
  rtranslate_page s k page = Ok (s, t_translate_page ch (idx_list k page) k).
Proof.
  intros Hk Hr Hx Hne. pose proof (rdescend_repx s ch k page Hk Hr Hx Hne) as Hd.
  unfold rtranslate_page, t_translate_page.
  destruct (slot_at ch (idx_list k page)) as [n|e].
  2:{ rewrite Hd. reflexivity. }
  destruct Hd as (sl & -> & Hre). cbn [rb].
  destruct n as [|w|f fl sub]; cbn [rep_entry] in Hre.
  - rewrite Hre. reflexivity.
  - destruct Hre as [-> (Hw & Hp & Hh & _)].
    assert (Hnz : (w =? 0) = false) by (apply Z.eqb_neq; intros H0; rewrite H0, Z.bits_0 in Hp; discriminate).
    rewrite Hnz. change (e_addr w) with (leaf_addr w).
    destruct (Z.eqb_spec k 0) as [->|Hk0]; cbn [negb andb].
    + change (size_of_kind 0) with S4K. destruct (negb (leaf_addr w mod S4K =? 0)); reflexivity.
    + rewrite e_huge_bit, (Hh ltac:(lia)). cbn [negb].
      destruct (negb (leaf_addr w mod size_of_kind k =? 0)); reflexivity.
  - destruct Hre as (-> & Hf & Hfl & Hsub). destruct (tab_word f fl Hf Hfl) as (Hnz & Hhu & _).
    apply Z.eqb_neq in Hnz. rewrite Hnz, Hhu.
    destruct (Z.eqb_spec k 0) as [->|Hk0].
    + cbn in Hsub. contradiction.
    + cbn [negb andb rfin]. reflexivity.
Qed.
