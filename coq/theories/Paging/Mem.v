(* Simulated physical memory for the mapper models: a background function (memory pre-filled
   with arbitrary non-zero words) plus a finite map of overrides, the frame allocator as an
   oracle stream and the deallocation log. *)
From Coq Require Import FMapPositive.
From X86 Require Export Base.Word Addr.Model Paging.Entry.
Open Scope Z_scope.

(* splitmix64-style mixer, also used by the harness to pre-fill physical memory *)
Definition mix64 (z : Z) : Z :=
  let z := wrap64 (Z.lxor z (Z.shiftr z 30) * 13787848793156543929) in
  let z := wrap64 (Z.lxor z (Z.shiftr z 27) * 10723151780598845931) in
  Z.lxor z (Z.shiftr z 31).
(* what "memory pre-filled with arbitrary non-zero words" holds at address a (cheap on purpose:
   it is evaluated for every untouched word) *)
Definition background (a : Z) : Z :=
  Z.lor (Z.lxor a 6148914691236517204) (Z.land (Z.shiftr a 3) 1).   (* (a ^ 0x5555..54) | ((a >> 3) & 1): never zero, PRESENT in every second word *)

Definition key (a : Z) : positive := Z.to_pos (a / 8 + 1).
Record pstate := {
  pmem : PositiveMap.t Z;
  root : Z;                      (* frame of the level-4 table (CR3) *)
  alloc : list Z;                (* allocator oracle: frames to hand out, -1 = allocation fails *)
  nalloc : Z;                    (* number of allocate_frame calls so far *)
  freed : list Z;                (* deallocate_frame calls, most recent first *)
  rec_index : Z;                 (* recursive index (recursive mapper only) *)
  faulted : bool                 (* a recursive access did not resolve (page fault) *)
}.
Definition rd (s : pstate) (a : Z) : Z :=
  match PositiveMap.find (key a) (pmem s) with Some v => v | None => background a end.
Definition with_mem (s : pstate) (m : PositiveMap.t Z) : pstate :=
  {| pmem := m; root := root s; alloc := alloc s; nalloc := nalloc s; freed := freed s;
     rec_index := rec_index s; faulted := faulted s |}.
Definition wr (s : pstate) (a v : Z) : pstate := with_mem s (PositiveMap.add (key a) v (pmem s)).
Definition set_fault (s : pstate) : pstate :=
  {| pmem := pmem s; root := root s; alloc := alloc s; nalloc := nalloc s; freed := freed s;
     rec_index := rec_index s; faulted := true |}.
(* FrameAllocator::allocate_frame *)
Definition allocate (s : pstate) : option Z * pstate :=
  let s' := fun rest => {| pmem := pmem s; root := root s; alloc := rest; nalloc := nalloc s + 1;
                           freed := freed s; rec_index := rec_index s; faulted := faulted s |} in
  match alloc s with
  | [] => (None, s' [])
  | f :: rest => ((if (f <? 0) || (W63 <=? f) then None else Some f), s' rest)   (* as i64 < 0 *)
  end.
Definition deallocate (s : pstate) (f : Z) : pstate :=
  {| pmem := pmem s; root := root s; alloc := alloc s; nalloc := nalloc s; freed := f :: freed s;
     rec_index := rec_index s; faulted := faulted s |}.

(* PageTable::zero on the table in frame f: 512 writes, ascending *)
Fixpoint zero_from (s : pstate) (a : Z) (n : nat) : pstate :=
  match n with O => s | S n' => zero_from (wr s a 0) (a + 8) n' end.
Definition zero_table (s : pstate) (f : Z) : pstate := zero_from s f 512.
Fixpoint all_unused_from (s : pstate) (a : Z) (n : nat) : bool :=
  match n with O => true | S n' => (rd s a =? 0) && all_unused_from s (a + 8) n' end.
Definition table_all_unused (s : pstate) (f : Z) : bool := all_unused_from s f 512.

Definition init_pstate (root_frame : Z) (allocs : list Z) (r : Z) : pstate :=
  zero_table {| pmem := PositiveMap.empty Z; root := root_frame; alloc := allocs; nalloc := 0;
                freed := []; rec_index := r; faulted := false |} root_frame.

(* ---------- an independent, hardware-style 4-level walk ---------- *)
Definition M1G : Z := 4503598553628672.   (* 0x000f_ffff_c000_0000 *)
Definition M2M : Z := 4503599625273344.   (* 0x000f_ffff_ffe0_0000 *)
Record walk_result := { w_phys : Z; w_size : Z; w_leaf : Z; w_writable : bool; w_user : bool }.
Definition bit_set (e i : Z) : bool := Z.testbit e i.
Definition hw_walk (s : pstate) (va : Z) : option walk_result :=
  let e4 := rd s (root s + 8 * p4_index va) in
  if negb (bit_set e4 0) then None else
  let e3 := rd s (Z.land e4 ADDR_MASK + 8 * p3_index va) in
  if negb (bit_set e3 0) then None else
  if bit_set e3 7 then
    Some {| w_phys := Z.land e3 M1G + va mod S1G; w_size := S1G; w_leaf := e3;
            w_writable := bit_set e4 1 && bit_set e3 1; w_user := bit_set e4 2 && bit_set e3 2 |}
  else
  let e2 := rd s (Z.land e3 ADDR_MASK + 8 * p2_index va) in
  if negb (bit_set e2 0) then None else
  if bit_set e2 7 then
    Some {| w_phys := Z.land e2 M2M + va mod S2M; w_size := S2M; w_leaf := e2;
            w_writable := bit_set e4 1 && bit_set e3 1 && bit_set e2 1;
            w_user := bit_set e4 2 && bit_set e3 2 && bit_set e2 2 |}
  else
  let e1 := rd s (Z.land e2 ADDR_MASK + 8 * p1_index va) in
  if negb (bit_set e1 0) then None else
    Some {| w_phys := Z.land e1 ADDR_MASK + va mod S4K; w_size := S4K; w_leaf := e1;
            w_writable := bit_set e4 1 && bit_set e3 1 && bit_set e2 1 && bit_set e1 1;
            w_user := bit_set e4 2 && bit_set e3 2 && bit_set e2 2 && bit_set e1 2 |}.
