(* Model of PageTableEntry and PageTable (src/structures/paging/page_table.rs). *)
From X86 Require Export Base.Word Addr.Model.
Open Scope Z_scope.

(* all bits declared in the bitflags! block: 0..12 and 52..63 *)
Definition PTF_ALL : Z := 18442240474082189311.     (* 0xfff0_0000_0000_1fff *)
Definition PTF_PRESENT : Z := 1.
Definition PTF_WRITABLE : Z := 2.
Definition PTF_USER : Z := 4.
Definition PTF_HUGE : Z := 128.
Definition PTF_PAT_HUGE : Z := 4096.
Definition ADDR_MASK : Z := 4503599627366400.         (* 0x000f_ffff_ffff_f000 *)

Definition pte_new : Z := 0.
Definition pte_is_unused (e : Z) : bool := e =? 0.
Definition pte_set_unused (e : Z) : Z := 0.
Definition pte_flags (e : Z) : Z := Z.land e PTF_ALL.            (* from_bits_truncate *)
Definition flags_contains (f g : Z) : bool := Z.land f g =? g.
Definition pte_frame (e : Z) : res (option Z) :=
  if flags_contains (pte_flags e) PTF_PRESENT then
    do a <- pte_addr e; rmap Some (frame_containing S4K a)
  else Ok None.                                                    (* FrameNotPresent *)
(* addr: a PhysAddr value; flags: a PageTableFlags value *)
Definition pte_set_addr (e addr flags : Z) : res Z :=
  do al <- pa_is_aligned addr S4K;
  if al then Ok (Z.lor addr flags) else Panic.
Definition pte_set_frame (e frame flags : Z) : res Z := pte_set_addr e frame flags.
Definition pte_set_flags (e flags : Z) : res Z :=
  do a <- pte_addr e; Ok (Z.lor a flags).

(* a table is 512 words *)
Definition table := list Z.
Definition table_new : table := repeat 0 512.
Definition table_get (t : table) (i : Z) : res Z :=
  if (0 <=? i) && (i <? 512) then Ok (nth (Z.to_nat i) t 0) else Panic.
Definition table_set (t : table) (i v : Z) : res table :=
  if (0 <=? i) && (i <? 512) then
    Ok (firstn (Z.to_nat i) t ++ v :: skipn (S (Z.to_nat i)) t)
  else Panic.
Definition table_zero (t : table) : table := map pte_set_unused t.
Definition table_is_empty (t : table) : bool := forallb pte_is_unused t.

(* little-endian byte image *)
Definition byte_of (w j : Z) : Z := (w / 2 ^ (8 * j)) mod 256.
Definition word_bytes (w : Z) : list Z := map (fun j => byte_of w (Z.of_nat j)) (seq 0 8).
Definition table_bytes (t : table) : list Z := flat_map word_bytes t.
