(* set_flags_p4/p3/p2_entry of the MappedPageTable memory model refines the tree operation. *)
From X86 Require Import Base.Bits Addr.Index Paging.EntryProofs Paging.Mapped Paging.MemProofs
  Paging.Tree Paging.TreeProofs Paging.Refine Paging.RefineOps.
Require Import Lia ZifyBool.
Open Scope Z_scope.

(* the path to the parent entry of `level` *)
Definition pidx (level page : Z) : list Z :=
  if level =? 4 then [p4_index page]
  else if level =? 3 then [p4_index page; p3_index page]
  else [p4_index page; p3_index page; p2_index page].
Lemma pidx_firstn level page : 2 <= level <= 4 ->
  firstn (Z.to_nat (5 - level)) (idx_list 0 page) = map Z.to_nat (pidx level page).
Proof.
  intros H. unfold pidx. assert (level = 4 \/ level = 3 \/ level = 2) as [-> | [-> | ->]] by lia; reflexivity.
Qed.
Lemma pidx_ok level page : 2 <= level <= 4 ->
  pidx level page <> [] /\ (length (pidx level page) <= 4)%nat /\ Forall (fun i => 0 <= i < 512) (pidx level page) /\
  (4 - length (pidx level page))%nat = Z.to_nat (level - 1).
Proof.
  intros H. destruct (index_ranges page) as (H1 & H2 & H3 & H4 & _). unfold pidx.
  assert (level = 4 \/ level = 3 \/ level = 2) as [-> | [-> | ->]] by lia; cbn;
    (split; [discriminate|]); (split; [lia|]); (split; [repeat constructor; lia|reflexivity]).
Qed.

(* the memory model reaches the parent entry through the same walk *)
Lemma parent_slot s k level page : 2 <= level <= 4 -> 0 <= k <= 2 ->
  negb ((level =? 3) && (k =? 2)) = true -> negb ((level =? 2) && negb (k =? 0)) = true ->
  forall flags,
  set_flags_parent s k level page flags =
    match mslot s (root s) (pidx level page) with
    | inr e => (s, e)
    | inl slot =>
        let e := rd s slot in
        if e =? 0 then (s, [E_NOT_MAPPED])
        else if negb (level =? 4) && e_huge e then (s, [E_PARENT_HUGE])
        else (wr s slot (e_set_flags e flags), [0])
    end.
Proof.
  intros Hl Hk G1 G2 flags. unfold set_flags_parent, pidx, slot4.
  destruct (Z.eqb_spec level 4) as [->|N4].
  - cbn [mslot negb andb]. reflexivity.
  - apply Bool.negb_true_iff in G1, G2. rewrite G1, G2.
    destruct (Z.eqb_spec level 3) as [->|N3].
    + rewrite (descend_mslot s 2 page ltac:(lia)). change (zidx_list 2 page) with [p4_index page; p3_index page].
      destruct (mslot s (root s) [p4_index page; p3_index page]); [|reflexivity]. cbn [negb andb]. reflexivity.
    + rewrite (descend_mslot s 1 page ltac:(lia)). change (zidx_list 1 page) with [p4_index page; p3_index page; p2_index page].
      destruct (mslot s (root s) [p4_index page; p3_index page; p2_index page]); [|reflexivity]. cbn [negb andb]. reflexivity.
Qed.

Theorem set_flags_parent_refines s ch k level page flags fr r0 :
  2 <= level <= 4 -> 0 <= k <= 2 -> rep 4 s ch (root s) -> tframe (root s) -> sep s (root s) ch ->
  pflags_ok flags ->
  let s' := fst (set_flags_parent s k level page flags) in
  let r := apply_op false r0 {| t_root := ch; t_aor := aor_of s; t_freed := fr |} (OSetParent k level page flags) in
  snd (set_flags_parent s k level page flags) = snd r /\ t_aor (fst r) = aor_of s /\ t_freed (fst r) = fr /\
  rep 4 s' (t_root (fst r)) (root s') /\ sep s' (root s') (t_root (fst r)) /\ same_alloc s s' /\
  (forall a, 0 <= a -> ~ in_frames (root s :: frames_of ch) a -> rd s' a = rd s a).
Proof.
  intros Hl Hk Hrep Ht Hsep Hfl. cbn [apply_op t_root t_aor t_freed].
  assert (Hunch : rep 4 s ch (root s) /\ sep s (root s) ch /\
      same_alloc s s /\ (forall a, 0 <= a -> ~ in_frames (root s :: frames_of ch) a -> rd s a = rd s a)).
  { split; [exact Hrep|]. split; [exact Hsep|]. split; [apply same_alloc_refl|]. intros; reflexivity. }
  destruct ((level =? 3) && (k =? 2))%bool eqn:G1.
  { unfold set_flags_parent. assert (level =? 4 = false) by lia. rewrite H, G1. cbn [fst snd t_root].
    split; [reflexivity|]. split; [reflexivity|]. split; [reflexivity|exact Hunch]. }
  destruct ((level =? 2) && negb (k =? 0))%bool eqn:G2.
  { unfold set_flags_parent. assert (level =? 4 = false) by lia. rewrite H, G1, G2. cbn [fst snd t_root].
    split; [reflexivity|]. split; [reflexivity|]. split; [reflexivity|exact Hunch]. }
  rewrite (parent_slot s k level page Hl Hk) by (rewrite ?G1, ?G2; reflexivity).
  rewrite (pidx_firstn level page Hl). unfold t_set_flags_parent.
  destruct (pidx_ok level page Hl) as (Pne & Plen & Pr & Plv).
  pose proof (mslot_rep (pidx level page) 3 s (root s) ch Hrep Ht Pne Plen Pr) as Hm. rewrite Plv in Hm.
  destruct (slot_at ch (map Z.to_nat (pidx level page))) as [n|e] eqn:Hsa.
  2:{ rewrite Hm. cbn [fst snd t_root]. split; [reflexivity|]. split; [reflexivity|]. split; [reflexivity|exact Hunch]. }
  destruct Hm as (sl & Hms & Hsl & Hre & _). rewrite Hms. cbv zeta.
  destruct n as [|w|f fl sub]; cbn [rep_entry] in Hre.
  - rewrite Hre. cbn [Z.eqb fst snd t_root]. split; [reflexivity|]. split; [reflexivity|]. split; [reflexivity|exact Hunch].
  - destruct Hre as [Hre (Hw & Hp & Hh & Hlv)]. rewrite Hre.
    assert (Hnz : (w =? 0) = false).
    { apply Z.eqb_neq. intros H0. rewrite H0, Z.bits_0 in Hp. discriminate. }
    rewrite Hnz.
    (* a leaf at level 4 cannot be represented; below, it is a huge page *)
    destruct (Z.eqb_spec level 4) as [->|N4]; [cbn in Hlv; lia|].
    rewrite e_huge_bit, (Hh ltac:(lia)). cbn [negb andb fst snd t_root]. split; [reflexivity|]. split; [reflexivity|]. split; [reflexivity|exact Hunch].
  - destruct Hre as (Hre & Hf & Hfl0 & Hsub). rewrite Hre.
    destruct (tab_word f fl Hf Hfl0) as (Hnz & Hhu & _ & Ha & _).
    apply Z.eqb_neq in Hnz. rewrite Hnz, Hhu. rewrite Bool.andb_false_r.
    unfold e_set_flags. rewrite Ha. cbn [fst snd t_root].
    destruct (set_slot_sim (pidx level page) 3 s (root s) ch (Tab f fl sub) (Tab f flags sub) sl (Z.lor f flags)
                Hrep Ht Hsep Pne Plen Pr Hsa Hms eq_refl) as (R & F & O).
    { intros s' Hag. rewrite Plv. cbn [rep_entry]. split; [reflexivity|]. split; [exact Hf|]. split; [exact Hfl|].
      apply (rep_frame _ s s' sub f); [|destruct Hf; lia|exact Hsub].
      intros a Ha0 Hin. apply Hag; [exact Ha0|]. exact Hin. }
    split; [reflexivity|]. split; [reflexivity|]. split; [reflexivity|]. split; [exact R|]. split; [unfold sep in *; rewrite F; exact Hsep|].
    split; [apply same_alloc_wr|exact O].
Qed.
