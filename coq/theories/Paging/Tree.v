(* The abstract layer: a page-table hierarchy as a 4-level radix tree with leaves allowed at
   levels 3, 2 (huge pages) and 1.  The mapper operations are pure functions on trees that
   decide exactly as the Rust code decides (after the fix: commits); the theorems of C01, C02,
   C10 and the token half of C11 are about this model, which is tied to the implementation by
   the correspondence check (engine "tree": same histories, same answers). *)
From X86 Require Export Paging.Mapped.
Open Scope Z_scope.

Inductive node :=
| Empty
| Leaf (w : Z)                              (* the leaf entry word: frame | flags *)
| Tab (frame fl : Z) (ch : list node).      (* a table: its frame, the flags of the entry
                                               pointing to it, its 512 slots *)
Definition empty_children : list node := repeat Empty 512.
Definition child (ch : list node) (i : nat) : node := nth i ch Empty.
(* total update: slots beyond the end of the list are Empty (child's default), so
   child (set_child ch i n) j = if i = j then n else child ch j holds for every list *)
Fixpoint set_child (ch : list node) (i : nat) (n : node) : list node :=
  match i, ch with
  | O, [] => [n]
  | O, _ :: t => n :: t
  | S i', [] => Empty :: set_child [] i' n
  | S i', x :: t => x :: set_child t i' n
  end.

(* allocator oracle as in Paging/Mem.v: (frames still to hand out, calls so far) *)
Definition aor := (list Z * Z)%type.
Definition t_alloc (a : aor) : option Z * aor :=
  match fst a with
  | [] => (None, ([], snd a + 1))
  | f :: rest => ((if (f <? 0) || (W63 <=? f) then None else Some f), (rest, snd a + 1))
  end.

(* result of walking/creating along a path *)
Inductive tres :=
| TOk (o : out)
| TErr (o : out).

(* ---------- map ---------- *)
(* table node `ch` (its children), remaining indices, the leaf word, requested parent flags,
   whether the mapper is the recursive one (new parents get PRESENT|WRITABLE|pflags) *)
Definition new_parent_flags (recursive : bool) (pflags : Z) : Z :=
  if recursive then Z.lor (Z.lor PTF_PRESENT PTF_WRITABLE) pflags else pflags.
Definition widen (fl pflags : Z) : Z :=
  if negb (pflags =? 0) && negb (has fl pflags) then Z.lor fl pflags else fl.

Fixpoint map_path (recursive : bool) (ch : list node) (idxs : list nat) (w frame page pflags : Z)
  (a : aor) : list node * aor * tres :=
  match idxs with
  | [] => (ch, a, TErr [-99])
  | [i] =>
      match child ch i with
      | Empty => (set_child ch i (Leaf w), a, TOk [0; page])
      | _ => (ch, a, TErr [E_ALREADY_MAPPED; frame])
      end
  | i :: rest =>
      match child ch i with
      | Empty =>
          match t_alloc a with
          | (None, a') => (ch, a', TErr [E_ALLOC_FAILED])
          | (Some f, a') =>
              let '(ch', a'', r) := map_path recursive empty_children rest w frame page pflags a' in
              (set_child ch i (Tab f (new_parent_flags recursive pflags) ch'), a'', r)
          end
      | Leaf _ => (ch, a, TErr [E_PARENT_HUGE])
      | Tab f fl sub =>
          let '(sub', a', r) := map_path recursive sub rest w frame page pflags a in
          (set_child ch i (Tab f (widen fl pflags) sub'), a', r)
      end
  end.

(* ---------- walking down to the slot of a given size ---------- *)
(* the node stored in the slot at the end of the path, or the walk error *)
Fixpoint slot_at (ch : list node) (idxs : list nat) : node + out :=
  match idxs with
  | [] => inr [-99]
  | [i] => inl (child ch i)
  | i :: rest =>
      match child ch i with
      | Empty => inr [E_NOT_MAPPED]
      | Leaf _ => inr [E_PARENT_HUGE]
      | Tab _ _ sub => slot_at sub rest
      end
  end.
Fixpoint set_slot (ch : list node) (idxs : list nat) (n : node) : list node :=
  match idxs with
  | [] => ch
  | [i] => set_child ch i n
  | i :: rest =>
      match child ch i with
      | Tab f fl sub => set_child ch i (Tab f fl (set_slot sub rest n))
      | _ => ch
      end
  end.

Definition leaf_addr (w : Z) : Z := Z.land w ADDR_MASK.

Definition t_unmap (ch : list node) (idxs : list nat) (k page : Z) : list node * out :=
  match slot_at ch idxs with
  | inr e => (ch, e)
  | inl Empty => (ch, [E_NOT_MAPPED])
  | inl (Tab _ _ _) => (ch, [E_PARENT_HUGE])       (* present, not HUGE_PAGE: see observation O2 *)
  | inl (Leaf w) =>
      if negb (leaf_addr w mod size_of_kind k =? 0) then (ch, [E_INVALID_FRAME; leaf_addr w])
      else (set_slot ch idxs Empty, [0; leaf_addr w; page])
  end.

Definition t_update_flags (ch : list node) (idxs : list nat) (k page flags : Z) : list node * out :=
  match slot_at ch idxs with
  | inr e => (ch, e)
  | inl Empty => (ch, [E_NOT_MAPPED])
  | inl (Tab _ _ _) => (ch, [E_PARENT_HUGE])
  | inl (Leaf w) =>
      let fl := if k =? 0 then flags else Z.lor flags PTF_HUGE in
      (set_slot ch idxs (Leaf (Z.lor (leaf_addr w) fl)), [0; page])
  end.

Definition t_translate_page (ch : list node) (idxs : list nat) (k : Z) : out :=
  match slot_at ch idxs with
  | inr e => e
  | inl Empty => [E_NOT_MAPPED]
  | inl (Tab _ _ _) => [E_PARENT_HUGE]
  | inl (Leaf w) =>
      if negb (leaf_addr w mod size_of_kind k =? 0) then [E_INVALID_FRAME; leaf_addr w]
      else [0; leaf_addr w]
  end.

(* set_flags_p{4,3,2}_entry: the path to the parent entry of that level *)
Definition t_set_flags_parent (ch : list node) (idxs : list nat) (flags : Z) : list node * out :=
  match slot_at ch idxs with
  | inr e => (ch, e)
  | inl Empty => (ch, [E_NOT_MAPPED])
  | inl (Leaf _) => (ch, [E_PARENT_HUGE])
  | inl (Tab f fl sub) => (set_slot ch idxs (Tab f flags sub), [0])
  end.

(* ---------- the walk an MMU does: leaf word, level (3, 2 or 1), AND of W and of U ---------- *)
Fixpoint t_walk (ch : list node) (idxs : list nat) (lvl : Z) (wr us : bool) : option (Z * Z * bool * bool) :=
  match idxs with
  | [] => None
  | i :: rest =>
      match child ch i with
      | Empty => None
      | Leaf w => Some (w, lvl, wr && Z.testbit w 1, us && Z.testbit w 2)
      | Tab _ fl sub => t_walk sub rest (lvl - 1) (wr && Z.testbit fl 1) (us && Z.testbit fl 2)
      end
  end.

(* ---------- clean_up: prune empty tables that intersect the page range ---------- *)
Definition all_empty (ch : list node) : bool :=
  forallb (fun n => match n with Empty => true | _ => false end) ch.
(* a table at `level` covering virtual positions [base, base + 512 * span), span = positions
   (in 4 KiB pages, in the contiguous canonical numbering) covered by one slot; [rs, re] the
   inclusive range of page positions; skip = slot not to descend into (recursive slot) *)
Fixpoint prune_children (prune : list node -> Z -> list node * list Z)
  (ch : list node) (i : Z) (base span rs re : Z) (skip : Z) : list node * list Z :=
  match ch with
  | [] => ([], [])
  | n :: rest =>
      let lo := base + i * span in
      let hi := lo + span - 1 in
      let '(n', freed1) :=
        match n with
        | Tab f fl sub =>
            if (hi <? rs) || (re <? lo) || (i =? skip) then (n, [])
            else
              let '(sub', fr) := prune sub lo in
              if all_empty sub' then (Empty, fr ++ [f]) else (Tab f fl sub', fr)
        | _ => (n, [])
        end in
      let '(rest', freed2) := prune_children prune rest (i + 1) base span rs re skip in
      (n' :: rest', freed1 ++ freed2)
  end.
Fixpoint prune (level : nat) (rs re skip4 : Z) (ch : list node) (base : Z) : list node * list Z :=
  match level with
  | O => (ch, [])
  | S l =>
      (* span of one slot of a level-(l+1) table in pages: 512^l *)
      let span := 512 ^ Z.of_nat l in
      if (l =? 0)%nat then (ch, [])
      else prune_children (prune l rs re (-1)) ch 0 base span rs re skip4
  end.

(* ---------- the operations of the Mapper / Translate / CleanUp traits on a tree state ---------- *)
Definition idx_list (k page : Z) : list nat :=
  let i4 := Z.to_nat (p4_index page) in
  let i3 := Z.to_nat (p3_index page) in
  let i2 := Z.to_nat (p2_index page) in
  let i1 := Z.to_nat (p1_index page) in
  if k =? 2 then [i4; i3] else if k =? 1 then [i4; i3; i2] else [i4; i3; i2; i1].

Record tstate := { t_root : list node; t_aor : aor; t_freed : list Z (* oldest first *) }.

Inductive top :=
| OMap (k page frame flags pflags : Z)        (* map_to_with_table_flags; map_to and identity_map reduce to it *)
| OUnmap (k page : Z)
| OUpdate (k page flags : Z)
| OSetParent (k level page flags : Z)         (* set_flags_p{4,3,2}_entry *)
| OTranslatePage (k page : Z)
| OTranslate (va : Z)
| OTranslateAddr (va : Z)
| OCleanAll
| OCleanRange (rs re : Z)
| OHw (va : Z)                                (* the independent hardware-style walk *)
| ODump
| OFreed.

Definition t_translate (ch : list node) (va : Z) : out :=
  match t_walk ch (idx_list 0 va) 4 true true with
  | None => [E_NOT_MAPPED]
  | Some (w, lvl, _, _) =>
      if lvl =? 3 then [0; S1G; leaf_addr w - leaf_addr w mod S1G; Z.land va 1073741823; e_flags w]
      else if lvl =? 2 then [0; S2M; leaf_addr w - leaf_addr w mod S2M; Z.land va 2097151; e_flags w]
      else [0; S4K; leaf_addr w; Z.land va 4095; e_flags w]
  end.
Definition t_hw (ch : list node) (va : Z) : out :=
  match t_walk ch (idx_list 0 va) 4 true true with
  | None => [NONE]
  | Some (w, lvl, wr, us) =>
      let size := if lvl =? 3 then S1G else if lvl =? 2 then S2M else S4K in
      [leaf_addr w - leaf_addr w mod size + Z.land va (size - 1); size; w; b2z wr; b2z us]
  end.

Definition page_pos (va : Z) : Z := Z.land (Z.shiftr va 12) (2 ^ 36 - 1).
Definition leaf_word (k frame flags : Z) : Z :=
  if k =? 0 then Z.lor frame flags else Z.lor frame (Z.lor flags PTF_HUGE).

(* rec: the recursive mapper (new parents get PRESENT|WRITABLE|pflags; clean_up skips slot r) *)
Definition apply_op (rec : bool) (r : Z) (s : tstate) (op : top) : tstate * out :=
  let ch := t_root s in
  let upd ch' := {| t_root := ch'; t_aor := t_aor s; t_freed := t_freed s |} in
  match op with
  | OMap k page frame flags pf =>
      let '(ch', a', res) := map_path rec ch (idx_list k page) (leaf_word k frame flags) frame page pf (t_aor s) in
      ({| t_root := ch'; t_aor := a'; t_freed := t_freed s |},
       match res with TOk o => o | TErr o => o end)
  | OUnmap k page => let '(ch', o) := t_unmap ch (idx_list k page) k page in (upd ch', o)
  | OUpdate k page flags =>
      let '(ch', o) := t_update_flags ch (idx_list k page) k page flags in (upd ch', o)
  | OSetParent k level page flags =>
      if (level =? 3) && (k =? 2) then (s, [E_PARENT_HUGE])
      else if (level =? 2) && negb (k =? 0) then (s, [E_PARENT_HUGE])
      else
        let idxs := firstn (Z.to_nat (5 - level)) (idx_list 0 page) in
        let '(ch', o) := t_set_flags_parent ch idxs flags in (upd ch', o)
  | OTranslatePage k page => (s, t_translate_page ch (idx_list k page) k)
  | OTranslate va => (s, t_translate ch va)
  | OTranslateAddr va =>
      (s, match t_translate ch va with [0; _; f; off; _] => [f + off] | _ => [NONE] end)
  | OCleanAll =>
      let '(ch', fr) := prune 4 0 (2 ^ 36 - 1) (if rec then r else -1) ch 0 in
      ({| t_root := ch'; t_aor := t_aor s; t_freed := t_freed s ++ fr |}, [0])
  | OCleanRange rs re =>
      if re <? rs then (s, [0]) else
      let '(ch', fr) := prune 4 (page_pos rs) (page_pos re) (if rec then r else -1) ch 0 in
      ({| t_root := ch'; t_aor := t_aor s; t_freed := t_freed s ++ fr |}, [0])
  | OHw va => (s, t_hw ch va)
  | ODump => (s, [])
  | OFreed => (s, t_freed s)
  end.

Definition t_init (allocs : list Z) : tstate :=
  {| t_root := empty_children; t_aor := (allocs, 0); t_freed := [] |}.
