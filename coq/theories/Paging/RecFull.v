(* The complete refinement theorem for RecursivePageTable: the recursive memory model (every lower
   table reached through a recursive address) refines the tree model of the recursive mapper kind
   (rec = true, recursive index r) on whole histories of map_to / unmap / update_flags /
   set_flags_p*_entry / clean_up_addr_range calls, for pages outside the recursive slot: no panic,
   no fault, the same outputs, and final table memory that represents the tree model's final tree,
   with the same allocator state and the same released frames in the same order. *)
From Coq Require Import FMapPositive.
From X86 Require Import Base.Bits Addr.Canon Addr.Index Paging.EntryProofs Paging.Mapped Paging.MemProofs
  Paging.Tree Paging.TreeProofs Paging.Refine Paging.RefineOps Paging.RefineParent Paging.RefineWalk
  Paging.RefineHistory Paging.RefineClean Paging.RefineHistoryClean Paging.TreeClean Paging.RefineCleanExact
  Paging.CleanArith Paging.Recursive Paging.RecNew Paging.RecNewProofs Paging.RecResolve Paging.RecRead
  Paging.RecEquiv Paging.RecMap Paging.RecRefineTop Paging.RecRefine Paging.RefineFull Paging.RecCleanTop
  Paging.Run.
Require Import Lia ZifyBool.
Open Scope Z_scope.

(* ---------- the definitions ---------- *)
Definition rcmem_apply (s : pstate) (c : cop) : res (pstate * out) :=
  match c with
  | CCall o => rmem_apply s o
  | CClean rs re => rmap (fun s' => (s', [0])) (rclean_up_addr_range s rs re)
  end.
Fixpoint rcmem_run (s : pstate) (ops : list cop) : res (pstate * list out) :=
  match ops with
  | [] => Ok (s, [])
  | o :: rest =>
      do r <- rcmem_apply s o;
      do r2 <- rcmem_run (fst r) rest;
      Ok (fst r2, snd r :: snd r2)
  end.
Definition cop_outside (r : Z) (c : cop) : Prop :=
  match c with CCall o => p4_index (mop_page o) <> r | CClean _ _ => True end.
Fixpoint tree_run_k (rec : bool) (r : Z) (st : tstate) (ops : list top) : tstate * list out :=
  match ops with
  | [] => (st, [])
  | o :: rest =>
      let '(st1, o1) := apply_op rec r st o in
      let '(st2, os) := tree_run_k rec r st1 rest in (st2, o1 :: os)
  end.

(* ---------- the fault flag is not touched by the memory model of the four calls ---------- *)
Lemma faulted_zero_from n : forall s a, faulted (zero_from s a n) = faulted s.
Proof. induction n as [|n IH]; intros s a; [reflexivity|]. cbn [zero_from]. rewrite IH. reflexivity. Qed.
Lemma faulted_allocate s : faulted (snd (allocate s)) = faulted s.
Proof. unfold allocate. destruct (alloc s); reflexivity. Qed.
Lemma faulted_create s slot cf pf s' c :
  create_next_table_g s slot cf pf = Ok (s', c) -> faulted s' = faulted s.
Proof.
  unfold create_next_table_g. intros H.
  destruct (rd s slot =? 0).
  - pose proof (faulted_allocate s) as Ha. destruct (allocate s) as [[f|] s1]; cbn [snd] in Ha.
    + destruct (negb (f mod 4096 =? 0)); [discriminate|].
      destruct (next_table (rd (wr s1 slot (Z.lor f cf)) slot)); try discriminate; inversion H; subst.
      * unfold zero_table. rewrite faulted_zero_from. exact Ha.
      * exact Ha.
    + inversion H; subst. exact Ha.
  - destruct (e_huge (rd s slot)); [inversion H; subst; reflexivity|].
    match type of H with context [next_table (rd ?x slot)] => set (s1 := x) in * end.
    assert (Hs1 : faulted s1 = faulted s).
    { subst s1. destruct (negb (pf =? 0) && negb (has (e_flags (rd s slot)) pf))%bool; reflexivity. }
    destruct (next_table (rd s1 slot)); try discriminate; inversion H; subst; exact Hs1.
Qed.
Lemma faulted_mmap rc idxs : forall s t w frame page pf s' o,
  mmap rc s t idxs w frame page pf = Ok (s', o) -> faulted s' = faulted s.
Proof.
  induction idxs as [|i rest IH]; intros s t w frame page pf s' o H.
  - cbn [mmap] in H. inversion H; subst. reflexivity.
  - destruct rest as [|i2 rest].
    + cbn [mmap] in H. destruct (negb (rd s (t + 8 * i) =? 0)); inversion H; subst; reflexivity.
    + change (mmap rc s t (i :: i2 :: rest) w frame page pf) with
        (do r <- create_next_table_g s (t + 8 * i) (new_parent_flags rc pf) pf;
         match snd r with
         | CTable t' => mmap rc (fst r) t' (i2 :: rest) w frame page pf
         | c => Ok (fst r, cerr c)
         end) in H.
      destruct (create_next_table_g s (t + 8 * i) (new_parent_flags rc pf) pf) as [[s1 c]|] eqn:Hc; [|discriminate].
      cbn [bind fst snd] in H. apply faulted_create in Hc.
      destruct c as [t'| |].
      * apply IH in H. congruence.
      * inversion H; subst. exact Hc.
      * inversion H; subst. exact Hc.
Qed.
Lemma faulted_map_to_rc rc s k page frame flags pf s' o :
  map_to_rc rc s k page frame flags pf = Ok (s', o) -> faulted s' = faulted s.
Proof. apply faulted_mmap. Qed.

Ltac ifs := repeat match goal with |- context [if ?b then _ else _] => destruct b end.
Lemma faulted_unmap s k page : faulted (fst (unmap s k page)) = faulted s.
Proof. unfold unmap. destruct (descend s k page); [|reflexivity]. cbv zeta. ifs; reflexivity. Qed.
Lemma faulted_update_flags s k page flags : faulted (fst (update_flags s k page flags)) = faulted s.
Proof. unfold update_flags. destruct (descend s k page); [|reflexivity]. cbv zeta. ifs; reflexivity. Qed.
Lemma faulted_set_flags_parent s k level page flags :
  faulted (fst (set_flags_parent s k level page flags)) = faulted s.
Proof.
  unfold set_flags_parent. cbv zeta.
  destruct (level =? 4); [ifs; reflexivity|].
  destruct ((level =? 3) && (k =? 2))%bool; [reflexivity|].
  destruct ((level =? 2) && negb (k =? 0))%bool; [reflexivity|].
  destruct (descend s (if level =? 3 then 2 else 1) page); [|reflexivity]. ifs; reflexivity.
Qed.

(* ---------- the four calls on the recursive model leave the log of released frames and the
   fault flag alone ---------- *)
Lemma rmem_apply_freed_faulted r s ch o s' out :
  rInv r s ch -> mop_ok o -> p4_index (mop_page o) <> r -> rmem_apply s o = Ok (s', out) ->
  freed s' = freed s /\ faulted s' = faulted s.
Proof.
  intros Hinv Hok Hne H. pose proof Hinv as (Hr & Hri & Hx & Ht & Hsep).
  pose proof (proj1 (repx_prep r s ch) Hx) as (Hrec & Hrep).
  assert (Hr' : 0 <= rec_index s < 512) by (rewrite Hri; exact Hr).
  assert (Hx' : repx (rec_index s) s ch) by (rewrite Hri; exact Hx).
  destruct o as [k page frame flags pf|k page|k page flags|k level page flags];
    cbn [mop_ok mop_page rmem_apply] in Hok, Hne, H.
  - destruct Hok as (Hk & Hpf & Hw).
    rewrite (rmap_to_eq s ch k page frame flags pf Hk Hr' Hx' Ht Hsep Hpf ltac:(rewrite Hri; exact Hne)) in H.
    destruct (map_to_rc_refines_x r true s ch k page frame flags pf Hk Hne Hrep Ht Hsep Hpf Hw)
      as (s1 & o1 & ch' & a' & res & Hm & _ & _ & _ & _ & Hfr & _).
    rewrite H in Hm. inversion Hm; subst s1 o1.
    split; [exact Hfr|]. apply (faulted_map_to_rc _ _ _ _ _ _ _ _ _ H).
  - rewrite (runmap_eq s ch k page Hok Hr' Hx' ltac:(rewrite Hri; exact Hne)) in H.
    pose proof (unmap_refines_x r s ch k page Hok Hne Hrep Ht Hsep) as (_ & _ & _ & (Hsa & _)).
    pose proof (faulted_unmap s k page) as Hf.
    inversion H as [H1]. rewrite H1 in Hsa, Hf. cbn [fst] in Hsa, Hf.
    destruct Hsa as (_ & _ & Hfr & _). split; [exact Hfr|exact Hf].
  - destruct Hok as (Hk & Hfl & Hfp).
    rewrite (rupdate_flags_eq s ch k page flags Hk Hr' Hx' ltac:(rewrite Hri; exact Hne)) in H.
    pose proof (update_flags_refines_x r s ch k page flags Hk Hne Hrep Ht Hsep Hfl Hfp) as (_ & _ & _ & (Hsa & _)).
    pose proof (faulted_update_flags s k page flags) as Hf.
    inversion H as [H1]. rewrite H1 in Hsa, Hf. cbn [fst] in Hsa, Hf.
    destruct Hsa as (_ & _ & Hfr & _). split; [exact Hfr|exact Hf].
  - destruct Hok as (Hl & Hk & Hfl).
    rewrite (rset_flags_parent_eq s ch k level page flags Hl Hk Hr' Hx' ltac:(rewrite Hri; exact Hne)) in H.
    pose proof (set_flags_parent_refines_x r true s ch k level page flags [] r Hl Hk Hne Hrep Ht Hsep Hfl)
      as (_ & _ & _ & _ & _ & (Hsa & _)).
    pose proof (faulted_set_flags_parent s k level page flags) as Hf.
    inversion H as [H1]. rewrite H1 in Hsa, Hf. cbn [fst] in Hsa, Hf.
    destruct Hsa as (_ & _ & Hfr & _). split; [exact Hfr|exact Hf].
Qed.

(* ---------- well-formedness is preserved by the tree operations of the four calls, for either
   mapper kind ---------- *)
Lemma apply_op_wf_k rec r st o :
  wf_children (t_root st) -> wf_children (t_root (fst (apply_op rec r st (to_top o)))).
Proof.
  intros Hw. destruct o as [k page frame flags pf|k page|k page flags|k level page flags]; cbn [to_top apply_op].
  - pose proof (map_path_wf rec (idx_list k page) (t_root st) (leaf_word k frame flags) frame page pf (t_aor st)
                  (idx_list_small k page) Hw) as H.
    destruct (map_path rec (t_root st) (idx_list k page) (leaf_word k frame flags) frame page pf (t_aor st))
      as [[ch' a'] res]. cbn [fst t_root] in *. exact H.
  - unfold t_unmap. destruct (slot_at (t_root st) (idx_list k page)) as [[|w|f fl sub]|e]; cbn [fst t_root]; try exact Hw.
    destruct (negb (leaf_addr w mod size_of_kind k =? 0)); cbn [fst t_root]; [exact Hw|].
    apply set_slot_wf; [apply idx_list_small|exact I|exact Hw].
  - unfold t_update_flags. destruct (slot_at (t_root st) (idx_list k page)) as [[|w|f fl sub]|e]; cbn [fst t_root]; try exact Hw.
    apply set_slot_wf; [apply idx_list_small|exact I|exact Hw].
  - destruct ((level =? 3) && (k =? 2))%bool; [exact Hw|].
    destruct ((level =? 2) && negb (k =? 0))%bool; [exact Hw|].
    unfold t_set_flags_parent.
    destruct (slot_at (t_root st) (firstn (Z.to_nat (5 - level)) (idx_list 0 page))) as [[|w|f fl sub]|e] eqn:Hs;
      cbn [fst t_root]; try exact Hw.
    apply set_slot_wf; [apply small_firstn; apply idx_list_small| |exact Hw].
    apply wf_node_tab. apply (wf_node_tab f fl). apply (slot_at_wf _ _ _ Hw Hs).
Qed.

(* ---------- one call ---------- *)
Lemma rcstep_refines r s ch c : rInv r s ch -> wf_children ch -> cop_ok2 c -> cop_outside r c ->
  exists s' out ch',
    rcmem_apply s c = Ok (s', out) /\
    apply_op true r (tst ch s (rev (freed s))) (cop_top c) = (tst ch' s' (rev (freed s')), out) /\
    rInv r s' ch' /\ wf_children ch' /\ faulted s' = faulted s.
Proof.
  intros Hinv Hwf Hok Hout. destruct c as [o|rs re]; cbn [cop_ok2 cop_outside rcmem_apply cop_top] in *.
  - destruct (rstep_refines r s ch (rev (freed s)) o Hinv Hok Hout) as (s' & out & ch' & Hm & Ha & Hinv').
    destruct (rmem_apply_freed_faulted r s ch o s' out Hinv Hok Hout Hm) as (Hfr & Hfa).
    exists s', out, ch'. split; [exact Hm|]. rewrite Hfr.
    split; [exact Ha|]. split; [exact Hinv'|]. split; [|exact Hfa].
    pose proof (apply_op_wf_k true r (tst ch s (rev (freed s))) o Hwf) as H.
    rewrite Ha in H. exact H.
  - destruct Hok as (Hcs & Hce & Hms & Hme).
    pose proof (rclean_up_addr_range_is_prune_unconditional r s ch rs re Hinv Hwf Hcs Hce Hms Hme) as Hex.
    cbn [apply_op tst t_root t_aor t_freed].
    destruct (re <? rs) eqn:E.
    + destruct Hex as (s' & Hc & Fa1 & I1 & F1 & A1 & N1 & Ro1 & W1 & _).
      cbn [fst snd] in *.
      exists s', [0], ch. rewrite Hc. cbn [rmap]. split; [reflexivity|].
      cbn [rev app] in F1. split.
      * unfold tst, aor_of. rewrite F1, A1, N1. reflexivity.
      * split; [exact I1|]. split; [exact Hwf|exact Fa1].
    + destruct (prune 4 (page_pos rs) (page_pos re) r ch 0) as [ch' fr].
      destruct Hex as (s' & Hc & Fa1 & I1 & F1 & A1 & N1 & Ro1 & W1 & _).
      cbn [fst snd] in *.
      exists s', [0], ch'. rewrite Hc. cbn [rmap]. split; [reflexivity|]. split.
      * unfold tst, aor_of. rewrite F1, A1, N1, rev_app_distr, rev_involutive. reflexivity.
      * split; [exact I1|]. split; [exact W1|exact Fa1].
Qed.

(* every history of calls outside the recursive slot runs to completion on the recursive memory
   model (no panic, no fault), produces exactly the outputs of the tree model of the recursive
   kind, and ends in table memory that represents the tree model's final tree, with the same
   allocator state and the same released frames in the same order *)
Theorem rcmem_run_refines r ops : forall s ch,
  rInv r s ch -> wf_children ch -> Forall cop_ok2 ops -> Forall (cop_outside r) ops ->
  exists s' ch',
    rcmem_run s ops = Ok (s', snd (tree_run_k true r (tst ch s (rev (freed s))) (map cop_top ops))) /\
    fst (tree_run_k true r (tst ch s (rev (freed s))) (map cop_top ops)) = tst ch' s' (rev (freed s')) /\
    rInv r s' ch' /\ wf_children ch' /\ faulted s' = faulted s.
Proof.
  induction ops as [|c rest IH]; intros s ch Hinv Hwf Hok Hout.
  - exists s, ch. cbn [map tree_run_k rcmem_run fst snd]. split; [reflexivity|]. split; [reflexivity|].
    split; [exact Hinv|]. split; [exact Hwf|reflexivity].
  - inversion Hok as [|? ? Hc Hrest]; subst. inversion Hout as [|? ? Hoc Horest]; subst.
    destruct (rcstep_refines r s ch c Hinv Hwf Hc Hoc) as (s1 & o1 & ch1 & Hm & Ha & Hinv1 & Hwf1 & Hfa1).
    destruct (IH s1 ch1 Hinv1 Hwf1 Hrest Horest) as (s2 & ch2 & Hr & Hf & Hinv2 & Hwf2 & Hfa2).
    exists s2, ch2. cbn [map tree_run_k rcmem_run]. rewrite Hm, Ha. cbn [bind fst snd]. rewrite Hr.
    destruct (tree_run_k true r (tst ch1 s1 (rev (freed s1))) (map cop_top rest)) as [st2 os].
    cbn [bind fst snd] in *. split; [reflexivity|]. split; [exact Hf|]. split; [exact Hinv2|].
    split; [exact Hwf2|congruence].
Qed.

(* the initial state of the recursive memory model is the initial state of the tree model *)
Lemma rtst_init rootf allocs r :
  tst empty_children (rinit rootf allocs r) (rev (freed (rinit rootf allocs r))) = t_init allocs.
Proof. exact (tst_init rootf allocs r). Qed.

Lemma faulted_rinit rootf allocs r : faulted (rinit rootf allocs r) = false.
Proof.
  unfold rinit. cbn [wr with_mem faulted]. unfold init_pstate, zero_table. rewrite faulted_zero_from. reflexivity.
Qed.

Theorem recursive_model_refines_tree_model rootf allocs r ops :
  0 <= r < 512 -> tframe rootf -> sep (init_pstate rootf allocs r) rootf empty_children ->
  Forall cop_ok2 ops -> Forall (cop_outside r) ops ->
  exists s' ch',
    rcmem_run (rinit rootf allocs r) ops = Ok (s', snd (tree_run_k true r (t_init allocs) (map cop_top ops))) /\
    fst (tree_run_k true r (t_init allocs) (map cop_top ops)) = tst ch' s' (rev (freed s')) /\
    rInv r s' ch' /\ wf_children ch' /\ faulted s' = false.
Proof.
  intros Hr Hroot Hsep Hok Hout.
  pose proof (rInv_init rootf allocs r Hr Hroot Hsep) as Hinv.
  pose proof (rcmem_run_refines r ops _ _ Hinv wf_empty_children Hok Hout) as H.
  rewrite rtst_init, faulted_rinit in H. exact H.
Qed.

Print Assumptions rcmem_run_refines.
Print Assumptions recursive_model_refines_tree_model.
