(* Correspondence interface of the abstract tree model (engine "tree"): the same cases as the
   "map" engine; per op the result ++ [allocator calls; frames freed] ++ [-3], except that the
   memory checksums of op 13 are not produced (the tree has no memory) -- the harness's
   "tree" engine projects the implementation's answers the same way. *)
From X86 Require Import Paging.Tree Paging.Run.
Open Scope Z_scope.

Definition decode (op : list Z) : option top :=
  match op with
  | [1; k; page; frame; flags] => Some (OMap k page frame flags (Z.land flags 7))
  | [2; k; page; frame; flags; pflags] => Some (OMap k page frame flags pflags)
  | [3; k; frame; flags] => Some (OMap k frame frame flags (Z.land flags 7))
  | [4; k; page] => Some (OUnmap k page)
  | [5; k; page; flags] => Some (OUpdate k page flags)
  | [6; k; level; page; flags] => Some (OSetParent k level page flags)
  | [7; k; page] => Some (OTranslatePage k page)
  | [8; va] => Some (OTranslate va)
  | [9; va] => Some (OTranslateAddr va)
  | [10] => Some OCleanAll
  | [11; rs; re] => Some (OCleanRange rs re)
  | [12; va] => Some (OHw va)
  | [13] => Some ODump
  | [14] => Some OFreed
  | _ => None
  end.
Definition tstep (kind r : Z) (s : tstate) (op : list Z) : option (tstate * out) :=
  match decode op with
  | Some o => Some (apply_op (is_rec kind) r s o)
  | None => Some (s, [-99])
  end.

Fixpoint trun_ops (fuel : nat) (kind r : Z) (s : tstate) (l : list Z) : list Z :=
  match fuel with
  | O => []
  | S fuel' =>
      match l with
      | [] => []
      | opc :: rest =>
          let '(args, rest') := take_n (op_arity opc) rest in
          match tstep kind r s (opc :: args) with
          | Some (s', o) =>
              o ++ [snd (t_aor s'); Z.of_nat (length (t_freed s')); SEP] ++ trun_ops fuel' kind r s' rest'
          | None => [PANIC]
          end
      end
  end.

Definition run_ptree (oc : bool) (c : list Z) : list Z :=
  match c with
  | kind :: r :: rootf :: na :: rest =>
      let '(allocs, rest1) := take_n (Z.to_nat na) rest in
      match rest1 with
      | nd :: rest2 =>
          let '(_, ops) := take_n (Z.to_nat nd) rest2 in
          trun_ops (length ops + 1) kind r
            (t_init allocs) ops
      | [] => [-99]
      end
  | _ => [-99]
  end.
