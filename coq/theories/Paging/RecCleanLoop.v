(* RecursivePageTable::clean_up on table memory, part 1: the loop over the slots of one table. *)
From Coq Require Import FMapPositive.
From X86 Require Import Base.Bits Addr.Canon Addr.Align Addr.Step Addr.Index Paging.EntryProofs Paging.Mapped
  Paging.MemProofs Paging.Tree Paging.TreeProofs Paging.Refine Paging.RefineOps Paging.RefineClean
  Paging.TreeClean Paging.RefineCleanExact Paging.CleanArith Paging.Recursive Paging.RecResolve
  Paging.RecRead Paging.RecRefineTop.
Require Import Lia ZifyBool Permutation.
Open Scope Z_scope.

(* the recursive address of the child table, by the level of the parent *)
Definition rtp (level sp r : Z) : res Z :=
  if level =? 4 then p3_page sp r else if level =? 3 then p2_page sp r else p1_page sp r.

(* The same function as Recursive.rclean_up, with the loop over the slots as the NAMED function
   rcu_loop (as Mapped.clean_up uses Mapped.cu_loop).  Recursive.rclean_up writes the loop as an
   anonymous nested `fix` applied to the literal 512: the kernel cannot check the conversion of
   `rclean_up (S f) ...` with its own body (it reduces the inner fix on the literal in both terms,
   5 recursive occurrences per iteration: 5^512 comparisons), so no unfolding lemma for it can be
   checked; see rclean_up_unfold_eq in RecCleanTop.v for the bridge. *)
Fixpoint rclean_up_l (fuel : nat) (s : pstate) (table level rs re : Z) : res (pstate * bool) :=
  match fuel with
  | O => Panic
  | S fuel' =>
      if re <? rs then Ok (s, false) else
      do table_addr <- va_align_down rs (table_alignment level);
      let start := page_table_index rs level in
      let e := page_table_index re level in
      do s' <-
        (if level =? 1 then Ok s
         else rcu_loop (rclean_up_l fuel') table level table_addr rs re e 512%nat start s);
      Ok (s', table_all_unused s' table)
  end.
Definition rclean_up_addr_range_l (s : pstate) (rs re : Z) : res pstate :=
  rmap fst (rclean_up_l 5 s (root s) 4 rs re).

Lemma rclean_up_l_unfold f s table level rs re :
  rclean_up_l (S f) s table level rs re =
    if re <? rs then Ok (s, false) else
    do table_addr <- va_align_down rs (table_alignment level);
    do s' <- (if level =? 1 then Ok s
              else rcu_loop (rclean_up_l f) table level table_addr rs re
                     (page_table_index re level) 512%nat (page_table_index rs level) s);
    Ok (s', table_all_unused s' table).
Proof. reflexivity. Qed.

Lemma rcu_loop_S rec table level ta rs re e n i s :
  rcu_loop rec table level ta rs re e (S n) i s =
    if e <? i then Ok s else
    if (level =? 4) && (i =? rec_index s) then rcu_loop rec table level ta rs re e n (i + 1) s
    else if e_huge (rd s (table + 8 * i)) then rcu_loop rec table level ta rs re e n (i + 1) s
    else if negb (e_present (rd s (table + 8 * i))) then rcu_loop rec table level ta rs re e n (i + 1) s
    else
      do m <- mul64 true (entry_alignment level) i;
      do st <- forward_checked_u64 ta m;
      do st <- unwrap st;
      do en <- va_add st (entry_alignment level - 1);
      do sp <- page_containing S4K st;
      do ep <- page_containing S4K en;
      do tpv <- rtp level (pmax sp rs) (rec_index s);
      match deref s tpv with
      | None => Ok (set_fault s)
      | Some t =>
          do r <- rec s t (level - 1) (pmax sp rs) (pmin ep re);
          if snd r then rcu_loop rec table level ta rs re e n (i + 1)
                          (deallocate (wr (fst r) (table + 8 * i) 0) (e_addr (rd s (table + 8 * i))))
          else rcu_loop rec table level ta rs re e n (i + 1) (fst r)
      end.
Proof.
  cbn [rcu_loop]. fold (rcu_loop rec table level ta rs re e). unfold rtp.
  destruct (e <? i); [reflexivity|].
  destruct ((level =? 4) && (i =? rec_index s))%bool; [reflexivity|].
  destruct (e_huge (rd s (table + 8 * i))); [reflexivity|].
  destruct (negb (e_present (rd s (table + 8 * i)))); [reflexivity|].
  destruct (mul64 true (entry_alignment level) i) as [m|]; [|reflexivity]. cbn [bind].
  destruct (forward_checked_u64 ta m) as [st0|]; [|reflexivity]. cbn [bind].
  destruct (unwrap st0) as [st|]; [|reflexivity]. cbn [bind].
  destruct (va_add st (entry_alignment level - 1)) as [en|]; [|reflexivity]. cbn [bind].
  destruct (page_containing S4K st) as [sp|]; [|reflexivity]. cbn [bind].
  destruct (page_containing S4K en) as [ep|]; [|reflexivity]. cbn [bind].
  destruct (if level =? 4 then p3_page (pmax sp rs) (rec_index s)
            else if level =? 3 then p2_page (pmax sp rs) (rec_index s)
            else p1_page (pmax sp rs) (rec_index s)) as [tpv|]; [|reflexivity]. cbn [bind].
  destruct (deref s tpv) as [t0|]; [|reflexivity].
  destruct (rec s t0 (level - 1) (pmax sp rs) (pmin ep re)) as [[s1 empty]|]; [|reflexivity].
  cbn [bind fst snd]. reflexivity.
Qed.

(* ---------- what a clean-up call establishes ---------- *)
(* R: the representation of the table the call works on (rep for a lower table, prep for the
   level-4 table); ri: the slot of that table which is neither read nor written (-1: none) *)
Definition cpost (R : pstate -> list node -> Prop) (ri : Z) (s : pstate) (t : Z) (ch : list node)
  (s' : pstate) (ch' : list node) (fr : list Z) : Prop :=
  R s' ch' /\
  (exists lost, Permutation (lost ++ fr ++ frames_of ch') (frames_of ch)) /\
  freed s' = rev fr ++ freed s /\
  alloc s' = alloc s /\ nalloc s' = nalloc s /\ root s' = root s /\
  (forall a, 0 <= a -> ~ in_frames (t :: frames_of ch) a -> rd s' a = rd s a) /\
  (0 <= ri < 512 -> rd s' (t + 8 * ri) = rd s (t + 8 * ri)) /\
  faulted s' = faulted s /\ rec_index s' = rec_index s.

Lemma cpost_refl (R : pstate -> list node -> Prop) ri s t ch : R s ch -> cpost R ri s t ch s ch [].
Proof.
  intros HR. split; [exact HR|]. split; [exists []; reflexivity|].
  split; [reflexivity|]. split; [reflexivity|]. split; [reflexivity|]. split; [reflexivity|].
  split; [intros; reflexivity|]. split; [intros; reflexivity|]. split; reflexivity.
Qed.

Lemma cpost_trans (R : pstate -> list node -> Prop) ri s t ch s1 ch1 fr1 s2 ch2 fr2 :
  cpost R ri s t ch s1 ch1 fr1 -> cpost R ri s1 t ch1 s2 ch2 fr2 ->
  cpost R ri s t ch s2 ch2 (fr1 ++ fr2).
Proof.
  intros (R1 & (lost1 & P1) & F1 & A1 & N1 & Ro1 & O1 & K1 & Fa1 & Ri1)
         (R2 & (lost2 & P2) & F2 & A2 & N2 & Ro2 & O2 & K2 & Fa2 & Ri2).
  split; [exact R2|].
  split.
  { exists (lost1 ++ lost2).
    apply Permutation_trans with (lost1 ++ fr1 ++ frames_of ch1); [|exact P1].
    rewrite <- !app_assoc. apply Permutation_app_head.
    apply Permutation_trans with (fr1 ++ lost2 ++ fr2 ++ frames_of ch2).
    { rewrite !app_assoc. apply Permutation_app_tail. apply Permutation_app_tail. apply Permutation_app_comm. }
    apply Permutation_app_head. exact P2. }
  split; [rewrite F2, F1, rev_app_distr, app_assoc; reflexivity|].
  split; [congruence|]. split; [congruence|]. split; [congruence|].
  split.
  { intros a Ha Hout. rewrite O2, O1; [reflexivity|exact Ha|exact Hout|exact Ha|].
    intros Hin. apply Hout. destruct Hin as (g & Hg & Hga). exists g. split; [|exact Hga].
    destruct Hg as [<-|Hg]; [left; reflexivity|right]. apply (perm_incl_r lost1 fr1 _ _ P1). exact Hg. }
  split; [intros Hri; rewrite K2, K1 by exact Hri; reflexivity|].
  split; congruence.
Qed.

Lemma cpost_incl (R : pstate -> list node -> Prop) ri s t ch s' ch' fr : cpost R ri s t ch s' ch' fr -> incl (frames_of ch') (frames_of ch).
Proof. intros (_ & (lost & P) & _). apply (perm_incl_r lost fr _ _ P). Qed.

Lemma cpost_sep (R : pstate -> list node -> Prop) ri s t ch s' ch' fr : cpost R ri s t ch s' ch' fr -> sep s t ch -> sep s' t ch'.
Proof. intros (_ & (lost & P) & _ & A & _) Hsep. apply (sep_shrink s s' t ch ch' fr lost Hsep P A). Qed.

(* the table's own frame is none of the frames of a child table's subtree *)
Lemma own_frame_not_below s t ch i f fl sub : tframe t -> sep s t ch ->
  child ch (Z.to_nat i) = Tab f fl sub ->
  forall a, in_frame t a -> ~ in_frames (f :: frames_of sub) a.
Proof.
  intros Ht Hsep Hc a Hb (g & Hg & Hga).
  assert (Hgin : In g (frames_of ch)).
  { destruct (frames_of_child _ _ _ _ _ Hc) as [G1 G2]. destruct Hg as [<-|Hg]; [exact G1|apply G2; exact Hg]. }
  destruct Hsep as [Hn HF]. rewrite Forall_forall in HF.
  assert (t = g).
  { apply (frames_disjoint t g a); [exact Ht|apply HF; right; apply in_or_app; left; exact Hgin|exact Hb|exact Hga]. }
  subst g. inversion Hn as [|? ? Hnin _]; subst. apply Hnin. apply in_or_app. left. exact Hgin.
Qed.

Lemma below_incl ch i f fl sub : child ch i = Tab f fl sub -> incl (f :: frames_of sub) (frames_of ch).
Proof.
  intros Hc g Hg. destruct (frames_of_child _ _ _ _ _ Hc) as [G1 G2].
  destruct Hg as [<-|Hg]; [exact G1|apply G2; exact Hg].
Qed.

(* ---------- one slot whose child table was cleaned (cf. RefineCleanExact.clean_step) ---------- *)
Lemma clean_step_x ri l' s t ch i f fl sub s1 sub' fr0 (empty : bool) :
  0 <= i < 512 -> i <> ri -> prep ri l' s ch t -> tframe t -> sep s t ch ->
  child ch (Z.to_nat i) = Tab f fl sub ->
  cpost (fun s c => rep l' s c f) (-1) s f sub s1 sub' fr0 ->
  cpost (fun s c => prep ri l' s c t) ri s t ch
    (if empty then deallocate (wr s1 (t + 8 * i) 0) f else s1)
    (set_child ch (Z.to_nat i) (if empty then Empty else Tab f fl sub'))
    (if empty then fr0 ++ [f] else fr0).
Proof.
  intros Hi512 Hir Hrep Ht Hsep Hc Hpost.
  pose proof (Hrep i Hi512 Hir) as Hent.
  rewrite Hc in Hent. cbn [rep_entry] in Hent. destruct Hent as (Hew & Hf & Hfl & Hsub).
  destruct Hpost as (R1 & (lost1 & P1) & F1 & A1 & N1 & Ro1 & O1 & _ & Fa1 & Ri1).
  set (slot := t + 8 * i) in *.
  pose proof (own_frame_not_below s t ch i f fl sub Ht Hsep Hc) as Hnot.
  assert (Hslot1 : forall j, 0 <= j < 512 -> rd s1 (t + 8 * j) = rd s (t + 8 * j)).
  { intros j Hj. apply O1; [destruct Ht; lia|]. apply Hnot. unfold in_frame. destruct Ht. lia. }
  assert (Hsib1 : forall j a, 0 <= j < 512 -> j <> i -> 0 <= a ->
             in_frames (node_frames (child ch (Z.to_nat j))) a -> rd s1 a = rd s a).
  { intros j a Hj Hji Ha Hin. apply O1; [exact Ha|].
    pose proof (sibling_disjoint s t ch i j a Hsep ltac:(lia) Hin) as Hd. rewrite Hc in Hd.
    cbn [node_frames] in Hd. fold (frames_of sub) in Hd.
    intros (g & Hg & Hga). apply Hd. exists g. split; [|exact Hga]. right. apply in_or_app. left. exact Hg. }
  destruct (frames_of_set_child ch (Z.to_nat i) (if empty then Empty else Tab f fl sub')) as (pre & post & E1 & E2).
  rewrite Hc in E1. cbn [node_frames] in E1. fold (frames_of sub) in E1.
  destruct empty.
  - (* the child table became empty: unlink, then release *)
    split.
    { apply (prep_update ri l' s _ ch t i Empty Hi512 Hrep).
      - cbn [rep_entry]. rewrite rd_deallocate. apply rd_wr_same.
      - intros j Hj Hji. rewrite rd_deallocate. unfold slot. destruct Ht as [Ht1 Ht2].
        rewrite rd_wr_slot by lia. apply Hslot1. exact Hj.
      - intros j a Hj Hji Ha Hin. rewrite rd_deallocate.
        rewrite (rd_wr_outside s1 t); auto; [apply (Hsib1 j a Hj Hji Ha Hin)|unfold slot, in_frame; destruct Ht; lia|].
        intros Hb. apply (sibling_disjoint s t ch i j a Hsep ltac:(lia) Hin). exists t. split; [left; reflexivity|exact Hb]. }
    split.
    { exists (lost1 ++ frames_of sub'). rewrite E2, E1. cbn [node_frames app].
      apply Permutation_trans with (pre ++ (f :: lost1 ++ fr0 ++ frames_of sub') ++ post).
      - apply perm_unlink.
      - apply Permutation_app_head. cbn [app]. apply perm_skip. apply Permutation_app_tail. exact P1. }
    split; [cbn [deallocate freed wr with_mem]; rewrite F1, rev_app_distr; reflexivity|].
    split; [exact A1|]. split; [exact N1|]. split; [exact Ro1|].
    split.
    { intros a Ha Hout. rewrite rd_deallocate.
      assert (Hnt : ~ in_frame t a) by (intros Hb; apply Hout; exists t; split; [left; reflexivity|exact Hb]).
      rewrite (rd_wr_outside s1 t); auto; [|unfold slot, in_frame; destruct Ht; lia].
      apply O1; [exact Ha|]. intros (g & Hg & Hga). apply Hout. exists g. split; [|exact Hga]. right.
      apply (below_incl ch _ f fl sub Hc). exact Hg. }
    split.
    { intros Hri. rewrite rd_deallocate. unfold slot. destruct Ht as [Ht1 Ht2].
      rewrite rd_wr_slot by lia. apply Hslot1. exact Hri. }
    split; [exact Fa1|exact Ri1].
  - (* the child table stays *)
    split.
    { apply (prep_update ri l' s _ ch t i (Tab f fl sub') Hi512 Hrep).
      - cbn [rep_entry]. rewrite (Hslot1 i Hi512). split; [exact Hew|]. split; [exact Hf|]. split; [exact Hfl|exact R1].
      - intros j Hj Hji. apply Hslot1. exact Hj.
      - exact Hsib1. }
    split.
    { exists lost1. rewrite E2, E1. cbn [node_frames]. fold (frames_of sub').
      apply Permutation_trans with (pre ++ (f :: lost1 ++ fr0 ++ frames_of sub') ++ post).
      - apply perm_keep.
      - apply Permutation_app_head. cbn [app]. apply perm_skip. apply Permutation_app_tail. exact P1. }
    split; [exact F1|]. split; [exact A1|]. split; [exact N1|]. split; [exact Ro1|].
    split.
    { intros a Ha Hout. apply O1; [exact Ha|]. intros (g & Hg & Hga). apply Hout. exists g. split; [|exact Hga]. right.
      apply (below_incl ch _ f fl sub Hc). exact Hg. }
    split; [intros Hri; apply Hslot1; exact Hri|].
    split; [exact Fa1|exact Ri1].
Qed.

(* ---------- the address arithmetic of one slot (cf. CleanArith.loop_prune) ---------- *)
Lemma slot_arith L W base prs pre i :
  tlevel L -> W = span L -> 0 <= i < 512 -> 0 <= base ->
  0 <= i * W -> (base + i * W) mod W = 0 -> base + i * W + W <= NP ->
  0 <= prs < NP -> 0 <= pre < NP ->
  exists en,
    mul64 true (entry_alignment L) i = Ok (4096 * (i * W)) /\
    forward_checked_u64 (addr base) (4096 * (i * W)) = Ok (Some (addr (base + i * W))) /\
    va_add (addr (base + i * W)) (entry_alignment L - 1) = Ok en /\
    page_containing S4K (addr (base + i * W)) = Ok (addr (base + i * W)) /\
    page_containing S4K en = Ok (addr (base + i * W + W - 1)) /\
    pmax (addr (base + i * W)) (addr prs) = addr (Z.max (base + i * W) prs) /\
    pmin (addr (base + i * W + W - 1)) (addr pre) = addr (Z.min (base + i * W + W - 1) pre).
Proof.
  intros HL HS Hi Hb0 Hl0 Hl2 Hl3 Hprs Hpre.
  assert (HWv : W = 512 \/ W = 262144 \/ W = 134217728) by (rewrite HS; apply span_tlevel; exact HL).
  assert (HW0 : 0 < W) by (clear - HWv; lia).
  set (lo := base + i * W) in *.
  assert (Hl1 : 0 <= lo) by (subst lo; lia).
  destruct (slot_va_add L lo HL Hl1) as (Eva & Hcan & Erd); [rewrite <- HS; assumption..|].
  rewrite <- HS in Eva, Hcan, Erd.
  exists (addr lo + 4096 * W - 1).
  split; [rewrite HS; apply slot_mul; assumption|].
  split; [apply slot_fwd; [exact Hb0|exact Hl0|fold lo; lia]|].
  split; [exact Eva|].
  split; [apply slot_pc_st; lia|].
  split; [rewrite slot_pc_en by assumption; rewrite Erd; reflexivity|].
  split; [apply pmax_addr; lia|apply pmin_addr; lia].
Qed.
