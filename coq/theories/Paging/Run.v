(* Correspondence interface of the mapper engine ("map"): one call history per case.
   case = kind :: r :: root :: na :: alloc*na ++ nd :: dumpframes*nd ++ ops
   kind: 0 OffsetPageTable, 2 MappedPageTable with a permuted frame-to-pointer mapping (same
   model), 1 RecursivePageTable with recursive index r.
   Each op answers: its result ++ [allocator calls so far; frames freed so far] ++ [-3].
   Op 13 dumps, per listed frame, a checksum of its 512 words. *)
From X86 Require Import Paging.Recursive.
Open Scope Z_scope.

Definition SEP : Z := -3.
Fixpoint take_n (n : nat) (l : list Z) : list Z * list Z :=
  match n, l with
  | S n', x :: l' => let '(a, b) := take_n n' l' in (x :: a, b)
  | _, _ => ([], l)
  end.

(* Fletcher-style position-sensitive checksum of the 512 words of a frame (additions only) *)
Fixpoint checksum_from (s : pstate) (a : Z) (n : nat) (s1 s2 : Z) : Z :=
  match n with
  | O => Z.lxor s1 (wrap64 (s2 * 3))
  | S n' => let s1' := wrap64 (s1 + rd s a) in checksum_from s (a + 8) n' s1' (wrap64 (s2 + s1'))
  end.
Definition frame_checksum (s : pstate) (f : Z) : Z := checksum_from s f 512 0 0.

Definition enc_walk (w : option walk_result) : list Z :=
  match w with
  | Some r => [w_phys r; w_size r; w_leaf r; b2z (w_writable r); b2z (w_user r)]
  | None => [NONE]
  end.

Definition is_rec (kind : Z) : bool := kind =? 1.
Definition lift2 (so : pstate * out) : res (pstate * out) := Ok so.

Definition step (kind : Z) (frames : list Z) (s : pstate) (op : list Z) : res (pstate * out) :=
  match op with
  | [1; k; page; frame; flags] =>
      let pf := Z.land flags 7 in
      if is_rec kind then rmap_to s k page frame flags pf else map_to s k page frame flags pf
  | [2; k; page; frame; flags; pflags] =>
      if is_rec kind then rmap_to s k page frame flags pflags else map_to s k page frame flags pflags
  | [3; k; frame; flags] =>
      (* identity_map: page = containing_address(VirtAddr::new(frame)) *)
      do va <- va_new frame;
      do page <- page_containing (size_of_kind k) va;
      let pf := Z.land flags 7 in
      if is_rec kind then rmap_to s k page frame flags pf else map_to s k page frame flags pf
  | [4; k; page] => if is_rec kind then runmap s k page else lift2 (unmap s k page)
  | [5; k; page; flags] =>
      if is_rec kind then rupdate_flags s k page flags else lift2 (update_flags s k page flags)
  | [6; k; level; page; flags] =>
      if is_rec kind then rset_flags_parent s k level page flags
      else lift2 (set_flags_parent s k level page flags)
  | [7; k; page] =>
      if is_rec kind then rtranslate_page s k page else Ok (s, translate_page s k page)
  | [8; va] => if is_rec kind then rtranslate s va else rmap (fun o => (s, o)) (translate s va)
  | [9; va] =>
      if is_rec kind then
        do so <- rtranslate s va;
        match snd so with
        | [0; _; f; off; _] => rmap (fun a => (fst so, [a])) (pa_add f off)
        | [-20] => Ok (fst so, [FAULT])
        | _ => Ok (fst so, [NONE])
        end
      else rmap (fun o => (s, o)) (translate_addr s va)
  | [10] =>
      rmap (fun s' => (s', [0]))
           (if is_rec kind then rclean_up_addr_range s 0 18446744073709547520 else clean_up_all s)
  | [11; rs; re] =>
      rmap (fun s' => (s', [0]))
           (if is_rec kind then rclean_up_addr_range s rs re else clean_up_addr_range s rs re)
  | [12; va] => Ok (s, enc_walk (hw_walk s va))
  | [13] => Ok (s, map (frame_checksum s) frames)
  | [14] => Ok (s, rev (freed s))
  | _ => Ok (s, [-99])
  end.

Definition op_arity (opc : Z) : nat :=
  if opc =? 1 then 4 else if opc =? 2 then 5 else if opc =? 3 then 3 else if opc =? 4 then 2
  else if opc =? 5 then 3 else if opc =? 6 then 4 else if opc =? 7 then 2 else if opc =? 8 then 1
  else if opc =? 9 then 1 else if opc =? 10 then 0 else if opc =? 11 then 2 else if opc =? 12 then 1
  else 0.

Fixpoint run_ops (fuel : nat) (kind : Z) (frames : list Z) (s : pstate) (l : list Z) : list Z :=
  match fuel with
  | O => []
  | S fuel' =>
      match l with
      | [] => []
      | opc :: rest =>
          let '(args, rest') := take_n (op_arity opc) rest in
          match step kind frames s (opc :: args) with
          | Ok (s', o) =>
              let o' := if faulted s' then [FAULT] else o in
              o' ++ [nalloc s'; Z.of_nat (length (freed s')); SEP] ++
              (if faulted s' then [] else run_ops fuel' kind frames s' rest')
          | Panic => [PANIC]
          end
      end
  end.

Definition run_map (oc : bool) (c : list Z) : list Z :=
  match c with
  | kind :: r :: rootf :: na :: rest =>
      let '(allocs, rest1) := take_n (Z.to_nat na) rest in
      match rest1 with
      | nd :: rest2 =>
          let '(frames, ops) := take_n (Z.to_nat nd) rest2 in
          let s0 := init_pstate rootf allocs r in
          (* the recursive mapper needs its recursive slot: entry r of the root points to the root *)
          let s0 := if is_rec kind then wr s0 (rootf + 8 * r) (Z.lor rootf 3) else s0 in
          run_ops (length ops + 1) kind frames s0 ops
      | [] => [-99]
      end
  | _ => [-99]
  end.
