(* Top-level variants of the generic refinement lemmas (Refine.v, RefineOps.v, RefineParent.v,
   RefineWalk.v): the table the operation starts at is only PARTIALLY represented -- every slot
   except slot ri (the recursive slot, which points back to the table itself and which no finite
   tree represents).  Each variant redoes ONE step of the generic proof with `prep` and calls the
   existing generic lemma for the sub-table, which is fully represented. *)
From Coq Require Import FMapPositive.
From X86 Require Import Base.Bits Addr.Index Paging.EntryProofs Paging.Mapped Paging.MemProofs
  Paging.Tree Paging.TreeProofs Paging.Refine Paging.RefineOps Paging.RefineParent Paging.RefineWalk Paging.Run.
Require Import Lia ZifyBool Permutation.
Open Scope Z_scope.
Local Ltac Zify.zify_post_hook ::= Z.div_mod_to_equations.

(* ---------- the partial representation ---------- *)
(* the table at frame t represents the children ch at every slot except ri; the entries are
   those of a level-(S l) table (so prep ri l corresponds to rep (S l)) *)
Definition prep (ri : Z) (l : nat) (s : pstate) (ch : list node) (t : Z) : Prop :=
  forall j, 0 <= j < 512 -> j <> ri ->
    rep_entry l s (child ch (Z.to_nat j)) (rd s (t + 8 * j)).

Lemma rep_prep ri l s ch t : rep (S l) s ch t -> prep ri l s ch t.
Proof. intros H j Hj _. exact (proj1 (rep_unfold _ _ _ _) H j Hj). Qed.

(* rebuilding prep after a change at one slot (cf. Refine.rep_update) *)
Lemma prep_update ri l s s' ch t i n' :
  0 <= i < 512 ->
  prep ri l s ch t ->
  rep_entry l s' n' (rd s' (t + 8 * i)) ->
  (forall j, 0 <= j < 512 -> j <> i -> rd s' (t + 8 * j) = rd s (t + 8 * j)) ->
  (forall j a, 0 <= j < 512 -> j <> i -> 0 <= a ->
     in_frames (node_frames (child ch (Z.to_nat j))) a -> rd s' a = rd s a) ->
  prep ri l s' (set_child ch (Z.to_nat i) n') t.
Proof.
  intros Hi Hrep Hn Hslots Hsub j Hj Hjr.
  rewrite child_set_child.
  destruct (Nat.eqb_spec (Z.to_nat i) (Z.to_nat j)) as [He|Hne].
  - assert (i = j) by lia. subst j. exact Hn.
  - assert (Hji : j <> i) by (intros ->; apply Hne; reflexivity).
    rewrite (Hslots j Hj Hji).
    apply (rep_entry_frame l s s'); [|exact (Hrep j Hj Hjr)].
    intros a Ha Hin. apply (Hsub j a Hj Hji Ha Hin).
Qed.

(* prep depends only on the memory inside the table's own frame and the frames below it *)
Lemma prep_frame ri l s s' ch t :
  (forall a, 0 <= a -> in_frames (t :: frames_of ch) a -> rd s' a = rd s a) ->
  0 <= t -> prep ri l s ch t -> prep ri l s' ch t.
Proof.
  intros Hsame Ht H j Hj Hjr.
  assert (Hslot : rd s' (t + 8 * j) = rd s (t + 8 * j)).
  { apply Hsame; [lia|]. exists t. split; [left; reflexivity|]. unfold in_frame. lia. }
  rewrite Hslot. apply (rep_entry_frame l s s'); [|exact (H j Hj Hjr)].
  intros a Ha (g & Hg & Hga). apply Hsame; [exact Ha|]. exists g. split; [|exact Hga].
  right. apply (node_frames_child ch (Z.to_nat j)). exact Hg.
Qed.

(* ---------- map_to: the simulation, one step at the partially represented table ---------- *)
Definition sim_post_x (ri : Z) (rc : bool) (l : nat) (s : pstate) (t : Z) (ch : list node) (idxs : list Z)
  (w frame page pf : Z) (s' : pstate) (o : out) : Prop :=
  exists ch' a' r,
    map_path rc ch (map Z.to_nat idxs) w frame page pf (aor_of s) = (ch', a', r) /\
    o = out_of r /\ aor_of s' = a' /\ root s' = root s /\ freed s' = freed s /\
    prep ri l s' ch' t /\ sep s' t ch' /\
    Permutation (frames_of ch' ++ va s') (frames_of ch ++ va s) /\
    (forall a, 0 <= a -> ~ in_frames (t :: frames_of ch ++ va s) a -> rd s' a = rd s a) /\
    (* every slot of the table other than the one the path goes through is left as it was *)
    (forall j, 0 <= j < 512 -> j <> hd 0 idxs -> rd s' (t + 8 * j) = rd s (t + 8 * j)).

(* a fresh table is linked at slot i and the rest of the path is mapped inside it *)
Lemma sim_new_table_x ri rc l' s s1 t ch i i2 rest f w frame page pf s' o :
  0 <= i < 512 -> i <> ri -> prep ri (S l') s ch t -> tframe t -> sep s t ch -> pflags_ok pf ->
  child ch (Z.to_nat i) = Empty -> allocate s = (Some f, s1) ->
  sim_post rc l' (zero_table (wr s1 (t + 8 * i) (Z.lor f (new_parent_flags rc pf))) f) f empty_children (i2 :: rest) w frame page pf s' o ->
  sim_post_x ri rc (S l') s t ch (i :: i2 :: rest) w frame page pf s' o.
Proof.
  intros Hi Hir Hrep Ht Hsep Hpf Hc Hal (ch2 & a' & r & Hmp & Ho & Haor & Hroot & Hfreed & Hrep2 & Hsep2 & Hperm2 & Hfr2).
  set (slot := t + 8 * i) in *. set (s2 := wr s1 slot (Z.lor f (new_parent_flags rc pf))) in *. set (s3 := zero_table s2 f) in *.
  pose proof (allocate_spec s) as (Ha & Hm1 & Hr1 & Hf1). rewrite Hal in Ha, Hm1, Hr1, Hf1. cbn [snd] in *.
  destruct Ha as [Hva Hta].
  assert (Hsa3 : same_alloc s1 s3).
  { apply (same_alloc_trans s1 s2 s3); [apply same_alloc_wr|apply same_alloc_zero_from]. }
  destruct (same_alloc_va _ _ Hsa3) as [Hva3 Haor3].
  assert (Hfin : In f (t :: frames_of ch ++ va s)) by (right; apply in_or_app; right; rewrite Hva; left; reflexivity).
  assert (Hft : tframe f) by (destruct Hsep as [_ HF]; rewrite Forall_forall in HF; apply HF; exact Hfin).
  assert (Hne : t <> f).
  { intros <-. destruct Hsep as [Hn _]. inversion Hn as [|? ? Hnin _]; subst. apply Hnin.
    apply in_or_app. right. rewrite Hva. left. reflexivity. }
  (* memory facts *)
  assert (M3 : forall a, 0 <= a -> ~ in_frame t a -> ~ in_frame f a -> rd s3 a = rd s a).
  { intros a Ha Hnt Hnf. unfold s3. rewrite zero_table_elsewhere; try (destruct Hft; lia); try assumption.
    - unfold s2. rewrite (rd_wr_outside s1 t); auto; [apply rd_pmem; exact Hm1|].
      unfold slot, in_frame. destruct Ht. lia.
    - unfold in_frame in Hnf. lia. }
  assert (Mslot : forall j, 0 <= j < 512 -> rd s3 (t + 8 * j) = if j =? i then Z.lor f (new_parent_flags rc pf) else rd s (t + 8 * j)).
  { intros j Hj. unfold s3. rewrite zero_table_elsewhere; try (destruct Hft; lia); [| destruct Ht; lia |].
    - unfold s2, slot. destruct (Z.eqb_spec j i) as [->|Hji].
      + apply rd_wr_same.
      + destruct Ht as [Ht1 Ht2]. rewrite rd_wr_slot by lia. apply rd_pmem. exact Hm1.
    - destruct (Z_lt_le_dec (t + 8 * j) f); [left; assumption|right].
      destruct (Z_lt_le_dec (t + 8 * j) (f + 4096)); [|assumption]. exfalso. apply Hne.
      apply (frames_disjoint t f (t + 8 * j) Ht Hft); unfold in_frame; destruct Ht; lia. }
  assert (Hout2 : forall a, in_frame t a -> ~ in_frames (f :: frames_of empty_children ++ va s3) a).
  { intros a Hina (g & Hg & Hga). rewrite frames_of_empty_children in Hg. cbn [app] in Hg.
    assert (Hgin : In g (t :: frames_of ch ++ va s)).
    { right. apply in_or_app. right. rewrite Hva. destruct Hg as [<-|Hg]; [left; reflexivity|right].
      rewrite Hva3 in Hg. exact Hg. }
    destruct Hsep as [Hn HF]. rewrite Forall_forall in HF.
    assert (t = g).
    { apply (frames_disjoint t g a); [exact Ht|apply HF; exact Hgin|exact Hina|exact Hga]. }
    subst g. inversion Hn as [|? ? Hnin _]; subst. apply Hnin. destruct Hgin as [Heq|Hin]; [|exact Hin].
    exfalso. clear -Hg Hne Hva Hva3 Hnin. destruct Hg as [Hg|Hg]; [congruence|].
    apply Hnin. apply in_or_app. right. rewrite Hva. right. rewrite <- Hva3. exact Hg. }
  (* the tree side *)
  exists (set_child ch (Z.to_nat i) (Tab f (new_parent_flags rc pf) ch2)), a', r.
  split.
  { cbn [map]. rewrite map_path_step, Hc, Hta.
    change (Z.to_nat i2 :: map Z.to_nat rest) with (map Z.to_nat (i2 :: rest)).
    rewrite <- Haor3. rewrite Hmp. reflexivity. }
  split; [exact Ho|]. split; [exact Haor|].
  split; [rewrite Hroot; destruct Hsa3 as (_ & _ & _ & Hr3); rewrite Hr3; exact Hr1|].
  split; [rewrite Hfreed; destruct Hsa3 as (_ & _ & Hf3 & _); rewrite Hf3; exact Hf1|].
  (* frames *)
  destruct (frames_of_set_child ch (Z.to_nat i) (Tab f (new_parent_flags rc pf) ch2)) as (pre & post & E1 & E2).
  rewrite Hc in E1. cbn [node_frames app] in E1, E2. fold (frames_of ch2) in E2.
  assert (Pall : Permutation (frames_of (set_child ch (Z.to_nat i) (Tab f (new_parent_flags rc pf) ch2)) ++ va s') (frames_of ch ++ va s)).
  { rewrite E1, E2, Hva. rewrite frames_of_empty_children in Hperm2. cbn [app] in Hperm2.
    rewrite Hva3 in Hperm2.
    rewrite <- !app_assoc. apply Permutation_app_head. cbn [app].
    apply Permutation_trans with (f :: post ++ va s1); [|apply Permutation_middle].
    apply perm_skip.
    apply Permutation_trans with (post ++ frames_of ch2 ++ va s').
    { rewrite !app_assoc. apply Permutation_app_tail. apply Permutation_app_comm. }
    apply Permutation_app_head. exact Hperm2. }
  split.
  { apply (prep_update ri (S l') s s' ch t i (Tab f (new_parent_flags rc pf) ch2) Hi Hrep).
    - cbn [rep_entry].
      rewrite Hfr2; [|destruct Ht; lia|apply Hout2; unfold in_frame; destruct Ht; lia].
      rewrite Mslot by exact Hi. rewrite Z.eqb_refl.
      split; [reflexivity|]. split; [exact Hft|]. split; [apply pflags_ok_new_parent; exact Hpf|exact Hrep2].
    - intros j Hj Hji.
      rewrite Hfr2; [|destruct Ht; lia|apply Hout2; unfold in_frame; destruct Ht; lia].
      rewrite Mslot by exact Hj. destruct (Z.eqb_spec j i); [contradiction|reflexivity].
    - intros j a Hj Hji Ha Hin.
      pose proof (sibling_disjoint s t ch i j a Hsep ltac:(lia) Hin) as Hd.
      rewrite Hc in Hd. cbn [node_frames app] in Hd.
      assert (Hnt : ~ in_frame t a) by (intros Hb; apply Hd; exists t; split; [left; reflexivity|exact Hb]).
      assert (Hnf : ~ in_frame f a).
      { intros Hb. apply Hd. exists f. split; [right; rewrite Hva; left; reflexivity|exact Hb]. }
      rewrite Hfr2; [apply M3; assumption|exact Ha|].
      intros (g & Hg & Hga). rewrite frames_of_empty_children in Hg. cbn [app] in Hg.
      destruct Hg as [<-|Hg]; [exact (Hnf Hga)|].
      apply Hd. exists g. split; [right; rewrite Hva; right; rewrite <- Hva3; exact Hg|exact Hga]. }
  split; [apply (sep_perm s s' t ch _ Hsep Pall)|].
  split; [exact Pall|].
  split.
  {
    intros a Ha Hout.
    assert (Hnt : ~ in_frame t a) by (intros Hb; apply Hout; exists t; split; [left; reflexivity|exact Hb]).
    assert (Hnf : ~ in_frame f a) by (intros Hb; apply Hout; exists f; split; [exact Hfin|exact Hb]).
    rewrite Hfr2; [apply M3; assumption|exact Ha|].
    intros (g & Hg & Hga). rewrite frames_of_empty_children in Hg. cbn [app] in Hg.
    destruct Hg as [<-|Hg]; [exact (Hnf Hga)|].
    apply Hout. exists g. split; [right; apply in_or_app; right; rewrite Hva; right; rewrite <- Hva3; exact Hg|exact Hga]. }
  intros j Hj Hji. cbn [hd] in Hji.
  rewrite Hfr2; [|destruct Ht; lia|apply Hout2; unfold in_frame; destruct Ht; lia].
  rewrite Mslot by exact Hj. destruct (Z.eqb_spec j i); [contradiction|reflexivity].
Qed.

(* the table at slot i exists: its flags are widened and the rest of the path is mapped inside it *)
Lemma sim_existing_table_x ri rc l' s t ch i i2 rest f fl sub w frame page pf s' o :
  0 <= i < 512 -> i <> ri -> prep ri (S l') s ch t -> tframe t -> sep s t ch -> pflags_ok pf ->
  child ch (Z.to_nat i) = Tab f fl sub ->
  sim_post rc l' (if (negb (pf =? 0) && negb (has fl pf))%bool then wr s (t + 8 * i) (Z.lor f (Z.lor fl pf)) else s)
           f sub (i2 :: rest) w frame page pf s' o ->
  sim_post_x ri rc (S l') s t ch (i :: i2 :: rest) w frame page pf s' o.
Proof.
  intros Hi Hir Hrep Ht Hsep Hpf Hc (ch2 & a' & r & Hmp & Ho & Haor & Hroot & Hfreed & Hrep2 & Hsep2 & Hperm2 & Hfr2).
  set (slot := t + 8 * i) in *.
  set (s1 := if (negb (pf =? 0) && negb (has fl pf))%bool then wr s slot (Z.lor f (Z.lor fl pf)) else s) in *.
  pose proof (Hrep i Hi Hir) as He. rewrite Hc in He. cbn [rep_entry] in He.
  destruct He as (He & Hft & Hfl & Hrsub).
  assert (Hsa : same_alloc s s1).
  { unfold s1. destruct (negb (pf =? 0) && negb (has fl pf))%bool; [apply same_alloc_wr|apply same_alloc_refl]. }
  destruct (same_alloc_va _ _ Hsa) as [Hva1 Haor1].
  assert (M1 : forall a, 0 <= a -> ~ in_frame t a -> rd s1 a = rd s a).
  { intros a Ha Hnt. unfold s1. destruct (negb (pf =? 0) && negb (has fl pf))%bool; [|reflexivity].
    apply (rd_wr_outside s t); auto. unfold slot, in_frame. destruct Ht. lia. }
  assert (Mslot : forall j, 0 <= j < 512 -> rd s1 (t + 8 * j) = if j =? i then Z.lor f (widen fl pf) else rd s (t + 8 * j)).
  { intros j Hj. unfold s1, widen. destruct (negb (pf =? 0) && negb (has fl pf))%bool.
    - unfold slot. destruct (Z.eqb_spec j i) as [->|Hji]; [apply rd_wr_same|].
      destruct Ht as [Ht1 Ht2]. apply rd_wr_slot; lia.
    - destruct (Z.eqb_spec j i) as [->|Hji]; [exact He|reflexivity]. }
  destruct (frames_of_set_child ch (Z.to_nat i) (Tab f (widen fl pf) ch2)) as (pre & post & E1 & E2).
  rewrite Hc in E1. cbn [node_frames] in E1, E2. fold (frames_of sub) in E1. fold (frames_of ch2) in E2.
  (* the table's own frame is not among the frames of the subtree or the allocator *)
  assert (Hout2 : forall a, in_frame t a -> ~ in_frames (f :: frames_of sub ++ va s1) a).
  { intros a Hina (g & Hg & Hga).
    assert (Hgin : In g (frames_of ch ++ va s)).
    { rewrite E1. rewrite Hva1 in Hg. destruct Hg as [<-|Hg].
      - apply in_or_app. left. apply in_or_app. right. left. reflexivity.
      - apply in_app_or in Hg. destruct Hg as [Hg|Hg].
        + apply in_or_app. left. apply in_or_app. right. right. apply in_or_app. left. exact Hg.
        + apply in_or_app. right. exact Hg. }
    destruct Hsep as [Hn HF]. rewrite Forall_forall in HF.
    assert (t = g).
    { apply (frames_disjoint t g a); [exact Ht|apply HF; right; exact Hgin|exact Hina|exact Hga]. }
    subst g. inversion Hn as [|? ? Hnin _]; subst. exact (Hnin Hgin). }
  exists (set_child ch (Z.to_nat i) (Tab f (widen fl pf) ch2)), a', r.
  split.
  { cbn [map]. rewrite map_path_step, Hc.
    change (Z.to_nat i2 :: map Z.to_nat rest) with (map Z.to_nat (i2 :: rest)).
    rewrite <- Haor1. rewrite Hmp. reflexivity. }
  split; [exact Ho|]. split; [exact Haor|].
  split; [rewrite Hroot; apply Hsa|]. split; [rewrite Hfreed; apply Hsa|].
  assert (Pall : Permutation (frames_of (set_child ch (Z.to_nat i) (Tab f (widen fl pf) ch2)) ++ va s') (frames_of ch ++ va s)).
  { rewrite E1, E2. rewrite Hva1 in Hperm2. rewrite <- !app_assoc. apply Permutation_app_head. cbn [app].
    apply perm_skip.
    apply Permutation_trans with (post ++ frames_of ch2 ++ va s').
    { rewrite !app_assoc. apply Permutation_app_tail. apply Permutation_app_comm. }
    apply Permutation_trans with (post ++ frames_of sub ++ va s); [apply Permutation_app_head; exact Hperm2|].
    rewrite !app_assoc. apply Permutation_app_tail. apply Permutation_app_comm. }
  split.
  { apply (prep_update ri (S l') s s' ch t i _ Hi Hrep).
    - cbn [rep_entry].
      rewrite Hfr2; [|destruct Ht; lia|apply Hout2; unfold in_frame; destruct Ht; lia].
      rewrite Mslot by exact Hi. rewrite Z.eqb_refl.
      split; [reflexivity|]. split; [exact Hft|]. split; [apply pflags_ok_widen; assumption|exact Hrep2].
    - intros j Hj Hji.
      rewrite Hfr2; [|destruct Ht; lia|apply Hout2; unfold in_frame; destruct Ht; lia].
      rewrite Mslot by exact Hj. destruct (Z.eqb_spec j i); [contradiction|reflexivity].
    - intros j a Hj Hji Ha Hin.
      pose proof (sibling_disjoint s t ch i j a Hsep ltac:(lia) Hin) as Hd.
      rewrite Hc in Hd. cbn [node_frames] in Hd. fold (frames_of sub) in Hd.
      assert (Hnt : ~ in_frame t a) by (intros Hb; apply Hd; exists t; split; [left; reflexivity|exact Hb]).
      rewrite Hfr2; [apply M1; assumption|exact Ha|].
      intros (g & Hg & Hga). apply Hd. exists g. split; [|exact Hga].
      right. rewrite Hva1 in Hg. cbn [app]. exact Hg. }
  split; [apply (sep_perm s s' t ch _ Hsep Pall)|].
  split; [exact Pall|].
  split.
  {
    intros a Ha Hout.
    assert (Hnt : ~ in_frame t a) by (intros Hb; apply Hout; exists t; split; [left; reflexivity|exact Hb]).
    rewrite Hfr2; [apply M1; assumption|exact Ha|].
    intros (g & Hg & Hga). apply Hout. exists g. split; [|exact Hga]. right.
    rewrite E1. rewrite Hva1 in Hg. destruct Hg as [<-|Hg].
    - apply in_or_app. left. apply in_or_app. right. left. reflexivity.
    - apply in_app_or in Hg. destruct Hg as [Hg|Hg].
      + apply in_or_app. left. apply in_or_app. right. right. apply in_or_app. left. exact Hg.
      + apply in_or_app. right. exact Hg. }
  intros j Hj Hji. cbn [hd] in Hji.
  rewrite Hfr2; [|destruct Ht; lia|apply Hout2; unfold in_frame; destruct Ht; lia].
  rewrite Mslot by exact Hj. destruct (Z.eqb_spec j i); [contradiction|reflexivity].
Qed.

(* one step at the partially represented table, then the generic simulation (Refine.mmap_sim)
   inside the fully represented sub-table *)
Theorem mmap_sim_top ri rc i i2 rest : forall l' s t ch w frame page pf,
  (length (i :: i2 :: rest) <= S (S l'))%nat -> Forall (fun i => 0 <= i < 512) (i :: i2 :: rest) -> i <> ri ->
  prep ri (S l') s ch t -> tframe t -> sep s t ch -> pflags_ok pf ->
  leaf_ok (S (S l') - (length (i :: i2 :: rest) - 1)) w ->
  exists s' o, mmap rc s t (i :: i2 :: rest) w frame page pf = Ok (s', o) /\
               sim_post_x ri rc (S l') s t ch (i :: i2 :: rest) w frame page pf s' o.
Proof.
  intros l' s t ch w frame page pf Hlen Hidx Hir Hrep Ht Hsep Hpf Hw.
  inversion Hidx as [|? ? Hi Hrest]; subst.
  assert (Hlen' : (length (i2 :: rest) <= S l')%nat) by (cbn [length] in *; lia).
  assert (Hw' : leaf_ok (S l' - (length (i2 :: rest) - 1)) w).
  { replace (S l' - (length (i2 :: rest) - 1))%nat with (S (S l') - (length (i :: i2 :: rest) - 1))%nat
      by (cbn [length]; lia). exact Hw. }
  pose proof (create_step_entry l' s t ch i (new_parent_flags rc pf) pf (Hrep i Hi Hir) Ht Hsep Hi
                (pflags_ok_new_parent rc pf Hpf) Hpf) as Hcs.
  change (mmap rc s t (i :: i2 :: rest) w frame page pf) with
    (do r <- create_next_table_g s (t + 8 * i) (new_parent_flags rc pf) pf;
     match snd r with
     | CTable t' => mmap rc (fst r) t' (i2 :: rest) w frame page pf
     | c => Ok (fst r, cerr c)
     end).
  destruct (child ch (Z.to_nat i)) as [|w0|f fl sub] eqn:Hc.
  - (* no table yet *)
    pose proof (allocate_spec s) as (Ha & Hm1 & Hr1 & Hf1).
    destruct (allocate s) as [[f|] s1] eqn:Hal; cbn [snd] in *.
    + rewrite Hcs. cbn [bind fst snd].
      destruct Ha as [Hva Hta].
      set (s3 := zero_table (wr s1 (t + 8 * i) (Z.lor f (new_parent_flags rc pf))) f).
      assert (Hsa3 : same_alloc s1 s3).
      { apply (same_alloc_trans s1 (wr s1 (t + 8 * i) (Z.lor f (new_parent_flags rc pf))) s3); [apply same_alloc_wr|apply same_alloc_zero_from]. }
      destruct (same_alloc_va _ _ Hsa3) as [Hva3 _].
      assert (Hft : tframe f).
      { destruct Hsep as [_ HF]. rewrite Forall_forall in HF. apply HF. right. apply in_or_app. right.
        rewrite Hva. left. reflexivity. }
      destruct (mmap_sim rc (i2 :: rest) l' s3 f empty_children w frame page pf ltac:(discriminate) Hlen' Hrest) as (s' & o & Hm & Hpost).
      * apply rep_unfold. intros j Hj. rewrite child_empty_children. cbn [rep_entry].
        unfold s3. apply zero_table_zeroed; destruct Hft; lia.
      * exact Hft.
      * unfold sep. rewrite frames_of_empty_children, Hva3. cbn [app].
        destruct Hsep as [Hn HF]. rewrite Hva in Hn, HF. split.
        -- apply NoDup_cons_iff in Hn. destruct Hn as [_ Hn]. apply nodup_app_r in Hn. exact Hn.
        -- apply Forall_cons_iff in HF. destruct HF as [_ HF]. apply Forall_app in HF. apply HF.
      * exact Hpf.
      * exact Hw'.
      * exists s', o. split; [exact Hm|].
        apply (sim_new_table_x ri rc l' s s1 t ch i i2 rest f w frame page pf s' o); assumption.
    + rewrite Hcs. cbn [bind fst snd cerr].
      destruct Ha as [Hva Hta].
      eexists _, _. split; [reflexivity|].
      exists ch, (aor_of s1), (TErr [E_ALLOC_FAILED]).
      split; [cbn [map]; rewrite map_path_step, Hc, Hta; reflexivity|].
      split; [reflexivity|]. split; [reflexivity|]. split; [exact Hr1|]. split; [exact Hf1|].
      split; [apply (prep_frame ri (S l') s s1 ch t); [intros; apply rd_pmem; exact Hm1|destruct Ht; lia|exact Hrep]|].
      split; [unfold sep; rewrite Hva; exact Hsep|]. split; [rewrite Hva; reflexivity|].
      split; intros; apply rd_pmem; exact Hm1.
  - (* a huge page is mapped above *)
    rewrite Hcs. cbn [bind fst snd cerr].
    eexists _, _. split; [reflexivity|].
    exists ch, (aor_of s), (TErr [E_PARENT_HUGE]).
    split; [cbn [map]; rewrite map_path_step, Hc; reflexivity|].
    repeat (split; [reflexivity|]). split; [exact Hrep|]. split; [exact Hsep|]. split; [reflexivity|].
    split; intros; reflexivity.
  - (* the table exists *)
    rewrite Hcs. cbn [bind fst snd].
    set (s1 := if (negb (pf =? 0) && negb (has fl pf))%bool then wr s (t + 8 * i) (Z.lor f (Z.lor fl pf)) else s).
    pose proof (Hrep i Hi Hir) as He. rewrite Hc in He. cbn [rep_entry] in He.
    destruct He as (He & Hft & Hfl & Hrsub).
    assert (Hsa : same_alloc s s1).
    { unfold s1. destruct (negb (pf =? 0) && negb (has fl pf))%bool; [apply same_alloc_wr|apply same_alloc_refl]. }
    destruct (same_alloc_va _ _ Hsa) as [Hva1 _].
    assert (Hsep1 : sep s1 f sub) by (apply (sep_sub s s1 t ch i f fl sub Hsep Hc Hva1)).
    destruct (mmap_sim rc (i2 :: rest) l' s1 f sub w frame page pf ltac:(discriminate) Hlen' Hrest) as (s' & o & Hm & Hpost).
    + apply (rep_frame (S l') s s1 sub f); [|destruct Hft; lia|exact Hrsub].
      intros a Ha Hin. unfold s1. destruct (negb (pf =? 0) && negb (has fl pf))%bool; [|reflexivity].
      apply (rd_wr_outside s t); auto; [unfold in_frame; destruct Ht; lia|].
      intros Hta.
      destruct Hin as (g & Hg & Hga).
      assert (Hgin : In g (frames_of ch)).
      { destruct (frames_of_child _ _ _ _ _ Hc) as [H1 H2]. destruct Hg as [<-|Hg]; [exact H1|apply H2; exact Hg]. }
      destruct Hsep as [Hn HF]. rewrite Forall_forall in HF.
      assert (t = g).
      { apply (frames_disjoint t g a); [exact Ht|apply HF; right; apply in_or_app; left; exact Hgin|exact Hta|exact Hga]. }
      subst g. inversion Hn as [|? ? Hnin _]; subst. apply Hnin. apply in_or_app. left. exact Hgin.
    + exact Hft.
    + exact Hsep1.
    + exact Hpf.
    + exact Hw'.
    + exists s', o. split; [exact Hm|].
      apply (sim_existing_table_x ri rc l' s t ch i i2 rest f fl sub w frame page pf s' o); assumption.
Qed.

(* ---------- map_to ---------- *)
Lemma zidx_cons k page : exists i2 rest, zidx_list k page = p4_index page :: i2 :: rest.
Proof.
  unfold zidx_list. destruct (k =? 2); [|destruct (k =? 1)]; eexists _, _; reflexivity.
Qed.

Theorem map_to_rc_refines_x ri rc s ch k page frame flags pf :
  0 <= k <= 2 -> p4_index page <> ri ->
  prep ri 3 s ch (root s) -> tframe (root s) -> sep s (root s) ch -> pflags_ok pf ->
  leaf_ok (Z.to_nat (k + 1)) (leaf_word k frame flags) ->
  exists s' o ch' a' r,
    map_to_rc rc s k page frame flags pf = Ok (s', o) /\
    map_path rc ch (idx_list k page) (leaf_word k frame flags) frame page pf (aor_of s) = (ch', a', r) /\
    o = out_of r /\ aor_of s' = a' /\ root s' = root s /\ freed s' = freed s /\
    prep ri 3 s' ch' (root s') /\ sep s' (root s') ch' /\
    (forall a, 0 <= a -> ~ in_frames (root s :: frames_of ch ++ va s) a -> rd s' a = rd s a) /\
    (forall j, 0 <= j < 512 -> j <> p4_index page -> rd s' (root s + 8 * j) = rd s (root s + 8 * j)).
Proof.
  intros Hk Hne Hrep Ht Hsep Hpf Hw.
  unfold map_to_rc. rewrite idx_list_zidx.
  pose proof (zidx_length k page Hk) as Hlen. pose proof (zidx_ranges k page) as Hrg.
  destruct (zidx_cons k page) as (i2 & rest & Ez). rewrite Ez in *.
  destruct (mmap_sim_top ri rc (p4_index page) i2 rest 2 s (root s) ch (leaf_word k frame flags) frame page pf)
    as (s' & o & Hm & (ch' & a' & r & Hmp & Ho & Haor & Hroot & Hfreed & Hrep' & Hsep' & _ & Hfr & Hsl)).
  - rewrite Hlen. lia.
  - exact Hrg.
  - exact Hne.
  - exact Hrep.
  - exact Ht.
  - exact Hsep.
  - exact Hpf.
  - rewrite Hlen. match goal with |- leaf_ok ?n _ => replace n with (Z.to_nat (k + 1)) by lia end. exact Hw.
  - exists s', o, ch', a', r. rewrite Hroot.
    split; [exact Hm|]. split; [exact Hmp|]. split; [exact Ho|]. split; [exact Haor|].
    split; [reflexivity|]. split; [exact Hfreed|]. split; [exact Hrep'|]. split; [exact Hsep'|].
    split; [exact Hfr|]. exact Hsl.
Qed.

(* ---------- the walking operations ---------- *)
(* cf. RefineOps.mslot_rep *)
Lemma mslot_rep_top ri i rest : forall l s t ch,
  prep ri l s ch t -> tframe t -> (length (i :: rest) <= S l)%nat ->
  Forall (fun i => 0 <= i < 512) (i :: rest) -> i <> ri ->
  match slot_at ch (map Z.to_nat (i :: rest)) with
  | inr e => mslot s t (i :: rest) = inr e
  | inl n => exists sl, mslot s t (i :: rest) = inl sl /\ 0 <= sl /\
             rep_entry (S l - length (i :: rest)) s n (rd s sl) /\
             in_frames (t :: frames_of ch) sl
  end.
Proof.
  intros l s t ch Hrep Ht Hlen Hidx Hir.
  inversion Hidx as [|? ? Hi Hrest]; subst.
  pose proof (Hrep i Hi Hir) as He.
  destruct rest as [|i2 rest].
  - cbn [map slot_at mslot length]. exists (t + 8 * i). split; [reflexivity|].
    split; [destruct Ht; lia|]. split; [replace (S l - 1)%nat with l by lia; exact He|].
    exists t. split; [left; reflexivity|]. unfold in_frame. lia.
  - destruct l as [|l']; [cbn [length] in Hlen; lia|].
    change (map Z.to_nat (i :: i2 :: rest)) with (Z.to_nat i :: map Z.to_nat (i2 :: rest)).
    cbn [map]. rewrite slot_at_step.
    change (mslot s t (i :: i2 :: rest)) with
      (match next_table (rd s (t + 8 * i)) with WTable t' => mslot s t' (i2 :: rest) | w => inr (werr w) end).
    rewrite (next_table_rep (S l') s _ _ He ltac:(lia)).
    destruct (child ch (Z.to_nat i)) as [|w|f fl sub] eqn:Hc; [reflexivity|reflexivity|].
    cbn [rep_entry] in He. destruct He as (_ & Hf & _ & Hsub).
    pose proof (mslot_rep (i2 :: rest) l' s f sub Hsub Hf ltac:(discriminate) ltac:(cbn [length] in *; lia) Hrest) as IH.
    change (Z.to_nat i2 :: map Z.to_nat rest) with (map Z.to_nat (i2 :: rest)).
    destruct (slot_at sub (map Z.to_nat (i2 :: rest))) as [n|e]; [|exact IH].
    destruct IH as (sl & Hm & Hsl & Hre & Hin). exists sl. split; [exact Hm|]. split; [exact Hsl|].
    split; [replace (S (S l') - length (i :: i2 :: rest))%nat with (S l' - length (i2 :: rest))%nat by (cbn [length]; lia); exact Hre|].
    destruct Hin as (g & Hg & Hga). exists g. split; [|exact Hga]. right.
    destruct (frames_of_child _ _ _ _ _ Hc) as [G1 G2]. destruct Hg as [<-|Hg]; [exact G1|apply G2; exact Hg].
Qed.

(* cf. RefineOps.set_slot_sim *)
Lemma set_slot_sim_top ri i rest : forall l s t ch n n' sl v,
  prep ri l s ch t -> tframe t -> sep s t ch -> (length (i :: rest) <= S l)%nat ->
  Forall (fun i => 0 <= i < 512) (i :: rest) -> i <> ri ->
  slot_at ch (map Z.to_nat (i :: rest)) = inl n -> mslot s t (i :: rest) = inl sl ->
  node_frames n' = node_frames n ->
  (forall s', (forall a, 0 <= a -> in_frames (node_frames n) a -> rd s' a = rd s a) ->
              rep_entry (S l - length (i :: rest)) s' n' v) ->
  prep ri l (wr s sl v) (set_slot ch (map Z.to_nat (i :: rest)) n') t /\
  frames_of (set_slot ch (map Z.to_nat (i :: rest)) n') = frames_of ch /\
  (forall a, 0 <= a -> ~ in_frames (t :: frames_of ch) a -> rd (wr s sl v) a = rd s a) /\
  (forall j, 0 <= j < 512 -> j <> i -> rd (wr s sl v) (t + 8 * j) = rd s (t + 8 * j)).
Proof.
  intros l s t ch n n' sl v Hrep Ht Hsep Hlen Hidx Hir Hsa Hms Hfr Hnew.
  inversion Hidx as [|? ? Hi Hrest]; subst.
  destruct rest as [|i2 rest].
  - cbn [map slot_at mslot set_slot length] in *. inversion Hsa; subst n. inversion Hms; subst sl. clear Hsa Hms.
    assert (Hout : forall a, 0 <= a -> ~ in_frame t a -> rd (wr s (t + 8 * i) v) a = rd s a).
    { intros a Ha Hn. apply (rd_wr_outside s t); auto. unfold in_frame. destruct Ht. lia. }
    assert (Hslots : forall j, 0 <= j < 512 -> j <> i -> rd (wr s (t + 8 * i) v) (t + 8 * j) = rd s (t + 8 * j)).
    { intros j Hj Hji. destruct Ht as [Ht1 Ht2]. apply rd_wr_slot; lia. }
    split; [|split; [|split]].
    + apply (prep_update ri l s _ ch t i n' Hi Hrep).
      * rewrite rd_wr_same. replace l with (S l - 1)%nat by lia. apply Hnew.
        intros a Ha Hin. apply Hout; [exact Ha|]. intros Hb.
        destruct Hin as (g & Hg & Hga). destruct Hsep as [Hn HF]. rewrite Forall_forall in HF.
        assert (Hgin : In g (frames_of ch)) by (apply (node_frames_child ch (Z.to_nat i)); exact Hg).
        assert (t = g).
        { apply (frames_disjoint t g a); [exact Ht|apply HF; right; apply in_or_app; left; exact Hgin|exact Hb|exact Hga]. }
        subst g. inversion Hn as [|? ? Hnin _]; subst. apply Hnin. apply in_or_app. left. exact Hgin.
      * exact Hslots.
      * intros j a Hj Hji Ha Hin. apply Hout; [exact Ha|]. intros Hb.
        apply (sibling_disjoint s t ch i j a Hsep ltac:(lia) Hin). exists t. split; [left; reflexivity|exact Hb].
    + destruct (frames_of_set_child ch (Z.to_nat i) n') as (pre & post & E1 & E2). rewrite E2, E1, Hfr. reflexivity.
    + intros a Ha Hn. apply Hout; [exact Ha|]. intros Hb. apply Hn. exists t. split; [left; reflexivity|exact Hb].
    + exact Hslots.
  - destruct l as [|l']; [cbn [length] in Hlen; lia|].
    change (map Z.to_nat (i :: i2 :: rest)) with (Z.to_nat i :: map Z.to_nat (i2 :: rest)) in *.
    cbn [map] in Hsa |- *. rewrite slot_at_step in Hsa. rewrite set_slot_step.
    pose proof (Hrep i Hi Hir) as He.
    change (mslot s t (i :: i2 :: rest)) with
      (match next_table (rd s (t + 8 * i)) with WTable t' => mslot s t' (i2 :: rest) | w => inr (werr w) end) in Hms.
    rewrite (next_table_rep (S l') s _ _ He ltac:(lia)) in Hms.
    destruct (child ch (Z.to_nat i)) as [|w|f fl sub] eqn:Hc; try discriminate.
    cbn [rep_entry] in He. destruct He as (He & Hf & Hfl & Hsub).
    change (Z.to_nat i2 :: map Z.to_nat rest) with (map Z.to_nat (i2 :: rest)) in *.
    assert (Hsep1 : sep s f sub) by (apply (sep_sub s s t ch i f fl sub Hsep Hc eq_refl)).
    destruct (set_slot_sim (i2 :: rest) l' s f sub n n' sl v Hsub Hf Hsep1 ltac:(discriminate) ltac:(cbn [length] in *; lia) Hrest Hsa Hms Hfr)
      as (Hrep' & Hfrs & Hout').
    { intros s' Hag. replace (S l' - length (i2 :: rest))%nat with (S (S l') - length (i :: i2 :: rest))%nat
        by (cbn [length]; lia). apply Hnew. exact Hag. }
    assert (Hnot : forall a, in_frame t a -> ~ in_frames (f :: frames_of sub) a).
    { intros a Hb (g & Hg & Hga).
      assert (Hgin : In g (frames_of ch)).
      { destruct (frames_of_child _ _ _ _ _ Hc) as [G1 G2]. destruct Hg as [<-|Hg]; [exact G1|apply G2; exact Hg]. }
      destruct Hsep as [Hn HF]. rewrite Forall_forall in HF.
      assert (t = g).
      { apply (frames_disjoint t g a); [exact Ht|apply HF; right; apply in_or_app; left; exact Hgin|exact Hb|exact Hga]. }
      subst g. inversion Hn as [|? ? Hnin _]; subst. apply Hnin. apply in_or_app. left. exact Hgin. }
    assert (Hslots : forall j, 0 <= j < 512 -> rd (wr s sl v) (t + 8 * j) = rd s (t + 8 * j)).
    { intros j Hj. apply Hout'; [destruct Ht; lia|apply Hnot; unfold in_frame; destruct Ht; lia]. }
    split; [|split; [|split]].
    + apply (prep_update ri (S l') s _ ch t i _ Hi Hrep).
      * cbn [rep_entry]. rewrite Hslots by exact Hi.
        split; [exact He|]. split; [exact Hf|]. split; [exact Hfl|exact Hrep'].
      * intros j Hj Hji. apply Hslots. exact Hj.
      * intros j a Hj Hji Ha Hin. apply Hout'; [exact Ha|].
        pose proof (sibling_disjoint s t ch i j a Hsep ltac:(lia) Hin) as Hd. rewrite Hc in Hd.
        cbn [node_frames] in Hd. fold (frames_of sub) in Hd.
        intros (g & Hg & Hga). apply Hd. exists g. split; [|exact Hga]. right. apply in_or_app. left. exact Hg.
    + destruct (frames_of_set_child ch (Z.to_nat i) (Tab f fl (set_slot sub (map Z.to_nat (i2 :: rest)) n'))) as (pre & post & E1 & E2).
      rewrite E2, E1, Hc. cbn [node_frames]. fold (frames_of sub).
      fold (frames_of (set_slot sub (map Z.to_nat (i2 :: rest)) n')). rewrite Hfrs. reflexivity.
    + intros a Ha Hn. apply Hout'; [exact Ha|]. intros (g & Hg & Hga). apply Hn. exists g. split; [|exact Hga].
      right. destruct (frames_of_child _ _ _ _ _ Hc) as [G1 G2]. destruct Hg as [<-|Hg]; [exact G1|apply G2; exact Hg].
    + intros j Hj _. apply Hslots. exact Hj.
Qed.

(* the same two lemmas for a non-empty path whose head is not ri *)
Lemma mslot_rep_hd ri idxs l s t ch :
  prep ri l s ch t -> tframe t -> idxs <> [] -> (length idxs <= S l)%nat ->
  Forall (fun i => 0 <= i < 512) idxs -> hd 0 idxs <> ri ->
  match slot_at ch (map Z.to_nat idxs) with
  | inr e => mslot s t idxs = inr e
  | inl n => exists sl, mslot s t idxs = inl sl /\ 0 <= sl /\
             rep_entry (S l - length idxs) s n (rd s sl) /\
             in_frames (t :: frames_of ch) sl
  end.
Proof.
  intros Hrep Ht Hne Hlen Hidx Hhd. destruct idxs as [|i rest]; [contradiction|].
  apply (mslot_rep_top ri i rest l s t ch Hrep Ht Hlen Hidx Hhd).
Qed.

Lemma set_slot_sim_hd ri idxs l s t ch n n' sl v :
  prep ri l s ch t -> tframe t -> sep s t ch -> idxs <> [] -> (length idxs <= S l)%nat ->
  Forall (fun i => 0 <= i < 512) idxs -> hd 0 idxs <> ri ->
  slot_at ch (map Z.to_nat idxs) = inl n -> mslot s t idxs = inl sl ->
  node_frames n' = node_frames n ->
  (forall s', (forall a, 0 <= a -> in_frames (node_frames n) a -> rd s' a = rd s a) ->
              rep_entry (S l - length idxs) s' n' v) ->
  prep ri l (wr s sl v) (set_slot ch (map Z.to_nat idxs) n') t /\
  frames_of (set_slot ch (map Z.to_nat idxs) n') = frames_of ch /\
  (forall a, 0 <= a -> ~ in_frames (t :: frames_of ch) a -> rd (wr s sl v) a = rd s a) /\
  (forall j, 0 <= j < 512 -> j <> hd 0 idxs -> rd (wr s sl v) (t + 8 * j) = rd s (t + 8 * j)).
Proof.
  intros Hrep Ht Hsep Hne Hlen Hidx Hhd. destruct idxs as [|i rest]; [contradiction|].
  apply (set_slot_sim_top ri i rest l s t ch n n' sl v Hrep Ht Hsep Hlen Hidx Hhd).
Qed.

Lemma hd_zidx_list k page : hd 0 (zidx_list k page) = p4_index page.
Proof. unfold zidx_list. destruct (k =? 2); [reflexivity|]. destruct (k =? 1); reflexivity. Qed.

(* what an operation that does not go through slot ri leaves as it was, besides prep/sep *)
Definition kept (page : Z) (s s' : pstate) (ch : list node) : Prop :=
  same_alloc s s' /\
  (forall a, 0 <= a -> ~ in_frames (root s :: frames_of ch) a -> rd s' a = rd s a) /\
  (forall j, 0 <= j < 512 -> j <> p4_index page -> rd s' (root s + 8 * j) = rd s (root s + 8 * j)) /\
  rec_index s' = rec_index s.
Lemma kept_refl page s ch : kept page s s ch.
Proof. split; [apply same_alloc_refl|]. split; [intros; reflexivity|]. split; [intros; reflexivity|reflexivity]. Qed.

Theorem unmap_refines_x ri s ch k page :
  0 <= k <= 2 -> p4_index page <> ri ->
  prep ri 3 s ch (root s) -> tframe (root s) -> sep s (root s) ch ->
  let s' := fst (unmap s k page) in
  let ch' := fst (t_unmap ch (idx_list k page) k page) in
  snd (unmap s k page) = snd (t_unmap ch (idx_list k page) k page) /\
  prep ri 3 s' ch' (root s') /\ sep s' (root s') ch' /\ kept page s s' ch.
Proof.
  intros Hk Hne Hrep Ht Hsep. unfold unmap, t_unmap.
  rewrite descend_mslot by exact Hk. rewrite idx_list_zidx.
  assert (Hhd : hd 0 (zidx_list k page) <> ri) by (rewrite hd_zidx_list; exact Hne).
  pose proof (mslot_rep_hd ri (zidx_list k page) 3 s (root s) ch Hrep Ht (zidx_nonempty k page)
                ltac:(rewrite zidx_length by exact Hk; lia) (zidx_ranges k page) Hhd) as Hm.
  rewrite (slot_level k page Hk) in Hm.
  assert (Hunch : prep ri 3 s ch (root s) /\ sep s (root s) ch /\ kept page s s ch).
  { split; [exact Hrep|]. split; [exact Hsep|apply kept_refl]. }
  destruct (slot_at ch (map Z.to_nat (zidx_list k page))) as [n|e] eqn:Hsa.
  2:{ rewrite Hm. cbn [fst snd]. split; [reflexivity|exact Hunch]. }
  destruct Hm as (sl & Hms & Hsl & Hre & _). rewrite Hms.
  destruct n as [|w|f fl sub]; cbn [rep_entry] in Hre.
  - (* nothing there *)
    rewrite Hre. change (e_present 0) with false. cbn [negb].
    destruct (k =? 0); cbn [fst snd]; (split; [reflexivity|exact Hunch]).
  - destruct Hre as [Hre (Hw & Hp & Hh & _)]. rewrite Hre.
    rewrite e_present_bit, Hp. cbn [negb].
    assert (Hwrite : prep ri 3 (wr s sl 0) (set_slot ch (map Z.to_nat (zidx_list k page)) Empty) (root (wr s sl 0)) /\
        sep (wr s sl 0) (root (wr s sl 0)) (set_slot ch (map Z.to_nat (zidx_list k page)) Empty) /\
        kept page s (wr s sl 0) ch).
    { destruct (set_slot_sim_hd ri (zidx_list k page) 3 s (root s) ch (Leaf w) Empty sl 0 Hrep Ht Hsep (zidx_nonempty k page)
                  ltac:(rewrite zidx_length by exact Hk; lia) (zidx_ranges k page) Hhd Hsa Hms eq_refl)
        as (R & F & O & SL); [intros; reflexivity|].
      split; [exact R|]. split; [unfold sep in *; rewrite F; exact Hsep|].
      split; [apply same_alloc_wr|]. split; [exact O|]. split; [|reflexivity].
      rewrite hd_zidx_list in SL. exact SL. }
    destruct (Z.eqb_spec k 0) as [->|Hk0].
    + change (size_of_kind 0) with S4K. rewrite leaf_addr_mod_4k. cbn [Z.eqb negb fst snd].
      split; [reflexivity|exact Hwrite].
    + rewrite e_huge_bit, (Hh ltac:(lia)). cbn [negb].
      change (e_addr w) with (leaf_addr w).
      destruct (negb (leaf_addr w mod size_of_kind k =? 0)); cbn [fst snd].
      * split; [reflexivity|exact Hunch].
      * split; [reflexivity|exact Hwrite].
  - destruct Hre as (Hre & Hf & Hfl & Hsub). rewrite Hre.
    destruct (tab_word f fl Hf Hfl) as (_ & Hhu & Hpr & _).
    rewrite Hpr, Hhu. cbn [negb].
    destruct (Z.eqb_spec k 0) as [->|Hk0].
    + cbn in Hsub. contradiction.
    + cbn [fst snd]. split; [reflexivity|exact Hunch].
Qed.

Theorem update_flags_refines_x ri s ch k page flags :
  0 <= k <= 2 -> p4_index page <> ri ->
  prep ri 3 s ch (root s) -> tframe (root s) -> sep s (root s) ch ->
  0 <= flags < W64 -> Z.testbit flags 0 = true ->
  let s' := fst (update_flags s k page flags) in
  let ch' := fst (t_update_flags ch (idx_list k page) k page flags) in
  snd (update_flags s k page flags) = snd (t_update_flags ch (idx_list k page) k page flags) /\
  prep ri 3 s' ch' (root s') /\ sep s' (root s') ch' /\ kept page s s' ch.
Proof.
  intros Hk Hne Hrep Ht Hsep Hfl Hfp. unfold update_flags, t_update_flags.
  rewrite descend_mslot by exact Hk. rewrite idx_list_zidx.
  assert (Hhd : hd 0 (zidx_list k page) <> ri) by (rewrite hd_zidx_list; exact Hne).
  pose proof (mslot_rep_hd ri (zidx_list k page) 3 s (root s) ch Hrep Ht (zidx_nonempty k page)
                ltac:(rewrite zidx_length by exact Hk; lia) (zidx_ranges k page) Hhd) as Hm.
  rewrite (slot_level k page Hk) in Hm.
  assert (Hunch : prep ri 3 s ch (root s) /\ sep s (root s) ch /\ kept page s s ch).
  { split; [exact Hrep|]. split; [exact Hsep|apply kept_refl]. }
  destruct (slot_at ch (map Z.to_nat (zidx_list k page))) as [n|e] eqn:Hsa.
  2:{ rewrite Hm. cbn [fst snd]. split; [reflexivity|exact Hunch]. }
  destruct Hm as (sl & Hms & Hsl & Hre & _). rewrite Hms.
  destruct n as [|w|f fl sub]; cbn [rep_entry] in Hre.
  - rewrite Hre. cbn [Z.eqb fst snd]. split; [reflexivity|exact Hunch].
  - destruct Hre as [Hre (Hw & Hp & Hh & Hlv)]. rewrite Hre.
    assert (Hnz : (w =? 0) = false).
    { apply Z.eqb_neq. intros H0. rewrite H0, Z.bits_0 in Hp. discriminate. }
    rewrite Hnz.
    set (fl' := if k =? 0 then flags else Z.lor flags PTF_HUGE).
    assert (Hwrite : prep ri 3 (wr s sl (Z.lor (leaf_addr w) fl')) (set_slot ch (map Z.to_nat (zidx_list k page)) (Leaf (Z.lor (leaf_addr w) fl')))
                         (root (wr s sl (Z.lor (leaf_addr w) fl'))) /\
        sep (wr s sl (Z.lor (leaf_addr w) fl')) (root (wr s sl (Z.lor (leaf_addr w) fl')))
            (set_slot ch (map Z.to_nat (zidx_list k page)) (Leaf (Z.lor (leaf_addr w) fl'))) /\
        kept page s (wr s sl (Z.lor (leaf_addr w) fl')) ch).
    { destruct (set_slot_sim_hd ri (zidx_list k page) 3 s (root s) ch (Leaf w) (Leaf (Z.lor (leaf_addr w) fl')) sl
                  (Z.lor (leaf_addr w) fl') Hrep Ht Hsep (zidx_nonempty k page)
                  ltac:(rewrite zidx_length by exact Hk; lia) (zidx_ranges k page) Hhd Hsa Hms eq_refl)
        as (R & F & O & SL).
      { intros s' _. rewrite (slot_level k page Hk). cbn [rep_entry]. split; [reflexivity|].
        assert (Hfl' : 0 <= fl' < W64 /\ Z.testbit fl' 0 = true /\ ((2 <= S (Z.to_nat k))%nat -> Z.testbit fl' 7 = true)).
        { unfold fl'. destruct (Z.eqb_spec k 0) as [->|Hk0].
          - split; [exact Hfl|]. split; [exact Hfp|]. cbn. lia.
          - split; [apply lor_u64; [exact Hfl|unfold PTF_HUGE, W64; lia]|].
            split; [rewrite Z.lor_spec, Hfp; reflexivity|]. intros _. rewrite Z.lor_spec. apply Bool.orb_true_r. }
        destruct Hfl' as (F1 & F2 & F3).
        split; [apply lor_u64; [apply leaf_addr_range|exact F1]|].
        split; [rewrite Z.lor_spec, F2; apply Bool.orb_true_r|].
        split; [intros H2; rewrite Z.lor_spec, (F3 H2); apply Bool.orb_true_r|exact Hlv]. }
      split; [exact R|]. split; [unfold sep in *; rewrite F; exact Hsep|].
      split; [apply same_alloc_wr|]. split; [exact O|]. split; [|reflexivity].
      rewrite hd_zidx_list in SL. exact SL. }
    change (e_set_flags w) with (fun f => Z.lor (e_addr w) f). change (e_addr w) with (leaf_addr w). cbn beta.
    destruct (Z.eqb_spec k 0) as [->|Hk0].
    + cbn [fst snd]. split; [reflexivity|exact Hwrite].
    + rewrite e_huge_bit, (Hh ltac:(lia)). cbn [negb fst snd].
      assert (Efl : fl' = Z.lor flags PTF_HUGE) by (unfold fl'; destruct (Z.eqb_spec k 0); [contradiction|reflexivity]).
      rewrite Efl in Hwrite. split; [reflexivity|exact Hwrite].
  - destruct Hre as (Hre & Hf & Hfl0 & Hsub). rewrite Hre.
    destruct (tab_word f fl Hf Hfl0) as (Hnz & Hhu & _).
    apply Z.eqb_neq in Hnz. rewrite Hnz.
    destruct (Z.eqb_spec k 0) as [->|Hk0].
    + cbn in Hsub. contradiction.
    + rewrite Hhu. cbn [negb fst snd]. split; [reflexivity|exact Hunch].
Qed.

Theorem translate_page_refines_x ri s ch k page :
  0 <= k <= 2 -> p4_index page <> ri -> prep ri 3 s ch (root s) -> tframe (root s) ->
  translate_page s k page = t_translate_page ch (idx_list k page) k.
Proof.
  intros Hk Hne Hrep Ht. unfold translate_page, t_translate_page.
  rewrite descend_mslot by exact Hk. rewrite idx_list_zidx.
  assert (Hhd : hd 0 (zidx_list k page) <> ri) by (rewrite hd_zidx_list; exact Hne).
  pose proof (mslot_rep_hd ri (zidx_list k page) 3 s (root s) ch Hrep Ht (zidx_nonempty k page)
                ltac:(rewrite zidx_length by exact Hk; lia) (zidx_ranges k page) Hhd) as Hm.
  rewrite (slot_level k page Hk) in Hm.
  destruct (slot_at ch (map Z.to_nat (zidx_list k page))) as [n|e] eqn:Hsa; [|rewrite Hm; reflexivity].
  destruct Hm as (sl & Hms & Hsl & Hre & _). rewrite Hms.
  destruct n as [|w|f fl sub]; cbn [rep_entry] in Hre.
  - rewrite Hre. reflexivity.
  - destruct Hre as [Hre (Hw & Hp & Hh & _)]. rewrite Hre.
    assert (Hnz : (w =? 0) = false).
    { apply Z.eqb_neq. intros H0. rewrite H0, Z.bits_0 in Hp. discriminate. }
    rewrite Hnz. change (e_addr w) with (leaf_addr w).
    destruct (Z.eqb_spec k 0) as [->|Hk0]; cbn [negb andb]; [reflexivity|].
    rewrite e_huge_bit, (Hh ltac:(lia)). cbn [negb]. reflexivity.
  - destruct Hre as (Hre & Hf & Hfl0 & Hsub). rewrite Hre.
    destruct (tab_word f fl Hf Hfl0) as (Hnz & Hhu & _).
    apply Z.eqb_neq in Hnz. rewrite Hnz.
    destruct (Z.eqb_spec k 0) as [->|Hk0].
    + cbn in Hsub. contradiction.
    + rewrite Hhu. cbn [negb andb]. reflexivity.
Qed.

Lemma hd_pidx level page : hd 0 (pidx level page) = p4_index page.
Proof. unfold pidx. destruct (level =? 4); [reflexivity|]. destruct (level =? 3); reflexivity. Qed.

(* rc: the mapper kind of the tree operation (set_flags_p*_entry does not depend on it) *)
Theorem set_flags_parent_refines_x ri rc s ch k level page flags fr r0 :
  2 <= level <= 4 -> 0 <= k <= 2 -> p4_index page <> ri ->
  prep ri 3 s ch (root s) -> tframe (root s) -> sep s (root s) ch ->
  pflags_ok flags ->
  let s' := fst (set_flags_parent s k level page flags) in
  let r := apply_op rc r0 {| t_root := ch; t_aor := aor_of s; t_freed := fr |} (OSetParent k level page flags) in
  snd (set_flags_parent s k level page flags) = snd r /\ t_aor (fst r) = aor_of s /\ t_freed (fst r) = fr /\
  prep ri 3 s' (t_root (fst r)) (root s') /\ sep s' (root s') (t_root (fst r)) /\ kept page s s' ch.
Proof.
  intros Hl Hk Hne Hrep Ht Hsep Hfl. cbn [apply_op t_root t_aor t_freed].
  assert (Hunch : prep ri 3 s ch (root s) /\ sep s (root s) ch /\ kept page s s ch).
  { split; [exact Hrep|]. split; [exact Hsep|apply kept_refl]. }
  destruct ((level =? 3) && (k =? 2))%bool eqn:G1.
  { unfold set_flags_parent. assert (level =? 4 = false) by lia. rewrite H, G1. cbn [fst snd t_root t_aor t_freed].
    split; [reflexivity|]. split; [reflexivity|]. split; [reflexivity|exact Hunch]. }
  destruct ((level =? 2) && negb (k =? 0))%bool eqn:G2.
  { unfold set_flags_parent. assert (level =? 4 = false) by lia. rewrite H, G1, G2. cbn [fst snd t_root t_aor t_freed].
    split; [reflexivity|]. split; [reflexivity|]. split; [reflexivity|exact Hunch]. }
  rewrite (parent_slot s k level page Hl Hk) by (rewrite ?G1, ?G2; reflexivity).
  rewrite (pidx_firstn level page Hl). unfold t_set_flags_parent.
  destruct (pidx_ok level page Hl) as (Pne & Plen & Pr & Plv).
  assert (Hhd : hd 0 (pidx level page) <> ri) by (rewrite hd_pidx; exact Hne).
  pose proof (mslot_rep_hd ri (pidx level page) 3 s (root s) ch Hrep Ht Pne Plen Pr Hhd) as Hm. rewrite Plv in Hm.
  destruct (slot_at ch (map Z.to_nat (pidx level page))) as [n|e] eqn:Hsa.
  2:{ rewrite Hm. cbn [fst snd t_root t_aor t_freed]. split; [reflexivity|]. split; [reflexivity|]. split; [reflexivity|exact Hunch]. }
  destruct Hm as (sl & Hms & Hsl & Hre & _). rewrite Hms. cbv zeta.
  destruct n as [|w|f fl sub]; cbn [rep_entry] in Hre.
  - rewrite Hre. cbn [Z.eqb fst snd t_root t_aor t_freed]. split; [reflexivity|]. split; [reflexivity|]. split; [reflexivity|exact Hunch].
  - destruct Hre as [Hre (Hw & Hp & Hh & Hlv)]. rewrite Hre.
    assert (Hnz : (w =? 0) = false).
    { apply Z.eqb_neq. intros H0. rewrite H0, Z.bits_0 in Hp. discriminate. }
    rewrite Hnz.
    destruct (Z.eqb_spec level 4) as [->|N4]; [cbn in Hlv; lia|].
    rewrite e_huge_bit, (Hh ltac:(lia)). cbn [negb andb fst snd t_root t_aor t_freed]. split; [reflexivity|]. split; [reflexivity|]. split; [reflexivity|exact Hunch].
  - destruct Hre as (Hre & Hf & Hfl0 & Hsub). rewrite Hre.
    destruct (tab_word f fl Hf Hfl0) as (Hnz & Hhu & _ & Ha & _).
    apply Z.eqb_neq in Hnz. rewrite Hnz, Hhu. rewrite Bool.andb_false_r.
    unfold e_set_flags. rewrite Ha. cbn [fst snd t_root t_aor t_freed].
    destruct (set_slot_sim_hd ri (pidx level page) 3 s (root s) ch (Tab f fl sub) (Tab f flags sub) sl (Z.lor f flags)
                Hrep Ht Hsep Pne Plen Pr Hhd Hsa Hms eq_refl) as (R & F & O & SL).
    { intros s' Hag. rewrite Plv. cbn [rep_entry]. split; [reflexivity|]. split; [exact Hf|]. split; [exact Hfl|].
      apply (rep_frame _ s s' sub f); [|destruct Hf; lia|exact Hsub].
      intros a Ha0 Hin. apply Hag; [exact Ha0|]. exact Hin. }
    split; [reflexivity|]. split; [reflexivity|]. split; [reflexivity|]. split; [exact R|]. split; [unfold sep in *; rewrite F; exact Hsep|].
    split; [apply same_alloc_wr|]. split; [exact O|]. split; [|reflexivity].
    rewrite hd_pidx in SL. exact SL.
Qed.

(* ---------- the hardware walk (cf. RefineWalk.hw_walk_rep) ---------- *)
Theorem hw_walk_repx ri s ch va :
  p4_index va <> ri -> prep ri 3 s ch (root s) -> enc_walk (hw_walk s va) = t_hw ch va.
Proof.
  intros Hne Hrep. destruct (index_ranges va) as (H1 & H2 & H3 & H4 & _).
  unfold t_hw. rewrite idx_list0. unfold hw_walk.
  pose proof (Hrep (p4_index va) H4 Hne) as E4.
  cbn [t_walk].
  destruct (child ch (Z.to_nat (p4_index va))) as [|w4|f4 fl4 sub4]; cbn [rep_entry] in E4.
  - rewrite E4. reflexivity.
  - destruct E4 as [_ (_ & _ & _ & Hl)]. lia.
  - destruct E4 as (E4 & Hf4 & Hfl4 & R3). rewrite E4.
    destruct (tab_bits f4 fl4 Hf4 Hfl4) as (B40 & B47 & A4 & B41 & B42).
    rewrite B40, A4. cbn [negb].
    pose proof (proj1 (rep_unfold _ _ _ _) R3 (p3_index va) H3) as E3.
    destruct (child sub4 (Z.to_nat (p3_index va))) as [|w3|f3 fl3 sub3]; cbn [rep_entry] in E3.
    + rewrite E3. reflexivity.
    + destruct E3 as [E3 (Hw3 & Hp3 & Hh3 & _)]. rewrite E3. unfold bit_set at 1. rewrite Hp3. cbn [negb].
      unfold bit_set at 1. rewrite (Hh3 ltac:(lia)).
      cbn [enc_walk w_phys w_size w_leaf w_writable w_user Z.eqb Z.sub].
      change (4 - 1 =? 3) with true. cbn iota.
      rewrite B41, B42, land_M1G. unfold bit_set.
      change (S1G - 1) with (2 ^ 30 - 1). rewrite land_ones_mod by lia. reflexivity.
    + destruct E3 as (E3 & Hf3 & Hfl3 & R2). rewrite E3.
      destruct (tab_bits f3 fl3 Hf3 Hfl3) as (B30 & B37 & A3 & B31 & B32).
      rewrite B30, B37, A3. cbn [negb].
      pose proof (proj1 (rep_unfold _ _ _ _) R2 (p2_index va) H2) as E2.
      destruct (child sub3 (Z.to_nat (p2_index va))) as [|w2|f2 fl2 sub2]; cbn [rep_entry] in E2.
      * rewrite E2. reflexivity.
      * destruct E2 as [E2 (Hw2 & Hp2 & Hh2 & _)]. rewrite E2. unfold bit_set at 1. rewrite Hp2. cbn [negb].
        unfold bit_set at 1. rewrite (Hh2 ltac:(lia)).
        cbn [enc_walk w_phys w_size w_leaf w_writable w_user].
        change (4 - 1 - 1 =? 3) with false. change (4 - 1 - 1 =? 2) with true. cbn iota.
        rewrite B41, B42, B31, B32, land_M2M. unfold bit_set.
        change (S2M - 1) with (2 ^ 21 - 1). rewrite land_ones_mod by lia. reflexivity.
      * destruct E2 as (E2 & Hf2 & Hfl2 & R1). rewrite E2.
        destruct (tab_bits f2 fl2 Hf2 Hfl2) as (B20 & B27 & A2 & B21 & B22).
        rewrite B20, B27, A2. cbn [negb].
        pose proof (proj1 (rep_unfold _ _ _ _) R1 (p1_index va) H1) as E1.
        destruct (child sub2 (Z.to_nat (p1_index va))) as [|w1|f1 fl1 sub1]; cbn [rep_entry] in E1.
        -- rewrite E1. reflexivity.
        -- destruct E1 as [E1 (Hw1 & Hp1 & _)]. rewrite E1. unfold bit_set at 1. rewrite Hp1. cbn [negb].
           cbn [enc_walk w_phys w_size w_leaf w_writable w_user].
           change (4 - 1 - 1 - 1 =? 3) with false. change (4 - 1 - 1 - 1 =? 2) with false. cbn iota.
           rewrite B41, B42, B31, B32, B21, B22. unfold bit_set.
           fold (leaf_addr w1). rewrite leaf_addr_mod_4k, Z.sub_0_r.
           change (S4K - 1) with (2 ^ 12 - 1). rewrite land_ones_mod by lia. reflexivity.
        -- destruct E1 as (_ & _ & _ & R0). cbn [rep] in R0. contradiction.
Qed.

(* ---------- rec_index is not touched by the memory model of map_to ---------- *)
Lemma rec_index_zero_from n : forall s a, rec_index (zero_from s a n) = rec_index s.
Proof. induction n as [|n IH]; intros s a; [reflexivity|]. cbn [zero_from]. rewrite IH. reflexivity. Qed.
Lemma rec_index_allocate s : rec_index (snd (allocate s)) = rec_index s.
Proof. unfold allocate. destruct (alloc s); reflexivity. Qed.
Lemma rec_index_create s slot cf pf s' c :
  create_next_table_g s slot cf pf = Ok (s', c) -> rec_index s' = rec_index s.
Proof.
  unfold create_next_table_g. intros H.
  destruct (rd s slot =? 0).
  - pose proof (rec_index_allocate s) as Ha. destruct (allocate s) as [[f|] s1]; cbn [snd] in Ha.
    + destruct (negb (f mod 4096 =? 0)); [discriminate|].
      destruct (next_table (rd (wr s1 slot (Z.lor f cf)) slot)); try discriminate; inversion H; subst.
      * unfold zero_table. rewrite rec_index_zero_from. exact Ha.
      * exact Ha.
    + inversion H; subst. exact Ha.
  - destruct (e_huge (rd s slot)); [inversion H; subst; reflexivity|].
    match type of H with context [next_table (rd ?x slot)] => set (s1 := x) in * end.
    assert (Hs1 : rec_index s1 = rec_index s).
    { subst s1. destruct (negb (pf =? 0) && negb (has (e_flags (rd s slot)) pf))%bool; reflexivity. }
    destruct (next_table (rd s1 slot)); try discriminate; inversion H; subst; exact Hs1.
Qed.
Lemma rec_index_mmap rc idxs : forall s t w frame page pf s' o,
  mmap rc s t idxs w frame page pf = Ok (s', o) -> rec_index s' = rec_index s.
Proof.
  induction idxs as [|i rest IH]; intros s t w frame page pf s' o H.
  - cbn [mmap] in H. inversion H; subst. reflexivity.
  - destruct rest as [|i2 rest].
    + cbn [mmap] in H. destruct (negb (rd s (t + 8 * i) =? 0)); inversion H; subst; reflexivity.
    + change (mmap rc s t (i :: i2 :: rest) w frame page pf) with
        (do r <- create_next_table_g s (t + 8 * i) (new_parent_flags rc pf) pf;
         match snd r with
         | CTable t' => mmap rc (fst r) t' (i2 :: rest) w frame page pf
         | c => Ok (fst r, cerr c)
         end) in H.
      destruct (create_next_table_g s (t + 8 * i) (new_parent_flags rc pf) pf) as [[s1 c]|] eqn:Hc; [|discriminate].
      cbn [bind fst snd] in H. apply rec_index_create in Hc.
      destruct c as [t'| |].
      * apply IH in H. congruence.
      * inversion H; subst. exact Hc.
      * inversion H; subst. exact Hc.
Qed.
Lemma rec_index_map_to_rc rc s k page frame flags pf s' o :
  map_to_rc rc s k page frame flags pf = Ok (s', o) -> rec_index s' = rec_index s.
Proof. apply rec_index_mmap. Qed.

Print Assumptions map_to_rc_refines_x.
Print Assumptions set_flags_parent_refines_x.
Print Assumptions hw_walk_repx.
