(* RecursivePageTable::clean_up on table memory, part 2: the loop over the slots of one table
   computes prune_children (with the skipped slot ri), given what makes the recursive addresses
   of the child tables resolve (Ctx) and what the recursive call does (HRec). *)
From Coq Require Import FMapPositive.
From X86 Require Import Base.Bits Addr.Canon Addr.Align Addr.Step Addr.Index Paging.EntryProofs Paging.Mapped
  Paging.MemProofs Paging.Tree Paging.TreeProofs Paging.Refine Paging.RefineOps Paging.RefineClean
  Paging.TreeClean Paging.RefineCleanExact Paging.CleanArith Paging.Recursive Paging.RecResolve
  Paging.RecRead Paging.RecRefineTop Paging.RecCleanLoop.
Require Import Lia ZifyBool Permutation.
Open Scope Z_scope.

Section RLoop.
Variable rec : pstate -> Z -> Z -> Z -> Z -> res (pstate * bool).
Variable P : list node -> Z -> list node * list Z.
Variable l' : nat.                      (* the level of the child tables *)
Variables L W base prs pre RS RE start e ri t : Z.
Variable F : list Z.                    (* a bound on the frames below the table *)
Variable Ctx : pstate -> Prop.          (* what makes the recursive addresses resolve *)
Hypothesis Hl' : (1 <= l')%nat.
Hypothesis HL : tlevel L.
Hypothesis HS : W = span L.
Hypothesis Hb0 : 0 <= base.
Hypothesis Hbm : base mod (512 * W) = 0.
Hypothesis HbN : base + 512 * W <= NP.
Hypothesis Hr1 : base <= prs.
Hypothesis Hr2 : prs <= pre.
Hypothesis Hr3 : pre < base + 512 * W.
Hypothesis HRS : prs = Z.max RS base.
Hypothesis HRE : pre = Z.min RE (base + 512 * W - 1).
Hypothesis Hst : 0 <= start < 512.
Hypothesis Hst2 : base + start * W <= prs < base + (start + 1) * W.
Hypothesis He : 0 <= e < 512.
Hypothesis He2 : base + e * W <= pre < base + (e + 1) * W.
Hypothesis Ht : tframe t.
Hypothesis HStab : forall s s', Ctx s ->
  (forall a, 0 <= a -> ~ in_frames (t :: F) a -> rd s' a = rd s a) ->
  (0 <= ri < 512 -> rd s' (t + 8 * ri) = rd s (t + 8 * ri)) ->
  root s' = root s -> rec_index s' = rec_index s -> Ctx s'.
Hypothesis HSkip : forall s i, Ctx s -> 0 <= i < 512 ->
  ((L =? 4) && (i =? rec_index s))%bool = (i =? ri).
Hypothesis HDeref : forall s i f sp, Ctx s -> 0 <= i < 512 -> i <> ri ->
  tab_entry (rd s (t + 8 * i)) f -> base + i * W <= sp < base + i * W + W ->
  exists tpv, rtp L (addr sp) (rec_index s) = Ok tpv /\ deref s tpv = Some f.
Hypothesis HRec : forall s0 i f sub sp ep, Ctx s0 -> 0 <= i < 512 -> i <> ri ->
  tab_entry (rd s0 (t + 8 * i)) f -> rep l' s0 sub f -> tframe f -> sep s0 f sub -> wf_children sub ->
  incl (f :: frames_of sub) F -> (forall a, in_frame t a -> ~ in_frames (f :: frames_of sub) a) ->
  0 <= base + i * W -> (base + i * W) mod W = 0 -> base + i * W + W <= NP ->
  base + i * W <= sp -> sp <= ep -> ep < base + i * W + W ->
  sp = Z.max RS (base + i * W) -> ep = Z.min RE (base + i * W + W - 1) ->
  exists s1, rec s0 f (L - 1) (addr sp) (addr ep) = Ok (s1, all_empty (fst (P sub (base + i * W)))) /\
    cpost (fun s c => rep l' s c f) (-1) s0 f sub s1 (fst (P sub (base + i * W))) (snd (P sub (base + i * W))).
Hypothesis HPwf : forall sub lo, wf_children sub -> wf_children (fst (P sub lo)).

Lemma rloop_past_end n : forall i s pl, 0 <= i -> (length pl <= Z.to_nat i)%nat ->
  Ctx s -> prep ri l' s pl t ->
  rcu_loop rec t L (addr base) (addr prs) (addr pre) e n i s = Ok s.
Proof.
  induction n as [|n IH]; intros i s pl Hi Hl Hc Hp; [reflexivity|].
  rewrite rcu_loop_S. destruct (e <? i) eqn:Ei; [reflexivity|].
  assert (Hi5 : 0 <= i < 512) by lia.
  rewrite (HSkip s i Hc Hi5).
  destruct (Z.eqb_spec i ri) as [Hir|Hir].
  - apply (IH (i + 1) s pl); try assumption; lia.
  - pose proof (Hp i Hi5 Hir) as Hent. unfold child in Hent. rewrite nth_overflow in Hent by exact Hl.
    cbn [rep_entry] in Hent. rewrite Hent.
    change (e_huge 0) with false. change (e_present 0) with false. cbn [negb].
    apply (IH (i + 1) s pl); try assumption; lia.
Qed.

Lemma rloop_prune : forall suf pl i n s,
  Forall wf_node suf -> start <= i -> (length pl <= Z.to_nat i)%nat ->
  (suf = [] \/ length pl = Z.to_nat i) -> i + Z.of_nat (length suf) <= 512 ->
  e - i < Z.of_nat n ->
  Ctx s -> prep ri l' s (pl ++ suf) t -> sep s t (pl ++ suf) -> incl (frames_of (pl ++ suf)) F ->
  exists s', rcu_loop rec t L (addr base) (addr prs) (addr pre) e n i s = Ok s' /\
    cpost (fun s c => prep ri l' s c t) ri s t (pl ++ suf) s'
      (pl ++ fst (prune_children P suf i base W RS RE ri))
      (snd (prune_children P suf i base W RS RE ri)).
Proof.
  assert (HWv : W = 512 \/ W = 262144 \/ W = 134217728) by (rewrite HS; apply span_tlevel; exact HL).
  induction suf as [|x rest IH]; intros pl i n s Hwf Hsi Hlen Hor Hbound Hfuel HC Hprep Hsep Hincl.
  - rewrite app_nil_r in *. cbn [prune_children fst snd]. rewrite app_nil_r.
    exists s. split; [apply (rloop_past_end n i s pl); try assumption; lia|apply cpost_refl; exact Hprep].
  - destruct Hor as [Hor|Hor]; [discriminate|].
    pose proof (Forall_inv Hwf) as Hx. pose proof (Forall_inv_tail Hwf) as Hrest.
    cbn [length] in Hbound.
    destruct (e <? i) eqn:Ei.
    + rewrite prune_children_out.
      2:{ intros j Hj. cbn [length] in Hj. right.
          destruct HWv as [-> | [-> | ->]]; lia. }
      cbn [fst snd]. exists s. split; [|apply cpost_refl; exact Hprep].
      destruct n as [|n]; [reflexivity|]. rewrite rcu_loop_S, Ei. reflexivity.
    + destruct n as [|n]; [lia|]. rewrite rcu_loop_S, Ei.
      assert (Hi5 : 0 <= i < 512) by lia.
      rewrite (HSkip s i HC Hi5).
      rewrite prune_children_cons. cbv zeta.
      assert (IH' : forall y s2, wf_node y -> Ctx s2 -> prep ri l' s2 (pl ++ y :: rest) t ->
        sep s2 t (pl ++ y :: rest) -> incl (frames_of (pl ++ y :: rest)) F ->
        exists s', rcu_loop rec t L (addr base) (addr prs) (addr pre) e n (i + 1) s2 = Ok s' /\
          cpost (fun s c => prep ri l' s c t) ri s2 t (pl ++ y :: rest) s'
            (pl ++ y :: fst (prune_children P rest (i + 1) base W RS RE ri))
            (snd (prune_children P rest (i + 1) base W RS RE ri))).
      { intros y s2 Hy HC2 Hp2 Hs2 Hi2. specialize (IH (pl ++ [y]) (i + 1) n s2 Hrest).
        rewrite <- !app_assoc in IH. cbn [app] in IH. apply IH; try assumption; try lia.
        - rewrite app_length. cbn [length]. lia.
        - right. rewrite app_length. cbn [length]. lia. }
      destruct (Z.eqb_spec i ri) as [Hir|Hir].
      * (* the skipped slot *)
        destruct x as [|w|f fl sub].
        -- cbn [fst snd app]. apply (IH' Empty s Hx HC Hprep Hsep Hincl).
        -- cbn [fst snd app]. apply (IH' (Leaf w) s Hx HC Hprep Hsep Hincl).
        -- rewrite !Bool.orb_true_r. cbn [fst snd app]. apply (IH' (Tab f fl sub) s Hx HC Hprep Hsep Hincl).
      * pose proof (Hprep i Hi5 Hir) as Hent. rewrite (child_app x rest pl _ Hor) in Hent.
        destruct x as [|w|f fl sub].
        -- cbn [rep_entry] in Hent. rewrite Hent.
           change (e_huge 0) with false. change (e_present 0) with false. cbn [negb fst snd app].
           apply (IH' Empty s Hx HC Hprep Hsep Hincl).
        -- cbn [rep_entry] in Hent. destruct Hent as [Hew (_ & _ & Hh & _)]. rewrite Hew.
           rewrite e_huge_bit, (Hh ltac:(lia)). cbn [fst snd app].
           apply (IH' (Leaf w) s Hx HC Hprep Hsep Hincl).
        -- pose proof (tab_entry_of_rep _ _ _ _ _ _ Hent) as Htab.
           cbn [rep_entry] in Hent. destruct Hent as (Hew & Hf & Hfl & Hsub).
           destruct (tab_word f fl Hf Hfl) as (_ & Hhu & Hpr & Ha & _).
           rewrite Hew. rewrite Hhu, Hpr, Ha. cbn [negb].
           apply Z.ltb_ge in Ei.
           set (lo := base + i * W) in *.
           assert (Hlo : 0 <= i * W /\ 0 <= lo /\ lo mod W = 0 /\ lo + W <= NP /\ base <= lo /\
                         lo + W <= base + 512 * W /\ lo <= pre /\ prs <= lo + W - 1).
           { subst lo. apply (slot_facts W base prs pre start e i); auto; lia. }
           destruct Hlo as (Hl0 & Hl1 & Hl2 & Hl3 & Hl4 & Hl5 & Hl6 & Hl7).
           assert (HW0 : 0 < W) by (clear - HWv; lia).
           pose proof (range_facts W lo base prs pre RS RE Hl4 Hl5 Hl6 Hl7 Hr2 HRS HRE HW0) as Hrf.
           cbv zeta in Hrf. destruct Hrf as (Hf1 & Hf2 & Hf3 & Hf4 & Hf5 & Hf6 & Hf7).
           apply wf_node_tab in Hx.
           assert (Hprs : 0 <= prs < NP) by (clear - Hb0 HbN Hr1 Hr2 Hr3; lia).
           assert (Hpre : 0 <= pre < NP) by (clear - Hb0 HbN Hr1 Hr2 Hr3; lia).
           destruct (slot_arith L W base prs pre i HL HS Hi5 Hb0 Hl0 Hl2 Hl3 Hprs Hpre)
             as (en & A1 & A2 & A3 & A4 & A5 & A6 & A7).
           fold lo in A2, A3, A4, A5, A6, A7.
           rewrite A1. cbn [bind]. rewrite A2. cbn [bind unwrap]. rewrite A3. cbn [bind].
           rewrite A4. cbn [bind]. rewrite A5. cbn [bind]. rewrite A6, A7.
           destruct (HDeref s i f (Z.max lo prs) HC Hi5 Hir Htab ltac:(fold lo; lia)) as (tpv & Etp & Eder).
           rewrite Etp. cbn [bind]. rewrite Eder.
           pose proof (below_incl (pl ++ Tab f fl sub :: rest) (Z.to_nat i) f fl sub
                         (child_app _ rest pl _ Hor)) as Hbel.
           pose proof (own_frame_not_below s t _ i f fl sub Ht Hsep (child_app _ rest pl _ Hor)) as Hnot.
           assert (Hsep1 : sep s f sub)
             by (apply (sep_sub s s t _ i f fl sub Hsep (child_app _ rest pl _ Hor) eq_refl)).
           destruct (HRec s i f sub (Z.max lo prs) (Z.min (lo + W - 1) pre) HC Hi5 Hir Htab Hsub Hf Hsep1 Hx
                       ltac:(intros g Hg; apply Hincl; apply Hbel; exact Hg) Hnot
                       Hl1 Hl2 Hl3 Hf1 Hf2 Hf3 Hf4 Hf5) as (s1 & Erec & Hpost).
           fold lo in Erec, Hpost. rewrite Erec. cbn [bind fst snd].
           assert (Et : ((lo + W - 1 <? RS) || (RE <? lo) || false)%bool = false).
           { rewrite Hf6, Hf7. reflexivity. }
           rewrite Et.
           pose proof (HPwf sub lo Hx) as Hsubwf.
           destruct (P sub lo) as [sub' fr] eqn:EP. cbn [fst snd] in *.
           pose proof (clean_step_x ri l' s t _ i f fl sub s1 sub' fr (all_empty sub') Hi5 Hir Hprep Ht Hsep
                         (child_app _ rest pl _ Hor) Hpost) as Hstep.
           rewrite (set_child_app _ rest _ pl _ Hor) in Hstep.
           set (y := if all_empty sub' then Empty else Tab f fl sub') in *.
           set (s2 := if all_empty sub' then deallocate (wr s1 (t + 8 * i) 0) f else s1) in *.
           assert (Hy : wf_node y).
           { unfold y. destruct (all_empty sub'); [exact I|apply wf_node_tab; exact Hsubwf]. }
           assert (HC2 : Ctx s2).
           { destruct Hstep as (_ & _ & _ & _ & _ & Ro2 & O2 & K2 & _ & Ri2).
             apply (HStab s s2 HC); try assumption.
             intros a Ha0 Hout. apply O2; [exact Ha0|]. intros (g & Hg & Hga). apply Hout. exists g.
             split; [|exact Hga]. destruct Hg as [<-|Hg]; [left; reflexivity|right; apply Hincl; exact Hg]. }
           destruct (IH' y s2 Hy HC2 (proj1 Hstep) (cpost_sep _ _ _ _ _ _ _ _ Hstep Hsep)
                       ltac:(intros g Hg; apply Hincl; apply (cpost_incl _ _ _ _ _ _ _ _ Hstep); exact Hg))
             as (s' & Eloop & Hpost').
           exists s'.
           pose proof (cpost_trans _ ri s t _ s2 _ _ s' _ _ Hstep Hpost') as Hall.
           unfold y, s2 in *. destruct (all_empty sub'); cbn [fst snd app].
           ++ split; [exact Eloop|]. rewrite <- app_assoc in Hall. cbn [app] in Hall. rewrite <- app_assoc. exact Hall.
           ++ split; [exact Eloop|exact Hall].
Qed.

(* the whole table: the loop from the slot of the range start (cf. CleanArith.table_prune) *)
Lemma rtable_prune : forall ch s, wf_children ch ->
  Ctx s -> prep ri l' s ch t -> sep s t ch -> incl (frames_of ch) F ->
  exists s', rcu_loop rec t L (addr base) (addr prs) (addr pre) e 512%nat start s = Ok s' /\
    cpost (fun s c => prep ri l' s c t) ri s t ch s'
      (fst (prune_children P ch 0 base W RS RE ri)) (snd (prune_children P ch 0 base W RS RE ri)).
Proof.
  intros ch s [Hlen Hwf] HC Hprep Hsep Hincl.
  assert (HWv : W = 512 \/ W = 262144 \/ W = 134217728) by (rewrite HS; apply span_tlevel; exact HL).
  set (pl := firstn (Z.to_nat start) ch). set (suf := skipn (Z.to_nat start) ch).
  assert (Hch : ch = pl ++ suf) by (symmetry; apply firstn_skipn).
  assert (Hpl : (length pl <= Z.to_nat start)%nat) by apply firstn_le_length.
  assert (Hout : prune_children P pl 0 base W RS RE ri = (pl, [])).
  { apply prune_children_out. intros j Hj. left.
    apply (before_facts W base prs RS start); auto; clear - Hj Hpl Hst Hst2; lia. }
  assert (Hor : suf = [] \/ length pl = Z.to_nat start).
  { destruct (le_lt_dec (length ch) (Z.to_nat start)) as [Hc|Hc].
    - left. apply skipn_all2. exact Hc.
    - right. apply firstn_length_le. lia. }
  assert (Hsl : start + Z.of_nat (length suf) <= 512).
  { subst suf. rewrite skipn_length. clear - Hlen Hst. lia. }
  assert (Epc : prune_children P ch 0 base W RS RE ri =
                (pl ++ fst (prune_children P suf start base W RS RE ri),
                 snd (prune_children P suf start base W RS RE ri))).
  { rewrite Hch at 1. rewrite prune_children_app, Hout. cbn [fst snd app].
    destruct Hor as [Hor|Hor].
    - rewrite Hor. reflexivity.
    - replace (0 + Z.of_nat (length pl)) with start by (clear - Hor Hst; lia). reflexivity. }
  rewrite Epc. cbn [fst snd].
  rewrite Hch in Hprep, Hsep, Hincl.
  destruct (rloop_prune suf pl start 512%nat s) as (s' & Eloop & Hpost); try assumption.
  - apply Forall_skipn. exact Hwf.
  - clear; lia.
  - clear - He Hst. lia.
  - exists s'. split; [exact Eloop|]. rewrite Hch at 1. exact Hpost.
Qed.
End RLoop.
