(* C02 on the memory model, without any invariant: a call of unmap / update_flags /
   set_flags_p*_entry that reports an error returns the state it was given, bit for bit. *)
From X86 Require Import Paging.Mapped.
Require Import Lia.
Open Scope Z_scope.

Definition is_error (o : out) : Prop := exists c rest, o = c :: rest /\ c < 0.

Lemma not_error_ok o tl : o = 0 :: tl -> ~ is_error o.
Proof. intros -> (c & rest & H & Hc). inversion H. lia. Qed.

Theorem unmap_error_unchanged s k page : is_error (snd (unmap s k page)) -> fst (unmap s k page) = s.
Proof.
  unfold unmap. destruct (descend s k page) as [slot|e]; [|reflexivity].
  destruct (k =? 0).
  - destruct (negb (e_present (rd s slot))); [reflexivity|].
    cbn [fst snd]. intros H. exfalso. exact (not_error_ok _ _ eq_refl H).
  - destruct (negb (e_present (rd s slot))); [reflexivity|].
    destruct (negb (e_huge (rd s slot))); [reflexivity|].
    destruct (negb (e_addr (rd s slot) mod size_of_kind k =? 0)); [reflexivity|].
    cbn [fst snd]. intros H. exfalso. exact (not_error_ok _ _ eq_refl H).
Qed.

Theorem update_flags_error_unchanged s k page flags :
  is_error (snd (update_flags s k page flags)) -> fst (update_flags s k page flags) = s.
Proof.
  unfold update_flags. destruct (descend s k page) as [slot|e]; [|reflexivity].
  destruct (rd s slot =? 0); [reflexivity|].
  destruct (k =? 0).
  - cbn [fst snd]. intros H. exfalso. exact (not_error_ok _ _ eq_refl H).
  - destruct (negb (e_huge (rd s slot))); [reflexivity|].
    cbn [fst snd]. intros H. exfalso. exact (not_error_ok _ _ eq_refl H).
Qed.

Theorem set_flags_parent_error_unchanged s k level page flags :
  is_error (snd (set_flags_parent s k level page flags)) -> fst (set_flags_parent s k level page flags) = s.
Proof.
  unfold set_flags_parent. destruct (level =? 4).
  - destruct (rd s (slot4 s page) =? 0); [reflexivity|].
    cbn [fst snd]. intros H. exfalso. exact (not_error_ok _ _ eq_refl H).
  - destruct ((level =? 3) && (k =? 2))%bool; [reflexivity|].
    destruct ((level =? 2) && negb (k =? 0))%bool; [reflexivity|].
    destruct (descend s (if level =? 3 then 2 else 1) page) as [slot|e]; [|reflexivity].
    destruct (rd s slot =? 0); [reflexivity|]. destruct (e_huge (rd s slot)); [reflexivity|].
    cbn [fst snd]. intros H. exfalso. exact (not_error_ok _ _ eq_refl H).
Qed.

(* translate_page never changes anything: it is a function of the state *)
Theorem translate_is_pure s va : exists o, translate s va = o.
Proof. eexists; reflexivity. Qed.
