(* t_clean (Paging/TreeClean.v: the clean-up of the code, on the tree, with the code's address
   arithmetic) computes what the declarative prune (Paging/Tree.v) computes: pure arithmetic on
   page positions, no memory. *)
From X86 Require Import Base.Bits Addr.Canon Addr.Align Addr.Step Addr.Index Paging.Mapped Paging.Tree Paging.TreeProofs Paging.TreeClean.
Require Import Lia ZifyBool.
Open Scope Z_scope.
Local Ltac Zify.zify_post_hook ::= Z.div_mod_to_equations.

(* ---------- page positions and their addresses ---------- *)
Definition NP : Z := 68719476736.        (* 2^36: number of canonical 4 KiB pages *)
(* the address of the page at position p *)
Definition addr (p : Z) : Z := if p <? 34359738368 then 4096 * p else 4096 * p + GAP.

Lemma addr_canonical p : 0 <= p < NP -> canonical (addr p).
Proof. unfold addr, NP, canonical, P47, HI, W64, GAP. intros. destruct (p <? 34359738368) eqn:E; lia. Qed.
Lemma pos_addr p : 0 <= p < NP -> pos (addr p) = 4096 * p.
Proof.
  unfold addr, NP, pos, P47, GAP. intros.
  destruct (p <? 34359738368) eqn:E.
  - destruct (4096 * p <? 140737488355328) eqn:E2; lia.
  - destruct (4096 * p + 18446462598732840960 <? 140737488355328) eqn:E2; lia.
Qed.
Lemma unpos_4096 p : 0 <= p < NP -> unpos (4096 * p) = addr p.
Proof.
  unfold addr, NP, unpos, P47, GAP. intros.
  destruct (p <? 34359738368) eqn:E; destruct (4096 * p <? 140737488355328) eqn:E2; lia.
Qed.
Lemma addr_mod p : addr p mod 4096 = 0.
Proof. unfold addr, GAP. destruct (p <? 34359738368); lia. Qed.
Lemma addr_le p q : 0 <= p < NP -> 0 <= q < NP -> (addr p <= addr q <-> p <= q).
Proof.
  unfold addr, NP, GAP. intros.
  destruct (p <? 34359738368) eqn:E; destruct (q <? 34359738368) eqn:E2; lia.
Qed.
Lemma addr_lt p q : 0 <= p < NP -> 0 <= q < NP -> (addr p < addr q <-> p < q).
Proof.
  unfold addr, NP, GAP. intros.
  destruct (p <? 34359738368) eqn:E; destruct (q <? 34359738368) eqn:E2; lia.
Qed.

Lemma page_pos_div a : page_pos a = (a / 4096) mod NP.
Proof.
  unfold page_pos. rewrite land_ones_mod by lia. rewrite Z.shiftr_div_pow2 by lia. reflexivity.
Qed.

Lemma addr_of a : canonical a -> a mod 4096 = 0 ->
  0 <= page_pos a < NP /\ a = addr (page_pos a).
Proof.
  intros Hc Ha. rewrite page_pos_div. unfold addr, NP, canonical, P47, HI, W64, GAP in *.
  split; [lia|].
  destruct ((a / 4096) mod 68719476736 <? 34359738368) eqn:E; lia.
Qed.

Lemma pmax_addr p q : 0 <= p < NP -> 0 <= q < NP -> pmax (addr p) (addr q) = addr (Z.max p q).
Proof.
  intros Hp Hq. unfold pmax. pose proof (addr_lt p q Hp Hq).
  destruct (addr p <? addr q) eqn:E; f_equal; lia.
Qed.
Lemma pmin_addr p q : 0 <= p < NP -> 0 <= q < NP -> pmin (addr p) (addr q) = addr (Z.min p q).
Proof.
  intros Hp Hq. unfold pmin. pose proof (addr_lt q p Hq Hp).
  destruct (addr q <? addr p) eqn:E; f_equal; lia.
Qed.

(* ---------- the code's arithmetic on one table ---------- *)
(* pages covered by one slot of a level-L table *)
Definition span (L : Z) : Z := 512 ^ (L - 1).
Definition tlevel (L : Z) : Prop := L = 2 \/ L = 3 \/ L = 4.

Lemma span_vals : span 1 = 1 /\ span 2 = 512 /\ span 3 = 262144 /\ span 4 = 134217728.
Proof. repeat split. Qed.

Lemma pti_addr p L : 0 <= p < NP -> 1 <= L <= 4 ->
  page_table_index (addr p) L = (p / span L) mod 512.
Proof.
  intros Hp HL. pose proof (addr_canonical p Hp) as Hc. pose proof (canonical_u64 _ Hc) as Hu.
  destruct (page_table_index_spec (addr p) Hu) as (E1 & E2 & E3 & E4).
  rewrite p1_index_spec in E1 by assumption. rewrite p2_index_spec in E2 by assumption.
  rewrite p3_index_spec in E3 by assumption. rewrite p4_index_spec in E4 by assumption.
  destruct span_vals as (S1 & S2 & S3 & S4).
  assert (L = 1 \/ L = 2 \/ L = 3 \/ L = 4) as [-> | [-> | [-> | ->]]] by lia.
  - rewrite E1, S1. unfold addr, NP, GAP in *. destruct (p <? 34359738368) eqn:E; lia.
  - rewrite E2, S2. unfold addr, NP, GAP in *. destruct (p <? 34359738368) eqn:E; lia.
  - rewrite E3, S3. unfold addr, NP, GAP in *. destruct (p <? 34359738368) eqn:E; lia.
  - rewrite E4, S4. unfold addr, NP, GAP in *. destruct (p <? 34359738368) eqn:E; lia.
Qed.

(* level 4: the table alignment is 2^48 and every canonical address aligns down to 0 *)
Lemma va_align_down_48 a : canonical a -> va_align_down a (2 ^ 48) = Ok 0.
Proof.
  intros Hc. pose proof (canonical_u64 a Hc) as Hu. unfold va_align_down.
  rewrite align_down_spec by (auto; lia). cbn [rmap]. f_equal.
  assert (Hr : round_down a (2 ^ 48) = 0 \/ round_down a (2 ^ 48) = 18446462598732840960).
  { unfold round_down. change (2 ^ 48) with 281474976710656.
    unfold canonical, P47, HI, W64 in Hc. lia. }
  destruct Hr as [-> | ->]; vm_compute; reflexivity.
Qed.

Lemma table_alignment_vals :
  table_alignment 1 = 2 ^ 21 /\ table_alignment 2 = 2 ^ 30 /\ table_alignment 3 = 2 ^ 39 /\
  table_alignment 4 = 2 ^ 48.
Proof. vm_compute. repeat split. Qed.

Lemma align_table p L : 0 <= p < NP -> 1 <= L <= 4 ->
  va_align_down (addr p) (table_alignment L) = Ok (addr (p - p mod (512 * span L))).
Proof.
  intros Hp HL. pose proof (addr_canonical p Hp) as Hc.
  destruct table_alignment_vals as (T1 & T2 & T3 & T4).
  destruct span_vals as (S1 & S2 & S3 & S4).
  assert (L = 1 \/ L = 2 \/ L = 3 \/ L = 4) as [-> | [-> | [-> | ->]]] by lia.
  - rewrite T1, S1. destruct (va_align_down_spec (addr p) 21 Hc) as [-> _]; [lia|]. f_equal.
    unfold round_down. change (2 ^ 21) with 2097152.
    unfold addr, NP, GAP in *.
    destruct (p <? 34359738368) eqn:E; destruct (p - p mod (512 * 1) <? 34359738368) eqn:E2; lia.
  - rewrite T2, S2. destruct (va_align_down_spec (addr p) 30 Hc) as [-> _]; [lia|]. f_equal.
    unfold round_down. change (2 ^ 30) with 1073741824.
    unfold addr, NP, GAP in *.
    destruct (p <? 34359738368) eqn:E; destruct (p - p mod (512 * 512) <? 34359738368) eqn:E2; lia.
  - rewrite T3, S3. destruct (va_align_down_spec (addr p) 39 Hc) as [-> _]; [lia|]. f_equal.
    unfold round_down. change (2 ^ 39) with 549755813888.
    unfold addr, NP, GAP in *.
    destruct (p <? 34359738368) eqn:E; destruct (p - p mod (512 * 262144) <? 34359738368) eqn:E2; lia.
  - rewrite T4, S4. rewrite va_align_down_48 by assumption. f_equal.
    unfold addr, NP in *. 
    destruct (p - p mod (512 * 134217728) <? 34359738368) eqn:E2; lia.
Qed.

Lemma entry_alignment_vals :
  entry_alignment 2 = 2097152 /\ entry_alignment 3 = 1073741824 /\ entry_alignment 4 = 549755813888.
Proof. vm_compute. repeat split. Qed.

Lemma slot_mul L i : tlevel L -> 0 <= i < 512 ->
  mul64 true (entry_alignment L) i = Ok (4096 * (i * span L)).
Proof.
  intros HL Hi. destruct entry_alignment_vals as (A2 & A3 & A4).
  destruct span_vals as (_ & S2 & S3 & S4). unfold mul64, W64.
  destruct HL as [-> | [-> | ->]].
  - rewrite A2, S2. destruct (2097152 * i <? 18446744073709551616) eqn:E; [f_equal|]; lia.
  - rewrite A3, S3. destruct (1073741824 * i <? 18446744073709551616) eqn:E; [f_equal|]; lia.
  - rewrite A4, S4. destruct (549755813888 * i <? 18446744073709551616) eqn:E; [f_equal|]; lia.
Qed.

Lemma slot_fwd b q : 0 <= b -> 0 <= q -> b + q < NP ->
  forward_checked_u64 (addr b) (4096 * q) = Ok (Some (addr (b + q))).
Proof.
  intros Hb Hq Hbq.
  rewrite forward_spec by (try apply addr_canonical; unfold u64, W64, NP in *; lia).
  rewrite pos_addr by lia.
  replace (4096 * b + 4096 * q) with (4096 * (b + q)) by lia.
  rewrite unpos_4096 by lia.
  destruct (4096 * (b + q) <? P48) eqn:E; [reflexivity|]. unfold P48, NP in *. lia.
Qed.

Lemma slot_va_add L lo : tlevel L -> 0 <= lo -> lo mod span L = 0 -> lo + span L <= NP ->
  va_add (addr lo) (entry_alignment L - 1) = Ok (addr lo + 4096 * span L - 1) /\
  canonical (addr lo + 4096 * span L - 1) /\
  round_down (addr lo + 4096 * span L - 1) 4096 = addr (lo + span L - 1).
Proof.
  intros HL Hlo Hm Hle. destruct entry_alignment_vals as (A2 & A3 & A4).
  destruct span_vals as (_ & S2 & S3 & S4).
  assert (Hc : canonical (addr lo + 4096 * span L - 1)).
  { unfold canonical, addr, NP, P47, HI, W64, GAP in *.
    destruct (lo <? 34359738368) eqn:E; destruct HL as [-> | [-> | ->]];
      rewrite ?S2, ?S3, ?S4 in *; lia. }
  split; [|split; [exact Hc|]].
  - unfold va_add, checked_add64.
    assert (E : addr lo + (entry_alignment L - 1) = addr lo + 4096 * span L - 1).
    { destruct HL as [-> | [-> | ->]]; rewrite ?A2, ?A3, ?A4, ?S2, ?S3, ?S4; lia. }
    rewrite E. pose proof (canonical_u64 _ Hc) as Hu.
    destruct (addr lo + 4096 * span L - 1 <? W64) eqn:E2; [|unfold u64 in Hu; lia].
    cbn [unwrap bind]. rewrite va_new_spec by assumption.
    apply canonicalb_spec in Hc. rewrite Hc. reflexivity.
  - unfold round_down, addr, NP, GAP in *.
    destruct (lo <? 34359738368) eqn:E; destruct (lo + span L - 1 <? 34359738368) eqn:E3;
      destruct HL as [-> | [-> | ->]]; rewrite ?S2, ?S3, ?S4 in *; lia.
Qed.

Lemma slot_pc_st p : 0 <= p < NP -> page_containing S4K (addr p) = Ok (addr p).
Proof.
  intros Hp. unfold page_containing. change S4K with (2 ^ 12).
  apply va_align_down_aligned; [apply addr_canonical; assumption|lia|].
  change (2 ^ 12) with 4096. apply addr_mod.
Qed.

Lemma slot_pc_en a : canonical a -> page_containing S4K a = Ok (round_down a 4096).
Proof.
  intros Hc. unfold page_containing. change S4K with (2 ^ 12).
  destruct (va_align_down_spec a 12 Hc) as [-> _]; [lia|]. reflexivity.
Qed.

(* ---------- well-formedness ---------- *)
Lemma wf_all_Forall l :
  (fix all (l : list node) : Prop :=
     match l with [] => True | x :: t => wf_node x /\ all t end) l <-> Forall wf_node l.
Proof.
  induction l as [|x t IH].
  - split; [constructor|trivial].
  - split.
    + intros [Hx Ht]. constructor; [exact Hx|apply IH; exact Ht].
    + intros H. inversion H; subst. split; [assumption|apply IH; assumption].
Qed.
Lemma wf_node_tab f fl sub : wf_node (Tab f fl sub) <-> wf_children sub.
Proof.
  unfold wf_children. cbn [wf_node]. rewrite wf_all_Forall. reflexivity.
Qed.

Lemma wf_empty_children : wf_children empty_children.
Proof.
  split; [unfold empty_children; rewrite repeat_length; lia|].
  unfold empty_children. apply Forall_forall. intros x Hx. apply repeat_spec in Hx. subst. exact I.
Qed.

Lemma set_child_length ch : forall i n, (i < length ch)%nat -> length (set_child ch i n) = length ch.
Proof.
  induction ch as [|x t IH]; intros i n Hi; [cbn in Hi; lia|].
  destruct i as [|i]; cbn [set_child length]; [reflexivity|].
  rewrite IH by (cbn in Hi; lia). reflexivity.
Qed.
Lemma set_child_length_le ch : forall i n m, (i < m)%nat -> (length ch <= m)%nat ->
  (length (set_child ch i n) <= m)%nat.
Proof.
  induction ch as [|x t IH]; intros i n m Hi Hm.
  - revert m Hi Hm. induction i as [|i IHi]; intros m Hi Hm; cbn [set_child length]; [lia|].
    destruct m as [|m]; [lia|]. specialize (IHi m). cbn [length] in IHi. lia.
  - destruct i as [|i]; cbn [set_child length] in *; [lia|].
    destruct m as [|m]; [lia|]. specialize (IH i n m). lia.
Qed.
Lemma set_child_Forall (Q : node -> Prop) ch : forall i n, Q Empty -> Q n -> Forall Q ch ->
  Forall Q (set_child ch i n).
Proof.
  induction ch as [|x t IH]; intros i n HE Hn Hch.
  - induction i as [|i IHi]; cbn [set_child]; constructor; auto.
  - inversion Hch; subst. destruct i as [|i]; cbn [set_child]; constructor; auto.
Qed.
Lemma set_child_wf ch i n : (i < 512)%nat -> wf_node n -> wf_children ch ->
  wf_children (set_child ch i n).
Proof.
  intros Hi Hn [Hl Hf]. split.
  - apply set_child_length_le; assumption.
  - apply set_child_Forall; [exact I|assumption|assumption].
Qed.

(* ---------- slots_empty and all_empty ---------- *)
Definition is_empty (n : node) : bool := match n with Empty => true | _ => false end.
Lemma forallb_seq_shift (f : nat -> bool) n s :
  forallb f (seq (S s) n) = forallb (fun j => f (S j)) (seq s n).
Proof. rewrite <- seq_shift. induction (seq s n) as [|x t IH]; cbn; [reflexivity|]. rewrite IH. reflexivity. Qed.
Lemma slots_all_empty_gen ch : forall n, (length ch <= n)%nat ->
  forallb (fun j => is_empty (child ch j)) (seq 0 n) = all_empty ch.
Proof.
  induction ch as [|x t IH]; intros n Hn.
  - cbn [all_empty forallb]. apply forallb_forall. intros j _. rewrite child_nil. reflexivity.
  - destruct n as [|n]; [cbn in Hn; lia|].
    cbn [seq forallb all_empty]. rewrite forallb_seq_shift.
    change (child (x :: t) 0) with x.
    replace (forallb (fun j => is_empty (child (x :: t) (S j))) (seq 0 n))
      with (forallb (fun j => is_empty (child t j)) (seq 0 n)) by reflexivity.
    rewrite IH by (cbn in Hn; lia). destruct x; reflexivity.
Qed.
Lemma slots_all_empty ch : (length ch <= 512)%nat -> slots_empty ch = all_empty ch.
Proof. intros H. unfold slots_empty. apply (slots_all_empty_gen ch 512 H). Qed.

(* ---------- prune_children: structure ---------- *)
Lemma prune_children_cons (P : list node -> Z -> list node * list Z) n rest i base sp rs re skip :
  prune_children P (n :: rest) i base sp rs re skip =
  let lo := base + i * sp in
  let hi := lo + sp - 1 in
  let nf :=
    match n with
    | Tab f fl sub =>
        if (hi <? rs) || (re <? lo) || (i =? skip) then (n, [])
        else
          let '(sub', fr) := P sub lo in
          if all_empty sub' then (Empty, fr ++ [f]) else (Tab f fl sub', fr)
    | _ => (n, [])
    end in
  let r := prune_children P rest (i + 1) base sp rs re skip in
  (fst nf :: fst r, snd nf ++ snd r).
Proof.
  cbn [prune_children]. cbv zeta.
  destruct (match n with Tab f fl sub => _ | _ => (n, []) end) as [n' f1].
  destruct (prune_children P rest (i + 1) base sp rs re skip) as [r' f2]. reflexivity.
Qed.

Lemma prune_children_length (P : list node -> Z -> list node * list Z) ch :
  forall i base sp rs re skip,
  length (fst (prune_children P ch i base sp rs re skip)) = length ch.
Proof.
  induction ch as [|n t IH]; intros; [reflexivity|].
  rewrite prune_children_cons. cbv zeta. cbn [fst length]. rewrite IH. reflexivity.
Qed.

Lemma prune_children_wf (P : list node -> Z -> list node * list Z) :
  (forall sub lo, wf_children sub -> wf_children (fst (P sub lo))) ->
  forall ch i base sp rs re skip, Forall wf_node ch ->
  Forall wf_node (fst (prune_children P ch i base sp rs re skip)).
Proof.
  intros HP. induction ch as [|n t IH]; intros i base sp rs re skip Hf; [constructor|].
  inversion Hf as [|? ? Hn Ht]; subst.
  rewrite prune_children_cons. cbv zeta. cbn [fst]. constructor; [|apply IH; assumption].
  destruct n as [|w|f fl sub]; cbn [fst]; try exact I.
  destruct ((base + i * sp + sp - 1 <? rs) || (re <? base + i * sp) || (i =? skip))%bool;
    [exact Hn|].
  apply wf_node_tab in Hn. specialize (HP sub (base + i * sp) Hn).
  destruct (P sub (base + i * sp)) as [sub' fr]. cbn [fst] in HP.
  destruct (all_empty sub'); cbn [fst]; [exact I|]. apply wf_node_tab. exact HP.
Qed.

Lemma prune_wf_gen level : forall rs re skip ch base,
  wf_children ch -> wf_children (fst (prune level rs re skip ch base)).
Proof.
  induction level as [|l IH]; intros rs re skip ch base Hw; [exact Hw|].
  cbn [prune]. destruct (l =? 0)%nat; [exact Hw|].
  destruct Hw as [Hl Hf]. split.
  - rewrite prune_children_length. exact Hl.
  - apply prune_children_wf; [|exact Hf]. intros sub lo Hs. apply IH. exact Hs.
Qed.

Lemma prune_wf : forall rs re skip ch base,
  wf_children ch -> wf_children (fst (prune 4 rs re skip ch base)).
Proof. apply prune_wf_gen. Qed.

(* slots that do not meet the range are left alone *)
Lemma prune_children_out (P : list node -> Z -> list node * list Z) ch :
  forall i base sp rs re skip,
  (forall j, (j < length ch)%nat ->
     base + (i + Z.of_nat j) * sp + sp - 1 < rs \/ re < base + (i + Z.of_nat j) * sp) ->
  prune_children P ch i base sp rs re skip = (ch, []).
Proof.
  induction ch as [|n t IH]; intros i base sp rs re skip H; [reflexivity|].
  rewrite prune_children_cons. cbv zeta.
  rewrite IH.
  2:{ intros j Hj. specialize (H (S j)). cbn [length] in H.
      replace (i + 1 + Z.of_nat j) with (i + Z.of_nat (S j)) by lia. apply H. lia. }
  specialize (H 0%nat). cbn [length] in H. replace (i + Z.of_nat 0) with i in H by lia.
  destruct n as [|w|f fl sub]; cbn [fst snd]; try reflexivity.
  assert (E : ((base + i * sp + sp - 1 <? rs) || (re <? base + i * sp))%bool = true) by lia.
  rewrite E. reflexivity.
Qed.

Lemma prune_children_app (P : list node -> Z -> list node * list Z) a : forall b i base sp rs re skip,
  prune_children P (a ++ b) i base sp rs re skip =
  (fst (prune_children P a i base sp rs re skip) ++
     fst (prune_children P b (i + Z.of_nat (length a)) base sp rs re skip),
   snd (prune_children P a i base sp rs re skip) ++
     snd (prune_children P b (i + Z.of_nat (length a)) base sp rs re skip)).
Proof.
  induction a as [|n t IH]; intros b i base sp rs re skip.
  - cbn [app length prune_children fst snd]. replace (i + Z.of_nat 0) with i by lia.
    destruct (prune_children P b i base sp rs re skip); reflexivity.
  - rewrite <- app_comm_cons. rewrite !prune_children_cons. cbv zeta. rewrite IH.
    cbn [fst snd length].
    replace (i + 1 + Z.of_nat (length t)) with (i + Z.of_nat (S (length t))) by lia.
    rewrite <- app_comm_cons, app_assoc. reflexivity.
Qed.

(* ---------- the loop over the slots of one table ---------- *)
Lemma t_cu_loop_S rec level ta rs re e n i ch :
  t_cu_loop rec level ta rs re e (S n) i ch =
    if e <? i then Ok (ch, []) else
    match child ch (Z.to_nat i) with
    | Tab f fl sub =>
        do m <- mul64 true (entry_alignment level) i;
        do st <- forward_checked_u64 ta m;
        do st <- unwrap st;
        do en <- va_add st (entry_alignment level - 1);
        do sp <- page_containing S4K st;
        do ep <- page_containing S4K en;
        do r <- rec sub (level - 1) (pmax sp rs) (pmin ep re);
        let '(sub', fr, empty) := r in
        if empty then
          do x <- t_cu_loop rec level ta rs re e n (i + 1) (set_child ch (Z.to_nat i) Empty);
          Ok (fst x, (fr ++ [f]) ++ snd x)
        else
          do x <- t_cu_loop rec level ta rs re e n (i + 1) (set_child ch (Z.to_nat i) (Tab f fl sub'));
          Ok (fst x, fr ++ snd x)
    | _ => t_cu_loop rec level ta rs re e n (i + 1) ch
    end.
Proof. reflexivity. Qed.

Lemma loop_past_end rec level ta rs re e n : forall i ch, 0 <= i -> (length ch <= Z.to_nat i)%nat ->
  t_cu_loop rec level ta rs re e n i ch = Ok (ch, []).
Proof.
  induction n as [|n IH]; intros i ch Hi Hl; [reflexivity|].
  rewrite t_cu_loop_S. destruct (e <? i); [reflexivity|].
  unfold child. rewrite nth_overflow by exact Hl. apply IH; lia.
Qed.

Lemma set_child_app x rest y : forall pl k, length pl = k ->
  set_child (pl ++ x :: rest) k y = pl ++ y :: rest.
Proof.
  induction pl as [|p t IH]; intros k Hk; subst k; [reflexivity|].
  cbn [length app set_child]. rewrite IH by reflexivity. reflexivity.
Qed.
Lemma child_app x rest : forall pl k, length pl = k -> child (pl ++ x :: rest) k = x.
Proof.
  intros pl k Hk. unfold child. rewrite app_nth2 by lia. subst k. rewrite Nat.sub_diag. reflexivity.
Qed.

(* ---------- the loop is prune_children on the slots from `start` on ---------- *)
Lemma span_tlevel L : tlevel L -> span L = 512 \/ span L = 262144 \/ span L = 134217728.
Proof. intros [-> | [-> | ->]]; vm_compute; auto. Qed.


Lemma slot_facts W base prs pre start e i :
  W = 512 \/ W = 262144 \/ W = 134217728 ->
  0 <= base -> base mod (512 * W) = 0 -> base + 512 * W <= NP ->
  base <= prs -> prs <= pre -> pre < base + 512 * W ->
  0 <= start -> base + start * W <= prs < base + (start + 1) * W ->
  e < 512 -> base + e * W <= pre < base + (e + 1) * W ->
  start <= i <= e ->
  0 <= i * W /\ 0 <= base + i * W /\ (base + i * W) mod W = 0 /\ base + i * W + W <= NP /\
  base <= base + i * W /\ base + i * W + W <= base + 512 * W /\ base + i * W <= pre /\
  prs <= base + i * W + W - 1.
Proof.
  intros HW Hb0 Hbm HbN Hr1 Hr2 Hr3 Hst Hst2 He He2 Hi.
  destruct HW as [-> | [-> | ->]].
  - lia.
  - lia.
  - lia.
Qed.


Lemma range_facts W lo base prs pre RS RE :
  base <= lo -> lo + W <= base + 512 * W -> lo <= pre -> prs <= lo + W - 1 -> prs <= pre ->
  prs = Z.max RS base -> pre = Z.min RE (base + 512 * W - 1) -> 0 < W ->
  let sp := Z.max lo prs in let ep := Z.min (lo + W - 1) pre in
  lo <= sp /\ sp <= ep /\ ep < lo + W /\ sp = Z.max RS lo /\ ep = Z.min RE (lo + W - 1) /\
  (lo + W - 1 <? RS) = false /\ (RE <? lo) = false.
Proof. cbv zeta. lia. Qed.

Lemma loop_prune rec P L W base prs pre RS RE start e :
  tlevel L -> W = span L ->
  0 <= base -> base mod (512 * W) = 0 -> base + 512 * W <= NP ->
  base <= prs -> prs <= pre -> pre < base + 512 * W ->
  prs = Z.max RS base -> pre = Z.min RE (base + 512 * W - 1) ->
  0 <= start < 512 -> base + start * W <= prs < base + (start + 1) * W ->
  0 <= e < 512 -> base + e * W <= pre < base + (e + 1) * W ->
  (forall sub lo sp ep, wf_children sub -> 0 <= lo -> lo mod W = 0 -> lo + W <= NP ->
     lo <= sp -> sp <= ep -> ep < lo + W -> sp = Z.max RS lo -> ep = Z.min RE (lo + W - 1) ->
     rec sub (L - 1) (addr sp) (addr ep) =
       Ok (fst (P sub lo), snd (P sub lo), all_empty (fst (P sub lo)))) ->
  (forall sub lo, wf_children sub -> wf_children (fst (P sub lo))) ->
  forall suf pl i n, Forall wf_node suf -> start <= i -> (length pl <= Z.to_nat i)%nat ->
    (suf = [] \/ length pl = Z.to_nat i) -> i + Z.of_nat (length suf) <= 512 ->
    e - i < Z.of_nat n ->
    t_cu_loop rec L (addr base) (addr prs) (addr pre) e n i (pl ++ suf) =
      Ok (pl ++ fst (prune_children P suf i base W RS RE (-1)),
          snd (prune_children P suf i base W RS RE (-1))).
Proof.
  intros HL HS Hb0 Hbm HbN Hr1 Hr2 Hr3 HRS HRE Hst Hst2 He He2 Hrec HPwf.
  assert (HWv : W = 512 \/ W = 262144 \/ W = 134217728) by (rewrite HS; apply span_tlevel; exact HL).
  induction suf as [|x rest IH]; intros pl i n Hwf Hsi Hlen Hor Hbound Hfuel.
  - rewrite app_nil_r. cbn [prune_children fst snd]. rewrite app_nil_r.
    apply loop_past_end; lia.
  - destruct Hor as [Hor|Hor]; [discriminate|].
    pose proof (Forall_inv Hwf) as Hx. pose proof (Forall_inv_tail Hwf) as Hrest.
    cbn [length] in Hbound.
    destruct (e <? i) eqn:Ei.
    + rewrite prune_children_out.
      2:{ intros j Hj. cbn [length] in Hj. right.
          destruct HWv as [-> | [-> | ->]]; lia. }
      cbn [fst snd]. destruct n as [|n]; [reflexivity|]. rewrite t_cu_loop_S, Ei. reflexivity.
    + destruct n as [|n]; [lia|]. rewrite t_cu_loop_S, Ei.
      rewrite (child_app x rest pl _ Hor).
      rewrite prune_children_cons. cbv zeta.
      assert (IH' : forall y, wf_node y ->
        t_cu_loop rec L (addr base) (addr prs) (addr pre) e n (i + 1) (pl ++ y :: rest) =
        Ok (pl ++ y :: fst (prune_children P rest (i + 1) base W RS RE (-1)),
            snd (prune_children P rest (i + 1) base W RS RE (-1)))).
      { intros y Hy. specialize (IH (pl ++ [y]) (i + 1) n Hrest).
        rewrite <- !app_assoc in IH. cbn [app] in IH. apply IH; try lia.
        - rewrite app_length. cbn [length]. lia.
        - right. rewrite app_length. cbn [length]. lia. }
      destruct x as [|w|f fl sub].
      * cbn [fst snd app]. apply IH'. exact I.
      * cbn [fst snd app]. apply IH'. exact I.
      * apply Z.ltb_ge in Ei.
        set (lo := base + i * W).
        assert (Hi : 0 <= i < 512) by lia.
        assert (Hlo : 0 <= i * W /\ 0 <= lo /\ lo mod W = 0 /\ lo + W <= NP /\ base <= lo /\
                      lo + W <= base + 512 * W /\ lo <= pre /\ prs <= lo + W - 1).
        { subst lo. apply (slot_facts W base prs pre start e i); auto; lia. }
        destruct Hlo as (Hl0 & Hl1 & Hl2 & Hl3 & Hl4 & Hl5 & Hl6 & Hl7).
        assert (HW0 : 0 < W) by (clear - HWv; lia).
        pose proof (range_facts W lo base prs pre RS RE Hl4 Hl5 Hl6 Hl7 Hr2 HRS HRE HW0) as Hrf.
        cbv zeta in Hrf. destruct Hrf as (Hf1 & Hf2 & Hf3 & Hf4 & Hf5 & Hf6 & Hf7).
        apply wf_node_tab in Hx.
        rewrite slot_mul by assumption. cbn [bind]. rewrite <- HS.
        rewrite slot_fwd by (fold lo; clear - Hb0 Hl0 Hl3 HW0; lia). fold lo. cbn [bind unwrap].
        destruct (slot_va_add L lo HL Hl1) as (Eva & Hcan & Erd); [rewrite <- HS; assumption..|].
        rewrite <- HS in Eva, Hcan, Erd. rewrite Eva. cbn [bind].
        rewrite slot_pc_st by (clear - Hl1 Hl3 HW0; lia). cbn [bind].
        rewrite slot_pc_en by assumption. rewrite Erd. cbn [bind].
        rewrite pmax_addr, pmin_addr by (clear - Hl1 Hl3 HW0 Hl6 Hl7 Hr1 Hb0 Hr2 Hr3 HbN; lia).
        rewrite (Hrec sub lo (Z.max lo prs) (Z.min (lo + W - 1) pre)) by assumption.
        cbn [bind].
        assert (Et : ((lo + W - 1 <? RS) || (RE <? lo) || (i =? -1))%bool = false).
        { rewrite Hf6, Hf7. clear - Hi. lia. }
        rewrite Et.
        destruct (P sub lo) as [sub' fr] eqn:EP. cbn [fst snd].
        destruct (all_empty sub') eqn:Eall.
        -- rewrite (set_child_app _ rest Empty pl _ Hor). rewrite IH' by exact I.
           cbn [bind fst snd]. reflexivity.
        -- rewrite (set_child_app _ rest (Tab f fl sub') pl _ Hor).
           rewrite IH'.
           2:{ apply wf_node_tab. specialize (HPwf sub lo Hx). rewrite EP in HPwf. exact HPwf. }
           cbn [bind fst snd]. reflexivity.
Qed.

Lemma Forall_skipn {A} (Q : A -> Prop) n : forall l, Forall Q l -> Forall Q (skipn n l).
Proof.
  induction n as [|n IH]; intros l H; [exact H|]. destruct l as [|x t]; [constructor|].
  cbn [skipn]. apply IH. apply (Forall_inv_tail H).
Qed.

Lemma before_facts W base prs RS start j :
  W = 512 \/ W = 262144 \/ W = 134217728 ->
  0 <= j < start -> base + start * W <= prs -> prs = Z.max RS base ->
  base + (0 + j) * W + W - 1 < RS.
Proof. intros [-> | [-> | ->]]; lia. Qed.

Lemma table_prune rec P L W base prs pre RS RE start e :
  tlevel L -> W = span L ->
  0 <= base -> base mod (512 * W) = 0 -> base + 512 * W <= NP ->
  base <= prs -> prs <= pre -> pre < base + 512 * W ->
  prs = Z.max RS base -> pre = Z.min RE (base + 512 * W - 1) ->
  0 <= start < 512 -> base + start * W <= prs < base + (start + 1) * W ->
  0 <= e < 512 -> base + e * W <= pre < base + (e + 1) * W ->
  (forall sub lo sp ep, wf_children sub -> 0 <= lo -> lo mod W = 0 -> lo + W <= NP ->
     lo <= sp -> sp <= ep -> ep < lo + W -> sp = Z.max RS lo -> ep = Z.min RE (lo + W - 1) ->
     rec sub (L - 1) (addr sp) (addr ep) =
       Ok (fst (P sub lo), snd (P sub lo), all_empty (fst (P sub lo)))) ->
  (forall sub lo, wf_children sub -> wf_children (fst (P sub lo))) ->
  forall ch, wf_children ch ->
    t_cu_loop rec L (addr base) (addr prs) (addr pre) e 512 start ch =
      Ok (prune_children P ch 0 base W RS RE (-1)).
Proof.
  intros HL HS Hb0 Hbm HbN Hr1 Hr2 Hr3 HRS HRE Hst Hst2 He He2 Hrec HPwf ch [Hlen Hwf].
  assert (HWv : W = 512 \/ W = 262144 \/ W = 134217728) by (rewrite HS; apply span_tlevel; exact HL).
  pose proof (loop_prune rec P L W base prs pre RS RE start e HL HS Hb0 Hbm HbN Hr1 Hr2 Hr3 HRS HRE
                Hst Hst2 He He2 Hrec HPwf) as LP.
  set (pl := firstn (Z.to_nat start) ch). set (suf := skipn (Z.to_nat start) ch).
  assert (Hch : ch = pl ++ suf) by (symmetry; apply firstn_skipn).
  assert (Hpl : (length pl <= Z.to_nat start)%nat) by apply firstn_le_length.
  assert (Hout : prune_children P pl 0 base W RS RE (-1) = (pl, [])).
  { apply prune_children_out. intros j Hj. left.
    apply (before_facts W base prs RS start); auto; clear - Hj Hpl Hst Hst2; lia. }
  assert (Hor : suf = [] \/ length pl = Z.to_nat start).
  { destruct (le_lt_dec (length ch) (Z.to_nat start)) as [Hc|Hc].
    - left. apply skipn_all2. exact Hc.
    - right. apply firstn_length_le. lia. }
  assert (Hsl : start + Z.of_nat (length suf) <= 512).
  { subst suf. rewrite skipn_length. clear - Hlen Hst. lia. }
  rewrite Hch. rewrite (LP suf pl start 512%nat); auto.
  - rewrite prune_children_app, Hout. cbn [fst snd app].
    destruct Hor as [Hor|Hor].
    + rewrite Hor. reflexivity.
    + replace (0 + Z.of_nat (length pl)) with start by (clear - Hor Hst; lia).
      destruct (prune_children P suf start base W RS RE (-1)); reflexivity.
  - apply Forall_skipn. exact Hwf.
  - clear; lia.
  - clear - He Hst. lia.
Qed.

(* ---------- one level: t_clean is prune ---------- *)
Lemma t_clean_S fuel ch level rs re :
  t_clean (S fuel) ch level rs re =
    if re <? rs then Ok (ch, [], false) else
    do table_addr <- va_align_down rs (table_alignment level);
    do x <-
      (if level =? 1 then Ok (ch, [])
       else t_cu_loop (t_clean fuel) level table_addr rs re
              (page_table_index re level) 512%nat (page_table_index rs level) ch);
    Ok (fst x, snd x, slots_empty (fst x)).
Proof. reflexivity. Qed.

Lemma prune_S2 l rs re sk ch base :
  prune (S (S l)) rs re sk ch base =
  prune_children (prune (S l) rs re (-1)) ch 0 base (512 ^ Z.of_nat (S l)) rs re sk.
Proof. reflexivity. Qed.

Lemma span_succ l : span (Z.of_nat (S l)) = 512 ^ Z.of_nat l.
Proof. unfold span. f_equal. lia. Qed.
Lemma span_step l : span (Z.of_nat (S (S l))) = 512 * span (Z.of_nat (S l)).
Proof. rewrite !span_succ. rewrite Nat2Z.inj_succ, Z.pow_succ_r by lia. reflexivity. Qed.

Lemma idx_facts W base p :
  W = 512 \/ W = 262144 \/ W = 134217728 ->
  0 <= base -> base mod (512 * W) = 0 -> base <= p < base + 512 * W ->
  0 <= (p / W) mod 512 < 512 /\
  base + ((p / W) mod 512) * W <= p < base + ((p / W) mod 512 + 1) * W /\
  p - p mod (512 * W) = base.
Proof. intros [-> | [-> | ->]]; lia. Qed.

(* a level-l table whose slots cover the positions [base, base + 512 * span l) *)
Theorem t_clean_level : forall l, (1 <= l <= 4)%nat -> forall ch prs pre base RS RE,
  wf_children ch ->
  0 <= base -> base mod (512 * span (Z.of_nat l)) = 0 -> base + 512 * span (Z.of_nat l) <= NP ->
  base <= prs -> prs <= pre -> pre < base + 512 * span (Z.of_nat l) ->
  prs = Z.max RS base -> pre = Z.min RE (base + 512 * span (Z.of_nat l) - 1) ->
  t_clean (S l) ch (Z.of_nat l) (addr prs) (addr pre) =
    Ok (fst (prune l RS RE (-1) ch base), snd (prune l RS RE (-1) ch base),
        all_empty (fst (prune l RS RE (-1) ch base))).
Proof.
  induction l as [|l IH]; intros Hl ch prs pre base RS RE Hwf Hb0 Hbm HbN Hr1 Hr2 Hr3 HRS HRE; [lia|].
  assert (Hp : 0 <= prs < NP /\ 0 <= pre < NP) by (clear - Hb0 HbN Hr1 Hr2 Hr3; lia).
  rewrite t_clean_S.
  assert (Elt : (addr pre <? addr prs) = false).
  { apply Z.ltb_ge. apply addr_le; [lia..|exact Hr2]. }
  rewrite Elt. rewrite align_table by (clear - Hp Hl; lia). cbn [bind].
  destruct l as [|l].
  - (* level 1 *)
    change (Z.of_nat 1 =? 1) with true. cbn [bind fst snd prune Nat.eqb].
    rewrite slots_all_empty by apply Hwf. reflexivity.
  - set (L := Z.of_nat (S (S l))) in *.
    assert (HL : tlevel L) by (unfold tlevel; subst L; clear - Hl; lia).
    assert (EL : (L =? 1) = false) by (subst L; clear - Hl; lia).
    rewrite EL.
    set (W := span L) in *.
    assert (HWv : W = 512 \/ W = 262144 \/ W = 134217728) by (apply span_tlevel; exact HL).
    assert (HS : W = span L) by reflexivity.
    destruct (idx_facts W base prs HWv Hb0 Hbm) as (Hs1 & Hs2 & Hs3); [clear - Hr1 Hr2 Hr3; lia|].
    destruct (idx_facts W base pre HWv Hb0 Hbm) as (He1 & He2 & _); [clear - Hr1 Hr2 Hr3; lia|].
    rewrite Hs3. rewrite !pti_addr by (subst L; clear - Hp Hl; lia). fold W.
    rewrite prune_S2.
    assert (EW : 512 ^ Z.of_nat (S l) = W) by (subst W L; symmetry; apply span_succ).
    rewrite EW.
    rewrite (table_prune (t_clean (S (S l))) (prune (S l) RS RE (-1)) L W base prs pre RS RE
               _ _ HL HS Hb0 Hbm HbN Hr1 Hr2 Hr3 HRS HRE Hs1 Hs2 He1 He2).
    + cbn [bind].
      rewrite slots_all_empty; [reflexivity|].
      rewrite prune_children_length. apply Hwf.
    + intros sub lo sp ep Hsub Hlo0 Hlom HloN Hsp1 Hsp2 Hsp3 Hsp4 Hsp5.
      replace (L - 1) with (Z.of_nat (S l)) by (subst L; clear; lia).
      assert (EW2 : W = 512 * span (Z.of_nat (S l))) by (subst W L; apply span_step).
      apply IH; try assumption; try (clear - Hl; lia); rewrite <- EW2; assumption.
    + intros sub lo Hsub. apply prune_wf_gen. exact Hsub.
    + exact Hwf.
Qed.

(* ---------- clean_up_addr_range on the tree is prune ---------- *)
Theorem t_clean_range_is_prune ch rs re :
  wf_children ch ->
  canonical rs -> canonical re -> rs mod 4096 = 0 -> re mod 4096 = 0 ->
  t_clean_range ch rs re =
    Ok (if re <? rs then (ch, []) else prune 4 (page_pos rs) (page_pos re) (-1) ch 0).
Proof.
  intros Hwf Hcs Hce Hms Hme. unfold t_clean_range.
  destruct (re <? rs) eqn:E.
  - rewrite t_clean_S, E. reflexivity.
  - destruct (addr_of rs Hcs Hms) as [Hps Hrs]. destruct (addr_of re Hce Hme) as [Hpe Hre].
    set (prs := page_pos rs) in *. set (pre := page_pos re) in *.
    assert (Hle : prs <= pre).
    { apply (addr_le prs pre Hps Hpe). rewrite <- Hrs, <- Hre. lia. }
    replace (t_clean 5 ch 4 rs re) with (t_clean 5 ch (Z.of_nat 4) (addr prs) (addr pre))
      by (rewrite <- Hrs, <- Hre; reflexivity).
    rewrite (t_clean_level 4 ltac:(lia) ch prs pre 0 prs pre Hwf);
      change (span (Z.of_nat 4)) with 134217728; unfold NP in *; try lia.
    cbn [rmap fst]. destruct (prune 4 prs pre (-1) ch 0); reflexivity.
Qed.

(* the result is well-formed again, so the theorem applies to every clean-up of a history *)
Corollary t_clean_range_wf ch rs re ch' fr :
  wf_children ch ->
  canonical rs -> canonical re -> rs mod 4096 = 0 -> re mod 4096 = 0 ->
  t_clean_range ch rs re = Ok (ch', fr) -> wf_children ch'.
Proof.
  intros Hwf Hcs Hce Hms Hme. rewrite t_clean_range_is_prune by assumption.
  destruct (re <? rs).
  - intros [= <- _]. exact Hwf.
  - pose proof (prune_wf (page_pos rs) (page_pos re) (-1) ch 0 Hwf) as Hp.
    destruct (prune 4 (page_pos rs) (page_pos re) (-1) ch 0) as [c f]. intros [= <- _]. exact Hp.
Qed.

Print Assumptions t_clean_range_is_prune.
Print Assumptions prune_wf.
