(* "Identically across mapper implementations" (C02), on the memory models: on a state whose
   recursive slot points to the level-4 table and whose other level-4 slots represent a tree
   (repx), the RecursivePageTable model's unmap / update_flags / set_flags_p*_entry /
   translate_page -- which reach every lower table through recursive addresses resolved by the
   hardware-style walk -- compute exactly what the MappedPageTable model computes: the same
   result AND the same memory afterwards, for every page outside the recursive slot. *)
From X86 Require Import Base.Bits Addr.Canon Addr.Index Paging.EntryProofs Paging.Mapped Paging.MemProofs
  Paging.Tree Paging.TreeProofs Paging.Refine Paging.RefineOps Paging.RefineWalk Paging.Recursive Paging.RecNew
  Paging.RecNewProofs Paging.RecResolve Paging.RecRead Paging.Run.
Require Import Lia ZifyBool.
Open Scope Z_scope.

Definition lift_descend (s : pstate) (d : Z + out) : rres Z :=
  match d with inl sl => RVal sl | inr e => RErr s e end.

Lemma rdescend_descend s ch k page :
  0 <= k <= 2 -> 0 <= rec_index s < 512 -> repx (rec_index s) s ch -> p4_index page <> rec_index s ->
  rdescend s k page = lift_descend s (descend s k page).
Proof.
  intros Hk Hr (Hrec & Hrep) Hne.
  destruct (index_ranges page) as (H1 & H2 & H3 & H4 & _).
  pose proof (Hrep (p4_index page) H4 Hne) as E4.
  unfold rdescend, descend, slot4.
  rewrite (chk_lax_entry 3 s _ _ false E4 ltac:(discriminate)).
  rewrite (next_table_rep 3 s _ _ E4 ltac:(lia)).
  destruct (child ch (Z.to_nat (p4_index page))) as [|w4|f4 fl4 sub4] eqn:C4.
  - reflexivity.
  - cbn [rep_entry] in E4. destruct E4 as [_ (_ & _ & _ & Hl)]. lia.
  - pose proof (tab_entry_of_rep _ _ _ _ _ _ E4) as T4.
    cbn [rep_entry] in E4. destruct E4 as (_ & Hf4 & _ & R3).
    destruct (p3_page_spec page (rec_index s) Hr) as (pg3 & Ep3 & _).
    cbn [rb].
    rewrite (table_at_ok s _ pg3 f4 Ep3 (deref_ok s pg3 f4 (p3_page_resolves s (rec_index s) Hr Hrec page pg3 f4 Ep3 T4))). cbn [rb].
    pose proof (proj1 (rep_unfold _ _ _ _) R3 (p3_index page) H3) as E3.
    unfold slot3, slot2, slot1.
    destruct (k =? 2) eqn:K2; [reflexivity|].
    rewrite (chk_lax_entry 2 s _ _ true E3 ltac:(lia)).
    rewrite (next_table_rep 2 s _ _ E3 ltac:(lia)).
    destruct (child sub4 (Z.to_nat (p3_index page))) as [|w3|f3 fl3 sub3] eqn:C3; [reflexivity|reflexivity|].
    pose proof (tab_entry_of_rep _ _ _ _ _ _ E3) as T3.
    cbn [rep_entry] in E3. destruct E3 as (_ & Hf3 & _ & R2).
    destruct (p2_page_spec page (rec_index s) Hr) as (pg2 & Ep2 & _).
    cbn [rb].
    rewrite (table_at_ok s _ pg2 f3 Ep2 (deref_ok s pg2 f3 (p2_page_resolves s (rec_index s) Hr Hrec page pg2 f4 f3 Ep2 T4 T3))). cbn [rb].
    pose proof (proj1 (rep_unfold _ _ _ _) R2 (p2_index page) H2) as E2.
    destruct (k =? 1) eqn:K1; [reflexivity|].
    rewrite (chk_lax_entry 1 s _ _ true E2 ltac:(lia)).
    rewrite (next_table_rep 1 s _ _ E2 ltac:(lia)).
    destruct (child sub3 (Z.to_nat (p2_index page))) as [|w2|f2 fl2 sub2] eqn:C2; [reflexivity|reflexivity|].
    pose proof (tab_entry_of_rep _ _ _ _ _ _ E2) as T2.
    destruct (p1_page_spec page (rec_index s) Hr) as (pg1 & Ep1 & _).
    cbn [rb].
    rewrite (table_at_ok s _ pg1 f2 Ep1 (deref_ok s pg1 f2 (p1_page_resolves s (rec_index s) Hr Hrec page pg1 f4 f3 f2 Ep1 T4 T3 T2))).
    reflexivity.
Qed.

Theorem rupdate_flags_eq s ch k page flags :
  0 <= k <= 2 -> 0 <= rec_index s < 512 -> repx (rec_index s) s ch -> p4_index page <> rec_index s ->
  rupdate_flags s k page flags = Ok (update_flags s k page flags).
Proof.
  intros Hk Hr Hx Hne. unfold rupdate_flags, update_flags.
  rewrite (rdescend_descend s ch k page Hk Hr Hx Hne).
  destruct (descend s k page) as [sl|e]; cbn [lift_descend rb rfin]; [|reflexivity].
  destruct (rd s sl =? 0); [reflexivity|]. destruct (k =? 0); [reflexivity|].
  destruct (negb (e_huge (rd s sl))); reflexivity.
Qed.

Theorem rtranslate_page_eq s ch k page :
  0 <= k <= 2 -> 0 <= rec_index s < 512 -> repx (rec_index s) s ch -> p4_index page <> rec_index s ->
  rtranslate_page s k page = Ok (s, translate_page s k page).
Proof.
  intros Hk Hr Hx Hne. unfold rtranslate_page, translate_page.
  rewrite (rdescend_descend s ch k page Hk Hr Hx Hne).
  destruct (descend s k page) as [sl|e]; cbn [lift_descend rb rfin]; [|reflexivity].
  destruct (rd s sl =? 0); [reflexivity|].
  destruct (negb (k =? 0) && negb (e_huge (rd s sl)))%bool; [reflexivity|].
  destruct (negb (e_addr (rd s sl) mod size_of_kind k =? 0)); reflexivity.
Qed.

Theorem rset_flags_parent_eq s ch k level page flags :
  2 <= level <= 4 -> 0 <= k <= 2 -> 0 <= rec_index s < 512 -> repx (rec_index s) s ch ->
  p4_index page <> rec_index s ->
  rset_flags_parent s k level page flags = Ok (set_flags_parent s k level page flags).
Proof.
  intros Hl Hk Hr Hx Hne. unfold rset_flags_parent, set_flags_parent.
  destruct (level =? 4); [destruct (rd s (slot4 s page) =? 0); reflexivity|].
  destruct ((level =? 3) && (k =? 2))%bool; [reflexivity|].
  destruct ((level =? 2) && negb (k =? 0))%bool; [reflexivity|].
  rewrite (rdescend_descend s ch (if level =? 3 then 2 else 1) page ltac:(destruct (level =? 3); lia) Hr Hx Hne).
  destruct (descend s (if level =? 3 then 2 else 1) page) as [sl|e]; cbn [lift_descend rb rfin]; [|reflexivity].
  destruct (rd s sl =? 0); [reflexivity|]. destruct (e_huge (rd s sl)); reflexivity.
Qed.

(* unmap walks with its own check order (HUGE_PAGE before PRESENT): the same as next_table *)
Lemma chk_unmap_next s e :
  chk_unmap s e = match next_table e with
                  | WTable _ => RVal tt
                  | WHuge => RErr s [E_PARENT_HUGE]
                  | WNotMapped => RErr s [E_NOT_MAPPED]
                  end.
Proof. unfold chk_unmap, next_table. destruct (e_huge e); [reflexivity|]. destruct (e_present e); reflexivity. Qed.

Theorem runmap_eq s ch k page :
  0 <= k <= 2 -> 0 <= rec_index s < 512 -> repx (rec_index s) s ch -> p4_index page <> rec_index s ->
  runmap s k page = Ok (unmap s k page).
Proof.
  intros Hk Hr (Hrec & Hrep) Hne.
  destruct (index_ranges page) as (H1 & H2 & H3 & H4 & _).
  pose proof (Hrep (p4_index page) H4 Hne) as E4.
  unfold runmap, unmap, descend, slot4.
  rewrite chk_unmap_next. rewrite (next_table_rep 3 s _ _ E4 ltac:(lia)).
  destruct (child ch (Z.to_nat (p4_index page))) as [|w4|f4 fl4 sub4] eqn:C4.
  - reflexivity.
  - cbn [rep_entry] in E4. destruct E4 as [_ (_ & _ & _ & Hl)]. lia.
  - pose proof (tab_entry_of_rep _ _ _ _ _ _ E4) as T4.
    cbn [rep_entry] in E4. destruct E4 as (_ & Hf4 & _ & R3).
    destruct (p3_page_spec page (rec_index s) Hr) as (pg3 & Ep3 & _).
    cbn [rb].
    rewrite (table_at_ok s _ pg3 f4 Ep3 (deref_ok s pg3 f4 (p3_page_resolves s (rec_index s) Hr Hrec page pg3 f4 Ep3 T4))). cbn [rb].
    pose proof (proj1 (rep_unfold _ _ _ _) R3 (p3_index page) H3) as E3.
    unfold slot3, slot2, slot1.
    destruct (k =? 2) eqn:K2.
    { assert (K0 : (k =? 0) = false) by lia. rewrite K0.
      destruct (negb (e_present (rd s (f4 + 8 * p3_index page)))); [reflexivity|].
      destruct (negb (e_huge (rd s (f4 + 8 * p3_index page)))); [reflexivity|].
      destruct (negb (e_addr (rd s (f4 + 8 * p3_index page)) mod size_of_kind k =? 0)); reflexivity. }
    rewrite chk_unmap_next. rewrite (next_table_rep 2 s _ _ E3 ltac:(lia)).
    destruct (child sub4 (Z.to_nat (p3_index page))) as [|w3|f3 fl3 sub3] eqn:C3; [reflexivity|reflexivity|].
    pose proof (tab_entry_of_rep _ _ _ _ _ _ E3) as T3.
    cbn [rep_entry] in E3. destruct E3 as (_ & Hf3 & _ & R2).
    destruct (p2_page_spec page (rec_index s) Hr) as (pg2 & Ep2 & _).
    cbn [rb].
    rewrite (table_at_ok s _ pg2 f3 Ep2 (deref_ok s pg2 f3 (p2_page_resolves s (rec_index s) Hr Hrec page pg2 f4 f3 Ep2 T4 T3))). cbn [rb].
    pose proof (proj1 (rep_unfold _ _ _ _) R2 (p2_index page) H2) as E2.
    destruct (k =? 1) eqn:K1.
    { assert (K0 : (k =? 0) = false) by lia. rewrite K0.
      destruct (negb (e_present (rd s (f3 + 8 * p2_index page)))); [reflexivity|].
      destruct (negb (e_huge (rd s (f3 + 8 * p2_index page)))); [reflexivity|].
      destruct (negb (e_addr (rd s (f3 + 8 * p2_index page)) mod size_of_kind k =? 0)); reflexivity. }
    assert (K0 : (k =? 0) = true) by lia. rewrite K0.
    rewrite chk_unmap_next. rewrite (next_table_rep 1 s _ _ E2 ltac:(lia)).
    destruct (child sub3 (Z.to_nat (p2_index page))) as [|w2|f2 fl2 sub2] eqn:C2; [reflexivity|reflexivity|].
    pose proof (tab_entry_of_rep _ _ _ _ _ _ E2) as T2.
    destruct (p1_page_spec page (rec_index s) Hr) as (pg1 & Ep1 & _).
    cbn [rb].
    rewrite (table_at_ok s _ pg1 f2 Ep1 (deref_ok s pg1 f2 (p1_page_resolves s (rec_index s) Hr Hrec page pg1 f4 f3 f2 Ep1 T4 T3 T2))). cbn [rb].
    destruct (negb (e_present (rd s (f2 + 8 * p1_index page)))); reflexivity.
Qed.
