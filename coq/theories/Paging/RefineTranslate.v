(* Translate::translate / translate_addr of the memory models (MappedPageTable / OffsetPageTable
   and RecursivePageTable) return what the tree model's t_translate returns. *)
From X86 Require Import Base.Bits Addr.Canon Addr.Align Addr.Index Paging.EntryProofs Paging.Mapped
  Paging.MemProofs Paging.Tree Paging.TreeProofs Paging.Refine Paging.RefineOps Paging.RefineWalk
  Paging.Recursive Paging.RecNew Paging.RecNewProofs Paging.RecResolve Paging.RecRead
  Paging.RecRefineTop Paging.RecRefine Paging.Run.
Require Import Lia ZifyBool.
Open Scope Z_scope.
Local Ltac Zify.zify_post_hook ::= Z.div_mod_to_equations.

(* ---------- arithmetic of the result fields ---------- *)
Lemma leaf_addr_phys w : phys (leaf_addr w).
Proof. unfold leaf_addr. rewrite field_land. exact (proj1 (field_phys w)). Qed.

Lemma frame_containing_1g w :
  frame_containing S1G (leaf_addr w) = Ok (leaf_addr w - leaf_addr w mod S1G).
Proof.
  unfold frame_containing. change S1G with (2 ^ 30).
  destruct (pa_align_down_spec (leaf_addr w) 30 (leaf_addr_phys w) ltac:(lia)) as [-> _]. reflexivity.
Qed.
Lemma frame_containing_2m w :
  frame_containing S2M (leaf_addr w) = Ok (leaf_addr w - leaf_addr w mod S2M).
Proof.
  unfold frame_containing. change S2M with (2 ^ 21).
  destruct (pa_align_down_spec (leaf_addr w) 21 (leaf_addr_phys w) ltac:(lia)) as [-> _]. reflexivity.
Qed.

(* the 4 KiB offset: PageOffset::new_truncate(addr as u16) is addr & 0xfff, for every integer *)
Lemma page_offset_land va : page_offset va = Z.land va 4095.
Proof.
  unfold page_offset, po_new_truncate, trunc16, W16.
  change 4095 with (2 ^ 12 - 1). rewrite land_ones_mod by lia.
  change 65536 with (2 ^ 16). change 4096 with (2 ^ 12). apply mod_mod_pow2. lia.
Qed.

Lemma leaf_nonzero w : Z.testbit w 0 = true -> (w =? 0) = false.
Proof. intros Hp. apply Z.eqb_neq. intros H0. rewrite H0, Z.bits_0 in Hp. discriminate. Qed.

(* ---------- MappedPageTable / OffsetPageTable ---------- *)
Theorem translate_refines s ch va :
  rep 4 s ch (root s) -> tframe (root s) -> translate s va = Ok (t_translate ch va).
Proof.
  intros Hrep _. destruct (index_ranges va) as (H1 & H2 & H3 & H4 & _).
  unfold t_translate. rewrite idx_list0. unfold translate, slot4, slot3, slot2, slot1.
  pose proof (proj1 (rep_unfold _ _ _ _) Hrep (p4_index va) H4) as E4.
  rewrite (next_table_rep 3 s _ _ E4 ltac:(lia)).
  cbn [t_walk].
  destruct (child ch (Z.to_nat (p4_index va))) as [|w4|f4 fl4 sub4]; cbn [rep_entry] in E4.
  - reflexivity.
  - destruct E4 as [_ (_ & _ & _ & Hl)]. lia.
  - destruct E4 as (_ & Hf4 & Hfl4 & R3).
    pose proof (proj1 (rep_unfold _ _ _ _) R3 (p3_index va) H3) as E3.
    rewrite (next_table_rep 2 s _ _ E3 ltac:(lia)).
    destruct (child sub4 (Z.to_nat (p3_index va))) as [|w3|f3 fl3 sub3]; cbn [rep_entry] in E3.
    + reflexivity.
    + destruct E3 as [E3 _]. rewrite E3. change (e_addr w3) with (leaf_addr w3).
      rewrite frame_containing_1g. reflexivity.
    + destruct E3 as (_ & Hf3 & Hfl3 & R2).
      pose proof (proj1 (rep_unfold _ _ _ _) R2 (p2_index va) H2) as E2.
      rewrite (next_table_rep 1 s _ _ E2 ltac:(lia)).
      destruct (child sub3 (Z.to_nat (p2_index va))) as [|w2|f2 fl2 sub2]; cbn [rep_entry] in E2.
      * reflexivity.
      * destruct E2 as [E2 _]. rewrite E2. change (e_addr w2) with (leaf_addr w2).
        rewrite frame_containing_2m. reflexivity.
      * destruct E2 as (_ & Hf2 & Hfl2 & R1).
        pose proof (proj1 (rep_unfold _ _ _ _) R1 (p1_index va) H1) as E1.
        destruct (child sub2 (Z.to_nat (p1_index va))) as [|w1|f1 fl1 sub1]; cbn [rep_entry] in E1.
        -- rewrite E1. reflexivity.
        -- destruct E1 as [E1 (_ & Hp1 & _)]. rewrite E1, (leaf_nonzero w1 Hp1), page_offset_land.
           reflexivity.
        -- destruct E1 as (_ & _ & _ & R0). cbn [rep] in R0. contradiction.
Qed.

(* frame + offset of a translation never leaves the physical address range *)
Lemma pa_add_ok f off : 0 <= f -> 0 <= off -> f + off < P52 -> pa_add f off = Ok (f + off).
Proof.
  intros Hf Ho Hs. unfold pa_add, checked_add64.
  assert (Hlt : f + off <? W64 = true) by (unfold P52, W64 in *; lia).
  rewrite Hlt. cbn [unwrap bind].
  rewrite pa_new_spec by (unfold u64, P52, W64 in *; lia).
  assert (Hp : physb (f + off) = true) by (apply physb_spec; unfold phys; lia).
  rewrite Hp. reflexivity.
Qed.

Lemma t_translate_pa_add ch va :
  match t_translate ch va with
  | [0; _; f; off; _] => pa_add f off = Ok (f + off)
  | _ => True
  end.
Proof.
  unfold t_translate.
  destruct (t_walk ch (idx_list 0 va) 4 true true) as [[[[w l] wr] us]|]; [|exact I].
  pose proof (leaf_addr_phys w) as Hp. unfold phys in Hp.
  pose proof (leaf_addr_mod_4k w) as H4k.
  destruct (l =? 3); [|destruct (l =? 2)]; cbn iota; apply pa_add_ok.
  - unfold S1G. lia.
  - change 1073741823 with (2 ^ 30 - 1). rewrite land_ones_mod by lia. lia.
  - change 1073741823 with (2 ^ 30 - 1). rewrite land_ones_mod by lia.
    unfold S1G, P52 in *. change (2 ^ 30) with 1073741824. lia.
  - unfold S2M. lia.
  - change 2097151 with (2 ^ 21 - 1). rewrite land_ones_mod by lia. lia.
  - change 2097151 with (2 ^ 21 - 1). rewrite land_ones_mod by lia.
    unfold S2M, P52 in *. change (2 ^ 21) with 2097152. lia.
  - lia.
  - change 4095 with (2 ^ 12 - 1). rewrite land_ones_mod by lia. lia.
  - change 4095 with (2 ^ 12 - 1). rewrite land_ones_mod by lia.
    unfold S4K, P52 in *. change (2 ^ 12) with 4096. lia.
Qed.

Theorem translate_addr_refines s ch va :
  rep 4 s ch (root s) -> tframe (root s) ->
  translate_addr s va = Ok (match t_translate ch va with [0; _; f; off; _] => [f + off] | _ => [NONE] end).
Proof.
  intros Hrep Ht. unfold translate_addr. rewrite (translate_refines s ch va Hrep Ht). cbn [bind].
  pose proof (t_translate_pa_add ch va) as Ha.
  destruct (t_translate ch va) as [|[|p|p] [|z1 [|z2 [|z3 [|z4 [|z5 r]]]]]]; try reflexivity.
  cbn iota in Ha |- *. rewrite Ha. reflexivity.
Qed.

(* ---------- RecursivePageTable ---------- *)
(* the page of an address: always computed (4096 is a power of two), and it has the indices of
   the address, for every integer va *)
Lemma idx_char a :
  p4_index a = (a / 2 ^ 39) mod 2 ^ 9 /\ p3_index a = (a / 2 ^ 30) mod 2 ^ 9 /\
  p2_index a = (a / 2 ^ 21) mod 2 ^ 9.
Proof.
  unfold p4_index, p3_index, p2_index, pti_new_truncate, trunc16, shr64, W16.
  rewrite !Z.shiftr_div_pow2 by lia. rewrite !Z.div_div by lia.
  change 65536 with (2 ^ 16). change 512 with (2 ^ 9).
  rewrite !mod_mod_pow2 by lia. 
  change (2 ^ 12 * 2 ^ 9 * 2 ^ 9 * 2 ^ 9) with (2 ^ 39).
  change (2 ^ 12 * 2 ^ 9 * 2 ^ 9) with (2 ^ 30). change (2 ^ 12 * 2 ^ 9) with (2 ^ 21). auto.
Qed.

Lemma mod_div_pow2 a b h l : 0 <= l <= h -> a mod 2 ^ h = b mod 2 ^ h ->
  (a / 2 ^ l) mod 2 ^ (h - l) = (b / 2 ^ l) mod 2 ^ (h - l).
Proof.
  intros Hl H. pose proof (pow2_pos l ltac:(lia)). pose proof (pow2_pos (h - l) ltac:(lia)).
  rewrite (pow2_split h l Hl) in H.
  rewrite !Z.rem_mul_r in H by lia.
  pose proof (Z.mod_pos_bound a (2 ^ l) ltac:(lia)). pose proof (Z.mod_pos_bound b (2 ^ l) ltac:(lia)).
  pose proof (Z.mod_pos_bound (a / 2 ^ l) (2 ^ (h - l)) ltac:(lia)).
  pose proof (Z.mod_pos_bound (b / 2 ^ l) (2 ^ (h - l)) ltac:(lia)).
  set (x := (a / 2 ^ l) mod 2 ^ (h - l)) in *. set (y := (b / 2 ^ l) mod 2 ^ (h - l)) in *.
  set (p := 2 ^ l) in *. set (u := a mod p) in *. set (v := b mod p) in *. nia.
Qed.

Lemma indices_mod48 a b : a mod P48 = b mod P48 ->
  p4_index a = p4_index b /\ p3_index a = p3_index b /\ p2_index a = p2_index b.
Proof.
  intros H. change P48 with (2 ^ 48) in H.
  destruct (idx_char a) as (-> & -> & ->). destruct (idx_char b) as (-> & -> & ->).
  assert (G : forall l, 12 <= l <= 39 -> (a / 2 ^ l) mod 2 ^ 9 = (b / 2 ^ l) mod 2 ^ 9).
  { intros l Hl. replace 9 with ((l + 9) - l) by lia. apply mod_div_pow2; [lia|].
    rewrite <- (mod_mod_pow2 a 48 (l + 9)), <- (mod_mod_pow2 b 48 (l + 9)) by lia. rewrite H. reflexivity. }
  split; [apply G; lia|]. split; apply G; lia.
Qed.

Lemma indices_round_down a :
  p4_index (a - a mod 2 ^ 12) = p4_index a /\ p3_index (a - a mod 2 ^ 12) = p3_index a /\
  p2_index (a - a mod 2 ^ 12) = p2_index a.
Proof.
  destruct (idx_char a) as (-> & -> & ->). destruct (idx_char (a - a mod 2 ^ 12)) as (-> & -> & ->).
  assert (G : forall l, 12 <= l -> (a - a mod 2 ^ 12) / 2 ^ l = a / 2 ^ l).
  { intros l Hl. pose proof (pow2_pos 12 ltac:(lia)). pose proof (pow2_pos (l - 12) ltac:(lia)).
    rewrite (pow2_split l 12) by lia.
    replace (a - a mod 2 ^ 12) with (2 ^ 12 * (a / 2 ^ 12)) by (pose proof (Z.div_mod a (2 ^ 12)); lia).
    rewrite Z.div_mul_cancel_l by lia. rewrite Z.div_div by lia. reflexivity. }
  rewrite !G by lia. auto.
Qed.

Lemma page_containing_4k va :
  exists pg, page_containing S4K va = Ok pg /\
    p4_index pg = p4_index va /\ p3_index pg = p3_index va /\ p2_index pg = p2_index va.
Proof.
  unfold page_containing, va_align_down, align_down.
  change (is_pow2 S4K) with true. cbn [rmap]. eexists. split; [reflexivity|].
  change (S4K - 1) with (2 ^ 12 - 1). rewrite not64_pow2m1, land_mask_range by lia.
  rewrite <- (mod_mod_pow2 va 64 12) by lia.
  set (v := va mod 2 ^ 64).
  assert (Hv : v mod P48 = va mod P48) by (change P48 with (2 ^ 48); unfold v; apply mod_mod_pow2; lia).
  assert (Hu : u64 (v - v mod 2 ^ 12)).
  { pose proof (Z.mod_pos_bound va (2 ^ 64) ltac:(lia)). pose proof (Z.mod_pos_bound v (2 ^ 12) ltac:(lia)).
    pose proof (Z.mod_le v (2 ^ 12)). fold v in H. unfold u64. change W64 with (2 ^ 64). lia. }
  destruct (va_new_truncate_low48 _ Hu) as [_ Hl].
  destruct (indices_mod48 _ _ Hl) as (-> & -> & ->).
  destruct (indices_round_down v) as (-> & -> & ->).
  exact (indices_mod48 _ _ Hv).
Qed.

Theorem rtranslate_refines s ch va :
  0 <= rec_index s < 512 -> repx (rec_index s) s ch -> p4_index va <> rec_index s ->
  rtranslate s va = Ok (s, t_translate ch va).
Proof.
  intros Hr (Hrec & Hrep) Hne.
  destruct (index_ranges va) as (H1 & H2 & H3 & H4 & _).
  pose proof (Hrep (p4_index va) H4 Hne) as E4.
  destruct (page_containing_4k va) as (pg & Epg & I4 & I3 & I2).
  unfold rtranslate. rewrite Epg. cbn [rlift rb].
  unfold p3_page, p2_page, p1_page. rewrite I4, I3, I2.
  change (from_indices_4k (rec_index s) (rec_index s) (rec_index s) (p4_index va)) with (p3_page va (rec_index s)).
  change (from_indices_4k (rec_index s) (rec_index s) (p4_index va) (p3_index va)) with (p2_page va (rec_index s)).
  change (from_indices_4k (rec_index s) (p4_index va) (p3_index va) (p2_index va)) with (p1_page va (rec_index s)).
  unfold t_translate. rewrite idx_list0. cbn [t_walk].
  unfold slot4, slot3, slot2, slot1.
  destruct (child ch (Z.to_nat (p4_index va))) as [|w4|f4 fl4 sub4].
  - cbn [rep_entry] in E4. rewrite E4. reflexivity.
  - cbn [rep_entry] in E4. destruct E4 as [_ (_ & _ & _ & Hl)]. lia.
  - pose proof (tab_entry_of_rep _ _ _ _ _ _ E4) as T4.
    cbn [rep_entry] in E4. destruct E4 as (E4 & Hf4 & Hfl4 & R3).
    destruct (tab_word f4 fl4 Hf4 Hfl4) as (Hnz4 & Hhu4 & _).
    rewrite E4. apply Z.eqb_neq in Hnz4. rewrite Hnz4, Hhu4.
    destruct (p3_page_spec va (rec_index s) Hr) as (pg3 & Ep3 & _).
    rewrite (table_at_ok s _ pg3 f4 Ep3 (deref_ok s pg3 f4 (p3_page_resolves s (rec_index s) Hr Hrec va pg3 f4 Ep3 T4))).
    cbn [rb].
    pose proof (proj1 (rep_unfold _ _ _ _) R3 (p3_index va) H3) as E3.
    destruct (child sub4 (Z.to_nat (p3_index va))) as [|w3|f3 fl3 sub3].
    + cbn [rep_entry] in E3. rewrite E3. reflexivity.
    + cbn [rep_entry] in E3. destruct E3 as [E3 (_ & Hp3 & Hh3 & _)]. rewrite E3.
      rewrite (leaf_nonzero w3 Hp3), e_huge_bit, (Hh3 ltac:(lia)).
      change (e_addr w3) with (leaf_addr w3). rewrite frame_containing_1g. reflexivity.
    + pose proof (tab_entry_of_rep _ _ _ _ _ _ E3) as T3.
      cbn [rep_entry] in E3. destruct E3 as (E3 & Hf3 & Hfl3 & R2).
      destruct (tab_word f3 fl3 Hf3 Hfl3) as (Hnz3 & Hhu3 & _).
      rewrite E3. apply Z.eqb_neq in Hnz3. rewrite Hnz3, Hhu3.
      destruct (p2_page_spec va (rec_index s) Hr) as (pg2 & Ep2 & _).
      rewrite (table_at_ok s _ pg2 f3 Ep2 (deref_ok s pg2 f3 (p2_page_resolves s (rec_index s) Hr Hrec va pg2 f4 f3 Ep2 T4 T3))).
      cbn [rb].
      pose proof (proj1 (rep_unfold _ _ _ _) R2 (p2_index va) H2) as E2.
      destruct (child sub3 (Z.to_nat (p2_index va))) as [|w2|f2 fl2 sub2].
      * cbn [rep_entry] in E2. rewrite E2. reflexivity.
      * cbn [rep_entry] in E2. destruct E2 as [E2 (_ & Hp2 & Hh2 & _)]. rewrite E2.
        rewrite (leaf_nonzero w2 Hp2), e_huge_bit, (Hh2 ltac:(lia)).
        change (e_addr w2) with (leaf_addr w2). rewrite frame_containing_2m. reflexivity.
      * pose proof (tab_entry_of_rep _ _ _ _ _ _ E2) as T2.
        cbn [rep_entry] in E2. destruct E2 as (E2 & Hf2 & Hfl2 & R1).
        destruct (tab_word f2 fl2 Hf2 Hfl2) as (Hnz2 & Hhu2 & _).
        rewrite E2. apply Z.eqb_neq in Hnz2. rewrite Hnz2, Hhu2.
        destruct (p1_page_spec va (rec_index s) Hr) as (pg1 & Ep1 & _).
        rewrite (table_at_ok s _ pg1 f2 Ep1 (deref_ok s pg1 f2 (p1_page_resolves s (rec_index s) Hr Hrec va pg1 f4 f3 f2 Ep1 T4 T3 T2))).
        cbn [rb].
        pose proof (proj1 (rep_unfold _ _ _ _) R1 (p1_index va) H1) as E1.
        destruct (child sub2 (Z.to_nat (p1_index va))) as [|w1|f1 fl1 sub1]; cbn [rep_entry] in E1.
        -- rewrite E1. reflexivity.
        -- destruct E1 as [E1 (_ & Hp1 & _)]. rewrite E1, (leaf_nonzero w1 Hp1), page_offset_land.
           reflexivity.
        -- destruct E1 as (_ & _ & _ & R0). cbn [rep] in R0. contradiction.
Qed.

(* the same under the invariant of the history theorem (RecRefine.rInv) *)
Corollary rtranslate_refines_rInv r s ch va :
  rInv r s ch -> p4_index va <> r -> rtranslate s va = Ok (s, t_translate ch va).
Proof.
  intros (Hr & Hri & Hx & _) Hne. subst r. apply rtranslate_refines; assumption.
Qed.

(* ---------- all read paths of the memory model report the leaf the path of va reaches ---------- *)
(* translate_page for the size of the leaf that the 4-index path of va reaches *)
Lemma t_translate_page_lookup s ch t va : rep 4 s ch t ->
  match lookup ch (idx_list 0 va) with
  | None => t_translate_page ch (idx_list 0 va) 0 = [E_NOT_MAPPED]
  | Some (w, n) =>
      (n <= 2)%nat /\
      t_translate_page ch (idx_list (Z.of_nat n) va) (Z.of_nat n) =
        if leaf_addr w mod size_of_rem n =? 0 then [0; leaf_addr w] else [E_INVALID_FRAME; leaf_addr w]
  end.
Proof.
  intros Hrep. destruct (index_ranges va) as (H1 & H2 & H3 & H4 & _).
  rewrite idx_list0. cbn [lookup length].
  pose proof (proj1 (rep_unfold _ _ _ _) Hrep (p4_index va) H4) as E4.
  destruct (child ch (Z.to_nat (p4_index va))) as [|w4|f4 fl4 sub4] eqn:C4; cbn [rep_entry] in E4.
  - unfold t_translate_page. cbn [slot_at]. rewrite C4. reflexivity.
  - destruct E4 as [_ (_ & _ & _ & Hl)]. lia.
  - destruct E4 as (_ & _ & _ & R3).
    pose proof (proj1 (rep_unfold _ _ _ _) R3 (p3_index va) H3) as E3.
    destruct (child sub4 (Z.to_nat (p3_index va))) as [|w3|f3 fl3 sub3] eqn:C3; cbn [rep_entry] in E3.
    + unfold t_translate_page. cbn [slot_at]. rewrite C4, C3. reflexivity.
    + split; [lia|]. change (idx_list (Z.of_nat 2) va) with [Z.to_nat (p4_index va); Z.to_nat (p3_index va)].
      unfold t_translate_page. cbn [slot_at]. rewrite C4, C3.
      change (size_of_kind (Z.of_nat 2)) with S1G. change (size_of_rem 2) with S1G.
      destruct (leaf_addr w3 mod S1G =? 0); reflexivity.
    + destruct E3 as (_ & _ & _ & R2).
      pose proof (proj1 (rep_unfold _ _ _ _) R2 (p2_index va) H2) as E2.
      destruct (child sub3 (Z.to_nat (p2_index va))) as [|w2|f2 fl2 sub2] eqn:C2; cbn [rep_entry] in E2.
      * unfold t_translate_page. cbn [slot_at]. rewrite C4, C3, C2. reflexivity.
      * split; [lia|].
        change (idx_list (Z.of_nat 1) va) with [Z.to_nat (p4_index va); Z.to_nat (p3_index va); Z.to_nat (p2_index va)].
        unfold t_translate_page. cbn [slot_at]. rewrite C4, C3, C2.
        change (size_of_kind (Z.of_nat 1)) with S2M. change (size_of_rem 1) with S2M.
        destruct (leaf_addr w2 mod S2M =? 0); reflexivity.
      * destruct E2 as (_ & _ & _ & R1).
        pose proof (proj1 (rep_unfold _ _ _ _) R1 (p1_index va) H1) as E1.
        destruct (child sub2 (Z.to_nat (p1_index va))) as [|w1|f1 fl1 sub1] eqn:C1; cbn [rep_entry] in E1.
        -- unfold t_translate_page. cbn [slot_at]. rewrite C4, C3, C2, C1. reflexivity.
        -- split; [lia|]. change (Z.of_nat 0) with 0. rewrite idx_list0.
           unfold t_translate_page. cbn [slot_at]. rewrite C4, C3, C2, C1.
           change (size_of_kind 0) with S4K. change (size_of_rem 0) with S4K.
           destruct (leaf_addr w1 mod S4K =? 0); reflexivity.
        -- destruct E1 as (_ & _ & _ & R0). cbn [rep] in R0. contradiction.
Qed.

Theorem read_paths_agree s ch va :
  rep 4 s ch (root s) -> tframe (root s) ->
  match lookup ch (idx_list 0 va) with
  | None =>
      translate s va = Ok [E_NOT_MAPPED] /\ translate_addr s va = Ok [NONE] /\
      translate_page s 0 va = [E_NOT_MAPPED] /\ enc_walk (hw_walk s va) = [NONE]
  | Some (w, n) =>
      let size := size_of_rem n in
      let f := leaf_addr w - leaf_addr w mod size in
      let off := Z.land va (size - 1) in
      (n <= 2)%nat /\
      translate s va = Ok [0; size; f; off; e_flags w] /\
      translate_addr s va = Ok [f + off] /\
      translate_page s (Z.of_nat n) va =
        (if leaf_addr w mod size =? 0 then [0; leaf_addr w] else [E_INVALID_FRAME; leaf_addr w]) /\
      exists wr us, enc_walk (hw_walk s va) = [f + off; size; w; b2z wr; b2z us]
  end.
Proof.
  intros Hrep Ht.
  pose proof (translate_hw_agree ch va) as A. pose proof (t_translate_page_lookup s ch (root s) va Hrep) as B.
  rewrite (translate_refines s ch va Hrep Ht), (translate_addr_refines s ch va Hrep Ht), (hw_walk_rep s ch va Hrep).
  destruct (lookup ch (idx_list 0 va)) as [[w n]|].
  - destruct B as [Hn B]. cbn zeta in A |- *. destruct A as (A1 & wr & us & A2).
    rewrite (translate_page_refines s ch (Z.of_nat n) va ltac:(lia) Hrep Ht), B, A1, A2.
    split; [exact Hn|]. split; [reflexivity|]. split; [reflexivity|]. split; [reflexivity|].
    exists wr, us. reflexivity.
  - destruct A as [A1 A2]. rewrite (translate_page_refines s ch 0 va ltac:(lia) Hrep Ht), B, A1, A2.
    repeat split.
Qed.

Print Assumptions translate_refines.
Print Assumptions translate_addr_refines.
Print Assumptions rtranslate_refines.
Print Assumptions rtranslate_refines_rInv.
Print Assumptions read_paths_agree.
