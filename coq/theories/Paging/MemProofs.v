(* Memory-level facts about the mapper model (Paging/Mapped.v): what is written, zeroing of new
   tables, allocator use (C09). *)
From Coq Require Import FMapPositive.
From X86 Require Import Paging.Mapped.
Require Import Lia ZifyBool.
Open Scope Z_scope.
Local Ltac Zify.zify_post_hook ::= Z.div_mod_to_equations.

Lemma key_inj a b : 0 <= a -> 0 <= b -> key a = key b -> a / 8 = b / 8.
Proof.
  unfold key. intros Ha Hb H.
  assert (0 <= a / 8) by (apply Z.div_pos; lia).
  assert (0 <= b / 8) by (apply Z.div_pos; lia).
  apply (f_equal Z.pos) in H. rewrite !Z2Pos.id in H by lia. lia.
Qed.

Lemma rd_wr_same s a v : rd (wr s a v) a = v.
Proof. unfold rd, wr, with_mem. cbn. rewrite PositiveMap.gss. reflexivity. Qed.
Lemma rd_wr_key s a v b : key a = key b -> rd (wr s a v) b = v.
Proof. intros H. unfold rd, wr, with_mem. cbn. rewrite H, PositiveMap.gss. reflexivity. Qed.
Lemma rd_wr_other s a v b : key a <> key b -> rd (wr s a v) b = rd s b.
Proof. intros H. unfold rd, wr, with_mem. cbn. rewrite PositiveMap.gso by congruence. reflexivity. Qed.

(* the non-memory fields *)
Definition same_alloc (s s' : pstate) : Prop :=
  alloc s' = alloc s /\ nalloc s' = nalloc s /\ freed s' = freed s /\ root s' = root s.
Lemma same_alloc_refl s : same_alloc s s. Proof. repeat split. Qed.
Lemma same_alloc_trans a b c : same_alloc a b -> same_alloc b c -> same_alloc a c.
Proof. unfold same_alloc. intuition congruence. Qed.
Lemma same_alloc_wr s a v : same_alloc s (wr s a v). Proof. repeat split. Qed.
Lemma same_alloc_zero_from n : forall s a, same_alloc s (zero_from s a n).
Proof.
  induction n as [|n IH]; intros s a; [apply same_alloc_refl|].
  cbn [zero_from]. eapply same_alloc_trans; [apply (same_alloc_wr s a 0)|apply IH].
Qed.

(* PageTable::zero: every word of the frame reads 0 afterwards, nothing else changes *)
Lemma zero_from_rd n : forall s a b, 0 <= a -> 0 <= b -> a mod 8 = 0 ->
  rd (zero_from s a n) b =
    if (a / 8 <=? b / 8) && (b / 8 <? a / 8 + Z.of_nat n) then 0 else rd s b.
Proof.
  induction n as [|n IH]; intros s a b Ha Hb Hm.
  - cbn [zero_from]. destruct (a / 8 <=? b / 8) eqn:H1; cbn [andb]; [|reflexivity].
    destruct (b / 8 <? a / 8 + Z.of_nat 0) eqn:H2; [lia|reflexivity].
  - cbn [zero_from]. rewrite IH by lia.
    assert (Hd : (a + 8) / 8 = a / 8 + 1) by lia.
    rewrite Hd.
    destruct (Z.eq_dec (a / 8) (b / 8)) as [He|Hne].
    + assert (Hk : key a = key b) by (unfold key; rewrite He; reflexivity).
      rewrite (rd_wr_key _ _ _ _ Hk).
      destruct ((a / 8 + 1 <=? b / 8) && (b / 8 <? a / 8 + 1 + Z.of_nat n))%bool;
      destruct ((a / 8 <=? b / 8) && (b / 8 <? a / 8 + Z.of_nat (S n)))%bool eqn:H2; try reflexivity; lia.
    + rewrite rd_wr_other by (intros Hk; apply Hne; apply key_inj; assumption).
      destruct ((a / 8 + 1 <=? b / 8) && (b / 8 <? a / 8 + 1 + Z.of_nat n))%bool eqn:H1;
      destruct ((a / 8 <=? b / 8) && (b / 8 <? a / 8 + Z.of_nat (S n)))%bool eqn:H2; try reflexivity; lia.
Qed.

Theorem zero_table_zeroed s f i : 0 <= f -> f mod 4096 = 0 -> 0 <= i < 512 ->
  rd (zero_table s f) (f + 8 * i) = 0.
Proof.
  intros Hf Hm Hi. unfold zero_table. rewrite zero_from_rd by lia.
  destruct ((f / 8 <=? (f + 8 * i) / 8) && ((f + 8 * i) / 8 <? f / 8 + Z.of_nat 512))%bool eqn:H; [reflexivity|lia].
Qed.
Theorem zero_table_elsewhere s f b : 0 <= f -> f mod 4096 = 0 -> 0 <= b ->
  (b < f \/ f + 4096 <= b) -> rd (zero_table s f) b = rd s b.
Proof.
  intros Hf Hm Hb Ho. unfold zero_table. rewrite zero_from_rd by lia.
  destruct ((f / 8 <=? b / 8) && (b / 8 <? f / 8 + Z.of_nat 512))%bool eqn:H; [lia|reflexivity].
Qed.

(* create_next_table: at most one allocator call, nothing released; a table obtained from the
   allocator is completely zero when the call returns *)
Theorem create_next_table_alloc s slot pf s' c :
  create_next_table s slot pf = Ok (s', c) ->
  freed s' = freed s /\ root s' = root s /\
  (if rd s slot =? 0 then nalloc s' = nalloc s + 1 else nalloc s' = nalloc s).
Proof.
  unfold create_next_table, create_next_table_g. intros H.
  destruct (rd s slot =? 0) eqn:He.
  - destruct (allocate s) as [[f|] s1] eqn:Ha.
    + assert (Hs1 : freed s1 = freed s /\ root s1 = root s /\ nalloc s1 = nalloc s + 1).
      { unfold allocate in Ha. destruct (alloc s); inversion Ha; subst; repeat split. }
      destruct (negb (f mod 4096 =? 0)); [discriminate|].
      destruct (next_table (rd (wr s1 slot (Z.lor f pf)) slot)); try discriminate.
      * inversion H; subst.
        destruct (same_alloc_zero_from 512 (wr s1 slot (Z.lor f pf)) f0) as [_ [H2 [H3 H4]]].
        unfold zero_table. rewrite H2, H3, H4. cbn. intuition congruence.
      * inversion H; subst. cbn. intuition congruence.
    + inversion H; subst. unfold allocate in Ha. destruct (alloc s); inversion Ha; subst; repeat split.
  - destruct (e_huge (rd s slot)); [inversion H; subst; repeat split|].
    match type of H with context [next_table (rd ?x slot)] => set (s1 := x) in * end.
    assert (Hs1 : same_alloc s s1).
    { subst s1. destruct (negb (pf =? 0) && negb (has (e_flags (rd s slot)) pf))%bool;
        [apply same_alloc_wr|apply same_alloc_refl]. }
    destruct Hs1 as [_ [H2 [H3 H4]]].
    destruct (next_table (rd s1 slot)); try discriminate; inversion H; subst; intuition congruence.
Qed.

Theorem create_next_table_zeroed s slot pf s' t i :
  rd s slot = 0 -> 0 <= i < 512 ->
  create_next_table s slot pf = Ok (s', CTable t) ->
  0 <= t -> t mod 4096 = 0 ->
  rd s' (t + 8 * i) = 0.
Proof.
  unfold create_next_table, create_next_table_g. intros He Hi H Ht Hm.
  rewrite He in H. cbn [Z.eqb] in H.
  destruct (allocate s) as [[f|] s1]; [|discriminate].
  destruct (negb (f mod 4096 =? 0)); [discriminate|].
  destruct (next_table (rd (wr s1 slot (Z.lor f pf)) slot)) as [t'| |]; try discriminate.
  inversion H; subst. apply zero_table_zeroed; assumption.
Qed.

(* operations other than map: one word at most is written -- the slot the walk reached -- and
   the allocator is not involved *)
Theorem unmap_footprint s k page :
  same_alloc s (fst (unmap s k page)) /\
  match descend s k page with
  | inr _ => fst (unmap s k page) = s
  | inl slot => forall b, key b <> key slot -> rd (fst (unmap s k page)) b = rd s b
  end.
Proof.
  unfold unmap. destruct (descend s k page) as [slot|e]; [|split; [apply same_alloc_refl|reflexivity]].
  destruct (k =? 0).
  - destruct (negb (e_present (rd s slot))); cbn [fst];
      (split; [try apply same_alloc_refl; try apply same_alloc_wr|intros b Hb; try reflexivity; apply rd_wr_other; congruence]).
  - destruct (negb (e_present (rd s slot))); [cbn [fst]; split; [apply same_alloc_refl|reflexivity]|].
    destruct (negb (e_huge (rd s slot))); [cbn [fst]; split; [apply same_alloc_refl|reflexivity]|].
    destruct (negb (e_addr (rd s slot) mod size_of_kind k =? 0)); cbn [fst];
      (split; [try apply same_alloc_refl; try apply same_alloc_wr|intros b Hb; try reflexivity; apply rd_wr_other; congruence]).
Qed.

Theorem update_flags_footprint s k page flags :
  same_alloc s (fst (update_flags s k page flags)) /\
  match descend s k page with
  | inr _ => fst (update_flags s k page flags) = s
  | inl slot => forall b, key b <> key slot -> rd (fst (update_flags s k page flags)) b = rd s b
  end.
Proof.
  unfold update_flags. destruct (descend s k page) as [slot|e]; [|split; [apply same_alloc_refl|reflexivity]].
  destruct (rd s slot =? 0); [cbn [fst]; split; [apply same_alloc_refl|reflexivity]|].
  destruct (k =? 0).
  - cbn [fst]. split; [apply same_alloc_wr|intros b Hb; apply rd_wr_other; congruence].
  - destruct (negb (e_huge (rd s slot))); cbn [fst];
      (split; [try apply same_alloc_refl; try apply same_alloc_wr|intros b Hb; try reflexivity; apply rd_wr_other; congruence]).
Qed.

Theorem translate_page_pure s k page : exists o, translate_page s k page = o.
Proof. eexists. reflexivity. Qed.
