(* clean_up_addr_range, a second time, on the abstract tree - but with the CONTROL FLOW AND THE
   ADDRESS ARITHMETIC OF THE CODE (Paging/Mapped.v: clean_up / cu_loop): the slot window
   start..=end of each table, the sub-range of each entry computed with align_down,
   forward_checked, `+ (offset - 1)`, containing_address, max/min.  It is the bridge between the
   memory model and the declarative `prune` of Paging/Tree.v:
     Paging/RefineCleanExact.v : the memory model's clean_up computes, on table memory, what
                                 t_clean computes on the tree (refinement, no arithmetic);
     Paging/CleanArith.v       : t_clean = prune (pure arithmetic on positions, no memory). *)
From X86 Require Export Paging.Tree.
Open Scope Z_scope.

(* the first 512 slots of a table node are Empty *)
Definition slots_empty (ch : list node) : bool :=
  forallb (fun j => match child ch j with Empty => true | _ => false end) (seq 0 512).

(* the loop over the slots i = start..=e of one table; `rec` is the call for the next lower
   level: children of the sub-table, level, sub-range -> children afterwards, frames released
   (in order), "the sub-table is empty now" *)
Definition t_cu_loop (rec : list node -> Z -> Z -> Z -> res (list node * list Z * bool))
  (level table_addr rs re e : Z) : nat -> Z -> list node -> res (list node * list Z) :=
  let offset_per_entry := entry_alignment level in
  fix loop (n : nat) (i : Z) (ch : list node) : res (list node * list Z) :=
    match n with
    | O => Ok (ch, [])
    | S n' =>
        if e <? i then Ok (ch, []) else
        match child ch (Z.to_nat i) with
        | Tab f fl sub =>
            do m <- mul64 true offset_per_entry i;
            do st <- forward_checked_u64 table_addr m;
            do st <- unwrap st;
            do en <- va_add st (offset_per_entry - 1);
            do sp <- page_containing S4K st;
            let sp := pmax sp rs in
            do ep <- page_containing S4K en;
            let ep := pmin ep re in
            do r <- rec sub (level - 1) sp ep;
            let '(sub', fr, empty) := r in
            if empty then
              do x <- loop n' (i + 1) (set_child ch (Z.to_nat i) Empty);
              Ok (fst x, (fr ++ [f]) ++ snd x)
            else
              do x <- loop n' (i + 1) (set_child ch (Z.to_nat i) (Tab f fl sub'));
              Ok (fst x, fr ++ snd x)
        | _ => loop n' (i + 1) ch
        end
    end.

Fixpoint t_clean (fuel : nat) (ch : list node) (level rs re : Z) : res (list node * list Z * bool) :=
  match fuel with
  | O => Panic
  | S fuel' =>
      if re <? rs then Ok (ch, [], false) else
      do table_addr <- va_align_down rs (table_alignment level);
      let start := page_table_index rs level in
      let e := page_table_index re level in
      do x <-
        (if level =? 1 then Ok (ch, [])
         else t_cu_loop (t_clean fuel') level table_addr rs re e 512%nat start ch);
      Ok (fst x, snd x, slots_empty (fst x))
  end.

(* clean_up_addr_range on the children of the level-4 table *)
Definition t_clean_range (ch : list node) (rs re : Z) : res (list node * list Z) :=
  rmap fst (t_clean 5 ch 4 rs re).

(* every table of the tree has at most 512 slots (true of every tree built by the operations
   from the empty table; slots beyond a list's end read as Empty) *)
Fixpoint wf_node (n : node) : Prop :=
  match n with
  | Tab _ _ sub =>
      (length sub <= 512)%nat /\
      (fix all (l : list node) : Prop :=
         match l with [] => True | x :: t => wf_node x /\ all t end) sub
  | _ => True
  end.
Definition wf_children (ch : list node) : Prop := (length ch <= 512)%nat /\ Forall wf_node ch.
