(* Refinement: the slot-by-slot memory model of MappedPageTable (Paging/Mapped.v) simulates the
   abstract tree (Paging/Tree.v).  Rep relates a tree to the table memory; map_to preserves it
   and returns what the tree operation returns. *)
From Coq Require Import FMapPositive.
From X86 Require Import Base.Bits Addr.Index Paging.EntryProofs Paging.Mapped Paging.MemProofs Paging.Tree Paging.TreeProofs.
Require Import Lia ZifyBool Permutation.
Open Scope Z_scope.
Local Ltac Zify.zify_post_hook ::= Z.div_mod_to_equations.

(* ---------- the representation relation ---------- *)
Definition tframe (f : Z) : Prop := 0 <= f < P52 /\ f mod 4096 = 0.
(* parent-entry flags: bits outside the address field, PRESENT, not HUGE_PAGE *)
Definition pflags_ok (fl : Z) : Prop :=
  0 <= fl < W64 /\ Z.land fl ADDR_MASK = 0 /\ Z.testbit fl 0 = true /\ Z.testbit fl 7 = false.
Definition leaf_ok (lvl : nat) (w : Z) : Prop :=
  0 <= w < W64 /\ Z.testbit w 0 = true /\ ((2 <= lvl)%nat -> Z.testbit w 7 = true) /\ (lvl <= 3)%nat.

Fixpoint rep (lvl : nat) (s : pstate) (ch : list node) (t : Z) {struct lvl} : Prop :=
  match lvl with
  | O => False
  | S l =>
      forall i, 0 <= i < 512 ->
        match child ch (Z.to_nat i) with
        | Empty => rd s (t + 8 * i) = 0
        | Leaf w => rd s (t + 8 * i) = w /\ leaf_ok (S l) w
        | Tab f fl sub => rd s (t + 8 * i) = Z.lor f fl /\ tframe f /\ pflags_ok fl /\ rep l s sub f
        end
  end.

(* the frames a (sub)tree occupies *)
Definition in_frame (f a : Z) : Prop := f <= a < f + 4096.
Definition in_frames (fs : list Z) (a : Z) : Prop := exists f, In f fs /\ in_frame f a.

Lemma frames_of_child ch i f fl sub : child ch i = Tab f fl sub ->
  In f (frames_of ch) /\ incl (frames_of sub) (frames_of ch).
Proof.
  revert i. induction ch as [|n t IH]; intros i H.
  - rewrite child_nil in H. discriminate.
  - destruct i as [|i].
    + unfold child in H. cbn in H. subst n. unfold frames_of. cbn [flat_map node_frames].
      split; [left; reflexivity|]. intros x Hx. right. apply in_or_app. left. exact Hx.
    + change (child (n :: t) (S i)) with (child t i) in H. destruct (IH i H) as [H1 H2].
      unfold frames_of in *. cbn [flat_map]. split.
      * apply in_or_app. right. exact H1.
      * intros x Hx. apply in_or_app. right. apply H2. exact Hx.
Qed.

(* rep depends only on the memory inside the table's own frame and the frames below it *)
Lemma rep_frame lvl : forall s s' ch t,
  (forall a, 0 <= a -> in_frames (t :: frames_of ch) a -> rd s' a = rd s a) ->
  0 <= t -> rep lvl s ch t -> rep lvl s' ch t.
Proof.
  induction lvl as [|l IH]; intros s s' ch t Hsame Ht H; [exact H|].
  cbn [rep] in *. intros i Hi. specialize (H i Hi).
  assert (Hslot : rd s' (t + 8 * i) = rd s (t + 8 * i)).
  { apply Hsame; [lia|]. exists t. split; [left; reflexivity|]. unfold in_frame. lia. }
  destruct (child ch (Z.to_nat i)) as [|w|f fl sub] eqn:Hc.
  - rewrite Hslot. exact H.
  - rewrite Hslot. exact H.
  - destruct H as (He & Hf & Hfl & Hr). rewrite Hslot.
    split; [exact He|]. split; [exact Hf|]. split; [exact Hfl|].
    destruct (frames_of_child _ _ _ _ _ Hc) as [Hin Hincl].
    apply (IH s s' sub f); [|destruct Hf; lia|exact Hr].
    intros a Ha [g [Hg Hfr]]. apply Hsame; [exact Ha|]. exists g. split; [|exact Hfr].
    right. destruct Hg as [<-|Hg]; [exact Hin|apply Hincl; exact Hg].
Qed.

(* one entry *)
Definition rep_entry (l : nat) (s : pstate) (n : node) (e : Z) : Prop :=
  match n with
  | Empty => e = 0
  | Leaf w => e = w /\ leaf_ok (S l) w
  | Tab f fl sub => e = Z.lor f fl /\ tframe f /\ pflags_ok fl /\ rep l s sub f
  end.
Lemma rep_unfold l s ch t :
  rep (S l) s ch t <-> forall i, 0 <= i < 512 -> rep_entry l s (child ch (Z.to_nat i)) (rd s (t + 8 * i)).
Proof. reflexivity. Qed.

Lemma rep_entry_frame l s s' n e :
  (forall a, 0 <= a -> in_frames (node_frames n) a -> rd s' a = rd s a) ->
  rep_entry l s n e -> rep_entry l s' n e.
Proof.
  intros Hsame H. destruct n as [|w|f fl sub]; cbn [rep_entry] in *; try exact H.
  destruct H as (He & Hf & Hfl & Hr). split; [exact He|]. split; [exact Hf|]. split; [exact Hfl|].
  apply (rep_frame l s s' sub f); [|destruct Hf; lia|exact Hr].
  intros a Ha Hin. apply Hsame; [exact Ha|]. exact Hin.
Qed.

(* distinct aligned frames do not overlap *)
Lemma frames_disjoint f g a : tframe f -> tframe g -> in_frame f a -> in_frame g a -> f = g.
Proof. unfold tframe, in_frame. intros [_ Hf] [_ Hg] Ha Hb. lia. Qed.

Lemma node_frames_child ch i : incl (node_frames (child ch i)) (frames_of ch).
Proof.
  destruct (child ch i) as [|w|f fl sub] eqn:Hc.
  - intros y [].
  - intros y [].
  - destruct (frames_of_child _ _ _ _ _ Hc) as [H1 H2].
    intros y [<-|Hy]; [exact H1|apply H2; exact Hy].
Qed.

(* the frames of two different slots are different list positions: NoDup of the whole implies
   a frame of slot j is not a frame of slot i *)
Lemma frames_of_split ch i :
  exists pre post, frames_of ch = pre ++ node_frames (child ch i) ++ post /\
    forall j, j <> i -> incl (node_frames (child ch j)) (pre ++ post).
Proof.
  revert i. induction ch as [|n t IH]; intros i.
  - exists [], []. rewrite child_nil. split; [reflexivity|]. intros j _. rewrite child_nil. intros x [].
  - destruct i as [|i].
    + exists [], (frames_of t). split; [reflexivity|].
      intros j Hj. destruct j as [|j]; [contradiction|].
      change (child (n :: t) (S j)) with (child t j). cbn [app]. apply node_frames_child.
    + destruct (IH i) as (pre & post & E & H).
      exists (node_frames n ++ pre), post. split.
      * unfold frames_of in *. cbn [flat_map]. change (child (n :: t) (S i)) with (child t i).
        rewrite E, <- app_assoc. reflexivity.
      * intros j Hj. destruct j as [|j].
        -- unfold child. cbn [nth]. intros x Hx. apply in_or_app. left. apply in_or_app. left. exact Hx.
        -- change (child (n :: t) (S j)) with (child t j). intros x Hx.
           assert (Hji : j <> i) by congruence.
           specialize (H j Hji x Hx). apply in_app_or in H. rewrite <- app_assoc.
           apply in_or_app. right. apply in_or_app. exact H.
Qed.

Lemma frames_of_set_child ch i n :
  exists pre post, frames_of ch = pre ++ node_frames (child ch i) ++ post /\
                   frames_of (set_child ch i n) = pre ++ node_frames n ++ post.
Proof.
  revert ch. induction i as [|i IH]; intros ch.
  - destruct ch as [|x t].
    + exists [], []. rewrite child_nil. unfold frames_of. cbn. rewrite app_nil_r. split; reflexivity.
    + exists [], (frames_of t). split; reflexivity.
  - destruct ch as [|x t].
    + destruct (IH []) as (pre & post & E1 & E2). rewrite child_nil in *.
      exists pre, post. split; [exact E1|]. cbn [set_child]. unfold frames_of in *. cbn [flat_map node_frames app].
      exact E2.
    + destruct (IH t) as (pre & post & E1 & E2).
      exists (node_frames x ++ pre), post. change (child (x :: t) (S i)) with (child t i).
      cbn [set_child]. unfold frames_of in *. cbn [flat_map]. rewrite E1, E2, <- !app_assoc. split; reflexivity.
Qed.

(* ---------- map_to as a recursion over the index path ---------- *)
Definition zidx_list (k page : Z) : list Z :=
  if k =? 2 then [p4_index page; p3_index page]
  else if k =? 1 then [p4_index page; p3_index page; p2_index page]
  else [p4_index page; p3_index page; p2_index page; p1_index page].
Lemma idx_list_zidx k page : idx_list k page = map Z.to_nat (zidx_list k page).
Proof. unfold idx_list, zidx_list. destruct (k =? 2); [reflexivity|]. destruct (k =? 1); reflexivity. Qed.

Fixpoint mmap (rc : bool) (s : pstate) (t : Z) (idxs : list Z) (w frame page pf : Z) : res (pstate * out) :=
  match idxs with
  | [] => Ok (s, [-99])
  | [i] =>
      if negb (rd s (t + 8 * i) =? 0) then Ok (s, [E_ALREADY_MAPPED; frame])
      else Ok (wr s (t + 8 * i) w, [0; page])
  | i :: rest =>
      do r <- create_next_table_g s (t + 8 * i) (new_parent_flags rc pf) pf;
      match snd r with
      | CTable t' => mmap rc (fst r) t' rest w frame page pf
      | c => Ok (fst r, cerr c)
      end
  end.

Lemma map_to_mmap s k page frame flags pf : 0 <= k <= 2 ->
  map_to s k page frame flags pf =
  mmap false s (root s) (zidx_list k page) (leaf_word k frame flags) frame page pf.
Proof.
  intros Hk. unfold map_to, zidx_list, leaf_word, slot4, slot3, slot2, slot1.
  unfold create_next_table.
  destruct (k =? 2) eqn:E2.
  - assert (k =? 0 = false) by lia. rewrite H. cbn [mmap new_parent_flags].
    destruct (create_next_table_g s (root s + 8 * p4_index page) pf pf) as [[s1 c]|]; [|reflexivity].
    cbn [bind fst snd]. destruct c; reflexivity.
  - destruct (k =? 1) eqn:E1.
    + assert (k =? 0 = false) by lia. rewrite H. cbn [mmap new_parent_flags].
      destruct (create_next_table_g s (root s + 8 * p4_index page) pf pf) as [[s1 c]|]; [|reflexivity].
      cbn [bind fst snd]. destruct c; try reflexivity.
      destruct (create_next_table_g s1 (f + 8 * p3_index page) pf pf) as [[s2 c2]|]; [|reflexivity].
      cbn [bind fst snd]. destruct c2; reflexivity.
    + assert (k =? 0 = true) by lia. rewrite H. cbn [mmap new_parent_flags].
      destruct (create_next_table_g s (root s + 8 * p4_index page) pf pf) as [[s1 c]|]; [|reflexivity].
      cbn [bind fst snd]. destruct c; try reflexivity.
      destruct (create_next_table_g s1 (f + 8 * p3_index page) pf pf) as [[s2 c2]|]; [|reflexivity].
      cbn [bind fst snd]. destruct c2; try reflexivity.
      destruct (create_next_table_g s2 (f0 + 8 * p2_index page) pf pf) as [[s3 c3]|]; [|reflexivity].
      cbn [bind fst snd]. destruct c3; reflexivity.
Qed.

(* ---------- entry words ---------- *)
Lemma lor_absorb a b : Z.lor a (Z.land a b) = a.
Proof.
  apply Z.bits_inj'. intros n Hn. rewrite Z.lor_spec, Z.land_spec.
  destruct (Z.testbit a n), (Z.testbit b n); reflexivity.
Qed.
Lemma lor_u64 a b : 0 <= a < W64 -> 0 <= b < W64 -> 0 <= Z.lor a b < W64.
Proof.
  unfold W64.
  intros Ha Hb. split; [apply Z.lor_nonneg; lia|].
  destruct (Z.eq_dec a 0) as [->|Ha0]; [rewrite Z.lor_0_l; exact (proj2 Hb)|].
  destruct (Z.eq_dec b 0) as [->|Hb0]; [rewrite Z.lor_0_r; exact (proj2 Ha)|].
  assert (0 <= Z.lor a b) by (apply Z.lor_nonneg; lia).
  destruct (Z.eq_dec (Z.lor a b) 0) as [->|Hn]; [lia|].
  change 18446744073709551616 with (2 ^ 64).
  apply (proj2 (Z.log2_lt_pow2 (Z.lor a b) 64 ltac:(lia))).
  rewrite Z.log2_lor by lia.
  apply Z.max_lub_lt.
  - apply (proj1 (Z.log2_lt_pow2 a 64 ltac:(lia))). change (2 ^ 64) with 18446744073709551616. lia.
  - apply (proj1 (Z.log2_lt_pow2 b 64 ltac:(lia))). change (2 ^ 64) with 18446744073709551616. lia.
Qed.
Lemma has_bit x k : 0 <= k -> has x (2 ^ k) = Z.testbit x k.
Proof.
  intros Hk. unfold has. destruct (Z.testbit x k) eqn:Hb.
  - apply Z.eqb_eq. apply Z.bits_inj'. intros n Hn. rewrite Z.land_spec, Z.pow2_bits_eqb by lia.
    destruct (Z.eqb_spec k n) as [->|]; [rewrite Hb; reflexivity|apply Bool.andb_false_r].
  - apply Z.eqb_neq. intros H. assert (Ht := f_equal (fun z => Z.testbit z k) H). cbn in Ht.
    rewrite Z.land_spec, Hb, Z.pow2_bits_true in Ht by lia. discriminate.
Qed.
Lemma ptf_all_bit n : 0 <= n -> Z.testbit PTF_ALL n = ((n <=? 12) || ((52 <=? n) && (n <=? 63)))%bool.
Proof.
  intros Hn. destruct (Z_lt_le_dec n 64) as [Hlt|Hge].
  - assert (Hall : forallb (fun m => Bool.eqb (Z.testbit PTF_ALL m) ((m <=? 12) || ((52 <=? m) && (m <=? 63)))%bool)
                     (map Z.of_nat (seq 0 64)) = true) by (vm_compute; reflexivity).
    rewrite forallb_forall in Hall. specialize (Hall n).
    apply Bool.eqb_prop. apply Hall. apply in_map_iff. exists (Z.to_nat n). split; [lia|]. apply in_seq. lia.
  - replace ((n <=? 12) || (52 <=? n) && (n <=? 63))%bool with false by lia.
    apply (testbit_high_zero _ 64 n); [|lia]. vm_compute. split; [discriminate|reflexivity].
Qed.

Lemma addr_mask_bit n : 0 <= n -> Z.testbit ADDR_MASK n = ((12 <=? n) && (n <=? 51))%bool.
Proof.
  intros Hn. destruct (Z_lt_le_dec n 64) as [Hlt|Hge].
  - assert (Hall : forallb (fun m => Bool.eqb (Z.testbit ADDR_MASK m) ((12 <=? m) && (m <=? 51))%bool)
                     (map Z.of_nat (seq 0 64)) = true) by (vm_compute; reflexivity).
    rewrite forallb_forall in Hall. specialize (Hall n).
    apply Bool.eqb_prop. apply Hall. apply in_map_iff. exists (Z.to_nat n). split; [lia|]. apply in_seq. lia.
  - replace ((12 <=? n) && (n <=? 51))%bool with false by lia.
    apply (testbit_high_zero _ 64 n); [|lia]. vm_compute. split; [discriminate|reflexivity].
Qed.

Lemma flags_sub_all x : 0 <= x < W64 -> Z.land x ADDR_MASK = 0 -> Z.land x PTF_ALL = x.
Proof.
  intros Hx Hm. apply Z.bits_inj'. intros n Hn. rewrite Z.land_spec.
  destruct (Z.testbit x n) eqn:Hb; [|reflexivity]. cbn [andb].
  assert (Hmn := f_equal (fun z => Z.testbit z n) Hm). cbn in Hmn.
  rewrite Z.land_spec, Hb, Z.bits_0, addr_mask_bit in Hmn by lia. cbn [andb] in Hmn.
  assert (Hlt : n < 64).
  { destruct (Z_lt_le_dec n 64) as [|Hge]; [assumption|].
    rewrite (testbit_u64_high x n Hx Hge) in Hb. discriminate. }
  rewrite ptf_all_bit by lia. lia.
Qed.
Lemma tframe_mask f : tframe f -> Z.land f ADDR_MASK = f.
Proof.
  intros [Hr Ha]. unfold ADDR_MASK. change 4503599627366400 with (2 ^ 52 - 2 ^ 12).
  rewrite land_mask_range by lia. change (2 ^ 52) with P52. change (2 ^ 12) with 4096.
  rewrite Ha. rewrite Z.mod_small by lia. lia.
Qed.
Lemma tframe_bit f n : tframe f -> 0 <= n < 12 -> Z.testbit f n = false.
Proof. intros [_ Ha] Hn. apply (testbit_low_zero f 12 n); [exact Ha|lia]. Qed.
Lemma land_disj f pf : Z.land f ADDR_MASK = f -> Z.land pf ADDR_MASK = 0 -> Z.land f pf = 0.
Proof.
  intros Hf Hp. rewrite <- Hf. rewrite <- Z.land_assoc. rewrite (Z.land_comm ADDR_MASK pf), Hp.
  apply Z.land_0_r.
Qed.

Lemma e_huge_bit e : e_huge e = Z.testbit e 7.
Proof.
  unfold e_huge, e_flags, pte_flags, PTF_HUGE. change 128 with (2 ^ 7). rewrite has_bit by lia.
  rewrite Z.land_spec, ptf_all_bit by lia. cbn. apply Bool.andb_true_r.
Qed.
Lemma e_present_bit e : e_present e = Z.testbit e 0.
Proof.
  unfold e_present, e_flags, pte_flags, PTF_PRESENT. change 1 with (2 ^ 0). rewrite has_bit by lia.
  rewrite Z.land_spec, ptf_all_bit by lia. cbn. apply Bool.andb_true_r.
Qed.

(* the word of a parent entry *)
Lemma tab_word f fl : tframe f -> pflags_ok fl ->
  let e := Z.lor f fl in
  e <> 0 /\ e_huge e = false /\ e_present e = true /\ e_addr e = f /\ next_table e = WTable f /\
  (forall pf, 0 <= pf < W64 -> Z.land pf ADDR_MASK = 0 ->
     has (e_flags e) pf = has fl pf /\
     e_set_flags e (Z.lor (e_flags e) pf) = Z.lor f (Z.lor fl pf)).
Proof.
  intros Hf (Hfl & Hflm & Hp & Hh) e.
  assert (Hfm := tframe_mask f Hf).
  assert (Hb0 : Z.testbit e 0 = true) by (unfold e; rewrite Z.lor_spec, Hp; apply Bool.orb_true_r).
  assert (Hb7 : Z.testbit e 7 = false) by (unfold e; rewrite Z.lor_spec, Hh, (tframe_bit f 7 Hf) by lia; reflexivity).
  assert (Ha : e_addr e = f) by (apply leaf_addr_lor; assumption).
  split; [intros H0; rewrite H0 in Hb0; rewrite Z.bits_0 in Hb0; discriminate|].
  split; [rewrite e_huge_bit; exact Hb7|].
  split; [rewrite e_present_bit; exact Hb0|].
  split; [exact Ha|].
  split; [unfold next_table; rewrite e_huge_bit, Hb7, e_present_bit, Hb0, Ha; reflexivity|].
  intros pf Hpf Hpm.
  assert (Hfa : Z.land fl PTF_ALL = fl) by (apply flags_sub_all; assumption).
  assert (Hpa : Z.land pf PTF_ALL = pf) by (apply flags_sub_all; assumption).
  split.
  - unfold has, e_flags, pte_flags. f_equal.
    rewrite <- Z.land_assoc. rewrite (Z.land_comm PTF_ALL pf), Hpa.
    unfold e. rewrite Z.land_lor_distr_l. rewrite (land_disj f pf Hfm Hpm). apply Z.lor_0_l.
  - unfold e_set_flags. rewrite Ha. unfold e_flags, pte_flags, e.
    rewrite Z.land_lor_distr_l, Hfa.
    rewrite <- !Z.lor_assoc. rewrite (Z.lor_assoc f (Z.land f PTF_ALL)). rewrite lor_absorb. reflexivity.
Qed.

(* ---------- allocator, separation ---------- *)
Definition valid_alloc (f : Z) : bool := negb ((f <? 0) || (W63 <=? f)).
Definition va (s : pstate) : list Z := filter valid_alloc (alloc s).
Definition aor_of (s : pstate) : aor := (alloc s, nalloc s).
Definition sep (s : pstate) (t : Z) (ch : list node) : Prop :=
  NoDup (t :: frames_of ch ++ va s) /\ Forall tframe (t :: frames_of ch ++ va s).

Lemma allocate_spec s :
  match allocate s with
  | (Some f, s1) => va s = f :: va s1 /\ t_alloc (aor_of s) = (Some f, aor_of s1)
  | (None, s1) => va s1 = va s /\ t_alloc (aor_of s) = (None, aor_of s1)
  end /\ pmem (snd (allocate s)) = pmem s /\ root (snd (allocate s)) = root s /\
  freed (snd (allocate s)) = freed s.
Proof.
  unfold allocate, t_alloc, va, aor_of. cbn [fst snd].
  destruct (alloc s) as [|f rest] eqn:Ea; cbn [filter fst snd alloc nalloc pmem root freed].
  - split; [split; reflexivity|]. split; [reflexivity|]. split; reflexivity.
  - change (valid_alloc f) with (negb ((f <? 0) || (W63 <=? f))%bool).
    destruct ((f <? 0) || (W63 <=? f))%bool; cbn [negb alloc nalloc fst snd pmem root freed];
      (split; [split; reflexivity|]); (split; [reflexivity|]); split; reflexivity.
Qed.
Lemma rd_pmem s s' a : pmem s' = pmem s -> rd s' a = rd s a.
Proof. unfold rd. intros ->. reflexivity. Qed.

Lemma rd_wr_outside s t x v a : tframe t -> in_frame t x -> 0 <= a -> ~ in_frame t a ->
  rd (wr s x v) a = rd s a.
Proof.
  intros [Ht Hal] Hx Ha Hn. apply rd_wr_other. intros Hk.
  apply key_inj in Hk; [|unfold in_frame in *; lia|lia]. unfold in_frame in *. lia.
Qed.
Lemma rd_wr_slot s t i j v : 0 <= t -> t mod 4096 = 0 -> 0 <= i < 512 -> 0 <= j < 512 -> i <> j ->
  rd (wr s (t + 8 * i) v) (t + 8 * j) = rd s (t + 8 * j).
Proof.
  intros Ht Hal Hi Hj Hne. apply rd_wr_other. intros Hk. apply key_inj in Hk; lia.
Qed.

Lemma nodup_app_disj {A} (l1 l2 : list A) x : NoDup (l1 ++ l2) -> In x l1 -> In x l2 -> False.
Proof.
  induction l1 as [|y t IH]; intros Hn H1 H2; [contradiction|].
  cbn in Hn. inversion Hn as [|? ? Hnin Hn']; subst. destruct H1 as [->|H1].
  - apply Hnin. apply in_or_app. right. exact H2.
  - apply (IH Hn' H1 H2).
Qed.

(* an address inside one listed frame is inside no other listed frame *)
Lemma sep_unique L a g h : NoDup L -> Forall tframe L -> In g L -> In h L ->
  in_frame g a -> in_frame h a -> g = h.
Proof.
  intros _ HF Hg Hh Ha Hb. rewrite Forall_forall in HF.
  apply (frames_disjoint g h a); auto.
Qed.

Lemma in_frames_app l1 l2 a : in_frames (l1 ++ l2) a <-> in_frames l1 a \/ in_frames l2 a.
Proof.
  unfold in_frames. split.
  - intros (f & Hin & Hf). apply in_app_or in Hin. destruct Hin; [left|right]; exists f; auto.
  - intros [(f & Hin & Hf)|(f & Hin & Hf)]; exists f; split; auto; apply in_or_app; auto.
Qed.
Lemma in_frames_perm l1 l2 a : Permutation l1 l2 -> in_frames l1 a -> in_frames l2 a.
Proof. intros P (f & Hin & Hf). exists f. split; [apply (Permutation_in _ P Hin)|exact Hf]. Qed.

(* ---------- create_next_table, case by case on the tree ---------- *)
Lemma pflags_ok_widen fl pf : pflags_ok fl -> pflags_ok pf -> pflags_ok (widen fl pf).
Proof.
  intros (H1 & H2 & H3 & H4) (G1 & G2 & G3 & G4). unfold widen.
  destruct (negb (pf =? 0) && negb (has fl pf))%bool; [|exact (conj H1 (conj H2 (conj H3 H4)))].
  split; [apply lor_u64; assumption|].
  split; [rewrite Z.land_lor_distr_l, H2, G2; reflexivity|].
  split; [rewrite Z.lor_spec, H3; reflexivity|].
  rewrite Z.lor_spec, H4, G4. reflexivity.
Qed.

Lemma pflags_ok_new_parent rc pf : pflags_ok pf -> pflags_ok (new_parent_flags rc pf).
Proof.
  intros (H1 & H2 & H3 & H4). destruct rc; cbn [new_parent_flags]; [|exact (conj H1 (conj H2 (conj H3 H4)))].
  change (Z.lor PTF_PRESENT PTF_WRITABLE) with 3.
  split; [apply lor_u64; [unfold W64; lia|exact H1]|].
  split; [rewrite Z.land_lor_distr_l, H2; reflexivity|].
  split; [rewrite Z.lor_spec; reflexivity|].
  rewrite Z.lor_spec, H4. reflexivity.
Qed.

Lemma create_step_entry l s t ch i cf pf :
  rep_entry (S l) s (child ch (Z.to_nat i)) (rd s (t + 8 * i)) -> tframe t -> sep s t ch -> 0 <= i < 512 -> pflags_ok cf -> pflags_ok pf ->
  match child ch (Z.to_nat i) with
  | Empty =>
      match allocate s with
      | (None, s1) => create_next_table_g s (t + 8 * i) cf pf = Ok (s1, CAllocFailed)
      | (Some f, s1) =>
          create_next_table_g s (t + 8 * i) cf pf = Ok (zero_table (wr s1 (t + 8 * i) (Z.lor f cf)) f, CTable f)
      end
  | Leaf _ => create_next_table_g s (t + 8 * i) cf pf = Ok (s, CHuge)
  | Tab f fl sub =>
      create_next_table_g s (t + 8 * i) cf pf =
        Ok ((if (negb (pf =? 0) && negb (has fl pf))%bool then wr s (t + 8 * i) (Z.lor f (Z.lor fl pf)) else s),
            CTable f)
  end.
Proof.
  intros He Ht Hsep Hi Hcf Hpf.
  unfold create_next_table_g.
  destruct (child ch (Z.to_nat i)) as [|w|f fl sub] eqn:Hc; cbn [rep_entry] in He.
  - rewrite He. cbn [Z.eqb].
    pose proof (allocate_spec s) as (Ha & Hm & _).
    destruct (allocate s) as [[f|] s1] eqn:Hal; [|reflexivity].
    destruct Ha as [Hva _].
    assert (Hf : tframe f).
    { destruct Hsep as [_ HF]. rewrite Forall_forall in HF. apply HF. right. apply in_or_app. right.
      rewrite Hva. left. reflexivity. }
    destruct Hf as [Hfr Hfa]. rewrite Hfa. cbn [Z.eqb negb].
    rewrite rd_wr_same.
    destruct (tab_word f cf (conj Hfr Hfa) Hcf) as (_ & _ & _ & _ & Hnt & _). rewrite Hnt. reflexivity.
  - destruct He as [He (Hw & Hp & Hh & _)]. rewrite He.
    assert (Hnz : (w =? 0) = false).
    { apply Z.eqb_neq. intros H0. rewrite H0, Z.bits_0 in Hp. discriminate. }
    rewrite Hnz. rewrite e_huge_bit, (Hh ltac:(lia)). reflexivity.
  - destruct He as (He & Hf & Hfl & _). rewrite He.
    destruct (tab_word f fl Hf Hfl) as (Hnz & Hhu & _ & _ & Hnt & Hpfx).
    destruct Hpf as (P1 & P2 & P3 & P4).
    destruct (Hpfx pf P1 P2) as [Hhas Hset].
    assert (Hz : (Z.lor f fl =? 0) = false) by (apply Z.eqb_neq; exact Hnz).
    rewrite Hz, Hhu, Hhas, Hset.
    destruct (negb (pf =? 0) && negb (has fl pf))%bool eqn:Hcnd.
    + rewrite rd_wr_same.
      assert (Hfl' : pflags_ok (Z.lor fl pf)).
      { pose proof (pflags_ok_widen fl pf Hfl (conj P1 (conj P2 (conj P3 P4)))) as Hw.
        unfold widen in Hw. rewrite Hcnd in Hw. exact Hw. }
      destruct (tab_word f (Z.lor fl pf) Hf Hfl') as (_ & _ & _ & _ & Hnt' & _). rewrite Hnt'. reflexivity.
    + rewrite He, Hnt. reflexivity.
Qed.

Lemma create_step l s t ch i cf pf :
  rep (S (S l)) s ch t -> tframe t -> sep s t ch -> 0 <= i < 512 -> pflags_ok cf -> pflags_ok pf ->
  match child ch (Z.to_nat i) with
  | Empty =>
      match allocate s with
      | (None, s1) => create_next_table_g s (t + 8 * i) cf pf = Ok (s1, CAllocFailed)
      | (Some f, s1) =>
          create_next_table_g s (t + 8 * i) cf pf = Ok (zero_table (wr s1 (t + 8 * i) (Z.lor f cf)) f, CTable f)
      end
  | Leaf _ => create_next_table_g s (t + 8 * i) cf pf = Ok (s, CHuge)
  | Tab f fl sub =>
      create_next_table_g s (t + 8 * i) cf pf =
        Ok ((if (negb (pf =? 0) && negb (has fl pf))%bool then wr s (t + 8 * i) (Z.lor f (Z.lor fl pf)) else s),
            CTable f)
  end.
Proof.
  intros Hrep Ht Hsep Hi Hcf Hpf.
  apply (create_step_entry l s t ch i cf pf (proj1 (rep_unfold _ _ _ _) Hrep i Hi) Ht Hsep Hi Hcf Hpf).
Qed.

(* ---------- rebuilding rep after a change at one slot ---------- *)
Lemma rep_update l s s' ch t i n' :
  0 <= i < 512 ->
  rep (S l) s ch t ->
  rep_entry l s' n' (rd s' (t + 8 * i)) ->
  (forall j, 0 <= j < 512 -> j <> i -> rd s' (t + 8 * j) = rd s (t + 8 * j)) ->
  (forall j a, 0 <= j < 512 -> j <> i -> 0 <= a ->
     in_frames (node_frames (child ch (Z.to_nat j))) a -> rd s' a = rd s a) ->
  rep (S l) s' (set_child ch (Z.to_nat i) n') t.
Proof.
  intros Hi Hrep Hn Hslots Hsub. apply rep_unfold. intros j Hj.
  rewrite child_set_child.
  destruct (Nat.eqb_spec (Z.to_nat i) (Z.to_nat j)) as [He|Hne].
  - assert (i = j) by lia. subst j. exact Hn.
  - assert (Hji : j <> i) by (intros ->; apply Hne; reflexivity).
    rewrite (Hslots j Hj Hji).
    apply (rep_entry_frame l s s'); [|exact (proj1 (rep_unfold _ _ _ _) Hrep j Hj)].
    intros a Ha Hin. apply (Hsub j a Hj Hji Ha Hin).
Qed.

Lemma sep_no_overlap L1 L2 a : NoDup (L1 ++ L2) -> Forall tframe (L1 ++ L2) ->
  in_frames L1 a -> in_frames L2 a -> False.
Proof.
  intros Hn HF (g & Hg & Hga) (h & Hh & Hha). rewrite Forall_forall in HF.
  assert (g = h).
  { apply (frames_disjoint g h a); auto; apply HF; apply in_or_app; auto. }
  subst h. exact (nodup_app_disj L1 L2 g Hn Hg Hh).
Qed.

(* the frames of slot j (j <> i) are disjoint from the table's own frame, the frames of slot i
   and the allocator's frames *)
Lemma sibling_disjoint s t ch i j a :
  sep s t ch -> (Z.to_nat j <> Z.to_nat i) ->
  in_frames (node_frames (child ch (Z.to_nat j))) a ->
  ~ in_frames (t :: node_frames (child ch (Z.to_nat i)) ++ va s) a.
Proof.
  intros [Hn HF] Hji Hin Hbad.
  destruct (frames_of_split ch (Z.to_nat i)) as (pre & post & E & Hincl).
  specialize (Hincl (Z.to_nat j) Hji).
  assert (Hin' : in_frames (pre ++ post) a).
  { destruct Hin as (g & Hg & Hga). exists g. split; [apply Hincl; exact Hg|exact Hga]. }
  rewrite E in Hn, HF.
  assert (P : Permutation (t :: (pre ++ node_frames (child ch (Z.to_nat i)) ++ post) ++ va s)
                          ((pre ++ post) ++ (t :: node_frames (child ch (Z.to_nat i)) ++ va s))).
  { apply Permutation_trans with (t :: (pre ++ post) ++ node_frames (child ch (Z.to_nat i)) ++ va s);
      [|apply Permutation_middle].
    apply perm_skip. rewrite <- !app_assoc. apply Permutation_app_head.
    rewrite !app_assoc. apply Permutation_app_tail. apply Permutation_app_comm. }
  apply (sep_no_overlap (pre ++ post) (t :: node_frames (child ch (Z.to_nat i)) ++ va s) a).
  - apply (Permutation_NoDup P Hn).
  - apply (Permutation_Forall P HF).
  - exact Hin'.
  - exact Hbad.
Qed.

(* ---------- the simulation ---------- *)
Definition out_of (r : tres) : out := match r with TOk x => x | TErr x => x end.
Definition sim_post (rc : bool) (l : nat) (s : pstate) (t : Z) (ch : list node) (idxs : list Z)
  (w frame page pf : Z) (s' : pstate) (o : out) : Prop :=
  exists ch' a' r,
    map_path rc ch (map Z.to_nat idxs) w frame page pf (aor_of s) = (ch', a', r) /\
    o = out_of r /\ aor_of s' = a' /\ root s' = root s /\ freed s' = freed s /\
    rep (S l) s' ch' t /\ sep s' t ch' /\
    Permutation (frames_of ch' ++ va s') (frames_of ch ++ va s) /\
    (forall a, 0 <= a -> ~ in_frames (t :: frames_of ch ++ va s) a -> rd s' a = rd s a).

Lemma same_alloc_va s s' : same_alloc s s' -> va s' = va s /\ aor_of s' = aor_of s.
Proof. intros (H1 & H2 & _). unfold va, aor_of. rewrite H1, H2. split; reflexivity. Qed.

Lemma entry_nonzero l s n e : rep_entry l s n e -> n <> Empty -> e <> 0.
Proof.
  destruct n as [|w|f fl sub]; cbn [rep_entry]; intros H Hn; [contradiction| |].
  - destruct H as [-> (_ & Hp & _)]. intros H0. rewrite H0, Z.bits_0 in Hp. discriminate.
  - destruct H as (-> & Hf & Hfl & _). apply (tab_word f fl Hf Hfl).
Qed.

Lemma mmap_final rc l s t ch i w frame page pf :
  0 <= i < 512 -> rep (S l) s ch t -> tframe t -> sep s t ch -> leaf_ok (S l) w ->
  exists s' o, mmap rc s t [i] w frame page pf = Ok (s', o) /\ sim_post rc l s t ch [i] w frame page pf s' o.
Proof.
  intros Hi Hrep Ht Hsep Hw. unfold sim_post. cbn [mmap map map_path].
  pose proof (proj1 (rep_unfold _ _ _ _) Hrep i Hi) as He.
  destruct (child ch (Z.to_nat i)) as [|w0|f fl sub] eqn:Hc.
  - (* free slot: write the leaf *)
    cbn [rep_entry] in He. rewrite He. cbn [Z.eqb negb].
    eexists _, _. split; [reflexivity|].
    exists (set_child ch (Z.to_nat i) (Leaf w)), (aor_of s), (TOk [0; page]).
    destruct (same_alloc_va s (wr s (t + 8 * i) w) (same_alloc_wr _ _ _)) as [Hva Haor].
    destruct (frames_of_set_child ch (Z.to_nat i) (Leaf w)) as (pre & post & E1 & E2).
    rewrite Hc in E1. cbn [node_frames app] in E1, E2.
    assert (Efr : frames_of (set_child ch (Z.to_nat i) (Leaf w)) = frames_of ch) by (rewrite E1, E2; reflexivity).
    split; [reflexivity|]. split; [reflexivity|]. split; [exact Haor|]. split; [reflexivity|]. split; [reflexivity|].
    split.
    { apply (rep_update l s _ ch t i (Leaf w) Hi Hrep).
      - cbn [rep_entry]. rewrite rd_wr_same. split; [reflexivity|exact Hw].
      - intros j Hj Hji. destruct Ht as [Ht1 Ht2]. apply rd_wr_slot; lia.
      - intros j a Hj Hji Ha Hin. apply (rd_wr_outside s t); auto.
        + unfold in_frame. lia.
        + intros Hbad. apply (sibling_disjoint s t ch i j a Hsep ltac:(lia) Hin).
          exists t. split; [left; reflexivity|exact Hbad]. }
    split; [unfold sep; rewrite Efr, Hva; exact Hsep|].
    split; [rewrite Efr, Hva; reflexivity|].
    intros a Ha Hout. apply (rd_wr_outside s t); auto.
    + unfold in_frame. lia.
    + intros Hbad. apply Hout. exists t. split; [left; reflexivity|exact Hbad].
  - (* occupied by a leaf *)
    assert (Hnz : rd s (t + 8 * i) <> 0) by (apply (entry_nonzero l s _ _ He); discriminate).
    apply Z.eqb_neq in Hnz. rewrite Hnz. cbn [negb].
    eexists _, _. split; [reflexivity|].
    exists ch, (aor_of s), (TErr [E_ALREADY_MAPPED; frame]).
    repeat (split; [reflexivity|]). split; [exact Hrep|]. split; [exact Hsep|]. split; [reflexivity|].
    intros; reflexivity.
  - assert (Hnz : rd s (t + 8 * i) <> 0) by (apply (entry_nonzero l s _ _ He); discriminate).
    apply Z.eqb_neq in Hnz. rewrite Hnz. cbn [negb].
    eexists _, _. split; [reflexivity|].
    exists ch, (aor_of s), (TErr [E_ALREADY_MAPPED; frame]).
    repeat (split; [reflexivity|]). split; [exact Hrep|]. split; [exact Hsep|]. split; [reflexivity|].
    intros; reflexivity.
Qed.

Lemma frames_of_empty_children : frames_of empty_children = [].
Proof.
  unfold frames_of, empty_children. generalize 512%nat. intros n. induction n as [|n IH]; [reflexivity|]. cbn. exact IH.
Qed.

Lemma sep_perm s s' t ch ch' :
  sep s t ch -> Permutation (frames_of ch' ++ va s') (frames_of ch ++ va s) -> sep s' t ch'.
Proof.
  intros [Hn HF] P. split.
  - apply Permutation_NoDup with (l := t :: frames_of ch ++ va s); [|exact Hn].
    apply perm_skip. symmetry. exact P.
  - refine (Permutation_Forall _ HF).
    apply perm_skip. symmetry. exact P.
Qed.

(* a fresh table is linked at slot i and the rest of the path is mapped inside it *)
Lemma sim_new_table rc l' s s1 t ch i i2 rest f w frame page pf s' o :
  0 <= i < 512 -> rep (S (S l')) s ch t -> tframe t -> sep s t ch -> pflags_ok pf ->
  child ch (Z.to_nat i) = Empty -> allocate s = (Some f, s1) ->
  sim_post rc l' (zero_table (wr s1 (t + 8 * i) (Z.lor f (new_parent_flags rc pf))) f) f empty_children (i2 :: rest) w frame page pf s' o ->
  sim_post rc (S l') s t ch (i :: i2 :: rest) w frame page pf s' o.
Proof.
  intros Hi Hrep Ht Hsep Hpf Hc Hal (ch2 & a' & r & Hmp & Ho & Haor & Hroot & Hfreed & Hrep2 & Hsep2 & Hperm2 & Hfr2).
  set (slot := t + 8 * i) in *. set (s2 := wr s1 slot (Z.lor f (new_parent_flags rc pf))) in *. set (s3 := zero_table s2 f) in *.
  pose proof (allocate_spec s) as (Ha & Hm1 & Hr1 & Hf1). rewrite Hal in Ha, Hm1, Hr1, Hf1. cbn [snd] in *.
  destruct Ha as [Hva Hta].
  assert (Hsa3 : same_alloc s1 s3).
  { apply (same_alloc_trans s1 s2 s3); [apply same_alloc_wr|apply same_alloc_zero_from]. }
  destruct (same_alloc_va _ _ Hsa3) as [Hva3 Haor3].
  assert (Hfin : In f (t :: frames_of ch ++ va s)) by (right; apply in_or_app; right; rewrite Hva; left; reflexivity).
  assert (Hft : tframe f) by (destruct Hsep as [_ HF]; rewrite Forall_forall in HF; apply HF; exact Hfin).
  assert (Hne : t <> f).
  { intros <-. destruct Hsep as [Hn _]. inversion Hn as [|? ? Hnin _]; subst. apply Hnin.
    apply in_or_app. right. rewrite Hva. left. reflexivity. }
  (* memory facts *)
  assert (M3 : forall a, 0 <= a -> ~ in_frame t a -> ~ in_frame f a -> rd s3 a = rd s a).
  { intros a Ha Hnt Hnf. unfold s3. rewrite zero_table_elsewhere; try (destruct Hft; lia); try assumption.
    - unfold s2. rewrite (rd_wr_outside s1 t); auto; [apply rd_pmem; exact Hm1|].
      unfold slot, in_frame. destruct Ht. lia.
    - unfold in_frame in Hnf. lia. }
  assert (Mslot : forall j, 0 <= j < 512 -> rd s3 (t + 8 * j) = if j =? i then Z.lor f (new_parent_flags rc pf) else rd s (t + 8 * j)).
  { intros j Hj. unfold s3. rewrite zero_table_elsewhere; try (destruct Hft; lia); [| destruct Ht; lia |].
    - unfold s2, slot. destruct (Z.eqb_spec j i) as [->|Hji].
      + apply rd_wr_same.
      + destruct Ht as [Ht1 Ht2]. rewrite rd_wr_slot by lia. apply rd_pmem. exact Hm1.
    - destruct (Z_lt_le_dec (t + 8 * j) f); [left; assumption|right].
      destruct (Z_lt_le_dec (t + 8 * j) (f + 4096)); [|assumption]. exfalso. apply Hne.
      apply (frames_disjoint t f (t + 8 * j) Ht Hft); unfold in_frame; destruct Ht; lia. }
  assert (Hout2 : forall a, in_frame t a -> ~ in_frames (f :: frames_of empty_children ++ va s3) a).
  { intros a Hina (g & Hg & Hga). rewrite frames_of_empty_children in Hg. cbn [app] in Hg.
    assert (Hgin : In g (t :: frames_of ch ++ va s)).
    { right. apply in_or_app. right. rewrite Hva. destruct Hg as [<-|Hg]; [left; reflexivity|right].
      rewrite Hva3 in Hg. exact Hg. }
    destruct Hsep as [Hn HF]. rewrite Forall_forall in HF.
    assert (t = g).
    { apply (frames_disjoint t g a); [exact Ht|apply HF; exact Hgin|exact Hina|exact Hga]. }
    subst g. inversion Hn as [|? ? Hnin _]; subst. apply Hnin. destruct Hgin as [Heq|Hin]; [|exact Hin].
    exfalso. clear -Hg Hne Hva Hva3 Hnin. destruct Hg as [Hg|Hg]; [congruence|].
    apply Hnin. apply in_or_app. right. rewrite Hva. right. rewrite <- Hva3. exact Hg. }
  (* the tree side *)
  exists (set_child ch (Z.to_nat i) (Tab f (new_parent_flags rc pf) ch2)), a', r.
  split.
  { cbn [map]. rewrite map_path_step, Hc, Hta.
    change (Z.to_nat i2 :: map Z.to_nat rest) with (map Z.to_nat (i2 :: rest)).
    rewrite <- Haor3. rewrite Hmp. reflexivity. }
  split; [exact Ho|]. split; [exact Haor|].
  split; [rewrite Hroot; destruct Hsa3 as (_ & _ & _ & Hr3); rewrite Hr3; exact Hr1|].
  split; [rewrite Hfreed; destruct Hsa3 as (_ & _ & Hf3 & _); rewrite Hf3; exact Hf1|].
  (* frames *)
  destruct (frames_of_set_child ch (Z.to_nat i) (Tab f (new_parent_flags rc pf) ch2)) as (pre & post & E1 & E2).
  rewrite Hc in E1. cbn [node_frames app] in E1, E2. fold (frames_of ch2) in E2.
  assert (Pall : Permutation (frames_of (set_child ch (Z.to_nat i) (Tab f (new_parent_flags rc pf) ch2)) ++ va s') (frames_of ch ++ va s)).
  { rewrite E1, E2, Hva. rewrite frames_of_empty_children in Hperm2. cbn [app] in Hperm2.
    rewrite Hva3 in Hperm2.
    rewrite <- !app_assoc. apply Permutation_app_head. cbn [app].
    apply Permutation_trans with (f :: post ++ va s1); [|apply Permutation_middle].
    apply perm_skip.
    apply Permutation_trans with (post ++ frames_of ch2 ++ va s').
    { rewrite !app_assoc. apply Permutation_app_tail. apply Permutation_app_comm. }
    apply Permutation_app_head. exact Hperm2. }
  split.
  { apply (rep_update (S l') s s' ch t i (Tab f (new_parent_flags rc pf) ch2) Hi Hrep).
    - cbn [rep_entry].
      rewrite Hfr2; [|destruct Ht; lia|apply Hout2; unfold in_frame; destruct Ht; lia].
      rewrite Mslot by exact Hi. rewrite Z.eqb_refl.
      split; [reflexivity|]. split; [exact Hft|]. split; [apply pflags_ok_new_parent; exact Hpf|exact Hrep2].
    - intros j Hj Hji.
      rewrite Hfr2; [|destruct Ht; lia|apply Hout2; unfold in_frame; destruct Ht; lia].
      rewrite Mslot by exact Hj. destruct (Z.eqb_spec j i); [contradiction|reflexivity].
    - intros j a Hj Hji Ha Hin.
      pose proof (sibling_disjoint s t ch i j a Hsep ltac:(lia) Hin) as Hd.
      rewrite Hc in Hd. cbn [node_frames app] in Hd.
      assert (Hnt : ~ in_frame t a) by (intros Hb; apply Hd; exists t; split; [left; reflexivity|exact Hb]).
      assert (Hnf : ~ in_frame f a).
      { intros Hb. apply Hd. exists f. split; [right; rewrite Hva; left; reflexivity|exact Hb]. }
      rewrite Hfr2; [apply M3; assumption|exact Ha|].
      intros (g & Hg & Hga). rewrite frames_of_empty_children in Hg. cbn [app] in Hg.
      destruct Hg as [<-|Hg]; [exact (Hnf Hga)|].
      apply Hd. exists g. split; [right; rewrite Hva; right; rewrite <- Hva3; exact Hg|exact Hga]. }
  split; [apply (sep_perm s s' t ch _ Hsep Pall)|].
  split; [exact Pall|].
  intros a Ha Hout.
  assert (Hnt : ~ in_frame t a) by (intros Hb; apply Hout; exists t; split; [left; reflexivity|exact Hb]).
  assert (Hnf : ~ in_frame f a) by (intros Hb; apply Hout; exists f; split; [exact Hfin|exact Hb]).
  rewrite Hfr2; [apply M3; assumption|exact Ha|].
  intros (g & Hg & Hga). rewrite frames_of_empty_children in Hg. cbn [app] in Hg.
  destruct Hg as [<-|Hg]; [exact (Hnf Hga)|].
  apply Hout. exists g. split; [right; apply in_or_app; right; rewrite Hva; right; rewrite <- Hva3; exact Hg|exact Hga].
Qed.

(* the table at slot i exists: its flags are widened and the rest of the path is mapped inside it *)
Lemma sim_existing_table rc l' s t ch i i2 rest f fl sub w frame page pf s' o :
  0 <= i < 512 -> rep (S (S l')) s ch t -> tframe t -> sep s t ch -> pflags_ok pf ->
  child ch (Z.to_nat i) = Tab f fl sub ->
  sim_post rc l' (if (negb (pf =? 0) && negb (has fl pf))%bool then wr s (t + 8 * i) (Z.lor f (Z.lor fl pf)) else s)
           f sub (i2 :: rest) w frame page pf s' o ->
  sim_post rc (S l') s t ch (i :: i2 :: rest) w frame page pf s' o.
Proof.
  intros Hi Hrep Ht Hsep Hpf Hc (ch2 & a' & r & Hmp & Ho & Haor & Hroot & Hfreed & Hrep2 & Hsep2 & Hperm2 & Hfr2).
  set (slot := t + 8 * i) in *.
  set (s1 := if (negb (pf =? 0) && negb (has fl pf))%bool then wr s slot (Z.lor f (Z.lor fl pf)) else s) in *.
  pose proof (proj1 (rep_unfold _ _ _ _) Hrep i Hi) as He. rewrite Hc in He. cbn [rep_entry] in He.
  destruct He as (He & Hft & Hfl & Hrsub).
  assert (Hsa : same_alloc s s1).
  { unfold s1. destruct (negb (pf =? 0) && negb (has fl pf))%bool; [apply same_alloc_wr|apply same_alloc_refl]. }
  destruct (same_alloc_va _ _ Hsa) as [Hva1 Haor1].
  assert (M1 : forall a, 0 <= a -> ~ in_frame t a -> rd s1 a = rd s a).
  { intros a Ha Hnt. unfold s1. destruct (negb (pf =? 0) && negb (has fl pf))%bool; [|reflexivity].
    apply (rd_wr_outside s t); auto. unfold slot, in_frame. destruct Ht. lia. }
  assert (Mslot : forall j, 0 <= j < 512 -> rd s1 (t + 8 * j) = if j =? i then Z.lor f (widen fl pf) else rd s (t + 8 * j)).
  { intros j Hj. unfold s1, widen. destruct (negb (pf =? 0) && negb (has fl pf))%bool.
    - unfold slot. destruct (Z.eqb_spec j i) as [->|Hji]; [apply rd_wr_same|].
      destruct Ht as [Ht1 Ht2]. apply rd_wr_slot; lia.
    - destruct (Z.eqb_spec j i) as [->|Hji]; [exact He|reflexivity]. }
  destruct (frames_of_set_child ch (Z.to_nat i) (Tab f (widen fl pf) ch2)) as (pre & post & E1 & E2).
  rewrite Hc in E1. cbn [node_frames] in E1, E2. fold (frames_of sub) in E1. fold (frames_of ch2) in E2.
  (* the table's own frame is not among the frames of the subtree or the allocator *)
  assert (Hout2 : forall a, in_frame t a -> ~ in_frames (f :: frames_of sub ++ va s1) a).
  { intros a Hina (g & Hg & Hga).
    assert (Hgin : In g (frames_of ch ++ va s)).
    { rewrite E1. rewrite Hva1 in Hg. destruct Hg as [<-|Hg].
      - apply in_or_app. left. apply in_or_app. right. left. reflexivity.
      - apply in_app_or in Hg. destruct Hg as [Hg|Hg].
        + apply in_or_app. left. apply in_or_app. right. right. apply in_or_app. left. exact Hg.
        + apply in_or_app. right. exact Hg. }
    destruct Hsep as [Hn HF]. rewrite Forall_forall in HF.
    assert (t = g).
    { apply (frames_disjoint t g a); [exact Ht|apply HF; right; exact Hgin|exact Hina|exact Hga]. }
    subst g. inversion Hn as [|? ? Hnin _]; subst. exact (Hnin Hgin). }
  exists (set_child ch (Z.to_nat i) (Tab f (widen fl pf) ch2)), a', r.
  split.
  { cbn [map]. rewrite map_path_step, Hc.
    change (Z.to_nat i2 :: map Z.to_nat rest) with (map Z.to_nat (i2 :: rest)).
    rewrite <- Haor1. rewrite Hmp. reflexivity. }
  split; [exact Ho|]. split; [exact Haor|].
  split; [rewrite Hroot; apply Hsa|]. split; [rewrite Hfreed; apply Hsa|].
  assert (Pall : Permutation (frames_of (set_child ch (Z.to_nat i) (Tab f (widen fl pf) ch2)) ++ va s') (frames_of ch ++ va s)).
  { rewrite E1, E2. rewrite Hva1 in Hperm2. rewrite <- !app_assoc. apply Permutation_app_head. cbn [app].
    apply perm_skip.
    apply Permutation_trans with (post ++ frames_of ch2 ++ va s').
    { rewrite !app_assoc. apply Permutation_app_tail. apply Permutation_app_comm. }
    apply Permutation_trans with (post ++ frames_of sub ++ va s); [apply Permutation_app_head; exact Hperm2|].
    rewrite !app_assoc. apply Permutation_app_tail. apply Permutation_app_comm. }
  split.
  { apply (rep_update (S l') s s' ch t i _ Hi Hrep).
    - cbn [rep_entry].
      rewrite Hfr2; [|destruct Ht; lia|apply Hout2; unfold in_frame; destruct Ht; lia].
      rewrite Mslot by exact Hi. rewrite Z.eqb_refl.
      split; [reflexivity|]. split; [exact Hft|]. split; [apply pflags_ok_widen; assumption|exact Hrep2].
    - intros j Hj Hji.
      rewrite Hfr2; [|destruct Ht; lia|apply Hout2; unfold in_frame; destruct Ht; lia].
      rewrite Mslot by exact Hj. destruct (Z.eqb_spec j i); [contradiction|reflexivity].
    - intros j a Hj Hji Ha Hin.
      pose proof (sibling_disjoint s t ch i j a Hsep ltac:(lia) Hin) as Hd.
      rewrite Hc in Hd. cbn [node_frames] in Hd. fold (frames_of sub) in Hd.
      assert (Hnt : ~ in_frame t a) by (intros Hb; apply Hd; exists t; split; [left; reflexivity|exact Hb]).
      rewrite Hfr2; [apply M1; assumption|exact Ha|].
      intros (g & Hg & Hga). apply Hd. exists g. split; [|exact Hga].
      right. rewrite Hva1 in Hg. cbn [app]. exact Hg. }
  split; [apply (sep_perm s s' t ch _ Hsep Pall)|].
  split; [exact Pall|].
  intros a Ha Hout.
  assert (Hnt : ~ in_frame t a) by (intros Hb; apply Hout; exists t; split; [left; reflexivity|exact Hb]).
  rewrite Hfr2; [apply M1; assumption|exact Ha|].
  intros (g & Hg & Hga). apply Hout. exists g. split; [|exact Hga]. right.
  rewrite E1. rewrite Hva1 in Hg. destruct Hg as [<-|Hg].
  - apply in_or_app. left. apply in_or_app. right. left. reflexivity.
  - apply in_app_or in Hg. destruct Hg as [Hg|Hg].
    + apply in_or_app. left. apply in_or_app. right. right. apply in_or_app. left. exact Hg.
    + apply in_or_app. right. exact Hg.
Qed.

Lemma nodup_app_l {A} (l1 l2 : list A) : NoDup (l1 ++ l2) -> NoDup l1.
Proof.
  induction l1 as [|x t IH]; intros H; [constructor|]. cbn in H. inversion H as [|? ? Hnin Hn]; subst.
  constructor; [intros Hin; apply Hnin; apply in_or_app; left; exact Hin|apply IH; exact Hn].
Qed.
Lemma nodup_app_r {A} (l1 l2 : list A) : NoDup (l1 ++ l2) -> NoDup l2.
Proof. induction l1 as [|x t IH]; intros H; [exact H|]. cbn in H. inversion H; subst. apply IH. assumption. Qed.

Lemma sep_sub s s1 t ch i f fl sub :
  sep s t ch -> child ch (Z.to_nat i) = Tab f fl sub -> va s1 = va s -> sep s1 f sub.
Proof.
  intros [Hn HF] Hc Hva.
  destruct (frames_of_split ch (Z.to_nat i)) as (pre & post & E & _). rewrite Hc in E.
  cbn [node_frames] in E. fold (frames_of sub) in E.
  assert (P : Permutation (t :: frames_of ch ++ va s) ((f :: frames_of sub ++ va s1) ++ (t :: pre ++ post))).
  { rewrite E, Hva.
    apply Permutation_trans with (t :: (f :: frames_of sub ++ va s) ++ pre ++ post); [|apply Permutation_middle].
    apply perm_skip.
    change (f :: frames_of sub ++ va s) with ((f :: frames_of sub) ++ va s).
    rewrite <- !app_assoc.
    apply Permutation_trans with ((f :: frames_of sub) ++ pre ++ post ++ va s); [apply Permutation_app_swap_app|].
    apply Permutation_app_head. rewrite app_assoc. apply Permutation_app_comm. }
  split.
  - apply (nodup_app_l _ _ (Permutation_NoDup P Hn)).
  - pose proof (Permutation_Forall P HF) as HF'. apply Forall_app in HF'. apply HF'.
Qed.

Theorem mmap_sim rc idxs : forall l s t ch w frame page pf,
  idxs <> [] -> (length idxs <= S l)%nat -> Forall (fun i => 0 <= i < 512) idxs ->
  rep (S l) s ch t -> tframe t -> sep s t ch -> pflags_ok pf ->
  leaf_ok (S l - (length idxs - 1)) w ->
  exists s' o, mmap rc s t idxs w frame page pf = Ok (s', o) /\ sim_post rc l s t ch idxs w frame page pf s' o.
Proof.
  induction idxs as [|i rest IH]; intros l s t ch w frame page pf Hne Hlen Hidx Hrep Ht Hsep Hpf Hw; [contradiction|].
  inversion Hidx as [|? ? Hi Hrest]; subst.
  destruct rest as [|i2 rest].
  - cbn [length Nat.sub] in Hw. replace (S l - 0)%nat with (S l) in Hw by lia.
    apply mmap_final; assumption.
  - destruct l as [|l']; [cbn [length] in Hlen; lia|].
    assert (Hlen' : (length (i2 :: rest) <= S l')%nat) by (cbn [length] in *; lia).
    assert (Hw' : leaf_ok (S l' - (length (i2 :: rest) - 1)) w).
    { replace (S l' - (length (i2 :: rest) - 1))%nat with (S (S l') - (length (i :: i2 :: rest) - 1))%nat
        by (cbn [length]; lia). exact Hw. }
    pose proof (create_step l' s t ch i (new_parent_flags rc pf) pf Hrep Ht Hsep Hi (pflags_ok_new_parent rc pf Hpf) Hpf) as Hcs.
    change (mmap rc s t (i :: i2 :: rest) w frame page pf) with
      (do r <- create_next_table_g s (t + 8 * i) (new_parent_flags rc pf) pf;
       match snd r with
       | CTable t' => mmap rc (fst r) t' (i2 :: rest) w frame page pf
       | c => Ok (fst r, cerr c)
       end).
    destruct (child ch (Z.to_nat i)) as [|w0|f fl sub] eqn:Hc.
    + (* no table yet *)
      pose proof (allocate_spec s) as (Ha & Hm1 & Hr1 & Hf1).
      destruct (allocate s) as [[f|] s1] eqn:Hal; cbn [snd] in *.
      * rewrite Hcs. cbn [bind fst snd].
        destruct Ha as [Hva Hta].
        set (s3 := zero_table (wr s1 (t + 8 * i) (Z.lor f (new_parent_flags rc pf))) f).
        assert (Hsa3 : same_alloc s1 s3).
        { apply (same_alloc_trans s1 (wr s1 (t + 8 * i) (Z.lor f (new_parent_flags rc pf))) s3); [apply same_alloc_wr|apply same_alloc_zero_from]. }
        destruct (same_alloc_va _ _ Hsa3) as [Hva3 _].
        assert (Hft : tframe f).
        { destruct Hsep as [_ HF]. rewrite Forall_forall in HF. apply HF. right. apply in_or_app. right.
          rewrite Hva. left. reflexivity. }
        destruct (IH l' s3 f empty_children w frame page pf ltac:(discriminate) Hlen' Hrest) as (s' & o & Hm & Hpost).
        -- apply rep_unfold. intros j Hj. rewrite child_empty_children. cbn [rep_entry].
           unfold s3. apply zero_table_zeroed; destruct Hft; lia.
        -- exact Hft.
        -- unfold sep. rewrite frames_of_empty_children, Hva3. cbn [app].
           destruct Hsep as [Hn HF]. rewrite Hva in Hn, HF. split.
           ++ apply NoDup_cons_iff in Hn. destruct Hn as [_ Hn]. apply nodup_app_r in Hn. exact Hn.
           ++ apply Forall_cons_iff in HF. destruct HF as [_ HF]. apply Forall_app in HF. apply HF.
        -- exact Hpf.
        -- exact Hw'.
        -- exists s', o. split; [exact Hm|].
           apply (sim_new_table rc l' s s1 t ch i i2 rest f w frame page pf s' o); assumption.
      * rewrite Hcs. cbn [bind fst snd cerr].
        destruct Ha as [Hva Hta].
        eexists _, _. split; [reflexivity|].
        exists ch, (aor_of s1), (TErr [E_ALLOC_FAILED]).
        split; [cbn [map]; rewrite map_path_step, Hc, Hta; reflexivity|].
        split; [reflexivity|]. split; [reflexivity|]. split; [exact Hr1|]. split; [exact Hf1|].
        split; [apply (rep_frame (S (S l')) s s1 ch t); [intros; apply rd_pmem; exact Hm1|destruct Ht; lia|exact Hrep]|].
        split; [unfold sep; rewrite Hva; exact Hsep|]. split; [rewrite Hva; reflexivity|].
        intros; apply rd_pmem; exact Hm1.
    + (* a huge page is mapped above *)
      rewrite Hcs. cbn [bind fst snd cerr].
      eexists _, _. split; [reflexivity|].
      exists ch, (aor_of s), (TErr [E_PARENT_HUGE]).
      split; [cbn [map]; rewrite map_path_step, Hc; reflexivity|].
      repeat (split; [reflexivity|]). split; [exact Hrep|]. split; [exact Hsep|]. split; [reflexivity|].
      intros; reflexivity.
    + (* the table exists *)
      rewrite Hcs. cbn [bind fst snd].
      set (s1 := if (negb (pf =? 0) && negb (has fl pf))%bool then wr s (t + 8 * i) (Z.lor f (Z.lor fl pf)) else s).
      pose proof (proj1 (rep_unfold _ _ _ _) Hrep i Hi) as He. rewrite Hc in He. cbn [rep_entry] in He.
      destruct He as (He & Hft & Hfl & Hrsub).
      assert (Hsa : same_alloc s s1).
      { unfold s1. destruct (negb (pf =? 0) && negb (has fl pf))%bool; [apply same_alloc_wr|apply same_alloc_refl]. }
      destruct (same_alloc_va _ _ Hsa) as [Hva1 _].
      assert (Hsep1 : sep s1 f sub) by (apply (sep_sub s s1 t ch i f fl sub Hsep Hc Hva1)).
      destruct (IH l' s1 f sub w frame page pf ltac:(discriminate) Hlen' Hrest) as (s' & o & Hm & Hpost).
      * apply (rep_frame (S l') s s1 sub f); [|destruct Hft; lia|exact Hrsub].
        intros a Ha Hin. unfold s1. destruct (negb (pf =? 0) && negb (has fl pf))%bool; [|reflexivity].
        apply (rd_wr_outside s t); auto; [unfold in_frame; destruct Ht; lia|].
        intros Hta.
        (* an address of the subtree is not in the parent's frame *)
        destruct Hin as (g & Hg & Hga).
        assert (Hgin : In g (frames_of ch)).
        { destruct (frames_of_child _ _ _ _ _ Hc) as [H1 H2]. destruct Hg as [<-|Hg]; [exact H1|apply H2; exact Hg]. }
        destruct Hsep as [Hn HF]. rewrite Forall_forall in HF.
        assert (t = g).
        { apply (frames_disjoint t g a); [exact Ht|apply HF; right; apply in_or_app; left; exact Hgin|exact Hta|exact Hga]. }
        subst g. inversion Hn as [|? ? Hnin _]; subst. apply Hnin. apply in_or_app. left. exact Hgin.
      * exact Hft.
      * exact Hsep1.
      * exact Hpf.
      * exact Hw'.
      * exists s', o. split; [exact Hm|].
        apply (sim_existing_table rc l' s t ch i i2 rest f fl sub w frame page pf s' o); assumption.
Qed.

(* ---------- map_to of the memory model refines map_path of the tree ---------- *)
Lemma zidx_ranges k page : Forall (fun i => 0 <= i < 512) (zidx_list k page).
Proof.
  destruct (index_ranges page) as (H1 & H2 & H3 & H4 & _). unfold zidx_list.
  destruct (k =? 2); [|destruct (k =? 1)]; repeat constructor; lia.
Qed.
Lemma zidx_length k page : 0 <= k <= 2 -> length (zidx_list k page) = Z.to_nat (4 - k).
Proof.
  intros Hk. unfold zidx_list. destruct (Z.eqb_spec k 2) as [->|]; [reflexivity|].
  destruct (Z.eqb_spec k 1) as [->|]; [reflexivity|]. assert (k = 0) by lia. subst. reflexivity.
Qed.

(* map_to with the parent-entry creation flags of either mapper kind (rc = true: the recursive
   mapper's PRESENT | WRITABLE | parent flags) *)
Definition map_to_rc (rc : bool) (s : pstate) (k page frame flags pf : Z) : res (pstate * out) :=
  mmap rc s (root s) (zidx_list k page) (leaf_word k frame flags) frame page pf.

Theorem map_to_rc_refines rc s ch k page frame flags pf :
  0 <= k <= 2 ->
  rep 4 s ch (root s) -> tframe (root s) -> sep s (root s) ch -> pflags_ok pf ->
  leaf_ok (Z.to_nat (k + 1)) (leaf_word k frame flags) ->
  exists s' o ch' a' r,
    map_to_rc rc s k page frame flags pf = Ok (s', o) /\
    map_path rc ch (idx_list k page) (leaf_word k frame flags) frame page pf (aor_of s) = (ch', a', r) /\
    o = out_of r /\ aor_of s' = a' /\ root s' = root s /\ freed s' = freed s /\
    rep 4 s' ch' (root s') /\ sep s' (root s') ch' /\
    (forall a, 0 <= a -> ~ in_frames (root s :: frames_of ch ++ va s) a -> rd s' a = rd s a).
Proof.
  intros Hk Hrep Ht Hsep Hpf Hw.
  unfold map_to_rc. rewrite idx_list_zidx.
  assert (Hne : zidx_list k page <> []).
  { unfold zidx_list. destruct (k =? 2); [discriminate|]. destruct (k =? 1); discriminate. }
  destruct (mmap_sim rc (zidx_list k page) 3 s (root s) ch (leaf_word k frame flags) frame page pf Hne)
    as (s' & o & Hm & (ch' & a' & r & Hmp & Ho & Haor & Hroot & Hfreed & Hrep' & Hsep' & _ & Hfr)).
  - rewrite zidx_length by exact Hk. lia.
  - apply zidx_ranges.
  - exact Hrep.
  - exact Ht.
  - exact Hsep.
  - exact Hpf.
  - rewrite zidx_length by exact Hk.
    replace (4 - (Z.to_nat (4 - k) - 1))%nat with (Z.to_nat (k + 1)) by lia. exact Hw.
  - exists s', o, ch', a', r. rewrite Hroot.
    split; [exact Hm|]. split; [exact Hmp|]. split; [exact Ho|]. split; [exact Haor|].
    split; [reflexivity|]. split; [exact Hfreed|]. split; [exact Hrep'|]. split; [exact Hsep'|]. exact Hfr.
Qed.

Theorem map_to_refines s ch k page frame flags pf :
  0 <= k <= 2 ->
  rep 4 s ch (root s) -> tframe (root s) -> sep s (root s) ch -> pflags_ok pf ->
  leaf_ok (Z.to_nat (k + 1)) (leaf_word k frame flags) ->
  exists s' o ch' a' r,
    map_to s k page frame flags pf = Ok (s', o) /\
    map_path false ch (idx_list k page) (leaf_word k frame flags) frame page pf (aor_of s) = (ch', a', r) /\
    o = out_of r /\ aor_of s' = a' /\ root s' = root s /\ freed s' = freed s /\
    rep 4 s' ch' (root s') /\ sep s' (root s') ch' /\
    (forall a, 0 <= a -> ~ in_frames (root s :: frames_of ch ++ va s) a -> rd s' a = rd s a).
Proof.
  intros Hk. rewrite map_to_mmap by exact Hk. apply (map_to_rc_refines false s ch k page frame flags pf Hk).
Qed.

(* the empty level-4 table *)
Lemma rep_init rootf allocs r : 0 <= rootf -> rootf mod 4096 = 0 ->
  rep 4 (init_pstate rootf allocs r) empty_children rootf.
Proof.
  intros Hr Ha. apply rep_unfold. intros j Hj. rewrite child_empty_children. cbn [rep_entry].
  unfold init_pstate. apply zero_table_zeroed; assumption.
Qed.
