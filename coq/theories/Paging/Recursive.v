(* Model of RecursivePageTable (src/structures/paging/mapper/recursive_page_table.rs after the
   fix: commits F4, F5, F6, F10).  The level-4 table is accessed through its reference (the
   physical root in the model); every lower table is accessed through the virtual page
   p{3,2,1}_page(page, r), which the model resolves with the independent hardware-style walk
   of Paging/Mem.v - exactly what the software MMU of the harness does. *)
From X86 Require Export Paging.Mapped.
Open Scope Z_scope.

Definition p3_page (page r : Z) : res Z := from_indices_4k r r r (p4_index page).
Definition p2_page (page r : Z) : res Z := from_indices_4k r r (p4_index page) (p3_index page).
Definition p1_page (page r : Z) : res Z := from_indices_4k r (p4_index page) (p3_index page) (p2_index page).

(* dereferencing a table page: the physical frame the MMU reaches *)
Definition deref (s : pstate) (vpage : Z) : option Z :=
  match hw_walk s vpage with Some w => Some (w_phys w) | None => None end.

Inductive rres (A : Type) := RVal (a : A) | RErr (s : pstate) (o : out) | RPanic.
Arguments RVal {A} a. Arguments RErr {A} s o. Arguments RPanic {A}.
Definition rb {A B} (r : rres A) (f : A -> rres B) : rres B :=
  match r with RVal a => f a | RErr s o => RErr s o | RPanic => RPanic end.
Notation "'rdo' x <- r ; k" := (rb r (fun x => k)) (at level 200, x name, r at level 100, k at level 200).
Definition rlift {A} (r : res A) : rres A := match r with Ok a => RVal a | Panic => RPanic end.
(* table reference through a recursive address *)
Definition table_at (s : pstate) (vpage : res Z) : rres Z :=
  rdo v <- rlift vpage;
  match deref s v with Some t => RVal t | None => RErr (set_fault s) [FAULT] end.

(* create_next_table::inner *)
Definition rcreate (s : pstate) (slot : Z) (next_table_page : res Z) (insert_flags : Z)
  : rres (pstate * Z) :=
  let e := rd s slot in
  rdo sc <-
    (if e =? 0 then
       match allocate s with
       | (Some f, s1) =>
           if negb (f mod 4096 =? 0) then RPanic
           else RVal (wr s1 slot (Z.lor f (Z.lor (Z.lor PTF_PRESENT PTF_WRITABLE) insert_flags)), true)
       | (None, s1) => RErr s1 [E_ALLOC_FAILED]
       end
     else if e_huge e then RErr s [E_PARENT_HUGE]
     else RVal ((if negb (insert_flags =? 0) && negb (has (e_flags e) insert_flags)
                 then wr s slot (e_set_flags e (Z.lor (e_flags e) insert_flags)) else s), false));
  let '(s1, was_created) := sc in
  if e_huge (rd s1 slot) then RErr s1 [E_PARENT_HUGE] else
  rdo t <- table_at s1 next_table_page;
  RVal ((if was_created then zero_table s1 t else s1), t).

Definition rfin (r : rres (pstate * out)) (s0 : pstate) : res (pstate * out) :=
  match r with RVal so => Ok so | RErr s o => Ok (s, o) | RPanic => Panic end.

Definition rmap_to (s : pstate) (k page frame flags pflags : Z) : res (pstate * out) :=
  let r := rec_index s in
  rfin (
    rdo c3 <- rcreate s (slot4 s page) (p3_page page r) pflags;
    let '(s, t3) := c3 in
    if k =? 2 then
      if negb (rd s (slot3 t3 page) =? 0) then RErr s [E_ALREADY_MAPPED; frame]
      else RVal (wr s (slot3 t3 page) (Z.lor frame (Z.lor flags PTF_HUGE)), [0; page])
    else
    rdo c2 <- rcreate s (slot3 t3 page) (p2_page page r) pflags;
    let '(s, t2) := c2 in
    if k =? 1 then
      if negb (rd s (slot2 t2 page) =? 0) then RErr s [E_ALREADY_MAPPED; frame]
      else RVal (wr s (slot2 t2 page) (Z.lor frame (Z.lor flags PTF_HUGE)), [0; page])
    else
    rdo c1 <- rcreate s (slot2 t2 page) (p1_page page r) pflags;
    let '(s, t1) := c1 in
    if negb (rd s (slot1 t1 page) =? 0) then RErr s [E_ALREADY_MAPPED; frame]
    else RVal (wr s (slot1 t1 page) (Z.lor frame flags), [0; page])) s.

(* the two styles of parent checks in this file:
   unmap:   huge -> ParentEntryHugePage, then frame() present else PageNotMapped
   others:  is_unused -> PageNotMapped, then (below level 4) huge -> ParentEntryHugePage *)
Definition chk_unmap (s : pstate) (e : Z) : rres unit :=
  if e_huge e then RErr s [E_PARENT_HUGE] else if e_present e then RVal tt else RErr s [E_NOT_MAPPED].
Definition chk_lax (s : pstate) (e : Z) (below4 : bool) : rres unit :=
  if e =? 0 then RErr s [E_NOT_MAPPED]
  else if below4 && e_huge e then RErr s [E_PARENT_HUGE] else RVal tt.

Definition runmap (s : pstate) (k page : Z) : res (pstate * out) :=
  let r := rec_index s in
  rfin (
    rdo _ <- chk_unmap s (rd s (slot4 s page));
    rdo t3 <- table_at s (p3_page page r);
    let finish slot :=
      let e := rd s slot in
      if negb (e_present e) then RErr s [E_NOT_MAPPED]
      else if negb (e_huge e) then RErr s [E_PARENT_HUGE]
      else if negb (e_addr e mod size_of_kind k =? 0) then RErr s [E_INVALID_FRAME; e_addr e]
      else RVal (wr s slot 0, [0; e_addr e; page]) in
    if k =? 2 then finish (slot3 t3 page) else
    rdo _ <- chk_unmap s (rd s (slot3 t3 page));
    rdo t2 <- table_at s (p2_page page r);
    if k =? 1 then finish (slot2 t2 page) else
    rdo _ <- chk_unmap s (rd s (slot2 t2 page));
    rdo t1 <- table_at s (p1_page page r);
    let e := rd s (slot1 t1 page) in
    if negb (e_present e) then RErr s [E_NOT_MAPPED]
    else RVal (wr s (slot1 t1 page) 0, [0; e_addr e; page])) s.

(* the slot of the entry at the level of size k, reached with the lax checks *)
Definition rdescend (s : pstate) (k page : Z) : rres Z :=
  let r := rec_index s in
  rdo _ <- chk_lax s (rd s (slot4 s page)) false;
  rdo t3 <- table_at s (p3_page page r);
  if k =? 2 then RVal (slot3 t3 page) else
  rdo _ <- chk_lax s (rd s (slot3 t3 page)) true;
  rdo t2 <- table_at s (p2_page page r);
  if k =? 1 then RVal (slot2 t2 page) else
  rdo _ <- chk_lax s (rd s (slot2 t2 page)) true;
  rdo t1 <- table_at s (p1_page page r);
  RVal (slot1 t1 page).

Definition rupdate_flags (s : pstate) (k page flags : Z) : res (pstate * out) :=
  rfin (
    rdo slot <- rdescend s k page;
    let e := rd s slot in
    if e =? 0 then RErr s [E_NOT_MAPPED]
    else if k =? 0 then RVal (wr s slot (e_set_flags e flags), [0; page])
    else if negb (e_huge e) then RErr s [E_PARENT_HUGE]
    else RVal (wr s slot (e_set_flags e (Z.lor flags PTF_HUGE)), [0; page])) s.

Definition rset_flags_parent (s : pstate) (k level page flags : Z) : res (pstate * out) :=
  if level =? 4 then
    let e := rd s (slot4 s page) in
    Ok (if e =? 0 then (s, [E_NOT_MAPPED]) else (wr s (slot4 s page) (e_set_flags e flags), [0]))
  else if (level =? 3) && (k =? 2) then Ok (s, [E_PARENT_HUGE])
  else if (level =? 2) && negb (k =? 0) then Ok (s, [E_PARENT_HUGE])
  else
    rfin (
      rdo slot <- rdescend s (if level =? 3 then 2 else 1) page;
      let e := rd s slot in
      if e =? 0 then RErr s [E_NOT_MAPPED]
      else if e_huge e then RErr s [E_PARENT_HUGE]
      else RVal (wr s slot (e_set_flags e flags), [0])) s.

Definition rtranslate_page (s : pstate) (k page : Z) : res (pstate * out) :=
  rfin (
    rdo slot <- rdescend s k page;
    let e := rd s slot in
    if e =? 0 then RErr s [E_NOT_MAPPED]
    else if negb (k =? 0) && negb (e_huge e) then RErr s [E_PARENT_HUGE]
    else if negb (e_addr e mod size_of_kind k =? 0) then RErr s [E_INVALID_FRAME; e_addr e]
    else RVal (s, [0; e_addr e])) s.

Definition rtranslate (s : pstate) (va : Z) : res (pstate * out) :=
  let r := rec_index s in
  rfin (
    rdo page <- rlift (page_containing S4K va);
    let e4 := rd s (slot4 s va) in
    if e4 =? 0 then RErr s [E_NOT_MAPPED] else
    if e_huge e4 then RPanic else
    rdo t3 <- table_at s (p3_page page r);
    let e3 := rd s (slot3 t3 va) in
    if e3 =? 0 then RErr s [E_NOT_MAPPED] else
    if e_huge e3 then
      rdo f <- rlift (frame_containing S1G (e_addr e3));
      RVal (s, [0; S1G; f; Z.land va 1073741823; e_flags e3])
    else
    rdo t2 <- table_at s (p2_page page r);
    let e2 := rd s (slot2 t2 va) in
    if e2 =? 0 then RErr s [E_NOT_MAPPED] else
    if e_huge e2 then
      rdo f <- rlift (frame_containing S2M (e_addr e2));
      RVal (s, [0; S2M; f; Z.land va 2097151; e_flags e2])
    else
    rdo t1 <- table_at s (p1_page page r);
    let e1 := rd s (slot1 t1 va) in
    if e1 =? 0 then RErr s [E_NOT_MAPPED]
    else RVal (s, [0; S4K; e_addr e1; page_offset va; e_flags e1])) s.

(* clean_up: like the mapped one, plus the level-4 filter on the recursive slot and the skip
   of huge entries; lower tables are reached through the recursive address of `start` *)
(* the loop of rclean_up, with the recursive call as a parameter *)
Definition rcu_loop (rec : pstate -> Z -> Z -> Z -> Z -> res (pstate * bool))
  (table level table_addr rs re e : Z) : nat -> Z -> pstate -> res pstate :=
  let offset_per_entry := entry_alignment level in
  fix loop (n : nat) (i : Z) (s : pstate) : res pstate :=
    match n with
    | O => Ok s
    | S n' =>
        if e <? i then Ok s else
        let slot := table + 8 * i in
        let en_ := rd s slot in
        if (level =? 4) && (i =? rec_index s) then loop n' (i + 1) s
        else if e_huge en_ then loop n' (i + 1) s
        else if negb (e_present en_) then loop n' (i + 1) s
        else
          let frame := e_addr en_ in
          do m <- mul64 true offset_per_entry i;
          do st <- forward_checked_u64 table_addr m;
          do st <- unwrap st;
          do en <- va_add st (offset_per_entry - 1);
          do sp <- page_containing S4K st;
          let sp := pmax sp rs in
          do ep <- page_containing S4K en;
          let ep := pmin ep re in
          let tp := if level =? 4 then p3_page sp (rec_index s)
                    else if level =? 3 then p2_page sp (rec_index s)
                    else p1_page sp (rec_index s) in
          do tpv <- tp;
          match deref s tpv with
          | None => Ok (set_fault s)
          | Some t =>
              do r <- rec s t (level - 1) sp ep;
              let '(s1, empty) := r in
              if empty then loop n' (i + 1) (deallocate (wr s1 slot 0) frame)
              else loop n' (i + 1) s1
          end
    end.

Fixpoint rclean_up (fuel : nat) (s : pstate) (table level rs re : Z) : res (pstate * bool) :=
  match fuel with
  | O => Panic
  | S fuel' =>
      if re <? rs then Ok (s, false) else
      do table_addr <- va_align_down rs (table_alignment level);
      let start := page_table_index rs level in
      let e := page_table_index re level in
      do s' <-
        (if level =? 1 then Ok s
         else rcu_loop (rclean_up fuel') table level table_addr rs re e 512%nat start s);
      Ok (s', table_all_unused s' table)
  end.
Definition rclean_up_addr_range (s : pstate) (rs re : Z) : res pstate :=
  rmap fst (rclean_up 5 s (root s) 4 rs re).

(* RecursivePageTable::new: table_addr = address of the reference, cr3 = CR3 content *)
Definition E_NOT_RECURSIVE := -30.
Definition E_NOT_ACTIVE := -31.
Definition rec_new (s : pstate) (table_addr cr3 : Z) : res out :=
  do page <- page_containing S4K table_addr;
  let r := p4_index page in
  if negb (p3_index page =? r) || negb (p2_index page =? r) || negb (p1_index page =? r)
  then Ok [E_NOT_RECURSIVE]
  else
    (* Ok(Cr3::read().0) != table[recursive_index].frame(): table is the referenced memory,
       here the table at the physical root *)
    let e := rd s (root s + 8 * r) in
    do cr3a <- pa_new (Z.land cr3 ADDR_MASK);
    do cr3f <- frame_containing S4K cr3a;
    if e_present e && (e_addr e =? cr3f) then Ok [0; r] else Ok [E_NOT_ACTIVE].
