(* RecursivePageTable::clean_up on table memory, part 3: the tables of level 1, 2 and 3.  The
   recursive address of a child table resolves because the clamped start page of the child's
   sub-range lies inside the address range of the child's slot, so its upper indices are the
   path to the table (ctx2, ctx3: the entries on that path are table entries in the current
   state; they live in frames outside the subtree that is being cleaned). *)
From Coq Require Import FMapPositive.
From X86 Require Import Base.Bits Addr.Canon Addr.Align Addr.Step Addr.Index Paging.EntryProofs Paging.Mapped
  Paging.MemProofs Paging.Tree Paging.TreeProofs Paging.Refine Paging.RefineOps Paging.RefineClean
  Paging.TreeClean Paging.RefineCleanExact Paging.CleanArith Paging.Recursive Paging.RecNewProofs
  Paging.RecResolve Paging.RecRead Paging.RecRefineTop Paging.RecCleanLoop Paging.RecCleanTable.
Require Import Lia ZifyBool Permutation.
Open Scope Z_scope.
Local Ltac Zify.zify_post_hook ::= Z.div_mod_to_equations.

(* ---------- small facts ---------- *)
Lemma idx_addr p : 0 <= p < NP ->
  p4_index (addr p) = (p / 134217728) mod 512 /\ p3_index (addr p) = (p / 262144) mod 512 /\
  p2_index (addr p) = (p / 512) mod 512.
Proof.
  intros Hp. pose proof (canonical_u64 _ (addr_canonical p Hp)) as Hu.
  destruct (page_table_index_spec (addr p) Hu) as (_ & E2 & E3 & E4).
  destruct span_vals as (_ & S2 & S3 & S4).
  rewrite <- E2, <- E3, <- E4. rewrite !pti_addr by lia. rewrite S2, S3, S4. repeat split.
Qed.

Lemma prep_m1_rep l s ch t : prep (-1) l s ch t <-> rep (S l) s ch t.
Proof.
  split.
  - intros H. apply rep_unfold. intros i Hi. apply H; lia.
  - apply rep_prep.
Qed.

Lemma cpost_mono (R R' : pstate -> list node -> Prop) ri s t ch s' ch' fr :
  (forall s c, R s c -> R' s c) -> cpost R ri s t ch s' ch' fr -> cpost R' ri s t ch s' ch' fr.
Proof. intros H (HR & Hrest). split; [apply H; exact HR|exact Hrest]. Qed.

Lemma prune1 RS RE sk ch base : prune 1 RS RE sk ch base = (ch, []).
Proof. reflexivity. Qed.

Lemma addr_ltb_false prs pre : 0 <= prs < NP -> 0 <= pre < NP -> prs <= pre ->
  (addr pre <? addr prs) = false.
Proof. intros Hs He Hle. apply Z.ltb_ge. apply addr_le; assumption. Qed.

Lemma slot_in_frame f j : tframe f -> 0 <= j < 512 -> 0 <= f + 8 * j /\ in_frame f (f + 8 * j).
Proof. intros [Hf _] Hj. unfold in_frame. lia. Qed.

Lemma tab_entry_tframe e f : tab_entry e f -> tframe f.
Proof. intros (fl & _ & Hf & _). exact Hf. Qed.

(* ---------- level 1 ---------- *)
Theorem rclean_level1 f s t ch prs pre base RS RE :
  wf_children ch -> rep 1 s ch t -> 0 <= prs < NP -> 0 <= pre < NP -> prs <= pre ->
  exists s', rclean_up_l (S f) s t 1 (addr prs) (addr pre) =
               Ok (s', all_empty (fst (prune 1 RS RE (-1) ch base))) /\
    cpost (fun s c => rep 1 s c t) (-1) s t ch s'
      (fst (prune 1 RS RE (-1) ch base)) (snd (prune 1 RS RE (-1) ch base)).
Proof.
  intros Hwf Hrep Hs He Hle. rewrite prune1. cbn [fst snd]. exists s.
  split; [|apply cpost_refl; exact Hrep].
  rewrite rclean_up_l_unfold. rewrite addr_ltb_false by assumption.
  rewrite (align_table prs 1) by lia. cbn [bind]. change (1 =? 1) with true. cbn [bind].
  rewrite (unused_slots_empty 0 s ch t Hrep), slots_all_empty by apply Hwf. reflexivity.
Qed.

(* ---------- the path to a table ---------- *)
(* rt: the level-4 frame; A: frames holding the entries of the path *)
Definition ctx3 (r rt : Z) (A : list Z) (base t : Z) (s : pstate) : Prop :=
  root s = rt /\ rec_index s = r /\ tab_entry (rd s (rt + 8 * r)) rt /\ In rt A /\
  tab_entry (rd s (rt + 8 * ((base / 134217728) mod 512))) t.
Definition ctx2 (r rt : Z) (A : list Z) (base t : Z) (s : pstate) : Prop :=
  root s = rt /\ rec_index s = r /\ tab_entry (rd s (rt + 8 * r)) rt /\ In rt A /\
  exists f3, In f3 A /\ tab_entry (rd s (rt + 8 * ((base / 134217728) mod 512))) f3 /\
             tab_entry (rd s (f3 + 8 * ((base / 262144) mod 512))) t.

Lemma rd_in_A A s s' f j : (forall a, 0 <= a -> in_frames A a -> rd s' a = rd s a) ->
  In f A -> tframe f -> 0 <= j < 512 -> rd s' (f + 8 * j) = rd s (f + 8 * j).
Proof.
  intros H Hin Hf Hj. destruct (slot_in_frame f j Hf Hj) as [H0 H1].
  apply H; [exact H0|]. exists f. split; assumption.
Qed.

Lemma ctx3_stable r rt A base t s s' : 0 <= r < 512 -> ctx3 r rt A base t s ->
  (forall a, 0 <= a -> in_frames A a -> rd s' a = rd s a) ->
  root s' = root s -> rec_index s' = rec_index s -> ctx3 r rt A base t s'.
Proof.
  intros Hr (Hro & Hri & Hrec & HinA & H4) Hsame Hro' Hri'.
  pose proof (tab_entry_tframe _ _ Hrec) as Hrt.
  split; [congruence|]. split; [congruence|].
  split; [rewrite (rd_in_A A s s' rt r Hsame HinA Hrt Hr); exact Hrec|]. split; [exact HinA|].
  rewrite (rd_in_A A s s' rt ((base / 134217728) mod 512) Hsame HinA Hrt ltac:(lia)). exact H4.
Qed.

Lemma ctx2_stable r rt A base t s s' : 0 <= r < 512 -> ctx2 r rt A base t s ->
  (forall a, 0 <= a -> in_frames A a -> rd s' a = rd s a) ->
  root s' = root s -> rec_index s' = rec_index s -> ctx2 r rt A base t s'.
Proof.
  intros Hr (Hro & Hri & Hrec & HinA & f3 & Hin3 & H4 & H3) Hsame Hro' Hri'.
  pose proof (tab_entry_tframe _ _ Hrec) as Hrt. pose proof (tab_entry_tframe _ _ H4) as Hf3.
  split; [congruence|]. split; [congruence|].
  split; [rewrite (rd_in_A A s s' rt r Hsame HinA Hrt Hr); exact Hrec|]. split; [exact HinA|].
  exists f3. split; [exact Hin3|].
  split; [rewrite (rd_in_A A s s' rt ((base / 134217728) mod 512) Hsame HinA Hrt ltac:(lia)); exact H4|].
  rewrite (rd_in_A A s s' f3 ((base / 262144) mod 512) Hsame Hin3 Hf3 ltac:(lia)). exact H3.
Qed.

(* ---------- the recursive addresses resolve ---------- *)
Lemma ctx2_deref r rt A base t s i f sp : 0 <= r < 512 -> ctx2 r rt A base t s ->
  0 <= base -> base mod (512 * 512) = 0 -> base + 512 * 512 <= NP -> 0 <= i < 512 ->
  tab_entry (rd s (t + 8 * i)) f -> base + i * 512 <= sp < base + i * 512 + 512 ->
  exists tpv, rtp 2 (addr sp) (rec_index s) = Ok tpv /\ deref s tpv = Some f.
Proof.
  intros Hr (Hro & Hri & Hrec & HinA & f3 & Hin3 & H4 & H3) Hb0 Hbm HbN Hi Hf Hsp.
  subst rt. rewrite Hri. unfold rtp. change (2 =? 4) with false. change (2 =? 3) with false. cbv iota.
  destruct (p1_page_spec (addr sp) r Hr) as (pg & E & _). exists pg. split; [exact E|].
  apply deref_ok.
  assert (Hspn : 0 <= sp < NP) by lia.
  destruct (idx_addr sp Hspn) as (I4 & I3 & I2).
  apply (p1_page_resolves s r Hr Hrec (addr sp) pg f3 t f E).
  - rewrite I4. replace ((sp / 134217728) mod 512) with ((base / 134217728) mod 512) by lia. exact H4.
  - rewrite I3. replace ((sp / 262144) mod 512) with ((base / 262144) mod 512) by lia. exact H3.
  - rewrite I2. replace ((sp / 512) mod 512) with i by lia. exact Hf.
Qed.

Lemma ctx3_deref r rt A base t s i f sp : 0 <= r < 512 -> ctx3 r rt A base t s ->
  0 <= base -> base mod (512 * 262144) = 0 -> base + 512 * 262144 <= NP -> 0 <= i < 512 ->
  tab_entry (rd s (t + 8 * i)) f -> base + i * 262144 <= sp < base + i * 262144 + 262144 ->
  exists tpv, rtp 3 (addr sp) (rec_index s) = Ok tpv /\ deref s tpv = Some f.
Proof.
  intros Hr (Hro & Hri & Hrec & HinA & H4) Hb0 Hbm HbN Hi Hf Hsp.
  subst rt. rewrite Hri. unfold rtp. change (3 =? 4) with false. change (3 =? 3) with true. cbv iota.
  destruct (p2_page_spec (addr sp) r Hr) as (pg & E & _). exists pg. split; [exact E|].
  apply deref_ok.
  assert (Hspn : 0 <= sp < NP) by lia.
  destruct (idx_addr sp Hspn) as (I4 & I3 & I2).
  apply (p2_page_resolves s r Hr Hrec (addr sp) pg t f E).
  - rewrite I4. replace ((sp / 134217728) mod 512) with ((base / 134217728) mod 512) by lia. exact H4.
  - rewrite I3. replace ((sp / 262144) mod 512) with i by lia. exact Hf.
Qed.

Lemma disjoint_below A t ch f sub :
  (forall a, in_frames A a -> ~ in_frames (t :: frames_of ch) a) ->
  incl (f :: frames_of sub) (frames_of ch) ->
  (forall a, in_frame t a -> ~ in_frames (f :: frames_of sub) a) ->
  forall a, in_frames (t :: A) a -> ~ in_frames (f :: frames_of sub) a.
Proof.
  intros HA Hincl Hnot a (g & Hg & Hga) Hin. destruct Hg as [<-|Hg].
  - exact (Hnot a Hga Hin).
  - apply (HA a); [exists g; split; assumption|].
    destruct Hin as (h & Hh & Hha). exists h. split; [right; apply Hincl; exact Hh|exact Hha].
Qed.

Lemma stable_outside A t F s s' :
  (forall a, in_frames A a -> ~ in_frames (t :: F) a) ->
  (forall a, 0 <= a -> ~ in_frames (t :: F) a -> rd s' a = rd s a) ->
  forall a, 0 <= a -> in_frames A a -> rd s' a = rd s a.
Proof. intros HA Hout a Ha Hin. apply Hout; [exact Ha|apply HA; exact Hin]. Qed.

(* ---------- level 2 ---------- *)
Theorem rclean_level2 r rt (Hr : 0 <= r < 512) : forall s t ch prs pre base RS RE A,
  wf_children ch -> rep 2 s ch t -> tframe t -> sep s t ch ->
  ctx2 r rt A base t s -> (forall a, in_frames A a -> ~ in_frames (t :: frames_of ch) a) ->
  0 <= base -> base mod (512 * 512) = 0 -> base + 512 * 512 <= NP ->
  base <= prs -> prs <= pre -> pre < base + 512 * 512 ->
  prs = Z.max RS base -> pre = Z.min RE (base + 512 * 512 - 1) ->
  exists s', rclean_up_l 3 s t 2 (addr prs) (addr pre) =
               Ok (s', all_empty (fst (prune 2 RS RE (-1) ch base))) /\
    cpost (fun s c => rep 2 s c t) (-1) s t ch s'
      (fst (prune 2 RS RE (-1) ch base)) (snd (prune 2 RS RE (-1) ch base)).
Proof.
  intros s t ch prs pre base RS RE A Hwf Hrep Ht Hsep HC HA Hb0 Hbm HbN Hr1 Hr2 Hr3 HRS HRE.
  assert (Hp : 0 <= prs < NP /\ 0 <= pre < NP) by lia.
  assert (HWv : 512 = 512 \/ 512 = 262144 \/ 512 = 134217728) by (left; reflexivity).
  destruct (idx_facts 512 base prs HWv Hb0 Hbm) as (Hs1 & Hs2 & Hs3); [lia|].
  destruct (idx_facts 512 base pre HWv Hb0 Hbm) as (He1 & He2 & _); [lia|].
  rewrite (prune_S2 0). change (512 ^ Z.of_nat 1) with 512.
  destruct (rtable_prune (rclean_up_l 2) (prune 1 RS RE (-1)) 1%nat 2 512 base prs pre RS RE
              ((prs / 512) mod 512) ((pre / 512) mod 512) (-1) t (frames_of ch) (ctx2 r rt A base t))
    with (ch := ch) (s := s) as (s' & Eloop & Hpost); try assumption; try lia.
  - unfold tlevel. lia.
  - reflexivity.
  - (* HStab *)
    intros s0 s1 HC0 Hout _ Hro Hri.
    apply (ctx2_stable r rt A base t s0 s1 Hr HC0 (stable_outside A t _ s0 s1 HA Hout) Hro Hri).
  - (* HDeref *)
    intros s0 i f sp HC0 Hi _ Hf Hsp.
    apply (ctx2_deref r rt A base t s0 i f sp Hr HC0 Hb0 Hbm HbN Hi Hf Hsp).
  - (* HRec *)
    intros s0 i f sub sp ep _ Hi _ Hf Hsub Hft Hsep0 Hwfs _ _ Hl1 Hl2 Hl3 Hf1 Hf2 Hf3 Hf4 Hf5.
    change (2 - 1) with 1.
    apply (rclean_level1 1 s0 f sub sp ep (base + i * 512) RS RE Hwfs Hsub); lia.
  - intros sub lo Hs. exact Hs.
  - apply rep_prep. exact Hrep.
  - apply incl_refl.
  - exists s'. split.
    + rewrite rclean_up_l_unfold. rewrite addr_ltb_false by lia.
      rewrite (align_table prs 2) by lia. cbn [bind]. change (2 =? 1) with false. cbv iota.
      change (span 2) with 512. rewrite Hs3. rewrite !pti_addr by lia. change (span 2) with 512.
      rewrite Eloop. cbn [bind].
      pose proof (proj1 (prep_m1_rep 1 s' _ t) (proj1 Hpost)) as R'.
      rewrite (unused_slots_empty 1 s' _ t R'), slots_all_empty; [reflexivity|].
      rewrite prune_children_length. apply Hwf.
    + apply (cpost_mono _ _ _ _ _ _ _ _ _ (fun s0 c => proj1 (prep_m1_rep 1 s0 c t)) Hpost).
Qed.

(* ---------- level 3 ---------- *)
Lemma ctx3_child r rt A base t s i f : ctx3 r rt A base t s ->
  0 <= base -> base mod (512 * 262144) = 0 -> 0 <= i < 512 ->
  tab_entry (rd s (t + 8 * i)) f -> ctx2 r rt (t :: A) (base + i * 262144) f s.
Proof.
  intros (Hro & Hri & Hrec & HinA & H4) Hb0 Hbm Hi Hf.
  split; [exact Hro|]. split; [exact Hri|]. split; [exact Hrec|]. split; [right; exact HinA|].
  exists t. split; [left; reflexivity|]. split.
  - replace (((base + i * 262144) / 134217728) mod 512) with ((base / 134217728) mod 512) by lia. exact H4.
  - replace (((base + i * 262144) / 262144) mod 512) with i by lia. exact Hf.
Qed.

Theorem rclean_level3 r rt (Hr : 0 <= r < 512) : forall s t ch prs pre base RS RE A,
  wf_children ch -> rep 3 s ch t -> tframe t -> sep s t ch ->
  ctx3 r rt A base t s -> (forall a, in_frames A a -> ~ in_frames (t :: frames_of ch) a) ->
  0 <= base -> base mod (512 * 262144) = 0 -> base + 512 * 262144 <= NP ->
  base <= prs -> prs <= pre -> pre < base + 512 * 262144 ->
  prs = Z.max RS base -> pre = Z.min RE (base + 512 * 262144 - 1) ->
  exists s', rclean_up_l 4 s t 3 (addr prs) (addr pre) =
               Ok (s', all_empty (fst (prune 3 RS RE (-1) ch base))) /\
    cpost (fun s c => rep 3 s c t) (-1) s t ch s'
      (fst (prune 3 RS RE (-1) ch base)) (snd (prune 3 RS RE (-1) ch base)).
Proof.
  intros s t ch prs pre base RS RE A Hwf Hrep Ht Hsep HC HA Hb0 Hbm HbN Hr1 Hr2 Hr3 HRS HRE.
  assert (Hp : 0 <= prs < NP /\ 0 <= pre < NP) by lia.
  assert (HWv : 262144 = 512 \/ 262144 = 262144 \/ 262144 = 134217728) by (right; left; reflexivity).
  destruct (idx_facts 262144 base prs HWv Hb0 Hbm) as (Hs1 & Hs2 & Hs3); [lia|].
  destruct (idx_facts 262144 base pre HWv Hb0 Hbm) as (He1 & He2 & _); [lia|].
  rewrite (prune_S2 1). change (512 ^ Z.of_nat 2) with 262144.
  destruct (rtable_prune (rclean_up_l 3) (prune 2 RS RE (-1)) 2%nat 3 262144 base prs pre RS RE
              ((prs / 262144) mod 512) ((pre / 262144) mod 512) (-1) t (frames_of ch) (ctx3 r rt A base t))
    with (ch := ch) (s := s) as (s' & Eloop & Hpost); try assumption; try lia.
  - unfold tlevel. lia.
  - reflexivity.
  - (* HStab *)
    intros s0 s1 HC0 Hout _ Hro Hri.
    apply (ctx3_stable r rt A base t s0 s1 Hr HC0 (stable_outside A t _ s0 s1 HA Hout) Hro Hri).
  - (* HDeref *)
    intros s0 i f sp HC0 Hi _ Hf Hsp.
    apply (ctx3_deref r rt A base t s0 i f sp Hr HC0 Hb0 Hbm HbN Hi Hf Hsp).
  - (* HRec *)
    intros s0 i f sub sp ep HC0 Hi _ Hf Hsub Hft Hsep0 Hwfs Hincl Hnot Hl1 Hl2 Hl3 Hf1 Hf2 Hf3 Hf4 Hf5.
    change (3 - 1) with 2.
    apply (rclean_level2 r rt Hr s0 f sub sp ep (base + i * 262144) RS RE (t :: A) Hwfs Hsub Hft Hsep0
             (ctx3_child r rt A base t s0 i f HC0 Hb0 Hbm Hi Hf)
             (disjoint_below A t ch f sub HA Hincl Hnot)); lia.
  - intros sub lo Hs. apply prune_wf_gen. exact Hs.
  - apply rep_prep. exact Hrep.
  - apply incl_refl.
  - exists s'. split.
    + rewrite rclean_up_l_unfold. rewrite addr_ltb_false by lia.
      rewrite (align_table prs 3) by lia. cbn [bind]. change (3 =? 1) with false. cbv iota.
      change (span 3) with 262144. rewrite Hs3. rewrite !pti_addr by lia. change (span 3) with 262144.
      rewrite Eloop. cbn [bind].
      pose proof (proj1 (prep_m1_rep 2 s' _ t) (proj1 Hpost)) as R'.
      rewrite (unused_slots_empty 2 s' _ t R'), slots_all_empty; [reflexivity|].
      rewrite prune_children_length. apply Hwf.
    + apply (cpost_mono _ _ _ _ _ _ _ _ _ (fun s0 c => proj1 (prep_m1_rep 2 s0 c t)) Hpost).
Qed.
