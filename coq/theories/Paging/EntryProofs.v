(* C08: page-table entries and tables encode exactly what was stored, in hardware layout. *)
From X86 Require Import Base.Word Base.Bits Addr.Model Addr.Canon Addr.Align Addr.Reach Paging.Entry.
Open Scope Z_scope.
Local Ltac Zify.zify_post_hook ::= Z.div_mod_to_equations.

(* the property's flag domain: any subset of bits 0-11 and 52-63 *)
Definition flagdom (F : Z) : Prop :=
  exists fl fh, 0 <= fl < 4096 /\ 0 <= fh < 4096 /\ F = fl + fh * P52.
Definition aligned_phys (a : Z) : Prop := 0 <= a < P52 /\ a mod 4096 = 0.

Lemma land_disjoint_masks x m1 m2 : Z.land m1 m2 = 0 ->
  Z.land x (m1 + m2) = Z.land x m1 + Z.land x m2.
Proof.
  intros H. rewrite (Z.add_nocarry_lxor m1 m2 H), (Z.lxor_lor m1 m2 H).
  rewrite Z.land_lor_distr_r.
  assert (H2 : Z.land (Z.land x m1) (Z.land x m2) = 0).
  { apply Z.bits_inj'. intros i Hi. rewrite !Z.land_spec, Z.bits_0.
    assert (Hb : Z.testbit (Z.land m1 m2) i = false) by (rewrite H; apply Z.bits_0).
    rewrite Z.land_spec in Hb.
    destruct (Z.testbit x i), (Z.testbit m1 i), (Z.testbit m2 i); simpl in *; congruence. }
  rewrite <- (Z.lxor_lor _ _ H2), <- (Z.add_nocarry_lxor _ _ H2). reflexivity.
Qed.

Lemma lor_addr_flags a F : aligned_phys a -> flagdom F -> Z.lor a F = a + F.
Proof.
  intros [Ha Hal] (fl & fh & Hfl & Hfh & ->).
  assert (E1 : fl + fh * P52 = Z.lor (fh * P52) fl).
  { rewrite (lor_disjoint_add _ _ 12); [lia|lia|change (2 ^ 12) with 4096; lia|].
    change (2 ^ 12) with 4096. unfold P52. lia. }
  rewrite E1, Z.lor_assoc, (Z.lor_comm a), <- Z.lor_assoc.
  rewrite (lor_disjoint_add a fl 12) by (change (2 ^ 12) with 4096; lia).
  rewrite (lor_disjoint_add (fh * P52) (a + fl) 52).
  - rewrite <- E1. lia.
  - lia.
  - change (2 ^ 52) with P52. unfold P52 in *. lia.
  - change (2 ^ 52) with P52. apply Z.mod_mul. unfold P52. lia.
Qed.

Lemma stored_range a F : aligned_phys a -> flagdom F -> u64 (a + F).
Proof. intros [Ha Hal] (fl & fh & Hfl & Hfh & ->). unfold u64, P52, W64 in *. lia. Qed.

Lemma addr_of_stored a F : aligned_phys a -> flagdom F -> pte_addr (a + F) = Ok a.
Proof.
  intros Ha HF. destruct (pte_addr_total (a + F) (stored_range a F Ha HF)) as [-> _].
  f_equal. destruct Ha as [Ha Hal]. destruct HF as (fl & fh & Hfl & Hfh & ->).
  unfold P52 in *. lia.
Qed.

Lemma PTF_ALL_split : PTF_ALL = (2 ^ 13 - 2 ^ 0) + (2 ^ 64 - 2 ^ 52).
Proof. reflexivity. Qed.

Lemma flags_of_stored a F : aligned_phys a -> flagdom F ->
  pte_flags (a + F) = F + a mod 8192.
Proof.
  intros Ha HF. pose proof (stored_range a F Ha HF) as Hu.
  unfold pte_flags. rewrite PTF_ALL_split.
  rewrite land_disjoint_masks by reflexivity.
  rewrite !land_mask_range by lia.
  destruct Ha as [Ha Hal]. destruct HF as (fl & fh & Hfl & Hfh & ->).
  change (2 ^ 13) with 8192. change (2 ^ 0) with 1. change (2 ^ 64) with W64.
  change (2 ^ 52) with P52. unfold u64, W64, P52 in *. lia.
Qed.

(* ---------- the codec theorems ---------- *)
Theorem set_addr_stores a F e : aligned_phys a -> flagdom F ->
  pte_set_addr e a F = Ok (a + F) /\ pte_set_frame e a F = Ok (a + F).
Proof.
  intros Ha HF. pose proof Ha as [Hp Hal]. unfold pte_set_frame, pte_set_addr.
  change S4K with (2 ^ 12). rewrite pa_is_aligned_spec by (auto; lia). cbn [bind].
  change (2 ^ 12) with 4096. rewrite Hal. change (0 =? 0) with true. cbv iota.
  rewrite lor_addr_flags by assumption. auto.
Qed.

Theorem set_addr_rejects_misaligned a F e : phys a -> a mod 4096 <> 0 ->
  pte_set_addr e a F = Panic.
Proof.
  intros Hp Hm. unfold pte_set_addr. change S4K with (2 ^ 12).
  rewrite pa_is_aligned_spec by (auto; lia). cbn [bind]. change (2 ^ 12) with 4096.
  destruct (a mod 4096 =? 0) eqn:E; [lia|reflexivity].
Qed.

Theorem stored_reads_back a F : aligned_phys a -> flagdom F ->
  pte_addr (a + F) = Ok a /\
  Z.land (pte_flags (a + F)) (4095 + 4095 * P52) = F /\
  (a mod 8192 = 0 -> pte_flags (a + F) = F).
Proof.
  intros Ha HF. split; [apply addr_of_stored; assumption|].
  rewrite flags_of_stored by assumption. split.
  - destruct Ha as [Ha Hal]. destruct HF as (fl & fh & Hfl & Hfh & ->).
    replace (4095 + 4095 * P52) with ((2 ^ 12 - 2 ^ 0) + (2 ^ 64 - 2 ^ 52)) by reflexivity.
    rewrite land_disjoint_masks by reflexivity. rewrite !land_mask_range by lia.
    change (2 ^ 12) with 4096. change (2 ^ 0) with 1. change (2 ^ 64) with W64.
    change (2 ^ 52) with P52. unfold W64, P52 in *. lia.
  - intros ->. lia.
Qed.

(* known finding F7a: an address with bit 12 set reads back PAT_HUGE_PAGE *)
Theorem flags_bit12_refuted :
  exists a F, aligned_phys a /\ flagdom F /\ pte_set_addr 0 a F = Ok (a + F) /\
              pte_flags (a + F) = F + PTF_PAT_HUGE /\ pte_flags (a + F) <> F.
Proof.
  exists 4096, 1. splits.
  - unfold aligned_phys, P52. split; [lia|reflexivity].
  - exists 1, 0. unfold P52. lia.
  - reflexivity.
  - reflexivity.
  - discriminate.
Qed.
Definition KnownF7a (a : Z) : Prop := a mod 8192 <> 0.   (* address bit 12 set *)
Theorem flags_exact_outside_known a F : aligned_phys a -> flagdom F -> ~ KnownF7a a ->
  pte_flags (a + F) = F.
Proof.
  intros Ha HF Hk. apply stored_reads_back; auto. unfold KnownF7a in Hk. lia.
Qed.

Theorem set_flags_keeps_addr a F F' : aligned_phys a -> flagdom F -> flagdom F' ->
  pte_set_flags (a + F) F' = Ok (a + F').
Proof.
  intros Ha HF HF'. unfold pte_set_flags. rewrite addr_of_stored by assumption. cbn [bind].
  rewrite lor_addr_flags by assumption. reflexivity.
Qed.

Theorem unused_iff_zero e : pte_is_unused e = true <-> e = 0.
Proof. unfold pte_is_unused. lia. Qed.
Theorem set_unused_zero e : pte_set_unused e = 0 /\ pte_is_unused (pte_set_unused e) = true.
Proof. split; reflexivity. Qed.

Lemma land_1 e : Z.land e 1 = e mod 2.
Proof. change 1 with (2 ^ 1 - 1) at 1. rewrite land_ones_mod by lia. reflexivity. Qed.

Theorem frame_iff_present e : u64 e ->
  (exists f, pte_frame e = Ok (Some f)) <-> Z.testbit e 0 = true.
Proof.
  intros He. unfold pte_frame, flags_contains, pte_flags, PTF_PRESENT.
  rewrite Z.bit0_odd, <- Z.land_assoc. change (Z.land PTF_ALL 1) with 1. rewrite land_1.
  destruct (pte_addr_total e He) as [-> Hp]. cbn [bind].
  assert (Hs : page_size S4K) by (left; reflexivity).
  destruct (frame_containing_spec S4K _ Hs Hp) as (p & -> & _). cbn [rmap].
  rewrite Zodd_mod. destruct (e mod 2 =? 1) eqn:E.
  - split; [intros _|intros _; eauto]. apply Zeq_is_eq_bool. lia.
  - split; [intros [f Hf]; discriminate|]. intros H. apply Zeq_is_eq_bool in H. lia.
Qed.

(* ---------- any sequence of setters: the entry is always stored address + stored flags ---------- *)
Inductive setter :=
| SetAddr (a F : Z) | SetFrame (a F : Z) | SetFlags (F : Z) | SetUnused.
Definition setter_ok (s : setter) : Prop :=
  match s with
  | SetAddr a F | SetFrame a F => aligned_phys a /\ flagdom F
  | SetFlags F => flagdom F
  | SetUnused => True
  end.
Definition apply_setter (e : Z) (s : setter) : res Z :=
  match s with
  | SetAddr a F => pte_set_addr e a F
  | SetFrame a F => pte_set_frame e a F
  | SetFlags F => pte_set_flags e F
  | SetUnused => Ok (pte_set_unused e)
  end.
(* what was stored: (address, flags) *)
Definition spec_setter (st : Z * Z) (s : setter) : Z * Z :=
  match s with
  | SetAddr a F | SetFrame a F => (a, F)
  | SetFlags F => (fst st, F)
  | SetUnused => (0, 0)
  end.
Fixpoint run_setters (e : Z) (l : list setter) : res Z :=
  match l with [] => Ok e | s :: l' => do e' <- apply_setter e s; run_setters e' l' end.

Lemma flagdom_0 : flagdom 0.
Proof. exists 0, 0. unfold P52. lia. Qed.
Lemma aligned_phys_0 : aligned_phys 0.
Proof. unfold aligned_phys, P52. split; [lia|reflexivity]. Qed.

Theorem setters_store_exactly l : forall a F, aligned_phys a -> flagdom F ->
  Forall setter_ok l ->
  let st := fold_left spec_setter l (a, F) in
  run_setters (a + F) l = Ok (fst st + snd st) /\ aligned_phys (fst st) /\ flagdom (snd st).
Proof.
  induction l as [|s l IH]; intros a F Ha HF Hok; cbn [fold_left run_setters].
  - cbn [fst snd]. auto.
  - inversion Hok as [|s' l' Hs Hl]; subst.
    destruct s as [a' F'|a' F'|F'|]; cbn [apply_setter spec_setter setter_ok fst snd] in *.
    + destruct Hs as [Ha' HF']. destruct (set_addr_stores a' F' (a + F) Ha' HF') as [-> _].
      cbn [bind]. apply IH; assumption.
    + destruct Hs as [Ha' HF']. destruct (set_addr_stores a' F' (a + F) Ha' HF') as [_ ->].
      cbn [bind]. apply IH; assumption.
    + rewrite set_flags_keeps_addr by assumption. cbn [bind]. apply IH; assumption.
    + cbn [bind]. unfold pte_set_unused. replace 0 with (0 + 0) at 1 by lia.
      apply IH; auto using aligned_phys_0, flagdom_0.
Qed.

(* ---------- the table: 512 little-endian words in index order ---------- *)
Lemma table_new_length : length table_new = 512%nat.
Proof. apply repeat_length. Qed.

Lemma nth_firstn_lt {A} (l : list A) : forall n i d, (i < n)%nat -> nth i (firstn n l) d = nth i l d.
Proof.
  induction l as [|x l IH]; intros n i d H.
  - rewrite firstn_nil. reflexivity.
  - destruct n; [lia|]. destruct i; [reflexivity|]. cbn [firstn nth]. apply IH. lia.
Qed.
Lemma nth_skipn_add {A} (l : list A) : forall n i d, nth i (skipn n l) d = nth (n + i) l d.
Proof.
  induction l as [|x l IH]; intros n i d.
  - rewrite skipn_nil. destruct i, n; reflexivity.
  - destruct n; [reflexivity|]. cbn [skipn Nat.add nth]. apply IH.
Qed.

Theorem table_set_get t i v j : length t = 512%nat -> 0 <= i < 512 -> 0 <= j < 512 ->
  exists t', table_set t i v = Ok t' /\ length t' = 512%nat /\
             table_get t' j = if i =? j then Ok v else table_get t j.
Proof.
  intros Hl Hi Hj. unfold table_set, table_get.
  assert (Ei : (0 <=? i) && (i <? 512) = true) by lia. rewrite Ei.
  assert (Ej : (0 <=? j) && (j <? 512) = true) by lia. rewrite Ej.
  eexists. split; [reflexivity|].
  assert (Hn : (Z.to_nat i < length t)%nat) by lia.
  split.
  - rewrite app_length, firstn_length. cbn [length]. rewrite skipn_length. lia.
  - destruct (i =? j) eqn:E.
    + apply Z.eqb_eq in E. subst j. f_equal.
      rewrite app_nth2; rewrite firstn_length; [|lia].
      replace (Z.to_nat i - Nat.min (Z.to_nat i) (length t))%nat with 0%nat by lia. reflexivity.
    + apply Z.eqb_neq in E. f_equal.
      destruct (Z_lt_dec j i) as [Hlt|Hge].
      * rewrite app_nth1 by (rewrite firstn_length; lia).
        apply nth_firstn_lt. lia.
      * rewrite app_nth2 by (rewrite firstn_length; lia). rewrite firstn_length.
        replace (Nat.min (Z.to_nat i) (length t)) with (Z.to_nat i) by lia.
        remember (Z.to_nat j - Z.to_nat i)%nat as d. destruct d as [|d]; [lia|]. cbn [nth].
        rewrite nth_skipn_add. f_equal. lia.
Qed.

Theorem table_out_of_range t i v : ~ (0 <= i < 512) ->
  table_set t i v = Panic /\ table_get t i = Panic.
Proof.
  intros H. unfold table_set, table_get.
  assert (E : (0 <=? i) && (i <? 512) = false) by lia. rewrite E. auto.
Qed.

Lemma word_bytes_length w : length (word_bytes w) = 8%nat.
Proof. reflexivity. Qed.

Theorem table_bytes_layout t : forall i j, (i < length t)%nat -> (j < 8)%nat ->
  nth (8 * i + j) (table_bytes t) 0 = byte_of (nth i t 0) (Z.of_nat j).
Proof.
  induction t as [|w t IH]; intros i j Hi Hj; [cbn in Hi; lia|].
  unfold table_bytes in *. cbn [flat_map]. destruct i as [|i].
  - replace (8 * 0 + j)%nat with j by lia.
    rewrite app_nth1 by (rewrite word_bytes_length; lia). unfold word_bytes.
    rewrite (nth_indep _ 0 ((fun k => byte_of w (Z.of_nat k)) 0%nat))
      by (rewrite map_length, seq_length; lia).
    rewrite (map_nth (fun k => byte_of w (Z.of_nat k))). rewrite seq_nth by lia. reflexivity.
  - rewrite app_nth2 by (rewrite word_bytes_length; lia). rewrite word_bytes_length.
    replace (8 * S i + j - 8)%nat with (8 * i + j)%nat by lia. cbn [nth length] in *.
    apply IH; lia.
Qed.

Theorem table_bytes_length t : length (table_bytes t) = (8 * length t)%nat.
Proof.
  induction t as [|w t IH]; [reflexivity|]. unfold table_bytes in *. cbn [flat_map length].
  rewrite app_length, IH, word_bytes_length. lia.
Qed.

Lemma word_zero_iff w : 0 <= w < W64 -> (w = 0 <-> forall j, (j < 8)%nat -> byte_of w (Z.of_nat j) = 0).
Proof.
  intros Hw. split; [intros -> j Hj; unfold byte_of; rewrite Z.div_0_l; [reflexivity|]|].
  - apply Z.pow_nonzero; lia.
  - intros H.
    pose proof (H 0%nat ltac:(lia)) as B0. pose proof (H 1%nat ltac:(lia)) as B1.
    pose proof (H 2%nat ltac:(lia)) as B2. pose proof (H 3%nat ltac:(lia)) as B3.
    pose proof (H 4%nat ltac:(lia)) as B4. pose proof (H 5%nat ltac:(lia)) as B5.
    pose proof (H 6%nat ltac:(lia)) as B6. pose proof (H 7%nat ltac:(lia)) as B7.
    unfold byte_of in *. cbn [Z.of_nat Pos.of_succ_nat Pos.succ Z.mul Pos.mul] in *.
    change (2 ^ 0) with 1 in *. change (2 ^ 8) with 256 in *. change (2 ^ 16) with 65536 in *.
    change (2 ^ 24) with 16777216 in *. change (2 ^ 32) with 4294967296 in *.
    change (2 ^ 40) with 1099511627776 in *. change (2 ^ 48) with 281474976710656 in *.
    change (2 ^ 56) with 72057594037927936 in *. unfold W64 in *. lia.
Qed.

Theorem table_empty_iff_zero_words t :
  table_is_empty t = true <-> Forall (fun w => w = 0) t.
Proof.
  unfold table_is_empty. rewrite forallb_forall, Forall_forall. unfold pte_is_unused.
  split; intros H w Hw; specialize (H w Hw); lia.
Qed.

Theorem table_new_zero :
  table_is_empty table_new = true /\ Forall (fun b => b = 0) (table_bytes table_new) /\
  length (table_bytes table_new) = 4096%nat.
Proof.
  splits.
  - apply table_empty_iff_zero_words. unfold table_new. apply Forall_forall.
    intros w Hw. apply repeat_spec in Hw. assumption.
  - apply Forall_forall. intros b Hb. unfold table_bytes in Hb. apply in_flat_map in Hb.
    destruct Hb as (w & Hw & Hb). apply repeat_spec in Hw. subst w.
    unfold word_bytes in Hb. apply in_map_iff in Hb. destruct Hb as (j & <- & _).
    unfold byte_of. apply Z.mod_0_l. lia.
  - rewrite table_bytes_length, table_new_length. reflexivity.
Qed.

Theorem table_zero_empties t : table_is_empty (table_zero t) = true /\ length (table_zero t) = length t.
Proof.
  split; [|apply map_length]. apply table_empty_iff_zero_words, Forall_forall.
  intros w Hw. unfold table_zero in Hw. apply in_map_iff in Hw. destruct Hw as (x & <- & _). reflexivity.
Qed.

Example entry_program_example :
  run_setters 0 [SetAddr 8192 3; SetFlags (1 + 2 ^ 63); SetFrame 4503599627362304 5; SetUnused;
                 SetAddr 1048576 (1 + 128)]
  = Ok (1048576 + 129).
Proof. vm_compute. reflexivity. Qed.
