(* The recursive-mapping trick: with slot r of the level-4 table pointing to the level-4 table
   itself, a hardware walk of the addresses p3_page / p2_page / p1_page (C20) ends in the
   level-3 / level-2 / level-1 table of the page.  Stated on raw memory words. *)
From X86 Require Import Base.Bits Addr.Canon Addr.Index Paging.EntryProofs Paging.Mapped
  Paging.Tree Paging.TreeProofs Paging.Refine Paging.RefineWalk Paging.RecNew Paging.RecNewProofs.
Require Import Lia ZifyBool.
Open Scope Z_scope.

(* a present, non-huge entry pointing to table frame f *)
Definition tab_entry (e f : Z) : Prop := exists fl, e = Z.lor f fl /\ tframe f /\ pflags_ok fl.
Lemma tab_entry_bits e f : tab_entry e f ->
  bit_set e 0 = true /\ bit_set e 7 = false /\ Z.land e ADDR_MASK = f.
Proof. intros (fl & -> & Hf & Hfl). destruct (tab_bits f fl Hf Hfl) as (A & B & C & _). auto. Qed.

Section Recursive.
Variable s : pstate.
Variable r : Z.
Hypothesis Hr : 0 <= r < 512.
(* the recursive slot *)
Hypothesis Hrec : tab_entry (rd s (root s + 8 * r)) (root s).

Theorem p3_page_resolves page pg f3 :
  p3_page page r = Ok pg ->
  tab_entry (rd s (root s + 8 * p4_index page)) f3 ->
  exists w, hw_walk s pg = Some w /\ w_phys w = f3 /\ w_size w = S4K.
Proof.
  intros Hp H3. destruct (p3_page_spec page r Hr) as (pg' & E & Hc & Hal & I4 & I3 & I2 & I1 & _).
  rewrite E in Hp. inversion Hp; subst pg'. clear Hp.
  destruct (tab_entry_bits _ _ Hrec) as (R0 & R7 & RA). destruct (tab_entry_bits _ _ H3) as (A0 & A7 & AA).
  unfold hw_walk. rewrite I4, I3, I2, I1. rewrite R0, RA. cbn [negb]. rewrite R0, R7, RA. cbn [negb].
  rewrite R0, R7, RA. cbn [negb]. rewrite A0, AA. cbn [negb].
  eexists. split; [reflexivity|]. cbn [w_phys w_size]. split; [|reflexivity].
  change S4K with 4096 in *. rewrite Hal. lia.
Qed.

Theorem p2_page_resolves page pg f3 f2 :
  p2_page page r = Ok pg ->
  tab_entry (rd s (root s + 8 * p4_index page)) f3 ->
  tab_entry (rd s (f3 + 8 * p3_index page)) f2 ->
  exists w, hw_walk s pg = Some w /\ w_phys w = f2 /\ w_size w = S4K.
Proof.
  intros Hp H3 H2. destruct (p2_page_spec page r Hr) as (pg' & E & Hc & Hal & I4 & I3 & I2 & I1 & _).
  rewrite E in Hp. inversion Hp; subst pg'. clear Hp.
  destruct (tab_entry_bits _ _ Hrec) as (R0 & R7 & RA). destruct (tab_entry_bits _ _ H3) as (A0 & A7 & AA).
  destruct (tab_entry_bits _ _ H2) as (B0 & B7 & BA).
  unfold hw_walk. rewrite I4, I3, I2, I1. rewrite R0, RA. cbn [negb]. rewrite R0, R7, RA. cbn [negb].
  rewrite A0, A7, AA. cbn [negb]. rewrite B0, BA. cbn [negb].
  eexists. split; [reflexivity|]. cbn [w_phys w_size]. split; [|reflexivity].
  change S4K with 4096 in *. rewrite Hal. lia.
Qed.

Theorem p1_page_resolves page pg f3 f2 f1 :
  p1_page page r = Ok pg ->
  tab_entry (rd s (root s + 8 * p4_index page)) f3 ->
  tab_entry (rd s (f3 + 8 * p3_index page)) f2 ->
  tab_entry (rd s (f2 + 8 * p2_index page)) f1 ->
  exists w, hw_walk s pg = Some w /\ w_phys w = f1 /\ w_size w = S4K.
Proof.
  intros Hp H3 H2 H1. destruct (p1_page_spec page r Hr) as (pg' & E & Hc & Hal & I4 & I3 & I2 & I1 & _).
  rewrite E in Hp. inversion Hp; subst pg'. clear Hp.
  destruct (tab_entry_bits _ _ Hrec) as (R0 & R7 & RA). destruct (tab_entry_bits _ _ H3) as (A0 & A7 & AA).
  destruct (tab_entry_bits _ _ H2) as (B0 & B7 & BA). destruct (tab_entry_bits _ _ H1) as (C0 & C7 & CA).
  unfold hw_walk. rewrite I4, I3, I2, I1. rewrite R0, RA. cbn [negb]. rewrite A0, A7, AA. cbn [negb].
  rewrite B0, B7, BA. cbn [negb]. rewrite C0, CA. cbn [negb].
  eexists. split; [reflexivity|]. cbn [w_phys w_size]. split; [|reflexivity].
  change S4K with 4096 in *. rewrite Hal. lia.
Qed.

(* the failure mode behind fix F6: if the level-3 entry is a 1 GiB mapping, the "level-2 table"
   address resolves into the mapped data frame, so the code must test HUGE_PAGE first *)
Theorem p2_page_under_huge_reaches_the_data_frame page pg f3 w3 :
  p2_page page r = Ok pg ->
  tab_entry (rd s (root s + 8 * p4_index page)) f3 ->
  rd s (f3 + 8 * p3_index page) = w3 -> Z.testbit w3 0 = true ->
  exists w, hw_walk s pg = Some w /\ w_phys w = Z.land w3 ADDR_MASK.
Proof.
  intros Hp H3 H2 Hb. destruct (p2_page_spec page r Hr) as (pg' & E & Hc & Hal & I4 & I3 & I2 & I1 & _).
  rewrite E in Hp. inversion Hp; subst pg'. clear Hp.
  destruct (tab_entry_bits _ _ Hrec) as (R0 & R7 & RA). destruct (tab_entry_bits _ _ H3) as (A0 & A7 & AA).
  unfold hw_walk. rewrite I4, I3, I2, I1. rewrite R0, RA. cbn [negb]. rewrite R0, R7, RA. cbn [negb].
  rewrite A0, A7, AA. cbn [negb]. rewrite H2. unfold bit_set at 1. rewrite Hb. cbn [negb].
  eexists. split; [reflexivity|]. cbn [w_phys]. change S4K with 4096 in *. rewrite Hal. lia.
Qed.
End Recursive.
