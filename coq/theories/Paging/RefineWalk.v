(* Under Rep, the independent hardware-style walk of the table memory reads exactly what the
   tree walk reads. *)
From X86 Require Import Base.Bits Addr.Index Paging.EntryProofs Paging.Mapped Paging.MemProofs
  Paging.Tree Paging.TreeProofs Paging.Refine Paging.Run.
Require Import Lia ZifyBool.
Open Scope Z_scope.
Local Ltac Zify.zify_post_hook ::= Z.div_mod_to_equations.

Lemma tab_bits f fl : tframe f -> pflags_ok fl ->
  let e := Z.lor f fl in
  bit_set e 0 = true /\ bit_set e 7 = false /\ Z.land e ADDR_MASK = f /\
  bit_set e 1 = Z.testbit fl 1 /\ bit_set e 2 = Z.testbit fl 2.
Proof.
  intros Hf (Hfl & Hflm & Hp & Hh) e. unfold bit_set, e.
  rewrite !Z.lor_spec, Hp, Hh, !(tframe_bit f _ Hf) by lia. cbn [orb].
  split; [reflexivity|]. split; [reflexivity|]. split; [|split; reflexivity].
  apply (leaf_addr_lor f fl (tframe_mask f Hf) Hflm).
Qed.

(* the frame of a huge leaf: the masks M1G / M2M cut the leaf address down to its size *)
Lemma land_M1G w : Z.land w M1G = leaf_addr w - leaf_addr w mod S1G.
Proof.
  unfold M1G, leaf_addr, ADDR_MASK, S1G.
  change 4503598553628672 with (2 ^ 52 - 2 ^ 30). change 4503599627366400 with (2 ^ 52 - 2 ^ 12).
  rewrite !land_mask_range by lia.
  pose proof (mod_mod_pow2 w 52 30 ltac:(lia)) as H1. pose proof (mod_mod_pow2 w 30 12 ltac:(lia)) as H2.
  change (2 ^ 52) with 4503599627370496 in *. change (2 ^ 30) with 1073741824 in *. change (2 ^ 12) with 4096 in *.
  pose proof (Z.mod_pos_bound w 4503599627370496 ltac:(lia)).
  pose proof (Z.mod_pos_bound w 1073741824 ltac:(lia)). pose proof (Z.mod_pos_bound w 4096 ltac:(lia)).
  assert (w mod 4096 <= w mod 1073741824) by (rewrite <- H2; apply Z.mod_le; lia).
  assert (w mod 1073741824 <= w mod 4503599627370496) by (rewrite <- H1; apply Z.mod_le; lia).
  set (W := w mod 4503599627370496) in *. set (r30 := w mod 1073741824) in *. set (r12 := w mod 4096) in *.
  assert (Hm : (W - r12) mod 1073741824 = r30 - r12).
  { replace (W - r12) with ((r30 - r12) + (W / 1073741824) * 1073741824).
    - rewrite Z.mod_add by lia. apply Z.mod_small. lia.
    - pose proof (Z.div_mod W 1073741824 ltac:(lia)). subst r30. rewrite <- H1. fold W. lia. }
  rewrite Hm. lia.
Qed.
Lemma land_M2M w : Z.land w M2M = leaf_addr w - leaf_addr w mod S2M.
Proof.
  unfold M2M, leaf_addr, ADDR_MASK, S2M.
  change 4503599625273344 with (2 ^ 52 - 2 ^ 21). change 4503599627366400 with (2 ^ 52 - 2 ^ 12).
  rewrite !land_mask_range by lia.
  pose proof (mod_mod_pow2 w 52 21 ltac:(lia)) as H1. pose proof (mod_mod_pow2 w 21 12 ltac:(lia)) as H2.
  change (2 ^ 52) with 4503599627370496 in *. change (2 ^ 21) with 2097152 in *. change (2 ^ 12) with 4096 in *.
  pose proof (Z.mod_pos_bound w 4503599627370496 ltac:(lia)).
  pose proof (Z.mod_pos_bound w 2097152 ltac:(lia)). pose proof (Z.mod_pos_bound w 4096 ltac:(lia)).
  assert (w mod 4096 <= w mod 2097152) by (rewrite <- H2; apply Z.mod_le; lia).
  assert (w mod 2097152 <= w mod 4503599627370496) by (rewrite <- H1; apply Z.mod_le; lia).
  set (W := w mod 4503599627370496) in *. set (r21 := w mod 2097152) in *. set (r12 := w mod 4096) in *.
  assert (Hm : (W - r12) mod 2097152 = r21 - r12).
  { replace (W - r12) with ((r21 - r12) + (W / 2097152) * 2097152).
    - rewrite Z.mod_add by lia. apply Z.mod_small. lia.
    - pose proof (Z.div_mod W 2097152 ltac:(lia)). subst r21. rewrite <- H1. fold W. lia. }
  rewrite Hm. lia.
Qed.

Lemma idx_list0 va : idx_list 0 va =
  [Z.to_nat (p4_index va); Z.to_nat (p3_index va); Z.to_nat (p2_index va); Z.to_nat (p1_index va)].
Proof. reflexivity. Qed.

Theorem hw_walk_rep s ch va :
  rep 4 s ch (root s) -> enc_walk (hw_walk s va) = t_hw ch va.
Proof.
  intros Hrep. destruct (index_ranges va) as (H1 & H2 & H3 & H4 & _).
  unfold t_hw. rewrite idx_list0. unfold hw_walk.
  pose proof (proj1 (rep_unfold _ _ _ _) Hrep (p4_index va) H4) as E4.
  cbn [t_walk].
  destruct (child ch (Z.to_nat (p4_index va))) as [|w4|f4 fl4 sub4]; cbn [rep_entry] in E4.
  - rewrite E4. reflexivity.
  - destruct E4 as [_ (_ & _ & _ & Hl)]. lia.
  - destruct E4 as (E4 & Hf4 & Hfl4 & R3). rewrite E4.
    destruct (tab_bits f4 fl4 Hf4 Hfl4) as (B40 & B47 & A4 & B41 & B42).
    rewrite B40, A4. cbn [negb].
    pose proof (proj1 (rep_unfold _ _ _ _) R3 (p3_index va) H3) as E3.
    destruct (child sub4 (Z.to_nat (p3_index va))) as [|w3|f3 fl3 sub3]; cbn [rep_entry] in E3.
    + rewrite E3. reflexivity.
    + destruct E3 as [E3 (Hw3 & Hp3 & Hh3 & _)]. rewrite E3. unfold bit_set at 1. rewrite Hp3. cbn [negb].
      unfold bit_set at 1. rewrite (Hh3 ltac:(lia)).
      cbn [enc_walk w_phys w_size w_leaf w_writable w_user Z.eqb Z.sub].
      change (4 - 1 =? 3) with true. cbn iota.
      rewrite B41, B42, land_M1G. unfold bit_set.
      change (S1G - 1) with (2 ^ 30 - 1). rewrite land_ones_mod by lia. reflexivity.
    + destruct E3 as (E3 & Hf3 & Hfl3 & R2). rewrite E3.
      destruct (tab_bits f3 fl3 Hf3 Hfl3) as (B30 & B37 & A3 & B31 & B32).
      rewrite B30, B37, A3. cbn [negb].
      pose proof (proj1 (rep_unfold _ _ _ _) R2 (p2_index va) H2) as E2.
      destruct (child sub3 (Z.to_nat (p2_index va))) as [|w2|f2 fl2 sub2]; cbn [rep_entry] in E2.
      * rewrite E2. reflexivity.
      * destruct E2 as [E2 (Hw2 & Hp2 & Hh2 & _)]. rewrite E2. unfold bit_set at 1. rewrite Hp2. cbn [negb].
        unfold bit_set at 1. rewrite (Hh2 ltac:(lia)).
        cbn [enc_walk w_phys w_size w_leaf w_writable w_user].
        change (4 - 1 - 1 =? 3) with false. change (4 - 1 - 1 =? 2) with true. cbn iota.
        rewrite B41, B42, B31, B32, land_M2M. unfold bit_set.
        change (S2M - 1) with (2 ^ 21 - 1). rewrite land_ones_mod by lia. reflexivity.
      * destruct E2 as (E2 & Hf2 & Hfl2 & R1). rewrite E2.
        destruct (tab_bits f2 fl2 Hf2 Hfl2) as (B20 & B27 & A2 & B21 & B22).
        rewrite B20, B27, A2. cbn [negb].
        pose proof (proj1 (rep_unfold _ _ _ _) R1 (p1_index va) H1) as E1.
        destruct (child sub2 (Z.to_nat (p1_index va))) as [|w1|f1 fl1 sub1]; cbn [rep_entry] in E1.
        -- rewrite E1. reflexivity.
        -- destruct E1 as [E1 (Hw1 & Hp1 & _)]. rewrite E1. unfold bit_set at 1. rewrite Hp1. cbn [negb].
           cbn [enc_walk w_phys w_size w_leaf w_writable w_user].
           change (4 - 1 - 1 - 1 =? 3) with false. change (4 - 1 - 1 - 1 =? 2) with false. cbn iota.
           rewrite B41, B42, B31, B32, B21, B22. unfold bit_set.
           fold (leaf_addr w1). rewrite leaf_addr_mod_4k, Z.sub_0_r.
           change (S4K - 1) with (2 ^ 12 - 1). rewrite land_ones_mod by lia. reflexivity.
        -- destruct E1 as (_ & _ & _ & R0). cbn [rep] in R0. contradiction.
Qed.
