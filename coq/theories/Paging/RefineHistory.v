(* Histories of map_to / unmap / update_flags / set_flags_p*_entry calls on the MappedPageTable memory model: the
   table memory always represents the tree the abstract operations build, so the independent
   hardware walk of the raw memory reads exactly what the history dictates. *)
From X86 Require Import Base.Bits Addr.Index Paging.EntryProofs Paging.Mapped Paging.MemProofs
  Paging.Tree Paging.TreeProofs Paging.Refine Paging.RefineOps Paging.RefineParent Paging.RefineWalk Paging.Run.
From Coq Require Import FMapPositive.
Require Import Lia.
Open Scope Z_scope.

Lemma root_init rootf allocs ri : root (init_pstate rootf allocs ri) = rootf.
Proof.
  unfold init_pstate, zero_table.
  match goal with |- root (zero_from ?s ?a ?n) = _ => destruct (same_alloc_zero_from n s a) as (_ & _ & _ & H) end.
  rewrite H. reflexivity.
Qed.

Inductive mop :=
| MMap (k page frame flags pflags : Z)
| MUnmap (k page : Z)
| MUpdate (k page flags : Z)
| MSetParent (k level page flags : Z).
(* the calls the property quantifies over: sizes 0..2, leaf flags with PRESENT (the leaf word is
   a u64 with PRESENT, and HUGE_PAGE for the huge sizes), parent flags with PRESENT, without
   HUGE_PAGE and without address bits *)
Definition mop_ok (o : mop) : Prop :=
  match o with
  | MMap k page frame flags pf =>
      0 <= k <= 2 /\ pflags_ok pf /\ leaf_ok (Z.to_nat (k + 1)) (leaf_word k frame flags)
  | MUnmap k page => 0 <= k <= 2
  | MUpdate k page flags => 0 <= k <= 2 /\ 0 <= flags < W64 /\ Z.testbit flags 0 = true
  | MSetParent k level page flags => 2 <= level <= 4 /\ 0 <= k <= 2 /\ pflags_ok flags
  end.
Definition to_top (o : mop) : top :=
  match o with
  | MMap k page frame flags pf => OMap k page frame flags pf
  | MUnmap k page => OUnmap k page
  | MUpdate k page flags => OUpdate k page flags
  | MSetParent k level page flags => OSetParent k level page flags
  end.
Definition mem_apply (s : pstate) (o : mop) : res (pstate * out) :=
  match o with
  | MMap k page frame flags pf => map_to s k page frame flags pf
  | MUnmap k page => Ok (unmap s k page)
  | MUpdate k page flags => Ok (update_flags s k page flags)
  | MSetParent k level page flags => Ok (set_flags_parent s k level page flags)
  end.
Fixpoint mem_run (s : pstate) (ops : list mop) : res (pstate * list out) :=
  match ops with
  | [] => Ok (s, [])
  | o :: rest =>
      do r <- mem_apply s o;
      do r2 <- mem_run (fst r) rest;
      Ok (fst r2, snd r :: snd r2)
  end.

Definition Inv (s : pstate) (ch : list node) : Prop :=
  rep 4 s ch (root s) /\ tframe (root s) /\ sep s (root s) ch.
Definition tst (ch : list node) (s : pstate) (fr : list Z) : tstate :=
  {| t_root := ch; t_aor := aor_of s; t_freed := fr |}.

Theorem step_refines s ch fr r o : Inv s ch -> mop_ok o ->
  exists s' out ch', mem_apply s o = Ok (s', out) /\
    apply_op false r (tst ch s fr) (to_top o) = (tst ch' s' fr, out) /\ Inv s' ch'.
Proof.
  intros (Hrep & Ht & Hsep) Hok. destruct o as [k page frame flags pf|k page|k page flags|k level page flags]; cbn [mop_ok] in Hok.
  - destruct Hok as (Hk & Hpf & Hw).
    destruct (map_to_refines s ch k page frame flags pf Hk Hrep Ht Hsep Hpf Hw)
      as (s' & o & ch' & a' & res & Hm & Hmp & Ho & Haor & Hroot & _ & Hrep' & Hsep' & _).
    exists s', o, ch'. split; [exact Hm|]. split.
    + cbn [to_top apply_op tst t_root t_aor t_freed]. rewrite Hmp. unfold tst. rewrite Haor, Ho.
      destruct res; reflexivity.
    + split; [exact Hrep'|]. split; [rewrite Hroot; exact Ht|exact Hsep'].
  - pose proof (unmap_refines s ch k page Hok Hrep Ht Hsep) as (Ho & Hrep' & Hsep' & Hsa & _).
    exists (fst (unmap s k page)), (snd (unmap s k page)), (fst (t_unmap ch (idx_list k page) k page)).
    split; [cbn [mem_apply]; destruct (unmap s k page); reflexivity|]. split.
    + cbn [to_top apply_op tst t_root t_aor t_freed]. rewrite Ho.
      destruct (t_unmap ch (idx_list k page) k page) as [ch' o']. cbn [fst snd]. unfold tst.
      destruct (same_alloc_va _ _ Hsa) as [_ Haor]. rewrite Haor. reflexivity.
    + split; [exact Hrep'|]. split; [destruct Hsa as (_ & _ & _ & Hr); rewrite Hr; exact Ht|exact Hsep'].
  - destruct Hok as (Hk & Hfl & Hfp).
    pose proof (update_flags_refines s ch k page flags Hk Hrep Ht Hsep Hfl Hfp) as (Ho & Hrep' & Hsep' & Hsa & _).
    exists (fst (update_flags s k page flags)), (snd (update_flags s k page flags)),
           (fst (t_update_flags ch (idx_list k page) k page flags)).
    split; [cbn [mem_apply]; destruct (update_flags s k page flags); reflexivity|]. split.
    + cbn [to_top apply_op tst t_root t_aor t_freed]. rewrite Ho.
      destruct (t_update_flags ch (idx_list k page) k page flags) as [ch' o']. cbn [fst snd]. unfold tst.
      destruct (same_alloc_va _ _ Hsa) as [_ Haor]. rewrite Haor. reflexivity.
    + split; [exact Hrep'|]. split; [destruct Hsa as (_ & _ & _ & Hr); rewrite Hr; exact Ht|exact Hsep'].
  - destruct Hok as (Hl & Hk & Hfl).
    pose proof (set_flags_parent_refines s ch k level page flags fr r Hl Hk Hrep Ht Hsep Hfl)
      as (Ho & Hao & Hfr & Hrep' & Hsep' & Hsa & _).
    exists (fst (set_flags_parent s k level page flags)), (snd (set_flags_parent s k level page flags)),
           (t_root (fst (apply_op false r (tst ch s fr) (OSetParent k level page flags)))).
    split; [cbn [mem_apply]; destruct (set_flags_parent s k level page flags); reflexivity|]. split.
    + cbn [to_top]. unfold tst in *. rewrite Ho.
      destruct (apply_op false r {| t_root := ch; t_aor := aor_of s; t_freed := fr |} (OSetParent k level page flags)) as [ts o'].
      cbn [fst snd] in *. destruct ts as [tr ta tf]. cbn [t_root t_aor t_freed] in *. subst ta tf.
      destruct (same_alloc_va _ _ Hsa) as [_ Haor]. rewrite Haor. reflexivity.
    + split; [exact Hrep'|]. split; [destruct Hsa as (_ & _ & _ & Hr); rewrite Hr; exact Ht|exact Hsep'].
Qed.

Theorem run_refines ops : forall s ch fr r, Inv s ch -> Forall mop_ok ops ->
  exists s' outs ch', mem_run s ops = Ok (s', outs) /\
    run_history false r (tst ch s fr) (map to_top ops) = (tst ch' s' fr, outs) /\ Inv s' ch'.
Proof.
  induction ops as [|o rest IH]; intros s ch fr r Hinv Hok.
  - exists s, [], ch. split; [reflexivity|]. split; [reflexivity|exact Hinv].
  - inversion Hok as [|? ? Ho Hrest]; subst.
    destruct (step_refines s ch fr r o Hinv Ho) as (s1 & o1 & ch1 & Hm & Ha & Hinv1).
    destruct (IH s1 ch1 fr r Hinv1 Hrest) as (s2 & os & ch2 & Hm2 & Hr2 & Hinv2).
    exists s2, (o1 :: os), ch2. split.
    + cbn [mem_run]. rewrite Hm. cbn [bind fst snd]. rewrite Hm2. reflexivity.
    + split; [|exact Hinv2]. cbn [map run_history]. rewrite Ha, Hr2. reflexivity.
Qed.

(* the main statement at the level of raw table memory: after any such history from an empty
   level-4 table (allocator frames aligned, pairwise distinct and different from the root), the
   independent hardware walk of the memory returns, for every virtual address, the leaf word,
   page size and physical address that the history of successful calls dictates, and nothing
   where it dictates nothing *)
Theorem memory_walk_is_history_dictated rootf allocs ri ops s' outs :
  tframe rootf -> sep (init_pstate rootf allocs ri) rootf empty_children ->
  Forall mop_ok ops ->
  mem_run (init_pstate rootf allocs ri) ops = Ok (s', outs) ->
  forall va,
    match dictated (fun _ => None) (map to_top ops) outs (idx_list 0 va) with
    | None => hw_walk s' va = None
    | Some (w, n) =>
        exists wr us,
          enc_walk (hw_walk s' va) =
            [leaf_addr w - leaf_addr w mod size_of_rem n + Z.land va (size_of_rem n - 1);
             size_of_rem n; w; b2z wr; b2z us]
    end.
Proof.
  intros Hroot Hsep Hok Hrun va.
  assert (Hinv : Inv (init_pstate rootf allocs ri) empty_children).
  { unfold Inv. rewrite root_init. split; [apply rep_init; destruct Hroot; lia|]. split; [exact Hroot|exact Hsep]. }
  destruct (run_refines ops _ _ [] 0 Hinv Hok) as (s2 & outs2 & ch' & Hm & Hr & (Hrep & _ & _)).
  rewrite Hrun in Hm. inversion Hm; subst s2 outs2. clear Hm.
  assert (Hlook : forall path, lookup ch' path = dictated (fun _ => None) (map to_top ops) outs path).
  { intros path.
    apply (history_dictates false 0 (map to_top ops) (tst empty_children (init_pstate rootf allocs ri) []) (fun _ => None)
             (tst ch' s' []) outs Hr).
    intros p. apply lookup_empty. }
  pose proof (hw_walk_rep s' ch' va Hrep) as Hw.
  pose proof (translate_hw_agree ch' va) as Hag. rewrite Hlook in Hag.
  destruct (dictated (fun _ => None) (map to_top ops) outs (idx_list 0 va)) as [[w n]|].
  - destruct Hag as [_ (wr & us & Hh)]. exists wr, us. rewrite Hw. exact Hh.
  - destruct Hag as [_ Hh]. rewrite Hh in Hw. destruct (hw_walk s' va); [discriminate|reflexivity].
Qed.

(* non-vacuity: a concrete initial state and history satisfy every hypothesis *)
Lemma va_init rootf allocs ri : va (init_pstate rootf allocs ri) = filter valid_alloc allocs.
Proof.
  unfold va, init_pstate, zero_table.
  match goal with |- filter _ (alloc (zero_from ?s ?a ?n)) = _ => destruct (same_alloc_zero_from n s a) as (H & _) end.
  rewrite H. reflexivity.
Qed.
Example hypotheses_satisfiable :
  let allocs := [2097152; 3145728; 5242880; -1] in
  let ops := [MMap 0 4096 8192 3 7; MMap 1 2097152 4194304 1 1; MSetParent 0 4 4096 3; MUnmap 0 4096; MUpdate 1 2097152 3] in
  tframe 1048576 /\ sep (init_pstate 1048576 allocs 0) 1048576 empty_children /\ Forall mop_ok ops /\
  exists s' outs, mem_run (init_pstate 1048576 allocs 0) ops = Ok (s', outs) /\
    outs = [[0; 4096]; [0; 2097152]; [0]; [0; 8192; 4096]; [0; 2097152]].
Proof.
  cbv zeta. split; [unfold tframe, P52; lia|]. split.
  - unfold sep. rewrite va_init, frames_of_empty_children. cbn [app filter valid_alloc].
    vm_compute filter. split.
    + repeat constructor; cbn; intuition lia.
    + repeat constructor; unfold P52; cbn; lia.
  - split.
    + repeat constructor; cbn; try lia; unfold P52, W64; try lia; try reflexivity.
    + eexists _, _. split; [vm_compute; reflexivity|reflexivity].
Qed.
