(* The complete refinement theorem: the memory model of MappedPageTable refines the tree model,
   for histories of map_to / unmap / update_flags / set_flags_p*_entry / clean_up_addr_range
   calls: no panic, the same outputs, and final table memory that represents the tree model's
   final tree, with the same allocator state and the same released frames in the same order. *)
From Coq Require Import FMapPositive.
From X86 Require Import Base.Bits Addr.Canon Addr.Index Paging.EntryProofs Paging.Mapped Paging.MemProofs
  Paging.Tree Paging.TreeProofs Paging.Refine Paging.RefineOps Paging.RefineParent Paging.RefineWalk
  Paging.RefineHistory Paging.RefineClean Paging.RefineHistoryClean Paging.TreeClean Paging.RefineCleanExact
  Paging.CleanArith Paging.Run.
Require Import Lia.
Open Scope Z_scope.

(* the calls the properties quantify over; a clean-up range is a range of Page<Size4KiB>: canonical, page-aligned bounds *)
Definition cop_ok2 (c : cop) : Prop :=
  match c with
  | CCall o => mop_ok o
  | CClean rs re => canonical rs /\ canonical re /\ rs mod 4096 = 0 /\ re mod 4096 = 0
  end.

Fixpoint tree_run (r : Z) (st : tstate) (ops : list top) : tstate * list out :=
  match ops with
  | [] => (st, [])
  | o :: rest =>
      let '(st1, o1) := apply_op false r st o in
      let '(st2, os) := tree_run r st1 rest in (st2, o1 :: os)
  end.

(* ---------- the four calls leave the log of released frames alone ---------- *)
Lemma mem_apply_freed s ch o s' out :
  Inv s ch -> mop_ok o -> mem_apply s o = Ok (s', out) -> freed s' = freed s.
Proof.
  intros (Hrep & Ht & Hsep) Hok H.
  destruct o as [k page frame flags pf|k page|k page flags|k level page flags]; cbn [mop_ok mem_apply] in *.
  - destruct Hok as (Hk & Hpf & Hw).
    destruct (map_to_refines s ch k page frame flags pf Hk Hrep Ht Hsep Hpf Hw)
      as (s1 & o1 & ch' & a' & res & Hm & _ & _ & _ & _ & Hfr & _).
    rewrite H in Hm. inversion Hm; subst. exact Hfr.
  - pose proof (unmap_refines s ch k page Hok Hrep Ht Hsep) as (_ & _ & _ & Hsa & _).
    inversion H as [H1]. rewrite H1 in Hsa. destruct Hsa as (_ & _ & Hf & _). exact Hf.
  - destruct Hok as (Hk & Hfl & Hfp).
    pose proof (update_flags_refines s ch k page flags Hk Hrep Ht Hsep Hfl Hfp) as (_ & _ & _ & Hsa & _).
    inversion H as [H1]. rewrite H1 in Hsa. destruct Hsa as (_ & _ & Hf & _). exact Hf.
  - destruct Hok as (Hl & Hk & Hfl).
    pose proof (set_flags_parent_refines s ch k level page flags [] 0 Hl Hk Hrep Ht Hsep Hfl)
      as (_ & _ & _ & _ & _ & Hsa & _).
    inversion H as [H1]. rewrite H1 in Hsa. destruct Hsa as (_ & _ & Hf & _). exact Hf.
Qed.

(* ---------- well-formedness is preserved by the tree operations of the four calls ---------- *)
Lemma child_wf ch i : wf_children ch -> wf_node (child ch i).
Proof.
  intros [_ Hf]. unfold child. destruct (nth_in_or_default i ch Empty) as [Hin | Hd]; [|rewrite Hd; exact I].
  rewrite Forall_forall in Hf. apply Hf. exact Hin.
Qed.

Lemma child_tab_wf ch i f fl sub : wf_children ch -> child ch i = Tab f fl sub -> wf_children sub.
Proof.
  intros Hw Hc. apply (wf_node_tab f fl). rewrite <- Hc. apply child_wf. exact Hw.
Qed.

Lemma small_cons i rest : small (i :: rest) -> (i < 512)%nat /\ small rest.
Proof. intros H. inversion H; subst. split; assumption. Qed.

Lemma map_path_wf rc idxs : forall ch w frame page pf a,
  small idxs -> wf_children ch ->
  wf_children (fst (fst (map_path rc ch idxs w frame page pf a))).
Proof.
  induction idxs as [|i rest IH]; intros ch w frame page pf a Hs Hw; [exact Hw|].
  apply small_cons in Hs. destruct Hs as [Hi Hrest].
  destruct rest as [|j rest'].
  - cbn [map_path]. destruct (child ch i); cbn [fst]; [|exact Hw|exact Hw].
    apply set_child_wf; [exact Hi|exact I|exact Hw].
  - change (map_path rc ch (i :: j :: rest') w frame page pf a) with
      (match child ch i with
       | Empty =>
           match t_alloc a with
           | (None, a') => (ch, a', TErr [E_ALLOC_FAILED])
           | (Some f, a') =>
               let '(ch', a'', r) := map_path rc empty_children (j :: rest') w frame page pf a' in
               (set_child ch i (Tab f (new_parent_flags rc pf) ch'), a'', r)
           end
       | Leaf _ => (ch, a, TErr [E_PARENT_HUGE])
       | Tab f fl sub =>
           let '(sub', a', r) := map_path rc sub (j :: rest') w frame page pf a in
           (set_child ch i (Tab f (widen fl pf) sub'), a', r)
       end).
    destruct (child ch i) as [|lw|f fl sub] eqn:Hc.
    + destruct (t_alloc a) as [[f|] a']; [|exact Hw].
      pose proof (IH empty_children w frame page pf a' Hrest wf_empty_children) as Hsub.
      destruct (map_path rc empty_children (j :: rest') w frame page pf a') as [[ch' a''] r].
      cbn [fst] in *. apply set_child_wf; [exact Hi|apply wf_node_tab; exact Hsub|exact Hw].
    + exact Hw.
    + pose proof (IH sub w frame page pf a Hrest (child_tab_wf ch i f fl sub Hw Hc)) as Hsub.
      destruct (map_path rc sub (j :: rest') w frame page pf a) as [[sub' a'] r].
      cbn [fst] in *. apply set_child_wf; [exact Hi|apply wf_node_tab; exact Hsub|exact Hw].
Qed.

Lemma set_slot_wf n idxs : forall ch,
  small idxs -> wf_node n -> wf_children ch -> wf_children (set_slot ch idxs n).
Proof.
  induction idxs as [|i rest IH]; intros ch Hs Hn Hw; [exact Hw|].
  apply small_cons in Hs. destruct Hs as [Hi Hrest].
  destruct rest as [|j rest'].
  - cbn [set_slot]. apply set_child_wf; assumption.
  - change (set_slot ch (i :: j :: rest') n) with
      (match child ch i with
       | Tab f fl sub => set_child ch i (Tab f fl (set_slot sub (j :: rest') n))
       | _ => ch
       end).
    destruct (child ch i) as [|lw|f fl sub] eqn:Hc; [exact Hw|exact Hw|].
    apply set_child_wf; [exact Hi| |exact Hw].
    apply wf_node_tab. apply IH; [exact Hrest|exact Hn|]. apply (child_tab_wf ch i f fl sub Hw Hc).
Qed.

Lemma slot_at_wf idxs : forall ch n,
  wf_children ch -> slot_at ch idxs = inl n -> wf_node n.
Proof.
  induction idxs as [|i rest IH]; intros ch n Hw H; [discriminate|].
  destruct rest as [|j rest'].
  - cbn [slot_at] in H. inversion H; subst. apply child_wf. exact Hw.
  - change (slot_at ch (i :: j :: rest')) with
      (match child ch i with
       | Empty => inr [E_NOT_MAPPED]
       | Leaf _ => inr [E_PARENT_HUGE]
       | Tab _ _ sub => slot_at sub (j :: rest')
       end) in H.
    destruct (child ch i) as [|lw|f fl sub] eqn:Hc; [discriminate|discriminate|].
    apply (IH sub n); [apply (child_tab_wf ch i f fl sub Hw Hc)|exact H].
Qed.

Lemma small_firstn n : forall idxs, small idxs -> small (firstn n idxs).
Proof.
  induction n as [|n IH]; intros idxs Hs; [apply Forall_nil|].
  destruct idxs as [|i rest]; [apply Forall_nil|].
  apply small_cons in Hs. destruct Hs as [Hi Hr]. cbn [firstn]. apply Forall_cons; [exact Hi|apply IH; exact Hr].
Qed.

Lemma apply_op_wf r st o :
  wf_children (t_root st) -> wf_children (t_root (fst (apply_op false r st (to_top o)))).
Proof.
  intros Hw. destruct o as [k page frame flags pf|k page|k page flags|k level page flags]; cbn [to_top apply_op].
  - pose proof (map_path_wf false (idx_list k page) (t_root st) (leaf_word k frame flags) frame page pf (t_aor st)
                  (idx_list_small k page) Hw) as H.
    destruct (map_path false (t_root st) (idx_list k page) (leaf_word k frame flags) frame page pf (t_aor st))
      as [[ch' a'] res]. cbn [fst t_root] in *. exact H.
  - unfold t_unmap. destruct (slot_at (t_root st) (idx_list k page)) as [[|w|f fl sub]|e]; cbn [fst t_root]; try exact Hw.
    destruct (negb (leaf_addr w mod size_of_kind k =? 0)); cbn [fst t_root]; [exact Hw|].
    apply set_slot_wf; [apply idx_list_small|exact I|exact Hw].
  - unfold t_update_flags. destruct (slot_at (t_root st) (idx_list k page)) as [[|w|f fl sub]|e]; cbn [fst t_root]; try exact Hw.
    apply set_slot_wf; [apply idx_list_small|exact I|exact Hw].
  - destruct ((level =? 3) && (k =? 2))%bool; [exact Hw|].
    destruct ((level =? 2) && negb (k =? 0))%bool; [exact Hw|].
    unfold t_set_flags_parent.
    destruct (slot_at (t_root st) (firstn (Z.to_nat (5 - level)) (idx_list 0 page))) as [[|w|f fl sub]|e] eqn:Hs;
      cbn [fst t_root]; try exact Hw.
    apply set_slot_wf; [apply small_firstn; apply idx_list_small| |exact Hw].
    apply wf_node_tab. apply (wf_node_tab f fl). apply (slot_at_wf _ _ _ Hw Hs).
Qed.

(* ---------- one call ---------- *)
Lemma cstep_refines s ch c : Inv s ch -> wf_children ch -> cop_ok2 c ->
  exists s' out ch',
    cmem_apply s c = Ok (s', out) /\
    apply_op false 0 (tst ch s (rev (freed s))) (cop_top c) = (tst ch' s' (rev (freed s')), out) /\
    Inv s' ch' /\ wf_children ch'.
Proof.
  intros Hinv Hwf Hok. destruct c as [o|rs re]; cbn [cop_ok2 cmem_apply cop_top] in *.
  - destruct (step_refines s ch (rev (freed s)) 0 o Hinv Hok) as (s' & out & ch' & Hm & Ha & Hinv').
    exists s', out, ch'. split; [exact Hm|].
    rewrite (mem_apply_freed s ch o s' out Hinv Hok Hm).
    split; [exact Ha|]. split; [exact Hinv'|].
    pose proof (apply_op_wf 0 (tst ch s (rev (freed s))) o Hwf) as H.
    rewrite Ha in H. exact H.
  - destruct Hok as (Hcs & Hce & Hms & Hme). destruct Hinv as (Hrep & Ht & Hsep).
    pose proof (clean_up_addr_range_exact s ch rs re Hrep Ht Hsep) as Hex.
    rewrite (t_clean_range_is_prune ch rs re Hwf Hcs Hce Hms Hme) in Hex.
    cbn [apply_op tst t_root t_aor t_freed].
    destruct (re <? rs) eqn:E.
    + destruct Hex as (s' & Hc & R1 & S1 & F1 & A1 & N1 & Ro1 & _).
      exists s', [0], ch. rewrite Hc. cbn [rmap]. split; [reflexivity|].
      cbn [rev app] in F1. split.
      * unfold tst, aor_of. rewrite F1, A1, N1. reflexivity.
      * split; [|exact Hwf]. split; [exact R1|]. split; [rewrite Ro1; exact Ht|exact S1].
    + pose proof (prune_wf (page_pos rs) (page_pos re) (-1) ch 0 Hwf) as Hpw.
      destruct (prune 4 (page_pos rs) (page_pos re) (-1) ch 0) as [ch' fr].
      destruct Hex as (s' & Hc & R1 & S1 & F1 & A1 & N1 & Ro1 & _).
      exists s', [0], ch'. rewrite Hc. cbn [rmap]. split; [reflexivity|]. split.
      * unfold tst, aor_of. rewrite F1, A1, N1, rev_app_distr, rev_involutive. reflexivity.
      * split; [|exact Hpw]. split; [exact R1|]. split; [rewrite Ro1; exact Ht|exact S1].
Qed.

(* every history runs to completion on the memory model (no panic), produces exactly the
   outputs of the tree model, and ends in table memory that represents the tree model's final
   tree, with the same allocator state and the same released frames in the same order *)
Theorem cmem_run_refines ops : forall s ch,
  Inv s ch -> wf_children ch -> Forall cop_ok2 ops ->
  exists s' ch',
    cmem_run s ops = Ok (s', snd (tree_run 0 (tst ch s (rev (freed s))) (map cop_top ops))) /\
    fst (tree_run 0 (tst ch s (rev (freed s))) (map cop_top ops)) = tst ch' s' (rev (freed s')) /\
    Inv s' ch' /\ wf_children ch'.
Proof.
  induction ops as [|c rest IH]; intros s ch Hinv Hwf Hok.
  - exists s, ch. cbn [map tree_run cmem_run fst snd]. split; [reflexivity|]. split; [reflexivity|]. split; [exact Hinv|exact Hwf].
  - inversion Hok as [|? ? Hc Hrest]; subst.
    destruct (cstep_refines s ch c Hinv Hwf Hc) as (s1 & o1 & ch1 & Hm & Ha & Hinv1 & Hwf1).
    destruct (IH s1 ch1 Hinv1 Hwf1 Hrest) as (s2 & ch2 & Hr & Hf & Hinv2 & Hwf2).
    exists s2, ch2. cbn [map tree_run cmem_run]. rewrite Hm, Ha. cbn [bind fst snd]. rewrite Hr.
    destruct (tree_run 0 (tst ch1 s1 (rev (freed s1))) (map cop_top rest)) as [st2 os].
    cbn [bind fst snd] in *. split; [reflexivity|]. split; [exact Hf|]. split; [exact Hinv2|exact Hwf2].
Qed.

(* the initial state of the memory model is the initial state of the tree model *)
Lemma tst_init rootf allocs ri :
  tst empty_children (init_pstate rootf allocs ri) (rev (freed (init_pstate rootf allocs ri))) = t_init allocs.
Proof.
  unfold tst, t_init, aor_of, init_pstate, zero_table.
  match goal with |- context [zero_from ?s ?a ?n] =>
    destruct (same_alloc_zero_from n s a) as (H1 & H2 & H3 & _) end.
  rewrite H1, H2, H3. reflexivity.
Qed.

Theorem mapped_model_refines_tree_model rootf allocs ri ops :
  tframe rootf -> sep (init_pstate rootf allocs ri) rootf empty_children -> Forall cop_ok2 ops ->
  exists s' ch',
    cmem_run (init_pstate rootf allocs ri) ops = Ok (s', snd (tree_run 0 (t_init allocs) (map cop_top ops))) /\
    fst (tree_run 0 (t_init allocs) (map cop_top ops)) = tst ch' s' (rev (freed s')) /\
    Inv s' ch' /\ wf_children ch'.
Proof.
  intros Hroot Hsep Hok.
  assert (Hinv : Inv (init_pstate rootf allocs ri) empty_children).
  { unfold Inv. rewrite root_init. split; [apply rep_init; destruct Hroot; lia|]. split; [exact Hroot|exact Hsep]. }
  pose proof (cmem_run_refines ops _ _ Hinv wf_empty_children Hok) as H.
  rewrite tst_init in H. exact H.
Qed.

Print Assumptions cmem_run_refines.
Print Assumptions mapped_model_refines_tree_model.

(* clean_up_addr_range of the memory model, for every range of 4 KiB pages: it runs to completion,
   the table memory afterwards represents exactly the tree `prune` leaves, and the frames handed to
   the deallocator are exactly the ones `prune` releases, in its order (children before their
   parent, slots ascending) *)
Theorem clean_up_addr_range_is_prune s ch rs re :
  rep 4 s ch (root s) -> tframe (root s) -> sep s (root s) ch -> wf_children ch ->
  canonical rs -> canonical re -> rs mod 4096 = 0 -> re mod 4096 = 0 ->
  exists s', clean_up_addr_range s rs re = Ok s' /\
    rep 4 s' (fst (if re <? rs then (ch, []) else prune 4 (page_pos rs) (page_pos re) (-1) ch 0)) (root s') /\
    sep s' (root s') (fst (if re <? rs then (ch, []) else prune 4 (page_pos rs) (page_pos re) (-1) ch 0)) /\
    freed s' = rev (snd (if re <? rs then (ch, []) else prune 4 (page_pos rs) (page_pos re) (-1) ch 0)) ++ freed s /\
    alloc s' = alloc s /\ nalloc s' = nalloc s /\ root s' = root s /\
    (forall a, 0 <= a -> ~ in_frames (root s :: frames_of ch) a -> rd s' a = rd s a).
Proof.
  intros Hrep Ht Hsep Hwf Hcs Hce Has Hae.
  pose proof (clean_up_addr_range_exact s ch rs re Hrep Ht Hsep) as Hex.
  rewrite (t_clean_range_is_prune ch rs re Hwf Hcs Hce Has Hae) in Hex.
  destruct (if re <? rs then (ch, []) else prune 4 (page_pos rs) (page_pos re) (-1) ch 0) as [ch' fr].
  destruct Hex as (s' & Hc & R & S & F & A & N & Ro & O).
  exists s'. cbn [fst snd]. repeat (split; [assumption|]). exact O.
Qed.
Print Assumptions clean_up_addr_range_is_prune.
