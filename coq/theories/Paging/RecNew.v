(* RecursivePageTable::new (the validation of the table reference) and the recursive table
   addresses p3_page / p2_page / p1_page (src/structures/paging/mapper/recursive_page_table.rs),
   with the correspondence interface of engine "rec". *)
From X86 Require Export Paging.Recursive.
Open Scope Z_scope.

(* table_addr: the address of the &mut PageTable; entry j of that table; cr3: the raw CR3 value *)
Definition rec_new_at (table_addr cr3 : Z) (entry : Z -> Z) : res out :=
  do va <- va_new table_addr;
  do page <- page_containing S4K va;
  let r := p4_index page in
  if negb (p3_index page =? r) || negb (p2_index page =? r) || negb (p1_index page =? r)
  then Ok [E_NOT_RECURSIVE]
  else
    (* Cr3::read().0 = PhysFrame::containing_address(PhysAddr::new(value & 0x000f_ffff_ffff_f000)) *)
    do cr3a <- pa_new (Z.land cr3 ADDR_MASK);
    do cr3f <- frame_containing S4K cr3a;
    do fr <- pte_frame (entry r);
    match fr with
    | Some f => if f =? cr3f then Ok [0; r] else Ok [E_NOT_ACTIVE]
    | None => Ok [E_NOT_ACTIVE]
    end.

(* the table the harness builds: entry j holds frame (j+1)*4096, present; one slot is overridden *)
Definition filler (j : Z) : Z := Z.lor (Z.shiftl (j + 1) 12) 1.
Definition table_with (slot e : Z) (j : Z) : Z := if j =? slot then e else filler j.

Definition enc (r : res Z) : list Z := match r with Ok v => [v] | Panic => [PANIC] end.
Definition run_rec (oc : bool) (c : list Z) : list Z :=
  match c with
  | [1; table_addr; cr3; slot; e] =>
      match rec_new_at table_addr cr3 (table_with slot e) with Ok o => o | Panic => [PANIC] end
  (* a table reference the harness cannot back with memory (upper half): only how far the
     constructor gets - 43 = NotRecursive returned before anything is read, 42 = the address was
     accepted as recursive and CR3 is read next *)
  | [5; table_addr] =>
      match rec_new_at table_addr 0 (fun _ => 0) with
      | Ok o => if (match o with c :: _ => c =? E_NOT_RECURSIVE | [] => false end) then [43] else [42]
      | Panic => [46]
      end
  | [2; page; r] => enc (p3_page page r)
  | [3; page; r] => enc (p2_page page r)
  | [4; page; r] => enc (p1_page page r)
  | _ => [-99]
  end.
