(* RecursivePageTable::clean_up_addr_range on table memory releases exactly what `prune` with the
   recursive slot skipped releases, and leaves exactly prune's tree (part 4: the level-4 table,
   which is only partially represented -- every slot except the recursive one -- and whose
   recursive slot is skipped by the loop). *)
From Coq Require Import FMapPositive.
From X86 Require Import Base.Bits Addr.Canon Addr.Align Addr.Step Addr.Index Paging.EntryProofs Paging.Mapped
  Paging.MemProofs Paging.Tree Paging.TreeProofs Paging.Refine Paging.RefineOps Paging.RefineClean
  Paging.TreeClean Paging.RefineCleanExact Paging.CleanArith Paging.Recursive Paging.RecNewProofs
  Paging.RecResolve Paging.RecRead Paging.RecRefineTop Paging.RefineHistory Paging.RecRefine
  Paging.RecCleanLoop Paging.RecCleanTable Paging.RecCleanLevels.
Require Import Lia ZifyBool Permutation.
Open Scope Z_scope.
Local Ltac Zify.zify_post_hook ::= Z.div_mod_to_equations.

(* ---------- the level-4 table ---------- *)
Definition ctx4 (r rt : Z) (s : pstate) : Prop :=
  root s = rt /\ rec_index s = r /\ tab_entry (rd s (rt + 8 * r)) rt.

Lemma ctx4_deref r rt s i f sp : 0 <= r < 512 -> ctx4 r rt s -> 0 <= i < 512 ->
  tab_entry (rd s (rt + 8 * i)) f -> 0 + i * 134217728 <= sp < 0 + i * 134217728 + 134217728 ->
  exists tpv, rtp 4 (addr sp) (rec_index s) = Ok tpv /\ deref s tpv = Some f.
Proof.
  intros Hr (Hro & Hri & Hrec) Hi Hf Hsp.
  subst rt. rewrite Hri. unfold rtp. change (4 =? 4) with true. cbv iota.
  destruct (p3_page_spec (addr sp) r Hr) as (pg & E & _). exists pg. split; [exact E|].
  apply deref_ok.
  assert (Hspn : 0 <= sp < NP) by (unfold NP; lia).
  destruct (idx_addr sp Hspn) as (I4 & _).
  apply (p3_page_resolves s r Hr Hrec (addr sp) pg f E).
  rewrite I4. replace ((sp / 134217728) mod 512) with i by lia. exact Hf.
Qed.

Lemma ctx4_child r rt s i f : ctx4 r rt s -> 0 <= i < 512 ->
  tab_entry (rd s (rt + 8 * i)) f -> ctx3 r rt [rt] (0 + i * 134217728) f s.
Proof.
  intros (Hro & Hri & Hrec) Hi Hf.
  split; [exact Hro|]. split; [exact Hri|]. split; [exact Hrec|]. split; [left; reflexivity|].
  replace (((0 + i * 134217728) / 134217728) mod 512) with i by lia. exact Hf.
Qed.

Theorem rclean_level4 r s ch prs pre :
  rInv r s ch -> wf_children ch -> 0 <= prs -> prs <= pre -> pre < NP ->
  exists s' b, rclean_up_l 5 s (root s) 4 (addr prs) (addr pre) = Ok (s', b) /\
    cpost (fun s0 c => prep r 3 s0 c (root s)) r s (root s) ch s'
      (fst (prune 4 prs pre r ch 0)) (snd (prune 4 prs pre r ch 0)).
Proof.
  intros (Hr & Hri & Hx & Ht & Hsep) Hwf Hs0 Hle HeN.
  destruct (proj1 (repx_prep r s ch) Hx) as (Hrec & Hprep).
  set (rt := root s) in *.
  assert (Hp : 0 <= prs < NP /\ 0 <= pre < NP) by lia.
  assert (HWv : 134217728 = 512 \/ 134217728 = 262144 \/ 134217728 = 134217728) by (right; right; reflexivity).
  assert (Hbm : 0 mod (512 * 134217728) = 0) by reflexivity.
  destruct (idx_facts 134217728 0 prs HWv ltac:(lia) Hbm) as (Hs1 & Hs2 & Hs3); [unfold NP in *; lia|].
  destruct (idx_facts 134217728 0 pre HWv ltac:(lia) Hbm) as (He1 & He2 & _); [unfold NP in *; lia|].
  rewrite (prune_S2 2). change (512 ^ Z.of_nat 3) with 134217728.
  destruct (rtable_prune (rclean_up_l 4) (prune 3 prs pre (-1)) 3%nat 4 134217728 0 prs pre prs pre
              ((prs / 134217728) mod 512) ((pre / 134217728) mod 512) r rt (frames_of ch) (ctx4 r rt))
    with (ch := ch) (s := s) as (s' & Eloop & Hpost); try assumption; try (unfold NP in *; lia).
  - unfold tlevel. lia.
  - reflexivity.
  - (* HStab *)
    intros s0 s1 (Hro0 & Hri0 & Hrec0) _ Hk Hro1 Hri1.
    split; [congruence|]. split; [congruence|]. rewrite (Hk Hr). exact Hrec0.
  - (* HSkip *)
    intros s0 i (_ & Hri0 & _) Hi. rewrite Hri0. reflexivity.
  - (* HDeref *)
    intros s0 i f sp HC0 Hi _ Hf Hsp.
    apply (ctx4_deref r rt s0 i f sp Hr HC0 Hi Hf Hsp).
  - (* HRec *)
    intros s0 i f sub sp ep HC0 Hi _ Hf Hsub Hft Hsep0 Hwfs Hincl Hnot Hl1 Hl2 Hl3 Hf1 Hf2 Hf3 Hf4 Hf5.
    change (4 - 1) with 3.
    apply (rclean_level3 r rt Hr s0 f sub sp ep (0 + i * 134217728) prs pre [rt] Hwfs Hsub Hft Hsep0
             (ctx4_child r rt s0 i f HC0 Hi Hf)); try (unfold NP in *; lia).
    intros a (g & [<-|[]] & Hga) Hin. exact (Hnot a Hga Hin).
  - intros sub lo Hs. apply prune_wf_gen. exact Hs.
  - split; [reflexivity|]. split; [exact Hri|exact Hrec].
  - apply incl_refl.
  - exists s', (table_all_unused s' rt). split; [|exact Hpost].
    rewrite rclean_up_l_unfold. rewrite addr_ltb_false by lia.
    rewrite (align_table prs 4) by lia. cbn [bind]. change (4 =? 1) with false. cbv iota.
    change (span 4) with 134217728. rewrite Hs3. rewrite !pti_addr by lia. change (span 4) with 134217728.
    rewrite Eloop. reflexivity.
Qed.

(* the skipped slot of the tree is left as it was *)
Lemma prune_children_skip (P : list node -> Z -> list node * list Z) ch : forall i j base W RS RE skip,
  i + Z.of_nat j = skip ->
  child (fst (prune_children P ch i base W RS RE skip)) j = child ch j.
Proof.
  induction ch as [|n rest IH]; intros i j base W RS RE skip Hij; [reflexivity|].
  rewrite prune_children_cons. cbv zeta. cbn [fst]. destruct j as [|j].
  - unfold child. cbn [nth]. destruct n as [|w|f fl sub]; try reflexivity.
    replace (i =? skip) with true by lia. rewrite !Bool.orb_true_r. reflexivity.
  - change (child (?x :: ?l) (S j)) with (child l j). apply IH. lia.
Qed.

Lemma prune4_skip rs re r ch : 0 <= r ->
  child (fst (prune 4 rs re r ch 0)) (Z.to_nat r) = child ch (Z.to_nat r).
Proof. intros Hr. rewrite (prune_S2 2). apply prune_children_skip. lia. Qed.

(* ---------- clean_up_addr_range (with the loop as a named function) ---------- *)
Theorem rclean_up_addr_range_l_is_prune r s ch rs re :
  rInv r s ch -> wf_children ch ->
  canonical rs -> canonical re -> rs mod 4096 = 0 -> re mod 4096 = 0 ->
  exists s', rclean_up_addr_range_l s rs re = Ok s' /\
    faulted s' = faulted s /\
    rInv r s' (fst (if re <? rs then (ch, []) else prune 4 (page_pos rs) (page_pos re) r ch 0)) /\
    freed s' = rev (snd (if re <? rs then (ch, []) else prune 4 (page_pos rs) (page_pos re) r ch 0)) ++ freed s /\
    alloc s' = alloc s /\ nalloc s' = nalloc s /\ root s' = root s /\
    wf_children (fst (if re <? rs then (ch, []) else prune 4 (page_pos rs) (page_pos re) r ch 0)) /\
    child (fst (if re <? rs then (ch, []) else prune 4 (page_pos rs) (page_pos re) r ch 0)) (Z.to_nat r) =
      child ch (Z.to_nat r) /\
    (forall a, 0 <= a -> ~ in_frames (root s :: frames_of ch) a -> rd s' a = rd s a).
Proof.
  intros Hinv Hwf Hcs Hce Hms Hme. unfold rclean_up_addr_range_l.
  destruct (re <? rs) eqn:E.
  - exists s. rewrite rclean_up_l_unfold, E. cbn [rmap fst snd rev app].
    repeat (split; [first [reflexivity|assumption]|]). intros; reflexivity.
  - destruct (addr_of rs Hcs Hms) as [Hps Hrs]. destruct (addr_of re Hce Hme) as [Hpe Hre].
    set (prs := page_pos rs) in *. set (pre := page_pos re) in *.
    assert (Hle : prs <= pre).
    { apply (addr_le prs pre Hps Hpe). rewrite <- Hrs, <- Hre. lia. }
    destruct (rclean_level4 r s ch prs pre Hinv Hwf ltac:(lia) Hle ltac:(lia)) as (s' & b & Ec & Hpost).
    rewrite <- Hrs, <- Hre in Ec.
    exists s'. rewrite Ec. cbn [rmap fst]. split; [reflexivity|].
    pose proof (cpost_sep _ _ _ _ _ _ _ _ Hpost (proj2 (proj2 (proj2 (proj2 Hinv))))) as Hsep'.
    destruct Hpost as (R1 & _ & F1 & A1 & N1 & Ro1 & O1 & K1 & Fa1 & Ri1).
    destruct Hinv as (Hr & Hri & Hx & Ht & Hsep).
    destruct (proj1 (repx_prep r s ch) Hx) as (Hrec & _).
    split; [exact Fa1|]. split.
    { split; [exact Hr|]. split; [congruence|]. rewrite Ro1. split; [|split; [exact Ht|exact Hsep']].
      apply repx_prep. rewrite Ro1. split; [rewrite (K1 Hr); exact Hrec|exact R1]. }
    split; [exact F1|]. split; [exact A1|]. split; [exact N1|]. split; [exact Ro1|].
    split; [apply prune_wf; exact Hwf|]. split; [apply prune4_skip; lia|exact O1].
Qed.

(* ---------- the bridge to Recursive.rclean_up ---------- *)
(* The one-step unfolding of Recursive.rclean_up.  It holds by computation (delta, iota), but the
   kernel cannot check it: rclean_up writes its loop as an anonymous `fix` applied to the literal
   512, and to compare `rclean_up (S f) ...` with any other term the kernel first reduces that fix
   on the literal on both sides, in each of its five recursive occurrences, 512 levels deep.  If
   Recursive.v defines the loop as the named function rcu_loop (as Mapped.v does with cu_loop),
   this is `reflexivity` (cf. rclean_up_l_unfold, RefineClean.clean_up_unfold). *)
Definition rclean_up_unfold_eq : Prop := forall f s table level rs re,
  rclean_up (S f) s table level rs re =
    if re <? rs then Ok (s, false) else
    do table_addr <- va_align_down rs (table_alignment level);
    do s' <- (if level =? 1 then Ok s
              else rcu_loop (rclean_up f) table level table_addr rs re
                     (page_table_index re level) 512%nat (page_table_index rs level) s);
    Ok (s', table_all_unused s' table).

Lemma rcu_loop_ext rec1 rec2 : (forall s t l a b, rec1 s t l a b = rec2 s t l a b) ->
  forall table level ta rs re e n i s,
  rcu_loop rec1 table level ta rs re e n i s = rcu_loop rec2 table level ta rs re e n i s.
Proof.
  intros H table level ta rs re e. induction n as [|n IH]; intros i s; [reflexivity|].
  rewrite !rcu_loop_S.
  destruct (e <? i); [reflexivity|].
  destruct ((level =? 4) && (i =? rec_index s))%bool; [apply IH|].
  destruct (e_huge (rd s (table + 8 * i))); [apply IH|].
  destruct (negb (e_present (rd s (table + 8 * i)))); [apply IH|].
  destruct (mul64 true (entry_alignment level) i) as [m|]; cbn [bind]; [|reflexivity].
  destruct (forward_checked_u64 ta m) as [st0|]; cbn [bind]; [|reflexivity].
  destruct (unwrap st0) as [st|]; cbn [bind]; [|reflexivity].
  destruct (va_add st (entry_alignment level - 1)) as [en|]; cbn [bind]; [|reflexivity].
  destruct (page_containing S4K st) as [sp|]; cbn [bind]; [|reflexivity].
  destruct (page_containing S4K en) as [ep|]; cbn [bind]; [|reflexivity].
  destruct (rtp level (pmax sp rs) (rec_index s)) as [tpv|]; cbn [bind]; [|reflexivity].
  destruct (deref s tpv) as [t0|]; [|reflexivity].
  rewrite H. destruct (rec2 s t0 (level - 1) (pmax sp rs) (pmin ep re)) as [[s1 b]|]; cbn [bind fst snd]; [|reflexivity].
  destruct b; apply IH.
Qed.

Lemma rclean_up_bridge : rclean_up_unfold_eq ->
  forall fuel s table level rs re,
  rclean_up fuel s table level rs re = rclean_up_l fuel s table level rs re.
Proof.
  intros H. induction fuel as [|f IH]; intros s table level rs re.
  { transitivity (@Panic (pstate * bool)); [exact eq_refl|exact eq_refl]. }
  rewrite H, rclean_up_l_unfold.
  destruct (re <? rs); [reflexivity|].
  destruct (va_align_down rs (table_alignment level)) as [ta|]; cbn [bind]; [|reflexivity].
  destruct (level =? 1); [reflexivity|].
  rewrite (rcu_loop_ext (rclean_up f) (rclean_up_l f) IH). reflexivity.
Qed.

(* the statement for Recursive.rclean_up_addr_range itself, given its unfolding equation *)
Theorem rclean_up_addr_range_is_prune r s ch rs re :
  rclean_up_unfold_eq ->
  rInv r s ch -> wf_children ch ->
  canonical rs -> canonical re -> rs mod 4096 = 0 -> re mod 4096 = 0 ->
  exists s', rclean_up_addr_range s rs re = Ok s' /\
    faulted s' = faulted s /\
    rInv r s' (fst (if re <? rs then (ch, []) else prune 4 (page_pos rs) (page_pos re) r ch 0)) /\
    freed s' = rev (snd (if re <? rs then (ch, []) else prune 4 (page_pos rs) (page_pos re) r ch 0)) ++ freed s /\
    alloc s' = alloc s /\ nalloc s' = nalloc s /\ root s' = root s /\
    wf_children (fst (if re <? rs then (ch, []) else prune 4 (page_pos rs) (page_pos re) r ch 0)) /\
    child (fst (if re <? rs then (ch, []) else prune 4 (page_pos rs) (page_pos re) r ch 0)) (Z.to_nat r) =
      child ch (Z.to_nat r) /\
    (forall a, 0 <= a -> ~ in_frames (root s :: frames_of ch) a -> rd s' a = rd s a).
Proof.
  intros Hu Hinv Hwf Hcs Hce Hms Hme.
  unfold rclean_up_addr_range. rewrite (rclean_up_bridge Hu).
  apply (rclean_up_addr_range_l_is_prune r s ch rs re Hinv Hwf Hcs Hce Hms Hme).
Qed.

(* Recursive.rclean_up_addr_range and the function with the named loop agree on a concrete run
   (evaluation, not a proof of the equation): a 4 KiB page and a 2 MiB page under the same
   level-3 table, the 4 KiB page unmapped again; the clean-up releases the level-1 and the
   level-2 table of the 4 KiB page, children first, without fault. *)
Example twin_agrees_on_a_run :
  let allocs := [2097152; 3145728; 5242880; 6291456; 7340032; 8388608; -1] in
  let ops := [MMap 0 4096 8192 3 7; MMap 1 1075838976 4194304 1 1; MUnmap 0 4096] in
  exists s outs, rmem_run (rinit 1048576 allocs 511) ops = Ok (s, outs) /\
    rclean_up_addr_range s 0 18446744073709547520 = rclean_up_addr_range_l s 0 18446744073709547520 /\
    rclean_up_addr_range s 4096 2097152 = rclean_up_addr_range_l s 4096 2097152 /\
    exists s', rclean_up_addr_range s 0 18446744073709547520 = Ok s' /\
      freed s' = [3145728; 5242880] /\ faulted s' = false.
Proof.
  cbv zeta. eexists _, _. split; [vm_compute; reflexivity|].
  split; [vm_compute; reflexivity|]. split; [vm_compute; reflexivity|].
  eexists. split; [vm_compute; reflexivity|]. split; reflexivity.
Qed.


(* with the loop of Recursive.rclean_up defined as Recursive.rcu_loop, the unfolding equation is
   checked by the kernel at once, and the statement holds for Recursive.rclean_up_addr_range *)
Lemma rclean_up_unfold_eq_holds : rclean_up_unfold_eq.
Proof. intros f s table level rs re. reflexivity. Qed.
Definition rclean_up_addr_range_is_prune_unconditional r s ch rs re :=
  rclean_up_addr_range_is_prune r s ch rs re rclean_up_unfold_eq_holds.
Check rclean_up_addr_range_is_prune_unconditional.
Print Assumptions rclean_up_addr_range_is_prune_unconditional.
Print Assumptions rclean_level4.
Print Assumptions rclean_up_addr_range_l_is_prune.
Print Assumptions rclean_up_addr_range_is_prune.
