(* The raw-memory history theorem of C01 for MappedPageTable/OffsetPageTable, now with
   clean_up / clean_up_addr_range calls (any range) anywhere in the history. *)
From Coq Require Import FMapPositive.
From X86 Require Import Base.Bits Addr.Index Paging.EntryProofs Paging.Mapped Paging.MemProofs
  Paging.Tree Paging.TreeProofs Paging.Refine Paging.RefineOps Paging.RefineParent Paging.RefineWalk
  Paging.RefineHistory Paging.RefineClean Paging.Run.
Require Import Lia.
Open Scope Z_scope.

(* indices below 512 *)
Lemma idx_list_small k page : small (idx_list k page).
Proof.
  destruct (index_ranges page) as (H1 & H2 & H3 & H4 & _). unfold idx_list, small.
  destruct (k =? 2); [|destruct (k =? 1)]; repeat (apply Forall_cons; [lia|]); apply Forall_nil.
Qed.

(* apply_op_dictated, restricted to paths of indices below 512 *)
Lemma apply_op_dictated_small rec r s op s' o (d : dmap) :
  (match op with OCleanAll | OCleanRange _ _ => False | _ => True end) ->
  apply_op rec r s op = (s', o) ->
  (forall path, small path -> lookup (t_root s) path = d path) ->
  forall path, small path -> lookup (t_root s') path = dict_step d op o path.
Proof.
  intros Hnc H Hd path Hp. destruct op; cbn [apply_op] in H; try contradiction.
  - destruct (map_path rec (t_root s) (idx_list k page) (leaf_word k frame flags) frame page pflags (t_aor s))
      as [[ch' a'] res] eqn:Hm.
    inversion H; subst s' o; clear H. cbn [t_root].
    rewrite (map_path_lookup _ _ _ _ _ _ _ _ _ _ _ Hm path).
    destruct (map_path_res _ _ _ _ _ _ _ _ _ _ _ Hm) as [->|[c [rest [-> Hc]]]]; cbn [is_ok andb dict_step].
    + destruct (prefix (idx_list k page) path); [reflexivity|apply Hd; exact Hp].
    + destruct c; try (apply Hd; exact Hp). lia.
  - destruct (t_unmap (t_root s) (idx_list k page) k page) as [ch' o'] eqn:Hu.
    inversion H; subst s' o; clear H. cbn [t_root].
    destruct (t_unmap_lookup _ _ _ _ _ _ (idx_list_nonempty k page) Hu)
      as [[w [-> [Hs Hl]]]|[-> [c [rest [-> Hc]]]]]; cbn [dict_step].
    + rewrite Hl. destruct (prefix (idx_list k page) path); [reflexivity|apply Hd; exact Hp].
    + destruct c; try (apply Hd; exact Hp). lia.
  - destruct (t_update_flags (t_root s) (idx_list k page) k page flags) as [ch' o'] eqn:Hu.
    inversion H; subst s' o; clear H. cbn [t_root].
    destruct (t_update_flags_lookup _ _ _ _ _ _ _ (idx_list_nonempty k page) Hu)
      as [[w [-> [Hs Hl]]]|[-> [c [rest [-> Hc]]]]]; cbn [dict_step].
    + rewrite <- (Hd (idx_list k page) (idx_list_small k page)).
      rewrite (slot_at_lookup _ _ _ (idx_list_nonempty k page) Hs _ (prefix_refl _)).
      rewrite skipn_all. cbn [node_lookup length].
      rewrite Hl. destruct (prefix (idx_list k page) path); [reflexivity|apply Hd; exact Hp].
    + destruct c; try (apply Hd; exact Hp). lia.
  - assert (Hgoal : lookup (t_root s') path = lookup (t_root s) path).
    { destruct ((level =? 3) && (k =? 2))%bool; [inversion H; reflexivity|].
      destruct ((level =? 2) && negb (k =? 0))%bool; [inversion H; reflexivity|].
      destruct (t_set_flags_parent (t_root s) _ flags) as [ch' o'] eqn:Hpf.
      inversion H; subst s' o. cbn [t_root].
      apply (t_set_flags_parent_lookup _ _ _ _ _ Hpf). }
    rewrite Hgoal. cbn [dict_step]. apply Hd. exact Hp.
  - inversion H; subst. apply Hd. exact Hp.
  - inversion H; subst. apply Hd. exact Hp.
  - inversion H; subst. apply Hd. exact Hp.
  - inversion H; subst. apply Hd. exact Hp.
  - inversion H; subst. apply Hd. exact Hp.
  - inversion H; subst. apply Hd. exact Hp.
Qed.

(* histories with clean-ups *)
Inductive cop :=
| CCall (o : mop)                 (* map_to / unmap / update_flags / set_flags_p*_entry *)
| CClean (rs re : Z).             (* clean_up_addr_range over any range; clean_up is rs = 0, re = 0xffff_ffff_ffff_f000 *)
Definition cop_ok (c : cop) : Prop := match c with CCall o => mop_ok o | CClean _ _ => True end.
Definition cop_top (c : cop) : top := match c with CCall o => to_top o | CClean rs re => OCleanRange rs re end.
Definition cmem_apply (s : pstate) (c : cop) : res (pstate * out) :=
  match c with
  | CCall o => mem_apply s o
  | CClean rs re => rmap (fun s' => (s', [0])) (clean_up_addr_range s rs re)
  end.
Fixpoint cmem_run (s : pstate) (ops : list cop) : res (pstate * list out) :=
  match ops with
  | [] => Ok (s, [])
  | o :: rest =>
      do r <- cmem_apply s o;
      do r2 <- cmem_run (fst r) rest;
      Ok (fst r2, snd r :: snd r2)
  end.

Lemma to_top_not_clean o : match to_top o with OCleanAll | OCleanRange _ _ => False | _ => True end.
Proof. destruct o; exact I. Qed.

Theorem crun_dictated ops : forall s ch d,
  Inv s ch -> (forall path, small path -> lookup ch path = d path) -> Forall cop_ok ops ->
  forall s' outs, cmem_run s ops = Ok (s', outs) ->
  exists ch', Inv s' ch' /\
    forall path, small path -> lookup ch' path = dictated d (map cop_top ops) outs path.
Proof.
  induction ops as [|c rest IH]; intros s ch d Hinv Hd Hok s' outs H.
  - cbn in H. inversion H; subst. exists ch. split; [exact Hinv|exact Hd].
  - inversion Hok as [|? ? Hc Hrest]; subst. cbn [cmem_run] in H.
    destruct (cmem_apply s c) as [[s1 o1]|] eqn:Ha; [|discriminate]. cbn [bind fst snd] in H.
    destruct (cmem_run s1 rest) as [[s2 os]|] eqn:Hr; [|discriminate]. cbn [bind fst snd] in H.
    inversion H; subst s' outs. clear H. cbn [map dictated].
    destruct c as [o|rs re]; cbn [cmem_apply cop_top cop_ok] in *.
    + destruct (step_refines s ch [] 0 o Hinv Hc) as (s1' & o1' & ch1 & Hm & Hap & Hinv1).
      rewrite Ha in Hm. inversion Hm; subst s1' o1'. clear Hm.
      apply (IH s1 ch1 (dict_step d (to_top o) o1) Hinv1); [|exact Hrest|exact Hr].
      intros path Hp.
      apply (apply_op_dictated_small false 0 (tst ch s []) (to_top o) (tst ch1 s1 []) o1 d (to_top_not_clean o) Hap Hd path Hp).
    + destruct (clean_up_addr_range s rs re) as [sc|] eqn:Hcl; [|discriminate].
      cbn [rmap] in Ha. inversion Ha; subst s1 o1. clear Ha.
      destruct Hinv as (Hrep & Ht & Hsep).
      destruct (clean_up_addr_range_safe s ch rs re sc Hrep Ht Hsep Hcl)
        as (ch' & fr & R1 & S1 & L1 & _ & _ & _ & _ & _).
      assert (Hroot : root sc = root s).
      { unfold clean_up_addr_range in Hcl. destruct (clean_up 5 s (root s) 4 rs re) as [[sx b]|] eqn:Hc5; [|discriminate].
        cbn [rmap fst] in Hcl. inversion Hcl; subst sx.
        destruct (clean_up_safe 5 4 s (root s) ch rs re sc b ltac:(lia) Hrep Ht Hsep Hc5) as (c2 & f2 & (_ & _ & _ & _ & _ & _ & Hr0 & _) & _).
        exact Hr0. }
      apply (IH sc ch' d); [|intros path Hp; rewrite (L1 path Hp); apply Hd; exact Hp|exact Hrest|exact Hr].
      split; [exact R1|]. split; [rewrite Hroot; exact Ht|exact S1].
Qed.

(* C01 at the level of raw table memory, with clean-ups: after any history of map / unmap /
   update_flags / set_flags_p*_entry / clean_up(_addr_range) calls from an empty level-4 table *)
Theorem memory_walk_is_history_dictated_with_cleanup rootf allocs ri ops s' outs :
  tframe rootf -> sep (init_pstate rootf allocs ri) rootf empty_children ->
  Forall cop_ok ops ->
  cmem_run (init_pstate rootf allocs ri) ops = Ok (s', outs) ->
  forall va,
    match dictated (fun _ => None) (map cop_top ops) outs (idx_list 0 va) with
    | None => hw_walk s' va = None
    | Some (w, n) =>
        exists wr us,
          enc_walk (hw_walk s' va) =
            [leaf_addr w - leaf_addr w mod size_of_rem n + Z.land va (size_of_rem n - 1);
             size_of_rem n; w; b2z wr; b2z us]
    end.
Proof.
  intros Hroot Hsep Hok Hrun va.
  assert (Hinv : Inv (init_pstate rootf allocs ri) empty_children).
  { unfold Inv. rewrite root_init. split; [apply rep_init; destruct Hroot; lia|]. split; [exact Hroot|exact Hsep]. }
  destruct (crun_dictated ops _ empty_children (fun _ => None) Hinv (fun p _ => lookup_empty p) Hok s' outs Hrun)
    as (ch' & (Hrep & _ & _) & Hlook).
  pose proof (hw_walk_rep s' ch' va Hrep) as Hw.
  pose proof (translate_hw_agree ch' va) as Hag. rewrite (Hlook _ (idx_list_small 0 va)) in Hag.
  destruct (dictated (fun _ => None) (map cop_top ops) outs (idx_list 0 va)) as [[w n]|].
  - destruct Hag as [_ (wr & us & Hh)]. exists wr, us. rewrite Hw. exact Hh.
  - destruct Hag as [_ Hh]. rewrite Hh in Hw. destruct (hw_walk s' va); [discriminate|reflexivity].
Qed.
