(* Model of MappedPageTable (and OffsetPageTable, which delegates every call to it), written
   slot by slot in the order the Rust code reads and writes
   (src/structures/paging/mapper/mapped_page_table.rs, after the fix: commits F4, F5, F10). *)
From X86 Require Export Paging.Mem.
Open Scope Z_scope.

(* result codes of the mapper API (the error vocabulary of mapper/mod.rs) *)
Definition E_ALLOC_FAILED := -10.      (* MapToError::FrameAllocationFailed *)
Definition E_PARENT_HUGE := -11.       (* ..::ParentEntryHugePage *)
Definition E_ALREADY_MAPPED := -12.    (* MapToError::PageAlreadyMapped(frame) *)
Definition E_NOT_MAPPED := -13.        (* ..::PageNotMapped / TranslateResult::NotMapped *)
Definition E_INVALID_FRAME := -14.     (* ..::InvalidFrameAddress(addr) *)
Definition FAULT := -20.               (* a recursive access did not resolve *)

Definition has (f g : Z) : bool := Z.land f g =? g.
Definition e_flags := pte_flags.
Definition e_addr (e : Z) : Z := Z.land e ADDR_MASK.     (* PageTableEntry::addr, total (C03) *)
Definition e_present (e : Z) : bool := has (e_flags e) PTF_PRESENT.
Definition e_huge (e : Z) : bool := has (e_flags e) PTF_HUGE.
Definition e_set_flags (e fl : Z) : Z := Z.lor (e_addr e) fl.

(* PageTableWalker::next_table / next_table_mut *)
Inductive walk := WTable (f : Z) | WHuge | WNotMapped.
Definition next_table (e : Z) : walk :=
  if e_huge e then WHuge else if e_present e then WTable (e_addr e) else WNotMapped.

(* create_next_table: slot address of the parent entry -> the table frame *)
Inductive created := CTable (f : Z) | CHuge | CAllocFailed.
(* create_flags: the flags of a newly created parent entry (MappedPageTable: the insert flags;
   RecursivePageTable: PRESENT | WRITABLE | insert flags); insert_flags: what an existing parent
   entry is widened with *)
Definition create_next_table_g (s : pstate) (slot create_flags insert_flags : Z) : res (pstate * created) :=
  let e := rd s slot in
  if e =? 0 then
    match allocate s with
    | (Some f, s1) =>
        (* entry.set_frame(frame, insert_flags) asserts 4KiB alignment of the frame *)
        if negb (f mod 4096 =? 0) then Panic else
        let s2 := wr s1 slot (Z.lor f create_flags) in
        match next_table (rd s2 slot) with
        | WHuge => Ok (s2, CHuge)
        | WNotMapped => Panic                     (* "entry should be mapped at this point" *)
        | WTable t => Ok (zero_table s2 t, CTable t)
        end
    | (None, s1) => Ok (s1, CAllocFailed)
    end
  else if e_huge e then Ok (s, CHuge)
  else
    let s1 := if negb (insert_flags =? 0) && negb (has (e_flags e) insert_flags)
              then wr s slot (e_set_flags e (Z.lor (e_flags e) insert_flags)) else s in
    match next_table (rd s1 slot) with
    | WHuge => Ok (s1, CHuge)
    | WNotMapped => Panic
    | WTable t => Ok (s1, CTable t)
    end.

Definition create_next_table (s : pstate) (slot insert_flags : Z) : res (pstate * created) :=
  create_next_table_g s slot insert_flags insert_flags.

Definition slot4 (s : pstate) (page : Z) : Z := root s + 8 * p4_index page.
Definition slot3 (t page : Z) : Z := t + 8 * p3_index page.
Definition slot2 (t page : Z) : Z := t + 8 * p2_index page.
Definition slot1 (t page : Z) : Z := t + 8 * p1_index page.

Definition out := list Z.
Definition cerr (c : created) : out := match c with CHuge => [E_PARENT_HUGE] | _ => [E_ALLOC_FAILED] end.

(* size kind: 0 = 4KiB, 1 = 2MiB, 2 = 1GiB *)
Definition map_to (s : pstate) (k page frame flags pflags : Z) : res (pstate * out) :=
  do r4 <- create_next_table s (slot4 s page) pflags;
  let '(s, c4) := r4 in
  match c4 with
  | CTable t3 =>
      if k =? 2 then
        if negb (rd s (slot3 t3 page) =? 0) then Ok (s, [E_ALREADY_MAPPED; frame])
        else Ok (wr s (slot3 t3 page) (Z.lor frame (Z.lor flags PTF_HUGE)), [0; page])
      else
      do r3 <- create_next_table s (slot3 t3 page) pflags;
      let '(s, c3) := r3 in
      match c3 with
      | CTable t2 =>
          if k =? 1 then
            if negb (rd s (slot2 t2 page) =? 0) then Ok (s, [E_ALREADY_MAPPED; frame])
            else Ok (wr s (slot2 t2 page) (Z.lor frame (Z.lor flags PTF_HUGE)), [0; page])
          else
          do r2 <- create_next_table s (slot2 t2 page) pflags;
          let '(s, c2) := r2 in
          match c2 with
          | CTable t1 =>
              if negb (rd s (slot1 t1 page) =? 0) then Ok (s, [E_ALREADY_MAPPED; frame])
              else Ok (wr s (slot1 t1 page) (Z.lor frame flags), [0; page])
          | c => Ok (s, cerr c)
          end
      | c => Ok (s, cerr c)
      end
  | c => Ok (s, cerr c)
  end.

(* walking down with next_table(_mut): the slot of the entry at the level of size k, or the
   error code of the walk *)
Definition werr (w : walk) : out := match w with WHuge => [E_PARENT_HUGE] | _ => [E_NOT_MAPPED] end.
Definition descend (s : pstate) (k page : Z) : Z + out :=
  match next_table (rd s (slot4 s page)) with
  | WTable t3 =>
      if k =? 2 then inl (slot3 t3 page) else
      match next_table (rd s (slot3 t3 page)) with
      | WTable t2 =>
          if k =? 1 then inl (slot2 t2 page) else
          match next_table (rd s (slot2 t2 page)) with
          | WTable t1 => inl (slot1 t1 page)
          | w => inr (werr w)
          end
      | w => inr (werr w)
      end
  | w => inr (werr w)
  end.
Definition size_of_kind (k : Z) : Z := if k =? 0 then S4K else if k =? 1 then S2M else S1G.

Definition unmap (s : pstate) (k page : Z) : pstate * out :=
  match descend s k page with
  | inr e => (s, e)
  | inl slot =>
      let e := rd s slot in
      if k =? 0 then
        if negb (e_present e) then (s, [E_NOT_MAPPED])
        else (wr s slot 0, [0; e_addr e; page])
      else
        if negb (e_present e) then (s, [E_NOT_MAPPED])
        else if negb (e_huge e) then (s, [E_PARENT_HUGE])
        else if negb (e_addr e mod size_of_kind k =? 0) then (s, [E_INVALID_FRAME; e_addr e])
        else (wr s slot 0, [0; e_addr e; page])
  end.

Definition update_flags (s : pstate) (k page flags : Z) : pstate * out :=
  match descend s k page with
  | inr e => (s, e)
  | inl slot =>
      let e := rd s slot in
      if e =? 0 then (s, [E_NOT_MAPPED])
      else if k =? 0 then (wr s slot (e_set_flags e flags), [0; page])
      else if negb (e_huge e) then (s, [E_PARENT_HUGE])
      else (wr s slot (e_set_flags e (Z.lor flags PTF_HUGE)), [0; page])
  end.

(* set_flags_p{4,3,2}_entry for a page of size kind k: level = 4, 3 or 2 *)
Definition set_flags_parent (s : pstate) (k level page flags : Z) : pstate * out :=
  if level =? 4 then
    let e := rd s (slot4 s page) in
    if e =? 0 then (s, [E_NOT_MAPPED]) else (wr s (slot4 s page) (e_set_flags e flags), [0])
  else if (level =? 3) && (k =? 2) then (s, [E_PARENT_HUGE])
  else if (level =? 2) && negb (k =? 0) then (s, [E_PARENT_HUGE])
  else
    (* the entry of `level` is reached like the leaf of the next larger size *)
    match descend s (if level =? 3 then 2 else 1) page with
    | inr e => (s, e)
    | inl slot =>
        let e := rd s slot in
        if e =? 0 then (s, [E_NOT_MAPPED])
        else if e_huge e then (s, [E_PARENT_HUGE])
        else (wr s slot (e_set_flags e flags), [0])
    end.

Definition translate_page (s : pstate) (k page : Z) : out :=
  match descend s k page with
  | inr e => e
  | inl slot =>
      let e := rd s slot in
      if e =? 0 then [E_NOT_MAPPED]
      else if negb (k =? 0) && negb (e_huge e) then [E_PARENT_HUGE]
      else if negb (e_addr e mod size_of_kind k =? 0) then [E_INVALID_FRAME; e_addr e]
      else [0; e_addr e]
  end.

(* Translate::translate: [0; size; frame; offset; flags] | [E_NOT_MAPPED] | [E_INVALID_FRAME; a] *)
Definition translate (s : pstate) (va : Z) : res out :=
  match next_table (rd s (slot4 s va)) with
  | WNotMapped => Ok [E_NOT_MAPPED]
  | WHuge => Panic                                   (* "level 4 entry has huge page bit set" *)
  | WTable t3 =>
      let e3 := rd s (slot3 t3 va) in
      match next_table e3 with
      | WNotMapped => Ok [E_NOT_MAPPED]
      | WHuge =>
          do f <- frame_containing S1G (e_addr e3);
          Ok [0; S1G; f; Z.land va 1073741823; e_flags e3]          (* 0o777_777_7777 *)
      | WTable t2 =>
          let e2 := rd s (slot2 t2 va) in
          match next_table e2 with
          | WNotMapped => Ok [E_NOT_MAPPED]
          | WHuge =>
              do f <- frame_containing S2M (e_addr e2);
              Ok [0; S2M; f; Z.land va 2097151; e_flags e2]          (* 0o777_7777 *)
          | WTable t1 =>
              let e1 := rd s (slot1 t1 va) in
              if e1 =? 0 then Ok [E_NOT_MAPPED]
              else Ok [0; S4K; e_addr e1; page_offset va; e_flags e1]
          end
      end
  end.
Definition translate_addr (s : pstate) (va : Z) : res out :=
  do t <- translate s va;
  match t with
  | [0; _; f; off; _] => rmap (fun a => [a]) (pa_add f off)
  | _ => Ok [NONE]
  end.

(* ---------- clean_up_addr_range ---------- *)
(* level in 4..1; returns whether the table is empty afterwards *)
Definition pmax (a b : Z) := if a <? b then b else a.     (* Ord on Page = on the address *)
Definition pmin (a b : Z) := if b <? a then b else a.
(* the loop over the slots start..=end of one table; `rec` is the call for the next lower level *)
Definition cu_loop (rec : pstate -> Z -> Z -> Z -> Z -> res (pstate * bool))
  (table level table_addr rs re e : Z) : nat -> Z -> pstate -> res pstate :=
  let offset_per_entry := entry_alignment level in
  fix loop (n : nat) (i : Z) (s : pstate) : res pstate :=
    match n with
    | O => Ok s
    | S n' =>
        if e <? i then Ok s else
        let slot := table + 8 * i in
        match next_table (rd s slot) with
        | WTable t =>
            do m <- mul64 true offset_per_entry i;     (* (offset_per_entry as usize) * i *)
            do st <- forward_checked_u64 table_addr m;
            do st <- unwrap st;
            do en <- va_add st (offset_per_entry - 1);
            do sp <- page_containing S4K st;
            let sp := pmax sp rs in
            do ep <- page_containing S4K en;
            let ep := pmin ep re in
            do r <- rec s t (level - 1) sp ep;
            let '(s1, empty) := r in
            if empty then
              (* entry.frame().unwrap(); entry.set_unused(); deallocate_frame(frame) *)
              let fr := e_addr (rd s1 slot) in
              if e_present (rd s1 slot) then loop n' (i + 1) (deallocate (wr s1 slot 0) fr)
              else Panic
            else loop n' (i + 1) s1
        | _ => loop n' (i + 1) s
        end
    end.
Fixpoint clean_up (fuel : nat) (s : pstate) (table level rs re : Z) : res (pstate * bool) :=
  match fuel with
  | O => Panic
  | S fuel' =>
      if re <? rs then Ok (s, false) else
      do table_addr <- va_align_down rs (table_alignment level);
      let start := page_table_index rs level in
      let e := page_table_index re level in
      do s' <-
        (if level =? 1 then Ok s
         else cu_loop (clean_up fuel') table level table_addr rs re e 512%nat start s);
      Ok (s', table_all_unused s' table)
  end.
Definition clean_up_addr_range (s : pstate) (rs re : Z) : res pstate :=
  rmap fst (clean_up 5 s (root s) 4 rs re).
Definition clean_up_all (s : pstate) : res pstate :=
  clean_up_addr_range s 0 18446744073709547520.      (* 0 ..= 0xffff_ffff_ffff_f000 *)
