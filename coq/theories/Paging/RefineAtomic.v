(* C02 at the level of raw memory: a failed map_to of the MappedPageTable memory model changes
   what no address translates to. *)
From X86 Require Import Base.Bits Addr.Index Paging.EntryProofs Paging.Mapped Paging.MemProofs
  Paging.Tree Paging.TreeProofs Paging.Refine Paging.RefineWalk Paging.Run.
Require Import Lia.
Open Scope Z_scope.

(* physical address, page size and leaf word of a walk result *)
Definition walk3 (o : list Z) : list Z := firstn 3 o.

Lemma t_hw_by_lookup ch ch' va :
  lookup ch' (idx_list 0 va) = lookup ch (idx_list 0 va) -> walk3 (t_hw ch' va) = walk3 (t_hw ch va).
Proof.
  intros H. pose proof (translate_hw_agree ch va) as A. pose proof (translate_hw_agree ch' va) as A'.
  rewrite H in A'. destruct (lookup ch (idx_list 0 va)) as [[w n]|].
  - destruct A as [_ (wr & us & ->)]. destruct A' as [_ (wr' & us' & ->)]. reflexivity.
  - destruct A as [_ ->]. destruct A' as [_ ->]. reflexivity.
Qed.

Theorem failed_map_changes_no_translation s ch k page frame flags pf s' o c rest :
  0 <= k <= 2 ->
  rep 4 s ch (root s) -> tframe (root s) -> sep s (root s) ch -> pflags_ok pf ->
  leaf_ok (Z.to_nat (k + 1)) (leaf_word k frame flags) ->
  map_to s k page frame flags pf = Ok (s', o) -> o = c :: rest -> c < 0 ->
  forall va, walk3 (enc_walk (hw_walk s' va)) = walk3 (enc_walk (hw_walk s va)).
Proof.
  intros Hk Hrep Ht Hsep Hpf Hw Hm Ho Hc va.
  destruct (map_to_refines s ch k page frame flags pf Hk Hrep Ht Hsep Hpf Hw)
    as (s2 & o2 & ch' & a' & r & Hm2 & Hmp & Ho2 & _ & Hroot & _ & Hrep' & _ & _).
  rewrite Hm in Hm2. injection Hm2 as Es Eo. subst s2.
  rewrite (hw_walk_rep s ch va Hrep), (hw_walk_rep s' ch' va Hrep').
  apply t_hw_by_lookup.
  rewrite (map_path_lookup _ _ _ _ _ _ _ _ _ _ _ Hmp (idx_list 0 va)).
  destruct (map_path_res _ _ _ _ _ _ _ _ _ _ _ Hmp) as [->|(c' & rest' & -> & _)].
  - (* a successful call answers [0; page] *)
    cbn [out_of] in Ho2. rewrite <- Eo, Ho in Ho2. inversion Ho2. lia.
  - reflexivity.
Qed.
