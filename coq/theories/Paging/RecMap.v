(* "Identically across mapper implementations" (C01, C02, C09) for map_to, on the memory models:
   RecursivePageTable::map_to -- which reaches every lower table through a recursive address
   resolved by the hardware-style walk, creates parent entries with PRESENT | WRITABLE | parent
   flags and zeroes a new table THROUGH its recursive address -- computes exactly the result
   and the memory that map_to_rc true computes (MappedPageTable's map_to with the recursive
   mapper's creation flags), whose refinement to the tree operation map_path true is
   Refine.map_to_rc_refines.  The recursive slot must be intact and the page outside it. *)
From Coq Require Import FMapPositive.
From X86 Require Import Base.Bits Addr.Canon Addr.Index Paging.EntryProofs Paging.Mapped Paging.MemProofs
  Paging.Tree Paging.TreeProofs Paging.Refine Paging.RefineOps Paging.RefineWalk Paging.Recursive Paging.RecNew
  Paging.RecNewProofs Paging.RecResolve Paging.RecRead.
Require Import Lia ZifyBool Permutation.
Open Scope Z_scope.

(* rmap_to as a walk along the index path, like Refine.mmap *)
Fixpoint rmmap (s : pstate) (t : Z) (idxs : list Z) (pages : list (res Z)) (w frame page pf : Z)
  : rres (pstate * out) :=
  match idxs with
  | [] => RVal (s, [-99])
  | [i] =>
      if negb (rd s (t + 8 * i) =? 0) then RErr s [E_ALREADY_MAPPED; frame]
      else RVal (wr s (t + 8 * i) w, [0; page])
  | i :: rest =>
      match pages with
      | [] => RPanic
      | pg :: pages' =>
          rdo c <- rcreate s (t + 8 * i) pg pf;
          rmmap (fst c) (snd c) rest pages' w frame page pf
      end
  end.

Lemma rmap_to_rmmap s k page frame flags pf : 0 <= k <= 2 ->
  rmap_to s k page frame flags pf =
  rfin (rmmap s (root s) (zidx_list k page)
          [p3_page page (rec_index s); p2_page page (rec_index s); p1_page page (rec_index s)]
          (leaf_word k frame flags) frame page pf) s.
Proof.
  intros Hk. unfold rmap_to, zidx_list, leaf_word, slot4, slot3, slot2, slot1. f_equal.
  destruct (k =? 2) eqn:E2.
  - assert (k =? 0 = false) by lia. rewrite H. cbn [rmmap].
    destruct (rcreate s (root s + 8 * p4_index page) (p3_page page (rec_index s)) pf) as [[s1 t3]| |]; reflexivity.
  - destruct (k =? 1) eqn:E1.
    + assert (k =? 0 = false) by lia. rewrite H. cbn [rmmap].
      destruct (rcreate s (root s + 8 * p4_index page) (p3_page page (rec_index s)) pf) as [[s1 t3]| |]; try reflexivity.
      cbn [rb fst snd].
      destruct (rcreate s1 (t3 + 8 * p3_index page) (p2_page page (rec_index s)) pf) as [[s2 t2]| |]; reflexivity.
    + assert (k =? 0 = true) by lia. rewrite H. cbn [rmmap].
      destruct (rcreate s (root s + 8 * p4_index page) (p3_page page (rec_index s)) pf) as [[s1 t3]| |]; try reflexivity.
      cbn [rb fst snd].
      destruct (rcreate s1 (t3 + 8 * p3_index page) (p2_page page (rec_index s)) pf) as [[s2 t2]| |]; try reflexivity.
      cbn [rb fst snd].
      destruct (rcreate s2 (t2 + 8 * p2_index page) (p1_page page (rec_index s)) pf) as [[s3 t1]| |]; reflexivity.
Qed.

(* ---------- the context: what must stay true of the memory OUTSIDE the table being worked on
   for the recursive addresses to keep resolving ---------- *)
(* C holds of every state that has the same root and agrees with s everywhere except at the
   slot being worked on, inside the subtrees of the table and inside the allocator's future
   frames *)
Definition stable (C : pstate -> Prop) (s : pstate) (slot : Z) (ch : list node) : Prop :=
  forall s', root s' = root s ->
    (forall a, 0 <= a -> a / 8 <> slot / 8 -> ~ in_frames (frames_of ch ++ va s) a -> rd s' a = rd s a) -> C s'.

(* the recursive address of each level resolves to the table the parent entry points to, in
   every state in which the context holds *)
Fixpoint resolves (C : pstate -> Prop) (t : Z) (idxs : list Z) (pages : list (res Z)) : Prop :=
  match idxs with
  | i :: ((_ :: _) as rest) =>
      match pages with
      | [] => False
      | pg :: pages' =>
          (forall s1 f, C s1 -> tab_entry (rd s1 (t + 8 * i)) f -> table_at s1 pg = RVal f) /\
          (forall f, resolves (fun s1 => C s1 /\ tab_entry (rd s1 (t + 8 * i)) f) f rest pages')
      end
  | _ => True
  end.

Definition to_res (r : rres (pstate * out)) : res (pstate * out) :=
  match r with RVal so => Ok so | RErr s o => Ok (s, o) | RPanic => Panic end.
Lemma rfin_to_res r s : rfin r s = to_res r.
Proof. destruct r; reflexivity. Qed.

Lemma tab_entry_lor f fl : tframe f -> pflags_ok fl -> tab_entry (Z.lor f fl) f.
Proof. intros Hf Hfl. exists fl. auto. Qed.

Lemma rd_wr_ne s x v a : 0 <= x -> 0 <= a -> a / 8 <> x / 8 -> rd (wr s x v) a = rd s a.
Proof. intros Hx Ha Hne. apply rd_wr_other. intros Hk. apply key_inj in Hk; lia. Qed.

Lemma same_word_in_frame f i a : tframe f -> 0 <= i < 512 -> a / 8 = (f + 8 * i) / 8 -> in_frame f a.
Proof.
  intros [[Hf0 _] Hfa] Hi H. unfold in_frame.
  pose proof (Z.div_mod f 4096 ltac:(lia)) as Hq. rewrite Hfa in Hq.
  set (q := f / 4096) in *.
  replace (f + 8 * i) with ((512 * q + i) * 8) in H by lia. rewrite Z.div_mul in H by lia.
  pose proof (Z.div_mod a 8 ltac:(lia)) as Ha. pose proof (Z.mod_pos_bound a 8 ltac:(lia)) as Hb.
  rewrite H in Ha. lia.
Qed.

(* ---------- rcreate, case by case on the tree (cf. Refine.create_step_entry) ---------- *)
Lemma rcreate_step l s t ch i pg pf :
  rep_entry (S l) s (child ch (Z.to_nat i)) (rd s (t + 8 * i)) -> tframe t -> sep s t ch -> 0 <= i < 512 ->
  pflags_ok pf ->
  (forall s1 f, tab_entry (rd s1 (t + 8 * i)) f ->
     root s1 = root s ->
     (forall a, 0 <= a -> a / 8 <> (t + 8 * i) / 8 -> rd s1 a = rd s a) ->
     table_at s1 pg = RVal f) ->
  match child ch (Z.to_nat i) with
  | Empty =>
      match allocate s with
      | (None, s1) => rcreate s (t + 8 * i) pg pf = RErr s1 [E_ALLOC_FAILED]
      | (Some f, s1) =>
          rcreate s (t + 8 * i) pg pf =
            RVal (zero_table (wr s1 (t + 8 * i) (Z.lor f (new_parent_flags true pf))) f, f)
      end
  | Leaf _ => rcreate s (t + 8 * i) pg pf = RErr s [E_PARENT_HUGE]
  | Tab f fl sub =>
      rcreate s (t + 8 * i) pg pf =
        RVal ((if (negb (pf =? 0) && negb (has fl pf))%bool then wr s (t + 8 * i) (Z.lor f (Z.lor fl pf)) else s), f)
  end.
Proof.
  intros He Ht Hsep Hi Hpf Hres. unfold rcreate.
  destruct (child ch (Z.to_nat i)) as [|w|f fl sub] eqn:Hc; cbn [rep_entry] in He.
  - rewrite He. cbn [Z.eqb].
    pose proof (allocate_spec s) as (Ha & Hm & Hr & _).
    destruct (allocate s) as [[f|] s1] eqn:Hal; [|reflexivity].
    destruct Ha as [Hva _]. cbn [snd] in Hm, Hr.
    assert (Hf : tframe f).
    { destruct Hsep as [_ HF]. rewrite Forall_forall in HF. apply HF. right. apply in_or_app. right.
      rewrite Hva. left. reflexivity. }
    destruct Hf as [Hfr Hfa]. rewrite Hfa. cbn [Z.eqb negb rb].
    change (Z.lor (Z.lor PTF_PRESENT PTF_WRITABLE) pf) with (new_parent_flags true pf).
    pose proof (pflags_ok_new_parent true pf Hpf) as Hcf.
    rewrite rd_wr_same.
    destruct (tab_word f (new_parent_flags true pf) (conj Hfr Hfa) Hcf) as (_ & Hhu & _).
    rewrite Hhu.
    rewrite (Hres (wr s1 (t + 8 * i) (Z.lor f (new_parent_flags true pf))) f).
    + reflexivity.
    + rewrite rd_wr_same. apply tab_entry_lor; [exact (conj Hfr Hfa)|exact Hcf].
    + cbn [wr with_mem root]. exact Hr.
    + intros a Ha Hnt. rewrite rd_wr_ne; [apply rd_pmem; exact Hm|destruct Ht; lia|exact Ha|exact Hnt].
  - destruct He as [He (Hw & Hp & Hh & _)]. rewrite He.
    assert (Hnz : (w =? 0) = false).
    { apply Z.eqb_neq. intros H0. rewrite H0, Z.bits_0 in Hp. discriminate. }
    rewrite Hnz. rewrite e_huge_bit, (Hh ltac:(lia)). reflexivity.
  - destruct He as (He & Hf & Hfl & _). rewrite He.
    destruct (tab_word f fl Hf Hfl) as (Hnz & Hhu & _ & _ & Hnt & Hpfx).
    destruct Hpf as (P1 & P2 & P3 & P4).
    destruct (Hpfx pf P1 P2) as [Hhas Hset].
    assert (Hz : (Z.lor f fl =? 0) = false) by (apply Z.eqb_neq; exact Hnz).
    rewrite Hz, Hhu, Hhas, Hset. cbn [rb].
    assert (Hfl' : pflags_ok (widen fl pf)) by (apply pflags_ok_widen; [exact Hfl|exact (conj P1 (conj P2 (conj P3 P4)))]).
    set (s1 := if (negb (pf =? 0) && negb (has fl pf))%bool then wr s (t + 8 * i) (Z.lor f (Z.lor fl pf)) else s).
    assert (Hrd1 : rd s1 (t + 8 * i) = Z.lor f (widen fl pf)).
    { unfold s1, widen. destruct (negb (pf =? 0) && negb (has fl pf))%bool; [apply rd_wr_same|exact He]. }
    rewrite Hrd1.
    destruct (tab_word f (widen fl pf) Hf Hfl') as (_ & Hhu' & _). rewrite Hhu'.
    rewrite (Hres s1 f).
    + reflexivity.
    + rewrite Hrd1. apply tab_entry_lor; assumption.
    + unfold s1. destruct (negb (pf =? 0) && negb (has fl pf))%bool; reflexivity.
    + intros a Ha Hnta. unfold s1. destruct (negb (pf =? 0) && negb (has fl pf))%bool; [|reflexivity].
      apply rd_wr_ne; [destruct Ht; lia|exact Ha|exact Hnta].
Qed.

(* ---------- the recursive walk equals the mapped walk ---------- *)
Theorem rmmap_eq idxs : forall l s t ch pages C w frame page pf,
  idxs <> [] -> (length idxs <= S l)%nat -> Forall (fun i => 0 <= i < 512) idxs ->
  rep_entry l s (child ch (Z.to_nat (hd 0 idxs))) (rd s (t + 8 * hd 0 idxs)) ->
  tframe t -> sep s t ch -> pflags_ok pf ->
  stable C s (t + 8 * hd 0 idxs) ch -> resolves C t idxs pages ->
  to_res (rmmap s t idxs pages w frame page pf) = mmap true s t idxs w frame page pf.
Proof.
  induction idxs as [|i rest IH]; intros l s t ch pages C w frame page pf Hne Hlen Hidx He Ht Hsep Hpf Hst Hrs;
    [contradiction|].
  inversion Hidx as [|? ? Hi Hrest]; subst. cbn [hd] in He.
  destruct rest as [|i2 rest].
  - cbn [rmmap mmap]. destruct (negb (rd s (t + 8 * i) =? 0)); reflexivity.
  - destruct l as [|l']; [cbn [length] in Hlen; lia|].
    assert (Hlen' : (length (i2 :: rest) <= S l')%nat) by (cbn [length] in *; lia).
    destruct pages as [|pg pages']; [cbn [resolves] in Hrs; contradiction|].
    cbn [resolves] in Hrs. destruct Hrs as [Hres Hrs'].
    pose proof (pflags_ok_new_parent true pf Hpf) as Hcf.
    pose proof (create_step_entry l' s t ch i (new_parent_flags true pf) pf He Ht Hsep Hi Hcf Hpf) as Hcs.
    cbn [hd] in Hst.
    assert (HresL : forall s1 f, tab_entry (rd s1 (t + 8 * i)) f -> root s1 = root s ->
               (forall a, 0 <= a -> a / 8 <> (t + 8 * i) / 8 -> rd s1 a = rd s a) -> table_at s1 pg = RVal f).
    { intros s1 f Hte Hr1 Hag. apply Hres; [|exact Hte]. apply Hst; [exact Hr1|].
      intros a Ha Hns Hout. apply Hag; [exact Ha|exact Hns]. }
    pose proof (rcreate_step l' s t ch i pg pf He Ht Hsep Hi Hpf HresL) as Hrc.
    change (rmmap s t (i :: i2 :: rest) (pg :: pages') w frame page pf) with
      (rdo c <- rcreate s (t + 8 * i) pg pf; rmmap (fst c) (snd c) (i2 :: rest) pages' w frame page pf).
    change (mmap true s t (i :: i2 :: rest) w frame page pf) with
      (do r <- create_next_table_g s (t + 8 * i) (new_parent_flags true pf) pf;
       match snd r with
       | CTable t' => mmap true (fst r) t' (i2 :: rest) w frame page pf
       | c => Ok (fst r, cerr c)
       end).
    destruct (child ch (Z.to_nat i)) as [|w0|f fl sub] eqn:Hc.
    + (* no table yet *)
      pose proof (allocate_spec s) as (Ha & Hm1 & Hr1 & Hf1).
      destruct (allocate s) as [[f|] s1] eqn:Hal; cbn [snd] in *.
      2:{ rewrite Hcs, Hrc. reflexivity. }
      rewrite Hcs, Hrc. cbn [bind rb fst snd].
      destruct Ha as [Hva Hta].
      set (cf := new_parent_flags true pf) in *.
      set (slot := t + 8 * i) in *. set (s2 := wr s1 slot (Z.lor f cf)). set (s3 := zero_table s2 f).
      assert (Hsa3 : same_alloc s1 s3).
      { apply (same_alloc_trans s1 s2 s3); [apply same_alloc_wr|apply same_alloc_zero_from]. }
      destruct (same_alloc_va _ _ Hsa3) as [Hva3 _].
      assert (Hfin : In f (t :: frames_of ch ++ va s)) by (right; apply in_or_app; right; rewrite Hva; left; reflexivity).
      assert (Hft : tframe f) by (destruct Hsep as [_ HF]; rewrite Forall_forall in HF; apply HF; exact Hfin).
      assert (Hnef : t <> f).
      { intros <-. destruct Hsep as [Hn _]. inversion Hn as [|? ? Hnin _]; subst. apply Hnin.
        apply in_or_app. right. rewrite Hva. left. reflexivity. }
      assert (M3 : forall a, 0 <= a -> ~ in_frame t a -> ~ in_frame f a -> rd s3 a = rd s a).
      { intros a Ha Hnt Hnf. unfold s3. rewrite zero_table_elsewhere; try (destruct Hft; lia); try assumption.
        - unfold s2. rewrite (rd_wr_outside s1 t); auto; [apply rd_pmem; exact Hm1|].
          unfold slot, in_frame. destruct Ht. lia.
        - unfold in_frame in Hnf. lia. }
      assert (Mslot : rd s3 slot = Z.lor f cf).
      { unfold s3. rewrite zero_table_elsewhere; try (destruct Hft; lia); [| unfold slot; destruct Ht; lia |].
        - unfold s2. apply rd_wr_same.
        - destruct (Z_lt_le_dec slot f); [left; assumption|right].
          destruct (Z_lt_le_dec slot (f + 4096)); [|assumption]. exfalso. apply Hnef.
          apply (frames_disjoint t f slot Ht Hft); unfold in_frame, slot; destruct Ht; lia. }
      assert (Hroot3 : root s3 = root s).
      { destruct Hsa3 as (_ & _ & _ & Hr3). rewrite Hr3. exact Hr1. }
      apply (IH l' s3 f empty_children pages' (fun s' => C s' /\ tab_entry (rd s' slot) f) w frame page pf).
      * discriminate.
      * exact Hlen'.
      * exact Hrest.
      * cbn [hd]. rewrite child_empty_children.
        destruct l' as [|l'']; cbn [rep_entry]; unfold s3; inversion Hrest; subst;
          apply zero_table_zeroed; destruct Hft; lia.
      * exact Hft.
      * unfold sep. rewrite frames_of_empty_children, Hva3. cbn [app].
        destruct Hsep as [Hn HF]. rewrite Hva in Hn, HF. split.
        -- apply NoDup_cons_iff in Hn. destruct Hn as [_ Hn]. apply nodup_app_r in Hn. exact Hn.
        -- apply Forall_cons_iff in HF. destruct HF as [_ HF]. apply Forall_app in HF. apply HF.
      * exact Hpf.
      * (* the context is stable under changes inside the new table and the allocator's frames *)
        cbn [hd]. intros s' Hr' Hag.
        inversion Hrest as [|? ? Hi2 _]; subst.
        assert (Hva_in : forall g, In g (va s3) -> In g (frames_of ch ++ va s)).
        { intros g Hg. apply in_or_app. right. rewrite Hva. right. rewrite <- Hva3. exact Hg. }
        assert (Hf_in : In f (frames_of ch ++ va s)) by (apply in_or_app; right; rewrite Hva; left; reflexivity).
        assert (Hslot_out : ~ in_frames (frames_of ch ++ va s) slot).
        { intros (g & Hg & Hga). destruct Hsep as [Hn HF]. rewrite Forall_forall in HF.
          assert (t = g).
          { apply (frames_disjoint t g slot); [exact Ht|apply HF; right; exact Hg| |exact Hga].
            unfold in_frame, slot. destruct Ht. lia. }
          subst g. inversion Hn as [|? ? Hnin _]; subst. exact (Hnin Hg). }
        assert (Hagree : forall a, 0 <= a -> a / 8 <> slot / 8 -> ~ in_frames (frames_of ch ++ va s) a ->
                   rd s' a = rd s a).
        { intros a Ha Hns Hout.
          assert (Hnf : ~ in_frame f a) by (intros Hb; apply Hout; exists f; split; [exact Hf_in|exact Hb]).
          rewrite Hag; [| exact Ha | | ].
          - unfold s3. rewrite zero_table_elsewhere; try (destruct Hft; lia); try assumption.
            + unfold s2. rewrite rd_wr_ne; [apply rd_pmem; exact Hm1|unfold slot; destruct Ht; lia|exact Ha|exact Hns].
            + unfold in_frame in Hnf. lia.
          - intros Heq. apply Hnf. apply (same_word_in_frame f i2 a Hft Hi2 Heq).
          - intros (g & Hg & Hga). rewrite frames_of_empty_children in Hg. cbn [app] in Hg.
            apply Hout. exists g. split; [apply Hva_in; exact Hg|exact Hga]. }
        split.
        -- apply Hst; [rewrite Hr'; exact Hroot3|exact Hagree].
        -- rewrite Hag.
           ++ rewrite Mslot. apply tab_entry_lor; [exact Hft|exact Hcf].
           ++ unfold slot. destruct Ht. lia.
           ++ intros Heq. apply Hslot_out. exists f. split; [exact Hf_in|].
              apply (same_word_in_frame f i2 slot Hft Hi2 Heq).
           ++ intros (g & Hg & Hga). rewrite frames_of_empty_children in Hg. cbn [app] in Hg.
              apply Hslot_out. exists g. split; [apply Hva_in; exact Hg|exact Hga].
      * apply Hrs'.
    + (* a huge page is mapped above *)
      rewrite Hcs, Hrc. reflexivity.
    + (* the table exists *)
      rewrite Hcs, Hrc. cbn [bind rb fst snd].
      set (slot := t + 8 * i) in *.
      set (s1 := if (negb (pf =? 0) && negb (has fl pf))%bool then wr s slot (Z.lor f (Z.lor fl pf)) else s).
      cbn [rep_entry] in He. destruct He as (He & Hft & Hfl & Hrsub).
      assert (Hsa : same_alloc s s1).
      { unfold s1. destruct (negb (pf =? 0) && negb (has fl pf))%bool; [apply same_alloc_wr|apply same_alloc_refl]. }
      destruct (same_alloc_va _ _ Hsa) as [Hva1 _].
      assert (Hsep1 : sep s1 f sub) by (apply (sep_sub s s1 t ch i f fl sub Hsep Hc Hva1)).
      assert (M1 : forall a, 0 <= a -> ~ in_frame t a -> rd s1 a = rd s a).
      { intros a Ha Hnt. unfold s1. destruct (negb (pf =? 0) && negb (has fl pf))%bool; [|reflexivity].
        apply (rd_wr_outside s t); auto. unfold slot, in_frame. destruct Ht. lia. }
      assert (Mslot : rd s1 slot = Z.lor f (widen fl pf)).
      { unfold s1, widen. destruct (negb (pf =? 0) && negb (has fl pf))%bool; [apply rd_wr_same|exact He]. }
      (* an address of the subtree is not in the parent's frame *)
      assert (Hsubt : forall a, in_frames (f :: frames_of sub) a -> ~ in_frame t a).
      { intros a (g & Hg & Hga) Hta.
        assert (Hgin : In g (frames_of ch)).
        { destruct (frames_of_child _ _ _ _ _ Hc) as [H1 H2]. destruct Hg as [<-|Hg]; [exact H1|apply H2; exact Hg]. }
        destruct Hsep as [Hn HF]. rewrite Forall_forall in HF.
        assert (t = g).
        { apply (frames_disjoint t g a); [exact Ht|apply HF; right; apply in_or_app; left; exact Hgin|exact Hta|exact Hga]. }
        subst g. inversion Hn as [|? ? Hnin _]; subst. apply Hnin. apply in_or_app. left. exact Hgin. }
      assert (Hrsub1 : rep (S l') s1 sub f).
      { apply (rep_frame (S l') s s1 sub f); [|destruct Hft; lia|exact Hrsub].
        intros a Ha Hin. apply M1; [exact Ha|]. apply Hsubt. exact Hin. }
      inversion Hrest as [|? ? Hi2 _]; subst.
      apply (IH l' s1 f sub pages' (fun s' => C s' /\ tab_entry (rd s' slot) f) w frame page pf).
      * discriminate.
      * exact Hlen'.
      * exact Hrest.
      * cbn [hd]. apply (proj1 (rep_unfold _ _ _ _) Hrsub1 i2 Hi2).
      * exact Hft.
      * exact Hsep1.
      * exact Hpf.
      * cbn [hd]. intros s' Hr' Hag.
        assert (Hsub_in : forall g, In g (frames_of sub ++ va s1) -> In g (frames_of ch ++ va s)).
        { intros g Hg. rewrite Hva1 in Hg.
          apply in_app_or in Hg. destruct Hg as [Hg|Hg]; apply in_or_app; [left|right; exact Hg].
          apply (proj2 (frames_of_child _ _ _ _ _ Hc)). exact Hg. }
        assert (Hf_in : In f (frames_of ch ++ va s)).
        { apply in_or_app. left. apply (proj1 (frames_of_child _ _ _ _ _ Hc)). }
        assert (Hslot_out : ~ in_frames (frames_of ch ++ va s) slot).
        { intros (g & Hg & Hga). destruct Hsep as [Hn HF]. rewrite Forall_forall in HF.
          assert (t = g).
          { apply (frames_disjoint t g slot); [exact Ht|apply HF; right; exact Hg| |exact Hga].
            unfold in_frame, slot. destruct Ht. lia. }
          subst g. inversion Hn as [|? ? Hnin _]; subst. exact (Hnin Hg). }
        assert (Hagree : forall a, 0 <= a -> a / 8 <> slot / 8 -> ~ in_frames (frames_of ch ++ va s) a ->
                   rd s' a = rd s a).
        { intros a Ha Hns Hout.
          assert (Hnf : ~ in_frame f a) by (intros Hb; apply Hout; exists f; split; [exact Hf_in|exact Hb]).
          rewrite Hag; [| exact Ha | | ].
          - unfold s1. destruct (negb (pf =? 0) && negb (has fl pf))%bool; [|reflexivity].
            apply rd_wr_ne; [unfold slot; destruct Ht; lia|exact Ha|exact Hns].
          - intros Heq. apply Hnf. apply (same_word_in_frame f i2 a Hft Hi2 Heq).
          - intros (g & Hg & Hga). apply Hout. exists g. split; [apply Hsub_in; exact Hg|exact Hga]. }
        split.
        -- apply Hst; [rewrite Hr'; apply Hsa|exact Hagree].
        -- rewrite Hag.
           ++ rewrite Mslot. apply tab_entry_lor; [exact Hft|apply pflags_ok_widen; assumption].
           ++ unfold slot. destruct Ht. lia.
           ++ intros Heq. apply Hslot_out. exists f. split; [exact Hf_in|].
              apply (same_word_in_frame f i2 slot Hft Hi2 Heq).
           ++ intros (g & Hg & Hga). apply Hslot_out. exists g. split; [apply Hsub_in; exact Hg|exact Hga].
      * apply Hrs'.
Qed.

(* ---------- RecursivePageTable::map_to = map_to_rc true ---------- *)
Lemma hd_zidx k page : hd 0 (zidx_list k page) = p4_index page.
Proof. unfold zidx_list. destruct (k =? 2); [reflexivity|]. destruct (k =? 1); reflexivity. Qed.

Theorem rmap_to_eq s ch k page frame flags pf :
  0 <= k <= 2 -> 0 <= rec_index s < 512 -> repx (rec_index s) s ch -> tframe (root s) ->
  sep s (root s) ch -> pflags_ok pf -> p4_index page <> rec_index s ->
  rmap_to s k page frame flags pf = map_to_rc true s k page frame flags pf.
Proof.
  intros Hk Hr (Hrec & Hrep) Ht Hsep Hpf Hne.
  rewrite rmap_to_rmmap by exact Hk. rewrite rfin_to_res. unfold map_to_rc.
  destruct (index_ranges page) as (H1 & H2 & H3 & H4 & _).
  set (r := rec_index s) in *. set (R := root s) in *.
  set (C0 := fun s' : pstate => root s' = R /\ tab_entry (rd s' (R + 8 * r)) R).
  assert (Hrec_of : forall s1, C0 s1 -> tab_entry (rd s1 (root s1 + 8 * r)) (root s1)).
  { intros s1 [E T]. rewrite E. exact T. }
  assert (L3 : forall s1 f, C0 s1 -> tab_entry (rd s1 (R + 8 * p4_index page)) f ->
             table_at s1 (p3_page page r) = RVal f).
  { intros s1 f HC T4. destruct (p3_page_spec page r Hr) as (pg & Ep & _).
    apply (table_at_ok s1 _ pg f Ep). apply deref_ok.
    apply (p3_page_resolves s1 r Hr (Hrec_of s1 HC) page pg f Ep). destruct HC as [E _]. rewrite E. exact T4. }
  assert (L2 : forall f3 s1 f, C0 s1 /\ tab_entry (rd s1 (R + 8 * p4_index page)) f3 ->
             tab_entry (rd s1 (f3 + 8 * p3_index page)) f -> table_at s1 (p2_page page r) = RVal f).
  { intros f3 s1 f [HC T4] T3. destruct (p2_page_spec page r Hr) as (pg & Ep & _).
    apply (table_at_ok s1 _ pg f Ep). apply deref_ok.
    apply (p2_page_resolves s1 r Hr (Hrec_of s1 HC) page pg f3 f Ep); [destruct HC as [E _]; rewrite E; exact T4|exact T3]. }
  assert (L1 : forall f3 f2 s1 f, (C0 s1 /\ tab_entry (rd s1 (R + 8 * p4_index page)) f3) /\
                                   tab_entry (rd s1 (f3 + 8 * p3_index page)) f2 ->
             tab_entry (rd s1 (f2 + 8 * p2_index page)) f -> table_at s1 (p1_page page r) = RVal f).
  { intros f3 f2 s1 f [[HC T4] T3] T2. destruct (p1_page_spec page r Hr) as (pg & Ep & _).
    apply (table_at_ok s1 _ pg f Ep). apply deref_ok.
    apply (p1_page_resolves s1 r Hr (Hrec_of s1 HC) page pg f3 f2 f Ep);
      [destruct HC as [E _]; rewrite E; exact T4|exact T3|exact T2]. }
  apply (rmmap_eq (zidx_list k page) 3 s R ch _ C0).
  - unfold zidx_list. destruct (k =? 2); [discriminate|]. destruct (k =? 1); discriminate.
  - rewrite zidx_length by exact Hk. lia.
  - apply zidx_ranges.
  - rewrite hd_zidx. apply Hrep; [exact H4|exact Hne].
  - exact Ht.
  - exact Hsep.
  - exact Hpf.
  - rewrite hd_zidx. intros s' Hr' Hag. split; [exact Hr'|].
    destruct Ht as [[Ht0 Ht1] Hta].
    rewrite Hag; [exact Hrec|lia| |].
    + replace (R + 8 * r) with ((R / 8 + r) * 8 + 0).
      2:{ pose proof (Z.div_mod R 4096 ltac:(lia)) as Hq. rewrite Hta in Hq.
          assert (R = (R / 8) * 8) by (pose proof (Z.div_mod R 8 ltac:(lia)); pose proof (Z.mod_pos_bound R 8 ltac:(lia));
                                       assert (R mod 8 = 0) by (rewrite Hq; replace (4096 * (R / 4096) + 0) with ((512 * (R / 4096)) * 8) by lia; apply Z.mod_mul; lia); lia).
          lia. }
      replace (R + 8 * p4_index page) with ((R / 8 + p4_index page) * 8 + 0).
      2:{ pose proof (Z.div_mod R 4096 ltac:(lia)) as Hq. rewrite Hta in Hq.
          assert (R = (R / 8) * 8) by (pose proof (Z.div_mod R 8 ltac:(lia)); pose proof (Z.mod_pos_bound R 8 ltac:(lia));
                                       assert (R mod 8 = 0) by (rewrite Hq; replace (4096 * (R / 4096) + 0) with ((512 * (R / 4096)) * 8) by lia; apply Z.mod_mul; lia); lia).
          lia. }
      rewrite !Z.div_add_l by lia. cbn. lia.
    + intros (g & Hg & Hga). destruct Hsep as [Hn HF]. rewrite Forall_forall in HF.
      assert (R = g).
      { apply (frames_disjoint R g (R + 8 * r)); [exact (conj (conj Ht0 Ht1) Hta)|apply HF; right; exact Hg| |exact Hga].
        unfold in_frame. lia. }
      subst g. inversion Hn as [|? ? Hnin _]; subst. exact (Hnin Hg).
  - unfold zidx_list. destruct (k =? 2); [|destruct (k =? 1)]; cbn [resolves].
    + split; [exact L3|intros; exact I].
    + split; [exact L3|]. intros f3. split; [apply L2|intros; exact I].
    + split; [exact L3|]. intros f3. split; [apply L2|]. intros f2. split; [apply L1|intros; exact I].
Qed.

(* composed with the refinement of map_to_rc: RecursivePageTable::map_to on table memory
   computes what the tree operation of the recursive mapper kind computes *)
Print Assumptions rmap_to_eq.
