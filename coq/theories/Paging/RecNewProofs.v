(* C20: RecursivePageTable::new decides exactly "recursive form" and "active"; the recursive
   table addresses are the recursive index repeated 3/2/1 times followed by the page's upper
   indices, sign-extended. *)
From X86 Require Import Base.Bits Addr.Canon Addr.Align Addr.Index Addr.Reach Paging.EntryProofs Paging.RecNew.
Require Import Lia ZifyBool.
Open Scope Z_scope.
Local Ltac Zify.zify_post_hook ::= Z.div_mod_to_equations.

(* the address field of an entry / of CR3: bits 12..51 *)
Definition field (e : Z) : Z := e mod P52 - e mod 4096.

Lemma field_land e : Z.land e ADDR_MASK = field e.
Proof.
  unfold ADDR_MASK, field. change 4503599627366400 with (2 ^ 52 - 2 ^ 12).
  rewrite land_mask_range by lia. reflexivity.
Qed.
Lemma field_phys e : phys (field e) /\ field e mod 4096 = 0.
Proof.
  unfold field, phys, P52.
  pose proof (mod_mod_pow2 e 52 12 ltac:(lia)) as M.
  change (2 ^ 52) with 4503599627370496 in M. change (2 ^ 12) with 4096 in M. lia.
Qed.
Lemma frame_containing_field e : frame_containing S4K (field e) = Ok (field e).
Proof.
  destruct (field_phys e) as [Hp Hal]. unfold frame_containing. change S4K with (2 ^ 12).
  destruct (pa_align_down_spec (field e) 12 Hp ltac:(lia)) as [-> _].
  unfold round_down. change (2 ^ 12) with 4096. rewrite Hal. f_equal. lia.
Qed.

Lemma pte_frame_char e : u64 e ->
  pte_frame e = Ok (if Z.testbit e 0 then Some (field e) else None).
Proof.
  intros He. unfold pte_frame, flags_contains, pte_flags, PTF_PRESENT.
  rewrite <- Z.land_assoc. change (Z.land PTF_ALL 1) with 1.
  destruct (pte_addr_total e He) as [-> _]. cbn [bind].
  fold (field e). rewrite frame_containing_field. cbn [rmap].
  replace (Z.land e 1) with (e mod 2) by (change 1 with (Z.ones 1) at 1; rewrite Z.land_ones by lia; reflexivity).
  rewrite Z.bit0_eqb. destruct (e mod 2 =? 1); reflexivity.
Qed.

(* the decision of RecursivePageTable::new, for the address of any table reference (a
   page-aligned canonical address), any CR3 content and any table content *)
Theorem rec_new_decides page cr3 entry :
  canonical page -> page mod S4K = 0 -> u64 cr3 -> u64 (entry (p4_index page)) ->
  let r := p4_index page in
  let e := entry r in
  rec_new_at page cr3 entry =
    if (p3_index page =? r) && (p2_index page =? r) && (p1_index page =? r) then
      if Z.testbit e 0 && (field e =? field cr3) then Ok [0; r] else Ok [E_NOT_ACTIVE]
    else Ok [E_NOT_RECURSIVE].
Proof.
  intros Hc Hal Hcr He r e. unfold rec_new_at.
  rewrite va_new_spec by (apply canonical_u64; exact Hc).
  assert (Hcb : canonicalb page = true) by (apply canonicalb_spec; exact Hc).
  rewrite Hcb. cbn [bind].
  unfold page_containing. change S4K with (2 ^ 12) in *.
  rewrite va_align_down_aligned by (auto; lia). cbn [bind].
  fold r.
  destruct (p3_index page =? r) eqn:E3; cbn [negb orb andb]; [|reflexivity].
  destruct (p2_index page =? r) eqn:E2; cbn [negb orb andb]; [|reflexivity].
  destruct (p1_index page =? r) eqn:E1; cbn [negb orb andb]; [|reflexivity].
  rewrite field_land.
  destruct (field_phys cr3) as [Hp _].
  rewrite pa_new_spec by (apply phys_u64; exact Hp).
  assert (Hpb : physb (field cr3) = true) by (apply physb_spec; exact Hp).
  rewrite Hpb. cbn [bind]. change (2 ^ 12) with S4K. rewrite frame_containing_field. cbn [bind].
  fold e. rewrite (pte_frame_char e He). cbn [bind].
  destruct (Z.testbit e 0); cbn [andb]; reflexivity.
Qed.

(* ---------- recursive table addresses ---------- *)
Theorem p3_page_spec page r : 0 <= r < 512 ->
  exists pg, p3_page page r = Ok pg /\ canonical pg /\ pg mod S4K = 0 /\
    p4_index pg = r /\ p3_index pg = r /\ p2_index pg = r /\ p1_index pg = p4_index page /\
    pg mod P48 = compose4 r r r (p4_index page).
Proof.
  intros Hr. destruct (index_ranges page) as (_ & _ & _ & H4 & _).
  destruct (from_indices_4k_spec r r r (p4_index page) Hr Hr Hr H4) as (pg & E & Hc & Hal & I4 & I3 & I2 & I1 & Hm & _).
  exists pg. unfold p3_page. splits; auto.
Qed.
Theorem p2_page_spec page r : 0 <= r < 512 ->
  exists pg, p2_page page r = Ok pg /\ canonical pg /\ pg mod S4K = 0 /\
    p4_index pg = r /\ p3_index pg = r /\ p2_index pg = p4_index page /\ p1_index pg = p3_index page /\
    pg mod P48 = compose4 r r (p4_index page) (p3_index page).
Proof.
  intros Hr. destruct (index_ranges page) as (_ & _ & H3 & H4 & _).
  destruct (from_indices_4k_spec r r (p4_index page) (p3_index page) Hr Hr H4 H3) as (pg & E & Hc & Hal & I4 & I3 & I2 & I1 & Hm & _).
  exists pg. unfold p2_page. splits; auto.
Qed.
Theorem p1_page_spec page r : 0 <= r < 512 ->
  exists pg, p1_page page r = Ok pg /\ canonical pg /\ pg mod S4K = 0 /\
    p4_index pg = r /\ p3_index pg = p4_index page /\ p2_index pg = p3_index page /\ p1_index pg = p2_index page /\
    pg mod P48 = compose4 r (p4_index page) (p3_index page) (p2_index page).
Proof.
  intros Hr. destruct (index_ranges page) as (_ & H2 & H3 & H4 & _).
  destruct (from_indices_4k_spec r (p4_index page) (p3_index page) (p2_index page) Hr H4 H3 H2) as (pg & E & Hc & Hal & I4 & I3 & I2 & I1 & Hm & _).
  exists pg. unfold p1_page. splits; auto.
Qed.

(* non-vacuity: the classic index 511 and a lower-half index *)
Example rec_new_511 :
  rec_new_at 18446744073709547520 (Z.lor 1052672 24) (table_with 511 (Z.lor 1052672 3)) = Ok [0; 511] /\
  rec_new_at 18446744073709547520 1052672 (table_with 511 (Z.lor 1056768 3)) = Ok [E_NOT_ACTIVE] /\
  rec_new_at 18446744073709543424 1052672 (table_with 511 (Z.lor 1052672 3)) = Ok [E_NOT_RECURSIVE] /\
  p1_page 1073741824 511 = Ok 18446743523955834880.
Proof. vm_compute. repeat split. Qed.
