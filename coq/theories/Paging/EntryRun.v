(* Correspondence interface of the page-table-entry engine ("pte"). *)
From X86 Require Import Paging.Entry.
Open Scope Z_scope.

Definition observe (e : Z) : list Z :=
  [e; b2z (pte_is_unused e); pte_flags e] ++ enc_res (pte_addr e) ++ enc_res_opt (pte_frame e).

Definition unwrap_opt_res (r : res (option Z)) : res Z :=
  match r with Ok (Some v) => Ok v | _ => Panic end.
Definition flags_valid (f : Z) : bool := Z.land f PTF_ALL =? f.

(* program over one entry: (op, a, b)* ; op 0 set_addr(addr=a, flags=b) 1 set_frame 2 set_flags(b)
   3 set_unused.  `a` must be a valid PhysAddr (the harness builds it with PhysAddr::new) and
   `b` a set of declared flag bits (PageTableFlags::from_bits(b).unwrap()). *)
Definition entry_step (e op a b : Z) : res Z :=
  if negb (flags_valid b) then Panic else
  if op =? 0 then do _ <- pa_new a; pte_set_addr e a b
  else if op =? 1 then
    do _ <- pa_new a; do f <- unwrap_opt_res (frame_from_start S4K a); pte_set_frame e f b
  else if op =? 2 then pte_set_flags e b
  else Ok (pte_set_unused e).

Fixpoint run_entry_prog (e : Z) (l : list Z) : list Z :=
  match l with
  | op :: a :: b :: l' =>
      match entry_step e op a b with
      | Ok e' => observe e' ++ run_entry_prog e' l'
      | Panic => [PANIC]
      end
  | _ => []
  end.

(* table program: (path, idx, value)* writes through one of the access paths
   (0 [usize], 1 [PageTableIndex], 2 iter_mut().nth(i)); all denote the same slot.
   Output: after all writes the 512 raw words, is_empty, then after zero(): is_empty and
   the number of non-zero words. *)
Fixpoint run_table_writes (t : table) (l : list Z) : res table :=
  match l with
  | path :: i :: v :: l' =>
      match table_set t i v with
      | Ok t' => run_table_writes t' l'
      | Panic => Panic
      end
  | _ => Ok t
  end.
Definition count_nonzero (t : table) : Z :=
  Z.of_nat (length (filter (fun w => negb (w =? 0)) t)).

Definition run_pte (oc : bool) (c : list Z) : list Z :=
  match c with
  | [1; e] => observe e
  | 2 :: e :: l => observe e ++ run_entry_prog e l
  | 3 :: l =>
      match run_table_writes table_new l with
      | Ok t => t ++ [b2z (table_is_empty t); b2z (table_is_empty (table_zero t));
                      count_nonzero (table_zero t)]
      | Panic => [PANIC]
      end
  | [4] => [b2z (table_is_empty table_new); Z.of_nat (length (table_bytes table_new));
            count_nonzero table_new; 4096; 4096; 8; 8]   (* size, align of table; size, align of entry *)
  | [5; w] => word_bytes w
  | _ => [-99]
  end.
