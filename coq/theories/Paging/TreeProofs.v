(* Theorems about the abstract tree model (Paging/Tree.v): what every path translates to after
   each operation.  No well-formedness hypothesis is needed: a slot beyond the end of a
   children list is Empty, and set_child pads. *)
From X86 Require Import Base.Bits Paging.Tree.
Require Import Lia.
Open Scope Z_scope.

(* ---------- slots ---------- *)
Lemma child_nil i : child [] i = Empty.
Proof. unfold child. destruct i; reflexivity. Qed.

Lemma child_set_child ch i n j :
  child (set_child ch i n) j = if Nat.eqb i j then n else child ch j.
Proof.
  revert ch j. induction i as [|i IH]; intros ch j.
  - destruct ch as [|x t]; destruct j as [|j]; cbn; try reflexivity.
    + unfold child. cbn. destruct j; reflexivity.
  - destruct ch as [|x t]; destruct j as [|j]; cbn [set_child Nat.eqb]; try reflexivity.
    + change (child (Empty :: set_child [] i n) (S j)) with (child (set_child [] i n) j).
      rewrite IH. rewrite child_nil. unfold child. cbn. destruct j; reflexivity.
    + change (child (x :: set_child t i n) (S j)) with (child (set_child t i n) j).
      rewrite IH. reflexivity.
Qed.
Lemma child_set_same ch i n : child (set_child ch i n) i = n.
Proof. rewrite child_set_child, Nat.eqb_refl. reflexivity. Qed.
Lemma child_set_other ch i n j : i <> j -> child (set_child ch i n) j = child ch j.
Proof. intros H. rewrite child_set_child. destruct (Nat.eqb_spec i j); [contradiction|reflexivity]. Qed.

Lemma child_empty_children i : child empty_children i = Empty.
Proof.
  unfold child, empty_children. destruct (Nat.lt_ge_cases i 512) as [H|H].
  - apply nth_repeat.
  - apply nth_overflow. rewrite repeat_length. exact H.
Qed.

(* ---------- what a path of indices reaches: the leaf word and how many indices remain ---------- *)
Fixpoint lookup (ch : list node) (path : list nat) : option (Z * nat) :=
  match path with
  | [] => None
  | i :: rest =>
      match child ch i with
      | Empty => None
      | Leaf w => Some (w, length rest)
      | Tab _ _ sub => lookup sub rest
      end
  end.

Fixpoint prefix (p q : list nat) : bool :=
  match p, q with
  | [], _ => true
  | i :: p', j :: q' => Nat.eqb i j && prefix p' q'
  | _ :: _, [] => false
  end.

Lemma lookup_empty path : lookup empty_children path = None.
Proof. destruct path as [|i r]; cbn [lookup]; [reflexivity|]. rewrite child_empty_children. reflexivity. Qed.

(* the tree walk with rights agrees with lookup on the leaf *)
Lemma t_walk_lookup ch path lvl wr us :
  match t_walk ch path lvl wr us with
  | Some (w, l, _, _) => lookup ch path = Some (w, Z.to_nat (Z.of_nat (length path) - 1 - (lvl - l))) 
  | None => lookup ch path = None
  end.
Proof.
  revert ch lvl wr us. induction path as [|i rest IH]; intros ch lvl wr us; cbn [t_walk lookup].
  - reflexivity.
  - destruct (child ch i) as [|w|f fl sub].
    + reflexivity.
    + f_equal. f_equal. cbn [length]. lia.
    + specialize (IH sub (lvl - 1) (wr && Z.testbit fl 1)%bool (us && Z.testbit fl 2)%bool).
      destruct (t_walk sub rest (lvl - 1) _ _) as [[[[w l] a] b]|]; [|exact IH].
      rewrite IH. f_equal. f_equal. cbn [length]. lia.
Qed.

(* ---------- map ---------- *)
Definition is_ok (r : tres) : bool := match r with TOk _ => true | TErr _ => false end.

Theorem map_path_lookup rec idxs : forall ch w frame page pf a ch' a' r,
  map_path rec ch idxs w frame page pf a = (ch', a', r) ->
  forall path,
    lookup ch' path =
      if is_ok r && prefix idxs path then Some (w, (length path - length idxs)%nat) else lookup ch path.
Proof.
  induction idxs as [|i rest IH]; intros ch w frame page pf a ch' a' r H path.
  - cbn in H. inversion H; subst. reflexivity.
  - destruct rest as [|i2 rest].
    + (* the final slot *)
      cbn [map_path] in H.
      destruct (child ch i) eqn:Hc; inversion H; subst; clear H; cbn [is_ok andb]; try reflexivity.
      destruct path as [|j p]; [reflexivity|].
      cbn [lookup prefix length]. rewrite child_set_child.
      destruct (Nat.eqb_spec i j) as [->|Hne]; cbn [andb].
      * f_equal. f_equal. lia.
      * reflexivity.
    + (* a parent level *)
      remember (i2 :: rest) as tail eqn:Ht.
      assert (Hstep : map_path rec ch (i :: tail) w frame page pf a =
          match child ch i with
          | Empty => match t_alloc a with
                     | (None, a1) => (ch, a1, TErr [E_ALLOC_FAILED])
                     | (Some f, a1) =>
                         let '(c2, a2, r2) := map_path rec empty_children tail w frame page pf a1 in
                         (set_child ch i (Tab f (new_parent_flags rec pf) c2), a2, r2)
                     end
          | Leaf _ => (ch, a, TErr [E_PARENT_HUGE])
          | Tab f fl sub =>
              let '(c2, a2, r2) := map_path rec sub tail w frame page pf a in
              (set_child ch i (Tab f (widen fl pf) c2), a2, r2)
          end).
      { subst tail. reflexivity. }
      rewrite Hstep in H. clear Hstep.
      destruct (child ch i) as [|lw|f fl sub] eqn:Hc.
      * destruct (t_alloc a) as [[f|] a1].
        -- destruct (map_path rec empty_children tail w frame page pf a1) as [[c2 a2] r2] eqn:Hm.
           inversion H; subst ch' a' r; clear H.
           destruct path as [|j p]; [cbn; destruct (is_ok r2); reflexivity|].
           cbn [lookup prefix length]. rewrite child_set_child.
           destruct (Nat.eqb_spec i j) as [->|Hne]; cbn [andb].
           ++ rewrite (IH _ _ _ _ _ _ _ _ _ Hm p). rewrite Hc.
              rewrite lookup_empty.
              destruct (is_ok r2 && prefix tail p)%bool; reflexivity.
           ++ rewrite Bool.andb_false_r. reflexivity.
        -- inversion H; subst. reflexivity.
      * inversion H; subst. reflexivity.
      * destruct (map_path rec sub tail w frame page pf a) as [[c2 a2] r2] eqn:Hm.
        inversion H; subst ch' a' r; clear H.
        destruct path as [|j p]; [cbn; destruct (is_ok r2); reflexivity|].
        cbn [lookup prefix length]. rewrite child_set_child.
        destruct (Nat.eqb_spec i j) as [->|Hne]; cbn [andb].
        -- rewrite (IH _ _ _ _ _ _ _ _ _ Hm p). rewrite Hc. reflexivity.
        -- rewrite Bool.andb_false_r. reflexivity.
Qed.

(* ---------- slots reached by a walk ---------- *)
Definition node_lookup (n : node) (rest : list nat) : option (Z * nat) :=
  match n with Empty => None | Leaf w => Some (w, length rest) | Tab _ _ sub => lookup sub rest end.
Lemma lookup_cons ch i rest : lookup ch (i :: rest) = node_lookup (child ch i) rest.
Proof. reflexivity. Qed.

Lemma slot_at_lookup idxs : forall ch n, idxs <> [] -> slot_at ch idxs = inl n ->
  forall path, prefix idxs path = true ->
  lookup ch path = node_lookup n (skipn (length idxs) path).
Proof.
  induction idxs as [|i rest IH]; intros ch n Hne H path Hp; [contradiction|].
  destruct path as [|j p]; [discriminate|].
  cbn [prefix] in Hp. apply Bool.andb_true_iff in Hp. destruct Hp as [Hij Hp].
  apply Nat.eqb_eq in Hij. subst j.
  destruct rest as [|i2 rest].
  - cbn in H. inversion H; subst. reflexivity.
  - remember (i2 :: rest) as tail.
    assert (Hs : slot_at ch (i :: tail) =
       match child ch i with Empty => inr [E_NOT_MAPPED] | Leaf _ => inr [E_PARENT_HUGE] | Tab _ _ sub => slot_at sub tail end)
      by (subst tail; reflexivity).
    rewrite Hs in H. clear Hs.
    cbn [lookup length skipn].
    destruct (child ch i) as [|w|f fl sub]; try discriminate.
    apply IH; [subst tail; discriminate| exact H | exact Hp].
Qed.

Lemma set_slot_lookup idxs : forall ch n n', idxs <> [] -> slot_at ch idxs = inl n ->
  forall path,
  lookup (set_slot ch idxs n') path =
    if prefix idxs path then node_lookup n' (skipn (length idxs) path) else lookup ch path.
Proof.
  induction idxs as [|i rest IH]; intros ch n n' Hne H path; [contradiction|].
  destruct rest as [|i2 rest].
  - cbn [set_slot]. destruct path as [|j p]; [reflexivity|].
    cbn [prefix length skipn]. rewrite lookup_cons, child_set_child.
    destruct (Nat.eqb_spec i j) as [->|Hn]; cbn [andb]; reflexivity.
  - remember (i2 :: rest) as tail.
    assert (Hs : slot_at ch (i :: tail) =
       match child ch i with Empty => inr [E_NOT_MAPPED] | Leaf _ => inr [E_PARENT_HUGE] | Tab _ _ sub => slot_at sub tail end)
      by (subst tail; reflexivity).
    assert (Hss : set_slot ch (i :: tail) n' =
       match child ch i with Tab f fl sub => set_child ch i (Tab f fl (set_slot sub tail n')) | _ => ch end)
      by (subst tail; reflexivity).
    rewrite Hs in H. rewrite Hss. clear Hs Hss.
    destruct (child ch i) as [|w|f fl sub] eqn:Hc; try discriminate.
    destruct path as [|j p]; [reflexivity|].
    cbn [prefix length skipn]. rewrite lookup_cons, child_set_child.
    destruct (Nat.eqb_spec i j) as [->|Hn]; cbn [andb].
    + cbn [node_lookup]. rewrite (IH sub n n'); [|subst tail; discriminate|exact H].
      rewrite lookup_cons, Hc. reflexivity.
    + reflexivity.
Qed.

(* an error of the walk means: the path holds no mapping of that size *)
Lemma slot_at_err idxs : forall ch e, slot_at ch idxs = inr e ->
  e = [E_NOT_MAPPED] \/ e = [E_PARENT_HUGE] \/ idxs = [].
Proof.
  induction idxs as [|i rest IH]; intros ch e H; [right; right; reflexivity|].
  destruct rest as [|i2 rest]; [cbn in H; discriminate|].
  remember (i2 :: rest) as tail.
  assert (Hs : slot_at ch (i :: tail) =
       match child ch i with Empty => inr [E_NOT_MAPPED] | Leaf _ => inr [E_PARENT_HUGE] | Tab _ _ sub => slot_at sub tail end)
      by (subst tail; reflexivity).
  rewrite Hs in H. destruct (child ch i).
  - inversion H; auto.
  - inversion H; auto.
  - destruct (IH _ _ H) as [?|[?|?]]; auto. subst tail; discriminate.
Qed.

(* ---------- unmap, update_flags, set_flags_p*_entry, translate_page ---------- *)
Theorem t_unmap_lookup ch idxs k page ch' o : idxs <> [] ->
  t_unmap ch idxs k page = (ch', o) ->
  (exists w, o = [0; leaf_addr w; page] /\ slot_at ch idxs = inl (Leaf w) /\
     forall path, lookup ch' path = if prefix idxs path then None else lookup ch path)
  \/ (ch' = ch /\ exists c rest, o = c :: rest /\ c < 0).
Proof.
  intros Hne H. unfold t_unmap in H.
  destruct (slot_at ch idxs) as [n|e] eqn:Hs.
  - destruct n as [|w|f fl sub].
    + inversion H; subst. right. split; [reflexivity|]. eexists _, _. split; [reflexivity|reflexivity].
    + destruct (negb (leaf_addr w mod size_of_kind k =? 0)).
      * inversion H; subst. right. split; [reflexivity|]. eexists _, _. split; [reflexivity|reflexivity].
      * inversion H; subst. left. exists w. split; [reflexivity|]. split; [reflexivity|].
        intros path. rewrite (set_slot_lookup idxs ch (Leaf w) Empty Hne Hs). reflexivity.
    + inversion H; subst. right. split; [reflexivity|]. eexists _, _. split; [reflexivity|reflexivity].
  - inversion H; subst. right. split; [reflexivity|].
    destruct (slot_at_err _ _ _ Hs) as [->|[->|?]]; [| |contradiction];
      eexists _, _; (split; [reflexivity|reflexivity]).
Qed.

Theorem t_update_flags_lookup ch idxs k page flags ch' o : idxs <> [] ->
  t_update_flags ch idxs k page flags = (ch', o) ->
  (exists w, o = [0; page] /\ slot_at ch idxs = inl (Leaf w) /\
     forall path, lookup ch' path =
       if prefix idxs path
       then Some (Z.lor (leaf_addr w) (if k =? 0 then flags else Z.lor flags PTF_HUGE),
                  (length path - length idxs)%nat)
       else lookup ch path)
  \/ (ch' = ch /\ exists c rest, o = c :: rest /\ c < 0).
Proof.
  intros Hne H. unfold t_update_flags in H.
  destruct (slot_at ch idxs) as [n|e] eqn:Hs.
  - destruct n as [|w|f fl sub].
    + inversion H; subst. right. split; [reflexivity|]. eexists _, _. split; [reflexivity|reflexivity].
    + inversion H; subst. left. exists w. split; [reflexivity|]. split; [reflexivity|].
      intros path. rewrite (set_slot_lookup idxs ch (Leaf w) _ Hne Hs).
      destruct (prefix idxs path) eqn:Hp; [|reflexivity].
      cbn [node_lookup]. rewrite skipn_length. reflexivity.
    + inversion H; subst. right. split; [reflexivity|]. eexists _, _. split; [reflexivity|reflexivity].
  - inversion H; subst. right. split; [reflexivity|].
    destruct (slot_at_err _ _ _ Hs) as [->|[->|?]]; [| |contradiction];
      eexists _, _; (split; [reflexivity|reflexivity]).
Qed.

(* a parent-flag call never changes what any path translates to *)
Theorem t_set_flags_parent_lookup ch idxs flags ch' o :
  t_set_flags_parent ch idxs flags = (ch', o) ->
  forall path, lookup ch' path = lookup ch path.
Proof.
  intros H path. unfold t_set_flags_parent in H.
  destruct (slot_at ch idxs) as [n|e] eqn:Hs.
  - destruct n as [|w|f fl sub]; inversion H; subst; try reflexivity.
    destruct idxs as [|i rest]; [reflexivity|].
    rewrite (set_slot_lookup (i :: rest) ch (Tab f fl sub) _ ltac:(discriminate) Hs).
    destruct (prefix (i :: rest) path) eqn:Hp; [|reflexivity].
    symmetry. rewrite (slot_at_lookup (i :: rest) ch _ ltac:(discriminate) Hs path Hp). reflexivity.
  - inversion H; subst. reflexivity.
Qed.

Theorem t_translate_page_lookup ch idxs k : idxs <> [] ->
  match t_translate_page ch idxs k with
  | [0; f] => exists w, lookup ch idxs = Some (w, O) /\ f = leaf_addr w
  | c :: _ => c < 0
  | [] => False
  end.
Proof.
  intros Hne. unfold t_translate_page.
  destruct (slot_at ch idxs) as [n|e] eqn:Hs.
  - destruct n as [|w|f fl sub]; try reflexivity.
    destruct (negb (leaf_addr w mod size_of_kind k =? 0)); [reflexivity|].
    exists w. split; [|reflexivity].
    assert (Hp : prefix idxs idxs = true).
    { clear. induction idxs as [|i r IH]; [reflexivity|]. cbn. rewrite Nat.eqb_refl. exact IH. }
    rewrite (slot_at_lookup idxs ch _ Hne Hs idxs Hp). rewrite skipn_all. reflexivity.
  - destruct (slot_at_err _ _ _ Hs) as [->|[->|?]]; [reflexivity|reflexivity|contradiction].
Qed.

(* ---------- clean_up ---------- *)
Lemma all_empty_child ch : all_empty ch = true -> forall i, child ch i = Empty.
Proof.
  induction ch as [|n t IH]; intros H i; [apply child_nil|].
  cbn in H. destruct n; try discriminate.
  destruct i as [|i]; [reflexivity|]. apply (IH H i).
Qed.
Lemma all_empty_lookup ch : all_empty ch = true -> forall path, lookup ch path = None.
Proof. intros H [|i r]; [reflexivity|]. rewrite lookup_cons, (all_empty_child _ H). reflexivity. Qed.

Lemma prune_children_lookup (P : list node -> Z -> list node * list Z) :
  (forall sub lo path, lookup (fst (P sub lo)) path = lookup sub path) ->
  forall ch i base span rs re skip j rest,
    node_lookup (child (fst (prune_children P ch i base span rs re skip)) j) rest =
    node_lookup (child ch j) rest.
Proof.
  intros HP. induction ch as [|n t IH]; intros i base span rs re skip j rest; [reflexivity|].
  cbn [prune_children].
  destruct (prune_children P t (i + 1) base span rs re skip) as [t' fr2] eqn:Ht.
  assert (IHt := IH (i + 1) base span rs re skip). rewrite Ht in IHt. cbn [fst] in IHt.
  set (n1 := match n with
        | Tab f fl sub => _
        | _ => (n, [])
        end).
  assert (Hn : forall r, node_lookup (fst n1) r = node_lookup n r).
  { intros r. subst n1. destruct n as [|w|f fl sub]; try reflexivity.
    destruct ((base + i * span + span - 1 <? rs) || (re <? base + i * span) || (i =? skip))%bool; [reflexivity|].
    specialize (HP sub (base + i * span)).
    destruct (P sub (base + i * span)) as [sub' fr]. cbn [fst] in HP.
    destruct (all_empty sub') eqn:He; cbn [fst node_lookup].
    - rewrite <- HP. symmetry. apply all_empty_lookup. exact He.
    - apply HP. }
  destruct n1 as [n' fr1]. cbn [fst] in *.
  destruct j as [|j].
  - apply Hn.
  - apply IHt.
Qed.

Theorem prune_lookup level : forall rs re skip ch base path,
  lookup (fst (prune level rs re skip ch base)) path = lookup ch path.
Proof.
  induction level as [|l IH]; intros rs re skip ch base path; [reflexivity|].
  cbn [prune]. destruct (l =? 0)%nat; [reflexivity|].
  destruct path as [|j rest]; [reflexivity|].
  rewrite !lookup_cons. apply prune_children_lookup.
  intros sub lo p. apply IH.
Qed.

(* ---------- the history theorem ---------- *)
Lemma map_path_res rec idxs : forall ch w frame page pf a ch' a' r,
  map_path rec ch idxs w frame page pf a = (ch', a', r) ->
  r = TOk [0; page] \/ exists c rest, r = TErr (c :: rest) /\ c < 0.
Proof.
  induction idxs as [|i rest IH]; intros ch w frame page pf a ch' a' r H.
  - cbn in H. inversion H; subst. right. eexists _, _. split; reflexivity.
  - destruct rest as [|i2 rest].
    + cbn [map_path] in H. destruct (child ch i); inversion H; subst; auto;
        right; eexists _, _; split; reflexivity.
    + remember (i2 :: rest) as tail eqn:Ht.
      assert (Hstep : map_path rec ch (i :: tail) w frame page pf a =
          match child ch i with
          | Empty => match t_alloc a with
                     | (None, a1) => (ch, a1, TErr [E_ALLOC_FAILED])
                     | (Some f, a1) =>
                         let '(c2, a2, r2) := map_path rec empty_children tail w frame page pf a1 in
                         (set_child ch i (Tab f (new_parent_flags rec pf) c2), a2, r2)
                     end
          | Leaf _ => (ch, a, TErr [E_PARENT_HUGE])
          | Tab f fl sub =>
              let '(c2, a2, r2) := map_path rec sub tail w frame page pf a in
              (set_child ch i (Tab f (widen fl pf) c2), a2, r2)
          end) by (subst tail; reflexivity).
      rewrite Hstep in H. clear Hstep.
      destruct (child ch i) as [|lw|f fl sub].
      * destruct (t_alloc a) as [[f|] a1].
        -- destruct (map_path rec empty_children tail w frame page pf a1) as [[c2 a2] r2] eqn:Hm.
           inversion H; subst. eapply IH; exact Hm.
        -- inversion H; subst. right; eexists _, _; split; reflexivity.
      * inversion H; subst. right; eexists _, _; split; reflexivity.
      * destruct (map_path rec sub tail w frame page pf a) as [[c2 a2] r2] eqn:Hm.
        inversion H; subst. eapply IH; exact Hm.
Qed.

Lemma idx_list_nonempty k page : idx_list k page <> [].
Proof. unfold idx_list. destruct (k =? 2); [discriminate|]. destruct (k =? 1); discriminate. Qed.
Lemma prefix_refl p : prefix p p = true.
Proof. induction p as [|i r IH]; [reflexivity|]. cbn. rewrite Nat.eqb_refl. exact IH. Qed.

(* what the history of successful calls dictates, as a function from index paths to the leaf
   entry word and the number of indices below the leaf; built from the calls and their results
   only *)
Definition dmap := list nat -> option (Z * nat).
Definition dict_step (d : dmap) (op : top) (o : out) : dmap :=
  match op, o with
  | OMap k page frame flags _, 0 :: _ =>
      fun path => if prefix (idx_list k page) path
                  then Some (leaf_word k frame flags, (length path - length (idx_list k page))%nat)
                  else d path
  | OUnmap k page, 0 :: _ => fun path => if prefix (idx_list k page) path then None else d path
  | OUpdate k page flags, 0 :: _ =>
      match d (idx_list k page) with
      | Some (w, _) =>
          fun path => if prefix (idx_list k page) path
                      then Some (Z.lor (leaf_addr w) (if k =? 0 then flags else Z.lor flags PTF_HUGE),
                                 (length path - length (idx_list k page))%nat)
                      else d path
      | None => d
      end
  | _, _ => d
  end.

Theorem apply_op_dictated rec r s op s' o (d : dmap) :
  apply_op rec r s op = (s', o) ->
  (forall path, lookup (t_root s) path = d path) ->
  forall path, lookup (t_root s') path = dict_step d op o path.
Proof.
  intros H Hd path. destruct op; cbn [apply_op] in H.
  - (* map *)
    destruct (map_path rec (t_root s) (idx_list k page) (leaf_word k frame flags) frame page pflags (t_aor s))
      as [[ch' a'] res] eqn:Hm.
    inversion H; subst s' o; clear H. cbn [t_root].
    rewrite (map_path_lookup _ _ _ _ _ _ _ _ _ _ _ Hm path).
    destruct (map_path_res _ _ _ _ _ _ _ _ _ _ _ Hm) as [->|[c [rest [-> Hc]]]]; cbn [is_ok andb dict_step].
    + destruct (prefix (idx_list k page) path); [reflexivity|apply Hd].
    + destruct c; try apply Hd. lia.
  - (* unmap *)
    destruct (t_unmap (t_root s) (idx_list k page) k page) as [ch' o'] eqn:Hu.
    inversion H; subst s' o; clear H. cbn [t_root].
    destruct (t_unmap_lookup _ _ _ _ _ _ (idx_list_nonempty k page) Hu)
      as [[w [-> [Hs Hl]]]|[-> [c [rest [-> Hc]]]]]; cbn [dict_step].
    + rewrite Hl. destruct (prefix (idx_list k page) path); [reflexivity|apply Hd].
    + destruct c; try apply Hd. lia.
  - (* update_flags *)
    destruct (t_update_flags (t_root s) (idx_list k page) k page flags) as [ch' o'] eqn:Hu.
    inversion H; subst s' o; clear H. cbn [t_root].
    destruct (t_update_flags_lookup _ _ _ _ _ _ _ (idx_list_nonempty k page) Hu)
      as [[w [-> [Hs Hl]]]|[-> [c [rest [-> Hc]]]]]; cbn [dict_step].
    + rewrite <- Hd.
      rewrite (slot_at_lookup _ _ _ (idx_list_nonempty k page) Hs _ (prefix_refl _)).
      rewrite skipn_all. cbn [node_lookup length].
      rewrite Hl. destruct (prefix (idx_list k page) path); [reflexivity|apply Hd].
    + destruct c; try apply Hd. lia.
  - (* set_flags_p*_entry *)
    assert (Hgoal : lookup (t_root s') path = lookup (t_root s) path).
    { destruct ((level =? 3) && (k =? 2))%bool; [inversion H; reflexivity|].
      destruct ((level =? 2) && negb (k =? 0))%bool; [inversion H; reflexivity|].
      destruct (t_set_flags_parent (t_root s) _ flags) as [ch' o'] eqn:Hp.
      inversion H; subst s' o. cbn [t_root].
      apply (t_set_flags_parent_lookup _ _ _ _ _ Hp). }
    rewrite Hgoal. cbn [dict_step]. apply Hd.
  - inversion H; subst. apply Hd.
  - inversion H; subst. apply Hd.
  - inversion H; subst. apply Hd.
  - (* clean_up *)
    destruct (prune 4 0 (2 ^ 36 - 1) (if rec then r else -1) (t_root s) 0) as [ch' fr] eqn:Hp.
    inversion H; subst s' o. cbn [t_root dict_step].
    replace ch' with (fst (prune 4 0 (2 ^ 36 - 1) (if rec then r else -1) (t_root s) 0)) by (rewrite Hp; reflexivity).
    rewrite prune_lookup. apply Hd.
  - (* clean_up_addr_range *)
    destruct (re <? rs); [inversion H; subst; apply Hd|].
    destruct (prune 4 (page_pos rs) (page_pos re) (if rec then r else -1) (t_root s) 0) as [ch' fr] eqn:Hp.
    inversion H; subst s' o. cbn [t_root dict_step].
    replace ch' with (fst (prune 4 (page_pos rs) (page_pos re) (if rec then r else -1) (t_root s) 0)) by (rewrite Hp; reflexivity).
    rewrite prune_lookup. apply Hd.
  - inversion H; subst. apply Hd.
  - inversion H; subst. apply Hd.
  - inversion H; subst. apply Hd.
Qed.

(* any history, from the empty level-4 table *)
Fixpoint run_history (rec : bool) (r : Z) (s : tstate) (ops : list top) : tstate * list out :=
  match ops with
  | [] => (s, [])
  | op :: rest =>
      let '(s1, o) := apply_op rec r s op in
      let '(s2, os) := run_history rec r s1 rest in (s2, o :: os)
  end.
Fixpoint dictated (d : dmap) (ops : list top) (outs : list out) : dmap :=
  match ops, outs with
  | op :: ops', o :: outs' => dictated (dict_step d op o) ops' outs'
  | _, _ => d
  end.

Theorem history_dictates rec r ops : forall s d s' outs,
  run_history rec r s ops = (s', outs) ->
  (forall path, lookup (t_root s) path = d path) ->
  forall path, lookup (t_root s') path = dictated d ops outs path.
Proof.
  induction ops as [|op rest IH]; intros s d s' outs H Hd path.
  - cbn in H. inversion H; subst. apply Hd.
  - cbn [run_history] in H.
    destruct (apply_op rec r s op) as [s1 o] eqn:Ha.
    destruct (run_history rec r s1 rest) as [s2 os] eqn:Hr.
    inversion H; subst s' outs. cbn [dictated].
    apply (IH s1 _ s2 os Hr).
    intros p. apply (apply_op_dictated _ _ _ _ _ _ _ Ha Hd).
Qed.

Corollary history_dictates_from_empty rec r allocs ops s' outs :
  run_history rec r (t_init allocs) ops = (s', outs) ->
  forall path, lookup (t_root s') path = dictated (fun _ => None) ops outs path.
Proof.
  intros H. apply (history_dictates rec r ops (t_init allocs) _ s' outs H).
  intros path. apply lookup_empty.
Qed.

(* ---------- translate, translate_addr and the hardware walk read the same leaf ---------- *)
Lemma t_walk_level ch path : forall lvl wr us w l a b,
  t_walk ch path lvl wr us = Some (w, l, a, b) -> lvl - Z.of_nat (length path) < l <= lvl.
Proof.
  revert ch. induction path as [|i rest IH]; intros ch lvl wr us w l a b H; cbn [t_walk] in H; [discriminate|].
  destruct (child ch i) as [|lw|f fl sub]; [discriminate| |].
  - inversion H; subst. cbn [length]. lia.
  - apply IH in H. cbn [length]. lia.
Qed.

Lemma leaf_addr_mod_4k w : leaf_addr w mod S4K = 0.
Proof.
  unfold leaf_addr, ADDR_MASK, S4K.
  change 4503599627366400 with (2 ^ 52 - 2 ^ 12). rewrite land_mask_range by lia.
  pose proof (mod_mod_pow2 w 52 12 ltac:(lia)) as Hm.
  change (2 ^ 12) with 4096 in *. change (2 ^ 52) with 4503599627370496 in *.
  pose proof (Z.div_mod (w mod 4503599627370496) 4096 ltac:(lia)) as Hd.
  rewrite Hm in Hd.
  replace (w mod 4503599627370496 - w mod 4096) with (((w mod 4503599627370496) / 4096) * 4096) by lia.
  apply Z.mod_mul. lia.
Qed.

Definition size_of_rem (n : nat) : Z := if (n =? 2)%nat then S1G else if (n =? 1)%nat then S2M else S4K.

Theorem translate_hw_agree ch va :
  match lookup ch (idx_list 0 va) with
  | None => t_translate ch va = [E_NOT_MAPPED] /\ t_hw ch va = [NONE]
  | Some (w, n) =>
      let size := size_of_rem n in
      t_translate ch va =
        [0; size; leaf_addr w - leaf_addr w mod size; Z.land va (size - 1); e_flags w] /\
      exists wr us,
        t_hw ch va = [leaf_addr w - leaf_addr w mod size + Z.land va (size - 1); size; w; b2z wr; b2z us]
  end.
Proof.
  unfold t_translate, t_hw.
  pose proof (t_walk_lookup ch (idx_list 0 va) 4 true true) as Hl.
  destruct (t_walk ch (idx_list 0 va) 4 true true) as [[[[w l] wr] us]|] eqn:Hw.
  - apply t_walk_level in Hw. rewrite Hl.
    change (length (idx_list 0 va)) with 4%nat in *. cbn [Z.of_nat] in *.
    assert (Hc : l = 1 \/ l = 2 \/ l = 3 \/ l = 4) by lia.
    destruct Hc as [-> | [-> | [-> | ->]]]; cbn -[Z.sub Z.add leaf_addr Z.modulo Z.land e_flags];
      rewrite ?leaf_addr_mod_4k, ?Z.sub_0_r; (split; [reflexivity|eexists _, _; reflexivity]).
  - rewrite Hl. split; reflexivity.
Qed.

(* the rights along the walk: after a successful map every parent on the path carries the
   requested parent flags *)
Fixpoint parents_have (ch : list node) (idxs : list nat) (pf : Z) : Prop :=
  match idxs with
  | [] => True
  | [_] => True
  | i :: rest =>
      match child ch i with
      | Tab _ fl sub => has fl pf = true /\ parents_have sub rest pf
      | _ => False
      end
  end.

Lemma has_lor_r a b : 0 <= a -> 0 <= b -> has (Z.lor a b) b = true.
Proof.
  intros Ha Hb. unfold has. apply Z.eqb_eq. apply Z.bits_inj'. intros n Hn.
  rewrite Z.land_spec, Z.lor_spec. destruct (Z.testbit a n), (Z.testbit b n); reflexivity.
Qed.
Lemma has_widen fl pf : 0 <= fl -> 0 <= pf -> has (widen fl pf) pf = true.
Proof.
  intros Hf Hp. unfold widen.
  destruct (pf =? 0) eqn:H0; cbn [negb andb].
  - apply Z.eqb_eq in H0. subst. unfold has. rewrite Z.land_0_r. reflexivity.
  - destruct (has fl pf) eqn:Hh; cbn [negb]; [exact Hh|]. apply has_lor_r; assumption.
Qed.
Lemma has_new_parent rec pf : 0 <= pf -> has (new_parent_flags rec pf) pf = true.
Proof.
  intros Hp. unfold new_parent_flags. destruct rec.
  - apply has_lor_r; [|exact Hp]. apply Z.lor_nonneg. split; discriminate.
  - unfold has. rewrite Z.land_diag. apply Z.eqb_refl.
Qed.

(* every table on the path must carry non-negative flags words for the bit reasoning *)
Fixpoint flags_nonneg (ch : list node) (idxs : list nat) : Prop :=
  match idxs with
  | [] => True
  | i :: rest =>
      match child ch i with
      | Tab _ fl sub => 0 <= fl /\ flags_nonneg sub rest
      | _ => True
      end
  end.
Lemma flags_nonneg_empty idxs : flags_nonneg empty_children idxs.
Proof. destruct idxs as [|i r]; cbn [flags_nonneg]; [exact I|]. rewrite child_empty_children. exact I. Qed.

Theorem map_path_parents rec idxs : forall ch w frame page pf a ch' a' o,
  0 <= pf -> flags_nonneg ch idxs ->
  map_path rec ch idxs w frame page pf a = (ch', a', TOk o) ->
  parents_have ch' idxs pf.
Proof.
  induction idxs as [|i rest IH]; intros ch w frame page pf a ch' a' o Hpf Hnn H; [exact I|].
  destruct rest as [|i2 rest]; [exact I|].
  remember (i2 :: rest) as tail eqn:Ht.
  assert (Hstep : map_path rec ch (i :: tail) w frame page pf a =
      match child ch i with
      | Empty => match t_alloc a with
                 | (None, a1) => (ch, a1, TErr [E_ALLOC_FAILED])
                 | (Some f, a1) =>
                     let '(c2, a2, r2) := map_path rec empty_children tail w frame page pf a1 in
                     (set_child ch i (Tab f (new_parent_flags rec pf) c2), a2, r2)
                 end
      | Leaf _ => (ch, a, TErr [E_PARENT_HUGE])
      | Tab f fl sub =>
          let '(c2, a2, r2) := map_path rec sub tail w frame page pf a in
          (set_child ch i (Tab f (widen fl pf) c2), a2, r2)
      end) by (subst tail; reflexivity).
  rewrite Hstep in H. clear Hstep.
  assert (Hph : forall c, parents_have c (i :: tail) pf =
     match child c i with Tab _ fl sub => has fl pf = true /\ parents_have sub tail pf | _ => False end)
    by (intros c; subst tail; reflexivity).
  rewrite Hph. clear Hph.
  cbn [flags_nonneg] in Hnn.
  destruct (child ch i) as [|lw|f fl sub] eqn:Hc.
  - destruct (t_alloc a) as [[f|] a1]; [|discriminate].
    destruct (map_path rec empty_children tail w frame page pf a1) as [[c2 a2] r2] eqn:Hm.
    inversion H; subst ch' a' r2. rewrite child_set_same.
    split; [apply has_new_parent; exact Hpf|].
    eapply IH; [exact Hpf| |exact Hm]. apply flags_nonneg_empty.
  - discriminate.
  - destruct (map_path rec sub tail w frame page pf a) as [[c2 a2] r2] eqn:Hm.
    inversion H; subst ch' a' r2. rewrite child_set_same.
    destruct Hnn as [Hfl Hsub].
    split; [apply has_widen; assumption|].
    eapply IH; [exact Hpf|exact Hsub|exact Hm].
Qed.

(* ... and the walk's effective right is the AND of that bit over the parents and the leaf *)
Lemma has_testbit fl pf n : has fl pf = true -> Z.testbit pf n = true -> Z.testbit fl n = true.
Proof.
  unfold has. intros H Hb. apply Z.eqb_eq in H.
  assert (Hn := f_equal (fun x => Z.testbit x n) H). cbn in Hn.
  rewrite Z.land_spec, Hb, Bool.andb_true_r in Hn. exact Hn.
Qed.

Theorem walk_rights ch idxs pf : forall lvl wr us w l a b,
  parents_have ch idxs pf ->
  t_walk ch idxs lvl wr us = Some (w, l, a, b) ->
  l = lvl - Z.of_nat (length idxs) + 1 ->
  (Z.testbit pf 1 = true -> a = (wr && Z.testbit w 1)%bool) /\
  (Z.testbit pf 2 = true -> b = (us && Z.testbit w 2)%bool).
Proof.
  revert ch. induction idxs as [|i rest IH]; intros ch lvl wr us w l a b Hp H Hl; [discriminate|].
  destruct rest as [|i2 rest].
  - cbn [t_walk] in H. destruct (child ch i) as [|lw|f fl sub]; [discriminate| |].
    + inversion H; subst. split; reflexivity.
    + cbn in H. discriminate.
  - remember (i2 :: rest) as tail eqn:Ht.
    assert (Hph : parents_have ch (i :: tail) pf =
       match child ch i with Tab _ fl sub => has fl pf = true /\ parents_have sub tail pf | _ => False end)
      by (subst tail; reflexivity).
    rewrite Hph in Hp. clear Hph.
    cbn [t_walk] in H.
    destruct (child ch i) as [|lw|f fl sub]; [contradiction|contradiction|].
    destruct Hp as [Hh Hp].
    cbn [length] in Hl.
    destruct (IH sub (lvl - 1) _ _ w l a b Hp H ltac:(lia)) as [H1 H2].
    split; intros Hb.
    + rewrite (H1 Hb). rewrite (has_testbit _ _ _ Hh Hb). rewrite Bool.andb_true_r. reflexivity.
    + rewrite (H2 Hb). rewrite (has_testbit _ _ _ Hh Hb). rewrite Bool.andb_true_r. reflexivity.
Qed.

(* ---------- C02: which outcome a map call reports; C09: how many frames it requests ---------- *)
Lemma t_alloc_count a : snd (snd (t_alloc a)) = snd a + 1.
Proof. unfold t_alloc. destruct (fst a); [reflexivity|]. destruct ((z <? 0) || (W63 <=? z))%bool; reflexivity. Qed.

Lemma map_path_step rec ch i i2 rest w frame page pf a :
  map_path rec ch (i :: i2 :: rest) w frame page pf a =
    match child ch i with
    | Empty => match t_alloc a with
               | (None, a1) => (ch, a1, TErr [E_ALLOC_FAILED])
               | (Some f, a1) =>
                   let '(c2, a2, r2) := map_path rec empty_children (i2 :: rest) w frame page pf a1 in
                   (set_child ch i (Tab f (new_parent_flags rec pf) c2), a2, r2)
               end
    | Leaf _ => (ch, a, TErr [E_PARENT_HUGE])
    | Tab f fl sub =>
        let '(c2, a2, r2) := map_path rec sub (i2 :: rest) w frame page pf a in
        (set_child ch i (Tab f (widen fl pf) c2), a2, r2)
    end.
Proof. reflexivity. Qed.
Lemma slot_at_step ch i i2 rest :
  slot_at ch (i :: i2 :: rest) =
    match child ch i with Empty => inr [E_NOT_MAPPED] | Leaf _ => inr [E_PARENT_HUGE] | Tab _ _ sub => slot_at sub (i2 :: rest) end.
Proof. reflexivity. Qed.

(* at most one frame per missing table: 3/2/1 for 4KiB/2MiB/1GiB *)
Theorem map_path_alloc_count rec idxs : forall ch w frame page pf a ch' a' r,
  map_path rec ch idxs w frame page pf a = (ch', a', r) ->
  snd a <= snd a' <= snd a + Z.of_nat (length idxs - 1).
Proof.
  induction idxs as [|i rest IH]; intros ch w frame page pf a ch' a' r H.
  - cbn in H. inversion H; subst. cbn. lia.
  - destruct rest as [|i2 rest].
    + cbn [map_path] in H. destruct (child ch i); inversion H; subst; cbn; lia.
    + rewrite map_path_step in H.
      replace (Z.of_nat (length (i :: i2 :: rest) - 1)) with (Z.of_nat (length (i2 :: rest) - 1) + 1)
        by (cbn [length]; lia).
      destruct (child ch i) as [|lw|f fl sub].
      * pose proof (t_alloc_count a) as Hc.
        destruct (t_alloc a) as [[f|] a1]; cbn [snd] in Hc.
        -- destruct (map_path rec empty_children (i2 :: rest) w frame page pf a1) as [[c2 a2] r2] eqn:Hm.
           inversion H; subst. apply IH in Hm. lia.
        -- inversion H; subst. lia.
      * inversion H; subst. lia.
      * destruct (map_path rec sub (i2 :: rest) w frame page pf a) as [[c2 a2] r2] eqn:Hm.
        inversion H; subst. apply IH in Hm. lia.
Qed.

Lemma slot_at_empty_children l : l <> [] ->
  slot_at empty_children l = inl Empty \/ slot_at empty_children l = inr [E_NOT_MAPPED].
Proof.
  intros Hne. destruct l as [|x [|y t]]; [contradiction| |].
  - left. cbn [slot_at]. rewrite child_empty_children. reflexivity.
  - right. rewrite slot_at_step. rewrite child_empty_children. reflexivity.
Qed.

(* the documented outcomes, decided by the state the call is made in *)
Theorem map_path_outcome rec idxs : forall ch w frame page pf a ch' a' r,
  idxs <> [] ->
  map_path rec ch idxs w frame page pf a = (ch', a', r) ->
  match slot_at ch idxs with
  | inl Empty => r = TOk [0; page] /\ a' = a                       (* tables exist, slot free *)
  | inl _ => r = TErr [E_ALREADY_MAPPED; frame] /\ a' = a          (* page already mapped *)
  | inr e =>
      if list_eq_dec Z.eq_dec e [E_PARENT_HUGE]
      then r = TErr [E_PARENT_HUGE] /\ a' = a                      (* inside a larger huge page *)
      else (r = TOk [0; page] \/ r = TErr [E_ALLOC_FAILED]) /\ snd a < snd a'   (* a table is missing *)
  end.
Proof.
  induction idxs as [|i rest IH]; intros ch w frame page pf a ch' a' r Hne H; [contradiction|].
  destruct rest as [|i2 rest].
  - cbn [map_path slot_at] in *. destruct (child ch i); inversion H; subst; split; reflexivity.
  - rewrite map_path_step in H. rewrite slot_at_step.
    destruct (child ch i) as [|lw|f fl sub].
    + destruct (list_eq_dec Z.eq_dec [E_NOT_MAPPED] [E_PARENT_HUGE]) as [Hx|_]; [discriminate|].
      pose proof (t_alloc_count a) as Hc.
      destruct (t_alloc a) as [[f|] a1]; cbn [snd] in Hc.
      * destruct (map_path rec empty_children (i2 :: rest) w frame page pf a1) as [[c2 a2] r2] eqn:Hm.
        inversion H; subst ch' a' r.
        pose proof (map_path_alloc_count _ _ _ _ _ _ _ _ _ _ _ Hm) as Hcnt.
        split; [|lia].
        specialize (IH _ _ _ _ _ _ _ _ _ ltac:(discriminate) Hm).
        destruct (slot_at_empty_children (i2 :: rest) ltac:(discriminate)) as [Hs|Hs]; rewrite Hs in IH.
        -- left. apply IH.
        -- destruct (list_eq_dec Z.eq_dec [E_NOT_MAPPED] [E_PARENT_HUGE]) as [Hx|_]; [discriminate|].
           apply IH.
      * inversion H; subst. split; [right; reflexivity|lia].
    + destruct (list_eq_dec Z.eq_dec [E_PARENT_HUGE] [E_PARENT_HUGE]) as [_|Hx]; [|contradiction].
      inversion H; subst. split; reflexivity.
    + destruct (map_path rec sub (i2 :: rest) w frame page pf a) as [[c2 a2] r2] eqn:Hm.
      inversion H; subst ch' a' r.
      apply (IH _ _ _ _ _ _ _ _ _ ltac:(discriminate) Hm).
Qed.

(* ---------- C10: what clean_up releases ---------- *)
Fixpoint node_frames (n : node) : list Z :=
  match n with
  | Tab f _ sub => f :: flat_map node_frames sub
  | _ => []
  end.
Definition frames_of (ch : list node) : list Z := flat_map node_frames ch.

Require Import Permutation.

Lemma all_empty_frames ch : all_empty ch = true -> frames_of ch = [].
Proof.
  induction ch as [|n t IH]; intros H; [reflexivity|].
  cbn in H. destruct n; try discriminate. cbn. apply IH. exact H.
Qed.

Lemma prune_children_frames (P : list node -> Z -> list node * list Z) :
  (forall sub lo, Permutation (snd (P sub lo) ++ frames_of (fst (P sub lo))) (frames_of sub)) ->
  forall ch i base span rs re skip,
    Permutation (snd (prune_children P ch i base span rs re skip) ++
                 frames_of (fst (prune_children P ch i base span rs re skip)))
                (frames_of ch).
Proof.
  intros HP. induction ch as [|n t IH]; intros i base span rs re skip; [reflexivity|].
  cbn [prune_children].
  specialize (IH (i + 1) base span rs re skip).
  destruct (prune_children P t (i + 1) base span rs re skip) as [t' fr2].
  cbn [fst snd] in IH.
  set (n1 := match n with
        | Tab f fl sub => _
        | _ => (n, [])
        end).
  assert (Hn : Permutation (snd n1 ++ node_frames (fst n1)) (node_frames n)).
  { subst n1. destruct n as [|w|f fl sub]; try reflexivity.
    destruct ((base + i * span + span - 1 <? rs) || (re <? base + i * span) || (i =? skip))%bool; [reflexivity|].
    specialize (HP sub (base + i * span)).
    destruct (P sub (base + i * span)) as [sub' fr]. cbn [fst snd] in HP.
    destruct (all_empty sub') eqn:He; cbn [fst snd node_frames].
    - rewrite (all_empty_frames _ He), app_nil_r in HP.
      rewrite app_nil_r. fold (frames_of sub).
      rewrite <- HP. symmetry. apply Permutation_cons_append.
    - fold (frames_of sub) (frames_of sub').
      rewrite <- HP. symmetry. apply Permutation_middle. }
  destruct n1 as [n' fr1]. cbn [fst snd] in *.
  unfold frames_of in *. cbn [flat_map].
  rewrite <- Hn, <- IH.
  rewrite <- !app_assoc. apply Permutation_app_head.
  rewrite !app_assoc. apply Permutation_app_tail. apply Permutation_app_comm.
Qed.

(* the frames released plus the table frames still in the tree are exactly the table frames
   there were: each released frame is one unlinked table, released once; a leaf's (huge) frame
   is never a table frame and the level-4 table is not a node of the tree *)
Theorem prune_frames level : forall rs re skip ch base,
  Permutation (snd (prune level rs re skip ch base) ++ frames_of (fst (prune level rs re skip ch base)))
              (frames_of ch).
Proof.
  induction level as [|l IH]; intros rs re skip ch base; [reflexivity|].
  cbn [prune]. destruct (l =? 0)%nat; [reflexivity|].
  apply prune_children_frames. intros sub lo. apply IH.
Qed.

(* repeating the clean-up releases nothing and changes nothing *)
Lemma prune_children_idem (P : list node -> Z -> list node * list Z) :
  (forall sub lo, P (fst (P sub lo)) lo = (fst (P sub lo), [])) ->
  forall ch i base span rs re skip,
    prune_children P (fst (prune_children P ch i base span rs re skip)) i base span rs re skip =
    (fst (prune_children P ch i base span rs re skip), []).
Proof.
  intros HP. induction ch as [|n t IH]; intros i base span rs re skip; [reflexivity|].
  cbn [prune_children].
  specialize (IH (i + 1) base span rs re skip).
  destruct (prune_children P t (i + 1) base span rs re skip) as [t' fr2].
  cbn [fst] in IH.
  destruct n as [|w|f fl sub].
  - cbn [fst prune_children]. rewrite IH. reflexivity.
  - cbn [fst prune_children]. rewrite IH. reflexivity.
  - destruct ((base + i * span + span - 1 <? rs) || (re <? base + i * span) || (i =? skip))%bool eqn:Hr.
    + cbn [fst prune_children]. rewrite Hr, IH. reflexivity.
    + specialize (HP sub (base + i * span)).
      destruct (P sub (base + i * span)) as [sub' fr]. cbn [fst] in HP.
      destruct (all_empty sub') eqn:He; cbn [fst prune_children].
      * rewrite IH. reflexivity.
      * rewrite Hr, HP, He, IH. reflexivity.
Qed.

Theorem prune_idem level : forall rs re skip ch base,
  prune level rs re skip (fst (prune level rs re skip ch base)) base =
  (fst (prune level rs re skip ch base), []).
Proof.
  induction level as [|l IH]; intros rs re skip ch base; [reflexivity|].
  cbn [prune]. destruct (l =? 0)%nat; [reflexivity|].
  apply prune_children_idem. intros sub lo. apply IH.
Qed.

(* after the clean-up no table that the range reaches is left empty (below the level-4 table,
   outside the recursive slot) *)
Lemma prune_children_no_empty (P : list node -> Z -> list node * list Z) :
  forall ch i base span rs re skip j f fl sub,
    child (fst (prune_children P ch i base span rs re skip)) j = Tab f fl sub ->
    ((base + (i + Z.of_nat j) * span + span - 1 <? rs) || (re <? base + (i + Z.of_nat j) * span)
       || (i + Z.of_nat j =? skip))%bool = false ->
    all_empty sub = false.
Proof.
  induction ch as [|n t IH]; intros i base span rs re skip j f fl sub Hc Hr.
  - cbn [prune_children fst] in Hc. rewrite child_nil in Hc. discriminate.
  - cbn [prune_children] in Hc.
    specialize (IH (i + 1) base span rs re skip).
    destruct (prune_children P t (i + 1) base span rs re skip) as [t' fr2]. cbn [fst] in IH.
    destruct j as [|j].
    + replace (i + Z.of_nat 0) with i in Hr by lia.
      destruct n as [|w|f0 fl0 sub0]; cbn [fst] in Hc; try discriminate.
      rewrite Hr in Hc.
      destruct (P sub0 (base + i * span)) as [sub' fr].
      destruct (all_empty sub') eqn:He; cbn [fst] in Hc; [discriminate|].
      unfold child in Hc. cbn in Hc. inversion Hc; subst. exact He.
    + apply (IH j f fl sub).
      * destruct (match n with Tab f0 fl0 sub0 => _ | _ => (n, []) end) as [n' fr1].
        cbn [fst] in Hc. exact Hc.
      * replace (i + 1 + Z.of_nat j) with (i + Z.of_nat (S j)) by lia. exact Hr.
Qed.

(* ---------- the leaf word stores the frame and the flags ---------- *)
Lemma leaf_addr_lor frame fl :
  Z.land frame ADDR_MASK = frame -> Z.land fl ADDR_MASK = 0 -> leaf_addr (Z.lor frame fl) = frame.
Proof.
  intros Hf Hfl. unfold leaf_addr. rewrite Z.land_lor_distr_l, Hf, Hfl. apply Z.lor_0_r.
Qed.
Theorem leaf_word_addr k frame flags :
  Z.land frame ADDR_MASK = frame -> Z.land flags ADDR_MASK = 0 ->
  leaf_addr (leaf_word k frame flags) = frame.
Proof.
  intros Hf Hfl. unfold leaf_word. destruct (k =? 0); apply leaf_addr_lor; try assumption.
  rewrite Z.land_lor_distr_l, Hfl. reflexivity.
Qed.

(* known finding F7b: PAT_HUGE_PAGE (bit 12) on a huge page lands in the address field *)
Definition KnownF7b (k flags : Z) : Prop := k <> 0 /\ Z.testbit flags 12 = true.
Example F7b_witness :
  let ops := [OMap 1 1073741824 2097152 4097 1; OTranslatePage 1 1073741824; OUnmap 1 1073741824] in
  snd (run_history false 0 (t_init [1048576; 2097152; 3145728]) ops)
  = [[0; 1073741824]; [E_INVALID_FRAME; 2101248]; [E_INVALID_FRAME; 2101248]].
Proof. vm_compute. reflexivity. Qed.

(* non-vacuity: a concrete history (4 KiB, 2 MiB and 1 GiB mappings, an error, an unmap, a
   flag update, a clean-up) and what it dictates *)
Example history_example :
  let ops := [OMap 0 4096 8192 3 7; OMap 1 2097152 4194304 1 1; OMap 2 1073741824 2147483648 5 5;
              OMap 0 2097152 12288 1 1; OUnmap 0 4096; OUpdate 1 2097152 3; OCleanAll;
              OTranslate 2097153; OTranslate 4096; OHw 1073741825; OFreed] in
  snd (run_history false 0 (t_init [1048576; 1052672; 1056768; 1060864]) ops) =
  [[0; 4096]; [0; 2097152]; [0; 1073741824]; [E_PARENT_HUGE]; [0; 8192; 4096]; [0; 2097152]; [0];
   [0; S2M; 4194304; 1; 131]; [E_NOT_MAPPED]; [2147483649; S1G; 2147483781; 0; 1]; [1056768]].
Proof. vm_compute. reflexivity. Qed.

(* tables that do not overlap the range (and the recursive slot) are untouched *)
Lemma prune_children_untouched (P : list node -> Z -> list node * list Z) :
  forall ch i base span rs re skip j,
    ((base + (i + Z.of_nat j) * span + span - 1 <? rs) || (re <? base + (i + Z.of_nat j) * span)
       || (i + Z.of_nat j =? skip))%bool = true ->
    child (fst (prune_children P ch i base span rs re skip)) j = child ch j.
Proof.
  induction ch as [|n t IH]; intros i base span rs re skip j Hr.
  - reflexivity.
  - cbn [prune_children].
    specialize (IH (i + 1) base span rs re skip).
    destruct (prune_children P t (i + 1) base span rs re skip) as [t' fr2]. cbn [fst] in IH.
    destruct j as [|j].
    + replace (i + Z.of_nat 0) with i in Hr by lia.
      destruct n as [|w|f0 fl0 sub0]; cbn [fst]; try reflexivity.
      rewrite Hr. reflexivity.
    + destruct (match n with Tab f0 fl0 sub0 => _ | _ => (n, []) end) as [n' fr1]. cbn [fst].
      change (child (n' :: t') (S j)) with (child t' j). change (child (n :: t) (S j)) with (child t j).
      apply IH. replace (i + 1 + Z.of_nat j) with (i + Z.of_nat (S j)) by lia. exact Hr.
Qed.
