(* Safety of clean_up / clean_up_addr_range of the MappedPageTable memory model, for EVERY range
   (no address arithmetic needed): whatever the call visits, the table memory afterwards
   represents a tree with the same translations, the released frames are page-table frames of
   the hierarchy, each released once, and nothing outside the hierarchy is written. *)
From Coq Require Import FMapPositive.
From X86 Require Import Base.Bits Addr.Index Paging.EntryProofs Paging.Mapped Paging.MemProofs
  Paging.Tree Paging.TreeProofs Paging.Refine Paging.RefineOps.
Require Import Lia ZifyBool Permutation.
Open Scope Z_scope.

Lemma clean_up_unfold f s table level rs re :
  clean_up (S f) s table level rs re =
    if re <? rs then Ok (s, false) else
    do table_addr <- va_align_down rs (table_alignment level);
    let start := page_table_index rs level in
    let e := page_table_index re level in
    do s' <- (if level =? 1 then Ok s
              else cu_loop (clean_up f) table level table_addr rs re e 512%nat start s);
    Ok (s', table_all_unused s' table).
Proof. reflexivity. Qed.

(* ---------- small facts ---------- *)
Lemma rd_deallocate s f a : rd (deallocate s f) a = rd s a.
Proof. reflexivity. Qed.

Lemma all_unused_from_spec s n : forall a, all_unused_from s a n = true ->
  forall j, (j < n)%nat -> rd s (a + 8 * Z.of_nat j) = 0.
Proof.
  induction n as [|n IH]; intros a H j Hj; [lia|].
  cbn [all_unused_from] in H. apply Bool.andb_true_iff in H. destruct H as [H0 H1].
  destruct j as [|j].
  - apply Z.eqb_eq in H0. rewrite Z.mul_0_r, Z.add_0_r. exact H0.
  - specialize (IH (a + 8) H1 j ltac:(lia)). rewrite <- IH. f_equal. lia.
Qed.
Lemma table_all_unused_spec s t : table_all_unused s t = true ->
  forall j, 0 <= j < 512 -> rd s (t + 8 * j) = 0.
Proof.
  intros H j Hj. pose proof (all_unused_from_spec s 512 t H (Z.to_nat j) ltac:(lia)) as E.
  rewrite Z2Nat.id in E by lia. exact E.
Qed.
Lemma rep_zero_empty l s ch t j : rep (S l) s ch t -> 0 <= j < 512 -> rd s (t + 8 * j) = 0 ->
  child ch (Z.to_nat j) = Empty.
Proof.
  intros Hrep Hj Hz. pose proof (proj1 (rep_unfold _ _ _ _) Hrep j Hj) as He.
  destruct (child ch (Z.to_nat j)) as [|w|f fl sub] eqn:Hc; [reflexivity| |];
    exfalso; apply (entry_nonzero l s _ _ He); try discriminate; exact Hz.
Qed.

(* a table whose 512 slots are Empty translates nothing *)
Lemma empty_slots_lookup ch : (forall j, (j < 512)%nat -> child ch j = Empty) ->
  forall path, Forall (fun i => (i < 512)%nat) path -> lookup ch path = None.
Proof.
  intros H path Hp. destruct path as [|i rest]; [reflexivity|].
  inversion Hp; subst. rewrite lookup_cons, (H i) by assumption. reflexivity.
Qed.

Definition small (path : list nat) : Prop := Forall (fun i => (i < 512)%nat) path.

(* what a clean-up call establishes *)
Definition clean_post (l : nat) (s : pstate) (t : Z) (ch : list node) (s' : pstate) (ch' : list node) (fr : list Z) : Prop :=
  rep l s' ch' t /\
  (forall path, small path -> lookup ch' path = lookup ch path) /\
  (exists lost, Permutation (lost ++ fr ++ frames_of ch') (frames_of ch)) /\
  freed s' = rev fr ++ freed s /\
  alloc s' = alloc s /\ nalloc s' = nalloc s /\ root s' = root s /\
  (forall a, 0 <= a -> ~ in_frames (t :: frames_of ch) a -> rd s' a = rd s a).

Lemma sep_shrink s s' t ch ch' fr lost :
  sep s t ch -> Permutation (lost ++ fr ++ frames_of ch') (frames_of ch) -> alloc s' = alloc s ->
  sep s' t ch'.
Proof.
  intros [Hn HF] P Ha. assert (Hva : va s' = va s) by (unfold va; rewrite Ha; reflexivity).
  unfold sep. rewrite Hva.
  assert (P2 : Permutation (t :: frames_of ch ++ va s) ((t :: frames_of ch' ++ va s) ++ (lost ++ fr))).
  { apply Permutation_trans with (t :: (lost ++ fr ++ frames_of ch') ++ va s).
    { apply perm_skip. apply Permutation_app_tail. symmetry. exact P. }
    cbn [app]. apply perm_skip.
    replace ((lost ++ fr ++ frames_of ch') ++ va s) with ((lost ++ fr) ++ (frames_of ch' ++ va s))
      by (rewrite <- !app_assoc; reflexivity).
    apply Permutation_app_comm. }
  split.
  - apply (nodup_app_l _ _ (Permutation_NoDup P2 Hn)).
  - pose proof (Permutation_Forall P2 HF) as H. apply Forall_app in H. apply H.
Qed.

Lemma in_frames_incl l1 l2 a : incl l1 l2 -> in_frames l1 a -> in_frames l2 a.
Proof. intros Hi (g & Hg & Hga). exists g. split; [apply Hi; exact Hg|exact Hga]. Qed.
Lemma perm_incl_r lost fr (x y : list Z) : Permutation (lost ++ fr ++ x) y -> incl x y.
Proof.
  intros P g Hg. apply (Permutation_in _ P). apply in_or_app. right. apply in_or_app. right. exact Hg.
Qed.

(* composing two clean_post steps *)
Lemma clean_post_trans l s t ch s1 ch1 fr1 s2 ch2 fr2 :
  clean_post l s t ch s1 ch1 fr1 -> clean_post l s1 t ch1 s2 ch2 fr2 ->
  clean_post l s t ch s2 ch2 (fr1 ++ fr2).
Proof.
  intros (R1 & L1 & (lost1 & P1) & F1 & A1 & N1 & Ro1 & O1) (R2 & L2 & (lost2 & P2) & F2 & A2 & N2 & Ro2 & O2).
  split; [exact R2|]. split; [intros p Hp; rewrite L2, L1 by exact Hp; reflexivity|].
  split.
  { exists (lost1 ++ lost2).
    apply Permutation_trans with (lost1 ++ fr1 ++ frames_of ch1); [|exact P1].
    rewrite <- !app_assoc. apply Permutation_app_head.
    apply Permutation_trans with (fr1 ++ lost2 ++ fr2 ++ frames_of ch2).
    { rewrite !app_assoc. apply Permutation_app_tail. apply Permutation_app_tail. apply Permutation_app_comm. }
    apply Permutation_app_head. exact P2. }
  split; [rewrite F2, F1, rev_app_distr, app_assoc; reflexivity|].
  split; [congruence|]. split; [congruence|]. split; [congruence|].
  intros a Ha Hout. rewrite O2, O1; [reflexivity|exact Ha|exact Hout|exact Ha|].
  intros Hin. apply Hout. destruct Hin as (g & Hg & Hga). exists g. split; [|exact Hga].
  destruct Hg as [<-|Hg]; [left; reflexivity|right]. apply (perm_incl_r lost1 fr1 _ _ P1). exact Hg.
Qed.
Lemma clean_post_refl l s t ch : rep l s ch t -> clean_post l s t ch s ch [].
Proof.
  intros R. split; [exact R|]. split; [reflexivity|]. split; [exists []; reflexivity|].
  repeat (split; [reflexivity|]). intros; reflexivity.
Qed.

Lemma perm_unlink {A} (l1 sb f0 pre post : list A) (f : A) :
  Permutation ((l1 ++ sb) ++ (f0 ++ [f]) ++ pre ++ post) (pre ++ (f :: l1 ++ f0 ++ sb) ++ post).
Proof.
  apply Permutation_trans with ((f :: l1 ++ f0 ++ sb) ++ pre ++ post); [|apply Permutation_app_swap_app].
  cbn [app]. symmetry.
  replace ((l1 ++ sb) ++ (f0 ++ [f]) ++ pre ++ post) with (((l1 ++ sb) ++ f0) ++ f :: pre ++ post)
    by (rewrite <- !app_assoc; reflexivity).
  apply Permutation_cons_app. rewrite <- !app_assoc. apply Permutation_app_head.
  rewrite !app_assoc. apply Permutation_app_tail. apply Permutation_app_tail. apply Permutation_app_comm.
Qed.
Lemma perm_keep {A} (l1 sb f0 pre post : list A) (f : A) :
  Permutation (l1 ++ f0 ++ pre ++ (f :: sb) ++ post) (pre ++ (f :: l1 ++ f0 ++ sb) ++ post).
Proof.
  apply Permutation_trans with (pre ++ ((l1 ++ f0) ++ f :: sb) ++ post).
  { rewrite (app_assoc l1 f0). rewrite <- (app_assoc (l1 ++ f0) (f :: sb) post). apply Permutation_app_swap_app. }
  apply Permutation_app_head. apply Permutation_app_tail.
  rewrite (app_assoc l1 f0 sb). symmetry. apply Permutation_middle.
Qed.

(* ---------- the loop over the slots ---------- *)
Section Loop.
Variable rec : pstate -> Z -> Z -> Z -> Z -> res (pstate * bool).
Variable l' : nat.                      (* the level of the child tables *)
Variable level : Z.
Hypothesis Hl' : (1 <= l')%nat.
(* what the recursive call (made with level - 1) guarantees *)
Hypothesis IHrec : forall s0 t0 sub sp ep s1 b,
  rep l' s0 sub t0 -> tframe t0 -> sep s0 t0 sub ->
  rec s0 t0 (level - 1) sp ep = Ok (s1, b) ->
  exists sub' fr0, clean_post l' s0 t0 sub s1 sub' fr0 /\
    (b = true -> forall j, (j < 512)%nat -> child sub' j = Empty).

Lemma cu_loop_safe t ta rs re e : e < 512 -> forall n i s ch s',
  0 <= i -> rep (S l') s ch t -> tframe t -> sep s t ch ->
  cu_loop rec t level ta rs re e n i s = Ok s' ->
  exists ch' fr, clean_post (S l') s t ch s' ch' fr.
Proof.
  intros He. induction n as [|n IH]; intros i s ch s' Hi Hrep Ht Hsep H.
  - cbn [cu_loop] in H. inversion H; subst. exists ch, []. apply clean_post_refl. exact Hrep.
  - cbn [cu_loop] in H. fold (cu_loop rec t level ta rs re e) in H.
    destruct (e <? i) eqn:Hei.
    { inversion H; subst. exists ch, []. apply clean_post_refl. exact Hrep. }
    assert (Hi512 : 0 <= i < 512) by lia.
    pose proof (proj1 (rep_unfold _ _ _ _) Hrep i Hi512) as Hent.
    rewrite (next_table_rep l' s _ _ Hent Hl') in H.
    destruct (child ch (Z.to_nat i)) as [|w|f fl sub] eqn:Hc.
    + apply (IH (i + 1) s ch s' ltac:(lia) Hrep Ht Hsep H).
    + apply (IH (i + 1) s ch s' ltac:(lia) Hrep Ht Hsep H).
    + cbn [rep_entry] in Hent. destruct Hent as (Hew & Hf & Hfl & Hsub).
      (* the address arithmetic of the sub-range: whatever it yields *)
      destruct (mul64 true (entry_alignment level) i) as [m|]; [|discriminate]. cbn [bind] in H.
      destruct (forward_checked_u64 ta m) as [st0|]; [|discriminate]. cbn [bind] in H.
      destruct (unwrap st0) as [st|]; [|discriminate]. cbn [bind] in H.
      destruct (va_add st (entry_alignment level - 1)) as [en|]; [|discriminate]. cbn [bind] in H.
      destruct (page_containing S4K st) as [sp|]; [|discriminate]. cbn [bind] in H.
      destruct (page_containing S4K en) as [ep|]; [|discriminate]. cbn [bind] in H.
      destruct (rec s f (level - 1) (pmax sp rs) (pmin ep re)) as [[s1 empty]|] eqn:Hrec; [|discriminate].
      cbn [bind] in H.
      assert (Hsep1 : sep s f sub) by (apply (sep_sub s s t ch i f fl sub Hsep Hc eq_refl)).
      destruct (IHrec s f sub _ _ s1 empty Hsub Hf Hsep1 Hrec) as (sub' & fr0 & Hpost & Hempty).
      destruct Hpost as (R1 & L1 & (lost1 & P1) & F1 & A1 & N1 & Ro1 & O1).
      set (slot := t + 8 * i) in *.
      (* the slot itself and everything outside the subtree are untouched by the recursive call *)
      assert (Hnot : forall a, in_frame t a -> ~ in_frames (f :: frames_of sub) a).
      { intros a Hb (g & Hg & Hga).
        assert (Hgin : In g (frames_of ch)).
        { destruct (frames_of_child _ _ _ _ _ Hc) as [G1 G2]. destruct Hg as [<-|Hg]; [exact G1|apply G2; exact Hg]. }
        destruct Hsep as [Hn HF]. rewrite Forall_forall in HF.
        assert (t = g).
        { apply (frames_disjoint t g a); [exact Ht|apply HF; right; apply in_or_app; left; exact Hgin|exact Hb|exact Hga]. }
        subst g. inversion Hn as [|? ? Hnin _]; subst. apply Hnin. apply in_or_app. left. exact Hgin. }
      assert (Hslot1 : forall j, 0 <= j < 512 -> rd s1 (t + 8 * j) = rd s (t + 8 * j)).
      { intros j Hj. apply O1; [destruct Ht; lia|]. apply Hnot. unfold in_frame. destruct Ht. lia. }
      assert (Hsib1 : forall j a, 0 <= j < 512 -> j <> i -> 0 <= a ->
                 in_frames (node_frames (child ch (Z.to_nat j))) a -> rd s1 a = rd s a).
      { intros j a Hj Hji Ha Hin. apply O1; [exact Ha|].
        pose proof (sibling_disjoint s t ch i j a Hsep ltac:(lia) Hin) as Hd. rewrite Hc in Hd.
        cbn [node_frames] in Hd. fold (frames_of sub) in Hd.
        intros (g & Hg & Hga). apply Hd. exists g. split; [|exact Hga]. right. apply in_or_app. left. exact Hg. }
      destruct (frames_of_set_child ch (Z.to_nat i) (if empty then Empty else Tab f fl sub')) as (pre & post & E1 & E2).
      rewrite Hc in E1. cbn [node_frames] in E1. fold (frames_of sub) in E1.
      (* the state and tree after this slot *)
      set (s2 := if empty then deallocate (wr s1 slot 0) f else s1).
      set (ch1 := set_child ch (Z.to_nat i) (if empty then Empty else Tab f fl sub')).
      assert (Hstep : clean_post (S l') s t ch s2 ch1 (if empty then fr0 ++ [f] else fr0)).
      { unfold s2, ch1. destruct empty.
        - (* the child table became empty: unlink, then release *)
          split.
          { apply (rep_update l' s _ ch t i Empty Hi512 Hrep).
            - cbn [rep_entry]. rewrite rd_deallocate. apply rd_wr_same.
            - intros j Hj Hji. rewrite rd_deallocate. unfold slot. destruct Ht as [Ht1 Ht2].
              rewrite rd_wr_slot by lia. apply Hslot1. exact Hj.
            - intros j a Hj Hji Ha Hin. rewrite rd_deallocate.
              rewrite (rd_wr_outside s1 t); auto; [apply (Hsib1 j a Hj Hji Ha Hin)|unfold slot, in_frame; destruct Ht; lia|].
              intros Hb. apply (sibling_disjoint s t ch i j a Hsep ltac:(lia) Hin). exists t. split; [left; reflexivity|exact Hb]. }
          split.
          { intros path Hp. destruct path as [|j rest]; [reflexivity|].
            rewrite !lookup_cons, child_set_child.
            destruct (Nat.eqb_spec (Z.to_nat i) j) as [<-|Hne]; [|reflexivity].
            rewrite Hc. cbn [node_lookup]. inversion Hp; subst.
            rewrite <- (L1 rest) by assumption. symmetry.
            apply empty_slots_lookup; [apply Hempty; reflexivity|assumption]. }
          split.
          { exists (lost1 ++ frames_of sub'). rewrite E2, E1. cbn [node_frames app].
            apply Permutation_trans with (pre ++ (f :: lost1 ++ fr0 ++ frames_of sub') ++ post).
            - apply perm_unlink.
            - apply Permutation_app_head. cbn [app]. apply perm_skip. apply Permutation_app_tail. exact P1. }
          split; [cbn [deallocate freed wr with_mem]; rewrite F1, rev_app_distr; reflexivity|].
          split; [exact A1|]. split; [exact N1|]. split; [exact Ro1|].
          intros a Ha Hout. rewrite rd_deallocate.
          assert (Hnt : ~ in_frame t a) by (intros Hb; apply Hout; exists t; split; [left; reflexivity|exact Hb]).
          rewrite (rd_wr_outside s1 t); auto; [|unfold slot, in_frame; destruct Ht; lia].
          apply O1; [exact Ha|]. intros (g & Hg & Hga). apply Hout. exists g. split; [|exact Hga]. right.
          destruct (frames_of_child _ _ _ _ _ Hc) as [G1 G2]. destruct Hg as [<-|Hg]; [exact G1|apply G2; exact Hg].
        - (* the child table stays *)
          split.
          { apply (rep_update l' s _ ch t i (Tab f fl sub') Hi512 Hrep).
            - cbn [rep_entry]. rewrite (Hslot1 i Hi512). split; [exact Hew|]. split; [exact Hf|]. split; [exact Hfl|exact R1].
            - intros j Hj Hji. apply Hslot1. exact Hj.
            - exact Hsib1. }
          split.
          { intros path Hp. destruct path as [|j rest]; [reflexivity|].
            rewrite !lookup_cons, child_set_child.
            destruct (Nat.eqb_spec (Z.to_nat i) j) as [<-|Hne]; [|reflexivity].
            rewrite Hc. cbn [node_lookup]. inversion Hp; subst. apply L1. assumption. }
          split.
          { exists lost1. rewrite E2, E1. cbn [node_frames]. fold (frames_of sub').
            apply Permutation_trans with (pre ++ (f :: lost1 ++ fr0 ++ frames_of sub') ++ post).
            - apply perm_keep.
            - apply Permutation_app_head. cbn [app]. apply perm_skip. apply Permutation_app_tail. exact P1. }
          split; [exact F1|]. split; [exact A1|]. split; [exact N1|]. split; [exact Ro1|].
          intros a Ha Hout. apply O1; [exact Ha|]. intros (g & Hg & Hga). apply Hout. exists g. split; [|exact Hga]. right.
          destruct (frames_of_child _ _ _ _ _ Hc) as [G1 G2]. destruct Hg as [<-|Hg]; [exact G1|apply G2; exact Hg]. }
      (* continue with the next slot *)
      assert (Hcont : cu_loop rec t level ta rs re e n (i + 1) s2 = Ok s').
      { unfold s2. destruct empty.
        - unfold slot in H, Hew. rewrite (Hslot1 i Hi512) in H. rewrite Hew in H.
          destruct (tab_word f fl Hf Hfl) as (_ & _ & Hpr & Ha & _). rewrite Hpr, Ha in H. exact H.
        - exact H. }
      destruct Hstep as (R2 & Hrest).
      assert (Hsep2 : sep s2 t ch1).
      { destruct Hrest as (_ & (lost & P) & _ & A2 & _). apply (sep_shrink s s2 t ch ch1 _ lost Hsep P A2). }
      destruct (IH (i + 1) s2 ch1 s' ltac:(lia) R2 Ht Hsep2 Hcont) as (ch' & fr' & Hpost').
      exists ch', ((if empty then fr0 ++ [f] else fr0) ++ fr').
      apply (clean_post_trans (S l') s t ch s2 ch1 _ s' ch' fr' (conj R2 Hrest) Hpost').
Qed.
End Loop.

(* ---------- clean_up on a table of any level ---------- *)
Theorem clean_up_safe fuel : forall l s t ch rs re s' b,
  (1 <= l)%nat -> rep l s ch t -> tframe t -> sep s t ch ->
  clean_up fuel s t (Z.of_nat l) rs re = Ok (s', b) ->
  exists ch' fr, clean_post l s t ch s' ch' fr /\
    (b = true -> forall j, (j < 512)%nat -> child ch' j = Empty).
Proof.
  induction fuel as [|f IH]; intros l s t ch rs re s' b Hl Hrep Ht Hsep H; [discriminate|].
  rewrite clean_up_unfold in H.
  destruct (re <? rs).
  { inversion H; subst. exists ch, []. split; [apply clean_post_refl; exact Hrep|discriminate]. }
  destruct (va_align_down rs (table_alignment (Z.of_nat l))) as [ta|]; [|discriminate]. cbn [bind] in H.
  destruct l as [|l']; [lia|].
  assert (Hall : forall s2 ch2, rep (S l') s2 ch2 t -> table_all_unused s2 t = true ->
                 forall j, (j < 512)%nat -> child ch2 j = Empty).
  { intros s2 ch2 R2 Hu j Hj.
    pose proof (rep_zero_empty l' s2 ch2 t (Z.of_nat j) R2 ltac:(lia)
                  (table_all_unused_spec s2 t Hu (Z.of_nat j) ltac:(lia))) as E.
    rewrite Nat2Z.id in E. exact E. }
  destruct (Z.of_nat (S l') =? 1) eqn:E1.
  - cbn [bind] in H. inversion H; subst s' b. exists ch, [].
    split; [apply clean_post_refl; exact Hrep|]. intros Hu. apply (Hall s ch Hrep Hu).
  - destruct (cu_loop (clean_up f) t (Z.of_nat (S l')) ta rs re (page_table_index re (Z.of_nat (S l'))) 512
                (page_table_index rs (Z.of_nat (S l'))) s) as [s1|] eqn:Hloop; [|discriminate].
    cbn [bind] in H. inversion H; subst s' b. clear H.
    assert (Hl' : (1 <= l')%nat) by lia.
    destruct (index_ranges re) as (_ & _ & _ & _ & _ & Hre).
    destruct (index_ranges rs) as (_ & _ & _ & _ & _ & Hrs).
    destruct (cu_loop_safe (clean_up f) l' (Z.of_nat (S l')) Hl') with (t := t) (ta := ta) (rs := rs) (re := re)
      (e := page_table_index re (Z.of_nat (S l'))) (n := 512%nat) (i := page_table_index rs (Z.of_nat (S l')))
      (s := s) (ch := ch) (s' := s1) as (ch' & fr & Hpost).
    + intros s0 t0 sub sp ep s2 b0 R0 T0 S0 Hc.
      replace (Z.of_nat (S l') - 1) with (Z.of_nat l') in Hc by lia.
      apply (IH l' s0 t0 sub sp ep s2 b0 Hl' R0 T0 S0 Hc).
    + apply Hre.
    + apply Hrs.
    + exact Hrep.
    + exact Ht.
    + exact Hsep.
    + exact Hloop.
    + exists ch', fr. split; [exact Hpost|]. intros Hu. destruct Hpost as (R1 & _). apply (Hall s1 ch' R1 Hu).
Qed.

(* clean_up_addr_range / clean_up of a hierarchy: for EVERY range *)
Theorem clean_up_addr_range_safe s ch rs re s' :
  rep 4 s ch (root s) -> tframe (root s) -> sep s (root s) ch ->
  clean_up_addr_range s rs re = Ok s' ->
  exists ch' fr,
    rep 4 s' ch' (root s') /\ sep s' (root s') ch' /\
    (forall path, small path -> lookup ch' path = lookup ch path) /\
    (exists lost, Permutation (lost ++ fr ++ frames_of ch') (frames_of ch)) /\
    freed s' = rev fr ++ freed s /\ alloc s' = alloc s /\ nalloc s' = nalloc s /\
    (forall a, 0 <= a -> ~ in_frames (root s :: frames_of ch) a -> rd s' a = rd s a).
Proof.
  intros Hrep Ht Hsep H. unfold clean_up_addr_range in H.
  destruct (clean_up 5 s (root s) 4 rs re) as [[s1 b]|] eqn:Hc; [|discriminate].
  cbn [rmap fst] in H. inversion H; subst s1. clear H.
  destruct (clean_up_safe 5 4 s (root s) ch rs re s' b ltac:(lia) Hrep Ht Hsep Hc) as (ch' & fr & Hpost & _).
  destruct Hpost as (R1 & L1 & (lost & P1) & F1 & A1 & N1 & Ro1 & O1).
  exists ch', fr. rewrite Ro1.
  split; [exact R1|]. split; [apply (sep_shrink s s' (root s) ch ch' fr lost Hsep P1 A1)|].
  split; [exact L1|]. split; [exists lost; exact P1|]. split; [exact F1|]. split; [exact A1|]. split; [exact N1|exact O1].
Qed.
