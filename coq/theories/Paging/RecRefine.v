(* The RecursivePageTable memory model refines the tree model (mapper kind rec = true, recursive
   index r) on whole histories of map_to / unmap / update_flags / set_flags_p*_entry calls for
   pages outside the recursive slot: the recursive model's call equals the MappedPageTable
   model's call on memory (RecEquiv.v, RecMap.v), and that call refines the tree operation when
   the level-4 table is only partially represented (RecRefineTop.v: every slot but r).  So the
   independent hardware walk of the raw memory reads, for every address outside the recursive
   slot, exactly what the history dictates. *)
From Coq Require Import FMapPositive.
From X86 Require Import Base.Bits Addr.Canon Addr.Index Paging.EntryProofs Paging.Mapped Paging.MemProofs
  Paging.Tree Paging.TreeProofs Paging.Refine Paging.RefineOps Paging.RefineParent Paging.RefineWalk
  Paging.RefineHistory Paging.Recursive Paging.RecNew Paging.RecNewProofs Paging.RecResolve Paging.RecRead
  Paging.RecEquiv Paging.RecMap Paging.RecRefineTop Paging.Run.
Require Import Lia ZifyBool Permutation.
Open Scope Z_scope.

(* repx is: the recursive slot points to the level-4 table, the other slots are represented *)
Lemma repx_prep r s ch :
  repx r s ch <-> tab_entry (rd s (root s + 8 * r)) (root s) /\ prep r 3 s ch (root s).
Proof. reflexivity. Qed.

Definition rInv (r : Z) (s : pstate) (ch : list node) : Prop :=
  0 <= r < 512 /\ rec_index s = r /\ repx r s ch /\ tframe (root s) /\ sep s (root s) ch.
Definition mop_page (o : mop) : Z :=
  match o with MMap _ p _ _ _ => p | MUnmap _ p => p | MUpdate _ p _ => p | MSetParent _ _ p _ => p end.
Definition rmem_apply (s : pstate) (o : mop) : res (pstate * out) :=
  match o with
  | MMap k page frame flags pf => rmap_to s k page frame flags pf
  | MUnmap k page => runmap s k page
  | MUpdate k page flags => rupdate_flags s k page flags
  | MSetParent k level page flags => rset_flags_parent s k level page flags
  end.

(* the invariant survives an operation that keeps the recursive slot *)
Lemma rInv_kept r page s s' ch ch' :
  rInv r s ch -> p4_index page <> r -> kept page s s' ch ->
  prep r 3 s' ch' (root s') -> sep s' (root s') ch' -> rInv r s' ch'.
Proof.
  intros (Hr & Hri & (Hrec & _) & Ht & _) Hne (Hsa & _ & Hsl & Hrx) Hp Hs.
  destruct Hsa as (_ & _ & _ & Hroot).
  split; [exact Hr|]. split; [rewrite Hrx; exact Hri|].
  split; [|split; [rewrite Hroot; exact Ht|exact Hs]].
  apply repx_prep. split; [|exact Hp].
  rewrite Hroot. rewrite (Hsl r Hr ltac:(congruence)). exact Hrec.
Qed.

Theorem rstep_refines r s ch fr o : rInv r s ch -> mop_ok o -> p4_index (mop_page o) <> r ->
  exists s' out ch', rmem_apply s o = Ok (s', out) /\
    apply_op true r (tst ch s fr) (to_top o) = (tst ch' s' fr, out) /\ rInv r s' ch'.
Proof.
  intros Hinv Hok Hne. pose proof Hinv as (Hr & Hri & Hx & Ht & Hsep).
  pose proof (proj1 (repx_prep r s ch) Hx) as (Hrec & Hrep).
  assert (Hr' : 0 <= rec_index s < 512) by (rewrite Hri; exact Hr).
  assert (Hx' : repx (rec_index s) s ch) by (rewrite Hri; exact Hx).
  destruct o as [k page frame flags pf|k page|k page flags|k level page flags]; cbn [mop_ok mop_page] in Hok, Hne.
  - destruct Hok as (Hk & Hpf & Hw).
    pose proof (rmap_to_eq s ch k page frame flags pf Hk Hr' Hx' Ht Hsep Hpf ltac:(rewrite Hri; exact Hne)) as Heq.
    destruct (map_to_rc_refines_x r true s ch k page frame flags pf Hk Hne Hrep Ht Hsep Hpf Hw)
      as (s' & o & ch' & a' & res & Hm & Hmp & Ho & Haor & Hroot & _ & Hrep' & Hsep' & _ & Hsl).
    exists s', o, ch'. split; [cbn [rmem_apply]; rewrite Heq; exact Hm|]. split.
    + cbn [to_top apply_op tst t_root t_aor t_freed]. rewrite Hmp. unfold tst. rewrite Haor, Ho.
      destruct res; reflexivity.
    + split; [exact Hr|]. split; [rewrite (rec_index_map_to_rc _ _ _ _ _ _ _ _ _ Hm); exact Hri|].
      split; [|split; [rewrite Hroot; exact Ht|exact Hsep']].
      apply repx_prep. split; [|exact Hrep'].
      rewrite Hroot. rewrite (Hsl r Hr ltac:(congruence)). exact Hrec.
  - pose proof (runmap_eq s ch k page Hok Hr' Hx' ltac:(rewrite Hri; exact Hne)) as Heq.
    pose proof (unmap_refines_x r s ch k page Hok Hne Hrep Ht Hsep) as (Ho & Hrep' & Hsep' & Hkept).
    exists (fst (unmap s k page)), (snd (unmap s k page)), (fst (t_unmap ch (idx_list k page) k page)).
    split; [cbn [rmem_apply]; rewrite Heq; destruct (unmap s k page); reflexivity|]. split.
    + cbn [to_top apply_op tst t_root t_aor t_freed]. rewrite Ho.
      destruct (t_unmap ch (idx_list k page) k page) as [ch' o']. cbn [fst snd]. unfold tst.
      destruct Hkept as (Hsa & _). destruct (same_alloc_va _ _ Hsa) as [_ Haor]. rewrite Haor. reflexivity.
    + apply (rInv_kept r page s _ ch _ Hinv Hne Hkept Hrep' Hsep').
  - destruct Hok as (Hk & Hfl & Hfp).
    pose proof (rupdate_flags_eq s ch k page flags Hk Hr' Hx' ltac:(rewrite Hri; exact Hne)) as Heq.
    pose proof (update_flags_refines_x r s ch k page flags Hk Hne Hrep Ht Hsep Hfl Hfp) as (Ho & Hrep' & Hsep' & Hkept).
    exists (fst (update_flags s k page flags)), (snd (update_flags s k page flags)),
           (fst (t_update_flags ch (idx_list k page) k page flags)).
    split; [cbn [rmem_apply]; rewrite Heq; destruct (update_flags s k page flags); reflexivity|]. split.
    + cbn [to_top apply_op tst t_root t_aor t_freed]. rewrite Ho.
      destruct (t_update_flags ch (idx_list k page) k page flags) as [ch' o']. cbn [fst snd]. unfold tst.
      destruct Hkept as (Hsa & _). destruct (same_alloc_va _ _ Hsa) as [_ Haor]. rewrite Haor. reflexivity.
    + apply (rInv_kept r page s _ ch _ Hinv Hne Hkept Hrep' Hsep').
  - destruct Hok as (Hl & Hk & Hfl).
    pose proof (rset_flags_parent_eq s ch k level page flags Hl Hk Hr' Hx' ltac:(rewrite Hri; exact Hne)) as Heq.
    pose proof (set_flags_parent_refines_x r true s ch k level page flags fr r Hl Hk Hne Hrep Ht Hsep Hfl)
      as (Ho & Hao & Hfr & Hrep' & Hsep' & Hkept).
    exists (fst (set_flags_parent s k level page flags)), (snd (set_flags_parent s k level page flags)),
           (t_root (fst (apply_op true r (tst ch s fr) (OSetParent k level page flags)))).
    split; [cbn [rmem_apply]; rewrite Heq; destruct (set_flags_parent s k level page flags); reflexivity|]. split.
    + cbn [to_top]. unfold tst in *. rewrite Ho.
      destruct (apply_op true r {| t_root := ch; t_aor := aor_of s; t_freed := fr |} (OSetParent k level page flags)) as [ts o'].
      cbn [fst snd] in *. destruct ts as [tr ta tf]. cbn [t_root t_aor t_freed] in *. subst ta tf.
      destruct Hkept as (Hsa & _). destruct (same_alloc_va _ _ Hsa) as [_ Haor]. rewrite Haor. reflexivity.
    + apply (rInv_kept r page s _ ch _ Hinv Hne Hkept Hrep' Hsep').
Qed.

(* ---------- histories ---------- *)
Fixpoint rmem_run (s : pstate) (ops : list mop) : res (pstate * list out) :=
  match ops with
  | [] => Ok (s, [])
  | o :: rest =>
      do r <- rmem_apply s o;
      do r2 <- rmem_run (fst r) rest;
      Ok (fst r2, snd r :: snd r2)
  end.

Theorem rrun_refines r ops : forall s ch fr, rInv r s ch -> Forall mop_ok ops ->
  Forall (fun o => p4_index (mop_page o) <> r) ops ->
  exists s' outs ch', rmem_run s ops = Ok (s', outs) /\
    run_history true r (tst ch s fr) (map to_top ops) = (tst ch' s' fr, outs) /\ rInv r s' ch'.
Proof.
  induction ops as [|o rest IH]; intros s ch fr Hinv Hok Hpg.
  - exists s, [], ch. split; [reflexivity|]. split; [reflexivity|exact Hinv].
  - inversion Hok as [|? ? Ho Hrest]; subst. inversion Hpg as [|? ? Hp Hprest]; subst.
    destruct (rstep_refines r s ch fr o Hinv Ho Hp) as (s1 & o1 & ch1 & Hm & Ha & Hinv1).
    destruct (IH s1 ch1 fr Hinv1 Hrest Hprest) as (s2 & os & ch2 & Hm2 & Hr2 & Hinv2).
    exists s2, (o1 :: os), ch2. split.
    + cbn [rmem_run]. rewrite Hm. cbn [bind fst snd]. rewrite Hm2. reflexivity.
    + split; [|exact Hinv2]. cbn [map run_history]. rewrite Ha, Hr2. reflexivity.
Qed.

(* ---------- the initial recursive hierarchy ---------- *)
(* an empty level-4 table whose slot r points to the table itself: PRESENT | WRITABLE *)
Definition rinit (rootf : Z) (allocs : list Z) (r : Z) : pstate :=
  wr (init_pstate rootf allocs r) (rootf + 8 * r) (Z.lor rootf 3).

Lemma rec_index_init rootf allocs r : rec_index (init_pstate rootf allocs r) = r.
Proof. unfold init_pstate, zero_table. rewrite rec_index_zero_from. reflexivity. Qed.

Lemma pflags_ok_3 : pflags_ok 3.
Proof. unfold pflags_ok, W64. split; [lia|]. split; [reflexivity|]. split; reflexivity. Qed.

Lemma rInv_init rootf allocs r :
  0 <= r < 512 -> tframe rootf -> sep (init_pstate rootf allocs r) rootf empty_children ->
  rInv r (rinit rootf allocs r) empty_children.
Proof.
  intros Hr Hroot Hsep. unfold rInv, rinit.
  assert (Hrt : root (wr (init_pstate rootf allocs r) (rootf + 8 * r) (Z.lor rootf 3)) = rootf).
  { cbn [wr with_mem root]. apply root_init. }
  rewrite Hrt.
  split; [exact Hr|]. split; [cbn [wr with_mem rec_index]; apply rec_index_init|].
  split; [|split; [exact Hroot|]].
  - apply repx_prep. rewrite Hrt. split.
    + rewrite rd_wr_same. apply tab_entry_lor; [exact Hroot|exact pflags_ok_3].
    + intros j Hj Hjr. rewrite child_empty_children. cbn [rep_entry].
      destruct Hroot as [[Hr0 Hr1] Hra].
      rewrite rd_wr_slot by lia.
      unfold init_pstate. apply zero_table_zeroed; assumption.
  - destruct (same_alloc_va _ _ (same_alloc_wr (init_pstate rootf allocs r) (rootf + 8 * r) (Z.lor rootf 3))) as [Hva _].
    unfold sep in *. rewrite Hva. exact Hsep.
Qed.

(* the main statement at the level of raw table memory, for the recursive mapper: after any
   history of calls for pages outside the recursive slot, from an empty level-4 table with the
   recursive entry in slot r, the independent hardware walk of the memory returns, for every
   virtual address outside the recursive slot, the leaf word, page size and physical address
   that the history of successful calls dictates, and nothing where it dictates nothing *)
Theorem recursive_memory_walk_is_history_dictated rootf allocs r ops s' outs :
  0 <= r < 512 -> tframe rootf -> sep (init_pstate rootf allocs r) rootf empty_children ->
  Forall mop_ok ops -> Forall (fun o => p4_index (mop_page o) <> r) ops ->
  rmem_run (rinit rootf allocs r) ops = Ok (s', outs) ->
  forall va, p4_index va <> r ->
    match dictated (fun _ => None) (map to_top ops) outs (idx_list 0 va) with
    | None => hw_walk s' va = None
    | Some (w, n) =>
        exists wr us,
          enc_walk (hw_walk s' va) =
            [leaf_addr w - leaf_addr w mod size_of_rem n + Z.land va (size_of_rem n - 1);
             size_of_rem n; w; b2z wr; b2z us]
    end.
Proof.
  intros Hr Hroot Hsep Hok Hpg Hrun va Hva.
  pose proof (rInv_init rootf allocs r Hr Hroot Hsep) as Hinv.
  destruct (rrun_refines r ops _ _ [] Hinv Hok Hpg) as (s2 & outs2 & ch' & Hm & Hrh & (_ & _ & Hx & _ & _)).
  rewrite Hrun in Hm. inversion Hm; subst s2 outs2. clear Hm.
  pose proof (proj1 (repx_prep r s' ch') Hx) as (_ & Hrep).
  assert (Hlook : forall path, lookup ch' path = dictated (fun _ => None) (map to_top ops) outs path).
  { intros path.
    apply (history_dictates true r (map to_top ops) (tst empty_children (rinit rootf allocs r) []) (fun _ => None)
             (tst ch' s' []) outs Hrh).
    intros p. apply lookup_empty. }
  pose proof (hw_walk_repx r s' ch' va Hva Hrep) as Hw.
  pose proof (translate_hw_agree ch' va) as Hag. rewrite Hlook in Hag.
  destruct (dictated (fun _ => None) (map to_top ops) outs (idx_list 0 va)) as [[w n]|].
  - destruct Hag as [_ (wr & us & Hh)]. exists wr, us. rewrite Hw. exact Hh.
  - destruct Hag as [_ Hh]. rewrite Hh in Hw. destruct (hw_walk s' va); [discriminate|reflexivity].
Qed.

(* non-vacuity: a concrete initial state and history satisfy every hypothesis, and the recursive
   model (every lower table reached through a recursive address) runs it without fault *)
Example rec_hypotheses_satisfiable :
  let allocs := [2097152; 3145728; 5242880; -1] in
  let ops := [MMap 0 4096 8192 3 7; MMap 1 2097152 4194304 1 1; MSetParent 0 4 4096 3; MUnmap 0 4096; MUpdate 1 2097152 3] in
  0 <= 511 < 512 /\ tframe 1048576 /\ sep (init_pstate 1048576 allocs 511) 1048576 empty_children /\
  Forall mop_ok ops /\ Forall (fun o => p4_index (mop_page o) <> 511) ops /\
  exists s' outs, rmem_run (rinit 1048576 allocs 511) ops = Ok (s', outs) /\ faulted s' = false /\
    outs = [[0; 4096]; [0; 2097152]; [0]; [0; 8192; 4096]; [0; 2097152]].
Proof.
  cbv zeta. split; [lia|]. split; [unfold tframe, P52; split; [lia|reflexivity]|]. split.
  - unfold sep. rewrite va_init, frames_of_empty_children. cbn [app filter valid_alloc].
    vm_compute filter. split.
    + repeat constructor; cbn; intuition lia.
    + repeat constructor; unfold P52; cbn; lia.
  - split.
    + repeat constructor; cbn; try lia; unfold P52, W64; try lia; try reflexivity.
    + split; [repeat constructor; vm_compute; discriminate|].
      eexists _, _. split; [vm_compute; reflexivity|]. split; reflexivity.
Qed.

Print Assumptions rstep_refines.
Print Assumptions recursive_memory_walk_is_history_dictated.
