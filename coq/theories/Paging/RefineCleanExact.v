(* The memory model's clean_up / clean_up_addr_range (Paging/Mapped.v) computes, on table
   memory, exactly what t_clean / t_clean_range (Paging/TreeClean.v) computes on the tree: the
   same tree afterwards, the same released frames in the same order, the same "table is empty"
   flag, and it panics exactly when t_clean does. *)
From Coq Require Import FMapPositive.
From X86 Require Import Base.Bits Addr.Index Paging.EntryProofs Paging.Mapped Paging.MemProofs
  Paging.Tree Paging.TreeProofs Paging.Refine Paging.RefineOps Paging.RefineClean Paging.TreeClean.
Require Import Lia ZifyBool Permutation.
Open Scope Z_scope.

(* ---------- the "table is empty" flag ---------- *)
Lemma all_unused_from_true s n : forall a,
  (forall j, (j < n)%nat -> rd s (a + 8 * Z.of_nat j) = 0) -> all_unused_from s a n = true.
Proof.
  induction n as [|n IH]; intros a H; [reflexivity|].
  cbn [all_unused_from]. apply Bool.andb_true_iff. split.
  - apply Z.eqb_eq. rewrite <- (H 0%nat) by lia. f_equal. lia.
  - apply IH. intros j Hj. rewrite <- (H (S j)) by lia. f_equal. lia.
Qed.

Lemma slots_empty_spec ch :
  slots_empty ch = true <-> forall j, (j < 512)%nat -> child ch j = Empty.
Proof.
  unfold slots_empty. rewrite forallb_forall. split.
  - intros H j Hj. specialize (H j). rewrite in_seq in H. specialize (H ltac:(lia)).
    destruct (child ch j); [reflexivity|discriminate|discriminate].
  - intros H j Hj. apply in_seq in Hj. rewrite H by lia. reflexivity.
Qed.

Lemma unused_slots_empty l s ch t : rep (S l) s ch t -> table_all_unused s t = slots_empty ch.
Proof.
  intros R. apply Bool.eq_true_iff_eq. rewrite slots_empty_spec. split.
  - intros Hu j Hj.
    pose proof (rep_zero_empty l s ch t (Z.of_nat j) R ltac:(lia)
                  (table_all_unused_spec s t Hu (Z.of_nat j) ltac:(lia))) as E.
    rewrite Nat2Z.id in E. exact E.
  - intros H. unfold table_all_unused. apply all_unused_from_true. intros j Hj.
    pose proof (proj1 (rep_unfold _ _ _ _) R (Z.of_nat j) ltac:(lia)) as He.
    rewrite Nat2Z.id, (H j Hj) in He. exact He.
Qed.

Lemma t_clean_empty fuel ch lv rs re ch' fr :
  t_clean fuel ch lv rs re = Ok (ch', fr, true) ->
  forall j, (j < 512)%nat -> child ch' j = Empty.
Proof.
  intros H. destruct fuel as [|fuel]; [discriminate|]. cbn [t_clean] in H.
  destruct (re <? rs); [discriminate|].
  destruct (va_align_down rs (table_alignment lv)) as [ta|]; [|discriminate]. cbn [bind] in H.
  destruct (if lv =? 1 then Ok (ch, [])
            else t_cu_loop (t_clean fuel) lv ta rs re (page_table_index re lv) 512
                   (page_table_index rs lv) ch) as [x|]; [|discriminate].
  cbn [bind] in H. inversion H; subst. apply slots_empty_spec. assumption.
Qed.

(* ---------- one slot whose child table was cleaned ---------- *)
Lemma clean_step l' s t ch i f fl sub s1 sub' fr0 (empty : bool) :
  0 <= i < 512 -> rep (S l') s ch t -> tframe t -> sep s t ch ->
  child ch (Z.to_nat i) = Tab f fl sub ->
  clean_post l' s f sub s1 sub' fr0 ->
  (empty = true -> forall j, (j < 512)%nat -> child sub' j = Empty) ->
  rd s1 (t + 8 * i) = rd s (t + 8 * i) /\
  clean_post (S l') s t ch
    (if empty then deallocate (wr s1 (t + 8 * i) 0) f else s1)
    (set_child ch (Z.to_nat i) (if empty then Empty else Tab f fl sub'))
    (if empty then fr0 ++ [f] else fr0).
Proof.
  intros Hi512 Hrep Ht Hsep Hc Hpost Hempty.
  pose proof (proj1 (rep_unfold _ _ _ _) Hrep i Hi512) as Hent.
  rewrite Hc in Hent. cbn [rep_entry] in Hent. destruct Hent as (Hew & Hf & Hfl & Hsub).
  destruct Hpost as (R1 & L1 & (lost1 & P1) & F1 & A1 & N1 & Ro1 & O1).
  set (slot := t + 8 * i) in *.
  assert (Hnot : forall a, in_frame t a -> ~ in_frames (f :: frames_of sub) a).
  { intros a Hb (g & Hg & Hga).
    assert (Hgin : In g (frames_of ch)).
    { destruct (frames_of_child _ _ _ _ _ Hc) as [G1 G2]. destruct Hg as [<-|Hg]; [exact G1|apply G2; exact Hg]. }
    destruct Hsep as [Hn HF]. rewrite Forall_forall in HF.
    assert (t = g).
    { apply (frames_disjoint t g a); [exact Ht|apply HF; right; apply in_or_app; left; exact Hgin|exact Hb|exact Hga]. }
    subst g. inversion Hn as [|? ? Hnin _]; subst. apply Hnin. apply in_or_app. left. exact Hgin. }
  assert (Hslot1 : forall j, 0 <= j < 512 -> rd s1 (t + 8 * j) = rd s (t + 8 * j)).
  { intros j Hj. apply O1; [destruct Ht; lia|]. apply Hnot. unfold in_frame. destruct Ht. lia. }
  assert (Hsib1 : forall j a, 0 <= j < 512 -> j <> i -> 0 <= a ->
             in_frames (node_frames (child ch (Z.to_nat j))) a -> rd s1 a = rd s a).
  { intros j a Hj Hji Ha Hin. apply O1; [exact Ha|].
    pose proof (sibling_disjoint s t ch i j a Hsep ltac:(lia) Hin) as Hd. rewrite Hc in Hd.
    cbn [node_frames] in Hd. fold (frames_of sub) in Hd.
    intros (g & Hg & Hga). apply Hd. exists g. split; [|exact Hga]. right. apply in_or_app. left. exact Hg. }
  split; [apply (Hslot1 i Hi512)|].
  destruct (frames_of_set_child ch (Z.to_nat i) (if empty then Empty else Tab f fl sub')) as (pre & post & E1 & E2).
  rewrite Hc in E1. cbn [node_frames] in E1. fold (frames_of sub) in E1.
  destruct empty.
  - (* the child table became empty: unlink, then release *)
    split.
    { apply (rep_update l' s _ ch t i Empty Hi512 Hrep).
      - cbn [rep_entry]. rewrite rd_deallocate. apply rd_wr_same.
      - intros j Hj Hji. rewrite rd_deallocate. unfold slot. destruct Ht as [Ht1 Ht2].
        rewrite rd_wr_slot by lia. apply Hslot1. exact Hj.
      - intros j a Hj Hji Ha Hin. rewrite rd_deallocate.
        rewrite (rd_wr_outside s1 t); auto; [apply (Hsib1 j a Hj Hji Ha Hin)|unfold slot, in_frame; destruct Ht; lia|].
        intros Hb. apply (sibling_disjoint s t ch i j a Hsep ltac:(lia) Hin). exists t. split; [left; reflexivity|exact Hb]. }
    split.
    { intros path Hp. destruct path as [|j rest]; [reflexivity|].
      rewrite !lookup_cons, child_set_child.
      destruct (Nat.eqb_spec (Z.to_nat i) j) as [<-|Hne]; [|reflexivity].
      rewrite Hc. cbn [node_lookup]. inversion Hp; subst.
      rewrite <- (L1 rest) by assumption. symmetry.
      apply empty_slots_lookup; [apply Hempty; reflexivity|assumption]. }
    split.
    { exists (lost1 ++ frames_of sub'). rewrite E2, E1. cbn [node_frames app].
      apply Permutation_trans with (pre ++ (f :: lost1 ++ fr0 ++ frames_of sub') ++ post).
      - apply perm_unlink.
      - apply Permutation_app_head. cbn [app]. apply perm_skip. apply Permutation_app_tail. exact P1. }
    split; [cbn [deallocate freed wr with_mem]; rewrite F1, rev_app_distr; reflexivity|].
    split; [exact A1|]. split; [exact N1|]. split; [exact Ro1|].
    intros a Ha Hout. rewrite rd_deallocate.
    assert (Hnt : ~ in_frame t a) by (intros Hb; apply Hout; exists t; split; [left; reflexivity|exact Hb]).
    rewrite (rd_wr_outside s1 t); auto; [|unfold slot, in_frame; destruct Ht; lia].
    apply O1; [exact Ha|]. intros (g & Hg & Hga). apply Hout. exists g. split; [|exact Hga]. right.
    destruct (frames_of_child _ _ _ _ _ Hc) as [G1 G2]. destruct Hg as [<-|Hg]; [exact G1|apply G2; exact Hg].
  - (* the child table stays *)
    split.
    { apply (rep_update l' s _ ch t i (Tab f fl sub') Hi512 Hrep).
      - cbn [rep_entry]. rewrite (Hslot1 i Hi512). split; [exact Hew|]. split; [exact Hf|]. split; [exact Hfl|exact R1].
      - intros j Hj Hji. apply Hslot1. exact Hj.
      - exact Hsib1. }
    split.
    { intros path Hp. destruct path as [|j rest]; [reflexivity|].
      rewrite !lookup_cons, child_set_child.
      destruct (Nat.eqb_spec (Z.to_nat i) j) as [<-|Hne]; [|reflexivity].
      rewrite Hc. cbn [node_lookup]. inversion Hp; subst. apply L1. assumption. }
    split.
    { exists lost1. rewrite E2, E1. cbn [node_frames]. fold (frames_of sub').
      apply Permutation_trans with (pre ++ (f :: lost1 ++ fr0 ++ frames_of sub') ++ post).
      - apply perm_keep.
      - apply Permutation_app_head. cbn [app]. apply perm_skip. apply Permutation_app_tail. exact P1. }
    split; [exact F1|]. split; [exact A1|]. split; [exact N1|]. split; [exact Ro1|].
    intros a Ha Hout. apply O1; [exact Ha|]. intros (g & Hg & Hga). apply Hout. exists g. split; [|exact Hga]. right.
    destruct (frames_of_child _ _ _ _ _ Hc) as [G1 G2]. destruct Hg as [<-|Hg]; [exact G1|apply G2; exact Hg].
Qed.

(* ---------- the loop over the slots ---------- *)
Section Loop.
Variable rec : pstate -> Z -> Z -> Z -> Z -> res (pstate * bool).
Variable trec : list node -> Z -> Z -> Z -> res (list node * list Z * bool).
Variable l' : nat.                      (* the level of the child tables *)
Variable level : Z.
Hypothesis Hl' : (1 <= l')%nat.
(* the recursive calls (made with level - 1) agree *)
Hypothesis IHrec : forall s0 t0 sub sp ep,
  rep l' s0 sub t0 -> tframe t0 -> sep s0 t0 sub ->
  match trec sub (level - 1) sp ep with
  | Ok (sub', fr, b) =>
      exists s1, rec s0 t0 (level - 1) sp ep = Ok (s1, b) /\ clean_post l' s0 t0 sub s1 sub' fr
  | Panic => rec s0 t0 (level - 1) sp ep = Panic
  end.
Hypothesis Htrec : forall sub lv sp ep sub' fr,
  trec sub lv sp ep = Ok (sub', fr, true) -> forall j, (j < 512)%nat -> child sub' j = Empty.

Lemma cu_loop_exact t ta rs re e : e < 512 -> forall n i s ch,
  0 <= i -> rep (S l') s ch t -> tframe t -> sep s t ch ->
  match t_cu_loop trec level ta rs re e n i ch with
  | Ok (ch', fr) =>
      exists s', cu_loop rec t level ta rs re e n i s = Ok s' /\ clean_post (S l') s t ch s' ch' fr
  | Panic => cu_loop rec t level ta rs re e n i s = Panic
  end.
Proof.
  intros He. induction n as [|n IH]; intros i s ch Hi Hrep Ht Hsep.
  - cbn [cu_loop t_cu_loop]. exists s. split; [reflexivity|apply clean_post_refl; exact Hrep].
  - cbn [cu_loop t_cu_loop].
    fold (cu_loop rec t level ta rs re e). fold (t_cu_loop trec level ta rs re e).
    destruct (e <? i) eqn:Hei.
    { exists s. split; [reflexivity|apply clean_post_refl; exact Hrep]. }
    assert (Hi512 : 0 <= i < 512) by lia.
    pose proof (proj1 (rep_unfold _ _ _ _) Hrep i Hi512) as Hent.
    rewrite (next_table_rep l' s _ _ Hent Hl').
    destruct (child ch (Z.to_nat i)) as [|w|f fl sub] eqn:Hc.
    + apply (IH (i + 1) s ch ltac:(lia) Hrep Ht Hsep).
    + apply (IH (i + 1) s ch ltac:(lia) Hrep Ht Hsep).
    + cbn [rep_entry] in Hent. destruct Hent as (Hew & Hf & Hfl & Hsub).
      destruct (mul64 true (entry_alignment level) i) as [m|]; cbn [bind]; [|reflexivity].
      destruct (forward_checked_u64 ta m) as [st0|]; cbn [bind]; [|reflexivity].
      destruct (unwrap st0) as [st|]; cbn [bind]; [|reflexivity].
      destruct (va_add st (entry_alignment level - 1)) as [en|]; cbn [bind]; [|reflexivity].
      destruct (page_containing S4K st) as [sp|]; cbn [bind]; [|reflexivity].
      destruct (page_containing S4K en) as [ep|]; cbn [bind]; [|reflexivity].
      assert (Hsep1 : sep s f sub) by (apply (sep_sub s s t ch i f fl sub Hsep Hc eq_refl)).
      pose proof (IHrec s f sub (pmax sp rs) (pmin ep re) Hsub Hf Hsep1) as Hr.
      destruct (trec sub (level - 1) (pmax sp rs) (pmin ep re)) as [[[sub' fr0] empty]|] eqn:Htr;
        cbn [bind]; [|rewrite Hr; reflexivity].
      destruct Hr as (s1 & Hrec & Hpost). rewrite Hrec. cbn [bind].
      assert (Hempty : empty = true -> forall j, (j < 512)%nat -> child sub' j = Empty).
      { intros ->. apply (Htrec _ _ _ _ _ _ Htr). }
      destruct (clean_step l' s t ch i f fl sub s1 sub' fr0 empty Hi512 Hrep Ht Hsep Hc Hpost Hempty)
        as (Hslot & Hstep).
      assert (Hsep2 : sep (if empty then deallocate (wr s1 (t + 8 * i) 0) f else s1) t
                        (set_child ch (Z.to_nat i) (if empty then Empty else Tab f fl sub'))).
      { destruct Hstep as (_ & _ & (lost & P) & _ & A2 & _). apply (sep_shrink s _ t ch _ _ lost Hsep P A2). }
      destruct empty.
      * rewrite Hslot, Hew.
        destruct (tab_word f fl Hf Hfl) as (_ & _ & Hpr & Ha & _). rewrite Hpr, Ha.
        pose proof (IH (i + 1) _ _ ltac:(lia) (proj1 Hstep) Ht Hsep2) as Hn.
        destruct (t_cu_loop trec level ta rs re e n (i + 1) (set_child ch (Z.to_nat i) Empty))
          as [[ch' fr']|]; cbn [bind fst snd]; [|exact Hn].
        destruct Hn as (s' & Hl & Hp). exists s'. split; [exact Hl|].
        apply (clean_post_trans (S l') s t ch _ _ _ s' ch' fr' Hstep Hp).
      * pose proof (IH (i + 1) _ _ ltac:(lia) (proj1 Hstep) Ht Hsep2) as Hn.
        destruct (t_cu_loop trec level ta rs re e n (i + 1) (set_child ch (Z.to_nat i) (Tab f fl sub')))
          as [[ch' fr']|]; cbn [bind fst snd]; [|exact Hn].
        destruct Hn as (s' & Hl & Hp). exists s'. split; [exact Hl|].
        apply (clean_post_trans (S l') s t ch _ _ _ s' ch' fr' Hstep Hp).
Qed.
End Loop.

(* ---------- clean_up on a table of any level ---------- *)
Theorem clean_up_exact fuel : forall l s t ch rs re,
  (1 <= l)%nat -> rep l s ch t -> tframe t -> sep s t ch ->
  match t_clean fuel ch (Z.of_nat l) rs re with
  | Ok (ch', fr, b) =>
      exists s', clean_up fuel s t (Z.of_nat l) rs re = Ok (s', b) /\ clean_post l s t ch s' ch' fr
  | Panic => clean_up fuel s t (Z.of_nat l) rs re = Panic
  end.
Proof.
  induction fuel as [|f IH]; intros l s t ch rs re Hl Hrep Ht Hsep; [reflexivity|].
  rewrite clean_up_unfold. cbn [t_clean].
  destruct (re <? rs).
  { exists s. split; [reflexivity|apply clean_post_refl; exact Hrep]. }
  destruct (va_align_down rs (table_alignment (Z.of_nat l))) as [ta|]; cbn [bind]; [|reflexivity].
  destruct l as [|l']; [lia|].
  destruct (Z.of_nat (S l') =? 1) eqn:E1.
  - cbn [bind fst snd]. exists s. split.
    + rewrite (unused_slots_empty l' s ch t Hrep). reflexivity.
    + apply clean_post_refl. exact Hrep.
  - assert (Hl' : (1 <= l')%nat) by lia.
    destruct (index_ranges re) as (_ & _ & _ & _ & _ & Hre).
    destruct (index_ranges rs) as (_ & _ & _ & _ & _ & Hrs).
    pose proof (cu_loop_exact (clean_up f) (t_clean f) l' (Z.of_nat (S l')) Hl') as HL.
    specialize (HL ltac:(
      intros s0 t0 sub sp ep R0 T0 S0;
      replace (Z.of_nat (S l') - 1) with (Z.of_nat l') by lia;
      apply (IH l' s0 t0 sub sp ep Hl' R0 T0 S0))).
    specialize (HL (t_clean_empty f)).
    specialize (HL t ta rs re (page_table_index re (Z.of_nat (S l'))) (proj2 (Hre _)) 512%nat
                  (page_table_index rs (Z.of_nat (S l'))) s ch (proj1 (Hrs _)) Hrep Ht Hsep).
    destruct (t_cu_loop (t_clean f) (Z.of_nat (S l')) ta rs re (page_table_index re (Z.of_nat (S l'))) 512
                (page_table_index rs (Z.of_nat (S l'))) ch) as [[ch' fr]|]; cbn [bind fst snd].
    + destruct HL as (s1 & Hloop & Hpost). rewrite Hloop. cbn [bind]. exists s1. split; [|exact Hpost].
      rewrite (unused_slots_empty l' s1 ch' t (proj1 Hpost)). reflexivity.
    + rewrite HL. reflexivity.
Qed.

(* clean_up_addr_range / clean_up of a hierarchy *)
Theorem clean_up_addr_range_exact s ch rs re :
  rep 4 s ch (root s) -> tframe (root s) -> sep s (root s) ch ->
  match t_clean_range ch rs re with
  | Ok (ch', fr) =>
      exists s', clean_up_addr_range s rs re = Ok s' /\
        rep 4 s' ch' (root s') /\ sep s' (root s') ch' /\
        freed s' = rev fr ++ freed s /\ alloc s' = alloc s /\ nalloc s' = nalloc s /\ root s' = root s /\
        (forall a, 0 <= a -> ~ in_frames (root s :: frames_of ch) a -> rd s' a = rd s a)
  | Panic => clean_up_addr_range s rs re = Panic
  end.
Proof.
  intros Hrep Ht Hsep. unfold t_clean_range, clean_up_addr_range.
  pose proof (clean_up_exact 5 4 s (root s) ch rs re ltac:(lia) Hrep Ht Hsep) as H.
  change (Z.of_nat 4) with 4 in H.
  destruct (t_clean 5 ch 4 rs re) as [[[ch' fr] b]|]; cbn [rmap fst].
  - destruct H as (s' & Hc & Hpost). exists s'. rewrite Hc. cbn [rmap fst]. split; [reflexivity|].
    destruct Hpost as (R1 & L1 & (lost & P1) & F1 & A1 & N1 & Ro1 & O1).
    rewrite Ro1.
    split; [exact R1|]. split; [apply (sep_shrink s s' (root s) ch ch' fr lost Hsep P1 A1)|].
    split; [exact F1|]. split; [exact A1|]. split; [exact N1|]. split; [reflexivity|exact O1].
  - rewrite H. reflexivity.
Qed.

Print Assumptions clean_up_exact.
Print Assumptions clean_up_addr_range_exact.
