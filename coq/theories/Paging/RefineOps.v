(* Refinement of the walking operations of the MappedPageTable memory model (unmap,
   update_flags, set_flags_p*_entry, translate_page) to the tree operations. *)
From X86 Require Import Base.Bits Addr.Index Paging.EntryProofs Paging.Mapped Paging.MemProofs
  Paging.Tree Paging.TreeProofs Paging.Refine.
Require Import Lia ZifyBool Permutation.
Open Scope Z_scope.
Local Ltac Zify.zify_post_hook ::= Z.div_mod_to_equations.

(* the walk down to the slot of the last index *)
Fixpoint mslot (s : pstate) (t : Z) (idxs : list Z) : Z + out :=
  match idxs with
  | [] => inr [-99]
  | [i] => inl (t + 8 * i)
  | i :: rest =>
      match next_table (rd s (t + 8 * i)) with
      | WTable t' => mslot s t' rest
      | w => inr (werr w)
      end
  end.
Lemma descend_mslot s k page : 0 <= k <= 2 -> descend s k page = mslot s (root s) (zidx_list k page).
Proof.
  intros Hk. unfold descend, zidx_list, slot4, slot3, slot2, slot1.
  destruct (k =? 2) eqn:E2; [reflexivity|]. destruct (k =? 1) eqn:E1; reflexivity.
Qed.

Lemma next_table_rep l s n e : rep_entry l s n e -> (1 <= l)%nat ->
  next_table e = match n with Empty => WNotMapped | Leaf _ => WHuge | Tab f _ _ => WTable f end.
Proof.
  intros H Hl. destruct n as [|w|f fl sub]; cbn [rep_entry] in H.
  - subst e. reflexivity.
  - destruct H as [-> (_ & _ & Hh & _)]. unfold next_table. rewrite e_huge_bit, (Hh ltac:(lia)). reflexivity.
  - destruct H as (-> & Hf & Hfl & _). apply (tab_word f fl Hf Hfl).
Qed.

(* the slot the walk reaches represents the node slot_at reaches; it lies in a table frame of
   the hierarchy *)
Lemma mslot_rep idxs : forall l s t ch,
  rep (S l) s ch t -> tframe t -> idxs <> [] -> (length idxs <= S l)%nat ->
  Forall (fun i => 0 <= i < 512) idxs ->
  match slot_at ch (map Z.to_nat idxs) with
  | inr e => mslot s t idxs = inr e
  | inl n => exists sl, mslot s t idxs = inl sl /\ 0 <= sl /\
             rep_entry (S l - length idxs) s n (rd s sl) /\
             in_frames (t :: frames_of ch) sl
  end.
Proof.
  induction idxs as [|i rest IH]; intros l s t ch Hrep Ht Hne Hlen Hidx; [contradiction|].
  inversion Hidx as [|? ? Hi Hrest]; subst.
  pose proof (proj1 (rep_unfold _ _ _ _) Hrep i Hi) as He.
  destruct rest as [|i2 rest].
  - cbn [map slot_at mslot length]. exists (t + 8 * i). split; [reflexivity|].
    split; [destruct Ht; lia|]. split; [replace (S l - 1)%nat with l by lia; exact He|].
    exists t. split; [left; reflexivity|]. unfold in_frame. lia.
  - destruct l as [|l']; [cbn [length] in Hlen; lia|].
    change (map Z.to_nat (i :: i2 :: rest)) with (Z.to_nat i :: map Z.to_nat (i2 :: rest)).
    cbn [map]. rewrite slot_at_step.
    change (mslot s t (i :: i2 :: rest)) with
      (match next_table (rd s (t + 8 * i)) with WTable t' => mslot s t' (i2 :: rest) | w => inr (werr w) end).
    rewrite (next_table_rep (S l') s _ _ He ltac:(lia)).
    destruct (child ch (Z.to_nat i)) as [|w|f fl sub] eqn:Hc; [reflexivity|reflexivity|].
    cbn [rep_entry] in He. destruct He as (_ & Hf & _ & Hsub).
    specialize (IH l' s f sub Hsub Hf ltac:(discriminate) ltac:(cbn [length] in *; lia) Hrest).
    change (Z.to_nat i2 :: map Z.to_nat rest) with (map Z.to_nat (i2 :: rest)).
    destruct (slot_at sub (map Z.to_nat (i2 :: rest))) as [n|e]; [|exact IH].
    destruct IH as (sl & Hm & Hsl & Hre & Hin). exists sl. split; [exact Hm|]. split; [exact Hsl|].
    split; [replace (S (S l') - length (i :: i2 :: rest))%nat with (S l' - length (i2 :: rest))%nat by (cbn [length]; lia); exact Hre|].
    destruct Hin as (g & Hg & Hga). exists g. split; [|exact Hga]. right.
    destruct (frames_of_child _ _ _ _ _ Hc) as [G1 G2]. destruct Hg as [<-|Hg]; [exact G1|apply G2; exact Hg].
Qed.

Lemma set_slot_step ch i i2 rest n :
  set_slot ch (i :: i2 :: rest) n =
    match child ch i with
    | Tab f fl sub => set_child ch i (Tab f fl (set_slot sub (i2 :: rest) n))
    | _ => ch
    end.
Proof. reflexivity. Qed.

(* writing the slot the walk reached: the state represents the tree with that slot replaced *)
Lemma set_slot_sim idxs : forall l s t ch n n' sl v,
  rep (S l) s ch t -> tframe t -> sep s t ch -> idxs <> [] -> (length idxs <= S l)%nat ->
  Forall (fun i => 0 <= i < 512) idxs ->
  slot_at ch (map Z.to_nat idxs) = inl n -> mslot s t idxs = inl sl ->
  node_frames n' = node_frames n ->
  (forall s', (forall a, 0 <= a -> in_frames (node_frames n) a -> rd s' a = rd s a) ->
              rep_entry (S l - length idxs) s' n' v) ->
  rep (S l) (wr s sl v) (set_slot ch (map Z.to_nat idxs) n') t /\
  frames_of (set_slot ch (map Z.to_nat idxs) n') = frames_of ch /\
  (forall a, 0 <= a -> ~ in_frames (t :: frames_of ch) a -> rd (wr s sl v) a = rd s a).
Proof.
  induction idxs as [|i rest IH]; intros l s t ch n n' sl v Hrep Ht Hsep Hne Hlen Hidx Hsa Hms Hfr Hnew; [contradiction|].
  inversion Hidx as [|? ? Hi Hrest]; subst.
  destruct rest as [|i2 rest].
  - cbn [map slot_at mslot set_slot length] in *. inversion Hsa; subst n. inversion Hms; subst sl. clear Hsa Hms.
    assert (Hout : forall a, 0 <= a -> ~ in_frame t a -> rd (wr s (t + 8 * i) v) a = rd s a).
    { intros a Ha Hn. apply (rd_wr_outside s t); auto. unfold in_frame. destruct Ht. lia. }
    split; [|split].
    + apply (rep_update l s _ ch t i n' Hi Hrep).
      * rewrite rd_wr_same. replace l with (S l - 1)%nat by lia. apply Hnew.
        intros a Ha Hin. apply Hout; [exact Ha|]. intros Hb.
        (* frames of slot i are not the table's own frame *)
        destruct Hin as (g & Hg & Hga). destruct Hsep as [Hn HF]. rewrite Forall_forall in HF.
        assert (Hgin : In g (frames_of ch)) by (apply (node_frames_child ch (Z.to_nat i)); exact Hg).
        assert (t = g).
        { apply (frames_disjoint t g a); [exact Ht|apply HF; right; apply in_or_app; left; exact Hgin|exact Hb|exact Hga]. }
        subst g. inversion Hn as [|? ? Hnin _]; subst. apply Hnin. apply in_or_app. left. exact Hgin.
      * intros j Hj Hji. destruct Ht as [Ht1 Ht2]. apply rd_wr_slot; lia.
      * intros j a Hj Hji Ha Hin. apply Hout; [exact Ha|]. intros Hb.
        apply (sibling_disjoint s t ch i j a Hsep ltac:(lia) Hin). exists t. split; [left; reflexivity|exact Hb].
    + destruct (frames_of_set_child ch (Z.to_nat i) n') as (pre & post & E1 & E2). rewrite E2, E1, Hfr. reflexivity.
    + intros a Ha Hn. apply Hout; [exact Ha|]. intros Hb. apply Hn. exists t. split; [left; reflexivity|exact Hb].
  - destruct l as [|l']; [cbn [length] in Hlen; lia|].
    change (map Z.to_nat (i :: i2 :: rest)) with (Z.to_nat i :: map Z.to_nat (i2 :: rest)) in *.
    cbn [map] in Hsa |- *. rewrite slot_at_step in Hsa. rewrite set_slot_step.
    pose proof (proj1 (rep_unfold _ _ _ _) Hrep i Hi) as He.
    change (mslot s t (i :: i2 :: rest)) with
      (match next_table (rd s (t + 8 * i)) with WTable t' => mslot s t' (i2 :: rest) | w => inr (werr w) end) in Hms.
    rewrite (next_table_rep (S l') s _ _ He ltac:(lia)) in Hms.
    destruct (child ch (Z.to_nat i)) as [|w|f fl sub] eqn:Hc; try discriminate.
    cbn [rep_entry] in He. destruct He as (He & Hf & Hfl & Hsub).
    change (Z.to_nat i2 :: map Z.to_nat rest) with (map Z.to_nat (i2 :: rest)) in *.
    assert (Hsep1 : sep s f sub) by (apply (sep_sub s s t ch i f fl sub Hsep Hc eq_refl)).
    destruct (IH l' s f sub n n' sl v Hsub Hf Hsep1 ltac:(discriminate) ltac:(cbn [length] in *; lia) Hrest Hsa Hms Hfr)
      as (Hrep' & Hfrs & Hout').
    { intros s' Hag. replace (S l' - length (i2 :: rest))%nat with (S (S l') - length (i :: i2 :: rest))%nat
        by (cbn [length]; lia). apply Hnew. exact Hag. }
    assert (Hnot : forall a, in_frame t a -> ~ in_frames (f :: frames_of sub) a).
    { intros a Hb (g & Hg & Hga).
      assert (Hgin : In g (frames_of ch)).
      { destruct (frames_of_child _ _ _ _ _ Hc) as [G1 G2]. destruct Hg as [<-|Hg]; [exact G1|apply G2; exact Hg]. }
      destruct Hsep as [Hn HF]. rewrite Forall_forall in HF.
      assert (t = g).
      { apply (frames_disjoint t g a); [exact Ht|apply HF; right; apply in_or_app; left; exact Hgin|exact Hb|exact Hga]. }
      subst g. inversion Hn as [|? ? Hnin _]; subst. apply Hnin. apply in_or_app. left. exact Hgin. }
    split; [|split].
    + apply (rep_update (S l') s _ ch t i _ Hi Hrep).
      * cbn [rep_entry]. rewrite Hout'; [|destruct Ht; lia|apply Hnot; unfold in_frame; destruct Ht; lia].
        split; [exact He|]. split; [exact Hf|]. split; [exact Hfl|exact Hrep'].
      * intros j Hj Hji. apply Hout'; [destruct Ht; lia|apply Hnot; unfold in_frame; destruct Ht; lia].
      * intros j a Hj Hji Ha Hin. apply Hout'; [exact Ha|].
        pose proof (sibling_disjoint s t ch i j a Hsep ltac:(lia) Hin) as Hd. rewrite Hc in Hd.
        cbn [node_frames] in Hd. fold (frames_of sub) in Hd.
        intros (g & Hg & Hga). apply Hd. exists g. split; [|exact Hga]. right. apply in_or_app. left. exact Hg.
    + destruct (frames_of_set_child ch (Z.to_nat i) (Tab f fl (set_slot sub (map Z.to_nat (i2 :: rest)) n'))) as (pre & post & E1 & E2).
      rewrite E2, E1, Hc. cbn [node_frames]. fold (frames_of sub).
      fold (frames_of (set_slot sub (map Z.to_nat (i2 :: rest)) n')). rewrite Hfrs. reflexivity.
    + intros a Ha Hn. apply Hout'; [exact Ha|]. intros (g & Hg & Hga). apply Hn. exists g. split; [|exact Hga].
      right. destruct (frames_of_child _ _ _ _ _ Hc) as [G1 G2]. destruct Hg as [<-|Hg]; [exact G1|apply G2; exact Hg].
Qed.

(* ---------- unmap / update_flags / translate_page ---------- *)
Lemma zidx_nonempty k page : zidx_list k page <> [].
Proof. unfold zidx_list. destruct (k =? 2); [discriminate|]. destruct (k =? 1); discriminate. Qed.
Lemma slot_level k page : 0 <= k <= 2 -> (4 - length (zidx_list k page))%nat = Z.to_nat k.
Proof. intros Hk. rewrite zidx_length by exact Hk. lia. Qed.

Theorem unmap_refines s ch k page :
  0 <= k <= 2 -> rep 4 s ch (root s) -> tframe (root s) -> sep s (root s) ch ->
  let s' := fst (unmap s k page) in
  let ch' := fst (t_unmap ch (idx_list k page) k page) in
  snd (unmap s k page) = snd (t_unmap ch (idx_list k page) k page) /\
  rep 4 s' ch' (root s') /\ sep s' (root s') ch' /\ same_alloc s s' /\
  (forall a, 0 <= a -> ~ in_frames (root s :: frames_of ch) a -> rd s' a = rd s a).
Proof.
  intros Hk Hrep Ht Hsep. unfold unmap, t_unmap.
  rewrite descend_mslot by exact Hk. rewrite idx_list_zidx.
  pose proof (mslot_rep (zidx_list k page) 3 s (root s) ch Hrep Ht (zidx_nonempty k page)
                ltac:(rewrite zidx_length by exact Hk; lia) (zidx_ranges k page)) as Hm.
  rewrite (slot_level k page Hk) in Hm.
  destruct (slot_at ch (map Z.to_nat (zidx_list k page))) as [n|e] eqn:Hsa.
  2:{ rewrite Hm. cbn [fst snd]. split; [reflexivity|]. split; [exact Hrep|]. split; [exact Hsep|].
      split; [apply same_alloc_refl|]. intros; reflexivity. }
  destruct Hm as (sl & Hms & Hsl & Hre & _). rewrite Hms.
  assert (Hunch : rep 4 s ch (root s) /\ sep s (root s) ch /\
      same_alloc s s /\ (forall a, 0 <= a -> ~ in_frames (root s :: frames_of ch) a -> rd s a = rd s a)).
  { split; [exact Hrep|]. split; [exact Hsep|]. split; [apply same_alloc_refl|]. intros; reflexivity. }
  destruct n as [|w|f fl sub]; cbn [rep_entry] in Hre.
  - (* nothing there *)
    rewrite Hre. change (e_present 0) with false. cbn [negb].
    destruct (k =? 0); cbn [fst snd]; (split; [reflexivity|exact Hunch]).
  - destruct Hre as [Hre (Hw & Hp & Hh & _)]. rewrite Hre.
    rewrite e_present_bit, Hp. cbn [negb].
    assert (Hwrite : rep 4 (wr s sl 0) (set_slot ch (map Z.to_nat (zidx_list k page)) Empty) (root (wr s sl 0)) /\
        sep (wr s sl 0) (root (wr s sl 0)) (set_slot ch (map Z.to_nat (zidx_list k page)) Empty) /\
        same_alloc s (wr s sl 0) /\
        (forall a, 0 <= a -> ~ in_frames (root s :: frames_of ch) a -> rd (wr s sl 0) a = rd s a)).
    {
      destruct (set_slot_sim (zidx_list k page) 3 s (root s) ch (Leaf w) Empty sl 0 Hrep Ht Hsep (zidx_nonempty k page)
                  ltac:(rewrite zidx_length by exact Hk; lia) (zidx_ranges k page) Hsa Hms eq_refl)
        as (R & F & O); [intros; reflexivity|].
      split; [exact R|]. split; [unfold sep in *; rewrite F; exact Hsep|]. split; [apply same_alloc_wr|exact O]. }
    destruct (Z.eqb_spec k 0) as [->|Hk0].
    + change (size_of_kind 0) with S4K. rewrite leaf_addr_mod_4k. cbn [Z.eqb negb fst snd].
      split; [reflexivity|exact Hwrite].
    + rewrite e_huge_bit, (Hh ltac:(lia)). cbn [negb].
      change (e_addr w) with (leaf_addr w).
      destruct (negb (leaf_addr w mod size_of_kind k =? 0)); cbn [fst snd].
      * split; [reflexivity|exact Hunch].
      * split; [reflexivity|exact Hwrite].
  - destruct Hre as (Hre & Hf & Hfl & Hsub). rewrite Hre.
    destruct (tab_word f fl Hf Hfl) as (_ & Hhu & Hpr & _).
    rewrite Hpr, Hhu. cbn [negb].
    destruct (Z.eqb_spec k 0) as [->|Hk0].
    + (* a table below a level-1 slot cannot be represented *)
      cbn in Hsub. contradiction.
    + cbn [fst snd]. split; [reflexivity|exact Hunch].
Qed.

Lemma leaf_addr_range w : 0 <= leaf_addr w < W64.
Proof.
  unfold leaf_addr, ADDR_MASK. change 4503599627366400 with (2 ^ 52 - 2 ^ 12).
  rewrite land_mask_range by lia.
  pose proof (mod_mod_pow2 w 52 12 ltac:(lia)) as H.
  change (2 ^ 52) with 4503599627370496 in *. change (2 ^ 12) with 4096 in *.
  pose proof (Z.mod_pos_bound w 4503599627370496 ltac:(lia)). pose proof (Z.mod_pos_bound w 4096 ltac:(lia)).
  assert (w mod 4096 <= w mod 4503599627370496) by (rewrite <- H; apply Z.mod_le; lia).
  unfold W64. lia.
Qed.
Lemma leaf_addr_bit w n : 0 <= n < 12 -> Z.testbit (leaf_addr w) n = false.
Proof.
  intros Hn. unfold leaf_addr. rewrite Z.land_spec, addr_mask_bit by lia.
  replace ((12 <=? n) && (n <=? 51))%bool with false by lia. apply Bool.andb_false_r.
Qed.

Theorem update_flags_refines s ch k page flags :
  0 <= k <= 2 -> rep 4 s ch (root s) -> tframe (root s) -> sep s (root s) ch ->
  0 <= flags < W64 -> Z.testbit flags 0 = true ->
  let s' := fst (update_flags s k page flags) in
  let ch' := fst (t_update_flags ch (idx_list k page) k page flags) in
  snd (update_flags s k page flags) = snd (t_update_flags ch (idx_list k page) k page flags) /\
  rep 4 s' ch' (root s') /\ sep s' (root s') ch' /\ same_alloc s s' /\
  (forall a, 0 <= a -> ~ in_frames (root s :: frames_of ch) a -> rd s' a = rd s a).
Proof.
  intros Hk Hrep Ht Hsep Hfl Hfp. unfold update_flags, t_update_flags.
  rewrite descend_mslot by exact Hk. rewrite idx_list_zidx.
  pose proof (mslot_rep (zidx_list k page) 3 s (root s) ch Hrep Ht (zidx_nonempty k page)
                ltac:(rewrite zidx_length by exact Hk; lia) (zidx_ranges k page)) as Hm.
  rewrite (slot_level k page Hk) in Hm.
  assert (Hunch : rep 4 s ch (root s) /\ sep s (root s) ch /\
      same_alloc s s /\ (forall a, 0 <= a -> ~ in_frames (root s :: frames_of ch) a -> rd s a = rd s a)).
  { split; [exact Hrep|]. split; [exact Hsep|]. split; [apply same_alloc_refl|]. intros; reflexivity. }
  destruct (slot_at ch (map Z.to_nat (zidx_list k page))) as [n|e] eqn:Hsa.
  2:{ rewrite Hm. cbn [fst snd]. split; [reflexivity|exact Hunch]. }
  destruct Hm as (sl & Hms & Hsl & Hre & _). rewrite Hms.
  destruct n as [|w|f fl sub]; cbn [rep_entry] in Hre.
  - rewrite Hre. cbn [Z.eqb fst snd]. split; [reflexivity|exact Hunch].
  - destruct Hre as [Hre (Hw & Hp & Hh & Hlv)]. rewrite Hre.
    assert (Hnz : (w =? 0) = false).
    { apply Z.eqb_neq. intros H0. rewrite H0, Z.bits_0 in Hp. discriminate. }
    rewrite Hnz.
    set (fl' := if k =? 0 then flags else Z.lor flags PTF_HUGE).
    assert (Hwrite : rep 4 (wr s sl (Z.lor (leaf_addr w) fl')) (set_slot ch (map Z.to_nat (zidx_list k page)) (Leaf (Z.lor (leaf_addr w) fl')))
                         (root (wr s sl (Z.lor (leaf_addr w) fl'))) /\
        sep (wr s sl (Z.lor (leaf_addr w) fl')) (root (wr s sl (Z.lor (leaf_addr w) fl')))
            (set_slot ch (map Z.to_nat (zidx_list k page)) (Leaf (Z.lor (leaf_addr w) fl'))) /\
        same_alloc s (wr s sl (Z.lor (leaf_addr w) fl')) /\
        (forall a, 0 <= a -> ~ in_frames (root s :: frames_of ch) a -> rd (wr s sl (Z.lor (leaf_addr w) fl')) a = rd s a)).
    { destruct (set_slot_sim (zidx_list k page) 3 s (root s) ch (Leaf w) (Leaf (Z.lor (leaf_addr w) fl')) sl
                  (Z.lor (leaf_addr w) fl') Hrep Ht Hsep (zidx_nonempty k page)
                  ltac:(rewrite zidx_length by exact Hk; lia) (zidx_ranges k page) Hsa Hms eq_refl)
        as (R & F & O).
      { intros s' _. rewrite (slot_level k page Hk). cbn [rep_entry]. split; [reflexivity|].
        assert (Hfl' : 0 <= fl' < W64 /\ Z.testbit fl' 0 = true /\ ((2 <= S (Z.to_nat k))%nat -> Z.testbit fl' 7 = true)).
        { unfold fl'. destruct (Z.eqb_spec k 0) as [->|Hk0].
          - split; [exact Hfl|]. split; [exact Hfp|]. cbn. lia.
          - split; [apply lor_u64; [exact Hfl|unfold PTF_HUGE, W64; lia]|].
            split; [rewrite Z.lor_spec, Hfp; reflexivity|]. intros _. rewrite Z.lor_spec. apply Bool.orb_true_r. }
        destruct Hfl' as (F1 & F2 & F3).
        split; [apply lor_u64; [apply leaf_addr_range|exact F1]|].
        split; [rewrite Z.lor_spec, F2; apply Bool.orb_true_r|].
        split; [intros H2; rewrite Z.lor_spec, (F3 H2); apply Bool.orb_true_r|exact Hlv]. }
      split; [exact R|]. split; [unfold sep in *; rewrite F; exact Hsep|]. split; [apply same_alloc_wr|exact O]. }
    change (e_set_flags w) with (fun f => Z.lor (e_addr w) f). change (e_addr w) with (leaf_addr w). cbn beta.
    destruct (Z.eqb_spec k 0) as [->|Hk0].
    + cbn [fst snd]. split; [reflexivity|exact Hwrite].
    + rewrite e_huge_bit, (Hh ltac:(lia)). cbn [negb fst snd].
      assert (Efl : fl' = Z.lor flags PTF_HUGE) by (unfold fl'; destruct (Z.eqb_spec k 0); [contradiction|reflexivity]).
      rewrite Efl in Hwrite. split; [reflexivity|exact Hwrite].
  - destruct Hre as (Hre & Hf & Hfl0 & Hsub). rewrite Hre.
    destruct (tab_word f fl Hf Hfl0) as (Hnz & Hhu & _).
    apply Z.eqb_neq in Hnz. rewrite Hnz.
    destruct (Z.eqb_spec k 0) as [->|Hk0].
    + cbn in Hsub. contradiction.
    + rewrite Hhu. cbn [negb fst snd]. split; [reflexivity|exact Hunch].
Qed.

Theorem translate_page_refines s ch k page :
  0 <= k <= 2 -> rep 4 s ch (root s) -> tframe (root s) ->
  translate_page s k page = t_translate_page ch (idx_list k page) k.
Proof.
  intros Hk Hrep Ht. unfold translate_page, t_translate_page.
  rewrite descend_mslot by exact Hk. rewrite idx_list_zidx.
  pose proof (mslot_rep (zidx_list k page) 3 s (root s) ch Hrep Ht (zidx_nonempty k page)
                ltac:(rewrite zidx_length by exact Hk; lia) (zidx_ranges k page)) as Hm.
  rewrite (slot_level k page Hk) in Hm.
  destruct (slot_at ch (map Z.to_nat (zidx_list k page))) as [n|e] eqn:Hsa; [|rewrite Hm; reflexivity].
  destruct Hm as (sl & Hms & Hsl & Hre & _). rewrite Hms.
  destruct n as [|w|f fl sub]; cbn [rep_entry] in Hre.
  - rewrite Hre. reflexivity.
  - destruct Hre as [Hre (Hw & Hp & Hh & _)]. rewrite Hre.
    assert (Hnz : (w =? 0) = false).
    { apply Z.eqb_neq. intros H0. rewrite H0, Z.bits_0 in Hp. discriminate. }
    rewrite Hnz. change (e_addr w) with (leaf_addr w).
    destruct (Z.eqb_spec k 0) as [->|Hk0]; cbn [negb andb]; [reflexivity|].
    rewrite e_huge_bit, (Hh ltac:(lia)). cbn [negb]. reflexivity.
  - destruct Hre as (Hre & Hf & Hfl0 & Hsub). rewrite Hre.
    destruct (tab_word f fl Hf Hfl0) as (Hnz & Hhu & _).
    apply Z.eqb_neq in Hnz. rewrite Hnz.
    destruct (Z.eqb_spec k 0) as [->|Hk0].
    + cbn in Hsub. contradiction.
    + rewrite Hhu. cbn [negb andb]. reflexivity.
Qed.
