(* Named flags, fields and numbers as the architecture manuals (Intel SDM, AMD APM) assign
   them, written as bit positions / numbers - independently of the crate's values.  Trusted
   transcription: this file is the oracle of C19 for "denotes what the manuals assign". *)
Require Import String List ZArith.
Import ListNotations.
Open Scope string_scope. Open Scope Z_scope.

Definition bit (n : Z) : Z := 2 ^ n.
Definition field (lo hi : Z) : Z := 2 ^ (hi + 1) - 2 ^ lo.       (* bits lo..hi inclusive *)
Definition union (l : list Z) : Z := fold_right Z.lor 0 l.

(* one type: its flags, plus the generated name "<Type>::all" = union of the flags *)
Definition flags_of (ty : string) (l : list (string * Z)) : list (string * Z) :=
  map (fun nv => (ty ++ "::" ++ fst nv, snd nv)) l ++ [(ty ++ "::all", union (map snd l))].
Definition names_of (ty : string) (l : list (string * Z)) : list (string * Z) :=
  map (fun nv => (ty ++ "::" ++ fst nv, snd nv)) l.

Definition manual_consts : list (string * Z) :=
  names_of "PrivilegeLevel" [("Ring0", 0); ("Ring1", 1); ("Ring2", 2); ("Ring3", 3)] ++
  (* CR0: PE MP EM TS ET NE WP AM NW CD PG *)
  flags_of "Cr0Flags" [("PROTECTED_MODE_ENABLE", bit 0); ("MONITOR_COPROCESSOR", bit 1);
    ("EMULATE_COPROCESSOR", bit 2); ("TASK_SWITCHED", bit 3); ("EXTENSION_TYPE", bit 4);
    ("NUMERIC_ERROR", bit 5); ("WRITE_PROTECT", bit 16); ("ALIGNMENT_MASK", bit 18);
    ("NOT_WRITE_THROUGH", bit 29); ("CACHE_DISABLE", bit 30); ("PAGING", bit 31)] ++
  flags_of "Cr3Flags" [("PAGE_LEVEL_WRITETHROUGH", bit 3); ("PAGE_LEVEL_CACHE_DISABLE", bit 4)] ++
  (* CR4: VME PVI TSD DE PSE PAE MCE PGE PCE OSFXSR OSXMMEXCPT UMIP LA57 VMXE SMXE FSGSBASE
     PCIDE OSXSAVE KL SMEP SMAP PKE CET PKS *)
  flags_of "Cr4Flags" [("VIRTUAL_8086_MODE_EXTENSIONS", bit 0); ("PROTECTED_MODE_VIRTUAL_INTERRUPTS", bit 1);
    ("TIMESTAMP_DISABLE", bit 2); ("DEBUGGING_EXTENSIONS", bit 3); ("PAGE_SIZE_EXTENSION", bit 4);
    ("PHYSICAL_ADDRESS_EXTENSION", bit 5); ("MACHINE_CHECK_EXCEPTION", bit 6); ("PAGE_GLOBAL", bit 7);
    ("PERFORMANCE_MONITOR_COUNTER", bit 8); ("OSFXSR", bit 9); ("OSXMMEXCPT_ENABLE", bit 10);
    ("USER_MODE_INSTRUCTION_PREVENTION", bit 11); ("L5_PAGING", bit 12);
    ("VIRTUAL_MACHINE_EXTENSIONS", bit 13); ("SAFER_MODE_EXTENSIONS", bit 14); ("FSGSBASE", bit 16);
    ("PCID", bit 17); ("OSXSAVE", bit 18); ("KEY_LOCKER", bit 19);
    ("SUPERVISOR_MODE_EXECUTION_PROTECTION", bit 20); ("SUPERVISOR_MODE_ACCESS_PREVENTION", bit 21);
    ("PROTECTION_KEY_USER", bit 22); ("CONTROL_FLOW_ENFORCEMENT", bit 23);
    ("PROTECTION_KEY_SUPERVISOR", bit 24)] ++
  (* DR6: B0-B3, BD, BS, BT, RTM *)
  flags_of "Dr6Flags" [("TRAP0", bit 0); ("TRAP1", bit 1); ("TRAP2", bit 2); ("TRAP3", bit 3);
    ("TRAP", field 0 3); ("ACCESS_DETECTED", bit 13); ("STEP", bit 14); ("SWITCH", bit 15);
    ("RTM", bit 16)] ++
  (* DR7: L0 G0 L1 G1 L2 G2 L3 G3 LE GE RTM GD *)
  flags_of "Dr7Flags" [("LOCAL_BREAKPOINT_0_ENABLE", bit 0); ("LOCAL_BREAKPOINT_1_ENABLE", bit 2);
    ("LOCAL_BREAKPOINT_2_ENABLE", bit 4); ("LOCAL_BREAKPOINT_3_ENABLE", bit 6);
    ("GLOBAL_BREAKPOINT_0_ENABLE", bit 1); ("GLOBAL_BREAKPOINT_1_ENABLE", bit 3);
    ("GLOBAL_BREAKPOINT_2_ENABLE", bit 5); ("GLOBAL_BREAKPOINT_3_ENABLE", bit 7);
    ("LOCAL_EXACT_BREAKPOINT_ENABLE", bit 8); ("GLOBAL_EXACT_BREAKPOINT_ENABLE", bit 9);
    ("RESTRICTED_TRANSACTIONAL_MEMORY", bit 11); ("GENERAL_DETECT_ENABLE", bit 13)] ++
  (* DR7 R/W and LEN encodings *)
  names_of "BreakpointCondition" [("InstructionExecution", 0); ("DataWrites", 1);
    ("IoReadsWrites", 2); ("DataReadsWrites", 3)] ++
  names_of "BreakpointSize" [("Length1B", 0); ("Length2B", 1); ("Length8B", 2); ("Length4B", 3)] ++
  (* EFER: SCE LME LMA NXE SVME LMSLE FFXSR TCE *)
  flags_of "EferFlags" [("SYSTEM_CALL_EXTENSIONS", bit 0); ("LONG_MODE_ENABLE", bit 8);
    ("LONG_MODE_ACTIVE", bit 10); ("NO_EXECUTE_ENABLE", bit 11);
    ("SECURE_VIRTUAL_MACHINE_ENABLE", bit 12); ("LONG_MODE_SEGMENT_LIMIT_ENABLE", bit 13);
    ("FAST_FXSAVE_FXRSTOR", bit 14); ("TRANSLATION_CACHE_EXTENSION", bit 15)] ++
  (* IA32_U_CET / IA32_S_CET: SH_STK_EN WR_SHSTK_EN ENDBR_EN LEG_IW_EN NO_TRACK_EN SUPPRESS_DIS
     SUPPRESS TRACKER *)
  flags_of "CetFlags" [("SS_ENABLE", bit 0); ("SS_WRITE_ENABLE", bit 1); ("IBT_ENABLE", bit 2);
    ("IBT_LEGACY_ENABLE", bit 3); ("IBT_NO_TRACK_ENABLE", bit 4);
    ("IBT_LEGACY_SUPPRESS_ENABLE", bit 5); ("IBT_SUPPRESS_ENABLE", bit 10); ("IBT_TRACKED", bit 11)] ++
  (* IA32_APIC_BASE: BSP, EXTD, EN *)
  flags_of "ApicBaseFlags" [("BSP", bit 8); ("X2APIC_ENABLE", bit 10); ("LAPIC_ENABLE", bit 11)] ++
  (* MSR numbers *)
  [("Efer::MSR", 0xC0000080); ("FsBase::MSR", 0xC0000100); ("GsBase::MSR", 0xC0000101);
   ("KernelGsBase::MSR", 0xC0000102); ("Star::MSR", 0xC0000081); ("LStar::MSR", 0xC0000082);
   ("SFMask::MSR", 0xC0000084); ("UCet::MSR", 0x6A0); ("SCet::MSR", 0x6A2); ("Pat::MSR", 0x277);
   ("ApicBase::MSR", 0x1B)] ++
  (* PAT memory types: UC 0, WC 1, WT 4, WP 5, WB 6, UC- 7 *)
  names_of "PatMemoryType" [("StrongUncacheable", 0); ("WriteCombining", 1); ("WriteThrough", 4);
    ("WriteProtected", 5); ("WriteBack", 6); ("Uncacheable", 7)] ++
  (* MXCSR: IE DE ZE OE UE PE DAZ IM DM ZM OM UM PM RC(13:14) FTZ *)
  flags_of "MxCsr" [("INVALID_OPERATION", bit 0); ("DENORMAL", bit 1); ("DIVIDE_BY_ZERO", bit 2);
    ("OVERFLOW", bit 3); ("UNDERFLOW", bit 4); ("PRECISION", bit 5); ("DENORMALS_ARE_ZEROS", bit 6);
    ("INVALID_OPERATION_MASK", bit 7); ("DENORMAL_MASK", bit 8); ("DIVIDE_BY_ZERO_MASK", bit 9);
    ("OVERFLOW_MASK", bit 10); ("UNDERFLOW_MASK", bit 11); ("PRECISION_MASK", bit 12);
    ("ROUNDING_CONTROL_NEGATIVE", bit 13); ("ROUNDING_CONTROL_POSITIVE", bit 14);
    ("ROUNDING_CONTROL_ZERO", field 13 14); ("FLUSH_TO_ZERO", bit 15)] ++
  (* RFLAGS: CF PF AF ZF SF TF IF DF OF IOPL(12:13) NT RF VM AC VIF VIP ID *)
  flags_of "RFlags" [("ID", bit 21); ("VIRTUAL_INTERRUPT_PENDING", bit 20); ("VIRTUAL_INTERRUPT", bit 19);
    ("ALIGNMENT_CHECK", bit 18); ("VIRTUAL_8086_MODE", bit 17); ("RESUME_FLAG", bit 16);
    ("NESTED_TASK", bit 14); ("IOPL_HIGH", bit 13); ("IOPL_LOW", bit 12); ("OVERFLOW_FLAG", bit 11);
    ("DIRECTION_FLAG", bit 10); ("INTERRUPT_FLAG", bit 9); ("TRAP_FLAG", bit 8); ("SIGN_FLAG", bit 7);
    ("ZERO_FLAG", bit 6); ("AUXILIARY_CARRY_FLAG", bit 4); ("PARITY_FLAG", bit 2); ("CARRY_FLAG", bit 0)] ++
  [("SegmentSelector::NULL", 0)] ++
  (* XCR0: x87 SSE AVX BNDREG BNDCSR opmask ZMM_Hi256 Hi16_ZMM PKRU(9) LWP(62, AMD) *)
  flags_of "XCr0Flags" [("X87", bit 0); ("SSE", bit 1); ("AVX", bit 2); ("BNDREG", bit 3);
    ("BNDCSR", bit 4); ("OPMASK", bit 5); ("ZMM_HI256", bit 6); ("HI16_ZMM", bit 7); ("MPK", bit 9);
    ("LWP", bit 62)] ++
  (* segment descriptor, second doubleword bits at +32: A 40, W/R 41, C/E 42, X 43, S 44,
     DPL 45:46, P 47, limit 48:51, AVL 52, L 53, D/B 54, G 55, base 56:63; low: limit 0:15, base 16:39 *)
  (let df := [("ACCESSED", bit 40); ("WRITABLE", bit 41); ("CONFORMING", bit 42); ("EXECUTABLE", bit 43);
    ("USER_SEGMENT", bit 44); ("DPL_RING_3", field 45 46); ("PRESENT", bit 47); ("AVAILABLE", bit 52);
    ("LONG_MODE", bit 53); ("DEFAULT_SIZE", bit 54); ("GRANULARITY", bit 55); ("LIMIT_0_15", field 0 15);
    ("LIMIT_16_19", field 48 51); ("BASE_0_23", field 16 39); ("BASE_24_31", field 56 63)] in
   flags_of "DescriptorFlags" df) ++
  (* flat 4 GiB segments as every 64-bit kernel defines them *)
  [("DescriptorFlags::KERNEL_DATA", 0x00cf93000000ffff); ("DescriptorFlags::KERNEL_CODE32", 0x00cf9b000000ffff);
   ("DescriptorFlags::KERNEL_CODE64", 0x00af9b000000ffff); ("DescriptorFlags::USER_DATA", 0x00cff3000000ffff);
   ("DescriptorFlags::USER_CODE32", 0x00cffb000000ffff); ("DescriptorFlags::USER_CODE64", 0x00affb000000ffff)] ++
  (* page-fault error code: P W/R U/S RSVD I/D PK SS ... SGX(15) RMP(31) *)
  flags_of "PageFaultErrorCode" [("PROTECTION_VIOLATION", bit 0); ("CAUSED_BY_WRITE", bit 1);
    ("USER_MODE", bit 2); ("MALFORMED_TABLE", bit 3); ("INSTRUCTION_FETCH", bit 4);
    ("PROTECTION_KEY", bit 5); ("SHADOW_STACK", bit 6); ("SGX", bit 15); ("RMP", bit 31)] ++
  (* exception vectors: #DE #DB NMI #BP #OF #BR #UD #NM #DF #TS #NP #SS #GP #PF #MF #AC #MC #XM
     #VE #CP #HV #VC #SX *)
  names_of "ExceptionVector" [("Division", 0); ("Debug", 1); ("NonMaskableInterrupt", 2);
    ("Breakpoint", 3); ("Overflow", 4); ("BoundRange", 5); ("InvalidOpcode", 6);
    ("DeviceNotAvailable", 7); ("Double", 8); ("InvalidTss", 10); ("SegmentNotPresent", 11);
    ("Stack", 12); ("GeneralProtection", 13); ("Page", 14); ("X87FloatingPoint", 16);
    ("AlignmentCheck", 17); ("MachineCheck", 18); ("SimdFloatingPoint", 19); ("Virtualization", 20);
    ("ControlProtection", 21); ("HypervisorInjection", 28); ("VmmCommunication", 29); ("Security", 30)] ++
  [("Size4KiB::SIZE", 2 ^ 12); ("Size2MiB::SIZE", 2 ^ 21); ("Size1GiB::SIZE", 2 ^ 30)] ++
  (* page-table entry: P R/W U/S PWT PCD A D PS(PAT for 4K) G avail(9:11) PAT(12, huge) avail(52:62) XD *)
  flags_of "PageTableFlags" [("PRESENT", bit 0); ("WRITABLE", bit 1); ("USER_ACCESSIBLE", bit 2);
    ("WRITE_THROUGH", bit 3); ("NO_CACHE", bit 4); ("ACCESSED", bit 5); ("DIRTY", bit 6);
    ("HUGE_PAGE", bit 7); ("PAT_4KIB_PAGE", bit 7); ("GLOBAL", bit 8); ("BIT_9", bit 9);
    ("BIT_10", bit 10); ("BIT_11", bit 11); ("PAT_HUGE_PAGE", bit 12); ("BIT_52", bit 52);
    ("BIT_53", bit 53); ("BIT_54", bit 54); ("BIT_55", bit 55); ("BIT_56", bit 56); ("BIT_57", bit 57);
    ("BIT_58", bit 58); ("BIT_59", bit 59); ("BIT_60", bit 60); ("BIT_61", bit 61); ("BIT_62", bit 62);
    ("NO_EXECUTE", bit 63)] ++
  names_of "PageTableLevel" [("One", 1); ("Two", 2); ("Three", 3); ("Four", 4)] ++
  (* PAT after reset: PA0 WB, PA1 WT, PA2 UC-, PA3 UC, PA4..7 the same *)
  [("Pat::DEFAULT", 0x0007040600070406);
  (* MXCSR after reset: all exceptions masked *)
   ("MxCsr::default", 0x1F80)].

Fixpoint lookup (n : string) (l : list (string * Z)) : option Z :=
  match l with
  | [] => None
  | (k, v) :: l' => if String.eqb k n then Some v else lookup n l'
  end.
