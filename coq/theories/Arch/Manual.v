(* Architectural formats, transcribed from the Intel SDM / AMD APM figures independently of
   the crate's field splits.  This file is the oracle for "matches the manuals" (trusted). *)
From X86 Require Export Base.Word.
Open Scope Z_scope.

Definition bitsf (x lo n : Z) : Z := (x / 2 ^ lo) mod 2 ^ n.     (* n bits starting at bit lo *)

(* 64-bit IDT gate descriptor (SDM vol. 3, "64-Bit IDT Gate Descriptors"), as two quadwords:
   offset[15:0] @0, selector @16, IST @32 (3 bits), zero @35..39, type @40 (4 bits), zero @44,
   DPL @45 (2 bits), P @47, offset[31:16] @48; offset[63:32] @64, reserved @96 *)
Record gate := { g_offset : Z; g_selector : Z; g_ist : Z; g_zero : Z; g_type : Z; g_dpl : Z;
                 g_present : Z; g_reserved : Z }.
Definition decode_gate (lo hi : Z) : gate :=
  {| g_offset := bitsf lo 0 16 + bitsf lo 48 16 * 2 ^ 16 + bitsf hi 0 32 * 2 ^ 32;
     g_selector := bitsf lo 16 16; g_ist := bitsf lo 32 3;
     g_zero := bitsf lo 35 5 + bitsf lo 44 1 * 32; g_type := bitsf lo 40 4;
     g_dpl := bitsf lo 45 2; g_present := bitsf lo 47 1; g_reserved := bitsf hi 32 32 |}.
Definition GATE_INTERRUPT : Z := 14.    (* 0xE *)
Definition GATE_TRAP : Z := 15.         (* 0xF *)

(* 16-byte system-segment descriptor in 64-bit mode (TSS/LDT): limit[15:0] @0, base[23:0] @16,
   type @40, S @44, DPL @45, P @47, limit[19:16] @48, AVL @52, reserved @53..54, G @55,
   base[31:24] @56; base[63:32] @64, reserved @96 *)
Record sysdesc := { s_base : Z; s_limit : Z; s_type : Z; s_s : Z; s_dpl : Z; s_p : Z;
                    s_avl_g : Z; s_reserved : Z }.
Definition decode_sys16 (lo hi : Z) : sysdesc :=
  {| s_base := bitsf lo 16 24 + bitsf lo 56 8 * 2 ^ 24 + bitsf hi 0 32 * 2 ^ 32;
     s_limit := bitsf lo 0 16 + bitsf lo 48 4 * 2 ^ 16;
     s_type := bitsf lo 40 4; s_s := bitsf lo 44 1; s_dpl := bitsf lo 45 2; s_p := bitsf lo 47 1;
     s_avl_g := bitsf lo 52 4; s_reserved := bitsf hi 32 32 |}.
Definition TSS_AVAILABLE_64 : Z := 9.

(* 8-byte code/data segment descriptor: type bits: accessed @40, writable/readable @41,
   conforming/expand-down @42, executable @43; S @44; DPL @45; P @47; AVL @52; L @53; D/B @54; G @55 *)
Record segdesc := { d_executable : Z; d_s : Z; d_dpl : Z; d_p : Z; d_l : Z; d_db : Z; d_g : Z;
                    d_writable : Z; d_limit : Z }.
Definition decode_seg8 (w : Z) : segdesc :=
  {| d_executable := bitsf w 43 1; d_s := bitsf w 44 1; d_dpl := bitsf w 45 2; d_p := bitsf w 47 1;
     d_l := bitsf w 53 1; d_db := bitsf w 54 1; d_g := bitsf w 55 1; d_writable := bitsf w 41 1;
     d_limit := bitsf w 0 16 + bitsf w 48 4 * 2 ^ 16 |}.

(* exception vectors that push an error code (SDM table 6-1, APM): #DF #TS #NP #SS #GP #PF #AC
   #CP #VC #SX *)
Definition error_code_vectors : list Z := [8; 10; 11; 12; 13; 14; 17; 21; 29; 30].
(* vectors the architecture reserves (no exception defined): 15, 22-27, 31 *)
Definition reserved_vectors : list Z := [15; 22; 23; 24; 25; 26; 27; 31].
(* vectors whose handler may not return: #DF, #MC *)
Definition diverging_vectors : list Z := [8; 18].
