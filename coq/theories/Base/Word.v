(* Machine words as Z with explicit ranges and explicit wrap-around.
   Model-level definitions only (no proofs here except tiny computational facts). *)
From Coq Require Export ZArith List Bool Lia.
Export ListNotations.
Open Scope Z_scope.

Definition W64 : Z := 18446744073709551616.          (* 2^64 *)
Definition W63 : Z := 9223372036854775808.           (* 2^63 *)
Definition W16 : Z := 65536.
Definition W32 : Z := 4294967296.
Definition u64 (x : Z) : Prop := 0 <= x < W64.
Definition u64b (x : Z) : bool := (0 <=? x) && (x <? W64).
Definition u16 (x : Z) : Prop := 0 <= x < W16.
Definition wrap64 (x : Z) : Z := x mod W64.
Definition wrap16 (x : Z) : Z := x mod W16.

(* Results: a panic is a value, never hidden by totalisation. *)
Inductive res (A : Type) : Type := Ok (a : A) | Panic.
Arguments Ok {A} a.
Arguments Panic {A}.

Definition bind {A B} (r : res A) (f : A -> res B) : res B :=
  match r with Ok a => f a | Panic => Panic end.
Notation "'do' x <- r ; k" := (bind r (fun x => k))
  (at level 200, x name, r at level 100, k at level 200).
Definition rmap {A B} (f : A -> B) (r : res A) : res B :=
  match r with Ok a => Ok (f a) | Panic => Panic end.

(* Rust's primitive + - * on u64: `oc` = overflow checks on (debug profile) ->
   panic on overflow; off (release profile) -> wrap. *)
Definition add64 (oc : bool) (a b : Z) : res Z :=
  if a + b <? W64 then Ok (a + b) else if oc then Panic else Ok (wrap64 (a + b)).
Definition sub64 (oc : bool) (a b : Z) : res Z :=
  if b <=? a then Ok (a - b) else if oc then Panic else Ok (wrap64 (a - b)).
Definition mul64 (oc : bool) (a b : Z) : res Z :=
  if a * b <? W64 then Ok (a * b) else if oc then Panic else Ok (wrap64 (a * b)).
Definition add16 (oc : bool) (a b : Z) : res Z :=
  if a + b <? W16 then Ok (a + b) else if oc then Panic else Ok (wrap16 (a + b)).
Definition sub16 (oc : bool) (a b : Z) : res Z :=
  if b <=? a then Ok (a - b) else if oc then Panic else Ok (wrap16 (a - b)).

Definition checked_add64 (a b : Z) : option Z :=
  if a + b <? W64 then Some (a + b) else None.
Definition checked_sub64 (a b : Z) : option Z :=
  if b <=? a then Some (a - b) else None.
Definition checked_mul64 (a b : Z) : option Z :=
  if a * b <? W64 then Some (a * b) else None.

(* option.unwrap() *)
Definition unwrap {A} (o : option A) : res A :=
  match o with Some a => Ok a | None => Panic end.

(* shifts on u64 (shift amounts < 64 in all uses) *)
Definition shl64 (a n : Z) : Z := wrap64 (Z.shiftl a n).
Definition shr64 (a n : Z) : Z := Z.shiftr a n.
(* `as i64` reinterpretation and back *)
Definition to_i64 (a : Z) : Z := if a <? W63 then a else a - W64.
Definition of_i64 (a : Z) : Z := wrap64 a.
(* arithmetic shift right on i64 *)
Definition sar64 (a n : Z) : Z := Z.shiftr a n.   (* Z.shiftr floors: arithmetic *)
Definition not64 (a : Z) : Z := W64 - 1 - a.       (* bitwise not on u64 *)

(* u64::is_power_of_two (count_ones() == 1), as an explicit search for the exponent *)
Definition is_pow2 (a : Z) : bool :=
  existsb (fun k => a =? 2 ^ Z.of_nat k) (seq 0 64).

(* bit_field crate: get_bits(lo..hi) / set_bits(lo..hi, v) on u64; hi exclusive *)
Definition get_bits (x lo hi : Z) : Z := (Z.shiftr x lo) mod 2 ^ (hi - lo).
Definition set_bits (x lo hi v : Z) : res Z :=
  if v <? 2 ^ (hi - lo) then
    Ok (x - (get_bits x lo hi) * 2 ^ lo + v * 2 ^ lo)
  else Panic.
Definition get_bit (x i : Z) : bool := Z.testbit x i.
Definition set_bit (x i : Z) (b : bool) : Z :=
  if b then Z.lor x (2 ^ i) else Z.land x (not64 (2 ^ i)).

Definition b2z (b : bool) : Z := if b then 1 else 0.

(* encoding of results into integer lists for the correspondence interface *)
Definition PANIC : Z := -1.
Definition NONE : Z := -2.
Definition enc_res (r : res Z) : list Z := match r with Ok v => [v] | Panic => [PANIC] end.
Definition enc_opt (r : option Z) : list Z := match r with Some v => [v] | None => [NONE] end.
Definition enc_res_opt (r : res (option Z)) : list Z :=
  match r with Ok o => enc_opt o | Panic => [PANIC] end.
Definition enc_bool (b : bool) : list Z := [b2z b].

Ltac splits := repeat match goal with |- _ /\ _ => split end.
