(* Bit-vector facts: masks, shifts and disjoint ors as arithmetic on Z. *)
From X86 Require Import Base.Word.
Open Scope Z_scope.

Lemma pow2_pos k : 0 <= k -> 0 < 2 ^ k.
Proof. intros; apply Z.pow_pos_nonneg; lia. Qed.

Lemma pow2_split h l : 0 <= l <= h -> 2 ^ h = 2 ^ l * 2 ^ (h - l).
Proof. intros; rewrite <- Z.pow_add_r by lia; f_equal; lia. Qed.

Lemma land_ones_mod a k : 0 <= k -> Z.land a (2 ^ k - 1) = a mod 2 ^ k.
Proof.
  intros. rewrite <- Z.land_ones by lia. f_equal. rewrite Z.ones_equiv. lia.
Qed.

Lemma land_lnot_ones a k : 0 <= k -> Z.land a (Z.lnot (Z.ones k)) = a - a mod 2 ^ k.
Proof.
  intros Hk. rewrite <- Z.ldiff_land, Z.ldiff_ones_r by lia.
  rewrite Z.shiftr_div_pow2, Z.shiftl_mul_pow2 by lia.
  pose proof (pow2_pos k Hk).
  pose proof (Z.div_mod a (2 ^ k)). lia.
Qed.

Lemma mod_mod_pow2 a h l : 0 <= l <= h -> (a mod 2 ^ h) mod 2 ^ l = a mod 2 ^ l.
Proof.
  intros. pose proof (pow2_pos l). pose proof (pow2_pos (h - l)). pose proof (pow2_pos h).
  assert (E : a mod 2 ^ h = a + (- (a / 2 ^ h) * 2 ^ (h - l)) * 2 ^ l).
  { pose proof (Z.div_mod a (2 ^ h)). pose proof (pow2_split h l). nia. }
  rewrite E. apply Z.mod_add. lia.
Qed.

Lemma ones_land_lnot h l : 0 <= l <= h ->
  Z.land (Z.ones h) (Z.lnot (Z.ones l)) = 2 ^ h - 2 ^ l.
Proof.
  intros. rewrite land_lnot_ones by lia. rewrite Z.ones_equiv.
  pose proof (pow2_pos l). pose proof (pow2_pos (h - l)).
  assert ((Z.pred (2 ^ h)) mod 2 ^ l = 2 ^ l - 1).
  { rewrite (pow2_split h l) by lia.
    replace (Z.pred (2 ^ l * 2 ^ (h - l))) with ((2 ^ l - 1) + (2 ^ (h - l) - 1) * 2 ^ l) by lia.
    rewrite Z.mod_add by lia. apply Z.mod_small; lia. }
  lia.
Qed.

(* a contiguous mask [l, h) *)
Lemma land_mask_range a h l : 0 <= l <= h ->
  Z.land a (2 ^ h - 2 ^ l) = a mod 2 ^ h - a mod 2 ^ l.
Proof.
  intros. rewrite <- ones_land_lnot by lia.
  rewrite Z.land_assoc, Z.land_ones by lia.
  rewrite land_lnot_ones by lia. rewrite mod_mod_pow2 by lia. reflexivity.
Qed.

Lemma not64_pow2m1 k : not64 (2 ^ k - 1) = 2 ^ 64 - 2 ^ k.
Proof. unfold not64, W64. change (2^64) with 18446744073709551616. lia. Qed.

Lemma land_not64 a k : u64 a -> 0 <= k <= 64 ->
  Z.land a (not64 (2 ^ k - 1)) = a - a mod 2 ^ k.
Proof.
  intros Ha Hk. rewrite not64_pow2m1, land_mask_range by lia.
  rewrite (Z.mod_small a (2 ^ 64)); [reflexivity|exact Ha].
Qed.

Lemma testbit_low_zero a k i : a mod 2 ^ k = 0 -> 0 <= i < k -> Z.testbit a i = false.
Proof.
  intros H Hi. rewrite <- (Z.mod_pow2_bits_low a k i) by lia. rewrite H. apply Z.bits_0.
Qed.

Lemma testbit_high_zero b k i : 0 <= b < 2 ^ k -> k <= i -> Z.testbit b i = false.
Proof.
  intros H Hi. destruct (Z.eq_dec b 0) as [->|Hb]; [apply Z.bits_0|].
  apply Z.bits_above_log2; [lia|].
  assert (Z.log2 b < k); [|lia].
  apply Z.log2_lt_pow2; lia.
Qed.

Lemma lor_disjoint_add a b k : 0 <= k -> 0 <= b < 2 ^ k -> a mod 2 ^ k = 0 ->
  Z.lor a b = a + b.
Proof.
  intros Hk Hb Ha.
  assert (Z.land a b = 0).
  { apply Z.bits_inj'. intros i Hi. rewrite Z.land_spec, Z.bits_0.
    destruct (Z_lt_dec i k).
    - rewrite (testbit_low_zero a k i) by (auto; lia). reflexivity.
    - rewrite (testbit_high_zero b k i) by lia. apply andb_false_r. }
  rewrite Z.add_nocarry_lxor by assumption. symmetry. apply Z.lxor_lor. assumption.
Qed.

Lemma lor_ones a k : 0 <= k -> 0 <= a ->
  Z.lor a (2 ^ k - 1) = a - a mod 2 ^ k + (2 ^ k - 1).
Proof.
  intros Hk Ha.
  replace (2 ^ k - 1) with (Z.ones k) by (rewrite Z.ones_equiv; lia).
  rewrite <- land_lnot_ones by lia.
  assert (E : Z.lor a (Z.ones k) = Z.lor (Z.land a (Z.lnot (Z.ones k))) (Z.ones k)).
  { apply Z.bits_inj'. intros i Hi.
    rewrite !Z.lor_spec, Z.land_spec, Z.lnot_spec by lia.
    destruct (Z.testbit a i), (Z.testbit (Z.ones k) i); reflexivity. }
  rewrite E. apply (lor_disjoint_add _ _ k); try lia.
  - rewrite Z.ones_equiv. pose proof (pow2_pos k Hk). lia.
  - rewrite land_lnot_ones by lia. pose proof (pow2_pos k Hk).
    pose proof (Z.div_mod a (2 ^ k)).
    replace (a - a mod 2 ^ k) with ((a / 2 ^ k) * 2 ^ k) by lia.
    apply Z.mod_mul. lia.
Qed.

(* power-of-two recogniser: executable and with an explicit exponent *)
Lemma is_pow2_spec a : is_pow2 a = true <-> exists k, 0 <= k < 64 /\ a = 2 ^ k.
Proof.
  unfold is_pow2. rewrite existsb_exists. split.
  - intros [n [Hin Hn]]. apply in_seq in Hin. apply Z.eqb_eq in Hn.
    exists (Z.of_nat n). split; [lia|assumption].
  - intros [k [Hk ->]]. exists (Z.to_nat k). split.
    + apply in_seq. lia.
    + rewrite Z2Nat.id by lia. apply Z.eqb_refl.
Qed.

Lemma is_pow2_false a : is_pow2 a = false -> forall k, 0 <= k < 64 -> a <> 2 ^ k.
Proof.
  intros H k Hk E. assert (is_pow2 a = true) by (apply is_pow2_spec; eauto). congruence.
Qed.

Lemma pow2_le_W63 k : 0 <= k < 64 -> 2 ^ k <= W63.
Proof. intros. change W63 with (2 ^ 63). apply Z.pow_le_mono_r; lia. Qed.

Lemma pow2_lt_mono a b : 0 <= a < b -> 2 ^ a < 2 ^ b.
Proof. intros. apply Z.pow_lt_mono_r; lia. Qed.

(* ---------- bitwise not on u64 and the "merge" of typed register writes ---------- *)
Lemma testbit_u64_high a i : u64 a -> 64 <= i -> Z.testbit a i = false.
Proof. intros Ha Hi. apply (testbit_high_zero a 64); [exact Ha|lia]. Qed.

Lemma not64_lnot a : u64 a -> not64 a = Z.land (Z.lnot a) (Z.ones 64).
Proof.
  intros Ha. rewrite Z.land_ones by lia. unfold Z.lnot, not64, u64, W64 in *.
  change (2 ^ 64) with 18446744073709551616.
  replace (Z.pred (- a)) with ((18446744073709551615 - a) + (-1) * 18446744073709551616) by lia.
  rewrite Z.mod_add by lia. rewrite Z.mod_small by lia. lia.
Qed.

Lemma testbit_not64 a i : u64 a -> 0 <= i ->
  Z.testbit (not64 a) i = (i <? 64) && negb (Z.testbit a i).
Proof.
  intros Ha Hi. rewrite not64_lnot by assumption. rewrite Z.land_spec, Z.lnot_spec by lia.
  destruct (i <? 64) eqn:E.
  - rewrite Z.ones_spec_low by lia. rewrite andb_true_r. reflexivity.
  - rewrite Z.ones_spec_high by lia. rewrite andb_false_r. reflexivity.
Qed.

Lemma subset_bits f all i : Z.land f all = f -> Z.testbit f i = true -> Z.testbit all i = true.
Proof.
  intros H Hf. rewrite <- H, Z.land_spec in Hf. apply andb_true_iff in Hf. apply Hf.
Qed.

Definition merge (old all f : Z) : Z := Z.lor (Z.land old (not64 all)) f.

Lemma merge_modelled old all f : u64 all -> Z.land f all = f ->
  Z.land (merge old all f) all = f.
Proof.
  intros Hall Hsub. unfold merge. apply Z.bits_inj'. intros i Hi.
  rewrite Z.land_spec, Z.lor_spec, Z.land_spec, testbit_not64 by assumption.
  destruct (Z.testbit f i) eqn:Ef.
  - rewrite (subset_bits f all i Hsub Ef). rewrite orb_true_r. reflexivity.
  - rewrite orb_false_r. destruct (Z.testbit all i); cbn; rewrite ?andb_false_r; reflexivity.
Qed.

Lemma merge_unmodelled old all f : u64 all -> Z.land f all = f ->
  Z.land (merge old all f) (not64 all) = Z.land old (not64 all).
Proof.
  intros Hall Hsub. unfold merge. apply Z.bits_inj'. intros i Hi.
  rewrite !Z.land_spec, Z.lor_spec, Z.land_spec, testbit_not64 by assumption.
  destruct (Z.testbit f i) eqn:Ef.
  - rewrite (subset_bits f all i Hsub Ef). cbn. rewrite !andb_false_r. reflexivity.
  - rewrite orb_false_r. destruct (Z.testbit old i), (i <? 64), (Z.testbit all i); reflexivity.
Qed.

Lemma merge_u64 old all f : u64 old -> u64 all -> u64 f -> u64 (merge old all f).
Proof.
  intros Ho Ha Hf. unfold merge, u64 in *.
  assert (H0 : 0 <= Z.lor (Z.land old (not64 all)) f).
  { apply Z.lor_nonneg. split; [apply Z.land_nonneg; lia|lia]. }
  split; [exact H0|].
  destruct (Z.eq_dec (Z.lor (Z.land old (not64 all)) f) 0) as [->|Hne]; [unfold W64; lia|].
  apply Z.log2_lt_cancel. change (Z.log2 W64) with 64.
  assert (Hl : forall x, 0 <= x < W64 -> Z.log2 x < 64).
  { intros x Hx. destruct (Z.eq_dec x 0) as [->|]; [cbn; lia|]. apply Z.log2_lt_pow2; [lia|exact (proj2 Hx)]. }
  rewrite Z.log2_lor by (try apply Z.land_nonneg; lia).
  apply Z.max_lub_lt; [|apply Hl; lia].
  assert (Z.log2 (Z.land old (not64 all)) <= Z.log2 old); [|pose proof (Hl old Ho); lia].
  rewrite Z.log2_land by (unfold not64, W64 in *; lia). apply Z.le_min_l.
Qed.
