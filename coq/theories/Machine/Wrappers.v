(* The crate's register/instruction wrappers as glue + instructions, written as the Rust
   source is written (registers/*.rs, instructions/{interrupts,port,segmentation,tables,tlb}.rs),
   after the fix: commits F8 (flush_all) and F9 (ApicBase::write). *)
From X86 Require Export Machine.State Codec.Codec Paging.Entry.
Open Scope Z_scope.

Definition CR0_ALL : Z := 3758424127.            (* 0xE005_003F *)
Definition CR3_ALL : Z := 24.                    (* 0x18 *)
Definition CR4_ALL : Z := 33521663.              (* 0x01FF_7FFF *)
Definition EFER_ALL : Z := 64769.                (* 0xFD01 *)
Definition XCR0_ALL : Z := 4611686018427388671.  (* 0x4000_0000_0000_02FF *)
Definition RFLAGS_ALL : Z := 4161493.            (* 0x3F7FD5 *)
Definition MXCSR_ALL : Z := 65535.
Definition DR6_ALL : Z := 122895.                (* 0x1E00F *)
Definition CET_ALL : Z := 3135.                  (* 0xC3F *)
Definition APIC_ALL : Z := 3328.                 (* 0xD00 *)
Definition MSR_EFER := 3221225600.     Definition MSR_STAR := 3221225601.
Definition MSR_LSTAR := 3221225602.    Definition MSR_SFMASK := 3221225604.
Definition MSR_UCET := 1696.           Definition MSR_SCET := 1698.
Definition MSR_PAT := 631.             Definition MSR_APIC_BASE := 27.

(* the typed read / typed write / update scheme shared by Cr0, Cr4, Efer *)
Definition typed_read (rd : M Z) (all : Z) : M Z := let* v := rd in ret (Z.land v all).
Definition typed_write (rd : M Z) (wr : Z -> M unit) (all flags : Z) : M unit :=
  let* old := rd in
  let reserved := land_not old all in
  wr (Z.lor reserved flags).
(* update with the closure "toggle the flags `t`" (t: declared bits only) *)
Definition typed_update (rd : M Z) (wr : Z -> M unit) (all t : Z) : M unit :=
  let* f := typed_read rd all in typed_write rd wr all (Z.lxor f t).

Definition cr0_read_raw := i_mov_from_cr 0.  Definition cr0_write_raw := i_mov_to_cr 0.
Definition cr0_read := typed_read cr0_read_raw CR0_ALL.
Definition cr0_write := typed_write cr0_read_raw cr0_write_raw CR0_ALL.
Definition cr0_update := typed_update cr0_read_raw cr0_write_raw CR0_ALL.
Definition cr4_read_raw := i_mov_from_cr 4.  Definition cr4_write_raw := i_mov_to_cr 4.
Definition cr4_read := typed_read cr4_read_raw CR4_ALL.
Definition cr4_write := typed_write cr4_read_raw cr4_write_raw CR4_ALL.
Definition cr4_update := typed_update cr4_read_raw cr4_write_raw CR4_ALL.
Definition cr2_read_raw := i_mov_from_cr 2.
Definition cr2_read : M (option Z) := let* v := cr2_read_raw in ret (va_try_new v).

(* Cr3 *)
Definition cr3_read_raw : M (Z * Z) :=
  let* value := i_mov_from_cr 3 in
  let* addr := lift (pa_new (Z.land value ADDR_MASK)) in
  let* frame := lift (frame_containing S4K addr) in
  ret (frame, trunc16 (Z.land value 4095)).
Definition cr3_read : M (Z * Z) :=
  let* fv := cr3_read_raw in ret (fst fv, Z.land (snd fv) CR3_ALL).
Definition cr3_read_pcid : M (Z * Z) :=
  let* fv := cr3_read_raw in
  let* p := lift (unwrap (pcid_new (snd fv))) in ret (fst fv, p).
Definition cr3_write_raw_impl (top : bool) (frame val : Z) : M unit :=
  i_mov_to_cr 3 (Z.lor (Z.lor (shl64 (b2z top) 63) frame) val).
Definition cr3_write (frame flags : Z) := cr3_write_raw_impl false frame (trunc16 flags).
Definition cr3_write_pcid (frame pcid : Z) := cr3_write_raw_impl false frame pcid.
Definition cr3_write_pcid_no_flush (frame pcid : Z) := cr3_write_raw_impl true frame pcid.
Definition cr3_write_raw (frame val : Z) := cr3_write_raw_impl false frame val.
(* closures: set the frame to nf, toggle the flags t / set the pcid to np *)
Definition cr3_update (nf t : Z) : M unit :=
  let* ff := cr3_read in cr3_write nf (Z.lxor (snd ff) t).
Definition cr3_update_pcid (nf np : Z) : M unit :=
  let* _ := cr3_read_pcid in cr3_write_pcid nf np.
Definition cr3_update_pcid_no_flush (nf np : Z) : M unit :=
  let* _ := cr3_read_pcid in cr3_write_pcid_no_flush nf np.

(* debug registers *)
Definition drn_read (n : Z) := i_mov_from_dr n.
Definition drn_write (n v : Z) := i_mov_to_dr n v.
Definition dr6_read_raw := i_mov_from_dr 6.
Definition dr6_read := typed_read dr6_read_raw DR6_ALL.
Definition dr7_read_raw := i_mov_from_dr 7.
Definition dr7_write_raw := i_mov_to_dr 7.
Definition dr7_read : M Z := let* v := dr7_read_raw in ret (dr7_from_bits_truncate v).
Definition dr7_write (value : Z) : M unit :=
  let* old := dr7_read_raw in
  dr7_write_raw (Z.lor (land_not old DR7_VALID) value).
(* closure: set_condition n c; set_size n sz; toggle_flags t *)
Definition dr7_update (n c sz t : Z) : M unit :=
  let* v := dr7_read in
  let* v1 := lift (dr7_set_condition v n c) in
  let* v2 := lift (dr7_set_size v1 n sz) in
  dr7_write (dr7_toggle v2 t).

(* XCR0 *)
Definition contains (f g : Z) : bool := Z.land f g =? g.
Definition intersects (f g : Z) : bool := negb (Z.land f g =? 0).
Definition massert (b : bool) : M unit := if b then ret tt else mpanic.
Definition xcr0_read_raw := i_xgetbv.
Definition xcr0_read := typed_read xcr0_read_raw XCR0_ALL.
Definition xcr0_write_raw (v : Z) := i_xsetbv 0 v.
Definition xcr0_write (flags : Z) : M unit :=
  let* old := xcr0_read_raw in
  let new_value := Z.lor (land_not old XCR0_ALL) flags in
  let* _ := massert (contains flags 1) in
  let* _ := (if contains flags 4 then massert (contains flags 2) else ret tt) in
  let mpx := 24 in
  let* _ := (if intersects flags mpx then massert (contains flags mpx) else ret tt) in
  let avx512 := 224 in
  let* _ := (if intersects flags avx512 then
               let* _ := massert (contains flags 4) in massert (contains flags avx512)
             else ret tt) in
  xcr0_write_raw new_value.
Definition xcr0_update (t : Z) : M unit :=
  let* f := xcr0_read in xcr0_write (Z.lxor f t).

(* MSRs *)
Definition msr_read (n : Z) : M Z := i_rdmsr n.       (* (high << 32) | low = the value *)
Definition msr_write (n v : Z) : M unit := i_wrmsr n v.
Definition efer_read_raw := msr_read MSR_EFER.   Definition efer_write_raw := msr_write MSR_EFER.
Definition efer_read := typed_read efer_read_raw EFER_ALL.
Definition efer_write := typed_write efer_read_raw efer_write_raw EFER_ALL.
Definition efer_update := typed_update efer_read_raw efer_write_raw EFER_ALL.
Definition vaddr_msr_read (n : Z) : M Z := let* v := msr_read n in lift (va_new v).
Definition vaddr_msr_write (n a : Z) : M unit := msr_write n a.

Definition star_read_raw : M (Z * Z) :=
  let* v := msr_read MSR_STAR in ret (get_bits v 48 64, get_bits v 32 48).
Definition star_read (oc : bool) : M (list Z) :=
  let* r := star_read_raw in
  let* a := lift (add16 oc (fst r) 16) in
  let* b := lift (add16 oc (fst r) 8) in
  let* d := lift (add16 oc (snd r) 8) in
  ret [a; b; snd r; d].
Definition star_write_raw (sysret syscall : Z) : M unit :=
  let* v1 := lift (set_bits 0 48 64 sysret) in
  let* v2 := lift (set_bits v1 32 48 syscall) in
  msr_write MSR_STAR v2.
(* result: 0 Ok, 1 SysretOffset, 2 SyscallOffset, 3 SysretPrivilegeLevel, 4 SyscallPrivilegeLevel *)
Definition star_write (oc : bool) (cs_sysret ss_sysret cs_syscall ss_syscall : Z) : M Z :=
  if negb (cs_sysret - 16 =? ss_sysret - 8) then ret 1
  else if negb (cs_syscall =? ss_syscall - 8) then ret 2
  else
    let* r3 := lift (sel_rpl ss_sysret) in
    if negb (r3 =? 3) then ret 3 else
    let* r0 := lift (sel_rpl ss_syscall) in
    if negb (r0 =? 0) then ret 4 else
    let* base := lift (sub16 oc ss_sysret 8) in
    let* _ := star_write_raw base cs_syscall in ret 0.

Definition from_bits_unwrap (all v : Z) : M Z :=
  if land_not v all =? 0 then ret v else mpanic.
Definition sfmask_read : M Z := let* v := msr_read MSR_SFMASK in from_bits_unwrap RFLAGS_ALL v.
Definition sfmask_write (v : Z) : M unit := msr_write MSR_SFMASK v.
Definition sfmask_update (t : Z) : M unit := let* f := sfmask_read in sfmask_write (Z.lxor f t).

Definition unwrap_ro (r : res (option Z)) : res Z :=
  match r with Ok (Some v) => Ok v | _ => Panic end.
Definition cet_read (n : Z) : M (Z * Z) :=
  let* value := msr_read n in
  let* a := lift (va_new (land_not value 4095)) in
  let* p := lift (unwrap_ro (page_from_start S4K a)) in
  ret (Z.land value CET_ALL, p).
Definition cet_write (n flags page : Z) : M unit := msr_write n (Z.lor flags page).
(* closure: toggle the flags t, set the page to np *)
Definition cet_update (n t np : Z) : M unit :=
  let* fp := cet_read n in cet_write n (Z.lxor (fst fp) t) np.

(* PAT: eight bytes, little endian *)
Definition byte_at (v i : Z) : Z := (Z.shiftr v (8 * i)) mod 256.
Fixpoint pat_decode (v : Z) (i : nat) (k : nat) : res (list Z) :=
  match k with
  | O => Ok []
  | S k' =>
      match pat_from_bits (byte_at v (Z.of_nat i)) with
      | Some t => rmap (cons t) (pat_decode v (S i) k')
      | None => Panic
      end
  end.
Definition pat_read : M (list Z) := let* v := msr_read MSR_PAT in lift (pat_decode v 0 8).
Fixpoint pat_encode (l : list Z) (i : Z) : Z :=
  match l with [] => 0 | t :: l' => t * 2 ^ (8 * i) + pat_encode l' (i + 1) end.
Definition pat_write (table : list Z) : M unit := msr_write MSR_PAT (pat_encode table 0).

(* APIC base (after fix F9) *)
Definition apic_read_raw : M (Z * Z) :=
  let* raw := msr_read MSR_APIC_BASE in
  let* frame := lift (frame_containing S4K (pa_new_truncate raw)) in
  ret (frame, raw).
Definition apic_read : M (Z * Z) :=
  let* fr := apic_read_raw in ret (fst fr, Z.land (snd fr) APIC_ALL).
Definition apic_write_raw (frame flags : Z) : M unit := msr_write MSR_APIC_BASE (Z.lor flags frame).
Definition apic_write (frame flags : Z) : M unit :=
  let* fr := apic_read_raw in
  let reserved := land_not (snd fr) (Z.lor APIC_ALL ADDR_MASK) in
  apic_write_raw frame (Z.lor reserved flags).

(* segments *)
Definition seg_get_reg (n : Z) : M Z := i_mov_from_sreg n.
Definition seg_set_reg (n sel : Z) : M unit :=
  if n =? 1 then i_retfq sel        (* CS: push sel; lea; push; retfq *)
  else i_mov_to_sreg n sel.
Definition gs_swap : M unit := i_swapgs.
Definition load_tss (sel : Z) : M unit := i_ltr sel.
(* rd/wr gs base execute natively in the harness; modelled as a plain cell *)
Definition gs_write_base (v : Z) : M unit := fun s => Ok (tt, set_gsbase v s).
Definition gs_read_base : M Z := fun s => Ok (gsbase s, s).

(* rflags / mxcsr *)
Definition rflags_if_bit : M bool := i_pushfq_if.
Definition mxcsr_read : M Z := fun s => Ok (Z.land (mxcsr s) MXCSR_ALL, s).
Definition mxcsr_write (v : Z) : M unit := fun s => Ok (tt, set_mxcsr v s).
Definition mxcsr_update (t : Z) : M unit := let* f := mxcsr_read in mxcsr_write (Z.lxor f t).

(* ---------- interrupts (C17) ---------- *)
Definition are_enabled : M bool := rflags_if_bit.
Definition int_enable : M unit := i_sti.
Definition int_disable : M unit := i_cli.
Definition without_interrupts {R} (f : M R) : M R :=
  let* saved := are_enabled in
  let* _ := (if saved then int_disable else ret tt) in
  let* r := f in
  let* _ := (if saved then int_enable else ret tt) in
  ret r.
Definition enable_and_hlt : M unit := let* _ := i_sti in i_hlt true.   (* one asm block "sti; hlt" *)
Definition hlt : M unit := i_hlt false.

(* ---------- ports (C18) ---------- *)
Definition port_read (w port : Z) : M Z := i_in w port.
Definition port_write (w port v : Z) : M unit := i_out w port v.

(* ---------- TLB (C11) ---------- *)
Definition tlb_flush (a : Z) : M unit := i_invlpg a.
Definition tlb_flush_all : M unit :=
  let* fv := cr3_read_raw in cr3_write_raw (fst fv) (snd fv).
(* command: 0 Address(addr, pcid), 1 Single(pcid), 2 All, 3 AllExceptGlobal;
   descriptor {pcid : u64; address : u64} *)
Definition flush_pcid (kind addr pcid : Z) : M unit :=
  if kind =? 0 then i_invpcid 0 pcid addr
  else if kind =? 1 then i_invpcid 1 pcid 0
  else if kind =? 2 then i_invpcid 2 0 0
  else i_invpcid 3 0 0.

(* INVLPGB builder *)
Record invlpgb := { count_max : Z; nested_ok : bool; nasid : Z }.
Record builder := {
  b_range : option (Z * Z * Z);      (* start page, end page, size *)
  b_pcid : option Z; b_asid : option Z;
  b_global : bool; b_final : bool; b_nested : bool }.
Definition set_bit64 (x i : Z) (b : bool) : Z :=
  if b then Z.lor x (2 ^ i) else land_not x (2 ^ i).
Definition flush_broadcast (va_count : option (Z * Z * Z)) (b : builder) : M unit :=
  let '(rax, ecx) :=
    match va_count with
    | Some (va, count, sz) =>
        let rax := set_bit64 0 0 true in
        let rax := match set_bits rax 12 64 (get_bits va 12 64) with Ok v => v | Panic => rax end in
        let ecx := match set_bits 0 0 16 count with Ok v => v | Panic => 0 end in
        (rax, set_bit64 ecx 31 (sz =? S2M))
    | None => (0, 0)
    end in
  let '(rax, edx) :=
    match b_pcid b with
    | Some p => (set_bit64 rax 1 true, match set_bits 0 16 28 p with Ok v => v | Panic => 0 end)
    | None => (rax, 0)
    end in
  let '(rax, edx) :=
    match b_asid b with
    | Some a => (set_bit64 rax 2 true, match set_bits edx 0 16 a with Ok v => v | Panic => edx end)
    | None => (rax, edx)
    end in
  let rax := set_bit64 rax 3 (b_global b) in
  let rax := set_bit64 rax 4 (b_final b) in
  let rax := set_bit64 rax 5 (b_nested b) in
  i_invlpgb rax ecx edx.

Definition u16_try_from_or_max (c : Z) : Z := if c <? 65536 then c else 65535.
(* the chunking loop of InvlpgbFlushBuilder::flush; `fuel` bounds the iterations, running
   out of fuel is the distinct outcome None *)
Fixpoint flush_loop (fuel : nat) (inv : invlpgb) (b : builder) (start e sz : Z)
  : M (option unit) :=
  match fuel with
  | O => ret None
  | S fuel' =>
      if pr_is_empty (start, e) then ret (Some tt) else
      let count := fst (page_steps_between sz start e) in
      let* second_half := lift (page_containing sz 18446603336221196288) in
      let count :=
        if start <? second_half then Z.min count (fst (page_steps_between sz start second_half))
        else count in
      let count := u16_try_from_or_max count in
      let count := Z.min count (count_max inv) in
      let* _ := flush_broadcast (Some (start, count, sz)) b in
      let inc := Z.max count 1 in
      let* nx := lift (page_forward_checked sz start inc) in
      let* nx := lift (unwrap nx) in
      flush_loop fuel' inv b nx e sz
  end.
Definition builder_flush (fuel : nat) (inv : invlpgb) (b : builder) : M (option unit) :=
  match b_range b with
  | Some (s, e, sz) => flush_loop fuel inv b s e sz
  | None => let* _ := flush_broadcast None b in ret (Some tt)
  end.
Definition builder_asid (inv : invlpgb) (asid : Z) : bool := asid <? nasid inv.  (* accepted? *)
Definition builder_nested (inv : invlpgb) : res unit := if nested_ok inv then Ok tt else Panic.

(* descriptor-table loads *)
Definition lgdt_of (limit base : Z) : M unit := i_lgdt limit base.
Definition lidt_of (limit base : Z) : M unit := i_lidt limit base.
