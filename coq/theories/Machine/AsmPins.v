(* What the wrapper models assume about the asm! blocks, checked against the table that
   tools/asm_extract.py regenerates from /repo on every run. *)
Require Import String List Bool.
From X86 Require Import Gen.AsmTable_gen.
Import ListNotations.
Open Scope string_scope.

Fixpoint list_eqb (a b : list string) : bool :=
  match a, b with
  | [], [] => true
  | x :: a', y :: b' => String.eqb x y && list_eqb a' b'
  | _, _ => false
  end.
Definition has_opt (o : string) (opts : list string) : bool := existsb (String.eqb o) opts.

(* an asm! block at `loc` with exactly these templates and operands *)
Definition has_asm (loc : string) (tpl ops : list string) : bool :=
  existsb (fun e => match e with (l, t, o, _) => String.eqb l loc && list_eqb t tpl && list_eqb o ops end)
          asm_table.
(* ... additionally carrying / not carrying an option *)
Definition has_asm_opt (loc : string) (tpl : list string) (opt : string) (present : bool) : bool :=
  existsb (fun e => match e with (l, t, _, os) =>
                      String.eqb l loc && list_eqb t tpl && Bool.eqb (has_opt opt os) present end)
          asm_table.
(* number of asm! blocks whose location starts with a file prefix *)
Definition count_file (file : string) : nat :=
  length (filter (fun e => match e with (l, _, _, _) => String.prefix file l end) asm_table).

(* no asm! block of the crate may be `pure`: every one of them reads or changes machine state that
   can differ between two executions with the same operands (a `pure` block may be merged with
   an identical one, hoisted out of a loop or dropped when its result is unused) *)
Definition asm_no_pure : bool :=
  forallb (fun e => match e with (_, _, _, os) => negb (has_opt "pure" os) end) asm_table.
(* the exact option list of a block *)
Definition has_asm_opts (loc : string) (tpl opts : list string) : bool :=
  existsb (fun e => match e with (l, t, _, os) => String.eqb l loc && list_eqb t tpl && list_eqb os opts end)
          asm_table.

Definition pins_C17 : bool :=
  has_asm "instructions/interrupts.rs::enable" ["sti"] [] &&
  has_asm "instructions/interrupts.rs::disable" ["cli"] [] &&
  (* one block, the two instructions back to back *)
  has_asm "instructions/interrupts.rs::enable_and_hlt" ["sti; hlt"] [] &&
  (* enable/disable are compiler barriers: no nomem *)
  has_asm_opt "instructions/interrupts.rs::enable" ["sti"] "nomem" false &&
  has_asm_opt "instructions/interrupts.rs::disable" ["cli"] "nomem" false &&
  has_asm "registers/rflags.rs::read_raw" ["pushfq; pop {}"] ["out(reg) _"].

Definition pins_C18 : bool :=
  has_asm_opts "instructions/port.rs::read_from_port" ["in al, dx"] ["nomem"; "nostack"; "preserves_flags"] &&
  has_asm_opts "instructions/port.rs::read_from_port" ["in ax, dx"] ["nomem"; "nostack"; "preserves_flags"] &&
  has_asm_opts "instructions/port.rs::read_from_port" ["in eax, dx"] ["nomem"; "nostack"; "preserves_flags"] &&
  has_asm_opts "instructions/port.rs::write_to_port" ["out dx, al"] ["nomem"; "nostack"; "preserves_flags"] &&
  has_asm_opts "instructions/port.rs::write_to_port" ["out dx, ax"] ["nomem"; "nostack"; "preserves_flags"] &&
  has_asm_opts "instructions/port.rs::write_to_port" ["out dx, eax"] ["nomem"; "nostack"; "preserves_flags"] &&
  has_asm "instructions/port.rs::read_from_port" ["in al, dx"] ["out(""al"") _"; "in(""dx"") _"] &&
  has_asm "instructions/port.rs::read_from_port" ["in ax, dx"] ["out(""ax"") _"; "in(""dx"") _"] &&
  has_asm "instructions/port.rs::read_from_port" ["in eax, dx"] ["out(""eax"") _"; "in(""dx"") _"] &&
  has_asm "instructions/port.rs::write_to_port" ["out dx, al"] ["in(""dx"") _"; "in(""al"") _"] &&
  has_asm "instructions/port.rs::write_to_port" ["out dx, ax"] ["in(""dx"") _"; "in(""ax"") _"] &&
  has_asm "instructions/port.rs::write_to_port" ["out dx, eax"] ["in(""dx"") _"; "in(""eax"") _"] &&
  (* without touching memory *)
  has_asm_opt "instructions/port.rs::read_from_port" ["in al, dx"] "nomem" true &&
  has_asm_opt "instructions/port.rs::read_from_port" ["in ax, dx"] "nomem" true &&
  has_asm_opt "instructions/port.rs::read_from_port" ["in eax, dx"] "nomem" true &&
  has_asm_opt "instructions/port.rs::write_to_port" ["out dx, al"] "nomem" true &&
  has_asm_opt "instructions/port.rs::write_to_port" ["out dx, ax"] "nomem" true &&
  has_asm_opt "instructions/port.rs::write_to_port" ["out dx, eax"] "nomem" true.

Definition pins_C11 : bool :=
  has_asm "instructions/tlb.rs::flush" ["invlpg [{}]"] ["in(reg) addr.as_u64()"] &&
  has_asm "instructions/tlb.rs::flush_pcid" ["invpcid {0}, [{1}]"] ["in(reg) _"; "in(reg) &desc"] &&
  has_asm "instructions/tlb.rs::tlbsync" ["tlbsync"] [] &&
  has_asm "instructions/tlb.rs::flush_broadcast" ["invlpgb"]
          ["in(""rax"") _"; "in(""ecx"") _"; "in(""edx"") _"] &&
  has_asm "registers/control.rs::read_raw" ["mov {}, cr3"] ["out(reg) _"] &&
  has_asm "registers/control.rs::write_raw_impl" ["mov cr3, {}"] ["in(reg) _"].

Definition pins_C16 : bool :=
  has_asm "registers/control.rs::read_raw" ["mov {}, cr0"] ["out(reg) _"] &&
  has_asm "registers/control.rs::write_raw" ["mov cr0, {}"] ["in(reg) _"] &&
  has_asm "registers/control.rs::read_raw" ["mov {}, cr2"] ["out(reg) _"] &&
  has_asm "registers/control.rs::read_raw" ["mov {}, cr3"] ["out(reg) _"] &&
  has_asm "registers/control.rs::write_raw_impl" ["mov cr3, {}"] ["in(reg) _"] &&
  has_asm "registers/control.rs::read_raw" ["mov {}, cr4"] ["out(reg) _"] &&
  has_asm "registers/control.rs::write_raw" ["mov cr4, {}"] ["in(reg) _"] &&
  has_asm "registers/debug.rs::read_raw" ["mov {}, dr6"] ["out(reg) _"] &&
  has_asm "registers/debug.rs::read_raw" ["mov {}, dr7"] ["out(reg) _"] &&
  has_asm "registers/debug.rs::write_raw" ["mov dr7, {}"] ["in(reg) _"] &&
  has_asm "registers/debug.rs::read[debug_address_register!(Dr0, ""dr0"")]" ["mov {}, dr0"] ["out(reg) _"] &&
  has_asm "registers/debug.rs::write[debug_address_register!(Dr0, ""dr0"")]" ["mov dr0, {}"] ["in(reg) _"] &&
  has_asm "registers/debug.rs::read[debug_address_register!(Dr1, ""dr1"")]" ["mov {}, dr1"] ["out(reg) _"] &&
  has_asm "registers/debug.rs::write[debug_address_register!(Dr1, ""dr1"")]" ["mov dr1, {}"] ["in(reg) _"] &&
  has_asm "registers/debug.rs::read[debug_address_register!(Dr2, ""dr2"")]" ["mov {}, dr2"] ["out(reg) _"] &&
  has_asm "registers/debug.rs::write[debug_address_register!(Dr2, ""dr2"")]" ["mov dr2, {}"] ["in(reg) _"] &&
  has_asm "registers/debug.rs::read[debug_address_register!(Dr3, ""dr3"")]" ["mov {}, dr3"] ["out(reg) _"] &&
  has_asm "registers/debug.rs::write[debug_address_register!(Dr3, ""dr3"")]" ["mov dr3, {}"] ["in(reg) _"] &&
  (* index in ECX, value in EDX:EAX *)
  has_asm "registers/model_specific.rs::read" ["rdmsr"]
          ["in(""ecx"") self.0"; "out(""eax"") _"; "out(""edx"") _"] &&
  has_asm "registers/model_specific.rs::write" ["wrmsr"]
          ["in(""ecx"") self.0"; "in(""eax"") _"; "in(""edx"") _"] &&
  has_asm "registers/xcontrol.rs::read_raw" ["xgetbv"]
          ["in(""ecx"") 0"; "out(""rax"") _"; "out(""rdx"") _"] &&
  has_asm "registers/xcontrol.rs::write_raw" ["xsetbv"]
          ["in(""ecx"") 0"; "in(""rax"") _"; "in(""rdx"") _"] &&
  has_asm "instructions/segmentation.rs::set_reg"
          ["push {sel}"; "lea {tmp}, [55f + rip]"; "push {tmp}"; "retfq"; "55:"]
          ["sel = in(reg) u64::from(sel.0)"; "tmp = lateout(reg) _"] &&
  has_asm "instructions/segmentation.rs::get_reg[get_reg_impl!(""cs"")]" ["mov {0:x}, cs"] ["out(reg) _"] &&
  has_asm "instructions/segmentation.rs::set_reg[segment_impl!(SS, ""ss"")]" ["mov ss, {0:x}"] ["in(reg) sel.0"] &&
  has_asm "instructions/segmentation.rs::get_reg[segment_impl!(SS, ""ss"")][get_reg_impl!(""ss"")]" ["mov {0:x}, ss"] ["out(reg) _"] &&
  has_asm "instructions/segmentation.rs::set_reg[segment_impl!(DS, ""ds"")]" ["mov ds, {0:x}"] ["in(reg) sel.0"] &&
  has_asm "instructions/segmentation.rs::get_reg[segment_impl!(DS, ""ds"")][get_reg_impl!(""ds"")]" ["mov {0:x}, ds"] ["out(reg) _"] &&
  has_asm "instructions/segmentation.rs::set_reg[segment_impl!(ES, ""es"")]" ["mov es, {0:x}"] ["in(reg) sel.0"] &&
  has_asm "instructions/segmentation.rs::get_reg[segment_impl!(ES, ""es"")][get_reg_impl!(""es"")]" ["mov {0:x}, es"] ["out(reg) _"] &&
  has_asm "instructions/segmentation.rs::set_reg[segment_impl!(FS, ""fs"")]" ["mov fs, {0:x}"] ["in(reg) sel.0"] &&
  has_asm "instructions/segmentation.rs::get_reg[segment_impl!(FS, ""fs"")][get_reg_impl!(""fs"")]" ["mov {0:x}, fs"] ["out(reg) _"] &&
  has_asm "instructions/segmentation.rs::set_reg[segment_impl!(GS, ""gs"")]" ["mov gs, {0:x}"] ["in(reg) sel.0"] &&
  has_asm "instructions/segmentation.rs::get_reg[segment_impl!(GS, ""gs"")][get_reg_impl!(""gs"")]" ["mov {0:x}, gs"] ["out(reg) _"] &&
  has_asm "instructions/segmentation.rs::read_base[segment64_impl!(FS, ""fs"", FsBase)]" ["rdfsbase {}"] ["out(reg) _"] &&
  has_asm "instructions/segmentation.rs::write_base[segment64_impl!(FS, ""fs"", FsBase)]" ["wrfsbase {}"] ["in(reg) base.as_u64()"] &&
  has_asm "instructions/segmentation.rs::read_base[segment64_impl!(GS, ""gs"", GsBase)]" ["rdgsbase {}"] ["out(reg) _"] &&
  has_asm "instructions/segmentation.rs::write_base[segment64_impl!(GS, ""gs"", GsBase)]" ["wrgsbase {}"] ["in(reg) base.as_u64()"] &&
  has_asm "instructions/segmentation.rs::swap" ["swapgs"] [] &&
  has_asm "instructions/tables.rs::load_tss" ["ltr {0:x}"] ["in(reg) sel.0"] &&
  has_asm "instructions/tables.rs::lgdt" ["lgdt [{}]"] ["in(reg) _"] &&
  has_asm "instructions/tables.rs::lidt" ["lidt [{}]"] ["in(reg) _"].

Definition pins_C13 : bool :=
  existsb (fun e => match e with (l, t, _, _) =>
     String.eqb l "structures/idt.rs::iretq" &&
     list_eqb t ["push {stack_segment:r}"; "push {new_stack_pointer}"; "push {rflags}";
                 "push {code_segment:r}"; "push {new_instruction_pointer}"; "iretq"] end) asm_table.


(* ---------- exact pins: every asm! block in the domain of a property, with its template,
   operand bindings AND its complete option list, as vetted when the model was written.  Any
   edit to one of these blocks (an added `nomem`, `pure`, `nostack`, `readonly`, a changed
   operand) changes the regenerated table and breaks the theorem of that property. ---------- *)
Definition entry := (string * list string * list string * list string)%type.
Definition entry_eqb (a b : entry) : bool :=
  match a, b with (l1, t1, o1, p1), (l2, t2, o2, p2) =>
    String.eqb l1 l2 && list_eqb t1 t2 && list_eqb o1 o2 && list_eqb p1 p2 end.
Fixpoint entries_eqb (a b : list entry) : bool :=
  match a, b with
  | [], [] => true
  | x :: a', y :: b' => entry_eqb x y && entries_eqb a' b'
  | _, _ => false
  end.
Definition in_domain (dom : list entry) (e : entry) : bool :=
  match e with (l, t, _, _) =>
    existsb (fun d => match d with (l', t', _, _) => String.eqb l l' && list_eqb t t' end) dom end.
(* the blocks of the source that belong to the domain (same location and template), in source
   order, must be exactly the expected entries *)
(* ... as a set: the order of the blocks in the source (e.g. of macro invocations) is immaterial *)
Definition exact_pins (expected : list entry) : bool :=
  let blocks := filter (in_domain expected) asm_table in
  Nat.eqb (length blocks) (length expected) &&
  forallb (fun e => existsb (entry_eqb e) blocks) expected &&
  forallb (fun b => existsb (entry_eqb b) expected) blocks.
(* the rules below, for the whole crate (informational; each property pins them on its own blocks) *)
(* rules that hold for every block of the crate:
   no `pure`; a template that pushes or pops may not be `nostack`; a template with a memory
   operand ("[{") may not be `nomem` *)
Fixpoint has_sub (sub s : string) : bool :=
  match s with
  | EmptyString => String.prefix sub s
  | String _ rest => String.prefix sub s || has_sub sub rest
  end.
Definition tpl_has (sub : string) (tpl : list string) : bool := existsb (has_sub sub) tpl.
Definition asm_rules (blocks : list entry) : bool :=
  forallb (fun e : entry => match e with (_, t, _, os) =>
    negb (has_opt "pure" os) &&
    (negb (tpl_has "push" t || tpl_has "pop" t) || negb (has_opt "nostack" os)) &&
    (negb (tpl_has "[{" t) || negb (has_opt "nomem" os)) end) blocks.

Definition expected_C17 : list entry := [
  ("instructions/interrupts.rs::enable", ["sti"], [], ["nostack"; "preserves_flags"]);
  ("instructions/interrupts.rs::disable", ["cli"], [], ["nostack"; "preserves_flags"]);
  ("instructions/interrupts.rs::enable_and_hlt", ["sti; hlt"], [], ["nomem"; "nostack"]);
  ("registers/rflags.rs::read_raw", ["pushfq; pop {}"], ["out(reg) _"], ["nomem"; "preserves_flags"])
].
Definition expected_C18 : list entry := [
  ("instructions/port.rs::read_from_port", ["in al, dx"], ["out(""al"") _"; "in(""dx"") _"], ["nomem"; "nostack"; "preserves_flags"]);
  ("instructions/port.rs::read_from_port", ["in ax, dx"], ["out(""ax"") _"; "in(""dx"") _"], ["nomem"; "nostack"; "preserves_flags"]);
  ("instructions/port.rs::read_from_port", ["in eax, dx"], ["out(""eax"") _"; "in(""dx"") _"], ["nomem"; "nostack"; "preserves_flags"]);
  ("instructions/port.rs::write_to_port", ["out dx, al"], ["in(""dx"") _"; "in(""al"") _"], ["nomem"; "nostack"; "preserves_flags"]);
  ("instructions/port.rs::write_to_port", ["out dx, ax"], ["in(""dx"") _"; "in(""ax"") _"], ["nomem"; "nostack"; "preserves_flags"]);
  ("instructions/port.rs::write_to_port", ["out dx, eax"], ["in(""dx"") _"; "in(""eax"") _"], ["nomem"; "nostack"; "preserves_flags"])
].
Definition expected_C11 : list entry := [
  ("instructions/tlb.rs::flush", ["invlpg [{}]"], ["in(reg) addr.as_u64()"], ["nostack"; "preserves_flags"]);
  ("instructions/tlb.rs::flush_pcid", ["invpcid {0}, [{1}]"], ["in(reg) _"; "in(reg) &desc"], ["nostack"; "preserves_flags"]);
  ("instructions/tlb.rs::tlbsync", ["tlbsync"], [], ["nomem"; "preserves_flags"]);
  ("instructions/tlb.rs::flush_broadcast", ["invlpgb"], ["in(""rax"") _"; "in(""ecx"") _"; "in(""edx"") _"], ["nostack"; "preserves_flags"]);
  ("registers/control.rs::read_raw", ["mov {}, cr3"], ["out(reg) _"], ["nomem"; "nostack"; "preserves_flags"]);
  ("registers/control.rs::write_raw_impl", ["mov cr3, {}"], ["in(reg) _"], ["nostack"; "preserves_flags"])
].
Definition expected_C16 : list entry := [
  ("instructions/segmentation.rs::set_reg", ["push {sel}"; "lea {tmp}, [55f + rip]"; "push {tmp}"; "retfq"; "55:"], ["sel = in(reg) u64::from(sel.0)"; "tmp = lateout(reg) _"], ["preserves_flags"]);
  ("instructions/segmentation.rs::swap", ["swapgs"], [], ["nostack"; "preserves_flags"]);
  ("instructions/segmentation.rs::get_reg[get_reg_impl!(""cs"")]", ["mov {0:x}, cs"], ["out(reg) _"], ["nomem"; "nostack"; "preserves_flags"]);
  ("instructions/segmentation.rs::set_reg[segment_impl!(SS, ""ss"")]", ["mov ss, {0:x}"], ["in(reg) sel.0"], ["nostack"; "preserves_flags"]);
  ("instructions/segmentation.rs::get_reg[segment_impl!(SS, ""ss"")][get_reg_impl!(""ss"")]", ["mov {0:x}, ss"], ["out(reg) _"], ["nomem"; "nostack"; "preserves_flags"]);
  ("instructions/segmentation.rs::set_reg[segment_impl!(DS, ""ds"")]", ["mov ds, {0:x}"], ["in(reg) sel.0"], ["nostack"; "preserves_flags"]);
  ("instructions/segmentation.rs::get_reg[segment_impl!(DS, ""ds"")][get_reg_impl!(""ds"")]", ["mov {0:x}, ds"], ["out(reg) _"], ["nomem"; "nostack"; "preserves_flags"]);
  ("instructions/segmentation.rs::set_reg[segment_impl!(ES, ""es"")]", ["mov es, {0:x}"], ["in(reg) sel.0"], ["nostack"; "preserves_flags"]);
  ("instructions/segmentation.rs::get_reg[segment_impl!(ES, ""es"")][get_reg_impl!(""es"")]", ["mov {0:x}, es"], ["out(reg) _"], ["nomem"; "nostack"; "preserves_flags"]);
  ("instructions/segmentation.rs::set_reg[segment_impl!(FS, ""fs"")]", ["mov fs, {0:x}"], ["in(reg) sel.0"], ["nostack"; "preserves_flags"]);
  ("instructions/segmentation.rs::get_reg[segment_impl!(FS, ""fs"")][get_reg_impl!(""fs"")]", ["mov {0:x}, fs"], ["out(reg) _"], ["nomem"; "nostack"; "preserves_flags"]);
  ("instructions/segmentation.rs::set_reg[segment_impl!(GS, ""gs"")]", ["mov gs, {0:x}"], ["in(reg) sel.0"], ["nostack"; "preserves_flags"]);
  ("instructions/segmentation.rs::get_reg[segment_impl!(GS, ""gs"")][get_reg_impl!(""gs"")]", ["mov {0:x}, gs"], ["out(reg) _"], ["nomem"; "nostack"; "preserves_flags"]);
  ("instructions/segmentation.rs::read_base[segment64_impl!(FS, ""fs"", FsBase)]", ["rdfsbase {}"], ["out(reg) _"], ["nomem"; "nostack"; "preserves_flags"]);
  ("instructions/segmentation.rs::write_base[segment64_impl!(FS, ""fs"", FsBase)]", ["wrfsbase {}"], ["in(reg) base.as_u64()"], ["nostack"; "preserves_flags"]);
  ("instructions/segmentation.rs::read_base[segment64_impl!(GS, ""gs"", GsBase)]", ["rdgsbase {}"], ["out(reg) _"], ["nomem"; "nostack"; "preserves_flags"]);
  ("instructions/segmentation.rs::write_base[segment64_impl!(GS, ""gs"", GsBase)]", ["wrgsbase {}"], ["in(reg) base.as_u64()"], ["nostack"; "preserves_flags"]);
  ("instructions/tables.rs::lgdt", ["lgdt [{}]"], ["in(reg) _"], ["nostack"; "preserves_flags"; "readonly"]);
  ("instructions/tables.rs::lidt", ["lidt [{}]"], ["in(reg) _"], ["nostack"; "preserves_flags"; "readonly"]);
  ("instructions/tables.rs::load_tss", ["ltr {0:x}"], ["in(reg) sel.0"], ["nostack"; "preserves_flags"]);
  ("registers/control.rs::read_raw", ["mov {}, cr0"], ["out(reg) _"], ["nomem"; "nostack"; "preserves_flags"]);
  ("registers/control.rs::write_raw", ["mov cr0, {}"], ["in(reg) _"], ["nostack"; "preserves_flags"]);
  ("registers/control.rs::read_raw", ["mov {}, cr2"], ["out(reg) _"], ["nomem"; "nostack"; "preserves_flags"]);
  ("registers/control.rs::read_raw", ["mov {}, cr3"], ["out(reg) _"], ["nomem"; "nostack"; "preserves_flags"]);
  ("registers/control.rs::write_raw_impl", ["mov cr3, {}"], ["in(reg) _"], ["nostack"; "preserves_flags"]);
  ("registers/control.rs::read_raw", ["mov {}, cr4"], ["out(reg) _"], ["nomem"; "nostack"; "preserves_flags"]);
  ("registers/control.rs::write_raw", ["mov cr4, {}"], ["in(reg) _"], ["nostack"; "preserves_flags"]);
  ("registers/debug.rs::read_raw", ["mov {}, dr6"], ["out(reg) _"], ["nomem"; "nostack"; "preserves_flags"]);
  ("registers/debug.rs::read_raw", ["mov {}, dr7"], ["out(reg) _"], ["nomem"; "nostack"; "preserves_flags"]);
  ("registers/debug.rs::write_raw", ["mov dr7, {}"], ["in(reg) _"], ["nomem"; "nostack"; "preserves_flags"]);
  ("registers/debug.rs::read[debug_address_register!(Dr0, ""dr0"")]", ["mov {}, dr0"], ["out(reg) _"], ["nomem"; "nostack"; "preserves_flags"]);
  ("registers/debug.rs::write[debug_address_register!(Dr0, ""dr0"")]", ["mov dr0, {}"], ["in(reg) _"], ["nomem"; "nostack"; "preserves_flags"]);
  ("registers/debug.rs::read[debug_address_register!(Dr1, ""dr1"")]", ["mov {}, dr1"], ["out(reg) _"], ["nomem"; "nostack"; "preserves_flags"]);
  ("registers/debug.rs::write[debug_address_register!(Dr1, ""dr1"")]", ["mov dr1, {}"], ["in(reg) _"], ["nomem"; "nostack"; "preserves_flags"]);
  ("registers/debug.rs::read[debug_address_register!(Dr2, ""dr2"")]", ["mov {}, dr2"], ["out(reg) _"], ["nomem"; "nostack"; "preserves_flags"]);
  ("registers/debug.rs::write[debug_address_register!(Dr2, ""dr2"")]", ["mov dr2, {}"], ["in(reg) _"], ["nomem"; "nostack"; "preserves_flags"]);
  ("registers/debug.rs::read[debug_address_register!(Dr3, ""dr3"")]", ["mov {}, dr3"], ["out(reg) _"], ["nomem"; "nostack"; "preserves_flags"]);
  ("registers/debug.rs::write[debug_address_register!(Dr3, ""dr3"")]", ["mov dr3, {}"], ["in(reg) _"], ["nomem"; "nostack"; "preserves_flags"]);
  ("registers/model_specific.rs::read", ["rdmsr"], ["in(""ecx"") self.0"; "out(""eax"") _"; "out(""edx"") _"], ["nomem"; "nostack"; "preserves_flags"]);
  ("registers/model_specific.rs::write", ["wrmsr"], ["in(""ecx"") self.0"; "in(""eax"") _"; "in(""edx"") _"], ["nostack"; "preserves_flags"]);
  ("registers/mxcsr.rs::read", ["stmxcsr [{}]"], ["in(reg) &mut mxcsr"], ["nostack"; "preserves_flags"]);
  ("registers/mxcsr.rs::write", ["ldmxcsr [{}]"], ["in(reg) &mxcsr"], ["nostack"; "readonly"]);
  ("registers/rflags.rs::read_raw", ["pushfq; pop {}"], ["out(reg) _"], ["nomem"; "preserves_flags"]);
  ("registers/rflags.rs::write_raw", ["push {}; popfq"], ["in(reg) _"], ["nomem"; "preserves_flags"]);
  ("registers/xcontrol.rs::read_raw", ["xgetbv"], ["in(""ecx"") 0"; "out(""rax"") _"; "out(""rdx"") _"], ["nomem"; "nostack"; "preserves_flags"]);
  ("registers/xcontrol.rs::write_raw", ["xsetbv"], ["in(""ecx"") 0"; "in(""rax"") _"; "in(""rdx"") _"], ["nomem"; "nostack"; "preserves_flags"])
].
Definition expected_C13 : list entry := [
  ("structures/idt.rs::iretq", ["push {stack_segment:r}"; "push {new_stack_pointer}"; "push {rflags}"; "push {code_segment:r}"; "push {new_instruction_pointer}"; "iretq"], ["rflags = in(reg) self.cpu_flags.bits()"; "new_instruction_pointer = in(reg) self.instruction_pointer.as_u64()"; "new_stack_pointer = in(reg) self.stack_pointer.as_u64()"; "code_segment = in(reg) self.code_segment.0"; "stack_segment = in(reg) self.stack_segment.0"], ["noreturn"])
].
Definition pins_C17_exact : bool := asm_rules (filter (in_domain expected_C17) asm_table) && asm_rules expected_C17 && exact_pins expected_C17.
Definition pins_C18_exact : bool := asm_rules (filter (in_domain expected_C18) asm_table) && asm_rules expected_C18 && exact_pins expected_C18.
Definition pins_C11_exact : bool := asm_rules (filter (in_domain expected_C11) asm_table) && asm_rules expected_C11 && exact_pins expected_C11.
Definition pins_C16_exact : bool := asm_rules (filter (in_domain expected_C16) asm_table) && asm_rules expected_C16 && exact_pins expected_C16.
Definition pins_C13_exact : bool := asm_rules (filter (in_domain expected_C13) asm_table) && asm_rules expected_C13 && exact_pins expected_C13.

(* the six port access functions consist of their asm! block and nothing else (reads: the
   declaration of the result and its return): no other statement - e.g. a store to memory - may
   sit beside the IN / OUT instruction ("without touching memory") *)
Definition expected_port_fn_shapes : list (string * list string * string) := [
  ("instructions/port.rs::read_from_port", ["in al, dx"], "let_:u8;unsafe{ASM;}_");
  ("instructions/port.rs::read_from_port", ["in ax, dx"], "let_:u16;unsafe{ASM;}_");
  ("instructions/port.rs::read_from_port", ["in eax, dx"], "let_:u32;unsafe{ASM;}_");
  ("instructions/port.rs::write_to_port", ["out dx, al"], "unsafe{ASM;}");
  ("instructions/port.rs::write_to_port", ["out dx, ax"], "unsafe{ASM;}");
  ("instructions/port.rs::write_to_port", ["out dx, eax"], "unsafe{ASM;}")
].
Fixpoint shapes_eqb (a b : list (string * list string * string)) : bool :=
  match a, b with
  | [], [] => true
  | (l1, t1, s1) :: a', (l2, t2, s2) :: b' =>
      String.eqb l1 l2 && list_eqb t1 t2 && String.eqb s1 s2 && shapes_eqb a' b'
  | _, _ => false
  end.
Definition shape_eqb (a b : string * list string * string) : bool :=
  match a, b with (l1, t1, s1), (l2, t2, s2) => String.eqb l1 l2 && list_eqb t1 t2 && String.eqb s1 s2 end.
Definition pins_C18_shapes : bool :=
  Nat.eqb (length port_fn_shapes) (length expected_port_fn_shapes) &&
  forallb (fun e => existsb (shape_eqb e) port_fn_shapes) expected_port_fn_shapes &&
  forallb (fun b => existsb (shape_eqb b) expected_port_fn_shapes) port_fn_shapes.
