(* The asm! pins of C18, checked against the table regenerated from /repo (one file per property,
   so that a changed block breaks only the theorems of the property it belongs to). *)
Require Import String List Bool.
From X86 Require Import Gen.AsmTable_gen Machine.AsmPins.
Lemma pins_C18_ok : pins_C18 = true. Proof. vm_compute. reflexivity. Qed.
Lemma pins_C18_exact_ok : pins_C18_exact = true. Proof. vm_compute. reflexivity. Qed.
Lemma pins_C18_shapes_ok : pins_C18_shapes = true. Proof. vm_compute. reflexivity. Qed.
