(* Machine state and the mini instruction semantics of exactly the privileged instructions
   the crate emits.  Each executed instruction appends an event [op; a; b; c] to the log;
   the numbering is that of harness/src/softcpu.rs (Op). *)
From X86 Require Export Base.Word Addr.Model.
Open Scope Z_scope.

Record mstate := {
  cr : Z -> Z; dr : Z -> Z; xcr0 : Z; msr : Z -> Z;
  iflag : bool; sreg : Z -> Z; tr : Z;
  gdtr : Z * Z; idtr : Z * Z;
  mxcsr : Z; gsbase : Z;
  port_seed : Z; port_seq : Z;
  log : list (list Z)         (* most recent first *)
}.
Definition upd (f : Z -> Z) (k v : Z) : Z -> Z := fun x => if x =? k then v else f x.
Definition init_state : mstate :=
  {| cr := fun _ => 0; dr := fun _ => 0; xcr0 := 0; msr := fun _ => 0; iflag := true;
     sreg := fun _ => 0; tr := 0; gdtr := (0, 0); idtr := (0, 0); mxcsr := 8064; gsbase := 0;
     port_seed := 0; port_seq := 0; log := [] |}.

Definition ev (e : list Z) (s : mstate) : mstate :=
  {| cr := cr s; dr := dr s; xcr0 := xcr0 s; msr := msr s; iflag := iflag s; sreg := sreg s;
     tr := tr s; gdtr := gdtr s; idtr := idtr s; mxcsr := mxcsr s; gsbase := gsbase s;
     port_seed := port_seed s; port_seq := port_seq s; log := e :: log s |}.
Definition set_cr (n v : Z) (s : mstate) : mstate :=
  {| cr := upd (cr s) n v; dr := dr s; xcr0 := xcr0 s; msr := msr s; iflag := iflag s; sreg := sreg s;
     tr := tr s; gdtr := gdtr s; idtr := idtr s; mxcsr := mxcsr s; gsbase := gsbase s;
     port_seed := port_seed s; port_seq := port_seq s; log := log s |}.
Definition set_dr (n v : Z) (s : mstate) : mstate :=
  {| cr := cr s; dr := upd (dr s) n v; xcr0 := xcr0 s; msr := msr s; iflag := iflag s; sreg := sreg s;
     tr := tr s; gdtr := gdtr s; idtr := idtr s; mxcsr := mxcsr s; gsbase := gsbase s;
     port_seed := port_seed s; port_seq := port_seq s; log := log s |}.
Definition set_xcr0 (v : Z) (s : mstate) : mstate :=
  {| cr := cr s; dr := dr s; xcr0 := v; msr := msr s; iflag := iflag s; sreg := sreg s;
     tr := tr s; gdtr := gdtr s; idtr := idtr s; mxcsr := mxcsr s; gsbase := gsbase s;
     port_seed := port_seed s; port_seq := port_seq s; log := log s |}.
Definition set_msr (n v : Z) (s : mstate) : mstate :=
  {| cr := cr s; dr := dr s; xcr0 := xcr0 s; msr := upd (msr s) n v; iflag := iflag s; sreg := sreg s;
     tr := tr s; gdtr := gdtr s; idtr := idtr s; mxcsr := mxcsr s; gsbase := gsbase s;
     port_seed := port_seed s; port_seq := port_seq s; log := log s |}.
Definition set_if (b : bool) (s : mstate) : mstate :=
  {| cr := cr s; dr := dr s; xcr0 := xcr0 s; msr := msr s; iflag := b; sreg := sreg s;
     tr := tr s; gdtr := gdtr s; idtr := idtr s; mxcsr := mxcsr s; gsbase := gsbase s;
     port_seed := port_seed s; port_seq := port_seq s; log := log s |}.
Definition set_sreg (n v : Z) (s : mstate) : mstate :=
  {| cr := cr s; dr := dr s; xcr0 := xcr0 s; msr := msr s; iflag := iflag s; sreg := upd (sreg s) n v;
     tr := tr s; gdtr := gdtr s; idtr := idtr s; mxcsr := mxcsr s; gsbase := gsbase s;
     port_seed := port_seed s; port_seq := port_seq s; log := log s |}.
Definition set_tr (v : Z) (s : mstate) : mstate :=
  {| cr := cr s; dr := dr s; xcr0 := xcr0 s; msr := msr s; iflag := iflag s; sreg := sreg s;
     tr := v; gdtr := gdtr s; idtr := idtr s; mxcsr := mxcsr s; gsbase := gsbase s;
     port_seed := port_seed s; port_seq := port_seq s; log := log s |}.
Definition set_gdtr (v : Z * Z) (s : mstate) : mstate :=
  {| cr := cr s; dr := dr s; xcr0 := xcr0 s; msr := msr s; iflag := iflag s; sreg := sreg s;
     tr := tr s; gdtr := v; idtr := idtr s; mxcsr := mxcsr s; gsbase := gsbase s;
     port_seed := port_seed s; port_seq := port_seq s; log := log s |}.
Definition set_idtr (v : Z * Z) (s : mstate) : mstate :=
  {| cr := cr s; dr := dr s; xcr0 := xcr0 s; msr := msr s; iflag := iflag s; sreg := sreg s;
     tr := tr s; gdtr := gdtr s; idtr := v; mxcsr := mxcsr s; gsbase := gsbase s;
     port_seed := port_seed s; port_seq := port_seq s; log := log s |}.
Definition set_mxcsr (v : Z) (s : mstate) : mstate :=
  {| cr := cr s; dr := dr s; xcr0 := xcr0 s; msr := msr s; iflag := iflag s; sreg := sreg s;
     tr := tr s; gdtr := gdtr s; idtr := idtr s; mxcsr := v; gsbase := gsbase s;
     port_seed := port_seed s; port_seq := port_seq s; log := log s |}.
Definition set_gsbase (v : Z) (s : mstate) : mstate :=
  {| cr := cr s; dr := dr s; xcr0 := xcr0 s; msr := msr s; iflag := iflag s; sreg := sreg s;
     tr := tr s; gdtr := gdtr s; idtr := idtr s; mxcsr := mxcsr s; gsbase := v;
     port_seed := port_seed s; port_seq := port_seq s; log := log s |}.
Definition set_port (seed seq : Z) (s : mstate) : mstate :=
  {| cr := cr s; dr := dr s; xcr0 := xcr0 s; msr := msr s; iflag := iflag s; sreg := sreg s;
     tr := tr s; gdtr := gdtr s; idtr := idtr s; mxcsr := mxcsr s; gsbase := gsbase s;
     port_seed := seed; port_seq := seq; log := log s |}.

(* the state-and-panic monad of wrapper code *)
Definition M (A : Type) : Type := mstate -> res (A * mstate).
Definition ret {A} (a : A) : M A := fun s => Ok (a, s).
Definition mbind {A B} (m : M A) (f : A -> M B) : M B :=
  fun s => match m s with Ok (a, s') => f a s' | Panic => Panic end.
Notation "'let*' x := m 'in' k" := (mbind m (fun x => k))
  (at level 200, x name, m at level 100, k at level 200).
Definition lift {A} (r : res A) : M A := fun s => match r with Ok a => Ok (a, s) | Panic => Panic end.
Definition mpanic {A} : M A := fun _ => Panic.

(* event opcodes *)
Definition E_CLI := 1. Definition E_STI := 2. Definition E_HLT := 3. Definition E_IN := 4.
Definition E_OUT := 5. Definition E_MOVFROMCR := 6. Definition E_MOVTOCR := 7.
Definition E_MOVFROMDR := 8. Definition E_MOVTODR := 9. Definition E_RDMSR := 10.
Definition E_WRMSR := 11. Definition E_XSETBV := 12. Definition E_LGDT := 13.
Definition E_LIDT := 14. Definition E_LTR := 15. Definition E_INVLPG := 16.
Definition E_INVPCID := 17. Definition E_INVLPGB := 18. Definition E_TLBSYNC := 19.
Definition E_SWAPGS := 20. Definition E_MOVTOSREG := 21. Definition E_RETFQ := 22.

Definition MSR_FS_BASE := 3221225728.        (* 0xC000_0100 *)
Definition MSR_GS_BASE := 3221225729.
Definition MSR_KERNEL_GS_BASE := 3221225730.

(* ---- instructions ---- *)
Definition i_cli : M unit := fun s => Ok (tt, ev [E_CLI; 0; 0; 0] (set_if false s)).
Definition i_sti : M unit := fun s => Ok (tt, ev [E_STI; 0; 0; 0] (set_if true s)).
(* hlt: c = 1 when it directly follows the previous logged instruction (same asm block) *)
Definition i_hlt (adjacent : bool) : M unit := fun s => Ok (tt, ev [E_HLT; 0; 0; b2z adjacent] s).
Definition i_mov_from_cr (n : Z) : M Z :=
  fun s => Ok (cr s n, ev [E_MOVFROMCR; n; cr s n; 0] s).
Definition i_mov_to_cr (n v : Z) : M unit :=
  fun s => Ok (tt, ev [E_MOVTOCR; n; v; 0] (set_cr n v s)).
Definition i_mov_from_dr (n : Z) : M Z :=
  fun s => Ok (dr s n, ev [E_MOVFROMDR; n; dr s n; 0] s).
Definition i_mov_to_dr (n v : Z) : M unit :=
  fun s => Ok (tt, ev [E_MOVTODR; n; v; 0] (set_dr n v s)).
(* rdmsr: index in ECX, result EDX:EAX recombined by the wrapper *)
Definition i_rdmsr (idx : Z) : M Z :=
  fun s => Ok (msr s idx, ev [E_RDMSR; idx; msr s idx; 0] s).
Definition i_wrmsr (idx v : Z) : M unit :=
  fun s => Ok (tt, ev [E_WRMSR; idx; v; 0] (set_msr idx v s)).
(* xgetbv executes natively in the harness (hook H4): no event *)
Definition i_xgetbv : M Z := fun s => Ok (xcr0 s, s).
Definition i_xsetbv (idx v : Z) : M unit :=
  fun s => Ok (tt, ev [E_XSETBV; idx; v; 0] (if idx =? 0 then set_xcr0 v s else s)).
Definition i_lgdt (limit base : Z) : M unit :=
  fun s => Ok (tt, ev [E_LGDT; limit; base; 0] (set_gdtr (limit, base) s)).
Definition i_lidt (limit base : Z) : M unit :=
  fun s => Ok (tt, ev [E_LIDT; limit; base; 0] (set_idtr (limit, base) s)).
Definition i_ltr (sel : Z) : M unit := fun s => Ok (tt, ev [E_LTR; sel; 0; 0] (set_tr sel s)).
Definition i_invlpg (a : Z) : M unit := fun s => Ok (tt, ev [E_INVLPG; a; 0; 0] s).
Definition i_invpcid (kind d0 d1 : Z) : M unit := fun s => Ok (tt, ev [E_INVPCID; kind; d0; d1] s).
Definition i_invlpgb (rax ecx edx : Z) : M unit := fun s => Ok (tt, ev [E_INVLPGB; rax; ecx; edx] s).
Definition i_tlbsync : M unit := fun s => Ok (tt, ev [E_TLBSYNC; 0; 0; 0] s).
Definition i_swapgs : M unit :=
  fun s => let g := msr s MSR_GS_BASE in let k := msr s MSR_KERNEL_GS_BASE in
           Ok (tt, ev [E_SWAPGS; 0; 0; 0] (set_msr MSR_KERNEL_GS_BASE g (set_msr MSR_GS_BASE k s))).
(* segment numbers: 0 es, 1 cs, 2 ss, 3 ds, 4 fs, 5 gs.  In the harness (a Linux user process)
   a load of the null selector or of one of the flat user segments 0x23/0x2b/0x33 into a data
   segment register, and of 0x2b into ss, is legal and executes natively: it is not logged. *)
Definition native_sel (n sel : Z) : bool :=
  if n =? 2 then sel =? 43
  else (sel =? 0) || (sel =? 35) || (sel =? 43) || (sel =? 51).
Definition i_mov_to_sreg (n sel : Z) : M unit :=
  fun s => Ok (tt, (if native_sel n sel then fun x => x else ev [E_MOVTOSREG; n; sel; 0])
                     (set_sreg n sel s)).
Definition i_mov_from_sreg (n : Z) : M Z := fun s => Ok (sreg s n, s).
Definition i_retfq (cs : Z) : M unit := fun s => Ok (tt, ev [E_RETFQ; cs; 0; 0] (set_sreg 1 cs s)).
(* pushfq; pop: only IF is modelled (hook H2) *)
Definition i_pushfq_if : M bool := fun s => Ok (iflag s, s).

(* device oracle: the value an `in` of width w delivers (splitmix-style hash, transcribed
   from softcpu.rs::device_value) *)
Definition mix64 (z : Z) : Z :=
  let z := wrap64 (Z.lxor z (Z.shiftr z 30) * 13787848793156543929) in
  let z := wrap64 (Z.lxor z (Z.shiftr z 27) * 10723151780598845931) in
  Z.lxor z (Z.shiftr z 31).
Definition device_value (seed port seq w : Z) : Z :=
  let z := Z.lxor (Z.lxor seed (wrap64 (port * 11400714819323198485)))
                  (wrap64 (seq * 13787848793156543929)) in
  (mix64 z) mod 2 ^ w.
Definition i_in (w port : Z) : M Z :=
  fun s => let v := device_value (port_seed s) port (port_seq s) w in
           Ok (v, ev [E_IN; w; port; v] (set_port (port_seed s) (port_seq s + 1) s)).
Definition i_out (w port v : Z) : M unit := fun s => Ok (tt, ev [E_OUT; w; port; v] s).
