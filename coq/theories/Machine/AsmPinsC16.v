(* The asm! pins of C16, checked against the table regenerated from /repo (one file per property,
   so that a changed block breaks only the theorems of the property it belongs to). *)
Require Import String List Bool.
From X86 Require Import Gen.AsmTable_gen Machine.AsmPins.
Lemma pins_C16_ok : pins_C16 = true. Proof. vm_compute. reflexivity. Qed.
Lemma pins_C16_exact_ok : pins_C16_exact = true. Proof. vm_compute. reflexivity. Qed.
