(* Correspondence interface of the machine engine ("mach"): one wrapper call on a given prior
   register file.  case = fid :: nprior :: (class, index, value)*nprior ++ args
   answer = events (4 numbers each, in execution order) ++ [-3] ++ result ++ [-3] ++
            final values of the prior registers;  [-1] replaces the result on a panic. *)
From X86 Require Import Machine.Wrappers.
Open Scope Z_scope.

Definition SEP : Z := -3.
Definition load_prior (cls idx v : Z) (s : mstate) : mstate :=
  if cls =? 0 then set_cr idx v s else if cls =? 1 then set_dr idx v s
  else if cls =? 2 then set_xcr0 v s else if cls =? 3 then set_msr idx v s
  else if cls =? 4 then set_if (negb (v =? 0)) s else if cls =? 5 then set_port v 0 s
  else if cls =? 6 then set_mxcsr v s else if cls =? 7 then set_sreg idx v s
  else if cls =? 8 then set_gsbase v s else s.
Definition read_prior (cls idx : Z) (s : mstate) : Z :=
  if cls =? 0 then cr s idx else if cls =? 1 then dr s idx
  else if cls =? 2 then xcr0 s else if cls =? 3 then msr s idx
  else if cls =? 4 then b2z (iflag s) else if cls =? 5 then port_seed s
  else if cls =? 6 then mxcsr s else if cls =? 7 then sreg s idx
  else if cls =? 8 then gsbase s else 0.
Fixpoint load_priors (n : nat) (l : list Z) (s : mstate) : mstate * list (Z * Z) * list Z :=
  match n, l with
  | S n', cls :: idx :: v :: l' =>
      let '(s', ps, rest) := load_priors n' l' (load_prior cls idx v s) in
      (s', (cls, idx) :: ps, rest)
  | _, _ => (s, [], l)
  end.

Definition enc_unit (u : unit) : list Z := [].
Definition enc_pair (p : Z * Z) : list Z := [fst p; snd p].
Definition enc_optz (o : option Z) : list Z := enc_opt o.
Definition enc_b (b : bool) : list Z := [b2z b].
Definition enc_ou (o : option unit) : list Z := match o with Some _ => [1] | None => [0] end.

Definition finish {A} (enc : A -> list Z) (ps : list (Z * Z)) (s0 : mstate) (m : M A) : list Z :=
  match m s0 with
  | Ok (a, s) =>
      concat (rev (log s)) ++ [SEP] ++ enc a ++ [SEP] ++ map (fun p => read_prior (fst p) (snd p) s) ps
  | Panic => [PANIC]
  end.

(* nesting trees for without_interrupts: encoded preorder; 0 = leaf closure returning the
   next value and recording the IF it sees; 1 k = nest with k children run in sequence *)
Fixpoint run_tree (fuel : nat) (l : list Z) : M (list Z * list Z) :=
  (* returns (observations, remaining encoding) *)
  match fuel with
  | O => ret ([], l)
  | S fuel' =>
      match l with
      | 0 :: l' => let* b := are_enabled in ret ([b2z b], l')
      | 1 :: k :: l' =>
          without_interrupts (run_seq fuel' (Z.to_nat k) l')
      (* 2 k = a closure that opens an interrupt window around its k children and closes it
         again: it leaves the flag as it found it *)
      | 2 :: k :: l' =>
          let* was := are_enabled in
          let* _ := int_enable in
          let* r := run_seq fuel' (Z.to_nat k) l' in
          if was then ret r else (let* _ := int_disable in ret r)
      | _ => ret ([], [])
      end
  end
with run_seq (fuel : nat) (k : nat) (l : list Z) : M (list Z * list Z) :=
  match fuel with
  | O => ret ([], l)
  | S fuel' =>
      match k with
      | O => ret ([], l)
      | S k' =>
          let* r1 := run_tree fuel' l in
          let* r2 := run_seq fuel' k' (snd r1) in
          ret (fst r1 ++ fst r2, snd r2)
      end
  end.

Definition mk_builder (rng : option (Z * Z * Z)) (pcid asid : option Z) (g f n : bool) : builder :=
  {| b_range := rng; b_pcid := pcid; b_asid := asid; b_global := g; b_final := f; b_nested := n |}.
Definition optz (present v : Z) : option Z := if present =? 0 then None else Some v.

(* argument guards: the harness builds typed arguments with the checked constructors
   (Flags::from_bits(x).unwrap(), PhysFrame::from_start_address(PhysAddr::new(x)).unwrap(),
   Pcid::new(x).unwrap(), VirtAddr::new(x), ...); an invalid argument panics there. *)
Definition gfl (all f : Z) (k : list Z) : list Z := if land_not f all =? 0 then k else [PANIC].
Definition gfr (fr : Z) (k : list Z) : list Z :=
  match pa_new fr with
  | Ok _ => match frame_from_start S4K fr with Ok (Some _) => k | _ => [PANIC] end
  | Panic => [PANIC] end.
Definition gpg (p : Z) (k : list Z) : list Z :=
  match va_new p with
  | Ok _ => match page_from_start S4K p with Ok (Some _) => k | _ => [PANIC] end
  | Panic => [PANIC] end.
Definition gva (a : Z) (k : list Z) : list Z := match va_new a with Ok _ => k | Panic => [PANIC] end.
Definition gpc (p : Z) (k : list Z) : list Z := match pcid_new p with Some _ => k | None => [PANIC] end.
Definition gpat (t : Z) (k : list Z) : list Z := match pat_from_bits t with Some _ => k | None => [PANIC] end.

Definition run_mach (oc : bool) (c : list Z) : list Z :=
  match c with
  | fid :: np :: rest =>
      let '(s0, ps, a) := load_priors (Z.to_nat np) rest init_state in
      let fu := finish enc_unit ps s0 in
      let fz := finish (fun z : Z => [z]) ps s0 in
      let fp := finish enc_pair ps s0 in
      match fid, a with
      (* Cr0 / Cr4 / Efer *)
      | 100, [] => fz cr0_read | 101, [] => fz cr0_read_raw | 102, [f] => gfl CR0_ALL f (fu (cr0_write f))
      | 103, [v] => fu (cr0_write_raw v) | 104, [t] => fu (cr0_update (Z.land t CR0_ALL))
      | 110, [] => finish enc_optz ps s0 cr2_read | 111, [] => fz cr2_read_raw
      | 120, [] => fp cr3_read | 121, [] => fp cr3_read_raw | 122, [] => fp cr3_read_pcid
      | 123, [fr; fl] => gfr fr (gfl CR3_ALL fl (fu (cr3_write fr fl))) | 124, [fr; p] => gfr fr (gpc p (fu (cr3_write_pcid fr p)))
      | 125, [fr; p] => gfr fr (gpc p (fu (cr3_write_pcid_no_flush fr p))) | 126, [fr; v] => gfr fr (fu (cr3_write_raw fr (trunc16 v)))
      | 127, [nf; t] => gfr nf (fu (cr3_update nf (Z.land t CR3_ALL))) | 128, [nf; p] => gfr nf (gpc p (fu (cr3_update_pcid nf p)))
      | 129, [nf; p] => gfr nf (gpc p (fu (cr3_update_pcid_no_flush nf p)))
      | 130, [] => fz cr4_read | 131, [] => fz cr4_read_raw | 132, [f] => gfl CR4_ALL f (fu (cr4_write f))
      | 133, [v] => fu (cr4_write_raw v) | 134, [t] => fu (cr4_update (Z.land t CR4_ALL))
      (* debug registers *)
      | 140, [n] => if n <? 4 then fz (drn_read n) else [PANIC]
      | 141, [n; v] => if n <? 4 then fu (drn_write n v) else [PANIC]
      | 150, [] => fz dr6_read | 151, [] => fz dr6_read_raw
      | 152, [] => fz dr7_read | 153, [] => fz dr7_read_raw | 154, [v] => match dr7_from_bits v with Some _ => fu (dr7_write v) | None => [PANIC] end
      | 155, [v] => fu (dr7_write_raw v) | 156, [n; cd; sz; t] =>
          if (n <? 4) && (cd <? 4) && (sz <? 4) then fu (dr7_update n cd sz (Z.land t DR7_FLAGS_ALL)) else [PANIC]
      (* XCR0 *)
      | 160, [] => fz xcr0_read | 161, [] => fz xcr0_read_raw | 162, [f] => gfl XCR0_ALL f (fu (xcr0_write f))
      | 163, [v] => fu (xcr0_write_raw v) | 164, [t] => fu (xcr0_update (Z.land t XCR0_ALL))
      (* MSRs *)
      | 170, [n] => fz (msr_read (n mod W32)) | 171, [n; v] => fu (msr_write (n mod W32) v)
      | 180, [] => fz efer_read | 181, [] => fz efer_read_raw | 182, [f] => gfl EFER_ALL f (fu (efer_write f))
      | 183, [v] => fu (efer_write_raw v) | 184, [t] => fu (efer_update (Z.land t EFER_ALL))
      | 190, [] => fz (vaddr_msr_read MSR_FS_BASE) | 191, [v] => gva v (fu (vaddr_msr_write MSR_FS_BASE v))
      | 192, [] => fz (vaddr_msr_read MSR_GS_BASE) | 193, [v] => gva v (fu (vaddr_msr_write MSR_GS_BASE v))
      | 194, [] => fz (vaddr_msr_read MSR_KERNEL_GS_BASE)
      | 195, [v] => gva v (fu (vaddr_msr_write MSR_KERNEL_GS_BASE v))
      | 196, [] => fz (vaddr_msr_read MSR_LSTAR) | 197, [v] => gva v (fu (vaddr_msr_write MSR_LSTAR v))
      | 200, [] => fp star_read_raw | 201, [] => finish (fun l : list Z => l) ps s0 (star_read oc)
      | 202, [sr; sc] => fu (star_write_raw (trunc16 sr) (trunc16 sc))
      | 203, [a1; a2; a3; a4] => fz (star_write oc (trunc16 a1) (trunc16 a2) (trunc16 a3) (trunc16 a4))
      | 210, [] => fz sfmask_read | 211, [v] => gfl RFLAGS_ALL v (fu (sfmask_write v)) | 212, [t] => fu (sfmask_update (Z.land t RFLAGS_ALL))
      | 220, [] => fp (cet_read MSR_UCET) | 221, [f; p] => gfl CET_ALL f (gpg p (fu (cet_write MSR_UCET f p)))
      | 222, [t; p] => gpg p (fu (cet_update MSR_UCET (Z.land t CET_ALL) p))
      | 223, [] => fp (cet_read MSR_SCET) | 224, [f; p] => gfl CET_ALL f (gpg p (fu (cet_write MSR_SCET f p)))
      | 225, [t; p] => gpg p (fu (cet_update MSR_SCET (Z.land t CET_ALL) p))
      | 230, [] => finish (fun l : list Z => l) ps s0 pat_read
      | 231, [t0; t1; t2; t3; t4; t5; t6; t7] =>
          gpat t0 (gpat t1 (gpat t2 (gpat t3 (gpat t4 (gpat t5 (gpat t6 (gpat t7
            (fu (pat_write [t0; t1; t2; t3; t4; t5; t6; t7])))))))))
      | 240, [] => fp apic_read | 241, [] => fp apic_read_raw
      | 242, [fr; fl] => gfr fr (gfl APIC_ALL fl (fu (apic_write fr fl)))
      | 243, [fr; fl] => gfr fr (fu (apic_write_raw fr fl))
      (* segments *)
      | 250, [n] => fz (seg_get_reg n)
      | 260, [n; sel] => finish (fun _ : unit => []) ps s0 (seg_set_reg n (trunc16 sel))
      | 272, [] => fz gs_read_base | 273, [v] => gva v (fu (gs_write_base v)) | 274, [] => fu gs_swap
      | 280, [sel] => fu (load_tss (trunc16 sel))
      | 300, [] => fz mxcsr_read | 301, [v] => gfl MXCSR_ALL v (fu (mxcsr_write v)) | 302, [t] => fu (mxcsr_update (Z.land t MXCSR_ALL))
      (* interrupts *)
      | 310, [] => finish enc_b ps s0 are_enabled | 311, [] => fu int_enable
      | 312, [] => fu int_disable
      | 313, tree => finish (fun r : list Z * list Z => fst r) ps s0 (run_tree (Z.to_nat 8192) tree)
      | 314, [] => fu enable_and_hlt | 315, [] => fu hlt
      (* ports *)
      | 320, [w; port; kind] => fz (port_read w (trunc16 port))
      | 321, [w; port; v; kind] => fu (port_write w (trunc16 port) (v mod 2 ^ w))
      | 322, [w; kind; p1; p2] => [SEP; b2z (trunc16 p1 =? trunc16 p2); 1; trunc16 p1; SEP]
      (* TLB *)
      | 330, [a1] => gva a1 (fu (tlb_flush a1)) | 331, [] => fu tlb_flush_all
      | 332, [kind; a1; pcid] => gva a1 (gpc pcid (fu (flush_pcid kind a1 pcid)))
      | 333, [cmax; nest; nas; hasr; s; e; szk; hp; p; ha; asid; g; f; n] =>
          let inv := {| count_max := cmax; nested_ok := negb (nest =? 0); nasid := nas |} in
          let sz := if szk =? 0 then S4K else S2M in
          let asid_ok := (ha =? 0) || builder_asid inv asid in
          match (if n =? 0 then Ok tt else builder_nested inv) with
          | Panic => [PANIC]
          | Ok _ =>
              let b := mk_builder (if hasr =? 0 then None else Some (s, e, sz)) (optz hp p)
                                  (if asid_ok then optz ha asid else None)
                                  (negb (g =? 0)) (negb (f =? 0)) (negb (n =? 0)) in
              b2z asid_ok :: finish enc_ou ps s0 (builder_flush (Z.to_nat 70000) inv b)
          end
      | 334, [] => fu i_tlbsync
      | 340, [limit; base] => gva base (fu (lgdt_of (trunc16 limit) base))
      | 341, [limit; base] => gva base (fu (lidt_of (trunc16 limit) base))
      | _, _ => [-99]
      end
  | _ => [-99]
  end.
