(* C16, continued: Dr7, SFMask, CET, PAT, segments, swapgs, load_tss, Dr0-3. *)
From X86 Require Import Base.Word Base.Bits Addr.Model Addr.Canon Addr.Align Addr.Arith
  Paging.Entry Paging.EntryProofs Machine.Wrappers Machine.Proofs.
Open Scope Z_scope.

(* Dr0..Dr3: each wrapper touches its own register *)
Theorem drn_roundtrip n v s :
  exists s1 s2, drn_write n v s = Ok (tt, s1) /\ drn_read n s1 = Ok (v, s2) /\
    log s1 = [E_MOVTODR; n; v; 0] :: log s /\ (forall m, m <> n -> dr s1 m = dr s m) /\
    cr s1 = cr s /\ msr s1 = msr s.
Proof.
  do 2 eexists. unfold drn_write, drn_read, i_mov_to_dr, i_mov_from_dr. split; [reflexivity|].
  cbn. rewrite upd_same. splits; try reflexivity. intros m Hm. apply upd_other. assumption.
Qed.

(* Dr7 *)
Theorem dr7_write_spec v s :
  dr7_write v s =
  Ok (tt, ev [E_MOVTODR; 7; merge (dr s 7) DR7_VALID v; 0]
             (set_dr 7 (merge (dr s 7) DR7_VALID v) (ev [E_MOVFROMDR; 7; dr s 7; 0] s))).
Proof. reflexivity. Qed.
Theorem dr7_write_read v s : Z.land v DR7_VALID = v ->
  exists s1 s2, dr7_write v s = Ok (tt, s1) /\ dr7_read s1 = Ok (v, s2) /\
    Z.land (dr s1 7) (not64 DR7_VALID) = Z.land (dr s 7) (not64 DR7_VALID).
Proof.
  intros Hv. assert (Hu : u64 DR7_VALID) by (unfold u64, W64; cbn; lia).
  do 2 eexists. rewrite dr7_write_spec. split; [reflexivity|].
  unfold dr7_read, dr7_read_raw, mbind, i_mov_from_dr, ret, dr7_from_bits_truncate.
  cbn [dr set_dr ev]. rewrite upd_same. rewrite merge_modelled by assumption.
  split; [reflexivity|]. apply merge_unmodelled; assumption.
Qed.
Theorem dr7_raw_and_dr6 s v :
  dr7_write_raw v s = Ok (tt, ev [E_MOVTODR; 7; v; 0] (set_dr 7 v s)) /\
  dr7_read_raw s = Ok (dr s 7, ev [E_MOVFROMDR; 7; dr s 7; 0] s) /\
  dr6_read s = Ok (Z.land (dr s 6) DR6_ALL, ev [E_MOVFROMDR; 6; dr s 6; 0] s).
Proof. splits; reflexivity. Qed.

(* SFMask *)
Theorem sfmask_roundtrip v s : Z.land v RFLAGS_ALL = v -> u64 v ->
  exists s1 s2, sfmask_write v s = Ok (tt, s1) /\ msr s1 MSR_SFMASK = v /\
                sfmask_read s1 = Ok (v, s2).
Proof.
  intros Hv Hu. do 2 eexists. unfold sfmask_write, sfmask_read, msr_write, msr_read, i_wrmsr, i_rdmsr, mbind.
  split; [reflexivity|]. cbn [msr set_msr ev]. rewrite upd_same. split; [reflexivity|].
  unfold from_bits_unwrap, land_not.
  assert (E : Z.land v (not64 RFLAGS_ALL) = 0).
  { assert (Hall : u64 RFLAGS_ALL) by (unfold u64, W64, RFLAGS_ALL; lia).
    apply Z.bits_inj'. intros i Hi. rewrite Z.land_spec, testbit_not64, Z.bits_0 by assumption.
    destruct (Z.testbit v i) eqn:E; [|reflexivity].
    rewrite (subset_bits v RFLAGS_ALL i Hv E). cbn. apply andb_false_r. }
  rewrite E. reflexivity.
Qed.
Theorem sfmask_read_never_wrong s v s' : sfmask_read s = Ok (v, s') -> v = msr s MSR_SFMASK.
Proof.
  unfold sfmask_read, msr_read, i_rdmsr, mbind, from_bits_unwrap.
  destruct (land_not (msr s MSR_SFMASK) RFLAGS_ALL =? 0); [|discriminate]. intros [= <- _]. reflexivity.
Qed.

(* CET *)
Local Ltac Zify.zify_post_hook ::= Z.div_mod_to_equations.
Theorem cet_roundtrip n flags page s : Z.land flags CET_ALL = flags -> 0 <= flags ->
  canonical page -> page mod 4096 = 0 ->
  exists s1 s2, cet_write n flags page s = Ok (tt, s1) /\ msr s1 n = page + flags /\
                cet_read n s1 = Ok ((flags, page), s2).
Proof.
  intros Hfl H0 Hc Hal.
  assert (Hlt : 0 <= flags < 4096).
  { split; [assumption|]. rewrite <- Hfl. destruct (Z_lt_dec (Z.land flags CET_ALL) 4096); [assumption|exfalso].
    assert (Hl : Z.log2 (Z.land flags CET_ALL) <= Z.log2 CET_ALL).
    { rewrite Z.log2_land by (unfold CET_ALL; lia). apply Z.le_min_r. }
    change (Z.log2 CET_ALL) with 11 in Hl.
    assert (12 <= Z.log2 (Z.land flags CET_ALL)) by (apply Z.log2_le_pow2; lia). lia. }
  pose proof (canonical_u64 page Hc) as Hu.
  assert (Hlor : Z.lor flags page = page + flags).
  { rewrite Z.lor_comm. apply (lor_disjoint_add page flags 12); [lia|change (2 ^ 12) with 4096; lia|assumption]. }
  assert (Hu2 : u64 (page + flags)) by (unfold u64, W64 in *; lia).
  do 2 eexists. unfold cet_write, cet_read, msr_write, msr_read, i_wrmsr, i_rdmsr, mbind, lift.
  rewrite Hlor. split; [reflexivity|]. cbn [msr set_msr ev]. rewrite upd_same. split; [reflexivity|].
  unfold land_not. change 4095 with (2 ^ 12 - 1). rewrite land_not64 by (auto; lia).
  change (2 ^ 12) with 4096.
  assert (E1 : page + flags - (page + flags) mod 4096 = page) by lia. rewrite E1.
  rewrite va_new_spec by assumption. apply canonicalb_spec in Hc. rewrite Hc.
  assert (Hs4 : page_size S4K) by (left; reflexivity).
  rewrite page_from_start_spec by (auto; apply canonicalb_spec; assumption).
  change S4K with 4096. rewrite Hal. cbn [Z.eqb unwrap_ro]. unfold ret. cbn [fst snd].
  assert (E2 : Z.land (page + flags) CET_ALL = flags).
  { assert (Z.land (page + flags) CET_ALL = Z.land (Z.land (page + flags) 4095) CET_ALL).
    { rewrite <- Z.land_assoc. reflexivity. }
    rewrite H. change 4095 with (2 ^ 12 - 1). rewrite land_ones_mod by lia. change (2 ^ 12) with 4096.
    assert ((page + flags) mod 4096 = flags) by lia. rewrite H1. exact Hfl. }
  rewrite E2. reflexivity.
Qed.

(* PAT: what write accepts, read returns, for every table of valid types *)
Definition pat_valid (t : Z) : Prop := t = 0 \/ t = 1 \/ t = 4 \/ t = 5 \/ t = 6 \/ t = 7.
Lemma pat_valid_from_bits t : pat_valid t -> pat_from_bits t = Some t /\ 0 <= t < 256.
Proof. intros [-> | [-> | [-> | [-> | [-> | ->]]]]]; split; try reflexivity; lia. Qed.

Theorem pat_roundtrip t0 t1 t2 t3 t4 t5 t6 t7 s :
  pat_valid t0 -> pat_valid t1 -> pat_valid t2 -> pat_valid t3 ->
  pat_valid t4 -> pat_valid t5 -> pat_valid t6 -> pat_valid t7 ->
  exists s1 s2, pat_write [t0; t1; t2; t3; t4; t5; t6; t7] s = Ok (tt, s1) /\
                pat_read s1 = Ok ([t0; t1; t2; t3; t4; t5; t6; t7], s2).
Proof.
  intros H0 H1 H2 H3 H4 H5 H6 H7.
  destruct (pat_valid_from_bits t0 H0) as [F0 B0]. destruct (pat_valid_from_bits t1 H1) as [F1 B1].
  destruct (pat_valid_from_bits t2 H2) as [F2 B2]. destruct (pat_valid_from_bits t3 H3) as [F3 B3].
  destruct (pat_valid_from_bits t4 H4) as [F4 B4]. destruct (pat_valid_from_bits t5 H5) as [F5 B5].
  destruct (pat_valid_from_bits t6 H6) as [F6 B6]. destruct (pat_valid_from_bits t7 H7) as [F7 B7].
  do 2 eexists. unfold pat_write, pat_read, msr_write, msr_read, i_wrmsr, i_rdmsr, mbind, lift.
  split; [reflexivity|]. cbn [msr set_msr ev]. rewrite upd_same.
  set (v := pat_encode [t0; t1; t2; t3; t4; t5; t6; t7] 0).
  assert (Ev : v = t0 + t1 * 256 + t2 * 65536 + t3 * 16777216 + t4 * 4294967296 +
                   t5 * 1099511627776 + t6 * 281474976710656 + t7 * 72057594037927936).
  { unfold v. cbn [pat_encode]. cbn [Z.add Z.mul Pos.mul Pos.add Pos.succ].
    change (2 ^ 0) with 1. change (2 ^ 8) with 256. change (2 ^ 16) with 65536.
    change (2 ^ 24) with 16777216. change (2 ^ 32) with 4294967296.
    change (2 ^ 40) with 1099511627776. change (2 ^ 48) with 281474976710656.
    change (2 ^ 56) with 72057594037927936. lia. }
  assert (Bt : byte_at v 0 = t0 /\ byte_at v 1 = t1 /\ byte_at v 2 = t2 /\ byte_at v 3 = t3 /\
               byte_at v 4 = t4 /\ byte_at v 5 = t5 /\ byte_at v 6 = t6 /\ byte_at v 7 = t7).
  { unfold byte_at. rewrite !Z.shiftr_div_pow2 by lia.
    cbn [Z.mul Pos.mul]. change (2 ^ 0) with 1. change (2 ^ 8) with 256. change (2 ^ 16) with 65536.
    change (2 ^ 24) with 16777216. change (2 ^ 32) with 4294967296.
    change (2 ^ 40) with 1099511627776. change (2 ^ 48) with 281474976710656.
    change (2 ^ 56) with 72057594037927936. rewrite Ev. splits; lia. }
  destruct Bt as (E0 & E1 & E2 & E3 & E4 & E5 & E6 & E7).
  cbn [pat_decode Z.of_nat Pos.of_succ_nat Pos.succ].
  rewrite E0, F0, E1, F1, E2, F2, E3, F3, E4, F4, E5, F5, E6, F6, E7, F7. reflexivity.
Qed.

Theorem pat_read_never_wrong s l s' : pat_read s = Ok (l, s') ->
  length l = 8%nat /\ forall i, (i < 8)%nat -> nth i l 0 = byte_at (msr s MSR_PAT) (Z.of_nat i).
Proof.
  unfold pat_read, msr_read, i_rdmsr, mbind, lift. set (v := msr s MSR_PAT).
  cbn [pat_decode Z.of_nat Pos.of_succ_nat Pos.succ].
  unfold pat_from_bits.
  repeat match goal with
  | |- context [existsb (Z.eqb ?x) ?l] => destruct (existsb (Z.eqb x) l); cbn [rmap]; [|discriminate]
  end.
  intros [= <- _]. split; [reflexivity|]. intros i Hi.
  do 8 (destruct i as [|i]; [reflexivity|]). lia.
Qed.

(* segments, swapgs, load_tss *)
Theorem seg_set_get n sel s :
  exists s1, seg_set_reg n sel s = Ok (tt, s1) /\ seg_get_reg n s1 = Ok (sel, s1) /\
    (forall m, m <> n -> sreg s1 m = sreg s m) /\
    (n = 1 -> log s1 = [E_RETFQ; sel; 0; 0] :: log s) /\
    (n <> 1 -> native_sel n sel = false -> log s1 = [E_MOVTOSREG; n; sel; 0] :: log s).
Proof.
  unfold seg_set_reg, seg_get_reg, i_retfq, i_mov_to_sreg, i_mov_from_sreg.
  destruct (n =? 1) eqn:E1.
  - apply Z.eqb_eq in E1. subst n. eexists. split; [reflexivity|]. cbn [sreg set_sreg ev log]. rewrite upd_same.
    splits; try reflexivity; try lia. intros m Hm. apply upd_other; assumption.
  - apply Z.eqb_neq in E1. eexists. split; [reflexivity|].
    destruct (native_sel n sel) eqn:E2; cbn [sreg set_sreg ev log]; rewrite upd_same;
      splits; try reflexivity; try lia; try discriminate;
      try (intros m Hm; apply upd_other; assumption).
Qed.
Theorem gs_swap_spec s :
  exists s1, gs_swap s = Ok (tt, s1) /\ log s1 = [E_SWAPGS; 0; 0; 0] :: log s /\
    msr s1 MSR_GS_BASE = msr s MSR_KERNEL_GS_BASE /\ msr s1 MSR_KERNEL_GS_BASE = msr s MSR_GS_BASE /\
    (forall m, m <> MSR_GS_BASE -> m <> MSR_KERNEL_GS_BASE -> msr s1 m = msr s m).
Proof.
  eexists. unfold gs_swap, i_swapgs. split; [reflexivity|]. cbn. splits; try reflexivity.
  intros m H1 H2. unfold upd. destruct (m =? MSR_KERNEL_GS_BASE) eqn:E; [lia|].
  destruct (m =? MSR_GS_BASE) eqn:E'; [lia|reflexivity].
Qed.
Theorem load_tss_spec sel s : load_tss sel s = Ok (tt, ev [E_LTR; sel; 0; 0] (set_tr sel s)).
Proof. reflexivity. Qed.
Theorem gs_base_roundtrip v s :
  exists s1, gs_write_base v s = Ok (tt, s1) /\ gs_read_base s1 = Ok (v, s1).
Proof. eexists. split; reflexivity. Qed.
