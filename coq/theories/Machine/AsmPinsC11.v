(* The asm! pins of C11, checked against the table regenerated from /repo (one file per property,
   so that a changed block breaks only the theorems of the property it belongs to). *)
Require Import String List Bool.
From X86 Require Import Gen.AsmTable_gen Machine.AsmPins.
Lemma pins_C11_ok : pins_C11 = true. Proof. vm_compute. reflexivity. Qed.
Lemma pins_C11_exact_ok : pins_C11_exact = true. Proof. vm_compute. reflexivity. Qed.
