(* Theorems about the wrapper models: C16 (registers), C17 (interrupts), C18 (ports). *)
From X86 Require Import Base.Word Base.Bits Addr.Model Addr.Canon Addr.Align Addr.Arith Addr.Reach
  Paging.Entry Paging.EntryProofs Machine.Wrappers.
Open Scope Z_scope.

(* a "cell": an architectural register addressed by a pair of instructions *)
Record cell := {
  c_get : mstate -> Z;                      (* the register's content *)
  c_rd : M Z; c_wr : Z -> M unit;           (* the instructions that read / write it *)
  c_rd_ev : mstate -> list Z; c_wr_ev : Z -> list Z;
  c_set : Z -> mstate -> mstate }.
Definition cell_ok (c : cell) : Prop :=
  (forall s, c_rd c s = Ok (c_get c s, ev (c_rd_ev c s) s)) /\
  (forall v s, c_wr c v s = Ok (tt, ev (c_wr_ev c v) (c_set c v s))) /\
  (forall v s, c_get c (c_set c v s) = v) /\
  (forall e s, c_get c (ev e s) = c_get c s).

Definition cr_cell (n : Z) : cell :=
  {| c_get := fun s => cr s n; c_rd := i_mov_from_cr n; c_wr := i_mov_to_cr n;
     c_rd_ev := fun s => [E_MOVFROMCR; n; cr s n; 0]; c_wr_ev := fun v => [E_MOVTOCR; n; v; 0];
     c_set := set_cr n |}.
Definition dr_cell (n : Z) : cell :=
  {| c_get := fun s => dr s n; c_rd := i_mov_from_dr n; c_wr := i_mov_to_dr n;
     c_rd_ev := fun s => [E_MOVFROMDR; n; dr s n; 0]; c_wr_ev := fun v => [E_MOVTODR; n; v; 0];
     c_set := set_dr n |}.
Definition msr_cell (n : Z) : cell :=
  {| c_get := fun s => msr s n; c_rd := i_rdmsr n; c_wr := i_wrmsr n;
     c_rd_ev := fun s => [E_RDMSR; n; msr s n; 0]; c_wr_ev := fun v => [E_WRMSR; n; v; 0];
     c_set := set_msr n |}.

Lemma upd_same f k v : upd f k v k = v.
Proof. unfold upd. rewrite Z.eqb_refl. reflexivity. Qed.
Lemma upd_other f k v j : j <> k -> upd f k v j = f j.
Proof. unfold upd. intros H. destruct (j =? k) eqn:E; [lia|reflexivity]. Qed.

Lemma cr_cell_ok n : cell_ok (cr_cell n).
Proof. unfold cell_ok, cr_cell; cbn. splits; try reflexivity. intros v s. apply upd_same. Qed.
Lemma dr_cell_ok n : cell_ok (dr_cell n).
Proof. unfold cell_ok, dr_cell; cbn. splits; try reflexivity. intros v s. apply upd_same. Qed.
Lemma msr_cell_ok n : cell_ok (msr_cell n).
Proof. unfold cell_ok, msr_cell; cbn. splits; try reflexivity. intros v s. apply upd_same. Qed.

(* ---- the typed read / write / update scheme (Cr0, Cr4, Efer) ---- *)
Section Typed.
Variable c : cell.
Hypothesis Hc : cell_ok c.
Variable all : Z.
Hypothesis Hall : u64 all.

Theorem typed_read_spec s :
  typed_read (c_rd c) all s = Ok (Z.land (c_get c s) all, ev (c_rd_ev c s) s).
Proof. destruct Hc as (Hr & _). unfold typed_read, mbind, ret. rewrite Hr. reflexivity. Qed.

Theorem typed_write_spec f s :
  typed_write (c_rd c) (c_wr c) all f s =
  Ok (tt, ev (c_wr_ev c (merge (c_get c s) all f))
             (c_set c (merge (c_get c s) all f) (ev (c_rd_ev c s) s))).
Proof.
  destruct Hc as (Hr & Hw & _). unfold typed_write, mbind. rewrite Hr, Hw. reflexivity.
Qed.

(* what the register holds after a typed write: the given fields, every unmodelled bit kept;
   and the next typed read returns what was written *)
Theorem typed_write_effect f s s' : Z.land f all = f ->
  typed_write (c_rd c) (c_wr c) all f s = Ok (tt, s') ->
  Z.land (c_get c s') all = f /\
  Z.land (c_get c s') (not64 all) = Z.land (c_get c s) (not64 all) /\
  exists s'', typed_read (c_rd c) all s' = Ok (f, s'').
Proof.
  intros Hsub. rewrite typed_write_spec. intros [= <-].
  destruct Hc as (Hr & Hw & Hgs & Hge).
  rewrite Hge, Hgs. split; [apply merge_modelled; assumption|].
  split; [apply merge_unmodelled; assumption|].
  eexists. rewrite typed_read_spec, Hge, Hgs, merge_modelled by assumption. reflexivity.
Qed.

Theorem typed_update_is_rmw t s :
  typed_update (c_rd c) (c_wr c) all t s =
  (let* f := typed_read (c_rd c) all in typed_write (c_rd c) (c_wr c) all (Z.lxor f t)) s.
Proof. reflexivity. Qed.
End Typed.

(* raw accessors: exactly one instruction on exactly that register *)
Theorem raw_write_spec c v s : cell_ok c ->
  c_wr c v s = Ok (tt, ev (c_wr_ev c v) (c_set c v s)) /\ c_get c (ev (c_wr_ev c v) (c_set c v s)) = v.
Proof. intros (Hr & Hw & Hgs & Hge). split; [apply Hw|]. rewrite Hge, Hgs. reflexivity. Qed.
Theorem raw_read_spec c s : cell_ok c -> c_rd c s = Ok (c_get c s, ev (c_rd_ev c s) s).
Proof. intros (Hr & _). apply Hr. Qed.

(* the concrete wrappers are instances (definitional) *)
Theorem cr0_is_typed_cr0 :
  cr0_read = typed_read (c_rd (cr_cell 0)) CR0_ALL /\
  cr0_write = typed_write (c_rd (cr_cell 0)) (c_wr (cr_cell 0)) CR0_ALL /\
  cr0_update = typed_update (c_rd (cr_cell 0)) (c_wr (cr_cell 0)) CR0_ALL /\
  cr0_read_raw = c_rd (cr_cell 0) /\ cr0_write_raw = c_wr (cr_cell 0).
Proof. splits; reflexivity. Qed.
Theorem cr4_is_typed_cr4 :
  cr4_read = typed_read (c_rd (cr_cell 4)) CR4_ALL /\
  cr4_write = typed_write (c_rd (cr_cell 4)) (c_wr (cr_cell 4)) CR4_ALL /\
  cr4_update = typed_update (c_rd (cr_cell 4)) (c_wr (cr_cell 4)) CR4_ALL /\
  cr4_read_raw = c_rd (cr_cell 4) /\ cr4_write_raw = c_wr (cr_cell 4).
Proof. splits; reflexivity. Qed.
Theorem efer_is_typed_msr :
  efer_read = typed_read (c_rd (msr_cell MSR_EFER)) EFER_ALL /\
  efer_write = typed_write (c_rd (msr_cell MSR_EFER)) (c_wr (msr_cell MSR_EFER)) EFER_ALL /\
  efer_update = typed_update (c_rd (msr_cell MSR_EFER)) (c_wr (msr_cell MSR_EFER)) EFER_ALL /\
  efer_read_raw = c_rd (msr_cell MSR_EFER) /\ efer_write_raw = c_wr (msr_cell MSR_EFER).
Proof. splits; reflexivity. Qed.

(* a write to one register changes no other register of its class *)
Theorem cells_independent :
  (forall n m v s, m <> n -> cr (set_cr n v s) m = cr s m) /\
  (forall n m v s, m <> n -> dr (set_dr n v s) m = dr s m) /\
  (forall n m v s, m <> n -> msr (set_msr n v s) m = msr s m) /\
  (forall n v s, dr (set_cr n v s) = dr s /\ msr (set_cr n v s) = msr s /\ xcr0 (set_cr n v s) = xcr0 s) /\
  (forall n v s, cr (set_msr n v s) = cr s /\ dr (set_msr n v s) = dr s /\ xcr0 (set_msr n v s) = xcr0 s) /\
  (forall n v s, cr (set_dr n v s) = cr s /\ msr (set_dr n v s) = msr s /\ xcr0 (set_dr n v s) = xcr0 s).
Proof. splits; intros; cbn; auto using upd_other. Qed.

(* ---- Msr(n): every index, every value ---- *)
Theorem msr_roundtrip n v s :
  exists s1 s2, msr_write n v s = Ok (tt, s1) /\ msr_read n s1 = Ok (v, s2) /\
    log s1 = [E_WRMSR; n; v; 0] :: log s /\ (forall m, m <> n -> msr s1 m = msr s m) /\
    cr s1 = cr s /\ dr s1 = dr s.
Proof.
  do 2 eexists. unfold msr_write, msr_read, i_wrmsr, i_rdmsr. split; [reflexivity|].
  cbn. rewrite upd_same. splits; try reflexivity. intros m Hm. apply upd_other. assumption.
Qed.

(* ---- Cr3 ---- *)
Definition frame_ok (f : Z) : Prop := aligned_phys f.
Lemma cr3_value_split frame low : frame_ok frame -> 0 <= low < 4096 ->
  Z.lor (Z.lor (shl64 0 63) frame) low = frame + low /\
  Z.land (frame + low) ADDR_MASK = frame /\ (frame + low) mod 4096 = low.
Proof.
  intros Hf Hl. change (shl64 0 63) with 0. rewrite Z.lor_0_l.
  assert (HF : flagdom low) by (exists low, 0; unfold P52; lia).
  rewrite lor_addr_flags by assumption.
  assert (Hu : u64 (frame + low)) by (apply stored_range; assumption).
  destruct (pte_addr_total (frame + low) Hu) as [E _].
  pose proof (addr_of_stored frame low Hf HF) as E2. unfold pte_addr in E, E2.
  destruct Hf as [Hp Ha]. split; [reflexivity|]. split.
  - unfold ADDR_MASK. change 4503599627366400 with (2 ^ 52 - 2 ^ 12).
    rewrite land_mask_range by lia. change (2 ^ 52) with P52. change (2 ^ 12) with 4096.
    unfold P52 in *. Local Ltac Zify.zify_post_hook ::= Z.div_mod_to_equations. lia.
  - unfold P52 in *. lia.
Qed.

Theorem cr3_write_read frame flags s : frame_ok frame ->
  flags = 0 \/ flags = 8 \/ flags = 16 \/ flags = 24 ->       (* every subset of Cr3Flags *)
  exists s1 s2, cr3_write frame flags s = Ok (tt, s1) /\ cr s1 3 = frame + flags /\
    cr3_read s1 = Ok ((frame, flags), s2) /\ log s1 = [E_MOVTOCR; 3; frame + flags; 0] :: log s.
Proof.
  intros Hf Hcases.
  assert (Hfl : Z.land flags CR3_ALL = flags) by (destruct Hcases as [-> | [-> | [-> | ->]]]; reflexivity).
  assert (Hlt : 0 <= flags < 4096) by lia.
  assert (Ht : trunc16 flags = flags) by (unfold trunc16, W16; apply Z.mod_small; lia).
  destruct (cr3_value_split frame flags Hf Hlt) as (E1 & E2 & E3).
  do 2 eexists. unfold cr3_write, cr3_write_raw_impl, i_mov_to_cr. rewrite Ht. cbn [b2z].
  rewrite E1. split; [reflexivity|]. cbn [cr set_cr ev]. rewrite upd_same. split; [reflexivity|].
  split; [|reflexivity].
  unfold cr3_read, cr3_read_raw, mbind, i_mov_from_cr, lift. cbn [cr set_cr ev]. rewrite upd_same, E2.
  destruct Hf as [Hp Ha]. rewrite pa_new_spec by (apply phys_u64; assumption).
  assert (Hpb : physb frame = true) by (apply physb_spec; assumption). rewrite Hpb.
  rewrite frame_containing_aligned by (try (left; reflexivity); split; assumption).
  unfold ret. cbn [fst snd]. 
  assert (El : Z.land (frame + flags) 4095 = flags).
  { change 4095 with (2 ^ 12 - 1). rewrite land_ones_mod by lia. change (2 ^ 12) with 4096. exact E3. }
  rewrite El, Ht, Hfl. reflexivity.
Qed.

Theorem cr3_write_pcid_read frame pcid s : frame_ok frame -> 0 <= pcid < 4096 ->
  exists s1 s2, cr3_write_pcid frame pcid s = Ok (tt, s1) /\ cr s1 3 = frame + pcid /\
    cr3_read_pcid s1 = Ok ((frame, pcid), s2) /\ cr3_read_raw s1 = Ok ((frame, pcid), s2).
Proof.
  intros Hf Hp.
  assert (Ht : trunc16 pcid = pcid) by (unfold trunc16, W16; apply Z.mod_small; lia).
  destruct (cr3_value_split frame pcid Hf Hp) as (E1 & E2 & E3).
  do 2 eexists. unfold cr3_write_pcid, cr3_write_raw_impl, i_mov_to_cr. cbn [b2z]. rewrite E1.
  split; [reflexivity|]. cbn [cr set_cr ev]. rewrite upd_same. split; [reflexivity|].
  assert (El : Z.land (frame + pcid) 4095 = pcid).
  { change 4095 with (2 ^ 12 - 1). rewrite land_ones_mod by lia. change (2 ^ 12) with 4096. exact E3. }
  assert (R : cr3_read_raw (ev [E_MOVTOCR; 3; frame + pcid; 0] (set_cr 3 (frame + pcid) s)) =
              Ok ((frame, pcid), ev [E_MOVFROMCR; 3; frame + pcid; 0] (ev [E_MOVTOCR; 3; frame + pcid; 0] (set_cr 3 (frame + pcid) s)))).
  { unfold cr3_read_raw, mbind, i_mov_from_cr, lift. cbn [cr set_cr ev]. rewrite upd_same, E2.
    destruct Hf as [Hph Ha]. rewrite pa_new_spec by (apply phys_u64; assumption).
    assert (Hpb : physb frame = true) by (apply physb_spec; assumption). rewrite Hpb.
    rewrite frame_containing_aligned by (try (left; reflexivity); split; assumption).
    unfold ret. rewrite El, Ht. reflexivity. }
  split; [|exact R].
  unfold cr3_read_pcid, mbind. rewrite R. cbn [fst snd]. unfold pcid_new.
  destruct (pcid <? 4096) eqn:E; [reflexivity|lia].
Qed.

Theorem cr3_no_flush_sets_bit63 frame pcid s : frame_ok frame -> 0 <= pcid < 4096 ->
  exists s1, cr3_write_pcid_no_flush frame pcid s = Ok (tt, s1) /\
             cr s1 3 = 2 ^ 63 + frame + pcid.
Proof.
  intros Hf Hp. eexists. unfold cr3_write_pcid_no_flush, cr3_write_raw_impl, i_mov_to_cr.
  split; [reflexivity|]. cbn [cr set_cr ev b2z]. rewrite upd_same.
  change (shl64 1 63) with (2 ^ 63).
  assert (HF : flagdom pcid) by (exists pcid, 0; unfold P52; lia).
  assert (Hlow : 0 <= frame + pcid < 2 ^ 63).
  { pose proof (stored_range frame pcid Hf HF). destruct Hf as [Hph _]. unfold phys, P52 in *. lia. }
  rewrite <- Z.lor_assoc, (lor_addr_flags frame pcid Hf HF).
  rewrite (lor_disjoint_add (2 ^ 63) (frame + pcid) 63); [lia|lia|lia|apply Z.mod_same; lia].
Qed.

(* ---- FsBase / GsBase / KernelGsBase / LStar ---- *)
Theorem vaddr_msr_roundtrip n a s : canonical a ->
  exists s1 s2, vaddr_msr_write n a s = Ok (tt, s1) /\ msr s1 n = a /\
                vaddr_msr_read n s1 = Ok (a, s2).
Proof.
  intros Hc. do 2 eexists. unfold vaddr_msr_write, vaddr_msr_read, msr_write, msr_read, i_wrmsr, i_rdmsr, mbind, lift.
  split; [reflexivity|]. cbn [msr set_msr ev]. rewrite upd_same. split; [reflexivity|].
  rewrite va_new_spec by (apply canonical_u64; assumption).
  apply canonicalb_spec in Hc. rewrite Hc. reflexivity.
Qed.
Theorem vaddr_msr_read_never_wrong n s v s' : u64 (msr s n) ->
  vaddr_msr_read n s = Ok (v, s') -> v = msr s n /\ canonical v.
Proof.
  intros Hu. unfold vaddr_msr_read, msr_read, i_rdmsr, mbind, lift.
  destruct (va_new (msr s n)) as [x|] eqn:E; [|discriminate]. intros [= <- _].
  apply va_new_ok in E; [|assumption]. destruct E as [-> Hc]. auto.
Qed.

(* ---- XCR0: every documented invalid combination is rejected before any XSETBV ---- *)
Definition xcr0_valid (f : Z) : bool :=
  contains f 1 && (negb (contains f 4) || contains f 2) &&
  (negb (intersects f 24) || contains f 24) &&
  (negb (intersects f 224) || (contains f 4 && contains f 224)).
Theorem xcr0_write_spec f s :
  xcr0_write f s =
  if xcr0_valid f then Ok (tt, ev [E_XSETBV; 0; merge (xcr0 s) XCR0_ALL f; 0]
                                (set_xcr0 (merge (xcr0 s) XCR0_ALL f) s))
  else Panic.
Proof.
  unfold xcr0_write, xcr0_valid, xcr0_read_raw, i_xgetbv, mbind, massert, ret, mpanic,
    xcr0_write_raw, i_xsetbv, merge, land_not.
  destruct (contains f 1); cbn [andb]; [|reflexivity].
  destruct (contains f 4), (contains f 2); cbn [andb orb negb];
  destruct (intersects f 24), (contains f 24); cbn [andb orb negb];
  destruct (intersects f 224), (contains f 224); cbn [andb orb negb]; reflexivity.
Qed.

(* ---- ApicBase (after fix F9): what write accepts, read returns ---- *)
Theorem apic_write_read frame flags s : frame_ok frame -> Z.land flags APIC_ALL = flags ->
  u64 (msr s MSR_APIC_BASE) ->
  exists s1 s2, apic_write frame flags s = Ok (tt, s1) /\ apic_read s1 = Ok ((frame, flags), s2) /\
    Z.land (msr s1 MSR_APIC_BASE) (not64 (Z.lor APIC_ALL ADDR_MASK)) =
    Z.land (msr s MSR_APIC_BASE) (not64 (Z.lor APIC_ALL ADDR_MASK)).
Proof.
  intros Hf Hfl Hu. set (old := msr s MSR_APIC_BASE) in *.
  set (K := Z.lor APIC_ALL ADDR_MASK).
  assert (HK : u64 K) by (unfold u64, W64; cbn; lia).
  assert (Hsub : Z.land (Z.lor flags frame) K = Z.lor flags frame).
  { apply Z.bits_inj'. intros i Hi. rewrite Z.land_spec, Z.lor_spec.
    destruct (Z.testbit flags i) eqn:E1.
    - pose proof (subset_bits flags APIC_ALL i Hfl E1) as H1. unfold K. rewrite Z.lor_spec, H1. reflexivity.
    - destruct (Z.testbit frame i) eqn:E2; [|reflexivity]. unfold K. rewrite Z.lor_spec.
      assert (Z.testbit ADDR_MASK i = true); [|rewrite H; rewrite !orb_true_r; reflexivity].
      destruct Hf as [[H0 Hlt] Hal].
      destruct (Z_lt_dec i 12); [rewrite (testbit_low_zero frame 12 i) in E2 by (auto; lia); discriminate|].
      destruct (Z_lt_dec i 52); [|rewrite (testbit_high_zero frame 52 i) in E2 by (unfold P52 in *; lia); discriminate].
      change ADDR_MASK with (Z.shiftl (Z.ones 40) 12). rewrite Z.shiftl_spec by lia.
      apply Z.ones_spec_low. lia. }
  assert (Enew : forall x, Z.lor (Z.lor (Z.land x (not64 K)) flags) frame = merge x K (Z.lor flags frame)).
  { intros x. unfold merge. rewrite Z.lor_assoc. reflexivity. }
  do 2 eexists. unfold apic_write, apic_read_raw, apic_write_raw, msr_read, msr_write, i_rdmsr, i_wrmsr, mbind, lift, ret.
  fold old.
  assert (Hs4 : page_size S4K) by (left; reflexivity).
  destruct (frame_containing_spec S4K (pa_new_truncate old) Hs4 (pa_new_truncate_phys old)) as (p0 & -> & _).
  cbn [fst snd msr ev]. fold old. unfold land_not. fold K. rewrite Enew.
  split; [reflexivity|].
  set (new := merge old K (Z.lor flags frame)).
  assert (Hnew_mod : Z.land new K = Z.lor flags frame) by (apply merge_modelled; assumption).
  split.
  - unfold apic_read, apic_read_raw, msr_read, i_rdmsr, mbind, lift, ret. cbn [msr set_msr ev].
    rewrite upd_same. fold new.
    (* frame: bits 12..51 of new = frame; flags: new & APIC_ALL = flags *)
    assert (Haddr : Z.land new ADDR_MASK = frame).
    { assert (Z.land new ADDR_MASK = Z.land (Z.land new K) ADDR_MASK).
      { rewrite <- Z.land_assoc. f_equal; reflexivity. }
      rewrite H, Hnew_mod, Z.land_lor_distr_l.
      assert (Z.land flags ADDR_MASK = 0).
      { rewrite <- Hfl, <- Z.land_assoc. change (Z.land APIC_ALL ADDR_MASK) with 0. apply Z.land_0_r. }
      rewrite H0, Z.lor_0_l. destruct Hf as [[H1 H2] Hal].
      unfold ADDR_MASK. change 4503599627366400 with (2 ^ 52 - 2 ^ 12). rewrite land_mask_range by lia.
      change (2 ^ 52) with P52. change (2 ^ 12) with 4096. rewrite Z.mod_small by lia. lia. }
    assert (Hfc : frame_containing S4K (pa_new_truncate new) = Ok frame).
    { unfold frame_containing, pa_align_down. change S4K with (2 ^ 12).
      assert (Hpn : phys (pa_new_truncate new)) by apply pa_new_truncate_phys.
      rewrite align_down_spec by (try apply phys_u64; auto; lia). f_equal.
      unfold round_down, pa_new_truncate. 
      pose proof Haddr as Ha2. unfold ADDR_MASK in Ha2. change 4503599627366400 with (2 ^ 52 - 2 ^ 12) in Ha2.
      rewrite land_mask_range in Ha2 by lia. change (2 ^ 52) with P52 in Ha2.
      change P52 with (2 ^ 52). rewrite (mod_mod_pow2 new 52 12) by lia. exact Ha2. }
    rewrite Hfc. cbn [fst snd].
    assert (Hfl2 : Z.land new APIC_ALL = flags).
    { assert (Z.land new APIC_ALL = Z.land (Z.land new K) APIC_ALL).
      { rewrite <- Z.land_assoc. f_equal; reflexivity. }
      rewrite H, Hnew_mod, Z.land_lor_distr_l, Hfl.
      assert (Z.land frame APIC_ALL = 0).
      { destruct Hf as [[H1 H2] Hal]. apply Z.bits_inj'. intros i Hi. rewrite Z.land_spec, Z.bits_0.
        destruct (Z_lt_dec i 12); [rewrite (testbit_low_zero frame 12 i) by (auto; lia); reflexivity|].
        rewrite (testbit_high_zero APIC_ALL 12 i) by (unfold APIC_ALL; cbn; lia). apply andb_false_r. }
      rewrite H0, Z.lor_0_r. reflexivity. }
    rewrite Hfl2. reflexivity.
  - cbn [msr set_msr ev]. rewrite upd_same. fold new. apply merge_unmodelled; assumption.
Qed.

(* before fix F9 the old base leaked into the new one: the witness of the finding *)
Example apic_write_refuted_before_fix :
  let old := 4276095232 in                      (* 0xfee0_0900 *)
  let reserved_old_code := Z.land old (not64 APIC_ALL) in
  Z.lor (Z.lor reserved_old_code 2048) 4096 = 4276099072.   (* 0xfee0_1800: base 0xfee0_1000, not 0x1000 *)
Proof. vm_compute. reflexivity. Qed.

(* ---- Star: rejects exactly the four documented mismatches without writing ---- *)
Theorem star_write_rejects_without_writing oc a1 a2 a3 a4 s r s' :
  star_write oc a1 a2 a3 a4 s = Ok (r, s') -> r <> 0 -> s' = s.
Proof.
  unfold star_write. destruct (negb (a1 - 16 =? a2 - 8)); [intros [= <- <-]; reflexivity|].
  destruct (negb (a3 =? a4 - 8)); [intros [= <- <-]; reflexivity|].
  unfold mbind at 1. unfold lift at 1. destruct (sel_rpl a2) as [r3|]; [|discriminate].
  destruct (negb (r3 =? 3)); [intros [= <- <-]; reflexivity|].
  unfold mbind at 1. unfold lift at 1. destruct (sel_rpl a4) as [r0|]; [|discriminate].
  destruct (negb (r0 =? 0)); [intros [= <- <-]; reflexivity|].
  unfold mbind at 1. unfold lift at 1. destruct (sub16 oc a2 8) as [b|]; [|discriminate].
  unfold mbind. destruct (star_write_raw b a3 s) as [[u s1]|]; [|discriminate].
  intros [= <- _] H. congruence.
Qed.
Theorem star_write_decision oc a1 a2 a3 a4 s : 0 <= a2 < W16 -> 0 <= a4 < W16 ->
  a1 - 16 <> a2 - 8 \/ a3 <> a4 - 8 \/ a2 mod 4 <> 3 \/ a4 mod 4 <> 0 ->
  exists r, star_write oc a1 a2 a3 a4 s = Ok (r, s) /\ r <> 0.
Proof.
  intros H2 H4 H. unfold star_write.
  destruct (a1 - 16 =? a2 - 8) eqn:E1; cbn [negb]; [|exists 1; split; [reflexivity|lia]].
  destruct (a3 =? a4 - 8) eqn:E2; cbn [negb]; [|exists 2; split; [reflexivity|lia]].
  assert (R : forall x, 0 <= x < W16 -> sel_rpl x = Ok (x mod 4)).
  { intros x Hx. unfold sel_rpl, get_bits, priv_from_u16. rewrite Z.shiftr_0_r.
    change (2 ^ (2 - 0)) with 4. pose proof (Z.mod_pos_bound x 4 ltac:(lia)).
    destruct (x mod 4 <? 4) eqn:E; [reflexivity|lia]. }
  unfold mbind at 1. unfold lift at 1. rewrite (R a2 H2).
  destruct (a2 mod 4 =? 3) eqn:E3; cbn [negb]; [|exists 3; split; [reflexivity|lia]].
  unfold mbind at 1. unfold lift at 1. rewrite (R a4 H4).
  destruct (a4 mod 4 =? 0) eqn:E4; cbn [negb]; [|exists 4; split; [reflexivity|lia]].
  lia.
Qed.
Theorem star_write_read_roundtrip a2 a3 s : 8 <= a2 < W16 - 8 -> a2 mod 4 = 3 -> 0 <= a3 < W16 - 8 ->
  a3 mod 4 = 0 ->
  exists s1 s2, star_write true (a2 + 8) a2 a3 (a3 + 8) s = Ok (0, s1) /\
    msr s1 MSR_STAR = (a2 - 8) * 2 ^ 48 + a3 * 2 ^ 32 /\
    star_read true s1 = Ok ([a2 + 8; a2; a3; a3 + 8], s2).
Proof.
  intros H2 H2m H3 H3m. unfold W16 in *.
  assert (R : forall x, 0 <= x < 65536 -> sel_rpl x = Ok (x mod 4)).
  { intros x Hx. unfold sel_rpl, get_bits, priv_from_u16. rewrite Z.shiftr_0_r.
    change (2 ^ (2 - 0)) with 4. pose proof (Z.mod_pos_bound x 4 ltac:(lia)).
    destruct (x mod 4 <? 4) eqn:E; [reflexivity|lia]. }
  assert (Hm4 : (a3 + 8) mod 4 = 0).
  { rewrite Z.add_mod, H3m by lia. reflexivity. }
  set (v := (a2 - 8) * 2 ^ 48 + a3 * 2 ^ 32).
  assert (Hw : star_write_raw (a2 - 8) a3 s = Ok (tt, ev [E_WRMSR; MSR_STAR; v; 0] (set_msr MSR_STAR v s))).
  { unfold star_write_raw, mbind, lift, set_bits, get_bits.
    change (2 ^ (64 - 48)) with 65536. change (2 ^ (48 - 32)) with 65536.
    destruct (a2 - 8 <? 65536) eqn:E1; [|lia]. rewrite Z.shiftr_0_l, Z.mod_0_l by lia.
    destruct (a3 <? 65536) eqn:E2; [|lia].
    replace (0 - 0 * 2 ^ 48 + (a2 - 8) * 2 ^ 48) with ((a2 - 8) * 2 ^ 48) by lia.
    assert (Z.shiftr ((a2 - 8) * 2 ^ 48) 32 mod 65536 = 0) as ->.
    { rewrite Z.shiftr_div_pow2 by lia. change (2 ^ 48) with (2 ^ 16 * 2 ^ 32).
      rewrite Z.mul_assoc, Z.div_mul by lia. change (2 ^ 16) with 65536. apply Z.mod_mul. lia. }
    unfold msr_write, i_wrmsr, v.
    change (2 ^ 48) with 281474976710656. change (2 ^ 32) with 4294967296.
    replace ((a2 - 8) * 281474976710656 - 0 * 4294967296 + a3 * 4294967296)
      with ((a2 - 8) * 281474976710656 + a3 * 4294967296) by lia.
    reflexivity. }
  do 2 eexists. unfold star_write.
  replace (a2 + 8 - 16) with (a2 - 8) by lia. rewrite Z.eqb_refl. cbn [negb].
  replace (a3 + 8 - 8) with a3 by lia. rewrite Z.eqb_refl. cbn [negb].
  unfold mbind at 1. unfold lift at 1. rewrite (R a2) by lia. rewrite H2m. cbn [Z.eqb negb Pos.eqb].
  unfold mbind at 1. unfold lift at 1. rewrite (R (a3 + 8)) by lia. rewrite Hm4. cbn [Z.eqb negb].
  unfold mbind at 1. unfold lift at 1. unfold sub16. destruct (8 <=? a2) eqn:E8; [|lia].
  unfold mbind at 1. rewrite Hw. unfold ret. split; [reflexivity|].
  cbn [msr set_msr ev]. rewrite upd_same. split; [reflexivity|].
  unfold star_read, star_read_raw, msr_read, i_rdmsr, mbind, ret, lift. cbn [msr set_msr ev fst snd].
  rewrite upd_same.
  assert (G1 : get_bits v 48 64 = a2 - 8).
  { unfold get_bits, v. rewrite Z.shiftr_div_pow2 by lia. change (2 ^ (64 - 48)) with 65536.
    change (2 ^ 48) with 281474976710656. change (2 ^ 32) with 4294967296.
    Local Ltac Zify.zify_post_hook ::= Z.div_mod_to_equations. lia. }
  assert (G2 : get_bits v 32 48 = a3).
  { unfold get_bits, v. rewrite Z.shiftr_div_pow2 by lia. change (2 ^ (48 - 32)) with 65536.
    change (2 ^ 48) with 281474976710656. change (2 ^ 32) with 4294967296. lia. }
  rewrite G1, G2. unfold add16, W16.
  destruct (a2 - 8 + 16 <? 65536) eqn:F1; [|lia].
  destruct (a2 - 8 + 8 <? 65536) eqn:F2; [|lia].
  destruct (a3 + 8 <? 65536) eqn:F3; [|lia].
  do 3 f_equal; [lia|f_equal; lia].
Qed.

(* ---- C17: interrupts ---- *)
Definition preserves_if {R} (f : M R) : Prop :=
  forall s r s', f s = Ok (r, s') -> iflag s' = iflag s.

Theorem are_enabled_reports_flag s : are_enabled s = Ok (iflag s, s).
Proof. reflexivity. Qed.
Theorem enable_sets_flag s :
  int_enable s = Ok (tt, ev [E_STI; 0; 0; 0] (set_if true s)) /\
  int_disable s = Ok (tt, ev [E_CLI; 0; 0; 0] (set_if false s)).
Proof. split; reflexivity. Qed.
(* ... and change nothing else *)
Theorem set_if_changes_only_if b s :
  cr (set_if b s) = cr s /\ dr (set_if b s) = dr s /\ msr (set_if b s) = msr s /\
  xcr0 (set_if b s) = xcr0 s /\ sreg (set_if b s) = sreg s /\ tr (set_if b s) = tr s /\
  gdtr (set_if b s) = gdtr s /\ idtr (set_if b s) = idtr s /\ iflag (set_if b s) = b.
Proof. splits; reflexivity. Qed.

(* without_interrupts is exactly: [cli] f [sti] when enabled, f alone otherwise: f runs once *)
Theorem without_interrupts_unfold {R} (f : M R) s :
  without_interrupts f s =
  if iflag s then
    (let* _ := int_disable in let* r := f in let* _ := int_enable in ret r) s
  else (let* r := f in ret r) s.
Proof.
  unfold without_interrupts, mbind at 1. rewrite are_enabled_reports_flag.
  destruct (iflag s); [reflexivity|].
  unfold mbind, ret. destruct (f s) as [[r s']|]; reflexivity.
Qed.

Theorem without_interrupts_spec {R} (f : M R) s r s' : preserves_if f ->
  without_interrupts f s = Ok (r, s') ->
  iflag s' = iflag s /\
  exists s1 s2, f s1 = Ok (r, s2) /\ iflag s1 = false.
Proof.
  intros Hp. rewrite without_interrupts_unfold. destruct (iflag s) eqn:Ei.
  - unfold mbind, int_disable, i_cli, int_enable, i_sti, ret.
    destruct (f (ev [E_CLI; 0; 0; 0] (set_if false s))) as [[r1 s1]|] eqn:Ef; [|discriminate].
    intros [= <- <-]. split; [reflexivity|]. do 2 eexists. split; [exact Ef|reflexivity].
  - unfold mbind, ret. destruct (f s) as [[r1 s1]|] eqn:Ef; [|discriminate].
    intros [= <- <-]. split; [rewrite (Hp _ _ _ Ef); assumption|].
    do 2 eexists. split; [exact Ef|assumption].
Qed.

Theorem without_interrupts_closed {R} (f : M R) : preserves_if f -> preserves_if (without_interrupts f).
Proof.
  intros Hp s r s' H. apply (without_interrupts_spec f s r s' Hp H).
Qed.

(* every finite nesting / sequencing of without_interrupts over flag-preserving closures *)
Inductive body :=
| Leaf (g : M Z)
| Seq (b1 b2 : body)
| Nest (b : body).
Fixpoint denote (b : body) : M Z :=
  match b with
  | Leaf g => g
  | Seq b1 b2 => let* _ := denote b1 in denote b2
  | Nest b => without_interrupts (denote b)
  end.
Fixpoint leaves_ok (b : body) : Prop :=
  match b with
  | Leaf g => preserves_if g
  | Seq b1 b2 => leaves_ok b1 /\ leaves_ok b2
  | Nest b => leaves_ok b
  end.
Theorem nesting_restores_flag b : leaves_ok b -> preserves_if (denote b).
Proof.
  induction b as [g|b1 IH1 b2 IH2|b IH]; cbn [denote leaves_ok].
  - auto.
  - intros [H1 H2] s r s'. unfold mbind. destruct (denote b1 s) as [[r1 s1]|] eqn:E1; [|discriminate].
    intros E2. rewrite (IH2 H2 _ _ _ E2). apply (IH1 H1 _ _ _ E1).
  - intros H. apply without_interrupts_closed, IH, H.
Qed.

(* enable_and_hlt: the enable and the halt are consecutive instructions of one block *)
Theorem enable_and_hlt_spec s :
  enable_and_hlt s = Ok (tt, ev [E_HLT; 0; 0; 1] (ev [E_STI; 0; 0; 0] (set_if true s))).
Proof. reflexivity. Qed.

Example nesting_example :
  let leaf := (let* b := are_enabled in ret (b2z b)) in
  (denote (Nest (Seq (Leaf leaf) (Nest (Leaf leaf)))) init_state) =
  Ok (0, ev [E_STI; 0; 0; 0] (set_if true (ev [E_CLI; 0; 0; 0] (set_if false init_state)))).
Proof. reflexivity. Qed.

(* ---- C18: ports ---- *)
Theorem port_read_spec w p s :
  port_read w p s =
  Ok (device_value (port_seed s) p (port_seq s) w,
      ev [E_IN; w; p; device_value (port_seed s) p (port_seq s) w]
         (set_port (port_seed s) (port_seq s + 1) s)).
Proof. reflexivity. Qed.
Theorem port_write_spec w p v s : port_write w p v s = Ok (tt, ev [E_OUT; w; p; v] s).
Proof. reflexivity. Qed.
(* exactly one port instruction, nothing else changes *)
Theorem port_access_footprint w p v s : 0 <= w ->
  (exists r s1, port_read w p s = Ok (r, s1) /\ log s1 = [E_IN; w; p; r] :: log s /\
      cr s1 = cr s /\ dr s1 = dr s /\ msr s1 = msr s /\ iflag s1 = iflag s /\ 0 <= r < 2 ^ w) /\
  (exists s1, port_write w p v s = Ok (tt, s1) /\ log s1 = [E_OUT; w; p; v] :: log s /\
      cr s1 = cr s /\ dr s1 = dr s /\ msr s1 = msr s /\ iflag s1 = iflag s).
Proof.
  intros Hw. split.
  - do 2 eexists. split; [apply port_read_spec|]. cbn [log cr dr msr iflag ev set_port].
    do 5 (split; [reflexivity|]).
    unfold device_value. apply Z.mod_pos_bound. apply Z.pow_pos_nonneg; lia.
  - eexists. split; [apply port_write_spec|]. cbn. splits; reflexivity.
Qed.
