(* C11 (instruction level): flush, flush_all, flush_pcid and the INVLPGB chunking loop. *)
From X86 Require Import Base.Word Base.Bits Addr.Model Addr.Canon Addr.Align Addr.Step Addr.Arith
  Addr.Range Addr.Reach Paging.Entry Paging.EntryProofs Machine.Wrappers Machine.Proofs.
Open Scope Z_scope.

Theorem tlb_flush_spec a s : tlb_flush a s = Ok (tt, ev [E_INVLPG; a; 0; 0] s).
Proof. reflexivity. Qed.

Theorem flush_pcid_spec kind addr pcid s :
  flush_pcid kind addr pcid s =
  Ok (tt, ev (if kind =? 0 then [E_INVPCID; 0; pcid; addr]
              else if kind =? 1 then [E_INVPCID; 1; pcid; 0]
              else if kind =? 2 then [E_INVPCID; 2; 0; 0] else [E_INVPCID; 3; 0; 0]) s).
Proof.
  unfold flush_pcid. destruct (kind =? 0); [reflexivity|].
  destruct (kind =? 1); [reflexivity|]. destruct (kind =? 2); reflexivity.
Qed.

(* flush_all reloads CR3 with its current value, for every architecturally readable CR3
   content (bits 52..63 read as zero), in particular for every PCID in the low 12 bits *)
Local Ltac Zify.zify_post_hook ::= Z.div_mod_to_equations.
Theorem flush_all_spec s : 0 <= cr s 3 < P52 ->
  tlb_flush_all s =
  Ok (tt, ev [E_MOVTOCR; 3; cr s 3; 0] (set_cr 3 (cr s 3) (ev [E_MOVFROMCR; 3; cr s 3; 0] s))).
Proof.
  intros Hv. set (v := cr s 3) in *.
  set (frame := v - v mod 4096). set (low := v mod 4096).
  assert (Hf : frame_ok frame).
  { unfold frame_ok, aligned_phys, frame, phys, P52 in *. lia. }
  assert (Hl : 0 <= low < 4096) by (unfold low; lia).
  destruct (cr3_value_split frame low Hf Hl) as (E1 & E2 & E3).
  assert (Ev : frame + low = v) by (unfold frame, low; lia).
  rewrite Ev in *.
  unfold tlb_flush_all, cr3_read_raw, cr3_write_raw, cr3_write_raw_impl, mbind, i_mov_from_cr, lift, ret.
  fold v. rewrite E2.
  destruct Hf as [Hp Ha]. rewrite pa_new_spec by (apply phys_u64; assumption).
  assert (Hpb : physb frame = true) by (apply physb_spec; assumption). rewrite Hpb.
  rewrite frame_containing_aligned by (try (left; reflexivity); split; assumption).
  cbn [fst snd].
  assert (El : Z.land v 4095 = low).
  { change 4095 with (2 ^ 12 - 1). rewrite land_ones_mod by lia. reflexivity. }
  rewrite El. assert (Ht : trunc16 low = low) by (unfold trunc16, W16; apply Z.mod_small; lia).
  rewrite Ht. cbn [b2z]. rewrite E1. unfold i_mov_to_cr. reflexivity.
Qed.

(* what the code did before fix F8: only bits 3 and 4 of the low 12 bits survived *)
Example flush_all_pcid_refuted_before_fix :
  let v := 4101 in                                  (* CR3 = 0x1005: frame 0x1000, PCID 5 *)
  Z.lor (Z.land v ADDR_MASK) (Z.land (Z.land v 4095) CR3_ALL) = 4096.
Proof. vm_compute. reflexivity. Qed.

(* ---------- the register encoding of one broadcast request ---------- *)
Definition opt_bits (b : builder) : Z :=
  (match b_pcid b with Some _ => 2 | None => 0 end) +
  (match b_asid b with Some _ => 4 | None => 0 end) +
  8 * b2z (b_global b) + 16 * b2z (b_final b) + 32 * b2z (b_nested b).
Definition edx_of (b : builder) : Z :=
  (match b_pcid b with Some p => p * 65536 | None => 0 end) +
  (match b_asid b with Some a => a | None => 0 end).
Definition builder_ok (b : builder) : Prop :=
  (forall p, b_pcid b = Some p -> 0 <= p < 4096) /\ (forall a, b_asid b = Some a -> 0 <= a < 65536).

Lemma pow2_u64 i : 0 <= i < 64 -> u64 (2 ^ i).
Proof.
  intros Hi. unfold u64, W64. change 18446744073709551616 with (2 ^ 64).
  split; [apply Z.pow_nonneg; lia|apply Z.pow_lt_mono_r; lia].
Qed.

(* set_bit on u64 as arithmetic: clear the bit, then add it back if requested *)
Lemma set_bit64_arith x i (bv : bool) : u64 x -> 0 <= i < 64 ->
  set_bit64 x i bv = x - ((x / 2 ^ i) mod 2) * 2 ^ i + b2z bv * 2 ^ i.
Proof.
  intros Hx Hi. pose proof (pow2_u64 i Hi) as Hu.
  assert (Hp : 0 < 2 ^ i) by (apply Z.pow_pos_nonneg; lia).
  unfold set_bit64, land_not.
  destruct (Z.testbit x i) eqn:Eb.
  - pose proof (proj1 (Z.testbit_true x i ltac:(lia)) Eb) as Hd. rewrite Hd.
    destruct bv; cbn [b2z].
    + replace (x - 1 * 2 ^ i + 1 * 2 ^ i) with x by lia.
      apply Z.bits_inj'. intros j Hj. rewrite Z.lor_spec, Z.pow2_bits_eqb by lia.
      destruct (Z.eqb_spec i j) as [->|]; [rewrite Eb; reflexivity|apply orb_false_r].
    + rewrite Z.mul_0_l, Z.add_0_r, Z.mul_1_l.
      (* x = (x land not 2^i) + 2^i *)
      assert (D : Z.land (Z.land x (not64 (2 ^ i))) (2 ^ i) = 0).
      { apply Z.bits_inj'. intros j Hj.
        rewrite !Z.land_spec, testbit_not64, Z.pow2_bits_eqb, Z.bits_0 by (auto; lia).
        destruct (Z.eqb_spec i j); cbn; rewrite ?andb_false_r; reflexivity. }
      assert (S : Z.lor (Z.land x (not64 (2 ^ i))) (2 ^ i) = x).
      { apply Z.bits_inj'. intros j Hj.
        rewrite Z.lor_spec, Z.land_spec, testbit_not64, Z.pow2_bits_eqb by (auto; lia).
        destruct (Z.eqb_spec i j) as [->|].
        - rewrite Eb. apply orb_true_r.
        - cbn. rewrite orb_false_r, andb_true_r.
          destruct (j <? 64) eqn:E; [apply andb_true_r|].
          rewrite andb_false_r. symmetry. apply testbit_u64_high; [assumption|lia]. }
      rewrite <- (Z.lxor_lor _ _ D), <- (Z.add_nocarry_lxor _ _ D) in S. lia.
  - pose proof (proj1 (Z.testbit_false x i ltac:(lia)) Eb) as Hd. rewrite Hd, Z.mul_0_l, Z.sub_0_r.
    destruct bv; cbn [b2z].
    + rewrite Z.mul_1_l.
      assert (E : Z.land x (2 ^ i) = 0).
      { apply Z.bits_inj'. intros j Hj. rewrite Z.land_spec, Z.bits_0, Z.pow2_bits_eqb by lia.
        destruct (Z.eqb_spec i j) as [->|]; [rewrite Eb|]; rewrite ?andb_false_r; reflexivity. }
      rewrite <- (Z.lxor_lor _ _ E), <- (Z.add_nocarry_lxor _ _ E). reflexivity.
    + rewrite Z.mul_0_l, Z.add_0_r.
      apply Z.bits_inj'. intros j Hj.
      rewrite Z.land_spec, testbit_not64, Z.pow2_bits_eqb by (auto; lia).
      destruct (Z.eqb_spec i j) as [->|].
      * rewrite Eb. reflexivity.
      * cbn. rewrite andb_true_r. destruct (j <? 64) eqn:E; [apply andb_true_r|].
        rewrite andb_false_r. symmetry. apply testbit_u64_high; [assumption|lia].
Qed.

Lemma get_bits_12_64 va : u64 va -> get_bits va 12 64 = va / 4096.
Proof.
  intros Hu. unfold get_bits. rewrite Z.shiftr_div_pow2 by lia. change (2 ^ 12) with 4096.
  change (2 ^ (64 - 12)) with 4503599627370496. unfold u64, W64 in Hu.
  apply Z.mod_small. lia.
Qed.

Ltac sb := rewrite set_bit64_arith by (unfold u64, W64 in *; lia).

Lemma set_bit64_low va c i (bv : bool) : u64 (va + c) -> va mod 4096 = 0 -> 0 <= c < 4096 ->
  0 <= i < 12 -> Z.testbit c i = false ->
  set_bit64 (va + c) i bv = va + (c + b2z bv * 2 ^ i).
Proof.
  intros Hu Hal Hc Hi Hb. rewrite set_bit64_arith by (auto; lia).
  assert (Ht : Z.testbit (va + c) i = false).
  { rewrite <- (Z.mod_pow2_bits_low (va + c) 12 i) by lia. change (2 ^ 12) with 4096.
    rewrite Z.add_mod, Hal, Z.add_0_l, Z.mod_mod, Z.mod_small by lia. exact Hb. }
  rewrite (proj1 (Z.testbit_false (va + c) i ltac:(lia)) Ht). lia.
Qed.

Ltac sbl :=
  match goal with
  | |- context [set_bit64 (?va + ?c) ?i ?b] =>
      let c' := eval vm_compute in (c + b2z b * 2 ^ i) in
      rewrite (set_bit64_low va c i b)
        by (first [assumption | reflexivity | (unfold u64, W64 in *; lia)]);
      change (c + b2z b * 2 ^ i) with c'
  end.

Theorem flush_broadcast_spec va count sz b s :
  canonical va -> va mod 4096 = 0 -> 0 <= count < 65536 -> builder_ok b ->
  flush_broadcast (Some (va, count, sz)) b s =
  Ok (tt, ev [E_INVLPGB; va + 1 + opt_bits b;
              count + (if sz =? S2M then 2147483648 else 0); edx_of b] s).
Proof.
  intros Hc Hal Hcnt [Hp Ha]. pose proof (canonical_u64 va Hc) as Hu.
  unfold flush_broadcast.
  change (set_bit64 0 0 true) with 1.
  rewrite get_bits_12_64 by assumption.
  assert (E1 : set_bits 1 12 64 (va / 4096) = Ok (1 + va)).
  { unfold set_bits, get_bits. change (2 ^ (64 - 12)) with 4503599627370496.
    change (Z.shiftr 1 12) with 0. rewrite Z.mod_0_l by lia. change (2 ^ 12) with 4096.
    unfold u64, W64 in Hu. destruct (va / 4096 <? 4503599627370496) eqn:E; [f_equal; lia|lia]. }
  rewrite E1.
  assert (E2 : set_bits 0 0 16 count = Ok count).
  { unfold set_bits, get_bits. change (2 ^ (16 - 0)) with 65536. change (Z.shiftr 0 0) with 0.
    rewrite Z.mod_0_l by lia. change (2 ^ 0) with 1.
    destruct (count <? 65536) eqn:E; [f_equal; lia|lia]. }
  rewrite E2.
  assert (E3 : set_bit64 count 31 (sz =? S2M) = count + (if sz =? S2M then 2147483648 else 0)).
  { sb. change (2 ^ 31) with 2147483648. destruct (sz =? S2M); cbn [b2z]; lia. }
  rewrite E3.
  unfold opt_bits, edx_of, i_invlpgb.
  destruct (b_pcid b) as [p|] eqn:Epc; destruct (b_asid b) as [a|] eqn:Eas.
  all: try (specialize (Hp p eq_refl)); try (specialize (Ha a eq_refl)).
  all: try (assert (Es : set_bits 0 16 28 p = Ok (p * 65536))
         by (unfold set_bits, get_bits; change (2 ^ (28 - 16)) with 4096; change (Z.shiftr 0 16) with 0;
             rewrite Z.mod_0_l by lia; change (2 ^ 16) with 65536;
             destruct (p <? 4096) eqn:E; [f_equal; lia|lia]); rewrite Es).
  all: try (assert (Et : forall e, 0 <= e -> e mod 65536 = 0 -> e < 4294967296 -> set_bits e 0 16 a = Ok (e + a))
         by (intros e He Hm Hlt; unfold set_bits, get_bits; change (2 ^ (16 - 0)) with 65536;
             rewrite Z.shiftr_0_r, Hm; change (2 ^ 0) with 1;
             destruct (a <? 65536) eqn:E; [f_equal; lia|lia])).
  all: try rewrite (Et (p * 65536)) by lia; try rewrite (Et 0) by lia.
  all: assert (Hva : va <= 18446744073709547520) by (unfold u64, W64 in Hu; lia).
  all: replace (1 + va) with (va + 1) by lia.
  all: destruct (b_global b), (b_final b), (b_nested b).
  all: repeat sbl; cbn [b2z].
  all: match goal with
       | |- Ok (tt, ev [_; ?x; _; ?e1] _) = Ok (tt, ev [_; ?y; _; ?e2] _) =>
           replace y with x by lia; replace e2 with e1 by lia
       end; reflexivity.
Qed.

(* ---------- the chunking loop of InvlpgbFlushBuilder::flush ---------- *)
Local Ltac Zify.zify_post_hook ::= idtac.
Section Loop.
Variable inv : invlpgb.
Variable b : builder.
Variable sz : Z.
Hypothesis Hsz : page_size sz.
Hypothesis Hcm : 0 <= count_max inv <= 65535.
Hypothesis Hb : builder_ok b.
Variable e : Z.
Hypothesis He : is_page sz e.

Definition req_event (r : Z * Z) : list Z :=
  [E_INVLPGB; fst r + 1 + opt_bits b; snd r + (if sz =? S2M then 2147483648 else 0); edx_of b].

(* "the requests cover the range": each request (page p, count c) stands for max(c,1) pages
   starting at p (the crate's documented reading: a count of zero still flushes one page);
   consecutive requests continue where the previous one ended in the contiguous canonical
   sequence; none exceeds the processor maximum or 65535; none extends across the gap;
   the last one ends exactly at the end of the range *)
Inductive Covers : list (Z * Z) -> Z -> Prop :=
| C_done p : e <= p -> Covers [] p
| C_req p c rest :
    p < e -> 0 <= c <= Z.min (count_max inv) 65535 ->
    pos p + Z.max c 1 * sz <= pos e ->
    (p < P47 -> p + Z.max c 1 * sz <= P47) ->
    Covers rest (unpos (pos p + Z.max c 1 * sz)) ->
    Covers ((p, c) :: rest) p.

Let szp : 4096 <= sz <= 1073741824 := sz_pos sz Hsz.

Lemma HI_is_page : page_containing sz HI = Ok HI.
Proof.
  apply page_containing_aligned; [assumption|]. split; [right; unfold HI, W64; lia|].
  destruct Hsz as [-> | [-> | ->]]; reflexivity.
Qed.

Lemma page_4k_aligned p : is_page sz p -> p mod 4096 = 0.
Proof.
  intros [_ Ha]. destruct Hsz as [-> | [-> | ->]]; unfold S4K, S2M, S1G in Ha; [assumption| |].
  - replace p with ((p / 2097152) * 512 * 4096) by (pose proof (Z.div_mod p 2097152); lia).
    apply Z.mod_mul. lia.
  - replace p with ((p / 1073741824) * 262144 * 4096) by (pose proof (Z.div_mod p 1073741824); lia).
    apply Z.mod_mul. lia.
Qed.

Lemma pos_diff_pages p : is_page sz p -> p < e ->
  1 <= (pos e - pos p) / sz /\ pos e - pos p = ((pos e - pos p) / sz) * sz.
Proof.
  intros [Hc Ha] Hlt. destruct He as [Hce Hae].
  pose proof (pos_aligned sz p Hsz Ha) as A1. pose proof (pos_aligned sz e Hsz Hae) as A2.
  pose proof (proj1 (pos_mono p e Hc Hce) ltac:(lia)) as M.
  assert (Hne : pos p <> pos e) by (intro E; apply (pos_inj p e Hc Hce) in E; lia).
  pose proof (aligned_diff sz (pos p) (pos e) ltac:(lia) A1 A2) as D.
  pose proof (multiple_gap sz (pos p) (pos e) ltac:(lia) A1 A2 ltac:(lia)) as G.
  split; [|lia].
  apply Z.div_le_lower_bound; lia.
Qed.

Lemma step_ok p inc : is_page sz p -> p < e -> 1 <= inc <= (pos e - pos p) / sz ->
  page_forward_checked sz p inc = Ok (Some (unpos (pos p + inc * sz))) /\
  is_page sz (unpos (pos p + inc * sz)) /\
  pos (unpos (pos p + inc * sz)) = pos p + inc * sz /\
  pos p + inc * sz <= pos e.
Proof.
  intros Hp Hlt Hinc. destruct (pos_diff_pages p Hp Hlt) as [Hn Hd].
  destruct Hp as [Hc Ha]. destruct He as [Hce Hae].
  pose proof (pos_range p Hc). pose proof (pos_range e Hce).
  assert (Hle : pos p + inc * sz <= pos e) by nia.
  assert (Hr : 0 <= pos p + inc * sz < P48) by nia.
  rewrite page_forward_spec by (auto; unfold u64, W64, P48 in *; nia).
  destruct (pos p + inc * sz <? P48) eqn:E; [|lia].
  split; [reflexivity|]. split; [|split; [apply pos_unpos; assumption|assumption]].
  split; [apply unpos_canonical; assumption|].
  apply unpos_aligned; [assumption|]. rewrite Z.mod_add by lia. apply pos_aligned; assumption.
Qed.

Definition pages_left (p : Z) : Z := if e <=? p then 0 else (pos e - pos p) / sz.

Theorem flush_loop_covers : forall fuel p s, is_page sz p ->
  pages_left p < Z.of_nat fuel ->
  exists reqs s', flush_loop fuel inv b p e sz s = Ok (Some tt, s') /\
    log s' = rev (map req_event reqs) ++ log s /\ Covers reqs p.
Proof.
  induction fuel as [|fuel IH]; intros p s Hp Hfuel.
  - exfalso. unfold pages_left in Hfuel. destruct (e <=? p) eqn:E; [cbn in Hfuel; lia|].
    apply Z.leb_gt in E. destruct (pos_diff_pages p Hp E). cbn in Hfuel. lia.
  - cbn [flush_loop]. unfold pr_is_empty. cbn [fst snd].
    destruct (e <=? p) eqn:Ee.
    + exists [], s. split; [reflexivity|]. split; [reflexivity|]. apply C_done. lia.
    + apply Z.leb_gt in Ee.
      destruct (pos_diff_pages p Hp Ee) as [Hn Hd].
      pose proof Hp as [Hc Ha]. pose proof He as [Hce Hae].
      set (n := (pos e - pos p) / sz) in *.
      assert (Hcount0 : fst (page_steps_between sz p e) = n).
      { rewrite page_steps_between_spec by assumption. destruct (p <=? e) eqn:E2; [reflexivity|lia]. }
      rewrite Hcount0.
      change 18446603336221196288 with HI.
      unfold mbind at 1. unfold lift at 1. rewrite HI_is_page.
      (* the clamp to the start of the second half *)
      set (c1 := if p <? HI then Z.min n (fst (page_steps_between sz p HI)) else n).
      assert (Hc1 : 1 <= c1 <= n /\ (p < P47 -> p + c1 * sz <= P47)).
      { unfold c1. destruct (p <? HI) eqn:Eh.
        - assert (Hlow : p < P47) by (unfold canonical, HI, P47, W64 in *; lia).
          assert (Hhi : canonical HI) by (right; unfold HI, W64; lia).
          rewrite page_steps_between_spec by assumption.
          destruct (p <=? HI) eqn:E3; [|lia]. cbn [fst].
          assert (Hph : pos HI = P47) by reflexivity.
          assert (Hpp : pos p = p) by (unfold pos; destruct (p <? P47) eqn:E4; [reflexivity|lia]).
          rewrite Hph, Hpp.
          pose proof (P47_multiple_sz sz Hsz) as M47.
          pose proof (aligned_diff sz p P47 ltac:(lia) Ha M47) as D47.
          pose proof (multiple_gap sz p P47 ltac:(lia) Ha M47 Hlow) as G47.
          assert (1 <= (P47 - p) / sz) by (apply Z.div_le_lower_bound; lia).
          split; [lia|]. intros _. 
          assert (Z.min n ((P47 - p) / sz) * sz <= ((P47 - p) / sz) * sz)
            by (apply Z.mul_le_mono_nonneg_r; lia). lia.
        - split; [lia|]. intros Hlow. unfold HI, P47 in *. lia. }
      fold c1.
      set (c2 := u16_try_from_or_max c1).
      assert (Hc2 : 1 <= c2 <= c1 /\ c2 <= 65535).
      { unfold c2, u16_try_from_or_max. destruct (c1 <? 65536) eqn:E5; lia. }
      set (c := Z.min c2 (count_max inv)).
      assert (Hcr : 0 <= c <= Z.min (count_max inv) 65535 /\ c <= c1) by (unfold c; lia).
      unfold mbind at 1.
      rewrite flush_broadcast_spec; [|assumption|apply page_4k_aligned; assumption|lia|assumption].
      set (inc := Z.max c 1).
      assert (Hinc : 1 <= inc <= n) by (unfold inc; lia).
      destruct (step_ok p inc Hp Ee Hinc) as (Hfw & Hnx & Hposnx & Hle).
      unfold mbind at 1. unfold lift at 1. rewrite Hfw. cbn [unwrap].
      unfold mbind at 1. unfold lift at 1.
      set (nx := unpos (pos p + inc * sz)) in *.
      assert (Hfuel' : pages_left nx < Z.of_nat fuel).
      { unfold pages_left in *. rewrite (proj2 (Z.leb_gt e p) Ee) in Hfuel.
        destruct (e <=? nx) eqn:E6; [lia|].
        rewrite Hposnx. replace (pos e - (pos p + inc * sz)) with ((n - inc) * sz) by lia.
        rewrite Z.div_mul by lia. lia. }
      destruct (IH nx (ev [E_INVLPGB; p + 1 + opt_bits b; c + (if sz =? S2M then 2147483648 else 0); edx_of b] s) Hnx Hfuel')
        as (reqs & s' & Hrun & Hlog & Hcov).
      exists ((p, c) :: reqs), s'. split; [exact Hrun|]. split.
      * rewrite Hlog. cbn [map rev log ev]. rewrite <- app_assoc. reflexivity.
      * apply C_req; try assumption; try lia.
        all: fold inc; try exact Hle.
        intros Hlow. destruct Hc1 as [_ Hgap]. specialize (Hgap Hlow).
        assert (inc * sz <= c1 * sz) by (apply Z.mul_le_mono_nonneg_r; lia). lia.
Qed.

(* the builder: with fuel for one more than the number of pages of the range the loop never
   runs out of fuel and never panics *)
Lemma pages_left_nonneg p : is_page sz p -> 0 <= pages_left p.
Proof.
  intros Hp. unfold pages_left. destruct (e <=? p) eqn:E; [lia|]. apply Z.leb_gt in E.
  destruct (pos_diff_pages p Hp E). lia.
Qed.

Theorem builder_flush_range s0 p : is_page sz p ->
  let bb := {| b_range := Some (p, e, sz); b_pcid := b_pcid b; b_asid := b_asid b;
               b_global := b_global b; b_final := b_final b; b_nested := b_nested b |} in
  exists reqs s', builder_flush (Z.to_nat (pages_left p + 1)) inv bb s0 = Ok (Some tt, s') /\
    log s' = rev (map req_event reqs) ++ log s0 /\ Covers reqs p.
Proof.
  intros Hp bb. pose proof (pages_left_nonneg p Hp) as Hpl.
  assert (Hfuel : pages_left p < Z.of_nat (Z.to_nat (pages_left p + 1))) by lia.
  destruct (flush_loop_covers (Z.to_nat (pages_left p + 1)) p s0 Hp Hfuel) as (reqs & s' & Hrun & Hlog & Hcov).
  exists reqs, s'. split; [|split; assumption].
  unfold builder_flush. cbn [b_range bb].
  (* the loop reads only pcid/asid/option fields of the builder, which bb shares with b *)
  assert (E : forall fuel q s, flush_loop fuel inv bb q e sz s = flush_loop fuel inv b q e sz s).
  { induction fuel as [|fuel IHf]; intros q s; [reflexivity|]. cbn [flush_loop].
    destruct (pr_is_empty (q, e)); [reflexivity|].
    unfold mbind. destruct (lift (page_containing sz 18446603336221196288) s) as [[sh s1]|]; [|reflexivity].
    assert (Fb : forall vc st, flush_broadcast vc bb st = flush_broadcast vc b st) by reflexivity.
    rewrite Fb. destruct (flush_broadcast _ b s1) as [[u s2]|]; [|reflexivity].
    destruct (lift (page_forward_checked sz q _) s2) as [[nx s3]|]; [|reflexivity].
    destruct (lift (unwrap nx) s3) as [[nx' s4]|]; [|reflexivity]. apply IHf. }
  rewrite E. exact Hrun.
Qed.

(* every page of a non-empty range is accounted for exactly once: the extents add up *)
Theorem covers_total reqs p : Covers reqs p -> is_page sz p -> p <= e ->
  fold_right (fun r acc => Z.max (snd r) 1 + acc) 0 reqs * sz = pos e - pos p.
Proof.
  induction 1 as [p Hge|p c rest Hlt Hc Hle Hgap Hcov IH]; intros Hp Hpe.
  - cbn [fold_right]. assert (p = e) by lia. subst p. lia.
  - cbn [fold_right snd].
    assert (Hinc : 1 <= Z.max c 1 <= (pos e - pos p) / sz).
    { split; [lia|]. destruct (pos_diff_pages p Hp Hlt) as [Hn Hd].
      apply Z.div_le_lower_bound; lia. }
    destruct (step_ok p (Z.max c 1) Hp Hlt Hinc) as (_ & Hnx & Hposnx & _).
    assert (Hnxe : unpos (pos p + Z.max c 1 * sz) <= e).
    { destruct Hnx as [Hcn _]. destruct He as [Hce _]. apply (pos_mono _ e Hcn Hce). lia. }
    specialize (IH Hnx Hnxe). rewrite Hposnx in IH. lia.
Qed.
End Loop.

(* a flush without a range: one request with the address-valid bit clear *)
Theorem flush_broadcast_no_range b s : builder_ok b ->
  exists rax, flush_broadcast None b s = Ok (tt, ev [E_INVLPGB; rax; 0; edx_of b] s) /\
              Z.testbit rax 0 = false.
Proof.
  intros [Hp Ha]. unfold flush_broadcast, edx_of.
  destruct (b_pcid b) as [p|] eqn:Epc; destruct (b_asid b) as [a|] eqn:Eas.
  all: try (specialize (Hp p eq_refl)); try (specialize (Ha a eq_refl)).
  all: try (assert (Es : set_bits 0 16 28 p = Ok (p * 65536))
         by (unfold set_bits, get_bits; change (2 ^ (28 - 16)) with 4096; change (Z.shiftr 0 16) with 0;
             rewrite Z.mod_0_l by lia; change (2 ^ 16) with 65536;
             destruct (p <? 4096) eqn:E; [f_equal; lia|lia]); rewrite Es).
  all: try (assert (Et : forall x, 0 <= x -> x mod 65536 = 0 -> set_bits x 0 16 a = Ok (x + a))
         by (intros x Hx Hm; unfold set_bits, get_bits; change (2 ^ (16 - 0)) with 65536;
             rewrite Z.shiftr_0_r, Hm; change (2 ^ 0) with 1;
             destruct (a <? 65536) eqn:E; [f_equal; lia|lia])).
  all: try rewrite (Et (p * 65536)) by (try apply Z.mod_mul; lia); try rewrite (Et 0) by (try reflexivity; lia).
  all: rewrite ?Z.add_0_r, ?Z.add_0_l.
  all: destruct (b_global b), (b_final b), (b_nested b); eexists; (split; [reflexivity|vm_compute; reflexivity]).
Qed.

Theorem asid_and_nested_guards inv asid :
  (builder_asid inv asid = true <-> asid < nasid inv) /\
  (builder_nested inv = Panic <-> nested_ok inv = false).
Proof.
  unfold builder_asid, builder_nested. split; [lia|]. destruct (nested_ok inv); split; congruence.
Qed.

(* non-vacuity: a range that reaches the gap, count_max 3 *)
Example loop_example :
  let inv := {| count_max := 3; nested_ok := false; nasid := 0 |} in
  let b := {| b_range := None; b_pcid := Some 5; b_asid := None; b_global := true;
              b_final := false; b_nested := false |} in
  match flush_loop 10 inv b (P47 - 5 * 4096) (HI + 4096) S4K init_state with
  | Ok (Some _, s) => map (fun e => nth 1 e 0 - 11) (rev (log s))
  | _ => []
  end = [P47 - 5 * 4096; P47 - 2 * 4096; HI].
Proof. vm_compute. reflexivity. Qed.
