(* C14 (GDT invariant over all append histories) and C15 (descriptor encodings, layouts). *)
From X86 Require Import Base.Word Base.Bits Addr.Model Codec.Codec Tables.Gdt Arch.Manual.
Open Scope Z_scope.
Local Ltac Zify.zify_post_hook ::= Z.div_mod_to_equations.

(* ---------- dpl() ---------- *)
Lemma DF_DPL_value : DF_DPL_RING_3 = 2 ^ 47 - 2 ^ 45.
Proof. reflexivity. Qed.
Theorem desc_dpl_spec d : u64 (desc_low d) -> desc_dpl d = Ok (bitsf (desc_low d) 45 2).
Proof.
  intros Hu. unfold desc_dpl, priv_from_u16, bitsf. rewrite DF_DPL_value, land_mask_range by lia.
  rewrite Z.shiftr_div_pow2 by lia.
  change (2 ^ 47) with 140737488355328. change (2 ^ 45) with 35184372088832. change (2 ^ 2) with 4.
  unfold trunc16, W16, u64, W64 in *. set (x := desc_low d) in *.
  assert (E : (x mod 140737488355328 - x mod 35184372088832) / 35184372088832 mod 65536
              = x / 35184372088832 mod 4) by lia.
  rewrite E. destruct (x / 35184372088832 mod 4 <? 4) eqn:E2; [reflexivity|lia].
Qed.

(* ---------- selectors ---------- *)
Lemma sel_new_value i dpl : 0 <= i < 8192 -> 0 <= dpl < 4 ->
  sel_new i dpl = i * 8 + dpl /\ sel_index (sel_new i dpl) = i /\
  sel_rpl (sel_new i dpl) = Ok dpl /\ Z.testbit (sel_new i dpl) 2 = false /\
  0 <= sel_new i dpl < 65536.
Proof.
  intros Hi Hd.
  assert (E : sel_new i dpl = i * 8 + dpl).
  { unfold sel_new, wrap16, W16. rewrite Z.shiftl_mul_pow2 by lia. change (2 ^ 3) with 8.
    rewrite Z.mod_small by lia. apply (lor_disjoint_add (i * 8) dpl 3); [lia|change (2 ^ 3) with 8; lia|].
    change (2 ^ 3) with 8. apply Z.mod_mul. lia. }
  rewrite E. splits; try reflexivity; try lia.
  - unfold sel_index. rewrite Z.shiftr_div_pow2 by lia. change (2 ^ 3) with 8. lia.
  - unfold sel_rpl, get_bits, priv_from_u16. rewrite Z.shiftr_0_r. change (2 ^ (2 - 0)) with 4.
    assert ((i * 8 + dpl) mod 4 = dpl) as -> by lia. destruct (dpl <? 4) eqn:E2; [reflexivity|lia].
  - apply Z.testbit_false; [lia|]. change (2 ^ 2) with 4. lia.
Qed.

(* ---------- the table invariant ---------- *)
Definition words (d : desc) : list Z := match d with UserSeg v => [v] | SysSeg lo hi => [lo; hi] end.
Definition slots (d : desc) : Z := Z.of_nat (length (words d)).
Definition desc_ok (d : desc) : Prop := u64 (desc_low d).
Definition Inv (g : gdt) : Prop :=
  1 <= g_len g <= g_max g /\ g_max g <= 8192 /\ nth 0 (g_entries g) 1 = 0.

Theorem empty_inv max g : gdt_empty max = Ok g ->
  Inv g /\ g_entries g = [0] /\ g_max g = max.
Proof.
  unfold gdt_empty. destruct ((0 <? max) && (max <=? 8192)) eqn:E; [|discriminate].
  intros [= <-]. unfold Inv, g_len. cbn. splits; try reflexivity; lia.
Qed.
Theorem empty_panics_iff max : gdt_empty max = Panic <-> ~ (0 < max <= 8192).
Proof.
  unfold gdt_empty. destruct ((0 <? max) && (max <=? 8192)) eqn:E.
  - split; [discriminate|intros H; exfalso; lia].
  - split; [intros _; lia|reflexivity].
Qed.

Theorem append_spec g d : Inv g -> desc_ok d ->
  gdt_append g d =
  if g_len g + slots d <=? g_max g then
    Ok ({| g_max := g_max g; g_entries := g_entries g ++ words d |},
        g_len g * 8 + bitsf (desc_low d) 45 2)
  else Panic.
Proof.
  intros (Hl & Hm & H0) Hd. unfold gdt_append. rewrite desc_dpl_spec by assumption. cbn [bind].
  set (dpl := bitsf (desc_low d) 45 2).
  assert (Hdpl : 0 <= dpl < 4) by (unfold dpl, bitsf; change (2 ^ 2) with 4; lia).
  destruct d as [v|lo hi]; unfold slots, sat_sub; cbn [words length Z.of_nat Pos.of_succ_nat Pos.succ].
  - destruct (g_len g + 1 <=? g_max g) eqn:E.
    + destruct (g_len g >? Z.max 0 (g_max g - 1)) eqn:E2; [lia|]. unfold gdt_push.
      assert (Ht : trunc16 (g_len g) = g_len g) by (unfold trunc16, W16; apply Z.mod_small; lia).
      rewrite Ht. destruct (sel_new_value (g_len g) dpl) as [-> _]; [lia|assumption|]. reflexivity.
    + destruct (g_len g >? Z.max 0 (g_max g - 1)) eqn:E2; [reflexivity|lia].
  - destruct (g_len g + 2 <=? g_max g) eqn:E.
    + destruct (g_len g >? Z.max 0 (g_max g - 2)) eqn:E2; [lia|]. unfold gdt_push. cbn [g_max g_entries].
      assert (Ht : trunc16 (g_len g) = g_len g) by (unfold trunc16, W16; apply Z.mod_small; lia).
      rewrite Ht. destruct (sel_new_value (g_len g) dpl) as [-> _]; [lia|assumption|].
      rewrite <- app_assoc. reflexivity.
    + destruct (g_len g >? Z.max 0 (g_max g - 2)) eqn:E2; [reflexivity|lia].
Qed.

Theorem append_inv g d g' sel : Inv g -> desc_ok d -> gdt_append g d = Ok (g', sel) ->
  Inv g' /\ g_max g' = g_max g /\ g_entries g' = g_entries g ++ words d /\
  sel_index sel = g_len g /\ sel_rpl sel = Ok (bitsf (desc_low d) 45 2) /\
  Z.testbit sel 2 = false /\ 0 <= sel < 65536.
Proof.
  intros HI Hd. rewrite append_spec by assumption.
  destruct (g_len g + slots d <=? g_max g) eqn:E; [|discriminate]. intros [= <- <-].
  pose proof HI as (Hl & Hm & H0).
  set (dpl := bitsf (desc_low d) 45 2).
  assert (Hdpl : 0 <= dpl < 4) by (unfold dpl, bitsf; change (2 ^ 2) with 4; lia).
  assert (Hs : 1 <= slots d <= 2) by (destruct d; cbn; lia).
  destruct (sel_new_value (g_len g) dpl) as (Ev & Ei & Er & Et & Eb); [lia|assumption|].
  rewrite <- Ev. splits; try assumption; try reflexivity; try lia.
  unfold Inv, g_len in *. cbn [g_max g_entries]. rewrite app_length. unfold slots in *.
  splits; try lia.
  destruct (g_entries g) as [|x l]; [cbn in Hl; lia|]. exact H0.
Qed.

(* every append history: the table is the null descriptor followed by the accepted descriptors
   in order; rejected appends leave it unchanged *)
Fixpoint run_history (g : gdt) (ds : list desc) : gdt * list (res Z) :=
  match ds with
  | [] => (g, [])
  | d :: ds' =>
      match gdt_append g d with
      | Ok (g', sel) => let '(gf, out) := run_history g' ds' in (gf, Ok sel :: out)
      | Panic => let '(gf, out) := run_history g ds' in (gf, Panic :: out)
      end
  end.
Fixpoint accepted (len max : Z) (ds : list desc) : list desc :=
  match ds with
  | [] => []
  | d :: ds' => if len + slots d <=? max then d :: accepted (len + slots d) max ds'
                else accepted len max ds'
  end.
Theorem history_spec ds : forall g, Inv g -> Forall desc_ok ds ->
  let gf := fst (run_history g ds) in
  Inv gf /\ g_max gf = g_max g /\
  g_entries gf = g_entries g ++ flat_map words (accepted (g_len g) (g_max g) ds) /\
  gdt_limit gf = g_len gf * 8 - 1 /\ gdt_limit gf <= 65535.
Proof.
  induction ds as [|d ds IH]; intros g HI Hok; cbn [run_history accepted flat_map].
  - cbn [fst]. rewrite app_nil_r. splits; try assumption; try reflexivity.
    + destruct HI as (Hl & Hm & _). unfold gdt_limit, trunc16, W16. apply Z.mod_small. lia.
    + destruct HI as (Hl & Hm & _). unfold gdt_limit, trunc16, W16. rewrite Z.mod_small by lia. lia.
  - inversion Hok as [|d' ds' Hd Hds]; subst. rewrite append_spec by assumption.
    destruct (g_len g + slots d <=? g_max g) eqn:E.
    + set (g1 := {| g_max := g_max g; g_entries := g_entries g ++ words d |}).
      assert (HI1 : Inv g1 /\ g_len g1 = g_len g + slots d).
      { pose proof (append_inv g d g1 (g_len g * 8 + bitsf (desc_low d) 45 2) HI Hd) as A.
        rewrite append_spec, E in A by assumption.
        destruct (A eq_refl) as (A1 & _). split; [exact A1|].
        unfold g_len, g1, slots. cbn [g_entries]. rewrite app_length. lia. }
      destruct HI1 as [HI1 Hlen1]. specialize (IH g1 HI1 Hds).
      destruct (run_history g1 ds) as [gf out]. cbn [fst] in *.
      destruct IH as (I1 & I2 & I3 & I4 & I5). splits; try assumption.
      rewrite I3. unfold g1 at 1. cbn [g_entries g_max]. rewrite Hlen1, <- app_assoc. reflexivity.
    + specialize (IH g HI Hds). destruct (run_history g ds) as [gf out]. cbn [fst] in *. exact IH.
Qed.

Theorem from_raw_spec max l :
  gdt_from_raw max l =
  if (0 <? max) && (max <=? 8192) && negb (Z.of_nat (length l) =? 0) && (nth 0 l 1 =? 0)
     && (Z.of_nat (length l) <=? max)
  then Ok {| g_max := max; g_entries := l |} else Panic.
Proof.
  unfold gdt_from_raw, gdt_empty. destruct ((0 <? max) && (max <=? 8192)) eqn:E; cbn [bind andb]; [|reflexivity].
  destruct l as [|x l]; [reflexivity|]. cbn [nth length]. 
  destruct (x =? 0); cbn [negb andb]; [|destruct (Z.of_nat (S (length l)) =? 0); reflexivity].
  destruct (Z.of_nat (S (length l)) =? 0) eqn:E2; [exfalso; apply Z.eqb_eq in E2; rewrite Nat2Z.inj_succ in E2; pose proof (Nat2Z.is_nonneg (length l)); lia|]. cbn [negb andb].
  destruct (Z.of_nat (S (length l)) <=? max); reflexivity.
Qed.

Example gdt_history_example :
  let ds := [UserSeg DF_KERNEL_CODE64; SysSeg 1 2; UserSeg DF_USER_DATA; SysSeg 3 4] in
  match gdt_empty 5 with
  | Ok g => (g_entries (fst (run_history g ds)), snd (run_history g ds))
  | Panic => ([], [])
  end = ([0; DF_KERNEL_CODE64; 1; 2; DF_USER_DATA], [Ok 8; Ok 16; Ok 35; Panic]).
Proof. vm_compute. reflexivity. Qed.

(* ---------- C15: the TSS descriptor for every 64-bit address ---------- *)
Lemma set_bits_arith x lo hi v : 0 <= lo <= hi -> 0 <= v < 2 ^ (hi - lo) ->
  set_bits x lo hi v = Ok (x - bitsf x lo (hi - lo) * 2 ^ lo + v * 2 ^ lo).
Proof.
  intros Hl Hv. unfold set_bits, get_bits, bitsf. rewrite Z.shiftr_div_pow2 by lia.
  destruct (v <? 2 ^ (hi - lo)) eqn:E; [reflexivity|lia].
Qed.
Lemma get_bits_arith x lo hi : 0 <= lo -> get_bits x lo hi = bitsf x lo (hi - lo).
Proof. intros. unfold get_bits, bitsf. rewrite Z.shiftr_div_pow2 by lia. reflexivity. Qed.

Ltac pows :=
  change (2 ^ 0) with 1 in *; change (2 ^ 2) with 4 in *; change (2 ^ 4) with 16 in *;
  change (2 ^ 8) with 256 in *; change (2 ^ 16) with 65536 in *; change (2 ^ 24) with 16777216 in *;
  change (2 ^ 32) with 4294967296 in *; change (2 ^ 40) with 1099511627776 in *;
  change (2 ^ 44) with 17592186044416 in *; change (2 ^ 45) with 35184372088832 in *;
  change (2 ^ 47) with 140737488355328 in *; change (2 ^ 48) with 281474976710656 in *;
  change (2 ^ 52) with 4503599627370496 in *; change (2 ^ 56) with 72057594037927936 in *;
  change (2 ^ 1) with 2 in *.

Theorem tss_segment_value p : u64 p ->
  tss_segment p =
  Ok (SysSeg (103 + (p mod 16777216) * 65536 + 9 * 1099511627776 + 140737488355328
              + ((p / 16777216) mod 256) * 72057594037927936)
             (p / 4294967296)).
Proof.
  intros Hu. unfold tss_segment, TSS_SIZE, DF_PRESENT. rewrite !get_bits_arith by lia.
  unfold u64, W64 in Hu.
  assert (B1 : 0 <= bitsf p 0 (24 - 0) < 2 ^ (40 - 16)) by (unfold bitsf; change (2 ^ (24 - 0)) with 16777216; change (2 ^ (40 - 16)) with 16777216; lia).
  rewrite (set_bits_arith _ 16 40) by (try lia; exact B1). cbn [bind].
  assert (B2 : 0 <= bitsf p 24 (32 - 24) < 2 ^ (64 - 56)) by (unfold bitsf; change (2 ^ (32 - 24)) with 256; change (2 ^ (64 - 56)) with 256; lia).
  rewrite (set_bits_arith _ 56 64) by (try lia; exact B2). cbn [bind].
  rewrite (set_bits_arith _ 0 16) by (try lia; change (2 ^ (16 - 0)) with 65536; lia). cbn [bind].
  rewrite (set_bits_arith _ 40 44) by (try lia; change (2 ^ (44 - 40)) with 16; lia). cbn [bind].
  assert (B3 : 0 <= bitsf p 32 (64 - 32) < 2 ^ (32 - 0)) by (unfold bitsf; change (2 ^ (64 - 32)) with 4294967296; change (2 ^ (32 - 0)) with 4294967296; lia).
  rewrite (set_bits_arith _ 0 32) by (try lia; exact B3). cbn [bind].
  unfold bitsf.
  change (2 ^ (24 - 0)) with 16777216. change (2 ^ (40 - 16)) with 16777216.
  change (2 ^ (32 - 24)) with 256. change (2 ^ (64 - 56)) with 256. change (2 ^ (16 - 0)) with 65536.
  change (2 ^ (44 - 40)) with 16. change (2 ^ (64 - 32)) with 4294967296. change (2 ^ (32 - 0)) with 4294967296.
  pows. do 2 f_equal; lia.
Qed.

Theorem tss_segment_decodes p : u64 p ->
  exists lo hi, tss_segment p = Ok (SysSeg lo hi) /\
    decode_sys16 lo hi =
    {| s_base := p; s_limit := 103; s_type := TSS_AVAILABLE_64; s_s := 0; s_dpl := 0; s_p := 1;
       s_avl_g := 0; s_reserved := 0 |}.
Proof.
  intros Hu. do 2 eexists. split; [apply tss_segment_value; assumption|].
  unfold decode_sys16, bitsf, TSS_AVAILABLE_64, u64, W64 in *. pows.
  f_equal; lia.
Qed.

(* the six presets: the Linux values the unit test pins, and what they decode to *)
Theorem presets_values :
  [DF_KERNEL_DATA; DF_KERNEL_CODE32; DF_KERNEL_CODE64; DF_USER_DATA; DF_USER_CODE32; DF_USER_CODE64] =
  [0x00cf93000000ffff; 0x00cf9b000000ffff; 0x00af9b000000ffff; 0x00cff3000000ffff; 0x00cffb000000ffff; 0x00affb000000ffff].
Proof. vm_compute. reflexivity. Qed.
Theorem presets_decode :
  map decode_seg8 [DF_KERNEL_CODE64; DF_KERNEL_CODE32; DF_KERNEL_DATA; DF_USER_CODE64; DF_USER_CODE32; DF_USER_DATA] =
  [ {| d_executable := 1; d_s := 1; d_dpl := 0; d_p := 1; d_l := 1; d_db := 0; d_g := 1; d_writable := 1; d_limit := 1048575 |};
    {| d_executable := 1; d_s := 1; d_dpl := 0; d_p := 1; d_l := 0; d_db := 1; d_g := 1; d_writable := 1; d_limit := 1048575 |};
    {| d_executable := 0; d_s := 1; d_dpl := 0; d_p := 1; d_l := 0; d_db := 1; d_g := 1; d_writable := 1; d_limit := 1048575 |};
    {| d_executable := 1; d_s := 1; d_dpl := 3; d_p := 1; d_l := 1; d_db := 0; d_g := 1; d_writable := 1; d_limit := 1048575 |};
    {| d_executable := 1; d_s := 1; d_dpl := 3; d_p := 1; d_l := 0; d_db := 1; d_g := 1; d_writable := 1; d_limit := 1048575 |};
    {| d_executable := 0; d_s := 1; d_dpl := 3; d_p := 1; d_l := 0; d_db := 1; d_g := 1; d_writable := 1; d_limit := 1048575 |} ].
Proof. vm_compute. reflexivity. Qed.

Theorem layouts :
  tss_layout = ([0; 4; 28; 36; 92; 100; 102], 104) /\ tss_new_iomap_base = 104 /\
  dtp_layout = ([0; 2], 10).
Proof. vm_compute. splits; reflexivity. Qed.
