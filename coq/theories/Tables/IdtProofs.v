(* C12: IDT entries sit where the CPU looks and encode the architectural gate format. *)
From X86 Require Import Base.Word Base.Bits Addr.Model Addr.Canon Codec.Codec Tables.Idt Arch.Manual
  Tables.IdtSweepDefs Tables.Idt_sweep_present Tables.Idt_sweep_disable Tables.Idt_sweep_dpl Tables.Idt_sweep_ist.
Open Scope Z_scope.
Local Ltac Zify.zify_post_hook ::= Z.div_mod_to_equations.

Definition res_eqb (a b : res Z) : bool :=
  match a, b with Ok x, Ok y => x =? y | Panic, Panic => true | _, _ => false end.
Lemma res_eqb_eq a b : res_eqb a b = true -> a = b.
Proof. destruct a, b; cbn; try discriminate; try reflexivity. intros H. f_equal. lia. Qed.


(* ---------- vectors (finite domain: all 256) ---------- *)
Definition refused (v : Z) : bool :=
  existsb (Z.eqb v) (error_code_vectors ++ reserved_vectors ++ diverging_vectors).
Lemma index_sweep :
  forallb (fun v => res_eqb (idt_index v) (if refused v then Panic else Ok (16 * v))) r256 = true.
Proof. vm_compute. reflexivity. Qed.
Theorem idt_index_spec v : 0 <= v < 256 ->
  idt_index v = if refused v then Panic else Ok (16 * v).
Proof.
  intros Hv. pose proof index_sweep as S. rewrite forallb_forall in S.
  apply res_eqb_eq, S, in_r256, Hv.
Qed.
Theorem refused_list v : 0 <= v < 256 ->
  (refused v = true <-> In v [8; 10; 11; 12; 13; 14; 15; 17; 18; 21; 22; 23; 24; 25; 26; 27; 29; 30; 31]).
Proof.
  intros Hv.
  assert (S : forallb (fun v => Bool.eqb (refused v)
     (existsb (Z.eqb v) [8; 10; 11; 12; 13; 14; 15; 17; 18; 21; 22; 23; 24; 25; 26; 27; 29; 30; 31])) r256 = true)
    by (vm_compute; reflexivity).
  rewrite forallb_forall in S. specialize (S v (in_r256 v Hv)). apply eqb_prop in S. rewrite S.
  rewrite existsb_exists. split.
  - intros [x [Hin Hx]]. apply Z.eqb_eq in Hx. subst x. exact Hin.
  - intros Hin. exists v. split; [exact Hin|apply Z.eqb_refl].
Qed.
Theorem named_fields_spec : forall id, In id idt_named_fields -> idt_named id = Ok (16 * id).
Proof.
  assert (S : forallb (fun id => res_eqb (idt_named id) (Ok (16 * id))) idt_named_fields = true)
    by (vm_compute; reflexivity).
  rewrite forallb_forall in S. intros id Hin. apply res_eqb_eq, S, Hin.
Qed.
Theorem idt_size_4096 : idt_size = 4096.
Proof. reflexivity. Qed.

(* ---------- ranges: every RangeBounds form, every (start, end) ---------- *)
Theorem idt_slice_spec sk s ek e : 0 <= s < 256 -> 0 <= e < 256 ->
  (sk = 0 \/ sk = 1 \/ sk = 2) -> (ek = 0 \/ ek = 1 \/ ek = 2) ->
  let lower := if sk =? 0 then s else if sk =? 1 then s + 1 else 0 in
  let upper := if ek =? 0 then e + 1 else if ek =? 1 then e else 256 in
  idt_slice sk s ek e =
  if (lower <? 32) || (upper <? lower) then Panic else Ok (16 * lower, upper - lower).
Proof.
  intros Hs He Hsk Hek lower upper. unfold idt_slice, slice_bounds. fold lower. fold upper.
  assert (Hu : 0 <= upper <= 256) by (unfold upper; destruct Hek as [-> | [-> | ->]]; cbn; lia).
  assert (Hl : 0 <= lower <= 256) by (unfold lower; destruct Hsk as [-> | [-> | ->]]; cbn; lia).
  destruct (lower <? 32) eqn:E1; cbn [bind orb]; [reflexivity|].
  destruct (upper <? 32) eqn:E2.
  - destruct (upper <? lower) eqn:E3; [reflexivity|lia].
  - change (field_offset idt_fields 32 0) with (Some 512). cbn [unwrap bind].
    destruct (upper <? lower) eqn:E3.
    + destruct ((lower - 32 <=? upper - 32) && (upper - 32 <=? 224)) eqn:E4; [lia|reflexivity].
    + destruct ((lower - 32 <=? upper - 32) && (upper - 32 <=? 224)) eqn:E4; [|lia].
      do 2 f_equal. lia.
Qed.

(* ---------- the gate codec ---------- *)
Definition entry_wf (e : entry) : Prop :=
  0 <= e_lo e < 65536 /\ 0 <= e_cs e < 65536 /\ 0 <= e_bits e < 65536 /\
  0 <= e_mid e < 65536 /\ 0 <= e_hi e < 4294967296 /\ 0 <= e_res e < 4294967296.

Theorem decode_entry e : entry_wf e ->
  decode_gate (fst (entry_words e)) (snd (entry_words e)) =
  {| g_offset := e_lo e + e_mid e * 2 ^ 16 + e_hi e * 2 ^ 32; g_selector := e_cs e;
     g_ist := e_bits e mod 8;
     g_zero := (e_bits e / 8) mod 32 + ((e_bits e / 4096) mod 2) * 32;
     g_type := (e_bits e / 256) mod 16; g_dpl := (e_bits e / 8192) mod 4;
     g_present := e_bits e / 32768; g_reserved := e_res e |}.
Proof.
  intros (H1 & H2 & H3 & H4 & H5 & H6). unfold decode_gate, entry_words, bitsf. cbn [fst snd].
  change (2 ^ 0) with 1. change (2 ^ 16) with 65536. change (2 ^ 32) with 4294967296.
  change (2 ^ 48) with 281474976710656. change (2 ^ 3) with 8. change (2 ^ 35) with 34359738368.
  change (2 ^ 5) with 32. change (2 ^ 44) with 17592186044416. change (2 ^ 1) with 2.
  change (2 ^ 40) with 1099511627776. change (2 ^ 4) with 16. change (2 ^ 45) with 35184372088832.
  change (2 ^ 2) with 4. change (2 ^ 47) with 140737488355328.
  f_equal; lia.
Qed.

Lemma handler_addr_parts a : u64 a ->
  trunc16 a + trunc16 (Z.shiftr a 16) * 2 ^ 16 + ((Z.shiftr a 32) mod W32) * 2 ^ 32 = a /\
  0 <= trunc16 a < 65536 /\ 0 <= trunc16 (Z.shiftr a 16) < 65536 /\ 0 <= (Z.shiftr a 32) mod W32 < 4294967296.
Proof.
  intros Hu. unfold trunc16, W16, W32, u64, W64 in *. rewrite !Z.shiftr_div_pow2 by lia.
  change (2 ^ 16) with 65536. change (2 ^ 32) with 4294967296. lia.
Qed.

(* an entry given a handler address: that address, the current code segment, present,
   interrupt gate, ring 0, no stack switch *)
Theorem set_handler_addr_decodes e a cs : entry_wf e -> canonical a -> 0 <= cs < 65536 ->
  let e' := set_handler_addr e a cs in
  entry_wf e' /\
  decode_gate (fst (entry_words e')) (snd (entry_words e')) =
  {| g_offset := a; g_selector := cs; g_ist := 0; g_zero := 0; g_type := GATE_INTERRUPT;
     g_dpl := 0; g_present := 1; g_reserved := e_res e |} /\
  handler_addr e' = a.
Proof.
  intros Hwf Hc Hcs e'. pose proof (canonical_u64 a Hc) as Hu.
  destruct (handler_addr_parts a Hu) as (Hsum & P1 & P2 & P3).
  assert (Hwf' : entry_wf e').
  { unfold e', set_handler_addr, entry_wf. cbn [e_lo e_cs e_bits e_mid e_hi e_res].
    change (set_bit16 OPT_MINIMAL 15 true) with 36352.
    destruct Hwf as (_ & _ & _ & _ & _ & Hr). splits; lia. }
  split; [exact Hwf'|]. split.
  - rewrite decode_entry by assumption. unfold e', set_handler_addr. cbn [e_lo e_mid e_hi e_cs e_bits e_res].
    rewrite Hsum. change (set_bit16 OPT_MINIMAL 15 true) with 36352. reflexivity.
  - unfold handler_addr, e', set_handler_addr, idt_handler_addr. cbn [e_lo e_mid e_hi].
    assert (E : Z.lor (Z.lor (trunc16 a) (shl64 (trunc16 (Z.shiftr a 16)) 16)) (shl64 (Z.shiftr a 32 mod W32) 32) = a).
    { unfold shl64, wrap64, W64. rewrite !Z.shiftl_mul_pow2 by lia.
      change (2 ^ 16) with 65536 in *. change (2 ^ 32) with 4294967296 in *.
      rewrite (Z.mod_small (trunc16 (Z.shiftr a 16) * 65536)) by lia.
      rewrite (Z.mod_small (Z.shiftr a 32 mod W32 * 4294967296)) by lia.
      rewrite (Z.lor_comm (trunc16 a)), (lor_disjoint_add _ (trunc16 a) 16);
        [|lia|change (2 ^ 16) with 65536; lia|change (2 ^ 16) with 65536; apply Z.mod_mul; lia].
      rewrite Z.lor_comm, (lor_disjoint_add _ _ 32);
        [lia|lia|change (2 ^ 32) with 4294967296; lia|change (2 ^ 32) with 4294967296; apply Z.mod_mul; lia]. }
    rewrite E. apply va_new_truncate_id. assumption.
Qed.

Theorem missing_decodes :
  entry_wf entry_missing /\
  decode_gate (fst (entry_words entry_missing)) (snd (entry_words entry_missing)) =
  {| g_offset := 0; g_selector := 0; g_ist := 0; g_zero := 0; g_type := GATE_INTERRUPT;
     g_dpl := 0; g_present := 0; g_reserved := 0 |}.
Proof. split; [unfold entry_wf, entry_missing, OPT_MINIMAL; cbn [e_lo e_cs e_bits e_mid e_hi e_res]; lia|vm_compute; reflexivity]. Qed.

Definition fields_of (e : entry) : Z * Z * Z * Z * Z :=
  (o_ist (e_bits e), o_type (e_bits e), o_dpl (e_bits e), o_p (e_bits e), o_rest (e_bits e)).

Ltac b4 H := apply andb_true_iff in H; let H1 := fresh in destruct H as [H H1].

Theorem set_present_only_present e p : entry_wf e ->
  let e' := opt_set_present e p in
  entry_wf e' /\ o_p (e_bits e') = b2z p /\ o_ist (e_bits e') = o_ist (e_bits e) /\
  o_type (e_bits e') = o_type (e_bits e) /\ o_dpl (e_bits e') = o_dpl (e_bits e) /\
  o_rest (e_bits e') = o_rest (e_bits e) /\ handler_addr e' = handler_addr e /\ e_cs e' = e_cs e.
Proof.
  intros Hwf e'. pose proof Hwf as (H1 & H2 & H3 & H4 & H5 & H6).
  pose proof (sweep16_sound _ sweep_present (e_bits e) H3) as S. cbn [forallb] in S.
  assert (Sp : same4 (e_bits e) (set_bit16 (e_bits e) 15 p) false false false true = true /\
               o_p (set_bit16 (e_bits e) 15 p) =? b2z p = true).
  { destruct p; apply andb_true_iff in S; destruct S as [Sa Sb]; apply andb_true_iff in Sa;
      [apply Sa|]. apply andb_true_iff in Sb. destruct Sb as [Sb _]. apply andb_true_iff in Sb. exact Sb. }
  destruct Sp as [Sa Sb]. unfold same4 in Sa. cbn [orb] in Sa.
  unfold e', opt_set_present, with_bits, handler_addr. cbn [e_bits e_lo e_mid e_hi e_cs e_res].
  unfold entry_wf. cbn [e_bits e_lo e_mid e_hi e_cs e_res]. lia.
Qed.

Theorem disable_interrupts_only_type e d : entry_wf e ->
  let e' := opt_disable_interrupts e d in
  entry_wf e' /\ o_type (e_bits e') = (o_type (e_bits e) / 2) * 2 + b2z (negb d) /\
  o_ist (e_bits e') = o_ist (e_bits e) /\ o_dpl (e_bits e') = o_dpl (e_bits e) /\
  o_p (e_bits e') = o_p (e_bits e) /\ o_rest (e_bits e') = o_rest (e_bits e) /\
  handler_addr e' = handler_addr e /\ e_cs e' = e_cs e.
Proof.
  intros Hwf e'. pose proof Hwf as (H1 & H2 & H3 & H4 & H5 & H6).
  pose proof (sweep16_sound _ sweep_disable (e_bits e) H3) as S. cbn [forallb] in S.
  assert (Sd : let b' := set_bit16 (e_bits e) 8 (negb d) in
     (o_ist b' =? o_ist (e_bits e)) && (o_dpl b' =? o_dpl (e_bits e)) && (o_p b' =? o_p (e_bits e)) &&
     (o_rest b' =? o_rest (e_bits e)) && (o_type b' =? (o_type (e_bits e) / 2) * 2 + b2z (negb d)) &&
     (0 <=? b') && (b' <? 65536) = true).
  { destruct d; apply andb_true_iff in S; destruct S as [Sa Sb]; [exact Sa|].
    apply andb_true_iff in Sb. apply Sb. }
  cbv zeta in Sd.
  unfold e', opt_disable_interrupts, with_bits, handler_addr. cbn [e_bits e_lo e_mid e_hi e_cs e_res].
  unfold entry_wf. cbn [e_bits e_lo e_mid e_hi e_cs e_res]. lia.
Qed.

Theorem set_privilege_level_only_dpl e d : entry_wf e -> 0 <= d < 4 ->
  exists e', opt_set_privilege_level e d = Ok e' /\
  entry_wf e' /\ o_dpl (e_bits e') = d /\ o_ist (e_bits e') = o_ist (e_bits e) /\
  o_type (e_bits e') = o_type (e_bits e) /\ o_p (e_bits e') = o_p (e_bits e) /\
  o_rest (e_bits e') = o_rest (e_bits e) /\ handler_addr e' = handler_addr e /\ e_cs e' = e_cs e.
Proof.
  intros Hwf Hd. pose proof Hwf as (H1 & H2 & H3 & H4 & H5 & H6).
  pose proof (sweep16_sound _ sweep_dpl (e_bits e) H3) as S. rewrite forallb_forall in S.
  assert (Hin : In d [0; 1; 2; 3]) by (cbn; lia). specialize (S d Hin).
  unfold opt_set_privilege_level. destruct (set_bits (e_bits e) 13 15 d) as [b'|]; [|discriminate].
  cbn [rmap]. eexists. split; [reflexivity|]. unfold same4 in S. cbn [orb] in S.
  unfold with_bits, handler_addr, entry_wf. cbn [e_bits e_lo e_mid e_hi e_cs e_res]. lia.
Qed.

(* IST index i in 0..=6 is stored as the hardware field i+1; index 7 and above is refused *)
Theorem set_stack_index_only_ist oc e i : entry_wf e -> 0 <= i <= 6 ->
  exists e', opt_set_stack_index oc e i = Ok e' /\
  entry_wf e' /\ o_ist (e_bits e') = i + 1 /\ o_type (e_bits e') = o_type (e_bits e) /\
  o_dpl (e_bits e') = o_dpl (e_bits e) /\ o_p (e_bits e') = o_p (e_bits e) /\
  o_rest (e_bits e') = o_rest (e_bits e) /\ handler_addr e' = handler_addr e /\ e_cs e' = e_cs e.
Proof.
  intros Hwf Hi. pose proof Hwf as (H1 & H2 & H3 & H4 & H5 & H6).
  pose proof (sweep16_sound _ sweep_ist (e_bits e) H3) as S. rewrite forallb_forall in S.
  assert (Hin : In (i + 1) [0; 1; 2; 3; 4; 5; 6; 7]) by (cbn; lia). specialize (S (i + 1) Hin).
  unfold opt_set_stack_index, add16, W16. destruct (i + 1 <? 65536) eqn:E; [|lia]. cbn [bind].
  destruct (set_bits (e_bits e) 0 3 (i + 1)) as [b'|]; [|discriminate].
  cbn [rmap]. eexists. split; [reflexivity|]. unfold same4 in S. cbn [orb] in S.
  unfold with_bits, handler_addr, entry_wf. cbn [e_bits e_lo e_mid e_hi e_cs e_res]. lia.
Qed.
Theorem set_stack_index_refuses_7 e : 0 <= e_bits e -> opt_set_stack_index true e 7 = Panic /\
  opt_set_stack_index false e 7 = Panic.
Proof.
  intros H. unfold opt_set_stack_index, add16, W16, set_bits. cbn [bind Z.add Z.ltb Z.compare Pos.compare Pos.compare_cont Pos.add].
  split; reflexivity.
Qed.
