(* Finite sweeps over all 2^16 IDT option words: definitions. *)
From X86 Require Import Base.Word Tables.Idt.
Open Scope Z_scope.

Definition r256 : list Z := map Z.of_nat (seq 0 256).
Lemma in_r256 v : 0 <= v < 256 -> In v r256.
Proof.
  intros Hv. unfold r256. apply in_map_iff. exists (Z.to_nat v). split; [lia|apply in_seq; lia].
Qed.

(* ---------- the option setters: finite sweep over all 2^16 option words ---------- *)
Definition sweep16 (p : Z -> bool) : bool :=
  forallb (fun hi => forallb (fun lo => p (hi * 256 + lo)) r256) r256.
Lemma sweep16_sound p : sweep16 p = true -> forall b, 0 <= b < 65536 -> p b = true.
Proof.
  unfold sweep16. intros S b Hb. rewrite forallb_forall in S.
  assert (Hq : 0 <= b / 256 < 256) by (split; [apply Z.div_pos; lia|apply Z.div_lt_upper_bound; lia]).
  assert (Hr : 0 <= b mod 256 < 256) by (apply Z.mod_pos_bound; lia).
  specialize (S (b / 256) (in_r256 _ Hq)). rewrite forallb_forall in S.
  specialize (S (b mod 256) (in_r256 _ Hr)).
  replace (b / 256 * 256 + b mod 256) with b in S by (pose proof (Z.div_mod b 256); lia). exact S.
Qed.
(* the four fields of an option word *)
Definition o_ist (b : Z) := b mod 8.
Definition o_type (b : Z) := (b / 256) mod 16.
Definition o_dpl (b : Z) := (b / 8192) mod 4.
Definition o_p (b : Z) := b / 32768.
Definition o_rest (b : Z) := (b / 8) mod 32 + ((b / 4096) mod 2) * 32.
Definition same4 (b b' : Z) (ist ty dpl p : bool) : bool :=
  (ist || (o_ist b' =? o_ist b)) && (ty || (o_type b' =? o_type b)) &&
  (dpl || (o_dpl b' =? o_dpl b)) && (p || (o_p b' =? o_p b)) && (o_rest b' =? o_rest b) &&
  (0 <=? b') && (b' <? 65536).

