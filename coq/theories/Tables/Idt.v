(* Model of InterruptDescriptorTable, Entry, EntryOptions (src/structures/idt.rs). *)
From X86 Require Export Base.Word Codec.Codec Addr.Model.
Open Scope Z_scope.

(* the struct's fields in declaration order: (field id, number of 16-byte gates).
   ids: the vector of the first gate of the field *)
Definition idt_fields : list (Z * Z) :=
  [(0, 1); (1, 1); (2, 1); (3, 1); (4, 1); (5, 1); (6, 1); (7, 1); (8, 1); (9, 1); (10, 1);
   (11, 1); (12, 1); (13, 1); (14, 1); (15, 1); (16, 1); (17, 1); (18, 1); (19, 1); (20, 1);
   (21, 1); (22, 6); (28, 1); (29, 1); (30, 1); (31, 1); (32, 224)].
(* byte offset of a field (repr(C): the gates are 16 bytes, align 4 -> no padding) *)
Fixpoint field_offset (fields : list (Z * Z)) (id : Z) (off : Z) : option Z :=
  match fields with
  | [] => None
  | (i, n) :: rest => if i =? id then Some off else field_offset rest id (off + 16 * n)
  end.
Definition idt_size : Z := fold_right (fun f acc => 16 * snd f + acc) 0 idt_fields.

(* Index<u8>: which field each vector selects (or the panic) *)
Definition idt_index_field (v : Z) : res (Z * Z) :=     (* (field id, element) *)
  if existsb (Z.eqb v) [0; 1; 2; 3; 4; 5; 6; 7; 9; 16; 19; 20; 28] then Ok (v, 0)
  else if (32 <=? v) && (v <=? 255) then Ok (32, v - 32)
  else Panic.
Definition idt_index (v : Z) : res Z :=
  do fe <- idt_index_field v;
  match field_offset idt_fields (fst fe) 0 with
  | Some o => Ok (o + 16 * snd fe)
  | None => Panic
  end.
(* the public named exception fields: field id = its vector *)
Definition idt_named_fields : list Z :=
  [0; 1; 2; 3; 4; 5; 6; 7; 8; 10; 11; 12; 13; 14; 16; 17; 18; 19; 20; 21; 28; 29; 30].
Definition idt_named (id : Z) : res Z :=
  if existsb (Z.eqb id) idt_named_fields then unwrap (field_offset idt_fields id 0) else Panic.

(* RangeBounds<u8>: bound kinds 0 Included, 1 Excluded, 2 Unbounded *)
Definition slice_bounds (sk s ek e : Z) : res (Z * Z) :=
  let lower := if sk =? 0 then s else if sk =? 1 then s + 1 else 0 in
  let upper := if ek =? 0 then e + 1 else if ek =? 1 then e else 256 in
  if lower <? 32 then Panic else Ok (lower, upper).
(* slice: &self.interrupts[(lower-32)..(upper-32)]: (byte offset, number of gates) *)
Definition idt_slice (sk s ek e : Z) : res (Z * Z) :=
  do lu <- slice_bounds sk s ek e;
  let '(lower, upper) := lu in
  (* usize subtraction upper - 32 underflows (panic in debug, wraps then out of range in release) *)
  if upper <? 32 then Panic
  else if (lower - 32 <=? upper - 32) && (upper - 32 <=? 224) then
    do base <- unwrap (field_offset idt_fields 32 0);
    Ok (base + 16 * (lower - 32), upper - lower)
  else Panic.

(* ---------- Entry: two little-endian quadwords ---------- *)
Record entry := { e_lo : Z; e_cs : Z; e_bits : Z; e_mid : Z; e_hi : Z; e_res : Z }.
Definition entry_words (e : entry) : Z * Z :=
  (e_lo e + e_cs e * 2 ^ 16 + e_bits e * 2 ^ 32 + e_mid e * 2 ^ 48, e_hi e + e_res e * 2 ^ 32).
Definition OPT_MINIMAL : Z := 3584.     (* 0b1110_0000_0000 *)
Definition entry_missing : entry :=
  {| e_lo := 0; e_cs := 0; e_bits := OPT_MINIMAL; e_mid := 0; e_hi := 0; e_res := 0 |}.
Definition set_bit16 (x i : Z) (b : bool) : Z :=
  if b then Z.lor x (2 ^ i) else Z.land x (65535 - 2 ^ i).
Definition with_bits (e : entry) (b : Z) : entry :=
  {| e_lo := e_lo e; e_cs := e_cs e; e_bits := b; e_mid := e_mid e; e_hi := e_hi e; e_res := e_res e |}.
Definition set_handler_addr (e : entry) (addr cs : Z) : entry :=
  {| e_lo := trunc16 addr; e_cs := cs; e_bits := set_bit16 OPT_MINIMAL 15 true;
     e_mid := trunc16 (Z.shiftr addr 16); e_hi := (Z.shiftr addr 32) mod W32; e_res := e_res e |}.
Definition handler_addr (e : entry) : Z := idt_handler_addr (e_lo e) (e_mid e) (e_hi e).
Definition opt_set_present (e : entry) (p : bool) : entry := with_bits e (set_bit16 (e_bits e) 15 p).
Definition opt_disable_interrupts (e : entry) (d : bool) : entry :=
  with_bits e (set_bit16 (e_bits e) 8 (negb d)).
Definition opt_set_privilege_level (e : entry) (dpl : Z) : res entry :=
  rmap (with_bits e) (set_bits (e_bits e) 13 15 dpl).
(* set_stack_index(index): hardware field = index + 1 (u16 addition, then must fit 3 bits) *)
Definition opt_set_stack_index (oc : bool) (e : entry) (index : Z) : res entry :=
  do v <- add16 oc index 1; rmap (with_bits e) (set_bits (e_bits e) 0 3 v).
Definition opt_set_code_selector (e : entry) (cs : Z) : entry :=
  {| e_lo := e_lo e; e_cs := cs; e_bits := e_bits e; e_mid := e_mid e; e_hi := e_hi e; e_res := e_res e |}.
