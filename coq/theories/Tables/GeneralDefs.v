(* the shape of one arm of set_general_handler_entry! as the translator reports it *)
From Coq Require Import ZArith String.
Inductive gh_body :=
| GReserved
| GStub (field : string)      (* the named IDT field written, or "" *)
        (indexed : bool)      (* written through $idt[$idx] (Index<u8>) *)
        (has_err : bool)      (* the stub takes an error code *)
        (diverging : bool)    (* -> ! *)
        (idx_is_own : bool)   (* the index passed to the general handler is the macro's IDX *)
        (err_arg : Z).        (* 0 None, 1 Some(error_code), 2 Some(error_code.bits()) *)
