(* Model of GlobalDescriptorTable<MAX>, Descriptor, the TSS descriptor, the struct layouts
   (src/structures/gdt.rs, tss.rs, structures/mod.rs). *)
From X86 Require Export Base.Word Codec.Codec Addr.Model.
Open Scope Z_scope.

(* ---------- DescriptorFlags and the presets, composed as in the source ---------- *)
Definition DF_ACCESSED := 2 ^ 40.      Definition DF_WRITABLE := 2 ^ 41.
Definition DF_CONFORMING := 2 ^ 42.    Definition DF_EXECUTABLE := 2 ^ 43.
Definition DF_USER_SEGMENT := 2 ^ 44.  Definition DF_DPL_RING_3 := 3 * 2 ^ 45.
Definition DF_PRESENT := 2 ^ 47.       Definition DF_AVAILABLE := 2 ^ 52.
Definition DF_LONG_MODE := 2 ^ 53.     Definition DF_DEFAULT_SIZE := 2 ^ 54.
Definition DF_GRANULARITY := 2 ^ 55.   Definition DF_LIMIT_0_15 := 65535.
Definition DF_LIMIT_16_19 := 15 * 2 ^ 48.
Definition DF_BASE_0_23 := 16777215 * 2 ^ 16.   Definition DF_BASE_24_31 := 255 * 2 ^ 56.
Definition DF_ALL : Z :=
  fold_right Z.lor 0 [DF_ACCESSED; DF_WRITABLE; DF_CONFORMING; DF_EXECUTABLE; DF_USER_SEGMENT;
    DF_DPL_RING_3; DF_PRESENT; DF_AVAILABLE; DF_LONG_MODE; DF_DEFAULT_SIZE; DF_GRANULARITY;
    DF_LIMIT_0_15; DF_LIMIT_16_19; DF_BASE_0_23; DF_BASE_24_31].
Definition df_trunc (b : Z) : Z := Z.land b DF_ALL.
Definition DF_COMMON : Z :=
  df_trunc (fold_right Z.lor 0 [DF_USER_SEGMENT; DF_PRESENT; DF_WRITABLE; DF_ACCESSED;
                                DF_LIMIT_0_15; DF_LIMIT_16_19; DF_GRANULARITY]).
Definition DF_KERNEL_DATA := df_trunc (Z.lor DF_COMMON DF_DEFAULT_SIZE).
Definition DF_KERNEL_CODE32 := df_trunc (Z.lor (Z.lor DF_COMMON DF_EXECUTABLE) DF_DEFAULT_SIZE).
Definition DF_KERNEL_CODE64 := df_trunc (Z.lor (Z.lor DF_COMMON DF_EXECUTABLE) DF_LONG_MODE).
Definition DF_USER_DATA := df_trunc (Z.lor DF_KERNEL_DATA DF_DPL_RING_3).
Definition DF_USER_CODE32 := df_trunc (Z.lor DF_KERNEL_CODE32 DF_DPL_RING_3).
Definition DF_USER_CODE64 := df_trunc (Z.lor DF_KERNEL_CODE64 DF_DPL_RING_3).

(* ---------- Descriptor ---------- *)
Inductive desc := UserSeg (v : Z) | SysSeg (lo hi : Z).
Definition desc_low (d : desc) : Z := match d with UserSeg v => v | SysSeg lo _ => lo end.
Definition desc_dpl (d : desc) : res Z :=
  priv_from_u16 (trunc16 (Z.shiftr (Z.land (desc_low d) DF_DPL_RING_3) 45)).
Definition TSS_SIZE : Z := 104.
Definition tss_segment (ptr : Z) : res desc :=
  let low := DF_PRESENT in
  do low <- set_bits low 16 40 (get_bits ptr 0 24);
  do low <- set_bits low 56 64 (get_bits ptr 24 32);
  do low <- set_bits low 0 16 (TSS_SIZE - 1);
  do low <- set_bits low 40 44 9;
  do high <- set_bits 0 0 32 (get_bits ptr 32 64);
  Ok (SysSeg low high).

(* ---------- GlobalDescriptorTable<MAX> ---------- *)
Record gdt := { g_max : Z; g_entries : list Z }.      (* entries = table[..len] *)
Definition g_len (g : gdt) : Z := Z.of_nat (length (g_entries g)).
Definition gdt_empty (max : Z) : res gdt :=
  if (0 <? max) && (max <=? 8192) then Ok {| g_max := max; g_entries := [0] |} else Panic.
Definition gdt_from_raw (max : Z) (l : list Z) : res gdt :=
  do _ <- gdt_empty max;
  match l with
  | [] => Panic
  | x :: _ =>
      if negb (x =? 0) then Panic
      else if Z.of_nat (length l) <=? max then Ok {| g_max := max; g_entries := l |} else Panic
  end.
Definition gdt_push (g : gdt) (v : Z) : gdt * Z :=
  ({| g_max := g_max g; g_entries := g_entries g ++ [v] |}, g_len g).
Definition sat_sub (a b : Z) : Z := Z.max 0 (a - b).
Definition gdt_append (g : gdt) (d : desc) : res (gdt * Z) :=
  do dpl <- desc_dpl d;
  match d with
  | UserSeg v =>
      if g_len g >? sat_sub (g_max g) 1 then Panic
      else let '(g1, i) := gdt_push g v in Ok (g1, sel_new (trunc16 i) dpl)
  | SysSeg lo hi =>
      if g_len g >? sat_sub (g_max g) 2 then Panic
      else let '(g1, i) := gdt_push g lo in
           let '(g2, _) := gdt_push g1 hi in Ok (g2, sel_new (trunc16 i) dpl)
  end.
Definition gdt_limit (g : gdt) : Z := trunc16 (g_len g * 8 - 1).

(* ---------- struct layouts: repr(C, packed(N)) ---------- *)
(* fields as (size, natural alignment); returns offsets and total size *)
Definition align_to (off al : Z) : Z := ((off + al - 1) / al) * al.
Fixpoint layout (pack : Z) (fields : list (Z * Z)) (off : Z) : list Z * Z :=
  match fields with
  | [] => ([], off)
  | (sz, al) :: rest =>
      let o := align_to off (Z.min al pack) in
      let '(offs, fin) := layout pack rest (o + sz) in (o :: offs, fin)
  end.
Definition struct_layout (pack : Z) (fields : list (Z * Z)) : list Z * Z :=
  let '(offs, fin) := layout pack fields 0 in
  let al := fold_right Z.max 1 (map (fun f => Z.min (snd f) pack) fields) in
  (offs, align_to fin al).
(* TaskStateSegment: reserved_1 u32, privilege_stack_table [VirtAddr;3], reserved_2 u64,
   interrupt_stack_table [VirtAddr;7], reserved_3 u64, reserved_4 u16, iomap_base u16; packed(4) *)
Definition tss_fields : list (Z * Z) := [(4, 4); (24, 8); (8, 8); (56, 8); (8, 8); (2, 2); (2, 2)].
Definition tss_layout := struct_layout 4 tss_fields.
(* DescriptorTablePointer: limit u16, base VirtAddr; packed(2) *)
Definition dtp_layout := struct_layout 2 [(2, 2); (8, 8)].
Definition tss_new_iomap_base : Z := trunc16 (snd tss_layout).
