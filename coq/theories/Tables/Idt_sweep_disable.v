From X86 Require Import Base.Word Tables.Idt Tables.IdtSweepDefs.
Open Scope Z_scope.

Lemma sweep_disable : sweep16 (fun b => forallb (fun d : bool =>
  let b' := set_bit16 b 8 (negb d) in
  (o_ist b' =? o_ist b) && (o_dpl b' =? o_dpl b) && (o_p b' =? o_p b) && (o_rest b' =? o_rest b) &&
  (o_type b' =? (o_type b / 2) * 2 + b2z (negb d)) && (0 <=? b') && (b' <? 65536)) [true; false]) = true.
Proof. vm_compute. reflexivity. Qed.
