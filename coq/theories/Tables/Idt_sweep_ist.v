From X86 Require Import Base.Word Tables.Idt Tables.IdtSweepDefs.
Open Scope Z_scope.

Lemma sweep_ist : sweep16 (fun b => forallb (fun v =>
  match set_bits b 0 3 v with
  | Ok b' => same4 b b' true false false false && (o_ist b' =? v)
  | Panic => false end) [0; 1; 2; 3; 4; 5; 6; 7]) = true.
Proof. vm_compute. reflexivity. Qed.
