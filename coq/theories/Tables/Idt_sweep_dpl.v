From X86 Require Import Base.Word Tables.Idt Tables.IdtSweepDefs.
Open Scope Z_scope.

Lemma sweep_dpl : sweep16 (fun b => forallb (fun d =>
  match set_bits b 13 15 d with
  | Ok b' => same4 b b' false false true false && (o_dpl b' =? d)
  | Panic => false end) [0; 1; 2; 3]) = true.
Proof. vm_compute. reflexivity. Qed.
