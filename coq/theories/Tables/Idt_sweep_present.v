From X86 Require Import Base.Word Tables.Idt Tables.IdtSweepDefs.
Open Scope Z_scope.

Lemma sweep_present : sweep16 (fun b => forallb (fun p : bool =>
  same4 b (set_bit16 b 15 p) false false false true && (o_p (set_bit16 b 15 p) =? b2z p)) [true; false]) = true.
Proof. vm_compute. reflexivity. Qed.
