(* Model of set_general_handler! (src/structures/idt.rs): which gates the macro expansion writes
   for a runtime range, and what each installed stub does when entered with a hardware-format
   frame.  The arm table is regenerated from the source on every run (Gen/General_gen.v). *)
From Coq Require Import String.
From X86 Require Export Tables.Idt Tables.GeneralDefs Gen.General_gen.
Open Scope Z_scope.

(* the named exception fields of InterruptDescriptorTable and their vectors (struct order) *)
Definition field_vectors : list (string * Z) :=
  [("divide_error", 0); ("debug", 1); ("non_maskable_interrupt", 2); ("breakpoint", 3);
   ("overflow", 4); ("bound_range_exceeded", 5); ("invalid_opcode", 6); ("device_not_available", 7);
   ("double_fault", 8); ("invalid_tss", 10); ("segment_not_present", 11); ("stack_segment_fault", 12);
   ("general_protection_fault", 13); ("page_fault", 14); ("x87_floating_point", 16);
   ("alignment_check", 17); ("machine_check", 18); ("simd_floating_point", 19);
   ("virtualization", 20); ("cp_protection_exception", 21); ("hv_injection_exception", 28);
   ("vmm_communication_exception", 29); ("security_exception", 30)]%string.
Fixpoint field_vector (l : list (string * Z)) (name : string) : option Z :=
  match l with
  | [] => None
  | (n, v) :: rest => if String.eqb n name then Some v else field_vector rest name
  end.

(* one expansion step: the positional bits (in the macro's parameter order) *)
Definition idx_of (bits : list Z) : Z :=
  fold_left Z.add (map (fun bw => Z.shiftl (fst bw) (snd bw)) (combine bits gh_weights)) 0.
Fixpoint pat_matches (pat bits : list Z) : bool :=
  match pat, bits with
  | [], [] => true
  | p :: ps, b :: bs => (p =? b) && pat_matches ps bs
  | _, _ => false
  end.
Fixpoint arm_of (arms : list (option (list Z) * gh_body)) (bits : list Z) : option gh_body :=
  match arms with
  | [] => None                                   (* no arm matches: the macro does not expand *)
  | (Some pat, b) :: rest => if pat_matches pat bits then Some b else arm_of rest bits
  | (None, b) :: _ => Some b
  end.
(* the expansion enumerates the 8 positional bits, first position outermost, 0 before 1 *)
Fixpoint all_bits (n : nat) : list (list Z) :=
  match n with
  | O => [[]]
  | S n' => map (cons 0) (all_bits n') ++ map (cons 1) (all_bits n')
  end.

(* what a gate holds: None = untouched (missing entry), Some stub *)
Record stub := { s_idx : Z; s_has_err : bool; s_diverging : bool; s_err_arg : Z }.
Definition gates := list (option stub).
Fixpoint set_nth {A} (l : list A) (n : nat) (x : A) : list A :=
  match l, n with
  | [], _ => []
  | _ :: t, O => x :: t
  | h :: t, S n' => h :: set_nth t n' x
  end.

(* the gate an arm writes for index v: a named field, or Index<u8> (which panics on the
   vectors that have no HandlerFunc-typed entry) *)
Definition arm_target (b : gh_body) (v : Z) : res (option Z) :=
  match b with
  | GReserved => Ok None
  | GStub field indexed _ _ _ _ =>
      if indexed then
        do fe <- idt_index_field v;
        (* field id + element: the vector itself for single fields, 32 + element for interrupts *)
        Ok (Some (fst fe + snd fe))
      else match field_vector field_vectors field with
           | Some t => Ok (Some t)
           | None => Panic                        (* unknown field: does not compile *)
           end
  end.
Definition arm_stub (b : gh_body) (v : Z) : option stub :=
  match b with
  | GReserved => None
  | GStub _ _ has_err div own err_arg =>
      Some {| s_idx := if own then v else -1; s_has_err := has_err; s_diverging := div; s_err_arg := err_arg |}
  end.

Definition install_one (contains : Z -> bool) (g : gates) (bits : list Z) : res gates :=
  let v := idx_of bits in
  if gh_contains_guard && negb (contains v) then Ok g else
  match arm_of gh_arms bits with
  | None => Panic
  | Some b =>
      do t <- arm_target b v;
      match t, arm_stub b v with
      | Some t, Some s => Ok (set_nth g (Z.to_nat t) (Some s))
      | _, _ => Ok g
      end
  end.
Fixpoint install_all (contains : Z -> bool) (g : gates) (l : list (list Z)) : res gates :=
  match l with
  | [] => Ok g
  | bits :: rest => do g' <- install_one contains g bits; install_all contains g' rest
  end.
Definition no_gates : gates := repeat None 256.
Definition set_general_handler (contains : Z -> bool) : res gates :=
  install_all contains no_gates (all_bits 8).

(* RangeBounds<u8>::contains for (Bound, Bound): kinds 0 Included, 1 Excluded, 2 Unbounded *)
Definition range_contains (sk s ek e v : Z) : bool :=
  (if sk =? 0 then s <=? v else if sk =? 1 then s <? v else true) &&
  (if ek =? 0 then v <=? e else if ek =? 1 then v <? e else true).

(* entering the stub of a gate with a frame (k, rsp_off, rflags: the harness's coordinates of
   RIP, RSP, RFLAGS) and, on the error-code vectors, an error code pushed below it *)
Definition arch_has_err (v : Z) : bool := existsb (Z.eqb v) [8; 10; 11; 12; 13; 14; 17; 21; 29; 30].
Definition FLAG_MASK : Z := 3285.     (* 0xcd5: CF PF AF ZF SF DF OF *)
Definition enter_stub (s : stub) (v k rsp_off rflags err : Z) : list Z :=
  (* what the general handler is called with: once; index; Some/None; the code; the frame *)
  let fl := Z.land rflags FLAG_MASK in
  let pushed_err := arch_has_err v in
  (* a stub that expects an error code pops one word more than a stub that does not: if the
     hardware pushes none (or the stub expects none although one is pushed) the frame it hands
     on is shifted by one word; this model only describes the matching case and flags the rest *)
  if negb (Bool.eqb (s_has_err s) pushed_err) then [-50] else
  let err_seen := if s_err_arg s =? 0 then 0 else err in
  [1; s_idx s; (if s_err_arg s =? 0 then 0 else 1); err_seen; 1; 1; rsp_off; 1] ++
  (if s_diverging s then [1] else [0; k; rsp_off; fl; 1]).

Definition bm_word (g : gates) (w : Z) : Z :=
  fold_left (fun acc i => if nth (Z.to_nat (64 * w + i)) g None then acc + Z.shiftl 1 i else acc)
            (map Z.of_nat (seq 0 64)) 0.
Definition count_some (g : gates) : Z :=
  Z.of_nat (length (filter (fun x => match x with Some _ => true | None => false end) g)).

Definition run_gh (oc : bool) (c : list Z) : list Z :=
  match c with
  | [1; sk; s; ek; e] =>
      match set_general_handler (range_contains sk s ek e) with
      | Ok g => [bm_word g 0; bm_word g 1; bm_word g 2; bm_word g 3; 0; 0; count_some g]
      | Panic => [PANIC]
      end
  | [2; v; k; rsp_off; rflags; err] =>
      match set_general_handler (fun _ => true) with
      | Ok g => match nth (Z.to_nat v) g None with
                | Some s => enter_stub s v k rsp_off rflags err
                | None => [NONE]
                end
      | Panic => [PANIC]
      end
  | [3; k; rsp_off; rflags] => [k; rsp_off; Z.land rflags FLAG_MASK]
  | _ => [-99]
  end.
