(* C13: which gates set_general_handler! installs for ANY range predicate, and what the stub of
   each gate reports.  The arm table (Gen/General_gen.v) is regenerated from the source. *)
From X86 Require Import Tables.General Tables.Gdt.
Require Import Lia.
Open Scope Z_scope.

(* reserved vectors of the architecture (Arch): 15, 22-27, 31 *)
Definition reserved_vector (v : Z) : bool := existsb (Z.eqb v) [15; 22; 23; 24; 25; 26; 27; 31].
Definition diverging_vector (v : Z) : bool := existsb (Z.eqb v) [8; 18].
(* the stub the property demands in gate v *)
Definition stub_of (v : Z) : stub :=
  {| s_idx := v; s_has_err := arch_has_err v; s_diverging := diverging_vector v;
     s_err_arg := if arch_has_err v then (if v =? 14 then 2 else 1) else 0 |}.
Definition stub_eqb (a b : stub) : bool :=
  (s_idx a =? s_idx b) && Bool.eqb (s_has_err a) (s_has_err b) &&
  Bool.eqb (s_diverging a) (s_diverging b) && (s_err_arg a =? s_err_arg b).
Lemma stub_eqb_eq a b : stub_eqb a b = true -> a = b.
Proof.
  destruct a, b. unfold stub_eqb. cbn. intros H.
  repeat (apply Bool.andb_true_iff in H; destruct H as [H ?]).
  apply Z.eqb_eq in H. apply Bool.eqb_prop in H2, H1. apply Z.eqb_eq in H0. subst. reflexivity.
Qed.

(* ---- the finite facts about the regenerated arm table (256 expansions) ---- *)
Definition good_bits (bits : list Z) : bool :=
  let v := idx_of bits in
  match arm_of gh_arms bits with
  | None => false
  | Some b =>
      match arm_target b v, arm_stub b v with
      | Ok None, None => reserved_vector v
      | Ok (Some t), Some s => negb (reserved_vector v) && (t =? v) && stub_eqb s (stub_of v)
      | _, _ => false
      end
  end.
Lemma guard_present : gh_contains_guard = true. Proof. reflexivity. Qed.
Lemma indices_enumerated : map idx_of (all_bits 8) = map Z.of_nat (seq 0 256).
Proof. vm_compute. reflexivity. Qed.
Lemma all_good : forallb good_bits (all_bits 8) = true.
Proof. vm_compute. reflexivity. Qed.

(* ---- lists ---- *)
Lemma nth_set_nth {A} (l : list A) n m x d :
  nth m (set_nth l n x) d = if (Nat.eqb n m && Nat.ltb n (length l))%bool then x else nth m l d.
Proof.
  revert n m. induction l as [|h t IH]; intros n m.
  - cbn. destruct n, m; cbn; try reflexivity; rewrite ?Bool.andb_false_r; reflexivity.
  - destruct n as [|n], m as [|m]; cbn [set_nth nth Nat.eqb length andb]; try reflexivity.
    rewrite IH. reflexivity.
Qed.
Lemma set_nth_length {A} (l : list A) n x : length (set_nth l n x) = length l.
Proof. revert n. induction l as [|h t IH]; intros [|n]; cbn; auto. Qed.

(* the gate of v after one expansion step *)
Lemma install_one_spec contains g bits : length g = 256%nat -> good_bits bits = true ->
  0 <= idx_of bits < 256 ->
  exists g', install_one contains g bits = Ok g' /\ length g' = 256%nat /\
    forall m, nth m g' None =
      if (Nat.eqb (Z.to_nat (idx_of bits)) m && contains (idx_of bits) && negb (reserved_vector (idx_of bits)))%bool
      then Some (stub_of (idx_of bits)) else nth m g None.
Proof.
  intros Hl Hg Hv. unfold install_one. rewrite guard_present. cbn [andb].
  set (v := idx_of bits) in *.
  destruct (contains v) eqn:Hc; cbn [negb].
  2:{ exists g. split; [reflexivity|]. split; [exact Hl|]. intros m.
      rewrite Bool.andb_false_r. reflexivity. }
  unfold good_bits in Hg. fold v in Hg.
  destruct (arm_of gh_arms bits) as [b|]; [|discriminate].
  destruct (arm_target b v) as [[t|]|]; destruct (arm_stub b v) as [s|]; try discriminate; cbn [bind].
  - apply Bool.andb_true_iff in Hg. destruct Hg as [Hg Hs].
    apply Bool.andb_true_iff in Hg. destruct Hg as [Hr Ht].
    apply Z.eqb_eq in Ht. subst t. apply stub_eqb_eq in Hs. subst s.
    exists (set_nth g (Z.to_nat v) (Some (stub_of v))).
    split; [reflexivity|]. split; [rewrite set_nth_length; exact Hl|]. intros m.
    rewrite nth_set_nth, Hl. rewrite Bool.andb_true_r.
    apply Bool.negb_true_iff in Hr. rewrite Hr. cbn [negb]. rewrite Bool.andb_true_r.
    assert (Hlt : Nat.ltb (Z.to_nat v) 256 = true) by (apply Nat.ltb_lt; lia).
    rewrite Hlt, Bool.andb_true_r. reflexivity.
  - exists g. split; [reflexivity|]. split; [exact Hl|]. intros m.
    rewrite Hg. cbn [negb]. rewrite Bool.andb_false_r. reflexivity.
Qed.

Lemma install_all_spec contains l : forall g, length g = 256%nat ->
  forallb good_bits l = true -> Forall (fun bits => 0 <= idx_of bits < 256) l ->
  exists g', install_all contains g l = Ok g' /\ length g' = 256%nat /\
    forall m, nth m g' None =
      if (existsb (fun bits => Nat.eqb (Z.to_nat (idx_of bits)) m) l && contains (Z.of_nat m)
          && negb (reserved_vector (Z.of_nat m)))%bool
      then Some (stub_of (Z.of_nat m)) else nth m g None.
Proof.
  induction l as [|bits rest IH]; intros g Hl Hg Hr.
  - exists g. split; [reflexivity|]. split; [exact Hl|]. intros m. reflexivity.
  - cbn [forallb] in Hg. apply Bool.andb_true_iff in Hg. destruct Hg as [Hg1 Hg2].
    inversion Hr as [|? ? Hr1 Hr2]; subst.
    destruct (install_one_spec contains g bits Hl Hg1 Hr1) as (g1 & E1 & L1 & N1).
    destruct (IH g1 L1 Hg2 Hr2) as (g2 & E2 & L2 & N2).
    exists g2. cbn [install_all]. rewrite E1. cbn [bind]. split; [exact E2|]. split; [exact L2|].
    intros m. rewrite N2, N1. cbn [existsb].
    destruct (Nat.eqb_spec (Z.to_nat (idx_of bits)) m) as [He|Hne]; cbn [orb andb].
    + assert (Hv : idx_of bits = Z.of_nat m) by lia. rewrite Hv.
      destruct (existsb _ rest); cbn [andb];
        destruct (contains (Z.of_nat m)); destruct (reserved_vector (Z.of_nat m)); reflexivity.
    + reflexivity.
Qed.

(* for EVERY range predicate: exactly the non-reserved vectors it contains are present, each
   with the stub that reports that vector; every other gate is untouched *)
Theorem set_general_handler_spec contains :
  exists g, set_general_handler contains = Ok g /\ length g = 256%nat /\
    forall v, 0 <= v < 256 ->
      nth (Z.to_nat v) g None =
        if contains v && negb (reserved_vector v) then Some (stub_of v) else None.
Proof.
  unfold set_general_handler.
  assert (Hr : Forall (fun bits => 0 <= idx_of bits < 256) (all_bits 8)).
  { apply Forall_forall. intros bits Hin.
    assert (Hm : In (idx_of bits) (map idx_of (all_bits 8))) by (apply in_map; exact Hin).
    rewrite indices_enumerated in Hm. apply in_map_iff in Hm. destruct Hm as (n & <- & Hn).
    apply in_seq in Hn. lia. }
  destruct (install_all_spec contains (all_bits 8) no_gates (repeat_length _ _) all_good Hr)
    as (g & E & L & N).
  exists g. split; [exact E|]. split; [exact L|]. intros v Hv.
  rewrite N. rewrite Z2Nat.id by lia.
  assert (Hex : existsb (fun bits => Nat.eqb (Z.to_nat (idx_of bits)) (Z.to_nat v)) (all_bits 8) = true).
  { apply existsb_exists.
    assert (Hm : In v (map idx_of (all_bits 8))).
    { rewrite indices_enumerated. apply in_map_iff. exists (Z.to_nat v). split; [lia|]. apply in_seq. lia. }
    apply in_map_iff in Hm. destruct Hm as (bits & Hb & Hin). exists bits. split; [exact Hin|].
    apply Nat.eqb_eq. rewrite Hb. reflexivity. }
  rewrite Hex. cbn [andb].
  destruct (contains v && negb (reserved_vector v))%bool eqn:Hc.
  - destruct (contains v); destruct (reserved_vector v); try discriminate. reflexivity.
  - destruct (contains v); destruct (reserved_vector v); try discriminate;
      unfold no_gates; rewrite nth_repeat; reflexivity.
Qed.

(* what entering the stub of gate v reports: the general handler is called once with index v,
   the pushed frame, the error code exactly on the error-code vectors; returning vectors resume
   at the frame's instruction pointer, stack pointer and flags *)
Theorem enter_stub_spec v k rsp_off rflags err : 0 <= v < 256 ->
  enter_stub (stub_of v) v k rsp_off rflags err =
    [1; v; (if arch_has_err v then 1 else 0); (if arch_has_err v then err else 0); 1; 1; rsp_off; 1] ++
    (if diverging_vector v then [1] else [0; k; rsp_off; Z.land rflags FLAG_MASK; 1]).
Proof.
  intros Hv. unfold enter_stub, stub_of. cbn [s_has_err s_err_arg s_idx s_diverging].
  rewrite Bool.eqb_reflx. cbn [negb].
  destruct (arch_has_err v); [destruct (v =? 14)|]; reflexivity.
Qed.

(* InterruptStackFrameValue is repr(C): VirtAddr, SegmentSelector + 6 bytes, RFlags, VirtAddr,
   SegmentSelector + 6 bytes = the hardware frame RIP@0 CS@8 RFLAGS@16 RSP@24 SS@32, 40 bytes *)
Definition isf_layout := struct_layout 8 [(8, 8); (2, 2); (6, 1); (8, 8); (8, 8); (2, 2); (6, 1)].
Theorem isf_layout_spec : isf_layout = ([0; 8; 10; 16; 24; 32; 34], 40).
Proof. vm_compute. reflexivity. Qed.
