(* Correspondence interface of the descriptor-table engine ("tbl"): GDT, descriptors, TSS and
   pointer layouts, IDT. *)
From X86 Require Import Tables.Gdt Tables.Idt.
Open Scope Z_scope.

Definition mk_desc (kind lo hi : Z) : desc := if kind =? 0 then UserSeg lo else SysSeg lo hi.
Fixpoint run_appends (g : gdt) (l : list Z) : list Z * gdt :=
  match l with
  | kind :: lo :: hi :: l' =>
      match gdt_append g (mk_desc kind lo hi) with
      | Ok (g', sel) => let '(o, gf) := run_appends g' l' in (sel :: o, gf)
      | Panic => let '(o, gf) := run_appends g l' in (PANIC :: o, gf)   (* table unchanged *)
      end
  | _ => ([], g)
  end.
Definition dump_gdt (g : gdt) : list Z := g_len g :: g_entries g ++ [gdt_limit g].

(* slice forms: 0..8 = (Bound, Bound) with kinds (form / 3, form mod 3); 9 Range, 10 RangeFrom,
   11 RangeInclusive, 12 RangeTo, 13 RangeToInclusive, 14 RangeFull *)
Definition form_bounds (form : Z) : Z * Z :=
  if form <? 9 then (form / 3, form mod 3)
  else if form =? 9 then (0, 1) else if form =? 10 then (0, 2) else if form =? 11 then (0, 0)
  else if form =? 12 then (2, 1) else if form =? 13 then (2, 0) else (2, 2).

Definition observe_entry (e : entry) : list Z :=
  [fst (entry_words e); snd (entry_words e); handler_addr e].
Fixpoint run_entry_ops (oc : bool) (started : bool) (e : entry) (cs : Z) (l : list Z) : list Z :=
  match l with
  | op :: arg :: l' =>
      if op =? 0 then
        match va_new arg with
        | Ok _ => let e' := set_handler_addr e arg cs in observe_entry e' ++ run_entry_ops oc true e' cs l'
        | Panic => [PANIC]
        end
      else if negb started then run_entry_ops oc started e cs l'
      else
        let r :=
          if op =? 1 then Ok (opt_set_present e (negb (arg =? 0)))
          else if op =? 2 then Ok (opt_disable_interrupts e (negb (arg =? 0)))
          else if op =? 3 then do d <- priv_from_u16 (trunc16 arg); opt_set_privilege_level e d
          else if op =? 4 then opt_set_stack_index oc e (trunc16 arg)
          else Ok (opt_set_code_selector e (trunc16 arg)) in
        match r with
        | Ok e' => observe_entry e' ++ run_entry_ops oc started e' cs l'
        | Panic => [PANIC]
        end
  | _ => []
  end.

Definition run_tbl (oc : bool) (c : list Z) : list Z :=
  match c with
  | 1 :: max :: l =>
      match gdt_empty max with
      | Ok g => let '(o, gf) := run_appends g l in o ++ dump_gdt gf
      | Panic => [PANIC]
      end
  | 2 :: max :: l =>
      match gdt_from_raw max l with Ok g => dump_gdt g | Panic => [PANIC] end
  | 3 :: max :: l =>
      match gdt_empty max with
      | Ok g => let '(o, gf) := run_appends g l in [gdt_limit gf; 0]
      | Panic => [PANIC]
      end
  | [10; ptr] =>
      match tss_segment ptr with Ok (SysSeg lo hi) => [lo; hi] | _ => [PANIC] end
  (* Descriptor::tss_segment(&tss): the descriptor of the TSS's address whatever the TSS holds,
     reported as the bitwise difference to tss_segment_unchecked of that address *)
  | [14; _; _] => [0; 0]
  | [11] => [DF_KERNEL_DATA; DF_KERNEL_CODE32; DF_KERNEL_CODE64; DF_USER_DATA; DF_USER_CODE32;
             DF_USER_CODE64; DF_KERNEL_CODE64; DF_KERNEL_DATA; DF_USER_DATA; DF_USER_CODE64]
  | [12; kind; lo; hi] => enc_res (desc_dpl (mk_desc kind lo hi))
  | [13] => fst tss_layout ++ [snd tss_layout; tss_new_iomap_base] ++ fst dtp_layout ++ [snd dtp_layout]
  | [20; v; path] => enc_res (idt_index (v mod 256))
  | [21; id] => enc_res (idt_named id)
  | [22; form; s; e; via] =>
      let '(sk, ek) := form_bounds form in
      match idt_slice sk (s mod 256) ek (e mod 256) with Ok (o, n) => [o; n] | Panic => [PANIC] end
  | 23 :: cs :: l => run_entry_ops oc false entry_missing cs l
  | [24] => [256; idt_size; 16; fst (entry_words entry_missing); snd (entry_words entry_missing)]
  | [25] => [idt_size - 1; 0]
  | _ => [-99]
  end.
