(* C03: every address value obtainable through the safe API is valid.
   ReachVA / ReachPA: the closure of the safe operations that return an address, with
   arbitrary u64 / usize arguments; by induction every reachable value is canonical /
   below 2^52.  The operations carry no build-profile parameter (see Arith.v). *)
From X86 Require Import Base.Word Base.Bits Addr.Model Addr.Canon Addr.Align Addr.Index
  Addr.Step Addr.Arith.
Open Scope Z_scope.

Inductive ReachPA : Z -> Prop :=
| PA_new a v : u64 a -> pa_new a = Ok v -> ReachPA v
| PA_try_new a v : u64 a -> pa_try_new a = Some v -> ReachPA v
| PA_new_truncate a : u64 a -> ReachPA (pa_new_truncate a)
| PA_zero : ReachPA 0
| PA_align_up v al r : ReachPA v -> u64 al -> pa_align_up v al = Ok r -> ReachPA r
| PA_align_down v al r : ReachPA v -> u64 al -> pa_align_down v al = Ok r -> ReachPA r
| PA_add v n r : ReachPA v -> u64 n -> pa_add v n = Ok r -> ReachPA r
| PA_sub v n r : ReachPA v -> u64 n -> pa_sub v n = Ok r -> ReachPA r
| PA_frame_containing sz v r : page_size sz -> ReachPA v -> frame_containing sz v = Ok r -> ReachPA r
| PA_frame_from_start sz v r : page_size sz -> ReachPA v -> frame_from_start sz v = Ok (Some r) -> ReachPA r
| PA_frame_add sz v n r : page_size sz -> ReachPA v -> u64 n -> frame_add sz v n = Ok r -> ReachPA r
| PA_frame_sub sz v n r : page_size sz -> ReachPA v -> u64 n -> frame_sub sz v n = Ok r -> ReachPA r
| PA_pte_addr e r : u64 e -> pte_addr e = Ok r -> ReachPA r.

Lemma align_down_le a al r : u64 a -> u64 al -> align_down a al = Ok r -> 0 <= r <= a.
Proof.
  intros Ha Hal. unfold align_down. destruct (is_pow2 al) eqn:E; [|discriminate].
  apply is_pow2_spec in E. destruct E as [k [Hk ->]]. intros [= <-].
  rewrite land_not64 by (auto; lia). pose proof (pow2_pos k).
  pose proof (round_down_nonneg a (2 ^ k)). pose proof (Z.mod_pos_bound a (2 ^ k)).
  unfold round_down, u64 in *. lia.
Qed.

Theorem reach_pa_valid v : ReachPA v -> phys v.
Proof.
  induction 1 as [a v Ha E|a v Ha E|a Ha| |v al r Hr IH Hal E|v al r Hr IH Hal E
                  |v n r Hr IH Hn E|v n r Hr IH Hn E|sz v r Hs Hr IH E|sz v r Hs Hr IH E
                  |sz v n r Hs Hr IH Hn E|sz v n r Hs Hr IH Hn E|e r He E].
  - apply pa_new_ok in E; [|assumption]. destruct E as [-> Hp]. exact Hp.
  - rewrite pa_try_new_spec in E by assumption. destruct (physb a) eqn:Ep; [|discriminate].
    injection E as <-. apply physb_spec; assumption.
  - apply pa_new_truncate_phys.
  - unfold phys, P52. lia.
  - unfold pa_align_up in E. destruct (align_up v al) as [x|] eqn:Ea; [|discriminate].
    cbn [bind] in E. unfold pa_new in E. destruct (pa_try_new x) as [y|] eqn:Et; [|discriminate].
    injection E as <-. unfold pa_try_new in Et.
    destruct (pa_new_truncate x =? x) eqn:Eq; [|discriminate]. injection Et as <-.
    apply Z.eqb_eq in Eq. rewrite <- Eq. apply pa_new_truncate_phys.
  - unfold pa_align_down in E. apply align_down_le in E; [|apply phys_u64; assumption|assumption].
    unfold phys in *. lia.
  - apply (pa_ops_exact v n r IH Hn) in E. apply E.
  - apply (pa_ops_exact v n r IH Hn) in E. apply E.
  - destruct (frame_containing_spec sz v Hs IH) as (p & Ep & Hp & _). congruence.
  - rewrite frame_from_start_spec in E by assumption.
    destruct (v mod sz =? 0); [|discriminate]. injection E as <-. assumption.
  - unfold frame_add in E. destruct (unwrap (checked_mul64 n sz)) as [m|]; [|discriminate].
    cbn [bind] in E. destruct (pa_add v m) as [x|] eqn:Ea; [|discriminate]. cbn [bind] in E.
    unfold frame_containing, pa_align_down in E.
    assert (Hx : phys x).
    { unfold pa_add in Ea. destruct (unwrap (checked_add64 v m)) as [y|]; [|discriminate].
      cbn [bind] in Ea. unfold pa_new in Ea. destruct (pa_try_new y) as [z|] eqn:Et; [|discriminate].
      injection Ea as <-. unfold pa_try_new in Et.
      destruct (pa_new_truncate y =? y) eqn:Eq; [|discriminate]. injection Et as <-.
      apply Z.eqb_eq in Eq. rewrite <- Eq. apply pa_new_truncate_phys. }
    apply align_down_le in E; [unfold phys in *; lia|apply phys_u64; assumption|].
    destruct Hs as [-> | [-> | ->]]; unfold u64, S4K, S2M, S1G, W64; lia.
  - unfold frame_sub in E. destruct (unwrap (checked_mul64 n sz)) as [m|]; [|discriminate].
    cbn [bind] in E. destruct (pa_sub v m) as [x|] eqn:Ea; [|discriminate]. cbn [bind] in E.
    unfold frame_containing, pa_align_down in E.
    assert (Hx : phys x).
    { unfold pa_sub in Ea. destruct (unwrap (checked_sub64 v m)) as [y|]; [|discriminate].
      cbn [bind] in Ea. unfold pa_new in Ea. destruct (pa_try_new y) as [z|] eqn:Et; [|discriminate].
      injection Ea as <-. unfold pa_try_new in Et.
      destruct (pa_new_truncate y =? y) eqn:Eq; [|discriminate]. injection Et as <-.
      apply Z.eqb_eq in Eq. rewrite <- Eq. apply pa_new_truncate_phys. }
    apply align_down_le in E; [unfold phys in *; lia|apply phys_u64; assumption|].
    destruct Hs as [-> | [-> | ->]]; unfold u64, S4K, S2M, S1G, W64; lia.
  - unfold pte_addr, pa_new in E. destruct (pa_try_new _) as [y|] eqn:Et; [|discriminate].
    injection E as <-. unfold pa_try_new in Et.
    destruct (pa_new_truncate _ =? _) eqn:Eq; [|discriminate]. injection Et as <-.
    apply Z.eqb_eq in Eq. rewrite <- Eq. apply pa_new_truncate_phys.
Qed.

(* PageTableEntry::addr never panics: the mask keeps bits 12..51 only *)
Theorem pte_addr_total e : u64 e ->
  pte_addr e = Ok (e mod P52 - e mod 4096) /\ phys (e mod P52 - e mod 4096).
Proof.
  intros He. unfold pte_addr.
  change 4503599627366400 with (2 ^ 52 - 2 ^ 12). rewrite land_mask_range by lia.
  change (2 ^ 52) with P52. change (2 ^ 12) with 4096.
  assert (Hp : phys (e mod P52 - e mod 4096)).
  { unfold phys, P52, u64, W64 in *.
    pose proof (Z.mod_pos_bound e 4503599627370496). pose proof (Z.mod_pos_bound e 4096).
    assert (e mod 4096 <= e mod 4503599627370496).
    { pose proof (mod_mod_pow2 e 52 12 ltac:(lia)) as M.
      change (2 ^ 52) with 4503599627370496 in M. change (2 ^ 12) with 4096 in M.
      rewrite <- M. apply Z.mod_le; lia. }
    lia. }
  split; [|exact Hp]. rewrite pa_new_spec by (apply phys_u64; assumption).
  apply physb_spec in Hp. rewrite Hp. reflexivity.
Qed.

Inductive ReachVA : Z -> Prop :=
| VA_new a v : u64 a -> va_new a = Ok v -> ReachVA v          (* also from_ptr *)
| VA_try_new a v : u64 a -> va_try_new a = Some v -> ReachVA v
| VA_new_truncate a : u64 a -> ReachVA (va_new_truncate a)
| VA_zero : ReachVA 0
| VA_align_up v al r : ReachVA v -> u64 al -> va_align_up v al = Ok r -> ReachVA r
| VA_align_down v al r : ReachVA v -> u64 al -> va_align_down v al = Ok r -> ReachVA r
| VA_add v n r : ReachVA v -> u64 n -> va_add v n = Ok r -> ReachVA r
| VA_sub v n r : ReachVA v -> u64 n -> va_sub v n = Ok r -> ReachVA r
| VA_forward v n r : ReachVA v -> u64 n -> forward_checked_u64 v n = Ok (Some r) -> ReachVA r
| VA_backward v n r : ReachVA v -> u64 n -> backward_checked_u64 v n = Ok (Some r) -> ReachVA r
| VA_page_containing sz v r : page_size sz -> ReachVA v -> page_containing sz v = Ok r -> ReachVA r
| VA_page_from_start sz v r : page_size sz -> ReachVA v -> page_from_start sz v = Ok (Some r) -> ReachVA r
| VA_page_add sz v n r : page_size sz -> ReachVA v -> u64 n -> page_add sz v n = Ok r -> ReachVA r
| VA_page_sub sz v n r : page_size sz -> ReachVA v -> u64 n -> page_sub sz v n = Ok r -> ReachVA r
| VA_page_forward sz v n r : page_size sz -> ReachVA v -> u64 n ->
    page_forward_checked sz v n = Ok (Some r) -> ReachVA r
| VA_page_backward sz v n r : page_size sz -> ReachVA v -> u64 n ->
    page_backward_checked sz v n = Ok (Some r) -> ReachVA r
| VA_from_indices_4k p4 p3 p2 p1 r : 0 <= p4 < 512 -> 0 <= p3 < 512 -> 0 <= p2 < 512 -> 0 <= p1 < 512 ->
    from_indices_4k p4 p3 p2 p1 = Ok r -> ReachVA r
| VA_from_indices_2m p4 p3 p2 r : 0 <= p4 < 512 -> 0 <= p3 < 512 -> 0 <= p2 < 512 ->
    from_indices_2m p4 p3 p2 = Ok r -> ReachVA r
| VA_from_indices_1g p4 p3 r : 0 <= p4 < 512 -> 0 <= p3 < 512 ->
    from_indices_1g p4 p3 = Ok r -> ReachVA r
| VA_handler_addr lo mid hi : 0 <= lo < W16 -> 0 <= mid < W16 -> 0 <= hi < W32 ->
    ReachVA (idt_handler_addr lo mid hi).

Lemma va_new_truncate_wrap y : va_new_truncate y = va_new_truncate (y mod W64).
Proof.
  unfold va_new_truncate, shl64, wrap64. rewrite !Z.shiftl_mul_pow2 by lia.
  rewrite Z.mul_mod_idemp_l by (unfold W64; lia). reflexivity.
Qed.
Lemma va_new_truncate_canonical_any y : canonical (va_new_truncate y).
Proof.
  rewrite va_new_truncate_wrap. apply va_new_truncate_canonical.
  unfold u64, W64. pose proof (Z.mod_pos_bound y 18446744073709551616). lia.
Qed.
Lemma va_new_ok_any y r : va_new y = Ok r -> r = y /\ canonical r.
Proof.
  unfold va_new, va_try_new. destruct (va_new_truncate y =? y) eqn:E; [|discriminate].
  cbn [unwrap]. intros [= <-]. split; [reflexivity|].
  apply Z.eqb_eq in E. rewrite <- E. apply va_new_truncate_canonical_any.
Qed.
Lemma truncated_result_canonical (f : res Z) r : rmap va_new_truncate f = Ok r -> canonical r.
Proof.
  destruct f as [x|]; [|discriminate]. cbn [rmap]. intros [= <-].
  apply va_new_truncate_canonical_any.
Qed.
Lemma bind_ok {A B} (f : res A) (g : A -> res B) r : bind f g = Ok r -> exists x, f = Ok x /\ g x = Ok r.
Proof. destruct f as [x|]; [|discriminate]. cbn [bind]. eauto. Qed.

Theorem reach_va_valid v : ReachVA v -> canonical v.
Proof.
  induction 1 as [a v Ha E|a v Ha E|a Ha| |v al r Hr IH Hal E|v al r Hr IH Hal E
                  |v n r Hr IH Hn E|v n r Hr IH Hn E|v n r Hr IH Hn E|v n r Hr IH Hn E
                  |sz v r Hs Hr IH E|sz v r Hs Hr IH E
                  |sz v n r Hs Hr IH Hn E|sz v n r Hs Hr IH Hn E
                  |sz v n r Hs Hr IH Hn E|sz v n r Hs Hr IH Hn E
                  |p4 p3 p2 p1 r H4 H3 H2 H1 E|p4 p3 p2 r H4 H3 H2 E|p4 p3 r H4 H3 E
                  |lo mid hi Hlo Hmid Hhi].
  - apply va_new_ok_any in E. apply E.
  - rewrite va_try_new_spec in E by assumption. destruct (canonicalb a) eqn:Ec; [|discriminate].
    injection E as <-. apply canonicalb_spec; assumption.
  - apply va_new_truncate_canonical; assumption.
  - left. unfold P47. lia.
  - unfold va_align_up in E. apply (truncated_result_canonical _ _ E).
  - unfold va_align_down in E. apply (truncated_result_canonical _ _ E).
  - apply (va_ops_exact v n r IH Hn) in E. apply E.
  - apply (va_ops_exact v n r IH Hn) in E. apply E.
  - apply (forward_backward v n r IH Hn E).
  - apply (backward_forward v n r IH Hn E).
  - destruct (page_containing_spec sz v Hs IH) as (p & Ep & Hp & _). congruence.
  - rewrite page_from_start_spec in E by assumption.
    destruct (v mod sz =? 0); [|discriminate]. injection E as <-. assumption.
  - unfold page_add in E. apply bind_ok in E. destruct E as (m & _ & E).
    apply bind_ok in E. destruct E as (x & Ea & E).
    unfold va_add in Ea. apply bind_ok in Ea. destruct Ea as (y & _ & Ea).
    apply va_new_ok_any in Ea. destruct Ea as [_ Hx].
    destruct (page_containing_spec sz x Hs Hx) as (p & Ep & Hp & _). congruence.
  - unfold page_sub in E. apply bind_ok in E. destruct E as (m & _ & E).
    apply bind_ok in E. destruct E as (x & Ea & E).
    unfold va_sub in Ea. apply bind_ok in Ea. destruct Ea as (y & _ & Ea).
    apply va_new_ok_any in Ea. destruct Ea as [_ Hx].
    destruct (page_containing_spec sz x Hs Hx) as (p & Ep & Hp & _). congruence.
  - rewrite page_forward_spec in E by assumption. pose proof (pos_range v IH).
    destruct (pos v + n * sz <? P48) eqn:E2; [|discriminate]. injection E as <-.
    apply unpos_canonical. pose proof (sz_pos sz Hs). unfold u64 in *. nia.
  - rewrite page_backward_spec in E by assumption. pose proof (pos_range v IH).
    destruct (n * sz <=? pos v) eqn:E2; [|discriminate]. injection E as <-.
    apply unpos_canonical. pose proof (sz_pos sz Hs). unfold u64 in *. nia.
  - destruct (from_indices_4k_spec p4 p3 p2 p1 H4 H3 H2 H1) as (pg & Ep & Hc & _). congruence.
  - destruct (from_indices_2m_spec p4 p3 p2 H4 H3 H2) as (pg & Ep & Hc & _). congruence.
  - destruct (from_indices_1g_spec p4 p3 H4 H3) as (pg & Ep & Hc & _). congruence.
  - apply va_new_truncate_canonical_any.
Qed.

(* non-vacuity: the first address of the upper half and the last frame are reachable *)
Example reach_upper_half : ReachVA HI.
Proof. apply (VA_forward 140737488355327 1); [|unfold u64, W64; lia|vm_compute; reflexivity].
  apply (VA_new 140737488355327); [unfold u64, W64; lia|vm_compute; reflexivity]. Qed.
Example reach_last_frame : ReachPA 4503599627366400.
Proof. apply (PA_pte_addr 18446744073709551615); [unfold u64, W64; lia|vm_compute; reflexivity]. Qed.
