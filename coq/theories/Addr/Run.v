(* Correspondence interface of the address engine: a case is a list of integers
   (function id, arguments), the answer a list of integers.  The Rust harness
   (harness/src/eng_addr.rs) implements the same table over the real crate. *)
From X86 Require Import Addr.Model.
Open Scope Z_scope.

Definition sz_of (k : Z) : Z := if k =? 0 then S4K else if k =? 1 then S2M else S1G.

Definition enc_steps (p : Z * option Z) : list Z := fst p :: enc_opt (snd p).
Definition enc_rbool (r : res bool) : list Z :=
  match r with Ok b => [b2z b] | Panic => [PANIC] end.

(* range kinds: 0 PageRange, 1 PageRangeInclusive, 2 PhysFrameRange, 3 PhysFrameRangeInclusive *)
Definition rng_is_empty (k : Z) (r : rng) : bool :=
  if (k =? 0) || (k =? 2) then pr_is_empty r else pri_is_empty r.
Definition rng_len (oc : bool) (k sz : Z) (r : rng) : res Z :=
  if k =? 0 then pr_len sz r else if k =? 1 then pri_len oc sz r
  else if k =? 2 then fr_len sz r else fri_len oc sz r.
Definition rng_size (oc : bool) (k sz : Z) (r : rng) : res Z :=
  if k =? 0 then pr_size oc sz r else if k =? 1 then pri_size oc sz r
  else if k =? 2 then fr_size oc sz r else fri_size oc sz r.
Definition rng_next (oc : bool) (k sz : Z) : rng -> res (option Z * rng) :=
  if k =? 0 then pr_next sz else if k =? 1 then pri_next sz
  else if k =? 2 then fr_next sz else fri_next oc sz.

Definition run_range (oc : bool) (k szk s e n : Z) : list Z :=
  let sz := sz_of szk in
  let r := (s, e) in
  let '(items, pan, rf) := iter_n (rng_next oc k sz) (Z.to_nat n) r in
  [b2z (rng_is_empty k r)] ++ enc_res (rng_len oc k sz r) ++ enc_res (rng_size oc k sz r)
  ++ [Z.of_nat (length items)] ++ items ++ [b2z pan; fst rf; snd rf].

(* programs over a current VirtAddr *)
Definition va_prog_step (cur op arg : Z) : res Z :=
  if op =? 0 then va_new arg
  else if op =? 1 then Ok (match va_try_new arg with Some v => v | None => cur end)
  else if op =? 2 then Ok (va_new_truncate arg)
  else if op =? 3 then Ok 0
  else if op =? 4 then va_align_up cur arg
  else if op =? 5 then va_align_down cur arg
  else if op =? 6 then va_add cur arg
  else if op =? 7 then va_sub cur arg
  else if op =? 8 then
    rmap (fun o => match o with Some v => v | None => cur end) (forward_checked_u64 cur arg)
  else if op =? 9 then
    rmap (fun o => match o with Some v => v | None => cur end) (backward_checked_u64 cur arg)
  else if op =? 10 then do p <- page_containing S4K cur; page_add S4K p arg
  else if op =? 11 then do p <- page_containing S2M cur; page_sub S2M p arg
  else if op =? 12 then
    do p <- page_containing S1G cur;
    rmap (fun o => match o with Some v => v | None => p end) (page_forward_checked S1G p arg)
  else if op =? 13 then
    do p <- page_containing S4K cur;
    rmap (fun o => match o with Some v => v | None => p end) (page_backward_checked S4K p arg)
  else if op =? 14 then
    from_indices_4k (p4_index cur) (pti_new_truncate (trunc16 arg)) (p2_index cur) (p1_index cur)
  else if op =? 15 then
    Ok (idt_handler_addr (trunc16 arg) (trunc16 (shr64 arg 16)) (shr64 arg 32))
  else if op =? 16 then va_add cur arg
  else if op =? 17 then va_sub cur arg
  else if op =? 18 then va_new arg                                    (* from_ptr *)
  else if op =? 19 then from_indices_1g (p4_index cur) (pti_new_truncate (trunc16 arg))
  else if op =? 20 then from_indices_2m (p4_index cur) (p3_index cur) (pti_new_truncate (trunc16 arg))
  else Ok cur.
Definition pa_prog_step (cur op arg : Z) : res Z :=
  if op =? 0 then pa_new arg
  else if op =? 1 then Ok (match pa_try_new arg with Some v => v | None => cur end)
  else if op =? 2 then Ok (pa_new_truncate arg)
  else if op =? 3 then Ok 0
  else if op =? 4 then pa_align_up cur arg
  else if op =? 5 then pa_align_down cur arg
  else if op =? 6 then pa_add cur arg
  else if op =? 7 then pa_sub cur arg
  else if op =? 8 then do p <- frame_containing S4K cur; frame_add S4K p arg
  else if op =? 9 then do p <- frame_containing S2M cur; frame_sub S2M p arg
  else if op =? 10 then pte_addr arg
  else if op =? 11 then pa_add cur arg
  else if op =? 12 then pa_sub cur arg
  else Ok cur.
Fixpoint run_prog (step : Z -> Z -> Z -> res Z) (cur : Z) (l : list Z) : list Z :=
  match l with
  | op :: arg :: l' =>
      match step cur op arg with
      | Ok v => v :: run_prog step v l'
      | Panic => [PANIC]
      end
  | _ => []
  end.

(* input guards: the harness builds its arguments with the checked constructors
   (VirtAddr::new, PhysAddr::new, Page::from_start_address(..).unwrap(),
   PageTableIndex::new(x as u16)); an invalid argument is a panic there too. *)
Definition gva (a : Z) (k : list Z) : list Z :=
  match va_new a with Ok _ => k | Panic => [PANIC] end.
Definition gpa (a : Z) (k : list Z) : list Z :=
  match pa_new a with Ok _ => k | Panic => [PANIC] end.
Definition gpg (sz p : Z) (k : list Z) : list Z :=
  match va_new p with
  | Ok _ => match page_from_start sz p with Ok (Some _) => k | _ => [PANIC] end
  | Panic => [PANIC] end.
Definition gfr (sz p : Z) (k : list Z) : list Z :=
  match pa_new p with
  | Ok _ => match frame_from_start sz p with Ok (Some _) => k | _ => [PANIC] end
  | Panic => [PANIC] end.
Definition gix (i : Z) (k : list Z) : list Z :=
  match pti_new (trunc16 i) with Ok _ => k | Panic => [PANIC] end.

Definition run_addr (oc : bool) (c : list Z) : list Z :=
  match c with
  | [1; a] => enc_res (va_new a)
  | [2; a] => enc_opt (va_try_new a)
  | [3; a] => [va_new_truncate a]
  | [4; a; al] => enc_res (align_down a al)
  | [5; a; al] => enc_res (align_up a al)
  | [6; a; al] => gva a (enc_res (va_align_up a al))
  | [7; a; al] => gva a (enc_res (va_align_down a al))
  | [8; a; al] => gva a (enc_rbool (va_is_aligned a al))
  | [9; a] => gva a [page_offset a; p1_index a; p2_index a; p3_index a; p4_index a;
               page_table_index a 1; page_table_index a 2; page_table_index a 3;
               page_table_index a 4]
  | [10; s; e] => gva s (gva e (enc_steps (va_steps_between s e)))
  | [11; s; n] => gva s (enc_res_opt (forward_checked_u64 s n))
  | [12; s; n] => gva s (enc_res_opt (backward_checked_u64 s n))
  | [13; a; b] => gva a (enc_res (va_add a b))
  | [14; a; b] => gva a (enc_res (va_sub a b))
  | [15; a; b] => gva a (gva b (enc_res (va_sub_va a b)))
  | [16; a] => enc_res (pa_new a)
  | [17; a] => enc_opt (pa_try_new a)
  | [18; a] => [pa_new_truncate a]
  | [19; a; al] => gpa a (enc_res (pa_align_up a al))
  | [20; a; al] => gpa a (enc_res (pa_align_down a al))
  | [21; a; al] => gpa a (enc_rbool (pa_is_aligned a al))
  | [22; a; b] => gpa a (enc_res (pa_add a b))
  | [23; a; b] => gpa a (enc_res (pa_sub a b))
  | [24; a; b] => gpa a (gpa b (enc_res (pa_sub_pa a b)))
  | [25; k; a] => gva a (enc_res (page_containing (sz_of k) a))
  | [26; k; a] => gva a (enc_res_opt (page_from_start (sz_of k) a))
  | [27; k; p; n] => gpg (sz_of k) p (enc_res (page_add (sz_of k) p n))
  | [28; k; p; n] => gpg (sz_of k) p (enc_res (page_sub (sz_of k) p n))
  | [29; k; p; q] => gpg (sz_of k) p (gpg (sz_of k) q (enc_res (page_sub_page (sz_of k) p q)))
  | [30; k; s; e] => gpg (sz_of k) s (gpg (sz_of k) e (enc_steps (page_steps_between (sz_of k) s e)))
  | [31; k; s; n] => gpg (sz_of k) s (enc_res_opt (page_forward_checked (sz_of k) s n))
  | [32; k; s; n] => gpg (sz_of k) s (enc_res_opt (page_backward_checked (sz_of k) s n))
  | [33; p4; p3] => gix p4 (gix p3 (enc_res (from_indices_1g (trunc16 p4) (trunc16 p3))))
  | [34; p4; p3; p2] => gix p4 (gix p3 (gix p2 (enc_res (from_indices_2m (trunc16 p4) (trunc16 p3) (trunc16 p2)))))
  | [35; p4; p3; p2; p1] => gix p4 (gix p3 (gix p2 (gix p1 (enc_res (from_indices_4k (trunc16 p4) (trunc16 p3) (trunc16 p2) (trunc16 p1))))))
  | [36; k; a] => gpa a (enc_res (frame_containing (sz_of k) a))
  | [37; k; a] => gpa a (enc_res_opt (frame_from_start (sz_of k) a))
  | [38; k; p; n] => gfr (sz_of k) p (enc_res (frame_add (sz_of k) p n))
  | [39; k; p; n] => gfr (sz_of k) p (enc_res (frame_sub (sz_of k) p n))
  | [40; k; p; q] => gfr (sz_of k) p (gfr (sz_of k) q (enc_res (frame_sub_frame (sz_of k) p q)))
  | [41; k; p] => gpg (sz_of k) p (
      [p4_index p; p3_index p] ++ (if k =? 2 then [] else [p2_index p])
      ++ (if k =? 0 then [p1_index p] else [])
      ++ [page_table_index p 1; page_table_index p 2; page_table_index p 3;
          page_table_index p 4])
  | [42; i] => enc_res (pti_new (trunc16 i))
  | [43; i] => [pti_new_truncate (trunc16 i)]
  | [44; i] => enc_res (po_new (trunc16 i))
  | [45; i] => [po_new_truncate (trunc16 i)]
  | [46; s; e] => gix s (gix e (enc_steps (pti_steps_between (trunc16 s) (trunc16 e))))
  | [47; s; n] => gix s (enc_res_opt (pti_forward_checked (trunc16 s) n))
  | [48; s; n] => gix s (enc_res_opt (pti_backward_checked (trunc16 s) n))
  | [49; l] => enc_opt (next_lower_level l) ++ enc_opt (next_higher_level l)
               ++ [table_alignment l; entry_alignment l]
  | [50; k; szk; s; e; n] =>
      if k <? 2 then gpg (sz_of szk) s (gpg (sz_of szk) e (run_range oc k szk s e n))
      else gfr (sz_of szk) s (gfr (sz_of szk) e (run_range oc k szk s e n))
  | [51; s; e] => gpg S2M s (gpg S2M e (
      match pr_as_4k (s, e) with
      | Ok r => [fst r; snd r] ++ enc_res (pr_len S4K r) ++ enc_res (pr_size oc S4K r)
                ++ enc_res (pr_len S2M (s, e)) ++ enc_res (pr_size oc S2M (s, e))
      | Panic => [PANIC]
      end))
  | 52 :: init :: l => gva init (run_prog va_prog_step init l)
  | 53 :: init :: l => gpa init (run_prog pa_prog_step init l)
  | [54; e] => enc_res (pte_addr e)
  | [55; lo; mid; hi] => [idt_handler_addr lo mid hi]
  | _ => [-99]
  end.
