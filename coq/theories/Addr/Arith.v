(* C07 (first half): address arithmetic is exact-or-panic. The model of these operators has
   no build-profile parameter at all: after the fix: commits every primitive + and * on the
   operator paths is a checked one, so debug and release behave identically. *)
From X86 Require Import Base.Word Base.Bits Addr.Model Addr.Canon Addr.Align.
Open Scope Z_scope.

Theorem va_add_spec a n : canonical a -> u64 n ->
  va_add a n = if canonicalb (a + n) then Ok (a + n) else Panic.
Proof.
  intros Hc Hn. unfold va_add, checked_add64.
  destruct (a + n <? W64) eqn:E; cbn [unwrap bind].
  - apply va_new_spec. pose proof (canonical_u64 a Hc). unfold u64 in *. ulia.
  - destruct (canonicalb (a + n)) eqn:E2; [|reflexivity].
    apply canonicalb_spec in E2. unfold canonical in E2. ulia.
Qed.

Theorem va_sub_spec a n : canonical a -> u64 n ->
  va_sub a n = if canonicalb (a - n) then Ok (a - n) else Panic.
Proof.
  intros Hc Hn. unfold va_sub, checked_sub64.
  destruct (n <=? a) eqn:E; cbn [unwrap bind].
  - apply va_new_spec. pose proof (canonical_u64 a Hc). unfold u64 in *. ulia.
  - destruct (canonicalb (a - n)) eqn:E2; [|reflexivity].
    apply canonicalb_spec in E2. unfold canonical, HI in E2. ulia.
Qed.

Theorem va_sub_va_spec a b : va_sub_va a b = if b <=? a then Ok (a - b) else Panic.
Proof. unfold va_sub_va, checked_sub64. destruct (b <=? a); reflexivity. Qed.

Theorem pa_add_spec a n : phys a -> u64 n ->
  pa_add a n = if physb (a + n) then Ok (a + n) else Panic.
Proof.
  intros Hc Hn. unfold pa_add, checked_add64.
  destruct (a + n <? W64) eqn:E; cbn [unwrap bind].
  - apply pa_new_spec. unfold phys, u64 in *. ulia.
  - destruct (physb (a + n)) eqn:E2; [|reflexivity].
    apply physb_spec in E2. unfold phys, P52, W64 in *. ulia.
Qed.

Theorem pa_sub_spec a n : phys a -> u64 n ->
  pa_sub a n = if physb (a - n) then Ok (a - n) else Panic.
Proof.
  intros Hc Hn. unfold pa_sub, checked_sub64.
  destruct (n <=? a) eqn:E; cbn [unwrap bind].
  - apply pa_new_spec. unfold phys, u64, P52, W64 in *. ulia.
  - destruct (physb (a - n)) eqn:E2; [|reflexivity].
    apply physb_spec in E2. unfold phys in E2. ulia.
Qed.

Theorem pa_sub_pa_spec a b : pa_sub_pa a b = if b <=? a then Ok (a - b) else Panic.
Proof. unfold pa_sub_pa, checked_sub64. destruct (b <=? a); reflexivity. Qed.

(* pages and frames: the offset counts whole pages *)
Definition is_page (sz p : Z) : Prop := canonical p /\ p mod sz = 0.
Definition is_frame (sz p : Z) : Prop := phys p /\ p mod sz = 0.

Lemma page_containing_aligned sz p : page_size sz -> is_page sz p -> page_containing sz p = Ok p.
Proof.
  intros Hs [Hc Ha]. destruct (page_size_pow2 sz Hs) as [k [Hk ->]].
  unfold page_containing. destruct (va_align_down_spec p k Hc) as [-> _]; [ulia|].
  unfold round_down. f_equal. ulia.
Qed.
Lemma frame_containing_aligned sz p : page_size sz -> is_frame sz p -> frame_containing sz p = Ok p.
Proof.
  intros Hs [Hc Ha]. destruct (page_size_pow2 sz Hs) as [k [Hk ->]].
  unfold frame_containing. destruct (pa_align_down_spec p k Hc) as [-> _]; [ulia|].
  unfold round_down. f_equal. ulia.
Qed.
Lemma sz_pos sz : page_size sz -> 4096 <= sz <= 1073741824.
Proof. intros [-> | [-> | ->]]; unfold S4K, S2M, S1G; ulia. Qed.

Theorem page_add_spec sz p n : page_size sz -> is_page sz p -> u64 n ->
  page_add sz p n = if canonicalb (p + n * sz) then Ok (p + n * sz) else Panic.
Proof.
  intros Hs Hp Hn. unfold page_add, checked_mul64. pose proof (sz_pos sz Hs).
  destruct Hp as [Hc Ha]. pose proof (canonical_u64 p Hc) as Hu.
  destruct (n * sz <? W64) eqn:E; cbn [unwrap bind].
  - rewrite va_add_spec by (auto; unfold u64 in *; unia).
    destruct (canonicalb (p + n * sz)) eqn:E2; [|reflexivity]. cbn [bind].
    apply page_containing_aligned; [assumption|]. split; [apply canonicalb_spec; assumption|].
    rewrite Z.mod_add by ulia. assumption.
  - destruct (canonicalb (p + n * sz)) eqn:E2; [|reflexivity].
    apply canonicalb_spec in E2. unfold canonical, u64 in *. ulia.
Qed.

Theorem page_sub_spec sz p n : page_size sz -> is_page sz p -> u64 n ->
  page_sub sz p n = if canonicalb (p - n * sz) then Ok (p - n * sz) else Panic.
Proof.
  intros Hs Hp Hn. unfold page_sub, checked_mul64. pose proof (sz_pos sz Hs).
  destruct Hp as [Hc Ha]. pose proof (canonical_u64 p Hc) as Hu.
  destruct (n * sz <? W64) eqn:E; cbn [unwrap bind].
  - rewrite va_sub_spec by (auto; unfold u64 in *; unia).
    destruct (canonicalb (p - n * sz)) eqn:E2; [|reflexivity]. cbn [bind].
    apply page_containing_aligned; [assumption|]. split; [apply canonicalb_spec; assumption|].
    replace (p - n * sz) with (p + (- n) * sz) by ulia. rewrite Z.mod_add by ulia. assumption.
  - destruct (canonicalb (p - n * sz)) eqn:E2; [|reflexivity].
    apply canonicalb_spec in E2. unfold canonical, u64, HI in *. ulia.
Qed.

Theorem page_sub_page_spec sz p q :
  page_sub_page sz p q = if q <=? p then Ok ((p - q) / sz) else Panic.
Proof. unfold page_sub_page. rewrite va_sub_va_spec. destruct (q <=? p); reflexivity. Qed.

Theorem frame_add_spec sz p n : page_size sz -> is_frame sz p -> u64 n ->
  frame_add sz p n = if physb (p + n * sz) then Ok (p + n * sz) else Panic.
Proof.
  intros Hs Hp Hn. unfold frame_add, checked_mul64. pose proof (sz_pos sz Hs).
  destruct Hp as [Hc Ha].
  destruct (n * sz <? W64) eqn:E; cbn [unwrap bind].
  - rewrite pa_add_spec by (auto; unfold u64 in *; unia).
    destruct (physb (p + n * sz)) eqn:E2; [|reflexivity]. cbn [bind].
    apply frame_containing_aligned; [assumption|]. split; [apply physb_spec; assumption|].
    rewrite Z.mod_add by ulia. assumption.
  - destruct (physb (p + n * sz)) eqn:E2; [|reflexivity].
    apply physb_spec in E2. unfold phys, u64, P52, W64 in *. ulia.
Qed.

Theorem frame_sub_spec sz p n : page_size sz -> is_frame sz p -> u64 n ->
  frame_sub sz p n = if physb (p - n * sz) then Ok (p - n * sz) else Panic.
Proof.
  intros Hs Hp Hn. unfold frame_sub, checked_mul64. pose proof (sz_pos sz Hs).
  destruct Hp as [Hc Ha].
  destruct (n * sz <? W64) eqn:E; cbn [unwrap bind].
  - rewrite pa_sub_spec by (auto; unfold u64 in *; unia).
    destruct (physb (p - n * sz)) eqn:E2; [|reflexivity]. cbn [bind].
    apply frame_containing_aligned; [assumption|]. split; [apply physb_spec; assumption|].
    replace (p - n * sz) with (p + (- n) * sz) by ulia. rewrite Z.mod_add by ulia. assumption.
  - destruct (physb (p - n * sz)) eqn:E2; [|reflexivity].
    apply physb_spec in E2. unfold phys, u64, P52, W64 in *. ulia.
Qed.

Theorem frame_sub_frame_spec sz p q :
  frame_sub_frame sz p q = if q <=? p then Ok ((p - q) / sz) else Panic.
Proof. unfold frame_sub_frame. rewrite pa_sub_pa_spec. destruct (q <=? p); reflexivity. Qed.

(* exact-or-panic, in one statement per operator family: a returned value is the exact
   mathematical result and is a valid address; never a wrapped or truncated one *)
Theorem va_ops_exact a n r : canonical a -> u64 n ->
  (va_add a n = Ok r -> r = a + n /\ canonical r) /\
  (va_sub a n = Ok r -> r = a - n /\ canonical r).
Proof.
  intros Hc Hn. rewrite va_add_spec, va_sub_spec by assumption. split.
  - destruct (canonicalb (a + n)) eqn:E; [|discriminate]. intros [= <-].
    split; [reflexivity|apply canonicalb_spec; assumption].
  - destruct (canonicalb (a - n)) eqn:E; [|discriminate]. intros [= <-].
    split; [reflexivity|apply canonicalb_spec; assumption].
Qed.
Theorem pa_ops_exact a n r : phys a -> u64 n ->
  (pa_add a n = Ok r -> r = a + n /\ phys r) /\
  (pa_sub a n = Ok r -> r = a - n /\ phys r).
Proof.
  intros Hc Hn. rewrite pa_add_spec, pa_sub_spec by assumption. split.
  - destruct (physb (a + n)) eqn:E; [|discriminate]. intros [= <-].
    split; [reflexivity|apply physb_spec; assumption].
  - destruct (physb (a - n)) eqn:E; [|discriminate]. intros [= <-].
    split; [reflexivity|apply physb_spec; assumption].
Qed.
Theorem page_ops_exact sz p n r : page_size sz -> is_page sz p -> u64 n ->
  (page_add sz p n = Ok r -> r = p + n * sz /\ is_page sz r) /\
  (page_sub sz p n = Ok r -> r = p - n * sz /\ is_page sz r).
Proof.
  intros Hs Hp Hn. rewrite page_add_spec, page_sub_spec by assumption.
  pose proof (sz_pos sz Hs). destruct Hp as [Hc Ha]. split.
  - destruct (canonicalb (p + n * sz)) eqn:E; [|discriminate]. intros [= <-].
    split; [reflexivity|]. split; [apply canonicalb_spec; assumption|].
    rewrite Z.mod_add by ulia. assumption.
  - destruct (canonicalb (p - n * sz)) eqn:E; [|discriminate]. intros [= <-].
    split; [reflexivity|]. split; [apply canonicalb_spec; assumption|].
    replace (p - n * sz) with (p + (- n) * sz) by ulia. rewrite Z.mod_add by ulia. assumption.
Qed.
Theorem frame_ops_exact sz p n r : page_size sz -> is_frame sz p -> u64 n ->
  (frame_add sz p n = Ok r -> r = p + n * sz /\ is_frame sz r) /\
  (frame_sub sz p n = Ok r -> r = p - n * sz /\ is_frame sz r).
Proof.
  intros Hs Hp Hn. rewrite frame_add_spec, frame_sub_spec by assumption.
  pose proof (sz_pos sz Hs). destruct Hp as [Hc Ha]. split.
  - destruct (physb (p + n * sz)) eqn:E; [|discriminate]. intros [= <-].
    split; [reflexivity|]. split; [apply physb_spec; assumption|].
    rewrite Z.mod_add by ulia. assumption.
  - destruct (physb (p - n * sz)) eqn:E; [|discriminate]. intros [= <-].
    split; [reflexivity|]. split; [apply physb_spec; assumption|].
    replace (p - n * sz) with (p + (- n) * sz) by ulia. rewrite Z.mod_add by ulia. assumption.
Qed.
Theorem differences_exact sz p q r : 
  (va_sub_va p q = Ok r -> r = p - q /\ q <= p) /\
  (pa_sub_pa p q = Ok r -> r = p - q /\ q <= p) /\
  (page_sub_page sz p q = Ok r -> r = (p - q) / sz /\ q <= p) /\
  (frame_sub_frame sz p q = Ok r -> r = (p - q) / sz /\ q <= p).
Proof.
  rewrite va_sub_va_spec, pa_sub_pa_spec, page_sub_page_spec, frame_sub_frame_spec.
  destruct (q <=? p) eqn:E; splits; intros [= <-]; split; try reflexivity; ulia.
Qed.

(* what the unfixed code did (release profile), kept as the witness of finding F1/F2:
   an unchecked primitive add wraps *)
Example add_wrap_refuted_witness :
  add64 false 18446744073709551615 2 = Ok 1 /\ mul64 false 4503599627370496 4096 = Ok 0.
Proof. vm_compute. split; reflexivity. Qed.
