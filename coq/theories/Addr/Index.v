(* C04: virtual address <-> page-table indices is an exact bijection. *)
From X86 Require Import Base.Word Base.Bits Addr.Model Addr.Canon Addr.Align.
Open Scope Z_scope.
Local Ltac Zify.zify_post_hook ::= Z.div_mod_to_equations.

Ltac shifts :=
  unfold shr64, shl64, wrap64, trunc16, pti_new_truncate, po_new_truncate, W16, W64 in *;
  rewrite ?Z.shiftr_div_pow2, ?Z.shiftl_mul_pow2 by lia;
  change (2 ^ 12) with 4096 in *; change (2 ^ 9) with 512 in *;
  change (2 ^ 39) with 549755813888 in *; change (2 ^ 30) with 1073741824 in *;
  change (2 ^ 21) with 2097152 in *; change (2 ^ 16) with 65536 in *.

Theorem page_offset_spec a : u64 a -> page_offset a = a mod 4096.
Proof. unfold page_offset, u64. intros. shifts. lia. Qed.
Theorem p1_index_spec a : u64 a -> p1_index a = (a / 4096) mod 512.
Proof. unfold p1_index, u64. intros. shifts. lia. Qed.
Theorem p2_index_spec a : u64 a -> p2_index a = (a / 2097152) mod 512.
Proof. unfold p2_index, u64. intros. shifts. lia. Qed.
Theorem p3_index_spec a : u64 a -> p3_index a = (a / 1073741824) mod 512.
Proof. unfold p3_index, u64. intros. shifts. lia. Qed.
Theorem p4_index_spec a : u64 a -> p4_index a = (a / 549755813888) mod 512.
Proof. unfold p4_index, u64. intros. shifts. lia. Qed.

(* the by-level accessor agrees with the by-name accessors on the four levels *)
Theorem page_table_index_spec a : u64 a ->
  page_table_index a 1 = p1_index a /\ page_table_index a 2 = p2_index a /\
  page_table_index a 3 = p3_index a /\ page_table_index a 4 = p4_index a.
Proof.
  intros Ha. rewrite p1_index_spec, p2_index_spec, p3_index_spec, p4_index_spec by assumption.
  unfold page_table_index, u64 in *. cbn [Z.sub Z.mul Z.add Z.opp Z.pos_sub Pos.pred_double Pos.mul Pos.add].
  splits; shifts.
  - change (2 ^ 0) with 1. lia.
  - lia.
  - change (2 ^ 18) with 262144. lia.
  - change (2 ^ 27) with 134217728. lia.
Qed.

(* the fields are the bit fields 0-11, 12-20, 21-29, 30-38, 39-47: the address is
   recomposed from them *)
Theorem indices_compose a : canonical a ->
  a mod P48 = p4_index a * 549755813888 + p3_index a * 1073741824 +
              p2_index a * 2097152 + p1_index a * 4096 + page_offset a.
Proof.
  intros Hc. pose proof (canonical_u64 a Hc) as Ha.
  rewrite p1_index_spec, p2_index_spec, p3_index_spec, p4_index_spec, page_offset_spec by assumption.
  unfold P48, u64, W64 in *. lia.
Qed.

Theorem index_ranges a :
  0 <= p1_index a < 512 /\ 0 <= p2_index a < 512 /\ 0 <= p3_index a < 512 /\
  0 <= p4_index a < 512 /\ 0 <= page_offset a < 4096 /\
  forall l, 0 <= page_table_index a l < 512.
Proof.
  unfold p1_index, p2_index, p3_index, p4_index, page_offset, page_table_index,
    pti_new_truncate, po_new_truncate. do 5 (split; [lia|]). intros l. lia.
Qed.

Lemma canonical_mod48_inj a b : canonical a -> canonical b -> a mod P48 = b mod P48 -> a = b.
Proof. unfold canonical, P47, P48, HI, W64. lia. Qed.

(* building a page from indices *)
Definition compose4 (p4 p3 p2 p1 : Z) : Z :=
  p4 * 549755813888 + p3 * 1073741824 + p2 * 2097152 + p1 * 4096.

Lemma lor_compose p4 p3 p2 p1 :
  0 <= p4 < 512 -> 0 <= p3 < 512 -> 0 <= p2 < 512 -> 0 <= p1 < 512 ->
  Z.lor (Z.lor (Z.lor (Z.lor 0 (shl64 p4 39)) (shl64 p3 30)) (shl64 p2 21)) (shl64 p1 12)
  = compose4 p4 p3 p2 p1.
Proof.
  intros H4 H3 H2 H1. unfold compose4. rewrite Z.lor_0_l.
  assert (E4 : shl64 p4 39 = p4 * 549755813888) by (shifts; lia).
  assert (E3 : shl64 p3 30 = p3 * 1073741824) by (shifts; lia).
  assert (E2 : shl64 p2 21 = p2 * 2097152) by (shifts; lia).
  assert (E1 : shl64 p1 12 = p1 * 4096) by (shifts; lia).
  rewrite E4, E3, E2, E1.
  rewrite (lor_disjoint_add (p4 * 549755813888) (p3 * 1073741824) 39)
    by (change (2 ^ 39) with 549755813888; lia).
  rewrite (lor_disjoint_add (p4 * 549755813888 + p3 * 1073741824) (p2 * 2097152) 30)
    by (change (2 ^ 30) with 1073741824; lia).
  rewrite (lor_disjoint_add _ (p1 * 4096) 21) by (change (2 ^ 21) with 2097152; lia).
  reflexivity.
Qed.

Lemma va_align_down_aligned a k : canonical a -> 0 <= k <= 47 -> a mod 2 ^ k = 0 ->
  va_align_down a (2 ^ k) = Ok a.
Proof.
  intros Hc Hk Hm. destruct (va_align_down_spec a k Hc Hk) as [-> _].
  unfold round_down. f_equal. lia.
Qed.

Theorem from_indices_4k_spec p4 p3 p2 p1 :
  0 <= p4 < 512 -> 0 <= p3 < 512 -> 0 <= p2 < 512 -> 0 <= p1 < 512 ->
  exists pg, from_indices_4k p4 p3 p2 p1 = Ok pg /\ canonical pg /\ pg mod S4K = 0 /\
    p4_index pg = p4 /\ p3_index pg = p3 /\ p2_index pg = p2 /\ p1_index pg = p1 /\
    pg mod P48 = compose4 p4 p3 p2 p1 /\
    (forall pg', canonical pg' -> pg' mod S4K = 0 ->
       p4_index pg' = p4 -> p3_index pg' = p3 -> p2_index pg' = p2 -> p1_index pg' = p1 ->
       pg' = pg).
Proof.
  intros H4 H3 H2 H1. unfold from_indices_4k. rewrite lor_compose by assumption.
  set (c := compose4 p4 p3 p2 p1).
  assert (Hc : 0 <= c < P48 /\ c mod 4096 = 0) by (unfold c, compose4, P48; lia).
  assert (Hu : u64 c) by (unfold u64, P48, W64 in *; lia).
  pose proof (va_new_truncate_canonical c Hu) as Hcan.
  destruct (va_new_truncate_low48 c Hu) as [_ Hlow].
  set (pg := va_new_truncate c) in *.
  assert (Hpg : pg mod P48 = c) by (rewrite Hlow; unfold P48 in *; lia).
  assert (Hal : pg mod 4096 = 0) by (unfold P48 in *; lia).
  exists pg. unfold page_containing. change S4K with (2 ^ 12).
  rewrite va_align_down_aligned by (auto; lia).
  pose proof (canonical_u64 pg Hcan) as Hupg.
  rewrite p1_index_spec, p2_index_spec, p3_index_spec, p4_index_spec by assumption.
  assert (Hidx : (pg / 549755813888) mod 512 = p4 /\ (pg / 1073741824) mod 512 = p3 /\
                 (pg / 2097152) mod 512 = p2 /\ (pg / 4096) mod 512 = p1).
  { unfold c, compose4, P48 in *. unfold u64, W64 in Hupg. lia. }
  destruct Hidx as (I4 & I3 & I2 & I1).
  splits; auto.
  intros pg' Hc' Hal' J4 J3 J2 J1.
  apply canonical_mod48_inj; auto.
  pose proof (indices_compose pg' Hc') as E. rewrite J4, J3, J2, J1 in E.
  rewrite page_offset_spec in E by (apply canonical_u64; assumption).
  rewrite E, Hpg. unfold c, compose4. change S4K with 4096 in Hal'. lia.
Qed.

Theorem from_indices_2m_spec p4 p3 p2 :
  0 <= p4 < 512 -> 0 <= p3 < 512 -> 0 <= p2 < 512 ->
  exists pg, from_indices_2m p4 p3 p2 = Ok pg /\ canonical pg /\ pg mod S2M = 0 /\
    p4_index pg = p4 /\ p3_index pg = p3 /\ p2_index pg = p2 /\
    (forall pg', canonical pg' -> pg' mod S2M = 0 ->
       p4_index pg' = p4 -> p3_index pg' = p3 -> p2_index pg' = p2 -> pg' = pg).
Proof.
  intros H4 H3 H2. unfold from_indices_2m.
  pose proof (lor_compose p4 p3 p2 0 H4 H3 H2 ltac:(lia)) as E.
  replace (shl64 0 12) with 0 in E by reflexivity. rewrite Z.lor_0_r in E. rewrite E.
  set (c := compose4 p4 p3 p2 0).
  assert (Hc : 0 <= c < P48 /\ c mod 2097152 = 0) by (unfold c, compose4, P48; lia).
  assert (Hu : u64 c) by (unfold u64, P48, W64 in *; lia).
  pose proof (va_new_truncate_canonical c Hu) as Hcan.
  destruct (va_new_truncate_low48 c Hu) as [_ Hlow].
  set (pg := va_new_truncate c) in *.
  assert (Hpg : pg mod P48 = c) by (rewrite Hlow; unfold P48 in *; lia).
  assert (Hal : pg mod 2097152 = 0) by (unfold P48 in *; lia).
  exists pg. unfold page_containing. change S2M with (2 ^ 21).
  rewrite va_align_down_aligned by (auto; lia).
  pose proof (canonical_u64 pg Hcan) as Hupg.
  rewrite p2_index_spec, p3_index_spec, p4_index_spec by assumption.
  assert (Hidx : (pg / 549755813888) mod 512 = p4 /\ (pg / 1073741824) mod 512 = p3 /\
                 (pg / 2097152) mod 512 = p2).
  { unfold c, compose4, P48 in *. unfold u64, W64 in Hupg. lia. }
  destruct Hidx as (I4 & I3 & I2).
  splits; auto.
  intros pg' Hc' Hal' J4 J3 J2.
  apply canonical_mod48_inj; auto.
  pose proof (indices_compose pg' Hc') as E'. rewrite J4, J3, J2 in E'.
  pose proof (canonical_u64 pg' Hc') as Hu'.
  rewrite page_offset_spec, p1_index_spec in E' by assumption.
  rewrite E', Hpg. unfold c, compose4. change (2 ^ 21) with 2097152 in Hal'. lia.
Qed.

Theorem from_indices_1g_spec p4 p3 :
  0 <= p4 < 512 -> 0 <= p3 < 512 ->
  exists pg, from_indices_1g p4 p3 = Ok pg /\ canonical pg /\ pg mod S1G = 0 /\
    p4_index pg = p4 /\ p3_index pg = p3 /\
    (forall pg', canonical pg' -> pg' mod S1G = 0 ->
       p4_index pg' = p4 -> p3_index pg' = p3 -> pg' = pg).
Proof.
  intros H4 H3. unfold from_indices_1g.
  pose proof (lor_compose p4 p3 0 0 H4 H3 ltac:(lia) ltac:(lia)) as E.
  replace (shl64 0 12) with 0 in E by reflexivity.
  replace (shl64 0 21) with 0 in E by reflexivity. rewrite !Z.lor_0_r in E. rewrite E.
  set (c := compose4 p4 p3 0 0).
  assert (Hc : 0 <= c < P48 /\ c mod 1073741824 = 0) by (unfold c, compose4, P48; lia).
  assert (Hu : u64 c) by (unfold u64, P48, W64 in *; lia).
  pose proof (va_new_truncate_canonical c Hu) as Hcan.
  destruct (va_new_truncate_low48 c Hu) as [_ Hlow].
  set (pg := va_new_truncate c) in *.
  assert (Hpg : pg mod P48 = c) by (rewrite Hlow; unfold P48 in *; lia).
  assert (Hal : pg mod 1073741824 = 0) by (unfold P48 in *; lia).
  exists pg. unfold page_containing. change S1G with (2 ^ 30).
  rewrite va_align_down_aligned by (auto; lia).
  pose proof (canonical_u64 pg Hcan) as Hupg.
  rewrite p3_index_spec, p4_index_spec by assumption.
  assert (Hidx : (pg / 549755813888) mod 512 = p4 /\ (pg / 1073741824) mod 512 = p3).
  { unfold c, compose4, P48 in *. unfold u64, W64 in Hupg. lia. }
  destruct Hidx as (I4 & I3).
  splits; auto.
  intros pg' Hc' Hal' J4 J3.
  apply canonical_mod48_inj; auto.
  pose proof (indices_compose pg' Hc') as E'. rewrite J4, J3 in E'.
  pose proof (canonical_u64 pg' Hc') as Hu'.
  rewrite page_offset_spec, p1_index_spec, p2_index_spec in E' by assumption.
  rewrite E', Hpg. unfold c, compose4. change (2 ^ 30) with 1073741824 in Hal'. lia.
Qed.

(* index / offset constructors over all u16 *)
Theorem pti_new_spec i : u16 i -> pti_new i = if i <? 512 then Ok i else Panic.
Proof. reflexivity. Qed.
Theorem pti_new_truncate_spec i : u16 i ->
  pti_new_truncate i = i mod 512 /\ 0 <= pti_new_truncate i < 512.
Proof. unfold pti_new_truncate. lia. Qed.
Theorem po_new_spec i : u16 i -> po_new i = if i <? 4096 then Ok i else Panic.
Proof. reflexivity. Qed.
Theorem po_new_truncate_spec i : u16 i ->
  po_new_truncate i = i mod 4096 /\ 0 <= po_new_truncate i < 4096.
Proof. unfold po_new_truncate. lia. Qed.

(* level helpers: partial successor/predecessor on 1..4 and the 9-9-9-9-12 layout *)
Theorem level_helpers l : 1 <= l <= 4 ->
  next_lower_level l = (if l =? 1 then None else Some (l - 1)) /\
  next_higher_level l = (if l =? 4 then None else Some (l + 1)) /\
  table_alignment l = 2 ^ (9 * l + 12) /\ entry_alignment l = 2 ^ (9 * (l - 1) + 12).
Proof.
  intros Hl. assert (l = 1 \/ l = 2 \/ l = 3 \/ l = 4) as [-> | [-> | [-> | ->]]] by lia;
  vm_compute; repeat split.
Qed.
Theorem level_inverse l l' : 1 <= l <= 4 -> 1 <= l' <= 4 ->
  (next_lower_level l = Some l' <-> next_higher_level l' = Some l).
Proof.
  intros Hl Hl'.
  assert (l = 1 \/ l = 2 \/ l = 3 \/ l = 4) as [-> | [-> | [-> | ->]]] by lia;
  assert (l' = 1 \/ l' = 2 \/ l' = 3 \/ l' = 4) as [-> | [-> | [-> | ->]]] by lia;
  vm_compute; split; congruence.
Qed.
