(* C06: alignment and containment are exact. *)
From X86 Require Import Base.Word Base.Bits Addr.Model Addr.Canon.
Open Scope Z_scope.


(* generic facts about multiples *)
Definition round_down (a al : Z) : Z := a - a mod al.
Definition round_up (a al : Z) : Z := if a mod al =? 0 then a else a - a mod al + al.

Lemma round_down_multiple a al : 0 < al -> (round_down a al) mod al = 0.
Proof.
  intros. unfold round_down. pose proof (Z.div_mod a al).
  replace (a - a mod al) with ((a / al) * al) by lia. apply Z.mod_mul. lia.
Qed.
Lemma round_down_le a al : 0 < al -> round_down a al <= a < round_down a al + al.
Proof. intros. unfold round_down. pose proof (Z.mod_pos_bound a al). lia. Qed.
Lemma round_down_nonneg a al : 0 <= a -> 0 < al -> 0 <= round_down a al.
Proof. intros. unfold round_down. pose proof (Z.mod_le a al). lia. Qed.
Lemma round_down_greatest a al m : 0 < al -> m mod al = 0 -> m <= a -> m <= round_down a al.
Proof.
  intros Hal Hm Hle. unfold round_down.
  pose proof (Z.div_mod a al). pose proof (Z.div_mod m al). pose proof (Z.mod_pos_bound a al).
  assert (m / al <= a / al) by (apply Z.div_le_mono; lia).
  assert (al * (m / al) <= al * (a / al)) by (apply Z.mul_le_mono_nonneg_l; lia).
  lia.
Qed.
Lemma round_up_multiple a al : 0 < al -> (round_up a al) mod al = 0.
Proof.
  intros. unfold round_up. destruct (a mod al =? 0) eqn:E; [lia|].
  pose proof (Z.div_mod a al).
  replace (a - a mod al + al) with ((a / al + 1) * al) by lia. apply Z.mod_mul. lia.
Qed.
Lemma round_up_ge a al : 0 < al -> a <= round_up a al < a + al.
Proof.
  intros. unfold round_up. pose proof (Z.mod_pos_bound a al).
  destruct (a mod al =? 0) eqn:E; lia.
Qed.
Lemma round_up_least a al m : 0 < al -> m mod al = 0 -> a <= m -> round_up a al <= m.
Proof.
  intros Hal Hm Hle. unfold round_up.
  pose proof (Z.div_mod a al). pose proof (Z.div_mod m al). pose proof (Z.mod_pos_bound a al).
  destruct (a mod al =? 0) eqn:E; [lia|].
  assert (Hne : a <> m) by (intro; subst; lia).
  assert (Hq : a / al < m / al) by (apply Z.div_lt_upper_bound; lia).
  assert (al * (a / al + 1) <= al * (m / al)) by (apply Z.mul_le_mono_nonneg_l; lia).
  lia.
Qed.
Lemma multiple_pow2 c n k : 0 <= k <= n -> (c * 2 ^ n) mod 2 ^ k = 0.
Proof.
  intros. rewrite (pow2_split n k) by lia.
  replace (c * (2 ^ k * 2 ^ (n - k))) with (c * 2 ^ (n - k) * 2 ^ k) by lia.
  apply Z.mod_mul. pose proof (pow2_pos k). lia.
Qed.

(* ---------- the free functions ---------- *)
Theorem align_down_panic_iff a al : align_down a al = Panic <-> is_pow2 al = false.
Proof. unfold align_down. destruct (is_pow2 al); split; congruence. Qed.
Theorem align_up_not_pow2 a al : is_pow2 al = false -> align_up a al = Panic.
Proof. unfold align_up. intros ->. reflexivity. Qed.

Theorem align_down_spec a k : u64 a -> 0 <= k < 64 ->
  align_down a (2 ^ k) = Ok (round_down a (2 ^ k)).
Proof.
  intros Ha Hk. unfold align_down.
  assert (E : is_pow2 (2 ^ k) = true) by (apply is_pow2_spec; eauto).
  rewrite E, land_not64 by (auto; lia). reflexivity.
Qed.

Theorem align_up_spec a k : u64 a -> 0 <= k < 64 ->
  align_up a (2 ^ k) =
  if round_up a (2 ^ k) <? W64 then Ok (round_up a (2 ^ k)) else Panic.
Proof.
  intros Ha Hk. unfold align_up.
  assert (E : is_pow2 (2 ^ k) = true) by (apply is_pow2_spec; eauto).
  rewrite E, land_ones_mod by lia. unfold round_up.
  pose proof (pow2_pos k). pose proof (Z.mod_pos_bound a (2 ^ k)).
  destruct (a mod 2 ^ k =? 0) eqn:E0.
  - unfold u64 in Ha. destruct (a <? W64) eqn:E1; [reflexivity|lia].
  - rewrite lor_ones by (unfold u64 in *; lia). unfold checked_add64, unwrap.
    replace (a - a mod 2 ^ k + (2 ^ k - 1) + 1) with (a - a mod 2 ^ k + 2 ^ k) by lia.
    destruct (a - a mod 2 ^ k + 2 ^ k <? W64); reflexivity.
Qed.

(* ---------- VirtAddr ---------- *)
Lemma HI_multiple k : 0 <= k <= 47 -> HI mod 2 ^ k = 0.
Proof. intros. change HI with (131071 * 2 ^ 47). apply multiple_pow2. lia. Qed.
Lemma P47_multiple k : 0 <= k <= 47 -> P47 mod 2 ^ k = 0.
Proof. intros. change P47 with (1 * 2 ^ 47). apply multiple_pow2. lia. Qed.
Lemma W64_multiple k : 0 <= k <= 64 -> W64 mod 2 ^ k = 0.
Proof. intros. change W64 with (1 * 2 ^ 64). apply multiple_pow2. lia. Qed.
Lemma P52_multiple k : 0 <= k <= 52 -> P52 mod 2 ^ k = 0.
Proof. intros. change P52 with (1 * 2 ^ 52). apply multiple_pow2. lia. Qed.

Lemma round_down_canonical a k : canonical a -> 0 <= k <= 47 ->
  canonical (round_down a (2 ^ k)).
Proof.
  intros Hc Hk. pose proof (pow2_pos k).
  pose proof (round_down_le a (2 ^ k)). pose proof (Z.mod_pos_bound a (2 ^ k)).
  destruct Hc as [Hc|Hc]; [left|right].
  - pose proof (round_down_nonneg a (2 ^ k)). lia.
  - pose proof (round_down_greatest a (2 ^ k) HI). pose proof (HI_multiple k). lia.
Qed.

Theorem va_align_down_spec a k : canonical a -> 0 <= k <= 47 ->
  va_align_down a (2 ^ k) = Ok (round_down a (2 ^ k)) /\ canonical (round_down a (2 ^ k)).
Proof.
  intros Hc Hk. unfold va_align_down.
  rewrite align_down_spec by (try apply canonical_u64; auto; lia). cbn [rmap].
  pose proof (round_down_canonical a k Hc Hk) as Hr.
  rewrite va_new_truncate_id by assumption. auto.
Qed.

(* the least canonical multiple not below a: the raw round-up, or the start of the upper
   half when the raw round-up lands on 2^47 *)
Definition va_round_up (a al : Z) : Z :=
  if round_up a al =? P47 then HI else round_up a al.

Lemma round_up_canonical_or_gap a k : canonical a -> 0 <= k <= 47 ->
  round_up a (2 ^ k) < W64 ->
  canonical (round_up a (2 ^ k)) \/ round_up a (2 ^ k) = P47.
Proof.
  intros Hc Hk Hlt. pose proof (pow2_pos k).
  pose proof (round_up_ge a (2 ^ k)).
  destruct Hc as [Hc|Hc].
  - pose proof (round_up_least a (2 ^ k) P47). pose proof (P47_multiple k).
    unfold canonical. lia.
  - left. right. lia.
Qed.

Theorem va_align_up_spec a k : canonical a -> 0 <= k <= 47 ->
  va_align_up a (2 ^ k) =
  if round_up a (2 ^ k) <? W64 then Ok (va_round_up a (2 ^ k)) else Panic.
Proof.
  intros Hc Hk. unfold va_align_up.
  rewrite align_up_spec by (try apply canonical_u64; auto; lia).
  destruct (round_up a (2 ^ k) <? W64) eqn:E; [|reflexivity]. cbn [rmap]. f_equal.
  unfold va_round_up.
  destruct (round_up_canonical_or_gap a k Hc Hk) as [Hr|Hr]; [lia| |].
  - rewrite va_new_truncate_id by assumption.
    destruct (round_up a (2 ^ k) =? P47) eqn:E2; [|reflexivity].
    unfold canonical, P47, HI, W64 in *. lia.
  - rewrite Hr. reflexivity.
Qed.

Theorem va_round_up_least_canonical a k m : canonical a -> 0 <= k <= 47 ->
  round_up a (2 ^ k) < W64 ->
  canonical (va_round_up a (2 ^ k)) /\ (va_round_up a (2 ^ k)) mod 2 ^ k = 0 /\
  a <= va_round_up a (2 ^ k) /\
  (canonical m -> m mod 2 ^ k = 0 -> a <= m -> va_round_up a (2 ^ k) <= m).
Proof.
  intros Hc Hk Hlt. pose proof (pow2_pos k).
  pose proof (round_up_ge a (2 ^ k)). pose proof (round_up_multiple a (2 ^ k)).
  pose proof (round_up_least a (2 ^ k) m).
  unfold va_round_up.
  destruct (round_up_canonical_or_gap a k Hc Hk Hlt) as [Hr|Hr];
  destruct (round_up a (2 ^ k) =? P47) eqn:E.
  - unfold canonical, P47, HI, W64 in *. lia.
  - repeat split; try lia; auto.
  - repeat split.
    + unfold canonical, HI, W64. lia.
    + apply HI_multiple; lia.
    + unfold canonical, P47, HI in *. lia.
    + intros Hm Hmm Hle. unfold canonical, P47, HI in *. lia.
  - lia.
Qed.

Theorem va_align_out_of_range_example :
  va_align_up 1 (2 ^ 48) = Ok 0.   (* alignments above 2^47 are outside the property *)
Proof. vm_compute. reflexivity. Qed.

Theorem va_is_aligned_spec a k : canonical a -> 0 <= k <= 47 ->
  va_is_aligned a (2 ^ k) = Ok (a mod 2 ^ k =? 0).
Proof.
  intros Hc Hk. unfold va_is_aligned.
  destruct (va_align_down_spec a k Hc Hk) as [-> _]. cbn [rmap]. f_equal.
  unfold round_down. destruct (a mod 2 ^ k =? 0) eqn:E; lia.
Qed.

(* ---------- PhysAddr ---------- *)
Theorem pa_align_down_spec a k : phys a -> 0 <= k < 64 ->
  pa_align_down a (2 ^ k) = Ok (round_down a (2 ^ k)) /\ phys (round_down a (2 ^ k)).
Proof.
  intros Hp Hk. unfold pa_align_down. rewrite align_down_spec by (try apply phys_u64; auto).
  split; [reflexivity|]. pose proof (pow2_pos k). pose proof (Z.mod_pos_bound a (2 ^ k)).
  pose proof (round_down_multiple a (2^k)). pose proof (round_down_le a (2^k)).
  pose proof (round_down_nonneg a (2 ^ k)). unfold phys in *. lia.
Qed.

Theorem pa_align_up_spec a k : phys a -> 0 <= k < 64 ->
  pa_align_up a (2 ^ k) =
  if round_up a (2 ^ k) <? P52 then Ok (round_up a (2 ^ k)) else Panic.
Proof.
  intros Hp Hk. unfold pa_align_up. rewrite align_up_spec by (try apply phys_u64; auto).
  pose proof (pow2_pos k). pose proof (round_up_ge a (2 ^ k)).
  destruct (round_up a (2 ^ k) <? W64) eqn:E; cbn [bind].
  - rewrite pa_new_spec by (unfold u64, phys in *; lia). unfold physb.
    destruct (round_up a (2 ^ k) <? P52) eqn:E2;
      destruct (0 <=? round_up a (2 ^ k)) eqn:E3; try reflexivity.
    unfold phys in *. lia.
  - destruct (round_up a (2 ^ k) <? P52) eqn:E2; [|reflexivity]. unfold P52, W64 in *. lia.
Qed.

Theorem pa_is_aligned_spec a k : phys a -> 0 <= k < 64 ->
  pa_is_aligned a (2 ^ k) = Ok (a mod 2 ^ k =? 0).
Proof.
  intros Hp Hk. unfold pa_is_aligned.
  destruct (pa_align_down_spec a k Hp Hk) as [-> _]. cbn [rmap]. f_equal.
  unfold round_down. destruct (a mod 2 ^ k =? 0) eqn:E; lia.
Qed.

(* ---------- pages and frames ---------- *)
Definition page_size (sz : Z) : Prop := sz = S4K \/ sz = S2M \/ sz = S1G.
Lemma page_size_pow2 sz : page_size sz -> exists k, 12 <= k <= 30 /\ sz = 2 ^ k.
Proof. intros [H|[H|H]]; subst sz; [exists 12|exists 21|exists 30]; split; try lia; reflexivity. Qed.

Theorem page_containing_spec sz a : page_size sz -> canonical a ->
  exists p, page_containing sz a = Ok p /\ canonical p /\ p mod sz = 0 /\ p <= a < p + sz.
Proof.
  intros Hs Hc. destruct (page_size_pow2 sz Hs) as [k [Hk ->]].
  exists (round_down a (2 ^ k)). unfold page_containing.
  destruct (va_align_down_spec a k Hc) as [E Hcan]; [lia|].
  pose proof (pow2_pos k).
  split; [exact E|]. split; [exact Hcan|]. split; [apply round_down_multiple; lia|].
  apply round_down_le. lia.
Qed.

Theorem page_from_start_spec sz a : page_size sz -> canonical a ->
  page_from_start sz a = Ok (if a mod sz =? 0 then Some a else None).
Proof.
  intros Hs Hc. destruct (page_size_pow2 sz Hs) as [k [Hk ->]].
  unfold page_from_start. rewrite va_is_aligned_spec by (auto; lia). cbn [bind].
  destruct (a mod 2 ^ k =? 0) eqn:E; [|reflexivity].
  unfold page_containing. destruct (va_align_down_spec a k Hc) as [-> _]; [lia|].
  cbn [rmap]. unfold round_down. do 2 f_equal. lia.
Qed.

Theorem frame_containing_spec sz a : page_size sz -> phys a ->
  exists p, frame_containing sz a = Ok p /\ phys p /\ p mod sz = 0 /\ p <= a < p + sz.
Proof.
  intros Hs Hp. destruct (page_size_pow2 sz Hs) as [k [Hk ->]].
  exists (round_down a (2 ^ k)). unfold frame_containing.
  destruct (pa_align_down_spec a k Hp) as [E Hph]; [lia|]. pose proof (pow2_pos k).
  split; [exact E|]. split; [exact Hph|]. split; [apply round_down_multiple; lia|].
  apply round_down_le. lia.
Qed.

Theorem frame_from_start_spec sz a : page_size sz -> phys a ->
  frame_from_start sz a = Ok (if a mod sz =? 0 then Some a else None).
Proof.
  intros Hs Hp. destruct (page_size_pow2 sz Hs) as [k [Hk ->]].
  unfold frame_from_start. rewrite pa_is_aligned_spec by (auto; lia). cbn [bind].
  destruct (a mod 2 ^ k =? 0); reflexivity.
Qed.

(* the gap example of the design: rounding 0x7fff_ffff_ffff up to 2 jumps the gap *)
Example va_align_up_gap : va_align_up 140737488355327 2 = Ok HI.
Proof. vm_compute. reflexivity. Qed.
