(* C05: stepping treats the canonical address space as one contiguous sequence. *)
From X86 Require Import Base.Word Base.Bits Addr.Model Addr.Canon Addr.Align.
Open Scope Z_scope.
Local Ltac Zify.zify_post_hook ::= Z.div_mod_to_equations.

Ltac red_eqb :=
  repeat match goal with
  | |- context [Z.eqb (Zpos ?x) (Zpos ?y)] =>
      let v := eval vm_compute in (Z.eqb (Zpos x) (Zpos y)) in
      change (Z.eqb (Zpos x) (Zpos y)) with v
  | |- context [Z.eqb Z0 (Zpos ?y)] => change (Z.eqb Z0 (Zpos y)) with false
  end; cbv iota.

Definition GAP : Z := 18446462598732840960.    (* W64 - P48: what the gap jump adds *)
(* position of a canonical address in the contiguous sequence 0 .. 2^48-1, and back *)
Definition pos (a : Z) : Z := if a <? P47 then a else a - GAP.
Definition unpos (p : Z) : Z := if p <? P47 then p else p + GAP.

Lemma pos_range a : canonical a -> 0 <= pos a < P48.
Proof. unfold canonical, pos, P47, P48, HI, W64, GAP. destruct (a <? 140737488355328) eqn:E; lia. Qed.
Lemma unpos_pos a : canonical a -> unpos (pos a) = a.
Proof.
  unfold canonical, pos, unpos, P47, P48, HI, W64, GAP. intros.
  destruct (a <? 140737488355328) eqn:E.
  - rewrite E. reflexivity.
  - destruct (a - 18446462598732840960 <? 140737488355328) eqn:E2; lia.
Qed.
Lemma unpos_canonical p : 0 <= p < P48 -> canonical (unpos p).
Proof. unfold canonical, unpos, P47, P48, HI, W64, GAP. destruct (p <? 140737488355328) eqn:E; lia. Qed.
Lemma pos_unpos p : 0 <= p < P48 -> pos (unpos p) = p.
Proof.
  unfold pos, unpos, P47, P48, GAP. intros.
  destruct (p <? 140737488355328) eqn:E.
  - rewrite E. reflexivity.
  - destruct (p + 18446462598732840960 <? 140737488355328) eqn:E2; lia.
Qed.
Lemma pos_mono a b : canonical a -> canonical b -> (a <= b <-> pos a <= pos b).
Proof.
  unfold canonical, pos, P47, HI, W64, GAP.
  destruct (a <? 140737488355328) eqn:E; destruct (b <? 140737488355328) eqn:E2; lia.
Qed.
Lemma pos_inj a b : canonical a -> canonical b -> pos a = pos b -> a = b.
Proof. intros Ha Hb E. rewrite <- (unpos_pos a), <- (unpos_pos b), E by assumption. reflexivity. Qed.

Lemma get_bits_47 x : get_bits x 47 64 = (x / P47) mod 131072.
Proof. unfold get_bits. rewrite Z.shiftr_div_pow2 by lia. reflexivity. Qed.
Lemma set_bits_47 x v : 0 <= v < 131072 ->
  set_bits x 47 64 v = Ok (x - ((x / P47) mod 131072) * P47 + v * P47).
Proof.
  intros Hv. unfold set_bits. rewrite get_bits_47.
  change (2 ^ (64 - 47)) with 131072. change (2 ^ 47) with P47.
  destruct (v <? 131072) eqn:E; [reflexivity|lia].
Qed.

Theorem forward_spec a n : canonical a -> u64 n ->
  forward_checked_u64 a n =
  Ok (if pos a + n <? P48 then Some (unpos (pos a + n)) else None).
Proof.
  intros Hc Hn. unfold forward_checked_u64, ADDRESS_SPACE_SIZE, checked_add64.
  destruct (n >? 281474976710656) eqn:En.
  { pose proof (pos_range a Hc). unfold P48 in *. destruct (pos a + n <? 281474976710656) eqn:E; [lia|reflexivity]. }
  destruct (a + n <? W64) eqn:Eo.
  2:{ unfold canonical, pos, P47, P48, HI, W64, GAP, u64 in *.
      destruct (a <? 140737488355328) eqn:E1;
      destruct (_ + n <? 281474976710656) eqn:E2; try reflexivity; lia. }
  cbv beta iota zeta. rewrite get_bits_47, set_bits_47 by lia. cbn [rmap].
  unfold canonical, pos, unpos, P47, P48, HI, W64, GAP, u64 in *.
  destruct (a <? 140737488355328) eqn:E1.
  - destruct (a + n <? 281474976710656) eqn:E2.
    + destruct (a + n <? 140737488355328) eqn:E3.
      * assert ((a + n) / 140737488355328 mod 131072 = 0) as -> by lia. red_eqb. reflexivity.
      * assert ((a + n) / 140737488355328 mod 131072 = 1) as Eb by lia. rewrite Eb.
        red_eqb. do 2 f_equal. lia.
    + assert ((a + n) / 140737488355328 mod 131072 = 2) as -> by lia. red_eqb. reflexivity.
  - destruct (a - 18446462598732840960 + n <? 281474976710656) eqn:E2; [|lia].
    destruct (a - 18446462598732840960 + n <? 140737488355328) eqn:E3; [lia|].
    assert ((a + n) / 140737488355328 mod 131072 = 131071) as -> by lia.
    red_eqb. do 2 f_equal. lia.
Qed.

Theorem backward_spec a n : canonical a -> u64 n ->
  backward_checked_u64 a n =
  Ok (if n <=? pos a then Some (unpos (pos a - n)) else None).
Proof.
  intros Hc Hn. unfold backward_checked_u64, ADDRESS_SPACE_SIZE, checked_sub64.
  destruct (n >? 281474976710656) eqn:En.
  { pose proof (pos_range a Hc). unfold P48 in *. destruct (n <=? pos a) eqn:E; [lia|reflexivity]. }
  destruct (n <=? a) eqn:Eo.
  2:{ unfold canonical, pos, P47, P48, HI, W64, GAP, u64 in *.
      destruct (a <? 140737488355328) eqn:E1;
      destruct (n <=? _) eqn:E2; try reflexivity; lia. }
  cbv beta iota zeta. rewrite get_bits_47, set_bits_47 by lia. cbn [rmap].
  unfold canonical, pos, unpos, P47, P48, HI, W64, GAP, u64 in *.
  destruct (a <? 140737488355328) eqn:E1.
  - destruct (n <=? a) eqn:E2; [|lia].
    destruct (a - n <? 140737488355328) eqn:E3; [|lia].
    assert ((a - n) / 140737488355328 mod 131072 = 0) as -> by lia. red_eqb. reflexivity.
  - destruct (n <=? a - 18446462598732840960) eqn:E2.
    + destruct (a - 18446462598732840960 - n <? 140737488355328) eqn:E3.
      * assert ((a - n) / 140737488355328 mod 131072 = 131070) as Eb by lia. rewrite Eb.
        red_eqb. do 2 f_equal. lia.
      * assert ((a - n) / 140737488355328 mod 131072 = 131071) as -> by lia.
        red_eqb. do 2 f_equal. lia.
    + assert ((a - n) / 140737488355328 mod 131072 = 131069) as -> by lia. red_eqb. reflexivity.
Qed.

Theorem steps_between_spec a b : canonical a -> canonical b ->
  va_steps_between a b =
  if a <=? b then (pos b - pos a, Some (pos b - pos a)) else (0, None).
Proof.
  intros Ha Hb. unfold va_steps_between, steps_between_u64, checked_sub64.
  destruct (a <=? b) eqn:E; [|reflexivity].
  change 281474976710655 with (2 ^ 48 - 1). rewrite land_ones_mod by lia.
  change (2 ^ 48) with 281474976710656.
  assert ((b - a) mod 281474976710656 = pos b - pos a) as ->; [|reflexivity].
  unfold canonical, pos, P47, P48, HI, W64, GAP in *.
  destruct (a <? 140737488355328) eqn:E1; destruct (b <? 140737488355328) eqn:E2; lia.
Qed.

(* forward, backward and steps_between are mutually inverse *)
Corollary forward_backward a n r : canonical a -> u64 n ->
  forward_checked_u64 a n = Ok (Some r) ->
  canonical r /\ backward_checked_u64 r n = Ok (Some a) /\ va_steps_between a r = (n, Some n).
Proof.
  intros Ha Hn. rewrite forward_spec by assumption.
  pose proof (pos_range a Ha) as Hp.
  destruct (pos a + n <? P48) eqn:E; [|discriminate]. intros [= <-].
  assert (Hr : 0 <= pos a + n < P48) by (unfold u64 in *; lia).
  pose proof (unpos_canonical _ Hr) as Hcr. split; [exact Hcr|]. split.
  - rewrite backward_spec, pos_unpos by assumption.
    destruct (n <=? pos a + n) eqn:E2; [|unfold u64 in *; lia].
    replace (pos a + n - n) with (pos a) by lia. rewrite unpos_pos by assumption. reflexivity.
  - rewrite steps_between_spec, pos_unpos by assumption.
    destruct (a <=? unpos (pos a + n)) eqn:E2.
    + replace (pos a + n - pos a) with n by lia. reflexivity.
    + apply Z.leb_gt in E2. pose proof (proj2 (pos_mono a _ Ha Hcr)) as M.
      rewrite pos_unpos in M by assumption. unfold u64 in *. lia.
Qed.

Corollary backward_forward a n r : canonical a -> u64 n ->
  backward_checked_u64 a n = Ok (Some r) ->
  canonical r /\ forward_checked_u64 r n = Ok (Some a) /\ va_steps_between r a = (n, Some n).
Proof.
  intros Ha Hn. rewrite backward_spec by assumption.
  pose proof (pos_range a Ha) as Hp.
  destruct (n <=? pos a) eqn:E; [|discriminate]. intros [= <-].
  assert (Hr : 0 <= pos a - n < P48) by (unfold u64 in *; lia).
  pose proof (unpos_canonical _ Hr) as Hcr. split; [exact Hcr|]. split.
  - rewrite forward_spec, pos_unpos by assumption.
    replace (pos a - n + n) with (pos a) by lia.
    destruct (pos a <? P48) eqn:E2; [|lia]. rewrite unpos_pos by assumption. reflexivity.
  - rewrite steps_between_spec, pos_unpos by assumption.
    destruct (unpos (pos a - n) <=? a) eqn:E2.
    + replace (pos a - (pos a - n)) with n by lia. reflexivity.
    + apply Z.leb_gt in E2. pose proof (proj2 (pos_mono _ a Hcr Ha)) as M.
      rewrite pos_unpos in M by assumption. unfold u64 in *. lia.
Qed.

Corollary steps_then_forward a b n : canonical a -> canonical b ->
  va_steps_between a b = (n, Some n) ->
  forward_checked_u64 a n = Ok (Some b) /\ backward_checked_u64 b n = Ok (Some a).
Proof.
  intros Ha Hb. rewrite steps_between_spec by assumption.
  pose proof (pos_range a Ha). pose proof (pos_range b Hb).
  destruct (a <=? b) eqn:E; [|discriminate]. intros [= <-].
  apply Z.leb_le in E. apply (pos_mono a b Ha Hb) in E.
  assert (Hn : u64 (pos b - pos a)) by (unfold u64, P48, W64 in *; lia).
  split.
  - rewrite forward_spec by assumption.
    replace (pos a + (pos b - pos a)) with (pos b) by lia.
    destruct (pos b <? P48) eqn:E2; [|lia]. rewrite unpos_pos by assumption. reflexivity.
  - rewrite backward_spec by assumption.
    destruct (pos b - pos a <=? pos b) eqn:E2; [|lia].
    replace (pos b - (pos b - pos a)) with (pos a) by lia.
    rewrite unpos_pos by assumption. reflexivity.
Qed.

(* ---------- pages step in whole pages ---------- *)
Lemma GAP_multiple sz : page_size sz -> GAP mod sz = 0.
Proof. intros [-> | [-> | ->]]; reflexivity. Qed.
Lemma P47_multiple_sz sz : page_size sz -> P47 mod sz = 0.
Proof. intros [-> | [-> | ->]]; reflexivity. Qed.

Lemma pos_aligned sz a : page_size sz -> a mod sz = 0 -> (pos a) mod sz = 0.
Proof.
  intros Hs Ha. unfold pos. destruct (a <? P47); [assumption|].
  pose proof (GAP_multiple sz Hs). destruct Hs as [-> | [-> | ->]]; unfold S4K, S2M, S1G in *; lia.
Qed.
Lemma unpos_aligned sz p : page_size sz -> p mod sz = 0 -> (unpos p) mod sz = 0.
Proof.
  intros Hs Hp. unfold unpos. destruct (p <? P47); [assumption|].
  pose proof (GAP_multiple sz Hs). destruct Hs as [-> | [-> | ->]]; unfold S4K, S2M, S1G in *; lia.
Qed.

Theorem page_forward_spec sz p n : page_size sz -> canonical p -> u64 n ->
  page_forward_checked sz p n =
  Ok (if pos p + n * sz <? P48 then Some (unpos (pos p + n * sz)) else None).
Proof.
  intros Hs Hc Hn. unfold page_forward_checked, checked_mul64.
  pose proof (pos_range p Hc).
  destruct (n * sz <? W64) eqn:E.
  - apply forward_spec; [assumption|].
    destruct Hs as [-> | [-> | ->]]; unfold u64, S4K, S2M, S1G in *; lia.
  - destruct (pos p + n * sz <? P48) eqn:E2; [|reflexivity]. unfold P48, W64 in *. lia.
Qed.

Theorem page_backward_spec sz p n : page_size sz -> canonical p -> u64 n ->
  page_backward_checked sz p n =
  Ok (if n * sz <=? pos p then Some (unpos (pos p - n * sz)) else None).
Proof.
  intros Hs Hc Hn. unfold page_backward_checked, checked_mul64.
  pose proof (pos_range p Hc).
  destruct (n * sz <? W64) eqn:E.
  - apply backward_spec; [assumption|].
    destruct Hs as [-> | [-> | ->]]; unfold u64, S4K, S2M, S1G in *; lia.
  - destruct (n * sz <=? pos p) eqn:E2; [|reflexivity]. unfold P48, W64 in *. lia.
Qed.

Theorem page_step_stays_page sz p n r : page_size sz -> canonical p -> u64 n -> p mod sz = 0 ->
  (page_forward_checked sz p n = Ok (Some r) \/ page_backward_checked sz p n = Ok (Some r)) ->
  canonical r /\ r mod sz = 0.
Proof.
  intros Hs Hc Hn Hal H. pose proof (pos_range p Hc). pose proof (pos_aligned sz p Hs Hal) as Hpa.
  assert (Hsz : 0 < sz) by (destruct Hs as [-> | [-> | ->]]; reflexivity).
  destruct H as [H|H].
  - rewrite page_forward_spec in H by assumption.
    destruct (pos p + n * sz <? P48) eqn:E; [|discriminate]. injection H as <-.
    split; [apply unpos_canonical; unfold u64 in *; nia|].
    apply unpos_aligned; [assumption|]. rewrite Z.mod_add; [assumption|lia].
  - rewrite page_backward_spec in H by assumption.
    destruct (n * sz <=? pos p) eqn:E; [|discriminate]. injection H as <-.
    split; [apply unpos_canonical; unfold u64 in *; nia|].
    apply unpos_aligned; [assumption|].
    replace (pos p - n * sz) with (pos p + (- n) * sz) by lia.
    rewrite Z.mod_add; [assumption|lia].
Qed.

Theorem page_steps_between_spec sz s e : page_size sz -> canonical s -> canonical e ->
  page_steps_between sz s e =
  if s <=? e then ((pos e - pos s) / sz, Some ((pos e - pos s) / sz)) else (0, None).
Proof.
  intros Hs Hc He. unfold page_steps_between.
  pose proof (steps_between_spec s e Hc He) as S. unfold va_steps_between in S.
  destruct (steps_between_u64 s e) as [st|]; destruct (s <=? e); try congruence.
  all: try (injection S as S _; rewrite S; reflexivity).
Qed.

(* ---------- PageTableIndex ---------- *)
Theorem pti_forward_spec i n : 0 <= i < 512 -> u64 n ->
  pti_forward_checked i n = Ok (if i + n <? 512 then Some (i + n) else None).
Proof.
  intros Hi Hn. unfold pti_forward_checked, checked_add64, pti_new, trunc16, W16, u64, W64 in *.
  destruct (i + n <? 18446744073709551616) eqn:E.
  - destruct (i + n <? 512) eqn:E2; [|reflexivity].
    rewrite Z.mod_small by lia. rewrite E2. reflexivity.
  - destruct (i + n <? 512) eqn:E2; [lia|reflexivity].
Qed.
Theorem pti_backward_spec i n : 0 <= i < 512 -> u64 n ->
  pti_backward_checked i n = Ok (if n <=? i then Some (i - n) else None).
Proof.
  intros Hi Hn. unfold pti_backward_checked, checked_sub64, pti_new, trunc16, W16, u64 in *.
  destruct (n <=? i) eqn:E; [|reflexivity].
  rewrite Z.mod_small by lia. destruct (i - n <? 512) eqn:E2; [reflexivity|lia].
Qed.
Theorem pti_steps_spec s e : pti_steps_between s e =
  if s <=? e then (e - s, Some (e - s)) else (0, None).
Proof. reflexivity. Qed.

(* boundary examples: the four gap/end edges and a count of 2^48 *)
Example fwd_gap : forward_checked_u64 140737488355327 1 = Ok (Some HI).
Proof. vm_compute. reflexivity. Qed.
Example fwd_top : forward_checked_u64 18446744073709551615 1 = Ok None.
Proof. vm_compute. reflexivity. Qed.
Example bwd_gap : backward_checked_u64 HI 1 = Ok (Some 140737488355327).
Proof. vm_compute. reflexivity. Qed.
Example bwd_zero : backward_checked_u64 0 1 = Ok None.
Proof. vm_compute. reflexivity. Qed.
Example fwd_2_48 : forward_checked_u64 0 P48 = Ok None.
Proof. vm_compute. reflexivity. Qed.
