(* C07 (second half): ranges iterate exactly what they count, without panicking,
   for ranges of any length (induction on the number of items). *)
From X86 Require Import Base.Word Base.Bits Addr.Model Addr.Canon Addr.Align Addr.Step Addr.Arith.
Open Scope Z_scope.

Definition items (s sz : Z) (off k : nat) : list Z :=
  map (fun i => s + Z.of_nat i * sz) (seq off k).

(* a run of an iterator along a known sequence of states *)
Lemma iter_n_run (next : rng -> res (option Z * rng)) (st : nat -> rng) (s sz : Z) :
  forall k extra off,
  (forall i, (i < k)%nat ->
     next (st (off + i)%nat) = Ok (Some (s + Z.of_nat (off + i) * sz), st (S (off + i)))) ->
  next (st (off + k)%nat) = Ok (None, st (off + k)%nat) ->
  iter_n next (k + S extra) (st off) = (items s sz off k, false, st (off + k)%nat).
Proof.
  induction k as [|k IH]; intros extra off Hstep Hend.
  - cbn [Nat.add iter_n]. rewrite Nat.add_0_r in Hend. rewrite Hend.
    rewrite Nat.add_0_r. reflexivity.
  - cbn [Nat.add iter_n]. pose proof (Hstep 0%nat ltac:(lia)) as H0.
    rewrite Nat.add_0_r in H0. rewrite H0.
    rewrite (IH extra (S off)).
    + unfold items. cbn [seq map]. replace (S off + k)%nat with (off + S k)%nat by lia. reflexivity.
    + intros i Hi. specialize (Hstep (S i) ltac:(lia)).
      replace (off + S i)%nat with (S off + i)%nat in Hstep by lia. exact Hstep.
    + replace (S off + k)%nat with (off + S k)%nat by lia. exact Hend.
Qed.

Definition same_half (s e : Z) : Prop := (s < P47 /\ e < P47) \/ (HI <= s /\ HI <= e).

Lemma between_canonical s e x : canonical s -> canonical e -> same_half s e ->
  s <= x <= e -> canonical x.
Proof. unfold same_half. intros. ulia. Qed.

Lemma aligned_diff sz s e : 0 < sz -> s mod sz = 0 -> e mod sz = 0 ->
  e = s + ((e - s) / sz) * sz.
Proof.
  intros Hsz Hs He. pose proof (Z.div_mod (e - s) sz ltac:(lia)) as D.
  assert ((e - s) mod sz = 0).
  { rewrite Zminus_mod, Hs, He. reflexivity. }
  lia.
Qed.

Lemma multiple_gap sz x T : 0 < sz -> x mod sz = 0 -> T mod sz = 0 -> x < T -> x + sz <= T.
Proof.
  intros Hsz Hx HT Hlt. pose proof (aligned_diff sz x T Hsz Hx HT) as D.
  set (q := (T - x) / sz) in *.
  destruct (Z_le_dec q 0) as [Hq|Hq].
  - pose proof (Z.mul_nonpos_nonneg q sz Hq ltac:(lia)). lia.
  - pose proof (Z.mul_nonneg_nonneg (q - 1) sz ltac:(lia) ltac:(lia)). lia.
Qed.

Lemma pos_add_same_half x y : canonical x -> canonical y -> same_half x y -> x <= y ->
  pos y = pos x + (y - x).
Proof.
  unfold same_half, pos. intros Hx Hy Hh Hle. unfold GAP.
  destruct (x <? P47) eqn:E1; destruct (y <? P47) eqn:E2; ulia.
Qed.

(* ---------------- PageRange (exclusive) ---------------- *)
Section PageRanges.
Variable sz : Z.
Hypothesis Hsz : page_size sz.
Variables s e : Z.
Hypothesis Hs : is_page sz s.
Hypothesis He : is_page sz e.
Hypothesis Hh : same_half s e.

Let szp : 4096 <= sz <= 1073741824 := sz_pos sz Hsz.

Lemma nth_page_ok (i : Z) : 0 <= i -> s + i * sz <= e -> is_page sz (s + i * sz).
Proof.
  intros Hi Hle. destruct Hs as [Hcs Has]. destruct He as [Hce Hae]. split.
  - apply (between_canonical s e); auto. nia.
  - rewrite Z.mod_add by lia. assumption.
Qed.

Theorem pr_empty_case oc : e <= s ->
  pr_is_empty (s, e) = true /\ pr_len sz (s, e) = Ok 0 /\ pr_size oc sz (s, e) = Ok 0 /\
  pr_next sz (s, e) = Ok (None, (s, e)).
Proof.
  intros Hle. unfold pr_size, pr_next, pr_len, pr_is_empty. cbn [fst snd].
  destruct (e <=? s) eqn:E; [|lia]. cbn [negb bind].
  destruct (s <? e) eqn:E2; [lia|]. unfold mul64.
  replace (sz * 0) with 0 by lia. splits; reflexivity.
Qed.

Theorem pr_iter oc : s <= e ->
  let k := Z.to_nat ((e - s) / sz) in
  pr_len sz (s, e) = Ok (Z.of_nat k) /\
  pr_size oc sz (s, e) = Ok (Z.of_nat k * sz) /\
  (forall extra, iter_n (pr_next sz) (k + S extra) (s, e) = (items s sz 0 k, false, (e, e))) /\
  pr_next sz (e, e) = Ok (None, (e, e)).
Proof.
  intros Hle k.
  destruct Hs as [Hcs Has]. destruct He as [Hce Hae].
  pose proof (aligned_diff sz s e ltac:(lia) Has Hae) as D.
  assert (Hq : 0 <= (e - s) / sz) by (apply Z.div_pos; lia).
  assert (Hk : Z.of_nat k = (e - s) / sz) by (unfold k; rewrite Z2Nat.id; lia).
  assert (Hlen : pr_len sz (s, e) = Ok (Z.of_nat k)).
  { unfold pr_len, pr_is_empty. cbn [fst snd]. destruct (e <=? s) eqn:E; cbn [negb].
    - assert (e = s) by lia. subst e. rewrite Hk. replace (s - s) with 0 by lia.
      rewrite Z.div_0_l by lia. reflexivity.
    - rewrite page_sub_page_spec. destruct (s <=? e) eqn:E2; [|lia]. rewrite Hk. reflexivity. }
  splits.
  - exact Hlen.
  - unfold pr_size. rewrite Hlen. cbn [bind]. unfold mul64.
    assert (sz * Z.of_nat k = e - s) by lia.
    assert (e - s < W64) by ulia.
    destruct (sz * Z.of_nat k <? W64) eqn:E; [f_equal; lia|lia].
  - intros extra.
    pose proof (iter_n_run (pr_next sz) (fun i => (s + Z.of_nat i * sz, e)) s sz k extra 0%nat) as R.
    cbn beta in R. rewrite !Nat.add_0_l in R. change (Z.of_nat 0) with 0 in R.
    replace (s + 0 * sz) with s in R by lia.
    replace (s + Z.of_nat k * sz) with e in R by lia.
    apply R.
    + intros i Hi. rewrite !Nat.add_0_l. unfold pr_next. cbn [fst snd].
      assert (Hlt : s + Z.of_nat i * sz < e) by nia.
      destruct (s + Z.of_nat i * sz <? e) eqn:E; [|lia].
      rewrite page_add_spec; try assumption; [|apply nth_page_ok; nia|ulia].
      assert (Hn : is_page sz (s + Z.of_nat (S i) * sz)) by (apply nth_page_ok; nia).
      replace (s + Z.of_nat i * sz + 1 * sz) with (s + Z.of_nat (S i) * sz) by lia.
      destruct Hn as [Hn _]. apply canonicalb_spec in Hn. rewrite Hn. reflexivity.
    + unfold pr_next. cbn [fst snd]. rewrite Z.ltb_irrefl. reflexivity.
  - unfold pr_next. cbn [fst snd]. rewrite Z.ltb_irrefl. reflexivity.
Qed.

(* ---------------- PageRangeInclusive ---------------- *)
Lemma forward_one_page x : is_page sz x -> is_page sz (x + sz) -> same_half x (x + sz) ->
  forward_checked_u64 x sz = Ok (Some (x + sz)).
Proof.
  intros [Hcx _] [Hcn _] Hsh. rewrite forward_spec by (auto; ulia).
  pose proof (pos_add_same_half x (x + sz) Hcx Hcn Hsh ltac:(lia)) as P.
  replace (x + sz - x) with sz in P by lia. rewrite <- P.
  pose proof (pos_range (x + sz) Hcn).
  destruct (pos (x + sz) <? P48) eqn:E; [|lia]. rewrite unpos_pos by assumption. reflexivity.
Qed.

Theorem pri_empty_case oc : e < s ->
  pri_is_empty (s, e) = true /\ pri_len oc sz (s, e) = Ok 0 /\ pri_size oc sz (s, e) = Ok 0 /\
  pri_next sz (s, e) = Ok (None, (s, e)).
Proof.
  intros Hlt. unfold pri_size, pri_next, pri_len, pri_is_empty. cbn [fst snd].
  destruct (e <? s) eqn:E; [|lia]. cbn [negb bind].
  destruct (s <=? e) eqn:E2; [lia|]. unfold mul64.
  replace (sz * 0) with 0 by lia. splits; reflexivity.
Qed.

Theorem pri_iter oc : s <= e ->
  let k := S (Z.to_nat ((e - s) / sz)) in
  pri_len oc sz (s, e) = Ok (Z.of_nat k) /\
  pri_size oc sz (s, e) = Ok (Z.of_nat k * sz) /\
  exists fin, pri_is_empty fin = true /\
    (forall extra, iter_n (pri_next sz) (k + S extra) (s, e) = (items s sz 0 k, false, fin)) /\
    pri_next sz fin = Ok (None, fin).
Proof.
  intros Hle k.
  destruct Hs as [Hcs Has]. destruct He as [Hce Hae].
  pose proof (aligned_diff sz s e ltac:(lia) Has Hae) as D.
  assert (Hq : 0 <= (e - s) / sz) by (apply Z.div_pos; lia).
  set (k0 := Z.to_nat ((e - s) / sz)) in *.
  assert (Hk0 : Z.of_nat k0 = (e - s) / sz) by (unfold k0; rewrite Z2Nat.id; lia).
  assert (Hk : Z.of_nat k = (e - s) / sz + 1) by (unfold k; lia).
  assert (Hspan : e - s < P47) by (unfold same_half in Hh; ulia).
  assert (Hlen : pri_len oc sz (s, e) = Ok (Z.of_nat k)).
  { unfold pri_len, pri_is_empty. cbn [fst snd]. destruct (e <? s) eqn:E; [lia|]. cbn [negb].
    rewrite page_sub_page_spec. destruct (s <=? e) eqn:E2; [|lia]. cbn [bind]. unfold add64.
    assert ((e - s) / sz + 1 < W64) by (unfold P47, W64 in *; nia).
    destruct ((e - s) / sz + 1 <? W64) eqn:E3; [|lia]. rewrite Hk. reflexivity. }
  split; [exact Hlen|]. split.
  { unfold pri_size. rewrite Hlen. cbn [bind]. unfold mul64.
    assert (sz * Z.of_nat k = e - s + sz) by lia.
    assert (e - s + sz < W64) by ulia.
    destruct (sz * Z.of_nat k <? W64) eqn:E; [f_equal; lia|lia]. }
  (* the last step: either there is a next page (possibly across the gap) or e is the
     maximum page and end is decremented *)
  assert (Hepage : is_page sz e) by (split; assumption).
  pose proof (pos_range e Hce) as Hpe.
  pose proof (pos_aligned sz e Hsz Hae) as Hpae.
  assert (Hlast : exists fin, pri_next sz (e, e) = Ok (Some e, fin) /\ pri_is_empty fin = true
                               /\ pri_next sz fin = Ok (None, fin)).
  { unfold pri_next at 1. cbn [fst snd]. rewrite Z.leb_refl.
    rewrite forward_spec by (auto; ulia).
    destruct (pos e + sz <? P48) eqn:E; cbn [bind].
    - set (nx := unpos (pos e + sz)).
      assert (Hr : 0 <= pos e + sz < P48) by lia.
      assert (Hnx : is_page sz nx).
      { split; [apply unpos_canonical; exact Hr|].
        apply unpos_aligned; [assumption|].
        replace (pos e + sz) with (pos e + 1 * sz) by lia. rewrite Z.mod_add by lia. assumption. }
      assert (Hgt : e < nx).
      { destruct Hnx as [Hcn _]. destruct (Z_lt_dec e nx); [assumption|exfalso].
        assert (nx <= e) by lia. apply (pos_mono nx e Hcn Hce) in H.
        unfold nx in H. rewrite pos_unpos in H by assumption. lia. }
      rewrite page_containing_aligned by assumption. cbn [bind].
      exists (nx, e). splits; [reflexivity| |].
      + unfold pri_is_empty. cbn [fst snd]. apply Z.ltb_lt. assumption.
      + unfold pri_next. cbn [fst snd]. destruct (nx <=? e) eqn:E2; [lia|reflexivity].
    - (* e is the last page: pos e = 2^48 - sz *)
      assert (Hmax : pos e = P48 - sz).
      { assert (P48 mod sz = 0) by (destruct Hsz as [-> | [-> | ->]]; reflexivity).
        pose proof (multiple_gap sz (pos e) P48 ltac:(lia) Hpae H ltac:(lia)). lia. }
      assert (Hev : e = W64 - sz).
      { rewrite <- (unpos_pos e Hce), Hmax. unfold unpos, GAP.
        destruct (P48 - sz <? P47) eqn:E3; ulia. }
      rewrite page_sub_spec by (auto; ulia).
      assert (Hc2 : canonicalb (e - 1 * sz) = true) by (apply canonicalb_spec; ulia).
      rewrite Hc2. cbn [bind].
      exists (e, e - 1 * sz). splits; [reflexivity| |].
      + unfold pri_is_empty. cbn [fst snd]. apply Z.ltb_lt. lia.
      + unfold pri_next. cbn [fst snd]. destruct (e <=? e - 1 * sz) eqn:E2; [lia|reflexivity]. }
  destruct Hlast as (fin & Hl1 & Hl2 & Hl3).
  exists fin. split; [exact Hl2|]. split; [|exact Hl3].
  intros extra.
  pose proof (iter_n_run (pri_next sz)
                (fun i => if (i <? k)%nat then (s + Z.of_nat i * sz, e) else fin) s sz k extra 0%nat) as R.
  cbn beta in R. rewrite !Nat.add_0_l in R. change (Z.of_nat 0) with 0 in R.
  assert (Ek : (k <? k)%nat = false) by (apply Nat.ltb_ge; lia). rewrite Ek in R.
  assert (E0 : (0 <? k)%nat = true) by (apply Nat.ltb_lt; unfold k; lia). rewrite E0 in R.
  replace (s + 0 * sz) with s in R by lia.
  apply R; [|exact Hl3].
  intros i Hi. rewrite !Nat.add_0_l.
  assert (Ei : (i <? k)%nat = true) by (apply Nat.ltb_lt; lia). rewrite Ei.
  destruct (Nat.eq_dec i k0) as [-> | Hne].
  - (* last item *)
    assert (Ek2 : (S k0 <? k)%nat = false) by (apply Nat.ltb_ge; unfold k; lia). rewrite Ek2.
    replace (s + Z.of_nat k0 * sz) with e by lia. exact Hl1.
  - assert (Hik : (i < k0)%nat) by (unfold k in Hi; lia).
    assert (Ek2 : (S i <? k)%nat = true) by (apply Nat.ltb_lt; unfold k; lia). rewrite Ek2.
    unfold pri_next. cbn [fst snd].
    assert (Hlt : s + Z.of_nat (S i) * sz <= e) by nia.
    destruct (s + Z.of_nat i * sz <=? e) eqn:E; [|nia].
    assert (Hp1 : is_page sz (s + Z.of_nat i * sz)) by (apply nth_page_ok; nia).
    assert (Hp2 : is_page sz (s + Z.of_nat (S i) * sz)) by (apply nth_page_ok; nia).
    replace (s + Z.of_nat (S i) * sz) with (s + Z.of_nat i * sz + sz) in * by lia.
    rewrite forward_one_page; auto.
    + cbn [bind]. rewrite page_containing_aligned by assumption. cbn [bind]. repeat f_equal; lia.
    + destruct Hp1 as [c1 _]. destruct Hp2 as [c2 _]. unfold same_half in *. ulia.
Qed.
End PageRanges.

(* ---------------- frame ranges ---------------- *)
Section FrameRanges.
Variable sz : Z.
Hypothesis Hsz : page_size sz.
Variables s e : Z.
Hypothesis Hs : is_frame sz s.
Hypothesis He : is_frame sz e.
Let szp : 4096 <= sz <= 1073741824 := sz_pos sz Hsz.

Lemma nth_frame_ok (i : Z) : 0 <= i -> s + i * sz <= e -> is_frame sz (s + i * sz).
Proof.
  intros Hi Hle. destruct Hs as [Hcs Has]. destruct He as [Hce Hae]. split.
  - unfold phys in *. nia.
  - rewrite Z.mod_add by lia. assumption.
Qed.

Theorem fr_empty_case oc : e <= s ->
  pr_is_empty (s, e) = true /\ fr_len sz (s, e) = Ok 0 /\ fr_size oc sz (s, e) = Ok 0 /\
  fr_next sz (s, e) = Ok (None, (s, e)).
Proof.
  intros Hle. unfold fr_size, fr_next, fr_len, pr_is_empty. cbn [fst snd].
  destruct (e <=? s) eqn:E; [|lia]. cbn [negb bind].
  destruct (s <? e) eqn:E2; [lia|]. unfold mul64.
  replace (sz * 0) with 0 by lia. splits; reflexivity.
Qed.

Theorem fr_iter oc : s <= e ->
  let k := Z.to_nat ((e - s) / sz) in
  fr_len sz (s, e) = Ok (Z.of_nat k) /\
  fr_size oc sz (s, e) = Ok (Z.of_nat k * sz) /\
  (forall extra, iter_n (fr_next sz) (k + S extra) (s, e) = (items s sz 0 k, false, (e, e))) /\
  fr_next sz (e, e) = Ok (None, (e, e)).
Proof.
  intros Hle k.
  destruct Hs as [Hcs Has]. destruct He as [Hce Hae].
  pose proof (aligned_diff sz s e ltac:(lia) Has Hae) as D.
  assert (Hq : 0 <= (e - s) / sz) by (apply Z.div_pos; lia).
  assert (Hk : Z.of_nat k = (e - s) / sz) by (unfold k; rewrite Z2Nat.id; lia).
  assert (Hlen : fr_len sz (s, e) = Ok (Z.of_nat k)).
  { unfold fr_len, pr_is_empty. cbn [fst snd]. destruct (e <=? s) eqn:E; cbn [negb].
    - assert (e = s) by lia. subst e. rewrite Hk. replace (s - s) with 0 by lia.
      rewrite Z.div_0_l by lia. reflexivity.
    - rewrite frame_sub_frame_spec. destruct (s <=? e) eqn:E2; [|lia]. rewrite Hk. reflexivity. }
  splits.
  - exact Hlen.
  - unfold fr_size. rewrite Hlen. cbn [bind]. unfold mul64.
    assert (sz * Z.of_nat k = e - s) by lia.
    assert (e - s < W64) by ulia.
    destruct (sz * Z.of_nat k <? W64) eqn:E; [f_equal; lia|lia].
  - intros extra.
    pose proof (iter_n_run (fr_next sz) (fun i => (s + Z.of_nat i * sz, e)) s sz k extra 0%nat) as R.
    cbn beta in R. rewrite !Nat.add_0_l in R. change (Z.of_nat 0) with 0 in R.
    replace (s + 0 * sz) with s in R by lia.
    replace (s + Z.of_nat k * sz) with e in R by lia.
    apply R.
    + intros i Hi. rewrite !Nat.add_0_l. unfold fr_next. cbn [fst snd].
      assert (Hlt : s + Z.of_nat i * sz < e) by nia.
      destruct (s + Z.of_nat i * sz <? e) eqn:E; [|lia].
      rewrite frame_add_spec; try assumption; [|apply nth_frame_ok; nia|ulia].
      assert (Hn : is_frame sz (s + Z.of_nat (S i) * sz)) by (apply nth_frame_ok; nia).
      replace (s + Z.of_nat i * sz + 1 * sz) with (s + Z.of_nat (S i) * sz) by lia.
      destruct Hn as [Hn _]. apply physb_spec in Hn. rewrite Hn. reflexivity.
    + unfold fr_next. cbn [fst snd]. rewrite Z.ltb_irrefl. reflexivity.
  - unfold fr_next. cbn [fst snd]. rewrite Z.ltb_irrefl. reflexivity.
Qed.

Theorem fri_empty_case oc : e < s ->
  pri_is_empty (s, e) = true /\ fri_len oc sz (s, e) = Ok 0 /\ fri_size oc sz (s, e) = Ok 0 /\
  fri_next oc sz (s, e) = Ok (None, (s, e)).
Proof.
  intros Hlt. unfold fri_size, fri_next, fri_len, pri_is_empty. cbn [fst snd].
  destruct (e <? s) eqn:E; [|lia]. cbn [negb bind].
  destruct (s <=? e) eqn:E2; [lia|]. unfold mul64.
  replace (sz * 0) with 0 by lia. splits; reflexivity.
Qed.

Lemma fri_next_step oc x : is_frame sz x -> x <= e ->
  fri_next oc sz (x, e) =
  Ok (Some x, if x <? P52 - sz then (x + sz, e) else (x, e - sz)).
Proof.
  intros Hx Hle. unfold fri_next. cbn [fst snd].
  destruct (x <=? e) eqn:E; [|lia].
  assert (Hsub : sub64 oc P52 sz = Ok (P52 - sz)).
  { unfold sub64. destruct (sz <=? P52) eqn:E2; [reflexivity|ulia]. }
  rewrite Hsub. cbn [bind].
  rewrite pa_new_spec by ulia.
  assert (Hp : physb (P52 - sz) = true) by (apply physb_spec; ulia). rewrite Hp. cbn [bind].
  destruct Hx as [Hpx Hax]. destruct He as [Hpe Hae].
  assert (Hxm : x <= P52 - sz).
  { assert (P52 mod sz = 0) by (destruct Hsz as [-> | [-> | ->]]; reflexivity).
    pose proof (multiple_gap sz x P52 ltac:(lia) Hax H ltac:(unfold phys in *; lia)). lia. }
  destruct (x <? P52 - sz) eqn:E3.
  - rewrite frame_add_spec by (auto; try split; auto; ulia).
    assert (Hq : physb (x + 1 * sz) = true) by (apply physb_spec; ulia). rewrite Hq. cbn [bind].
    replace (x + 1 * sz) with (x + sz) by lia. reflexivity.
  - assert (e = x).
    { assert (e <= P52 - sz).
      { assert (P52 mod sz = 0) by (destruct Hsz as [-> | [-> | ->]]; reflexivity).
    pose proof (multiple_gap sz e P52 ltac:(lia) Hae H ltac:(unfold phys in *; lia)). lia. }
      lia. }
    subst x. rewrite frame_sub_spec by (auto; try split; auto; ulia).
    assert (Hq : physb (e - 1 * sz) = true) by (apply physb_spec; ulia). rewrite Hq. cbn [bind].
    replace (e - 1 * sz) with (e - sz) by lia. reflexivity.
Qed.

Theorem fri_iter oc : s <= e ->
  let k := S (Z.to_nat ((e - s) / sz)) in
  fri_len oc sz (s, e) = Ok (Z.of_nat k) /\
  fri_size oc sz (s, e) = Ok (Z.of_nat k * sz) /\
  exists fin, pri_is_empty fin = true /\
    (forall extra, iter_n (fri_next oc sz) (k + S extra) (s, e) = (items s sz 0 k, false, fin)) /\
    fri_next oc sz fin = Ok (None, fin).
Proof.
  intros Hle k.
  destruct Hs as [Hcs Has]. destruct He as [Hce Hae].
  pose proof (aligned_diff sz s e ltac:(lia) Has Hae) as D.
  assert (Hq : 0 <= (e - s) / sz) by (apply Z.div_pos; lia).
  set (k0 := Z.to_nat ((e - s) / sz)) in *.
  assert (Hk0 : Z.of_nat k0 = (e - s) / sz) by (unfold k0; rewrite Z2Nat.id; lia).
  assert (Hk : Z.of_nat k = (e - s) / sz + 1) by (unfold k; lia).
  assert (Hlen : fri_len oc sz (s, e) = Ok (Z.of_nat k)).
  { unfold fri_len, pri_is_empty. cbn [fst snd]. destruct (e <? s) eqn:E; [lia|]. cbn [negb].
    rewrite frame_sub_frame_spec. destruct (s <=? e) eqn:E2; [|lia]. cbn [bind]. unfold add64.
    assert ((e - s) / sz + 1 < W64) by (unf; nia).
    destruct ((e - s) / sz + 1 <? W64) eqn:E3; [|lia]. rewrite Hk. reflexivity. }
  split; [exact Hlen|]. split.
  { unfold fri_size. rewrite Hlen. cbn [bind]. unfold mul64.
    assert (sz * Z.of_nat k = e - s + sz) by lia.
    assert (e - s + sz < W64) by ulia.
    destruct (sz * Z.of_nat k <? W64) eqn:E; [f_equal; lia|lia]. }
  set (fin := if e <? P52 - sz then (e + sz, e) else (e, e - sz)).
  assert (Hfe : pri_is_empty fin = true).
  { unfold fin, pri_is_empty. destruct (e <? P52 - sz); cbn [fst snd]; apply Z.ltb_lt; lia. }
  assert (Hfn : fri_next oc sz fin = Ok (None, fin)).
  { unfold fri_next. unfold pri_is_empty in Hfe. destruct (fst fin <=? snd fin) eqn:E; [lia|reflexivity]. }
  exists fin. split; [exact Hfe|]. split; [|exact Hfn].
  intros extra.
  pose proof (iter_n_run (fri_next oc sz)
                (fun i => if (i <? k)%nat then (s + Z.of_nat i * sz, e) else fin) s sz k extra 0%nat) as R.
  cbn beta in R. rewrite !Nat.add_0_l in R. change (Z.of_nat 0) with 0 in R.
  assert (Ek : (k <? k)%nat = false) by (apply Nat.ltb_ge; lia). rewrite Ek in R.
  assert (E0 : (0 <? k)%nat = true) by (apply Nat.ltb_lt; unfold k; lia). rewrite E0 in R.
  replace (s + 0 * sz) with s in R by lia.
  apply R; [|exact Hfn].
  intros i Hi. rewrite !Nat.add_0_l.
  assert (Ei : (i <? k)%nat = true) by (apply Nat.ltb_lt; lia). rewrite Ei.
  assert (Hp1 : is_frame sz (s + Z.of_nat i * sz)) by (apply nth_frame_ok; unfold k in Hi; nia).
  rewrite fri_next_step by (auto; unfold k in Hi; nia). f_equal. f_equal.
  destruct (Nat.eq_dec i k0) as [-> | Hne].
  - assert (Ek2 : (S k0 <? k)%nat = false) by (apply Nat.ltb_ge; unfold k; lia). rewrite Ek2.
    replace (s + Z.of_nat k0 * sz) with e by lia. reflexivity.
  - assert (Hik : (i < k0)%nat) by (unfold k in Hi; lia).
    assert (Ek2 : (S i <? k)%nat = true) by (apply Nat.ltb_lt; unfold k; lia). rewrite Ek2.
    assert (Hlt : s + Z.of_nat (S i) * sz <= e) by nia.
    assert (e <= P52 - sz).
    { assert (P52 mod sz = 0) by (destruct Hsz as [-> | [-> | ->]]; reflexivity).
    pose proof (multiple_gap sz e P52 ltac:(lia) Hae H ltac:(unfold phys in *; lia)). lia. }
    destruct (s + Z.of_nat i * sz <? P52 - sz) eqn:E3; [|lia].
    f_equal. lia.
Qed.
End FrameRanges.

(* 2 MiB ranges convert to the same bytes in 4 KiB pages *)
Theorem as_4kib_same_bytes oc s e : is_page S2M s -> is_page S2M e -> same_half s e -> s <= e ->
  pr_as_4k (s, e) = Ok (s, e) /\
  exists n, pr_len S2M (s, e) = Ok n /\ pr_len S4K (s, e) = Ok (512 * n) /\
            pr_size oc S2M (s, e) = Ok (n * S2M) /\ pr_size oc S4K (s, e) = Ok (n * S2M).
Proof.
  intros Hs He Hh Hle.
  assert (Hs4 : is_page S4K s).
  { destruct Hs as [c a]. split; [assumption|]. unfold S2M, S4K in *.
    assert (s = (s / 2097152) * 512 * 4096) by (pose proof (Z.div_mod s 2097152); lia).
    rewrite H. apply Z.mod_mul. lia. }
  assert (He4 : is_page S4K e).
  { destruct He as [c a]. split; [assumption|]. unfold S2M, S4K in *.
    assert (e = (e / 2097152) * 512 * 4096) by (pose proof (Z.div_mod e 2097152); lia).
    rewrite H. apply Z.mod_mul. lia. }
  split.
  - unfold pr_as_4k. cbn [fst snd].
    rewrite !page_containing_aligned by (auto; left; reflexivity). reflexivity.
  - assert (P2 : page_size S2M) by (right; left; reflexivity).
    assert (P4 : page_size S4K) by (left; reflexivity).
    destruct (pr_iter S2M P2 s e Hs He Hh oc Hle) as (L2 & Z2 & _).
    destruct (pr_iter S4K P4 s e Hs4 He4 Hh oc Hle) as (L4 & Z4 & _).
    exists (Z.of_nat (Z.to_nat ((e - s) / S2M))). rewrite L2, L4, Z2, Z4.
    destruct Hs as [_ a1]. destruct He as [_ a2].
    pose proof (aligned_diff S2M s e ltac:(unfold S2M; lia) a1 a2) as D.
    assert (0 <= (e - s) / S2M) by (apply Z.div_pos; unfold S2M; lia).
    assert (0 <= (e - s) / S4K) by (apply Z.div_pos; unfold S4K; lia).
    rewrite !Z2Nat.id by assumption.
    assert ((e - s) / S4K = 512 * ((e - s) / S2M)).
    { unfold S2M, S4K in *. pose proof (Z.div_mod (e - s) 4096). pose proof (Z.mod_pos_bound (e-s) 4096). lia. }
    rewrite H1. splits; try reflexivity. f_equal. unfold S2M, S4K. lia.
Qed.

(* the two ranges that panicked before the fix: commits F3a / F3b *)
Example incl_last_lower_half :
  iter_n (pri_next S4K) 5 (140737488347136, 140737488351232)
  = ([140737488347136; 140737488351232], false, (HI, 140737488351232)).
Proof. vm_compute. reflexivity. Qed.
Example incl_last_frame :
  iter_n (fri_next true S4K) 5 (4503599627362304, 4503599627366400)
  = ([4503599627362304; 4503599627366400], false, (4503599627366400, 4503599627362304)).
Proof. vm_compute. reflexivity. Qed.
