(* Executable model of src/addr.rs, src/structures/paging/{page,frame}.rs and the
   index/offset/level types of page_table.rs, written operation by operation as the
   Rust source (after the fix: commits) is written.  No proofs in this file. *)
From X86 Require Export Base.Word.
Open Scope Z_scope.

Definition ADDRESS_SPACE_SIZE : Z := 281474976710656.   (* 0x1_0000_0000_0000 *)
Definition P52 : Z := 4503599627370496.                  (* 1 << 52 *)
Definition S4K : Z := 4096.
Definition S2M : Z := 2097152.
Definition S1G : Z := 1073741824.

(* ---------- VirtAddr ---------- *)
Definition va_new_truncate (a : Z) : Z :=
  of_i64 (sar64 (to_i64 (shl64 a 16)) 16).
Definition va_try_new (a : Z) : option Z :=
  if va_new_truncate a =? a then Some a else None.
Definition va_new (a : Z) : res Z := unwrap (va_try_new a).

(* free functions align_down / align_up *)
Definition align_down (a al : Z) : res Z :=
  if is_pow2 al then Ok (Z.land a (not64 (al - 1))) else Panic.
Definition align_up (a al : Z) : res Z :=
  if is_pow2 al then
    let m := al - 1 in
    if Z.land a m =? 0 then Ok a
    else unwrap (checked_add64 (Z.lor a m) 1)
  else Panic.

Definition va_align_up (a al : Z) : res Z := rmap va_new_truncate (align_up a al).
Definition va_align_down (a al : Z) : res Z := rmap va_new_truncate (align_down a al).
Definition va_is_aligned (a al : Z) : res bool :=
  rmap (fun d => d =? a) (va_align_down a al).

Definition trunc16 (x : Z) : Z := x mod W16.            (* `as u16` *)
Definition pti_new_truncate (i : Z) : Z := i mod 512.
Definition pti_new (i : Z) : res Z := if i <? 512 then Ok i else Panic.
Definition po_new_truncate (i : Z) : Z := i mod 4096.
Definition po_new (i : Z) : res Z := if i <? 4096 then Ok i else Panic.

Definition page_offset (a : Z) : Z := po_new_truncate (trunc16 a).
Definition p1_index (a : Z) : Z := pti_new_truncate (trunc16 (shr64 a 12)).
Definition p2_index (a : Z) : Z := pti_new_truncate (trunc16 (shr64 (shr64 a 12) 9)).
Definition p3_index (a : Z) : Z :=
  pti_new_truncate (trunc16 (shr64 (shr64 (shr64 a 12) 9) 9)).
Definition p4_index (a : Z) : Z :=
  pti_new_truncate (trunc16 (shr64 (shr64 (shr64 (shr64 a 12) 9) 9) 9)).
(* level in 1..4 *)
Definition page_table_index (a level : Z) : Z :=
  pti_new_truncate (trunc16 (shr64 (shr64 a 12) ((level - 1) * 9))).

Definition steps_between_u64 (s e : Z) : option Z :=
  match checked_sub64 e s with
  | Some st => Some (Z.land st 281474976710655)   (* 0xffff_ffff_ffff *)
  | None => None
  end.
(* (lower bound, Option upper); usize = u64 on the modelled target *)
Definition va_steps_between (s e : Z) : Z * option Z :=
  match steps_between_u64 s e with
  | Some st => (st, Some st)
  | None => (0, None)
  end.

Definition forward_checked_u64 (s count : Z) : res (option Z) :=
  if count >? ADDRESS_SPACE_SIZE then Ok None else
  match checked_add64 s count with
  | None => Ok None
  | Some addr =>
      let b := get_bits addr 47 64 in
      if b =? 1 then rmap Some (set_bits addr 47 64 131071)   (* 0x1ffff *)
      else if b =? 2 then Ok None
      else Ok (Some addr)
  end.
Definition backward_checked_u64 (s count : Z) : res (option Z) :=
  if count >? ADDRESS_SPACE_SIZE then Ok None else
  match checked_sub64 s count with
  | None => Ok None
  | Some addr =>
      let b := get_bits addr 47 64 in
      if b =? 131070 then rmap Some (set_bits addr 47 64 0)    (* 0x1fffe *)
      else if b =? 131069 then Ok None                          (* 0x1fffd *)
      else Ok (Some addr)
  end.

Definition va_add (a rhs : Z) : res Z :=
  do s <- unwrap (checked_add64 a rhs); va_new s.
Definition va_sub (a rhs : Z) : res Z :=
  do s <- unwrap (checked_sub64 a rhs); va_new s.
Definition va_sub_va (a b : Z) : res Z := unwrap (checked_sub64 a b).

(* ---------- PhysAddr ---------- *)
Definition pa_new_truncate (a : Z) : Z := a mod P52.
Definition pa_try_new (a : Z) : option Z :=
  if pa_new_truncate a =? a then Some a else None.
Definition pa_new (a : Z) : res Z := unwrap (pa_try_new a).
Definition pa_align_up (a al : Z) : res Z := do x <- align_up a al; pa_new x.
Definition pa_align_down (a al : Z) : res Z := align_down a al.
Definition pa_is_aligned (a al : Z) : res bool :=
  rmap (fun d => d =? a) (pa_align_down a al).
Definition pa_add (a rhs : Z) : res Z :=
  do s <- unwrap (checked_add64 a rhs); pa_new s.
Definition pa_sub (a rhs : Z) : res Z :=
  do s <- unwrap (checked_sub64 a rhs); pa_new s.
Definition pa_sub_pa (a b : Z) : res Z := unwrap (checked_sub64 a b).

(* ---------- Page<S> (a page is its start address; sz = S::SIZE) ---------- *)
Definition page_containing (sz a : Z) : res Z := va_align_down a sz.
Definition page_from_start (sz a : Z) : res (option Z) :=
  do al <- va_is_aligned a sz;
  if al then rmap Some (page_containing sz a) else Ok None.
Definition page_add (sz p rhs : Z) : res Z :=
  do m <- unwrap (checked_mul64 rhs sz);
  do a <- va_add p m; page_containing sz a.
Definition page_sub (sz p rhs : Z) : res Z :=
  do m <- unwrap (checked_mul64 rhs sz);
  do a <- va_sub p m; page_containing sz a.
Definition page_sub_page (sz p q : Z) : res Z :=
  rmap (fun d => d / sz) (va_sub_va p q).
Definition page_steps_between (sz s e : Z) : Z * option Z :=
  match steps_between_u64 s e with
  | Some st => let st := st / sz in (st, Some st)
  | None => (0, None)
  end.
Definition page_forward_checked (sz s count : Z) : res (option Z) :=
  match checked_mul64 count sz with
  | None => Ok None
  | Some c => forward_checked_u64 s c
  end.
Definition page_backward_checked (sz s count : Z) : res (option Z) :=
  match checked_mul64 count sz with
  | None => Ok None
  | Some c => backward_checked_u64 s c
  end.
Definition from_indices_1g (p4 p3 : Z) : res Z :=
  page_containing S1G (va_new_truncate
    (Z.lor (Z.lor 0 (shl64 p4 39)) (shl64 p3 30))).
Definition from_indices_2m (p4 p3 p2 : Z) : res Z :=
  page_containing S2M (va_new_truncate
    (Z.lor (Z.lor (Z.lor 0 (shl64 p4 39)) (shl64 p3 30)) (shl64 p2 21))).
Definition from_indices_4k (p4 p3 p2 p1 : Z) : res Z :=
  page_containing S4K (va_new_truncate
    (Z.lor (Z.lor (Z.lor (Z.lor 0 (shl64 p4 39)) (shl64 p3 30)) (shl64 p2 21))
           (shl64 p1 12))).

(* ---------- PhysFrame<S> ---------- *)
Definition frame_containing (sz a : Z) : res Z := pa_align_down a sz.
Definition frame_from_start (sz a : Z) : res (option Z) :=
  do al <- pa_is_aligned a sz;
  if al then Ok (Some a) else Ok None.
Definition frame_add (sz p rhs : Z) : res Z :=
  do m <- unwrap (checked_mul64 rhs sz);
  do a <- pa_add p m; frame_containing sz a.
Definition frame_sub (sz p rhs : Z) : res Z :=
  do m <- unwrap (checked_mul64 rhs sz);
  do a <- pa_sub p m; frame_containing sz a.
Definition frame_sub_frame (sz p q : Z) : res Z :=
  rmap (fun d => d / sz) (pa_sub_pa p q).

(* ---------- ranges: (start, end) ---------- *)
Definition rng := (Z * Z)%type.
(* exclusive *)
Definition pr_is_empty (r : rng) : bool := snd r <=? fst r.
Definition pr_len (sz : Z) (r : rng) : res Z :=
  if negb (pr_is_empty r) then page_sub_page sz (snd r) (fst r) else Ok 0.
Definition pr_size (oc : bool) (sz : Z) (r : rng) : res Z :=
  do l <- pr_len sz r; mul64 oc sz l.
Definition pr_next (sz : Z) (r : rng) : res (option Z * rng) :=
  if fst r <? snd r then
    do s' <- page_add sz (fst r) 1; Ok (Some (fst r), (s', snd r))
  else Ok (None, r).
Definition pr_as_4k (r : rng) : res rng :=
  do s <- page_containing S4K (fst r);
  do e <- page_containing S4K (snd r); Ok (s, e).
(* inclusive *)
Definition pri_is_empty (r : rng) : bool := snd r <? fst r.
Definition pri_len (oc : bool) (sz : Z) (r : rng) : res Z :=
  if negb (pri_is_empty r) then
    do d <- page_sub_page sz (snd r) (fst r); add64 oc d 1
  else Ok 0.
Definition pri_size (oc : bool) (sz : Z) (r : rng) : res Z :=
  do l <- pri_len oc sz r; mul64 oc sz l.
Definition pri_next (sz : Z) (r : rng) : res (option Z * rng) :=
  if fst r <=? snd r then
    do f <- forward_checked_u64 (fst r) sz;
    match f with
    | Some nx => do s' <- page_containing sz nx; Ok (Some (fst r), (s', snd r))
    | None => do e' <- page_sub sz (snd r) 1; Ok (Some (fst r), (fst r, e'))
    end
  else Ok (None, r).
(* frames, exclusive *)
Definition fr_len (sz : Z) (r : rng) : res Z :=
  if negb (pr_is_empty r) then frame_sub_frame sz (snd r) (fst r) else Ok 0.
Definition fr_size (oc : bool) (sz : Z) (r : rng) : res Z :=
  do l <- fr_len sz r; mul64 oc sz l.
Definition fr_next (sz : Z) (r : rng) : res (option Z * rng) :=
  if fst r <? snd r then
    do s' <- frame_add sz (fst r) 1; Ok (Some (fst r), (s', snd r))
  else Ok (None, r).
(* frames, inclusive *)
Definition fri_len (oc : bool) (sz : Z) (r : rng) : res Z :=
  if negb (pri_is_empty r) then
    do d <- frame_sub_frame sz (snd r) (fst r); add64 oc d 1
  else Ok 0.
Definition fri_size (oc : bool) (sz : Z) (r : rng) : res Z :=
  do l <- fri_len oc sz r; mul64 oc sz l.
Definition fri_next (oc : bool) (sz : Z) (r : rng) : res (option Z * rng) :=
  if fst r <=? snd r then
    do d <- sub64 oc P52 sz;               (* (1 << 52) - S::SIZE *)
    do mx <- pa_new d;
    if fst r <? mx then
      do s' <- frame_add sz (fst r) 1; Ok (Some (fst r), (s', snd r))
    else
      do e' <- frame_sub sz (snd r) 1; Ok (Some (fst r), (fst r, e'))
  else Ok (None, r).

(* run an iterator for at most n steps: yielded items; the flag says whether a Panic
   cut the run short; stops after the first None *)
Fixpoint iter_n (next : rng -> res (option Z * rng)) (n : nat) (r : rng)
  : list Z * bool * rng :=
  match n with
  | O => ([], false, r)
  | S n' =>
      match next r with
      | Panic => ([], true, r)
      | Ok (None, r') => ([], false, r')
      | Ok (Some x, r') =>
          let '(l, p, rf) := iter_n next n' r' in (x :: l, p, rf)
      end
  end.

(* ---------- PageTableIndex as Step; PageTableLevel ---------- *)
Definition pti_steps_between (s e : Z) : Z * option Z :=
  if s <=? e then (e - s, Some (e - s)) else (0, None).
Definition pti_forward_checked (s count : Z) : res (option Z) :=
  match checked_add64 s count with
  | None => Ok None
  | Some idx => if idx <? 512 then rmap Some (pti_new (trunc16 idx)) else Ok None
  end.
Definition pti_backward_checked (s count : Z) : res (option Z) :=
  match checked_sub64 s count with
  | None => Ok None
  | Some idx => rmap Some (pti_new (trunc16 idx))
  end.
Definition next_lower_level (l : Z) : option Z :=
  if l =? 4 then Some 3 else if l =? 3 then Some 2 else if l =? 2 then Some 1 else None.
Definition next_higher_level (l : Z) : option Z :=
  if l =? 4 then None else if l =? 3 then Some 4 else if l =? 2 then Some 3 else Some 2.
Definition table_alignment (l : Z) : Z := shl64 1 (l * 9 + 12).
Definition entry_alignment (l : Z) : Z := shl64 1 ((l - 1) * 9 + 12).

(* PageTableEntry::addr and idt Entry::handler_addr, as far as C03 needs them *)
Definition pte_addr (e : Z) : res Z := pa_new (Z.land e 4503599627366400). (* 0x000f_ffff_ffff_f000 *)
Definition idt_handler_addr (lo mid hi : Z) : Z :=
  va_new_truncate (Z.lor (Z.lor lo (shl64 mid 16)) (shl64 hi 32)).
