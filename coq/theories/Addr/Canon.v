(* Validity predicates and the arithmetic characterisation of the constructors. *)
From X86 Require Import Base.Word Base.Bits Addr.Model.
Open Scope Z_scope.
Local Ltac Zify.zify_post_hook ::= Z.div_mod_to_equations.

Definition P47 : Z := 140737488355328.
Definition P48 : Z := 281474976710656.
Definition HI : Z := 18446603336221196288.     (* 2^64 - 2^47 = 0xffff_8000_0000_0000 *)

Definition canonical (a : Z) : Prop := 0 <= a < P47 \/ HI <= a < W64.
Definition canonicalb (a : Z) : bool :=
  ((0 <=? a) && (a <? P47)) || ((HI <=? a) && (a <? W64)).
Definition phys (a : Z) : Prop := 0 <= a < P52.
Definition physb (a : Z) : bool := (0 <=? a) && (a <? P52).

Lemma canonicalb_spec a : canonicalb a = true <-> canonical a.
Proof. unfold canonicalb, canonical. lia. Qed.
Lemma physb_spec a : physb a = true <-> phys a.
Proof. unfold physb, phys. lia. Qed.
Lemma canonical_u64 a : canonical a -> u64 a.
Proof. unfold canonical, u64, P47, HI, W64. lia. Qed.
Lemma phys_u64 a : phys a -> u64 a.
Proof. unfold phys, u64, P52, W64. lia. Qed.

(* the literal wording of the property: bits 48..63 equal bit 47 *)
Definition sign_extended (a : Z) : Prop :=
  forall i, 47 <= i < 64 -> Z.testbit a i = Z.testbit a 47.

Lemma va_new_truncate_char a : u64 a ->
  va_new_truncate a =
  (if a mod P48 <? P47 then a mod P48 else a mod P48 + (W64 - P48)).
Proof.
  unfold u64, va_new_truncate, of_i64, sar64, to_i64, shl64, wrap64, W64, W63, P48, P47.
  intros Ha.
  rewrite Z.shiftl_mul_pow2, Z.shiftr_div_pow2 by lia.
  change (2 ^ 16) with 65536.
  destruct (a mod 281474976710656 <? 140737488355328) eqn:E1;
  destruct (a * 65536 mod 18446744073709551616 <? 9223372036854775808) eqn:E2; lia.
Qed.

Lemma va_new_truncate_canonical a : u64 a -> canonical (va_new_truncate a).
Proof.
  intros Ha. rewrite va_new_truncate_char by assumption.
  unfold canonical, u64, P47, P48, HI, W64 in *.
  destruct (a mod 281474976710656 <? 140737488355328) eqn:E; lia.
Qed.

Lemma va_new_truncate_id a : canonical a -> va_new_truncate a = a.
Proof.
  intros Hc. rewrite va_new_truncate_char by (apply canonical_u64; assumption).
  unfold canonical, P47, P48, HI, W64 in *.
  destruct (a mod 281474976710656 <? 140737488355328) eqn:E; lia.
Qed.

Lemma va_new_truncate_fix a : u64 a -> va_new_truncate a = a -> canonical a.
Proof. intros Ha E. rewrite <- E. apply va_new_truncate_canonical; assumption. Qed.

Lemma va_new_truncate_idem a : u64 a ->
  va_new_truncate (va_new_truncate a) = va_new_truncate a.
Proof. intros Ha. apply va_new_truncate_id, va_new_truncate_canonical, Ha. Qed.

Lemma va_new_truncate_low48 a : u64 a ->
  va_new_truncate a = va_new_truncate (a mod P48) /\
  (va_new_truncate a) mod P48 = a mod P48.
Proof.
  intros Ha.
  assert (Hm : u64 (a mod P48)) by (unfold u64, P48, W64 in *; lia).
  rewrite !va_new_truncate_char by assumption.
  unfold u64, P47, P48, W64 in *.
  destruct (a mod 281474976710656 <? 140737488355328) eqn:E;
  destruct (a mod 281474976710656 mod 281474976710656 <? 140737488355328) eqn:E2; lia.
Qed.

Lemma va_try_new_spec a : u64 a ->
  va_try_new a = if canonicalb a then Some a else None.
Proof.
  intros Ha. unfold va_try_new.
  destruct (canonicalb a) eqn:Ec.
  - apply canonicalb_spec in Ec. rewrite va_new_truncate_id by assumption.
    rewrite Z.eqb_refl. reflexivity.
  - destruct (va_new_truncate a =? a) eqn:E; [|reflexivity].
    apply Z.eqb_eq in E. apply va_new_truncate_fix in E; [|assumption].
    apply canonicalb_spec in E. congruence.
Qed.

Lemma va_new_spec a : u64 a -> va_new a = if canonicalb a then Ok a else Panic.
Proof.
  intros Ha. unfold va_new. rewrite va_try_new_spec by assumption.
  destruct (canonicalb a); reflexivity.
Qed.

Lemma va_new_ok a v : u64 a -> va_new a = Ok v -> v = a /\ canonical a.
Proof.
  intros Ha. rewrite va_new_spec by assumption.
  destruct (canonicalb a) eqn:E; [|discriminate].
  intros [= <-]. split; [reflexivity|apply canonicalb_spec; assumption].
Qed.

(* physical addresses *)
Lemma pa_new_truncate_phys a : phys (pa_new_truncate a).
Proof. unfold phys, pa_new_truncate, P52. lia. Qed.
Lemma pa_new_truncate_id a : phys a -> pa_new_truncate a = a.
Proof. unfold phys, pa_new_truncate, P52. intros; apply Z.mod_small; lia. Qed.
Lemma pa_new_truncate_idem a : pa_new_truncate (pa_new_truncate a) = pa_new_truncate a.
Proof. apply pa_new_truncate_id, pa_new_truncate_phys. Qed.
Lemma pa_new_truncate_low52 a :
  pa_new_truncate a = pa_new_truncate (a mod P52) /\ (pa_new_truncate a) mod P52 = a mod P52.
Proof. unfold pa_new_truncate, P52. split; rewrite Z.mod_mod; lia. Qed.
Lemma pa_try_new_spec a : u64 a -> pa_try_new a = if physb a then Some a else None.
Proof.
  intros Ha. unfold pa_try_new, pa_new_truncate, physb, u64, P52, W64 in *.
  destruct (a mod 4503599627370496 =? a) eqn:E;
  destruct ((0 <=? a) && (a <? 4503599627370496)) eqn:E2; try reflexivity; lia.
Qed.
Lemma pa_new_spec a : u64 a -> pa_new a = if physb a then Ok a else Panic.
Proof.
  intros Ha. unfold pa_new. rewrite pa_try_new_spec by assumption.
  destruct (physb a); reflexivity.
Qed.
Lemma pa_new_ok a v : u64 a -> pa_new a = Ok v -> v = a /\ phys a.
Proof.
  intros Ha. rewrite pa_new_spec by assumption.
  destruct (physb a) eqn:E; [|discriminate].
  intros [= <-]. split; [reflexivity|apply physb_spec; assumption].
Qed.

(* the bit-level reading of "canonical": bits 48..63 repeat bit 47 *)
Lemma testbit_div a i : 0 <= i -> Z.testbit a i = Z.odd (a / 2 ^ i).
Proof. intros. rewrite Z.testbit_odd, Z.shiftr_div_pow2 by lia. reflexivity. Qed.

Lemma uniform17 h : 0 <= h < 131072 ->
  (forall j, 0 <= j < 17 -> Z.testbit h j = Z.testbit h 0) -> h = 0 \/ h = 131071.
Proof.
  intros Hh H. destruct (Z.testbit h 0) eqn:E0.
  - right. change 131071 with (Z.ones 17). apply Z.bits_inj'. intros i Hi.
    destruct (Z_lt_dec i 17).
    + rewrite H by lia. rewrite Z.ones_spec_low by lia. reflexivity.
    + rewrite Z.ones_spec_high by lia. apply (testbit_high_zero h 17); [exact Hh|lia].
  - left. apply Z.bits_inj'. intros i Hi. rewrite Z.bits_0.
    destruct (Z_lt_dec i 17).
    + apply H; lia.
    + apply (testbit_high_zero h 17); [exact Hh|lia].
Qed.

Lemma canonical_sign_extended a : u64 a -> (canonical a <-> sign_extended a).
Proof.
  intros Ha. set (h := a / P47).
  assert (Hh : 0 <= h < 131072) by (unfold h, u64, P47, W64 in *; lia).
  assert (Hbit : forall j, 0 <= j -> Z.testbit a (47 + j) = Z.testbit h j).
  { intros j Hj. unfold h. rewrite !testbit_div by lia.
    change P47 with (2 ^ 47). rewrite Z.div_div by (try apply Z.pow_pos_nonneg; lia).
    rewrite <- Z.pow_add_r by lia. reflexivity. }
  split.
  - intros Hc i Hi.
    replace i with (47 + (i - 47)) by lia. rewrite Hbit by lia.
    replace 47 with (47 + 0) at 2 by lia. rewrite Hbit by lia.
    assert (Hv : h = 0 \/ h = 131071)
      by (unfold canonical, h, u64, P47, HI, W64 in *; lia).
    destruct Hv as [-> | ->].
    + rewrite !Z.bits_0. reflexivity.
    + change 131071 with (Z.ones 17). rewrite !Z.ones_spec_low by lia. reflexivity.
  - intros Hs.
    assert (Hv : h = 0 \/ h = 131071).
    { apply uniform17; [exact Hh|]. intros j Hj.
      rewrite <- (Hbit j), <- (Hbit 0) by lia. rewrite Z.add_0_r. apply Hs. lia. }
    unfold canonical, h, u64, P47, HI, W64 in *. lia.
Qed.

Lemma phys_bits a : u64 a -> (phys a <-> forall i, 52 <= i < 64 -> Z.testbit a i = false).
Proof.
  intros Ha. split.
  - intros Hp i Hi. apply (testbit_high_zero a 52); [exact Hp|lia].
  - intros H. unfold phys. destruct (Z_lt_dec a P52); [unfold u64 in *; lia|exfalso].
    assert (Hl : 52 <= Z.log2 a < 64).
    { split; [apply Z.log2_le_pow2; unfold P52 in *; lia|].
      apply Z.log2_lt_pow2; unfold u64, W64, P52 in *; lia. }
    specialize (H (Z.log2 a) Hl). rewrite Z.bit_log2 in H; [discriminate|unfold P52 in *; lia].
Qed.

Ltac unf := unfold canonical, phys, u64, u16, P47, P48, P52, HI, W64, W63, W16 in *.
Ltac ulia := unf; lia.
Ltac unia := unf; nia.
