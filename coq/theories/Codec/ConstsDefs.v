(* C19 definitions (no proofs, so that `mismatches` can be evaluated even when the tables
   disagree): the implementation's constants (names from the source, values from the compiled
   crate: Gen/Consts_gen.v) against the manual table. *)
Require Import String List ZArith Bool.
From X86 Require Import Arch.ManualConsts Gen.Consts_gen.
Import ListNotations.
Open Scope string_scope. Open Scope Z_scope.

(* every implementation constant has the manual's value ... *)
Definition consts_match : bool :=
  forallb (fun nv => match lookup (fst nv) manual_consts with
                     | Some v => v =? snd nv | None => false end) impl_consts.
(* ... and the two tables name the same set (nothing in the manual table is missing from the
   crate, nothing in the crate is missing from the manual table) *)
Definition same_names : bool :=
  forallb (fun nv => match lookup (fst nv) impl_consts with Some _ => true | None => false end)
          manual_consts &&
  Nat.eqb (length impl_consts) (length manual_consts).
Definition mismatches : list (string * Z * option Z) :=
  flat_map (fun nv => match lookup (fst nv) manual_consts with
                      | Some v => if v =? snd nv then [] else [(fst nv, snd nv, Some v)]
                      | None => [(fst nv, snd nv, None)] end) impl_consts.

(* structural facts: single-bit flags are single bits, distinct names of one type do not
   collide except the documented HUGE_PAGE = PAT_4KIB_PAGE *)
Definition is_single_bit (v : Z) : bool := existsb (fun k => v =? 2 ^ Z.of_nat k) (seq 0 64).
Definition type_of (n : string) : string :=
  match index 0 "::" n with Some i => substring 0 i n | None => n end.
Definition collisions : list (string * string) :=
  flat_map (fun a => flat_map (fun b =>
     if String.eqb (type_of (fst a)) (type_of (fst b)) && negb (String.eqb (fst a) (fst b))
        && (snd a =? snd b) && String.ltb (fst a) (fst b) then [(fst a, fst b)] else []) impl_consts) impl_consts.
