(* C19: the small value types are exact codecs. *)
From X86 Require Import Base.Word Base.Bits Addr.Model Codec.Codec Arch.Manual Tables.Gdt Tables.GdtProofs.
Open Scope Z_scope.
Local Ltac Zify.zify_post_hook ::= Z.div_mod_to_equations.

Theorem priv_from_u16_spec v : priv_from_u16 v = if v <? 4 then Ok v else Panic.
Proof. reflexivity. Qed.

Theorem selector_codec i r : 0 <= i < 8192 -> 0 <= r < 4 ->
  sel_index (sel_new i r) = i /\ sel_rpl (sel_new i r) = Ok r /\ 0 <= sel_new i r < 65536.
Proof. intros Hi Hr. destruct (sel_new_value i r Hi Hr) as (_ & A & B & _ & C). auto. Qed.

Theorem selector_fields s r : 0 <= s < 65536 -> 0 <= r < 4 ->
  sel_index s = s / 8 /\ sel_rpl s = Ok (s mod 4) /\
  sel_set_rpl s r = Ok (s - s mod 4 + r) /\ sel_index (s - s mod 4 + r) = sel_index s.
Proof.
  intros Hs Hr. unfold sel_index, sel_rpl, sel_set_rpl, priv_from_u16.
  rewrite !Z.shiftr_div_pow2 by lia. change (2 ^ 3) with 8.
  rewrite get_bits_arith, set_bits_arith by (try lia; change (2 ^ (2 - 0)) with 4; lia).
  unfold bitsf. change (2 ^ (2 - 0)) with 4. change (2 ^ 0) with 1.
  splits; try lia.
  - rewrite Z.div_1_r. destruct (s mod 4 <? 4) eqn:E; [reflexivity|lia].
  - f_equal. lia.
Qed.

(* DR7: the four condition and four size fields are independent of each other and of the
   low 16 bits (where all the flag bits live) *)
Definition dr7_fields (v : Z) : list Z :=
  [v mod 65536; bitsf v 16 2; bitsf v 18 2; bitsf v 20 2; bitsf v 22 2; bitsf v 24 2; bitsf v 26 2;
   bitsf v 28 2; bitsf v 30 2; v / 4294967296].
Definition cond_idx (n : Z) : nat := if n =? 0 then 1 else if n =? 1 then 3 else if n =? 2 then 5 else 7.
Definition size_idx (n : Z) : nat := if n =? 0 then 2 else if n =? 1 then 4 else if n =? 2 then 6 else 8.
Definition upd_nth (l : list Z) (k : nat) (x : Z) : list Z := firstn k l ++ x :: skipn (S k) l.

Ltac dr7_solve :=
  unfold dr7_fields, upd_nth, bitsf, cond_idx, size_idx; cbn [firstn skipn app Z.eqb Pos.eqb];
  change (2 ^ 2) with 4; change (2 ^ 16) with 65536; change (2 ^ 18) with 262144;
  change (2 ^ 20) with 1048576; change (2 ^ 22) with 4194304; change (2 ^ 24) with 16777216;
  change (2 ^ 26) with 67108864; change (2 ^ 28) with 268435456; change (2 ^ 30) with 1073741824;
  repeat (f_equal; try lia).

Theorem dr7_set_condition_spec v n c : 0 <= v -> 0 <= n < 4 -> 0 <= c < 4 ->
  exists v', dr7_set_condition v n c = Ok v' /\ 0 <= v' /\
    dr7_fields v' = upd_nth (dr7_fields v) (cond_idx n) c /\ dr7_condition v' n = c.
Proof.
  intros Hv Hn Hc. unfold dr7_set_condition, dr7_condition, cond_lsb.
  assert (n = 0 \/ n = 1 \/ n = 2 \/ n = 3) as [-> | [-> | [-> | ->]]] by lia;
  cbn [Z.add Z.mul Pos.add Pos.mul Pos.succ]; rewrite set_bits_arith by (try lia; change (2 ^ (18 - 16)) with 4; change (2 ^ (22 - 20)) with 4; change (2 ^ (26 - 24)) with 4; change (2 ^ (30 - 28)) with 4; lia);
  eexists; (split; [reflexivity|]); rewrite get_bits_arith by lia; unfold bitsf;
  change (18 - 16) with 2; change (22 - 20) with 2; change (26 - 24) with 2; change (30 - 28) with 2;
  change (2 ^ 2) with 4; change (2 ^ 16) with 65536; change (2 ^ 20) with 1048576;
  change (2 ^ 24) with 16777216; change (2 ^ 28) with 268435456.
  all: split; [lia|]; split; [dr7_solve|lia].
Qed.

Theorem dr7_set_size_spec v n c : 0 <= v -> 0 <= n < 4 -> 0 <= c < 4 ->
  exists v', dr7_set_size v n c = Ok v' /\ 0 <= v' /\
    dr7_fields v' = upd_nth (dr7_fields v) (size_idx n) c /\ dr7_size v' n = c.
Proof.
  intros Hv Hn Hc. unfold dr7_set_size, dr7_size, size_lsb.
  assert (n = 0 \/ n = 1 \/ n = 2 \/ n = 3) as [-> | [-> | [-> | ->]]] by lia;
  cbn [Z.add Z.mul Pos.add Pos.mul Pos.succ]; rewrite set_bits_arith by (try lia; change (2 ^ (20 - 18)) with 4; change (2 ^ (24 - 22)) with 4; change (2 ^ (28 - 26)) with 4; change (2 ^ (32 - 30)) with 4; lia);
  eexists; (split; [reflexivity|]); rewrite get_bits_arith by lia; unfold bitsf;
  change (20 - 18) with 2; change (24 - 22) with 2; change (28 - 26) with 2; change (32 - 30) with 2;
  change (2 ^ 2) with 4; change (2 ^ 18) with 262144; change (2 ^ 22) with 4194304;
  change (2 ^ 26) with 67108864; change (2 ^ 30) with 1073741824.
  all: split; [lia|]; split; [dr7_solve|lia].
Qed.

Theorem dr7_field_accessors v n : 0 <= v -> 0 <= n < 4 ->
  dr7_condition v n = nth (cond_idx n) (dr7_fields v) 0 /\
  dr7_size v n = nth (size_idx n) (dr7_fields v) 0.
Proof.
  intros Hv Hn. unfold dr7_condition, dr7_size, cond_lsb, size_lsb. rewrite !get_bits_arith by lia.
  assert (n = 0 \/ n = 1 \/ n = 2 \/ n = 3) as [-> | [-> | [-> | ->]]] by lia; split; reflexivity.
Qed.

Theorem dr7_from_bits_spec b :
  dr7_from_bits b = (if Z.land b (not64 DR7_VALID) =? 0 then Some b else None) /\
  dr7_from_bits_truncate b = Z.land b DR7_VALID /\ DR7_VALID = 0xFFFF2BFF.
Proof. splits; reflexivity. Qed.

Theorem small_codecs :
  (forall p, pcid_new p = if p <? 4096 then Some p else None) /\
  (forall n, dar_new n = if n <? 4 then Some n else None) /\
  (forall v e, exception_vector_try_from v = Some e -> e = v /\ In v exception_vectors) /\
  (forall v, In v exception_vectors -> exception_vector_try_from v = Some v) /\
  (forall b t, pat_from_bits b = Some t -> t = b /\ In b [0; 1; 4; 5; 6; 7]) /\
  (forall b, In b [0; 1; 4; 5; 6; 7] -> pat_from_bits b = Some b).
Proof.
  splits; try reflexivity.
  - intros v e. unfold exception_vector_try_from. destruct (existsb (Z.eqb v) exception_vectors) eqn:E; [|discriminate].
    intros [= <-]. split; [reflexivity|]. apply existsb_exists in E. destruct E as [x [Hin Hx]].
    apply Z.eqb_eq in Hx. subst x. exact Hin.
  - intros v Hin. unfold exception_vector_try_from.
    assert (E : existsb (Z.eqb v) exception_vectors = true) by (apply existsb_exists; exists v; split; [assumption|apply Z.eqb_refl]).
    rewrite E. reflexivity.
  - intros b t. unfold pat_from_bits. destruct (existsb (Z.eqb b) [0; 1; 4; 5; 6; 7]) eqn:E; [|discriminate].
    intros [= <-]. split; [reflexivity|]. apply existsb_exists in E. destruct E as [x [Hin Hx]].
    apply Z.eqb_eq in Hx. subst x. exact Hin.
  - intros b Hin. unfold pat_from_bits.
    assert (E : existsb (Z.eqb b) [0; 1; 4; 5; 6; 7] = true) by (apply existsb_exists; exists b; split; [assumption|apply Z.eqb_refl]).
    rewrite E. reflexivity.
Qed.

(* the exception vectors are the manual's: 0..31 minus the reserved ones and 9 *)
Theorem exception_vectors_are_architectural v : 0 <= v < 256 ->
  (In v exception_vectors <-> v < 32 /\ ~ In v reserved_vectors /\ v <> 9).
Proof.
  intros Hv. unfold exception_vectors, reserved_vectors. cbn [In]. lia.
Qed.

Theorem selector_error_code_fields v : 0 <= v ->
  sec_new v = (if 65535 <? v then None else Some v) /\
  sec_new_truncate v = v mod 65536 /\
  (forall t, 0 <= t < 65536 ->
     sec_external t = Z.odd t /\ sec_index t = t / 8 /\
     sec_table t = (if (t / 2) mod 4 =? 0 then 0 else if (t / 2) mod 4 =? 2 then 2 else 1) /\
     (sec_is_null t = true <-> t = 0)).
Proof.
  intros Hv. splits; try reflexivity. intros t Ht. splits.
  - unfold sec_external. apply Z.bit0_odd.
  - unfold sec_index. rewrite get_bits_arith by lia. unfold bitsf. change (2 ^ 3) with 8.
    change (2 ^ (16 - 3)) with 8192. lia.
  - unfold sec_table. rewrite get_bits_arith by lia. unfold bitsf. change (2 ^ 1) with 2.
    change (2 ^ (3 - 1)) with 4. reflexivity.
  - unfold sec_is_null. lia.
Qed.
