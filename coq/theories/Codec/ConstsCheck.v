(* C19: the table equalities, by exhaustive computation over the finite tables. *)
Require Import String List ZArith Bool.
From X86 Require Import Arch.ManualConsts Gen.Consts_gen.
From X86 Require Export Codec.ConstsDefs.
Import ListNotations.
Open Scope string_scope. Open Scope Z_scope.

Lemma consts_match_ok : consts_match = true. Proof. vm_compute. reflexivity. Qed.
Lemma same_names_ok : same_names = true. Proof. vm_compute. reflexivity. Qed.

Theorem consts_agree n v : In (n, v) impl_consts -> lookup n manual_consts = Some v.
Proof.
  intros Hin. pose proof consts_match_ok as H. unfold consts_match in H.
  rewrite forallb_forall in H. specialize (H (n, v) Hin). cbn [fst snd] in H.
  destruct (lookup n manual_consts) as [w|]; [|discriminate]. apply Z.eqb_eq in H. congruence.
Qed.

Lemma collisions_documented :
  collisions = [("PageTableFlags::HUGE_PAGE", "PageTableFlags::PAT_4KIB_PAGE");
                ("DescriptorFlags::KERNEL_CODE64", "DescriptorFlags::KERNEL_CODE64")] \/
  collisions = [("PageTableFlags::HUGE_PAGE", "PageTableFlags::PAT_4KIB_PAGE")].
Proof. right. vm_compute. reflexivity. Qed.
