(* Small value types: segment selectors, privilege levels, DR7 fields, PCID, exception
   vectors, PAT types, selector error codes (C19), used by the wrapper models too. *)
From X86 Require Export Base.Word.
Open Scope Z_scope.

Definition land_not (a m : Z) : Z := Z.land a (not64 m).       (* a & !m on u64 *)

Definition priv_from_u16 (v : Z) : res Z := if v <? 4 then Ok v else Panic.

(* SegmentSelector(u16) *)
Definition sel_new (index rpl : Z) : Z := Z.lor (wrap16 (Z.shiftl index 3)) rpl.
Definition sel_index (s : Z) : Z := Z.shiftr s 3.
Definition sel_rpl (s : Z) : res Z := priv_from_u16 (get_bits s 0 2).
Definition sel_set_rpl (s rpl : Z) : res Z := set_bits s 0 2 rpl.

(* DR7 *)
Definition DR7_FLAGS_ALL : Z := 11263.                    (* 0x2BFF *)
Definition DR7_VALID : Z := 4294901760 + 11263.           (* ((1<<32)-(1<<16)) | flags = 0xFFFF2BFF *)
Definition dr7_from_bits (b : Z) : option Z :=
  if land_not b DR7_VALID =? 0 then Some b else None.
Definition dr7_from_bits_truncate (b : Z) : Z := Z.land b DR7_VALID.
Definition dr7_flags (b : Z) : Z := Z.land b DR7_FLAGS_ALL.
Definition dr7_insert (b f : Z) : Z := Z.lor b f.
Definition dr7_remove (b f : Z) : Z := Z.land b (not64 f).
Definition dr7_toggle (b f : Z) : Z := Z.lxor b f.
Definition dr7_set_flags (b f : Z) (v : bool) : Z := if v then dr7_insert b f else dr7_remove b f.
Definition cond_lsb (n : Z) : Z := 16 + 4 * n.
Definition size_lsb (n : Z) : Z := 18 + 4 * n.
Definition dr7_condition (b n : Z) : Z := get_bits b (cond_lsb n) (cond_lsb n + 2).
Definition dr7_set_condition (b n c : Z) : res Z := set_bits b (cond_lsb n) (cond_lsb n + 2) c.
Definition dr7_size (b n : Z) : Z := get_bits b (size_lsb n) (size_lsb n + 2).
Definition dr7_set_size (b n c : Z) : res Z := set_bits b (size_lsb n) (size_lsb n + 2) c.
Definition dar_new (n : Z) : option Z := if n <? 4 then Some n else None.
Definition bp_cond_from_bits (b : Z) : option Z := if b <? 4 then Some b else None.
Definition bp_size_from_bits (b : Z) : option Z := if b <? 4 then Some b else None.
Definition bp_size_new (sz : Z) : option Z :=
  if sz =? 1 then Some 0 else if sz =? 2 then Some 1 else if sz =? 8 then Some 2
  else if sz =? 4 then Some 3 else None.
Definition dr6_trap (n : Z) : Z := 2 ^ n.
Definition dr7_local_enable (n : Z) : Z := 2 ^ (2 * n).
Definition dr7_global_enable (n : Z) : Z := 2 ^ (2 * n + 1).

Definition pcid_new (p : Z) : option Z := if p <? 4096 then Some p else None.

Definition exception_vectors : list Z :=
  [0; 1; 2; 3; 4; 5; 6; 7; 8; 10; 11; 12; 13; 14; 16; 17; 18; 19; 20; 21; 28; 29; 30].
Definition exception_vector_try_from (v : Z) : option Z :=
  if existsb (Z.eqb v) exception_vectors then Some v else None.

Definition pat_from_bits (b : Z) : option Z :=
  if existsb (Z.eqb b) [0; 1; 4; 5; 6; 7] then Some b else None.

(* SelectorErrorCode *)
Definition sec_new (v : Z) : option Z := if 65535 <? v then None else Some v.
Definition sec_new_truncate (v : Z) : Z := v mod 65536.
Definition sec_external (f : Z) : bool := Z.testbit f 0.
(* 0 Gdt, 1 Idt, 2 Ldt *)
Definition sec_table (f : Z) : Z :=
  let t := get_bits f 1 3 in if t =? 0 then 0 else if t =? 2 then 2 else 1.
Definition sec_index (f : Z) : Z := get_bits f 3 16.
Definition sec_is_null (f : Z) : bool := f =? 0.
