(* Correspondence interface of the small-codec engine ("codec") for C19. *)
From X86 Require Import Codec.Codec Addr.Model.
Open Scope Z_scope.

Definition run_codec (oc : bool) (c : list Z) : list Z :=
  match c with
  | [1; i; r] =>
      match priv_from_u16 (trunc16 r) with
      | Ok rp => let s := sel_new (trunc16 i) rp in [s; sel_index s] ++ enc_res (sel_rpl s)
      | Panic => [PANIC]
      end
  | [2; raw; r] =>
      let s := trunc16 raw in
      match priv_from_u16 (trunc16 r) with
      | Ok rp => [sel_index s] ++ enc_res (sel_rpl s) ++ enc_res (sel_set_rpl s rp)
      | Panic => [PANIC]
      end
  | [3; v] => enc_res (priv_from_u16 (trunc16 v))
  | [4; bits; n; cd; sz; fl] =>
      if negb ((n <? 4) && (cd <? 4) && (sz <? 4)) then [PANIC] else
      let v := dr7_from_bits_truncate bits in
      let f := Z.land fl DR7_FLAGS_ALL in
      enc_opt (dr7_from_bits bits) ++
      [v; dr7_flags v; dr7_condition v n; dr7_size v n] ++
      enc_res (dr7_set_condition v n cd) ++ enc_res (dr7_set_size v n sz) ++
      [dr7_insert v f; dr7_remove v f; dr7_toggle v f; dr7_set_flags v f true; dr7_set_flags v f false]
  | [5; n] => enc_opt (dar_new (n mod 256))
  | [6; b] => enc_opt (bp_cond_from_bits b) ++ enc_opt (bp_size_from_bits b) ++ enc_opt (bp_size_new b)
  | [7; p] => enc_opt (pcid_new (trunc16 p))
  | [8; v] => enc_opt (exception_vector_try_from (v mod 256))
  | [9; b] => enc_opt (pat_from_bits (b mod 256))
  | [10; v] =>
      let t := sec_new_truncate v in
      enc_opt (sec_new v) ++ [t; b2z (sec_external t); sec_table t; sec_index t; b2z (sec_is_null t)]
  | [11; n] => if n <? 4 then [dr6_trap n; dr7_local_enable n; dr7_global_enable n] else [PANIC]
  | _ => [-99]
  end.
