(* C09 - Mappers touch only page-table memory, zero new tables, allocate only as needed.
   Memory-level facts are about the slot-by-slot model Paging/Mapped.v; the allocation counts
   also about the abstract tree.  Partial: that every written slot lies in a frame that is a
   page table of the hierarchy is shown per call (the slot is the one the walk reached) but
   the global statement over histories, and all of it for the recursive mapper's addresses, is
   covered by the correspondence check (memory checksums of every data frame), not a theorem.
   As built: for the MappedPageTable/OffsetPageTable memory model the footprint and allocator
   statements ARE theorems for map_to, unmap, update_flags, set_flags_p*_entry and clean_up
   (below); what remains covered only by the correspondence is RecursivePageTable. *)
From X86 Require Import Paging.Mapped Paging.MemProofs Paging.Tree Paging.TreeProofs Paging.Refine Paging.RefineOps Paging.RefineParent Paging.RefineClean Paging.Recursive Paging.RecRead Paging.RecMap.
Open Scope Z_scope.

Theorem C09_new_table_completely_zeroed : forall s slot pf s' t i,
  rd s slot = 0 -> 0 <= i < 512 ->
  create_next_table s slot pf = Ok (s', CTable t) ->
  0 <= t -> t mod 4096 = 0 ->
  rd s' (t + 8 * i) = 0.
Proof. exact create_next_table_zeroed. Qed.
Print Assumptions C09_new_table_completely_zeroed.

Theorem C09_zeroing_touches_only_the_new_frame : forall s f b, 0 <= f -> f mod 4096 = 0 -> 0 <= b ->
  (b < f \/ f + 4096 <= b) -> rd (zero_table s f) b = rd s b.
Proof. exact zero_table_elsewhere. Qed.
Print Assumptions C09_zeroing_touches_only_the_new_frame.

(* one allocator call exactly when the parent entry is unused, none otherwise; never a release *)
Theorem C09_create_next_table_allocates_only_when_needed : forall s slot pf s' c,
  create_next_table s slot pf = Ok (s', c) ->
  freed s' = freed s /\ root s' = root s /\
  (if rd s slot =? 0 then nalloc s' = nalloc s + 1 else nalloc s' = nalloc s).
Proof. exact create_next_table_alloc. Qed.
Print Assumptions C09_create_next_table_allocates_only_when_needed.

(* at most 1/2/3 frames for 1 GiB / 2 MiB / 4 KiB (path lengths 2/3/4); none when the tables exist *)
Theorem C09_map_requests_at_most_one_frame_per_level : forall rec idxs ch w frame page pf a ch' a' r,
  map_path rec ch idxs w frame page pf a = (ch', a', r) ->
  snd a <= snd a' <= snd a + Z.of_nat (length idxs - 1).
Proof. exact map_path_alloc_count. Qed.
Print Assumptions C09_map_requests_at_most_one_frame_per_level.

Theorem C09_no_request_when_tables_exist : forall rec idxs ch w frame page pf a ch' a' r n,
  idxs <> [] -> slot_at ch idxs = inl n ->
  map_path rec ch idxs w frame page pf a = (ch', a', r) -> a' = a.
Proof.
  intros rec idxs ch w frame page pf a ch' a' r n Hne Hs H.
  pose proof (map_path_outcome rec idxs ch w frame page pf a ch' a' r Hne H) as Ho.
  rewrite Hs in Ho. destruct n; apply Ho.
Qed.
Print Assumptions C09_no_request_when_tables_exist.

(* unmap / update_flags: allocator untouched, at most the one slot the walk reached is written *)
Theorem C09_unmap_footprint : forall s k page,
  same_alloc s (fst (unmap s k page)) /\
  match descend s k page with
  | inr _ => fst (unmap s k page) = s
  | inl slot => forall b, key b <> key slot -> rd (fst (unmap s k page)) b = rd s b
  end.
Proof. exact unmap_footprint. Qed.
Print Assumptions C09_unmap_footprint.

Theorem C09_update_flags_footprint : forall s k page flags,
  same_alloc s (fst (update_flags s k page flags)) /\
  match descend s k page with
  | inr _ => fst (update_flags s k page flags) = s
  | inl slot => forall b, key b <> key slot -> rd (fst (update_flags s k page flags)) b = rd s b
  end.
Proof. exact update_flags_footprint. Qed.
Print Assumptions C09_update_flags_footprint.

(* map_to (MappedPageTable / OffsetPageTable memory model) writes only inside the level-4 table,
   the page tables of the hierarchy and frames it obtained from the allocator: every other word
   of physical memory -- mapped data frames included -- reads the same afterwards *)
Theorem C09_map_to_writes_only_table_and_allocator_frames : forall s ch k page frame flags pf,
  0 <= k <= 2 ->
  rep 4 s ch (root s) -> tframe (root s) -> sep s (root s) ch -> pflags_ok pf ->
  leaf_ok (Z.to_nat (k + 1)) (leaf_word k frame flags) ->
  exists s' o, map_to s k page frame flags pf = Ok (s', o) /\
    forall a, 0 <= a -> ~ in_frames (root s :: frames_of ch ++ va s) a -> rd s' a = rd s a.
Proof.
  intros s ch k page frame flags pf Hk Hrep Ht Hsep Hpf Hw.
  destruct (map_to_refines s ch k page frame flags pf Hk Hrep Ht Hsep Hpf Hw)
    as (s' & o & ch' & a' & r & Hm & _ & _ & _ & _ & _ & _ & _ & Hfr).
  exists s', o. split; [exact Hm|exact Hfr].
Qed.
Print Assumptions C09_map_to_writes_only_table_and_allocator_frames.

(* who requests and who releases frames (memory model, any state representing a hierarchy) *)
Theorem C09_map_to_releases_nothing : forall s ch k page frame flags pf,
  0 <= k <= 2 ->
  rep 4 s ch (root s) -> tframe (root s) -> sep s (root s) ch -> pflags_ok pf ->
  leaf_ok (Z.to_nat (k + 1)) (leaf_word k frame flags) ->
  exists s' o, map_to s k page frame flags pf = Ok (s', o) /\ freed s' = freed s.
Proof.
  intros s ch k page frame flags pf Hk Hrep Ht Hsep Hpf Hw.
  destruct (map_to_refines s ch k page frame flags pf Hk Hrep Ht Hsep Hpf Hw)
    as (s' & o & ch' & a' & r & Hm & _ & _ & _ & _ & Hf & _).
  exists s', o. split; [exact Hm|exact Hf].
Qed.
Print Assumptions C09_map_to_releases_nothing.

Theorem C09_unmap_touches_no_allocator_and_only_the_hierarchy : forall s ch k page,
  0 <= k <= 2 -> rep 4 s ch (root s) -> tframe (root s) -> sep s (root s) ch ->
  same_alloc s (fst (unmap s k page)) /\
  (forall a, 0 <= a -> ~ in_frames (root s :: frames_of ch) a -> rd (fst (unmap s k page)) a = rd s a).
Proof.
  intros s ch k page Hk Hrep Ht Hsep.
  destruct (unmap_refines s ch k page Hk Hrep Ht Hsep) as (_ & _ & _ & Hsa & Ho). split; [exact Hsa|exact Ho].
Qed.
Print Assumptions C09_unmap_touches_no_allocator_and_only_the_hierarchy.

Theorem C09_update_flags_touches_no_allocator_and_only_the_hierarchy : forall s ch k page flags,
  0 <= k <= 2 -> rep 4 s ch (root s) -> tframe (root s) -> sep s (root s) ch ->
  0 <= flags < W64 -> Z.testbit flags 0 = true ->
  same_alloc s (fst (update_flags s k page flags)) /\
  (forall a, 0 <= a -> ~ in_frames (root s :: frames_of ch) a -> rd (fst (update_flags s k page flags)) a = rd s a).
Proof.
  intros s ch k page flags Hk Hrep Ht Hsep Hfl Hp.
  destruct (update_flags_refines s ch k page flags Hk Hrep Ht Hsep Hfl Hp) as (_ & _ & _ & Hsa & Ho).
  split; [exact Hsa|exact Ho].
Qed.
Print Assumptions C09_update_flags_touches_no_allocator_and_only_the_hierarchy.

Theorem C09_clean_up_requests_nothing_and_writes_only_the_hierarchy : forall s ch rs re s',
  rep 4 s ch (root s) -> tframe (root s) -> sep s (root s) ch ->
  clean_up_addr_range s rs re = Ok s' ->
  alloc s' = alloc s /\ nalloc s' = nalloc s /\
  (forall a, 0 <= a -> ~ in_frames (root s :: frames_of ch) a -> rd s' a = rd s a).
Proof.
  intros s ch rs re s' Hrep Ht Hsep H.
  destruct (clean_up_addr_range_safe s ch rs re s' Hrep Ht Hsep H) as (ch' & fr & _ & _ & _ & _ & _ & Ha & Hn & Ho).
  split; [exact Ha|]. split; [exact Hn|exact Ho].
Qed.
Print Assumptions C09_clean_up_requests_nothing_and_writes_only_the_hierarchy.

(* RecursivePageTable::map_to touches what MappedPageTable's map_to touches: it IS that function
   on table memory (with PRESENT | WRITABLE added to new parent entries), so the footprint,
   zeroing and allocation theorems above carry over to it *)
Theorem C09_recursive_map_to_has_the_mapped_footprint : forall s ch k page frame flags pf,
  0 <= k <= 2 -> 0 <= rec_index s < 512 -> repx (rec_index s) s ch -> tframe (root s) ->
  sep s (root s) ch -> pflags_ok pf -> p4_index page <> rec_index s ->
  rmap_to s k page frame flags pf = map_to_rc true s k page frame flags pf.
Proof. exact rmap_to_eq. Qed.
Print Assumptions C09_recursive_map_to_has_the_mapped_footprint.
