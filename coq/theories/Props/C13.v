(* C13 - set_general_handler installs, per vector, a stub that reports that vector.
   The arm table of the macro is regenerated from the source on every run
   (tools/gh_extract.py -> Gen/General_gen.v); the theorems are about its expansion.
   Partial: that the code LLVM emits for an `extern "x86-interrupt"` function hands the pushed
   frame and error code to the stub body and returns with iretq is observed by entering every
   compiled stub (correspondence check), not proved; delivery by a real CPU (privilege and IST
   switches) is not modelled. *)
From X86 Require Import Tables.General Tables.GeneralProofs Machine.AsmPins Machine.AsmPinsC13.
Open Scope Z_scope.

Theorem C13_installs_exactly_the_nonreserved_vectors_in_range : forall contains,
  exists g, set_general_handler contains = Ok g /\ length g = 256%nat /\
    forall v, 0 <= v < 256 ->
      nth (Z.to_nat v) g None =
        if contains v && negb (reserved_vector v) then Some (stub_of v) else None.
Proof. exact set_general_handler_spec. Qed.
Print Assumptions C13_installs_exactly_the_nonreserved_vectors_in_range.

Theorem C13_expansion_enumerates_each_vector_once :
  map idx_of (all_bits 8) = map Z.of_nat (seq 0 256) /\ gh_contains_guard = true.
Proof. exact (conj indices_enumerated guard_present). Qed.
Print Assumptions C13_expansion_enumerates_each_vector_once.

Theorem C13_stub_reports_its_vector : forall v k rsp_off rflags err, 0 <= v < 256 ->
  enter_stub (stub_of v) v k rsp_off rflags err =
    [1; v; (if arch_has_err v then 1 else 0); (if arch_has_err v then err else 0); 1; 1; rsp_off; 1] ++
    (if diverging_vector v then [1] else [0; k; rsp_off; Z.land rflags FLAG_MASK; 1]).
Proof. exact enter_stub_spec. Qed.
Print Assumptions C13_stub_reports_its_vector.

Theorem C13_frame_value_has_the_hardware_layout : isf_layout = ([0; 8; 10; 16; 24; 32; 34], 40).
Proof. exact isf_layout_spec. Qed.
Print Assumptions C13_frame_value_has_the_hardware_layout.

(* iretq pushes SS, RSP, RFLAGS, CS, RIP in that order and executes IRETQ (asm! table
   regenerated from the source) *)
Theorem C13_iretq_sequence_pinned : pins_C13 = true.
Proof. exact pins_C13_ok. Qed.
Print Assumptions C13_iretq_sequence_pinned.

(* every asm! block in this property's domain is, in the current source, exactly the block the
   model was written against: template, operand bindings and the complete option list; and no
   block of the crate is `pure`, `nostack` around a push/pop, or `nomem` with a memory operand *)
Theorem C13_asm_blocks_exact : pins_C13_exact = true.
Proof. exact pins_C13_exact_ok. Qed.
Print Assumptions C13_asm_blocks_exact.
