(* C06 - Alignment and containment are exact. *)
From X86 Require Import Base.Word Base.Bits Addr.Model Addr.Canon Addr.Align.
Open Scope Z_scope.

(* panics exactly when the alignment is not a power of two ... *)
Theorem C06_not_pow2_panics : forall a al,
  (align_down a al = Panic <-> is_pow2 al = false) /\
  (is_pow2 al = false -> align_up a al = Panic).
Proof. intros a al. exact (conj (align_down_panic_iff a al) (align_up_not_pow2 a al)). Qed.
Print Assumptions C06_not_pow2_panics.

Theorem C06_pow2_recogniser : forall al,
  is_pow2 al = true <-> exists k, 0 <= k < 64 /\ al = 2 ^ k.
Proof. exact is_pow2_spec. Qed.
Print Assumptions C06_pow2_recogniser.

(* ... and otherwise returns the greatest / least multiple not above / below the input *)
Theorem C06_align_down : forall a k, u64 a -> 0 <= k < 64 ->
  align_down a (2 ^ k) = Ok (round_down a (2 ^ k)).
Proof. exact align_down_spec. Qed.
Print Assumptions C06_align_down.

Theorem C06_align_up : forall a k, u64 a -> 0 <= k < 64 ->
  align_up a (2 ^ k) =
  if round_up a (2 ^ k) <? 2 ^ 64 then Ok (round_up a (2 ^ k)) else Panic.
Proof. exact align_up_spec. Qed.
Print Assumptions C06_align_up.

Theorem C06_round_down_is_greatest_multiple : forall a al m, 0 < al ->
  (round_down a al) mod al = 0 /\ round_down a al <= a < round_down a al + al /\
  (m mod al = 0 -> m <= a -> m <= round_down a al).
Proof.
  intros a al m H. exact (conj (round_down_multiple a al H) (conj (round_down_le a al H)
                          (round_down_greatest a al m H))).
Qed.
Print Assumptions C06_round_down_is_greatest_multiple.

Theorem C06_round_up_is_least_multiple : forall a al m, 0 < al ->
  (round_up a al) mod al = 0 /\ a <= round_up a al < a + al /\
  (m mod al = 0 -> a <= m -> round_up a al <= m).
Proof.
  intros a al m H. exact (conj (round_up_multiple a al H) (conj (round_up_ge a al H)
                          (round_up_least a al m H))).
Qed.
Print Assumptions C06_round_up_is_least_multiple.

(* virtual addresses, alignments up to 2^47: the greatest / least canonical multiple *)
Theorem C06_virt_align_down : forall a k, canonical a -> 0 <= k <= 47 ->
  va_align_down a (2 ^ k) = Ok (round_down a (2 ^ k)) /\ canonical (round_down a (2 ^ k)).
Proof. exact va_align_down_spec. Qed.
Print Assumptions C06_virt_align_down.

Theorem C06_virt_align_up : forall a k, canonical a -> 0 <= k <= 47 ->
  va_align_up a (2 ^ k) =
  if round_up a (2 ^ k) <? 2 ^ 64 then Ok (va_round_up a (2 ^ k)) else Panic.
Proof. exact va_align_up_spec. Qed.
Print Assumptions C06_virt_align_up.

Theorem C06_virt_round_up_is_least_canonical_multiple : forall a k m, canonical a ->
  0 <= k <= 47 -> round_up a (2 ^ k) < 2 ^ 64 ->
  canonical (va_round_up a (2 ^ k)) /\ (va_round_up a (2 ^ k)) mod 2 ^ k = 0 /\
  a <= va_round_up a (2 ^ k) /\
  (canonical m -> m mod 2 ^ k = 0 -> a <= m -> va_round_up a (2 ^ k) <= m).
Proof. exact va_round_up_least_canonical. Qed.
Print Assumptions C06_virt_round_up_is_least_canonical_multiple.

Theorem C06_virt_is_aligned : forall a k, canonical a -> 0 <= k <= 47 ->
  va_is_aligned a (2 ^ k) = Ok (a mod 2 ^ k =? 0).
Proof. exact va_is_aligned_spec. Qed.
Print Assumptions C06_virt_is_aligned.

(* physical addresses: overflow bound 2^52 *)
Theorem C06_phys_align : forall a k, phys a -> 0 <= k < 64 ->
  (pa_align_down a (2 ^ k) = Ok (round_down a (2 ^ k)) /\ phys (round_down a (2 ^ k))) /\
  pa_align_up a (2 ^ k) = (if round_up a (2 ^ k) <? 2 ^ 52 then Ok (round_up a (2 ^ k)) else Panic) /\
  pa_is_aligned a (2 ^ k) = Ok (a mod 2 ^ k =? 0).
Proof.
  intros a k Hp Hk. exact (conj (pa_align_down_spec a k Hp Hk) (conj (pa_align_up_spec a k Hp Hk)
                           (pa_is_aligned_spec a k Hp Hk))).
Qed.
Print Assumptions C06_phys_align.

(* containing page / frame; construction from a start address *)
Theorem C06_page_containing : forall sz a, page_size sz -> canonical a ->
  exists p, page_containing sz a = Ok p /\ canonical p /\ p mod sz = 0 /\ p <= a < p + sz.
Proof. exact page_containing_spec. Qed.
Print Assumptions C06_page_containing.

Theorem C06_page_from_start : forall sz a, page_size sz -> canonical a ->
  page_from_start sz a = Ok (if a mod sz =? 0 then Some a else None).
Proof. exact page_from_start_spec. Qed.
Print Assumptions C06_page_from_start.

Theorem C06_frame_containing : forall sz a, page_size sz -> phys a ->
  exists p, frame_containing sz a = Ok p /\ phys p /\ p mod sz = 0 /\ p <= a < p + sz.
Proof. exact frame_containing_spec. Qed.
Print Assumptions C06_frame_containing.

Theorem C06_frame_from_start : forall sz a, page_size sz -> phys a ->
  frame_from_start sz a = Ok (if a mod sz =? 0 then Some a else None).
Proof. exact frame_from_start_spec. Qed.
Print Assumptions C06_frame_from_start.
