(* C18 - Port objects perform exactly one access of their width on their port. *)
From X86 Require Import Base.Word Machine.Wrappers Machine.Proofs Machine.AsmPins Machine.AsmPinsC18.
Open Scope Z_scope.

Theorem C18_read_is_one_in : forall w p s,
  port_read w p s =
  Ok (device_value (port_seed s) p (port_seq s) w,
      ev [E_IN; w; p; device_value (port_seed s) p (port_seq s) w]
         (set_port (port_seed s) (port_seq s + 1) s)).
Proof. exact port_read_spec. Qed.
Print Assumptions C18_read_is_one_in.

Theorem C18_write_is_one_out : forall w p v s, port_write w p v s = Ok (tt, ev [E_OUT; w; p; v] s).
Proof. exact port_write_spec. Qed.
Print Assumptions C18_write_is_one_out.

(* exactly one port instruction of that width on that port, the value delivered/transferred
   exactly, nothing else in the machine state changes *)
Theorem C18_footprint : forall w p v s, 0 <= w ->
  (exists r s1, port_read w p s = Ok (r, s1) /\ log s1 = [E_IN; w; p; r] :: log s /\
      cr s1 = cr s /\ dr s1 = dr s /\ msr s1 = msr s /\ iflag s1 = iflag s /\ 0 <= r < 2 ^ w) /\
  (exists s1, port_write w p v s = Ok (tt, s1) /\ log s1 = [E_OUT; w; p; v] :: log s /\
      cr s1 = cr s /\ dr s1 = dr s /\ msr s1 = msr s /\ iflag s1 = iflag s).
Proof. exact port_access_footprint. Qed.
Print Assumptions C18_footprint.

(* in/out of the three widths on DX with AL/AX/EAX, options(nomem): no memory operand *)
Theorem C18_asm_blocks_as_modelled : pins_C18 = true.
Proof. exact pins_C18_ok. Qed.
Print Assumptions C18_asm_blocks_as_modelled.

(* every asm! block in this property's domain is, in the current source, exactly the block the
   model was written against: template, operand bindings and the complete option list; and no
   block of the crate is `pure`, `nostack` around a push/pop, or `nomem` with a memory operand *)
Theorem C18_asm_blocks_exact : pins_C18_exact = true.
Proof. exact pins_C18_exact_ok. Qed.
Print Assumptions C18_asm_blocks_exact.

(* each of the six port access functions is its asm! block and nothing else: no statement that
   could touch memory sits beside the IN / OUT (function bodies regenerated from the source) *)
Theorem C18_port_functions_are_their_asm_block : pins_C18_shapes = true.
Proof. exact pins_C18_shapes_ok. Qed.
Print Assumptions C18_port_functions_are_their_asm_block.
