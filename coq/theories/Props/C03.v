(* C03 - Address values are always valid: canonical virtual, 52-bit physical.
   Statements only; proofs are in Addr/Canon.v, Addr/Reach.v. *)
From X86 Require Import Base.Word Addr.Model Addr.Canon Addr.Align Addr.Reach.
Open Scope Z_scope.

(* every virtual address obtainable by any finite program of safe operations is canonical *)
Theorem C03_reachable_virtual_canonical : forall v, ReachVA v -> canonical v.
Proof. exact reach_va_valid. Qed.
Print Assumptions C03_reachable_virtual_canonical.

Theorem C03_reachable_physical_52bit : forall v, ReachPA v -> phys v.
Proof. exact reach_pa_valid. Qed.
Print Assumptions C03_reachable_physical_52bit.

(* "canonical" is literally: bits 48..63 equal bit 47; "phys": bits 52..63 clear *)
Theorem C03_canonical_is_sign_extension : forall a, u64 a ->
  (canonical a <-> forall i, 47 <= i < 64 -> Z.testbit a i = Z.testbit a 47).
Proof. exact canonical_sign_extended. Qed.
Print Assumptions C03_canonical_is_sign_extension.

Theorem C03_phys_is_bits_52_63_clear : forall a, u64 a ->
  (phys a <-> forall i, 52 <= i < 64 -> Z.testbit a i = false).
Proof. exact phys_bits. Qed.
Print Assumptions C03_phys_is_bits_52_63_clear.

(* checked constructors accept exactly the valid inputs and return them unchanged *)
Theorem C03_virt_checked_constructors : forall a, u64 a ->
  va_try_new a = (if canonicalb a then Some a else None) /\
  va_new a = (if canonicalb a then Ok a else Panic).
Proof. intros a Ha. split; [exact (va_try_new_spec a Ha)|exact (va_new_spec a Ha)]. Qed.
Print Assumptions C03_virt_checked_constructors.

Theorem C03_phys_checked_constructors : forall a, u64 a ->
  pa_try_new a = (if physb a then Some a else None) /\
  pa_new a = (if physb a then Ok a else Panic).
Proof. intros a Ha. split; [exact (pa_try_new_spec a Ha)|exact (pa_new_spec a Ha)]. Qed.
Print Assumptions C03_phys_checked_constructors.

(* truncating constructors: valid result, idempotent, agree with the checked ones on valid
   input, depend only on (and keep) the low 48 / 52 bits *)
Theorem C03_virt_truncate : forall a, u64 a ->
  canonical (va_new_truncate a) /\
  va_new_truncate (va_new_truncate a) = va_new_truncate a /\
  (canonical a -> va_new_truncate a = a) /\
  va_new_truncate a = va_new_truncate (a mod 2 ^ 48) /\
  (va_new_truncate a) mod 2 ^ 48 = a mod 2 ^ 48.
Proof.
  intros a Ha. pose proof (va_new_truncate_low48 a Ha) as [L1 L2].
  exact (conj (va_new_truncate_canonical a Ha) (conj (va_new_truncate_idem a Ha)
        (conj (va_new_truncate_id a) (conj L1 L2)))).
Qed.
Print Assumptions C03_virt_truncate.

Theorem C03_phys_truncate : forall a,
  phys (pa_new_truncate a) /\
  pa_new_truncate (pa_new_truncate a) = pa_new_truncate a /\
  (phys a -> pa_new_truncate a = a) /\
  pa_new_truncate a = pa_new_truncate (a mod 2 ^ 52) /\
  (pa_new_truncate a) mod 2 ^ 52 = a mod 2 ^ 52.
Proof.
  intros a. pose proof (pa_new_truncate_low52 a) as [L1 L2].
  exact (conj (pa_new_truncate_phys a) (conj (pa_new_truncate_idem a)
        (conj (pa_new_truncate_id a) (conj L1 L2)))).
Qed.
Print Assumptions C03_phys_truncate.

(* PageTableEntry::addr is total and keeps exactly bits 12..51 *)
Theorem C03_pte_addr : forall e, u64 e ->
  pte_addr e = Ok (e mod 2 ^ 52 - e mod 4096) /\ phys (e mod 2 ^ 52 - e mod 4096).
Proof. exact pte_addr_total. Qed.
Print Assumptions C03_pte_addr.
