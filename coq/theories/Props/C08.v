(* C08 - Page-table entries and tables encode exactly what was stored, in hardware layout.
   Partial: that rustc lays PageTable out as repr(C, align(4096)) over 512 repr(transparent)
   u64 is observed on the compiled artefact by the correspondence check, not proved. *)
From X86 Require Import Base.Word Addr.Model Addr.Canon Paging.Entry Paging.EntryProofs.
Open Scope Z_scope.

(* setting address and flags stores exactly both: the word is address + flags
   (address in bits 12..51, flags in bits 0..11 and 52..63) *)
Theorem C08_set_addr_stores_exactly : forall a F e, aligned_phys a -> flagdom F ->
  pte_set_addr e a F = Ok (a + F) /\ pte_set_frame e a F = Ok (a + F).
Proof. exact set_addr_stores. Qed.
Print Assumptions C08_set_addr_stores_exactly.

Theorem C08_set_addr_rejects_misaligned : forall a F e, phys a -> a mod 4096 <> 0 ->
  pte_set_addr e a F = Panic.
Proof. exact set_addr_rejects_misaligned. Qed.
Print Assumptions C08_set_addr_rejects_misaligned.

(* reading returns what was stored: the address always; the flags on the property's flag
   domain always, and exactly unless the address has bit 12 set (known finding F7a) *)
Theorem C08_reads_back : forall a F, aligned_phys a -> flagdom F ->
  pte_addr (a + F) = Ok a /\
  Z.land (pte_flags (a + F)) (4095 + 4095 * 2 ^ 52) = F /\
  (a mod 8192 = 0 -> pte_flags (a + F) = F).
Proof. exact stored_reads_back. Qed.
Print Assumptions C08_reads_back.

Theorem C08_flags_exact_outside_known_finding : forall a F, aligned_phys a -> flagdom F ->
  ~ KnownF7a a -> pte_flags (a + F) = F.
Proof. exact flags_exact_outside_known. Qed.
Print Assumptions C08_flags_exact_outside_known_finding.

Theorem C08_flags_bit12_refuted :
  exists a F, aligned_phys a /\ flagdom F /\ pte_set_addr 0 a F = Ok (a + F) /\
              pte_flags (a + F) = F + PTF_PAT_HUGE /\ pte_flags (a + F) <> F.
Proof. exact flags_bit12_refuted. Qed.
Print Assumptions C08_flags_bit12_refuted.

Theorem C08_set_flags_keeps_address : forall a F F', aligned_phys a -> flagdom F -> flagdom F' ->
  pte_set_flags (a + F) F' = Ok (a + F').
Proof. exact set_flags_keeps_addr. Qed.
Print Assumptions C08_set_flags_keeps_address.

Theorem C08_unused_iff_all_zero : forall e,
  (pte_is_unused e = true <-> e = 0) /\ pte_set_unused e = 0.
Proof. intros e. exact (conj (unused_iff_zero e) (proj1 (set_unused_zero e))). Qed.
Print Assumptions C08_unused_iff_all_zero.

Theorem C08_frame_iff_present : forall e, u64 e ->
  (exists f, pte_frame e = Ok (Some f)) <-> Z.testbit e 0 = true.
Proof. exact frame_iff_present. Qed.
Print Assumptions C08_frame_iff_present.

(* every sequence of setters: the entry is always (last stored address) + (last stored flags) *)
Theorem C08_setter_sequences : forall l a F, aligned_phys a -> flagdom F ->
  Forall setter_ok l ->
  let st := fold_left spec_setter l (a, F) in
  run_setters (a + F) l = Ok (fst st + snd st) /\ aligned_phys (fst st) /\ flagdom (snd st).
Proof. exact setters_store_exactly. Qed.
Print Assumptions C08_setter_sequences.

(* the table: 512 slots, every access denotes nth i; little-endian bytes in index order *)
Theorem C08_table_slots : forall t i v j, length t = 512%nat -> 0 <= i < 512 -> 0 <= j < 512 ->
  exists t', table_set t i v = Ok t' /\ length t' = 512%nat /\
             table_get t' j = if i =? j then Ok v else table_get t j.
Proof. exact table_set_get. Qed.
Print Assumptions C08_table_slots.

Theorem C08_table_index_bounds : forall t i v, ~ (0 <= i < 512) ->
  table_set t i v = Panic /\ table_get t i = Panic.
Proof. exact table_out_of_range. Qed.
Print Assumptions C08_table_index_bounds.

Theorem C08_table_bytes : forall t i j, (i < length t)%nat -> (j < 8)%nat ->
  nth (8 * i + j) (table_bytes t) 0 = byte_of (nth i t 0) (Z.of_nat j).
Proof. exact table_bytes_layout. Qed.
Print Assumptions C08_table_bytes.

Theorem C08_new_zero_empty :
  (table_is_empty table_new = true /\ Forall (fun b => b = 0) (table_bytes table_new) /\
   length (table_bytes table_new) = 4096%nat) /\
  (forall t, table_is_empty (table_zero t) = true /\ length (table_zero t) = length t) /\
  (forall t, table_is_empty t = true <-> Forall (fun w => w = 0) t).
Proof. exact (conj table_new_zero (conj table_zero_empties table_empty_iff_zero_words)). Qed.
Print Assumptions C08_new_zero_empty.
