(* C12 - IDT entries sit where the CPU looks and encode the architectural gate format.
   Partial: the struct layout chosen by rustc (repr(C), align(16)) is observed on the compiled
   artefact for all 256 vectors and all access paths, not proved; gate format = Arch/Manual.v. *)
From X86 Require Import Base.Word Addr.Model Addr.Canon Tables.Idt Arch.Manual Tables.IdtSweepDefs
  Tables.IdtProofs Machine.Wrappers.
Open Scope Z_scope.

(* bound in the statement: all 256 vectors (finite sweep) *)
Theorem C12_vector_offsets : forall v, 0 <= v < 256 ->
  idt_index v = if refused v then Panic else Ok (16 * v).
Proof. exact idt_index_spec. Qed.
Print Assumptions C12_vector_offsets.

Theorem C12_refused_vectors : forall v, 0 <= v < 256 ->
  (refused v = true <-> In v [8; 10; 11; 12; 13; 14; 15; 17; 18; 21; 22; 23; 24; 25; 26; 27; 29; 30; 31]).
Proof. exact refused_list. Qed.
Print Assumptions C12_refused_vectors.

Theorem C12_named_fields : forall id, In id idt_named_fields -> idt_named id = Ok (16 * id).
Proof. exact named_fields_spec. Qed.
Print Assumptions C12_named_fields.

(* every RangeBounds form x every (start, end) u8 pair *)
Theorem C12_ranges : forall sk s ek e, 0 <= s < 256 -> 0 <= e < 256 ->
  (sk = 0 \/ sk = 1 \/ sk = 2) -> (ek = 0 \/ ek = 1 \/ ek = 2) ->
  let lower := if sk =? 0 then s else if sk =? 1 then s + 1 else 0 in
  let upper := if ek =? 0 then e + 1 else if ek =? 1 then e else 256 in
  idt_slice sk s ek e =
  if (lower <? 32) || (upper <? lower) then Panic else Ok (16 * lower, upper - lower).
Proof. exact idt_slice_spec. Qed.
Print Assumptions C12_ranges.

(* the gate, decoded by the architectural format, for every canonical handler address *)
Theorem C12_handler_gate : forall e a cs, entry_wf e -> canonical a -> 0 <= cs < 65536 ->
  let e' := set_handler_addr e a cs in
  entry_wf e' /\
  decode_gate (fst (entry_words e')) (snd (entry_words e')) =
  {| g_offset := a; g_selector := cs; g_ist := 0; g_zero := 0; g_type := GATE_INTERRUPT;
     g_dpl := 0; g_present := 1; g_reserved := e_res e |} /\
  handler_addr e' = a.
Proof. exact set_handler_addr_decodes. Qed.
Print Assumptions C12_handler_gate.

Theorem C12_decode_any_entry : forall e, entry_wf e ->
  decode_gate (fst (entry_words e)) (snd (entry_words e)) =
  {| g_offset := e_lo e + e_mid e * 2 ^ 16 + e_hi e * 2 ^ 32; g_selector := e_cs e;
     g_ist := o_ist (e_bits e); g_zero := o_rest (e_bits e);
     g_type := o_type (e_bits e); g_dpl := o_dpl (e_bits e);
     g_present := o_p (e_bits e); g_reserved := e_res e |}.
Proof. exact decode_entry. Qed.
Print Assumptions C12_decode_any_entry.

(* each option setter changes only its own field; the handler address reads back unchanged
   (bound: all 2^16 option words, finite sweeps) - hence for every sequence of setters *)
Theorem C12_set_present : forall e p, entry_wf e ->
  let e' := opt_set_present e p in
  entry_wf e' /\ o_p (e_bits e') = b2z p /\ o_ist (e_bits e') = o_ist (e_bits e) /\
  o_type (e_bits e') = o_type (e_bits e) /\ o_dpl (e_bits e') = o_dpl (e_bits e) /\
  o_rest (e_bits e') = o_rest (e_bits e) /\ handler_addr e' = handler_addr e /\ e_cs e' = e_cs e.
Proof. exact set_present_only_present. Qed.
Print Assumptions C12_set_present.

Theorem C12_disable_interrupts : forall e d, entry_wf e ->
  let e' := opt_disable_interrupts e d in
  entry_wf e' /\ o_type (e_bits e') = (o_type (e_bits e) / 2) * 2 + b2z (negb d) /\
  o_ist (e_bits e') = o_ist (e_bits e) /\ o_dpl (e_bits e') = o_dpl (e_bits e) /\
  o_p (e_bits e') = o_p (e_bits e) /\ o_rest (e_bits e') = o_rest (e_bits e) /\
  handler_addr e' = handler_addr e /\ e_cs e' = e_cs e.
Proof. exact disable_interrupts_only_type. Qed.
Print Assumptions C12_disable_interrupts.

Theorem C12_set_privilege_level : forall e d, entry_wf e -> 0 <= d < 4 ->
  exists e', opt_set_privilege_level e d = Ok e' /\
  entry_wf e' /\ o_dpl (e_bits e') = d /\ o_ist (e_bits e') = o_ist (e_bits e) /\
  o_type (e_bits e') = o_type (e_bits e) /\ o_p (e_bits e') = o_p (e_bits e) /\
  o_rest (e_bits e') = o_rest (e_bits e) /\ handler_addr e' = handler_addr e /\ e_cs e' = e_cs e.
Proof. exact set_privilege_level_only_dpl. Qed.
Print Assumptions C12_set_privilege_level.

Theorem C12_set_stack_index : forall oc e i, entry_wf e -> 0 <= i <= 6 ->
  exists e', opt_set_stack_index oc e i = Ok e' /\
  entry_wf e' /\ o_ist (e_bits e') = i + 1 /\ o_type (e_bits e') = o_type (e_bits e) /\
  o_dpl (e_bits e') = o_dpl (e_bits e) /\ o_p (e_bits e') = o_p (e_bits e) /\
  o_rest (e_bits e') = o_rest (e_bits e) /\ handler_addr e' = handler_addr e /\ e_cs e' = e_cs e.
Proof. exact set_stack_index_only_ist. Qed.
Print Assumptions C12_set_stack_index.

(* an untouched or reset entry: non-present gate with the must-be-one type bits *)
Theorem C12_missing_entry :
  entry_wf entry_missing /\
  decode_gate (fst (entry_words entry_missing)) (snd (entry_words entry_missing)) =
  {| g_offset := 0; g_selector := 0; g_ist := 0; g_zero := 0; g_type := GATE_INTERRUPT;
     g_dpl := 0; g_present := 0; g_reserved := 0 |}.
Proof. exact missing_decodes. Qed.
Print Assumptions C12_missing_entry.

(* loading hands the CPU the table's own address with limit 4095 *)
Theorem C12_load : forall base s,
  idt_size = 4096 /\
  lidt_of (idt_size - 1) base s = Ok (tt, ev [E_LIDT; 4095; base; 0] (set_idtr (4095, base) s)).
Proof. intros base s. split; reflexivity. Qed.
Print Assumptions C12_load.
