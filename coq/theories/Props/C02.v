(* C02 - Mapper errors are precise and a failed call changes no mapping.
   About the abstract tree model (Paging/Tree.v), which the correspondence check ties to the
   three mapper implementations on whole call histories. *)
From X86 Require Import Paging.Mapped Paging.Tree Paging.TreeProofs Paging.Refine Paging.RefineAtomic Paging.MemAtomic Paging.Recursive Paging.RecRead Paging.RecEquiv Paging.RecMap Paging.RefineHistory Paging.RecRefineTop Paging.RecRefine Paging.Run.
Open Scope Z_scope.

(* which outcome map_to reports is decided by the state it is called in *)
Theorem C02_map_outcome_is_the_documented_one : forall rec idxs ch w frame page pf a ch' a' r,
  idxs <> [] ->
  map_path rec ch idxs w frame page pf a = (ch', a', r) ->
  match slot_at ch idxs with
  | inl Empty => r = TOk [0; page] /\ a' = a
  | inl _ => r = TErr [E_ALREADY_MAPPED; frame] /\ a' = a
  | inr e =>
      if list_eq_dec Z.eq_dec e [E_PARENT_HUGE]
      then r = TErr [E_PARENT_HUGE] /\ a' = a
      else (r = TOk [0; page] \/ r = TErr [E_ALLOC_FAILED]) /\ snd a < snd a'
  end.
Proof. exact map_path_outcome. Qed.
Print Assumptions C02_map_outcome_is_the_documented_one.

(* a failed map -- including allocation failure at any of its allocation points -- leaves what
   every path translates to exactly as it was (new empty tables and widened parent flags do
   not show in `lookup`); a successful one changes exactly the page *)
Theorem C02_failed_map_changes_no_mapping : forall rec idxs ch w frame page pf a ch' a' o,
  map_path rec ch idxs w frame page pf a = (ch', a', TErr o) ->
  forall path, lookup ch' path = lookup ch path.
Proof.
  intros rec idxs ch w frame page pf a ch' a' o H path.
  exact (map_path_lookup rec idxs ch w frame page pf a ch' a' (TErr o) H path).
Qed.
Print Assumptions C02_failed_map_changes_no_mapping.

(* unmap / update_flags: success only on a leaf of exactly that size; an error returns the
   tree unchanged *)
Theorem C02_unmap_precise_and_atomic : forall ch idxs k page ch' o, idxs <> [] ->
  t_unmap ch idxs k page = (ch', o) ->
  (exists w, o = [0; leaf_addr w; page] /\ slot_at ch idxs = inl (Leaf w) /\
     forall path, lookup ch' path = if prefix idxs path then None else lookup ch path)
  \/ (ch' = ch /\ exists c rest, o = c :: rest /\ c < 0).
Proof. exact t_unmap_lookup. Qed.
Print Assumptions C02_unmap_precise_and_atomic.

Theorem C02_update_flags_precise_and_atomic : forall ch idxs k page flags ch' o, idxs <> [] ->
  t_update_flags ch idxs k page flags = (ch', o) ->
  (exists w, o = [0; page] /\ slot_at ch idxs = inl (Leaf w) /\
     forall path, lookup ch' path =
       if prefix idxs path
       then Some (Z.lor (leaf_addr w) (if k =? 0 then flags else Z.lor flags PTF_HUGE),
                  (length path - length idxs)%nat)
       else lookup ch path)
  \/ (ch' = ch /\ exists c rest, o = c :: rest /\ c < 0).
Proof. exact t_update_flags_lookup. Qed.
Print Assumptions C02_update_flags_precise_and_atomic.

(* no success for a mapping of a size that does not exist *)
Theorem C02_translate_page_success_only_on_that_size : forall ch idxs k, idxs <> [] ->
  match t_translate_page ch idxs k with
  | [0; f] => exists w, lookup ch idxs = Some (w, O) /\ f = leaf_addr w
  | c :: _ => c < 0
  | [] => False
  end.
Proof. exact t_translate_page_lookup. Qed.
Print Assumptions C02_translate_page_success_only_on_that_size.

(* the walk errors are the documented two *)
Theorem C02_walk_errors : forall idxs ch e, slot_at ch idxs = inr e ->
  e = [E_NOT_MAPPED] \/ e = [E_PARENT_HUGE] \/ idxs = [].
Proof. exact slot_at_err. Qed.
Print Assumptions C02_walk_errors.

(* every call of a history, failed or not, keeps the translation map equal to what the
   successful calls dictate: failed calls contribute nothing *)
Theorem C02_failed_calls_do_not_show_in_any_history : forall rec r s op s' o d,
  apply_op rec r s op = (s', o) ->
  (forall path, lookup (t_root s) path = d path) ->
  forall path, lookup (t_root s') path = dict_step d op o path.
Proof. exact apply_op_dictated. Qed.
Print Assumptions C02_failed_calls_do_not_show_in_any_history.

(* at the level of raw table memory (MappedPageTable/OffsetPageTable memory model): a map_to
   that reports an error -- whichever, at whichever allocation point -- leaves the physical
   address, page size and leaf word the hardware walk finds for EVERY virtual address unchanged *)
Theorem C02_failed_map_changes_no_translation_in_memory : forall s ch k page frame flags pf s' o c rest,
  0 <= k <= 2 ->
  rep 4 s ch (root s) -> tframe (root s) -> sep s (root s) ch -> pflags_ok pf ->
  leaf_ok (Z.to_nat (k + 1)) (leaf_word k frame flags) ->
  map_to s k page frame flags pf = Ok (s', o) -> o = c :: rest -> c < 0 ->
  forall va, walk3 (enc_walk (hw_walk s' va)) = walk3 (enc_walk (hw_walk s va)).
Proof. exact failed_map_changes_no_translation. Qed.
Print Assumptions C02_failed_map_changes_no_translation_in_memory.

(* ... and for the walking calls the memory model is literally unchanged by a failed call: in ANY
   state (no invariant needed), unmap / update_flags / set_flags_p*_entry that report an error
   return the state they were given *)
Theorem C02_failed_unmap_returns_the_state_unchanged : forall s k page,
  is_error (snd (unmap s k page)) -> fst (unmap s k page) = s.
Proof. exact unmap_error_unchanged. Qed.
Print Assumptions C02_failed_unmap_returns_the_state_unchanged.

Theorem C02_failed_update_flags_returns_the_state_unchanged : forall s k page flags,
  is_error (snd (update_flags s k page flags)) -> fst (update_flags s k page flags) = s.
Proof. exact update_flags_error_unchanged. Qed.
Print Assumptions C02_failed_update_flags_returns_the_state_unchanged.

Theorem C02_failed_parent_flag_call_returns_the_state_unchanged : forall s k level page flags,
  is_error (snd (set_flags_parent s k level page flags)) -> fst (set_flags_parent s k level page flags) = s.
Proof. exact set_flags_parent_error_unchanged. Qed.
Print Assumptions C02_failed_parent_flag_call_returns_the_state_unchanged.

(* "identically across mapper implementations", on the memory models: with the recursive slot
   pointing to the level-4 table and the other level-4 slots representing a tree (repx), the
   RecursivePageTable model -- which reaches every lower table through recursive addresses
   resolved by the hardware-style walk -- computes for unmap / update_flags /
   set_flags_p*_entry / translate_page exactly the result AND the memory the MappedPageTable
   model computes, for every page outside the recursive slot *)
Theorem C02_recursive_unmap_is_mapped_unmap : forall s ch k page,
  0 <= k <= 2 -> 0 <= rec_index s < 512 -> repx (rec_index s) s ch -> p4_index page <> rec_index s ->
  runmap s k page = Ok (unmap s k page).
Proof. exact runmap_eq. Qed.
Print Assumptions C02_recursive_unmap_is_mapped_unmap.

Theorem C02_recursive_update_flags_is_mapped_update_flags : forall s ch k page flags,
  0 <= k <= 2 -> 0 <= rec_index s < 512 -> repx (rec_index s) s ch -> p4_index page <> rec_index s ->
  rupdate_flags s k page flags = Ok (update_flags s k page flags).
Proof. exact rupdate_flags_eq. Qed.
Print Assumptions C02_recursive_update_flags_is_mapped_update_flags.

Theorem C02_recursive_parent_flag_calls_are_mapped_ones : forall s ch k level page flags,
  2 <= level <= 4 -> 0 <= k <= 2 -> 0 <= rec_index s < 512 -> repx (rec_index s) s ch ->
  p4_index page <> rec_index s ->
  rset_flags_parent s k level page flags = Ok (set_flags_parent s k level page flags).
Proof. exact rset_flags_parent_eq. Qed.
Print Assumptions C02_recursive_parent_flag_calls_are_mapped_ones.

Theorem C02_recursive_translate_page_is_mapped_translate_page : forall s ch k page,
  0 <= k <= 2 -> 0 <= rec_index s < 512 -> repx (rec_index s) s ch -> p4_index page <> rec_index s ->
  rtranslate_page s k page = Ok (s, translate_page s k page).
Proof. exact rtranslate_page_eq. Qed.
Print Assumptions C02_recursive_translate_page_is_mapped_translate_page.

(* ... and map_to: identical result and memory, up to the creation flags of new parent entries *)
Theorem C02_recursive_map_to_is_mapped_map_to : forall s ch k page frame flags pf,
  0 <= k <= 2 -> 0 <= rec_index s < 512 -> repx (rec_index s) s ch -> tframe (root s) ->
  sep s (root s) ch -> pflags_ok pf -> p4_index page <> rec_index s ->
  rmap_to s k page frame flags pf = map_to_rc true s k page frame flags pf.
Proof. exact rmap_to_eq. Qed.
Print Assumptions C02_recursive_map_to_is_mapped_map_to.

(* whole histories on the RecursivePageTable memory model never panic or fault, and answer every
   call as the tree model of the recursive kind does: every outcome theorem above (stated on the
   tree for either kind) therefore holds of RecursivePageTable's table memory too *)
Theorem C02_recursive_histories_answer_as_the_tree : forall r ops s ch fr,
  rInv r s ch -> Forall mop_ok ops -> Forall (fun o => p4_index (mop_page o) <> r) ops ->
  exists s' outs ch', rmem_run s ops = Ok (s', outs) /\
    run_history true r (tst ch s fr) (map to_top ops) = (tst ch' s' fr, outs) /\ rInv r s' ch'.
Proof. exact rrun_refines. Qed.
Print Assumptions C02_recursive_histories_answer_as_the_tree.
