(* C20 - RecursivePageTable validates its table and computes exact recursive addresses. *)
From X86 Require Import Addr.Canon Addr.Index Paging.Mapped Paging.Refine Paging.RecNew Paging.RecNewProofs Paging.RecResolve.
Open Scope Z_scope.

(* new() succeeds exactly when the address of the table reference has the recursive form (all
   four indices equal) and that slot is present and holds the frame field of CR3; NotRecursive
   resp. NotActive otherwise (in that order); the index it uses is the common index *)
Theorem C20_new_decides_exactly : forall page cr3 entry,
  canonical page -> page mod S4K = 0 -> u64 cr3 -> u64 (entry (p4_index page)) ->
  let r := p4_index page in
  let e := entry r in
  rec_new_at page cr3 entry =
    if (p3_index page =? r) && (p2_index page =? r) && (p1_index page =? r) then
      if Z.testbit e 0 && (field e =? field cr3) then Ok [0; r] else Ok [E_NOT_ACTIVE]
    else Ok [E_NOT_RECURSIVE].
Proof. exact rec_new_decides. Qed.
Print Assumptions C20_new_decides_exactly.

(* for every recursive index and every page: the canonical, page-aligned address whose indices
   are r,r,r,p4 / r,r,p4,p3 / r,p4,p3,p2 (low 48 bits = that digit string; sign-extended) *)
Theorem C20_p3_page_exact : forall page r, 0 <= r < 512 ->
  exists pg, p3_page page r = Ok pg /\ canonical pg /\ pg mod S4K = 0 /\
    p4_index pg = r /\ p3_index pg = r /\ p2_index pg = r /\ p1_index pg = p4_index page /\
    pg mod P48 = compose4 r r r (p4_index page).
Proof. exact p3_page_spec. Qed.
Print Assumptions C20_p3_page_exact.

Theorem C20_p2_page_exact : forall page r, 0 <= r < 512 ->
  exists pg, p2_page page r = Ok pg /\ canonical pg /\ pg mod S4K = 0 /\
    p4_index pg = r /\ p3_index pg = r /\ p2_index pg = p4_index page /\ p1_index pg = p3_index page /\
    pg mod P48 = compose4 r r (p4_index page) (p3_index page).
Proof. exact p2_page_spec. Qed.
Print Assumptions C20_p2_page_exact.

Theorem C20_p1_page_exact : forall page r, 0 <= r < 512 ->
  exists pg, p1_page page r = Ok pg /\ canonical pg /\ pg mod S4K = 0 /\
    p4_index pg = r /\ p3_index pg = p4_index page /\ p2_index pg = p3_index page /\ p1_index pg = p2_index page /\
    pg mod P48 = compose4 r (p4_index page) (p3_index page) (p2_index page).
Proof. exact p1_page_spec. Qed.
Print Assumptions C20_p1_page_exact.

Theorem C20_examples :
  rec_new_at 18446744073709547520 (Z.lor 1052672 24) (table_with 511 (Z.lor 1052672 3)) = Ok [0; 511] /\
  rec_new_at 18446744073709547520 1052672 (table_with 511 (Z.lor 1056768 3)) = Ok [E_NOT_ACTIVE] /\
  rec_new_at 18446744073709543424 1052672 (table_with 511 (Z.lor 1052672 3)) = Ok [E_NOT_RECURSIVE] /\
  p1_page 1073741824 511 = Ok 18446743523955834880.
Proof. exact rec_new_511. Qed.
Print Assumptions C20_examples.

(* the recursive-mapping trick itself: with slot r of the level-4 table pointing to the level-4
   table, the hardware walk of p3_page / p2_page / p1_page ends in the level-3 / level-2 /
   level-1 table of the page (stated on raw memory words; tab_entry = present, not huge,
   pointing to that frame) *)
Theorem C20_p3_page_reaches_the_level3_table : forall s r, 0 <= r < 512 ->
  tab_entry (rd s (root s + 8 * r)) (root s) ->
  forall page pg f3, p3_page page r = Ok pg ->
  tab_entry (rd s (root s + 8 * p4_index page)) f3 ->
  exists w, hw_walk s pg = Some w /\ w_phys w = f3 /\ w_size w = S4K.
Proof. exact p3_page_resolves. Qed.
Print Assumptions C20_p3_page_reaches_the_level3_table.

Theorem C20_p2_page_reaches_the_level2_table : forall s r, 0 <= r < 512 ->
  tab_entry (rd s (root s + 8 * r)) (root s) ->
  forall page pg f3 f2, p2_page page r = Ok pg ->
  tab_entry (rd s (root s + 8 * p4_index page)) f3 ->
  tab_entry (rd s (f3 + 8 * p3_index page)) f2 ->
  exists w, hw_walk s pg = Some w /\ w_phys w = f2 /\ w_size w = S4K.
Proof. exact p2_page_resolves. Qed.
Print Assumptions C20_p2_page_reaches_the_level2_table.

Theorem C20_p1_page_reaches_the_level1_table : forall s r, 0 <= r < 512 ->
  tab_entry (rd s (root s + 8 * r)) (root s) ->
  forall page pg f3 f2 f1, p1_page page r = Ok pg ->
  tab_entry (rd s (root s + 8 * p4_index page)) f3 ->
  tab_entry (rd s (f3 + 8 * p3_index page)) f2 ->
  tab_entry (rd s (f2 + 8 * p2_index page)) f1 ->
  exists w, hw_walk s pg = Some w /\ w_phys w = f1 /\ w_size w = S4K.
Proof. exact p1_page_resolves. Qed.
Print Assumptions C20_p1_page_reaches_the_level1_table.
