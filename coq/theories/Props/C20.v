(* C20 - RecursivePageTable validates its table and computes exact recursive addresses. *)
From X86 Require Import Addr.Canon Addr.Index Paging.RecNew Paging.RecNewProofs.
Open Scope Z_scope.

(* new() succeeds exactly when the address of the table reference has the recursive form (all
   four indices equal) and that slot is present and holds the frame field of CR3; NotRecursive
   resp. NotActive otherwise (in that order); the index it uses is the common index *)
Theorem C20_new_decides_exactly : forall page cr3 entry,
  canonical page -> page mod S4K = 0 -> u64 cr3 -> u64 (entry (p4_index page)) ->
  let r := p4_index page in
  let e := entry r in
  rec_new_at page cr3 entry =
    if (p3_index page =? r) && (p2_index page =? r) && (p1_index page =? r) then
      if Z.testbit e 0 && (field e =? field cr3) then Ok [0; r] else Ok [E_NOT_ACTIVE]
    else Ok [E_NOT_RECURSIVE].
Proof. exact rec_new_decides. Qed.
Print Assumptions C20_new_decides_exactly.

(* for every recursive index and every page: the canonical, page-aligned address whose indices
   are r,r,r,p4 / r,r,p4,p3 / r,p4,p3,p2 (low 48 bits = that digit string; sign-extended) *)
Theorem C20_p3_page_exact : forall page r, 0 <= r < 512 ->
  exists pg, p3_page page r = Ok pg /\ canonical pg /\ pg mod S4K = 0 /\
    p4_index pg = r /\ p3_index pg = r /\ p2_index pg = r /\ p1_index pg = p4_index page /\
    pg mod P48 = compose4 r r r (p4_index page).
Proof. exact p3_page_spec. Qed.
Print Assumptions C20_p3_page_exact.

Theorem C20_p2_page_exact : forall page r, 0 <= r < 512 ->
  exists pg, p2_page page r = Ok pg /\ canonical pg /\ pg mod S4K = 0 /\
    p4_index pg = r /\ p3_index pg = r /\ p2_index pg = p4_index page /\ p1_index pg = p3_index page /\
    pg mod P48 = compose4 r r (p4_index page) (p3_index page).
Proof. exact p2_page_spec. Qed.
Print Assumptions C20_p2_page_exact.

Theorem C20_p1_page_exact : forall page r, 0 <= r < 512 ->
  exists pg, p1_page page r = Ok pg /\ canonical pg /\ pg mod S4K = 0 /\
    p4_index pg = r /\ p3_index pg = p4_index page /\ p2_index pg = p3_index page /\ p1_index pg = p2_index page /\
    pg mod P48 = compose4 r (p4_index page) (p3_index page) (p2_index page).
Proof. exact p1_page_spec. Qed.
Print Assumptions C20_p1_page_exact.

Theorem C20_examples :
  rec_new_at 18446744073709547520 (Z.lor 1052672 24) (table_with 511 (Z.lor 1052672 3)) = Ok [0; 511] /\
  rec_new_at 18446744073709547520 1052672 (table_with 511 (Z.lor 1056768 3)) = Ok [E_NOT_ACTIVE] /\
  rec_new_at 18446744073709543424 1052672 (table_with 511 (Z.lor 1052672 3)) = Ok [E_NOT_RECURSIVE] /\
  p1_page 1073741824 511 = Ok 18446743523955834880.
Proof. exact rec_new_511. Qed.
Print Assumptions C20_examples.
