(* C07 - Address arithmetic is exact-or-panic; ranges iterate exactly what they count.
   The operator models have no build-profile parameter (every + and * on their paths is a
   checked one after the fix: commits); `oc` below is the profile for the two primitive
   operations left in len()/size(), and the theorems hold for both values. *)
From X86 Require Import Base.Word Addr.Model Addr.Canon Addr.Align Addr.Step Addr.Arith Addr.Range.
Open Scope Z_scope.

Theorem C07_virt_ops_exact_or_panic : forall a n, canonical a -> u64 n ->
  va_add a n = (if canonicalb (a + n) then Ok (a + n) else Panic) /\
  va_sub a n = (if canonicalb (a - n) then Ok (a - n) else Panic).
Proof. intros a n Hc Hn. exact (conj (va_add_spec a n Hc Hn) (va_sub_spec a n Hc Hn)). Qed.
Print Assumptions C07_virt_ops_exact_or_panic.

Theorem C07_phys_ops_exact_or_panic : forall a n, phys a -> u64 n ->
  pa_add a n = (if physb (a + n) then Ok (a + n) else Panic) /\
  pa_sub a n = (if physb (a - n) then Ok (a - n) else Panic).
Proof. intros a n Hc Hn. exact (conj (pa_add_spec a n Hc Hn) (pa_sub_spec a n Hc Hn)). Qed.
Print Assumptions C07_phys_ops_exact_or_panic.

Theorem C07_page_ops_exact_or_panic : forall sz p n, page_size sz -> is_page sz p -> u64 n ->
  page_add sz p n = (if canonicalb (p + n * sz) then Ok (p + n * sz) else Panic) /\
  page_sub sz p n = (if canonicalb (p - n * sz) then Ok (p - n * sz) else Panic).
Proof. intros sz p n Hs Hp Hn. exact (conj (page_add_spec sz p n Hs Hp Hn) (page_sub_spec sz p n Hs Hp Hn)). Qed.
Print Assumptions C07_page_ops_exact_or_panic.

Theorem C07_frame_ops_exact_or_panic : forall sz p n, page_size sz -> is_frame sz p -> u64 n ->
  frame_add sz p n = (if physb (p + n * sz) then Ok (p + n * sz) else Panic) /\
  frame_sub sz p n = (if physb (p - n * sz) then Ok (p - n * sz) else Panic).
Proof. intros sz p n Hs Hp Hn. exact (conj (frame_add_spec sz p n Hs Hp Hn) (frame_sub_spec sz p n Hs Hp Hn)). Qed.
Print Assumptions C07_frame_ops_exact_or_panic.

Theorem C07_differences_exact : forall sz p q r,
  (va_sub_va p q = Ok r -> r = p - q /\ q <= p) /\
  (pa_sub_pa p q = Ok r -> r = p - q /\ q <= p) /\
  (page_sub_page sz p q = Ok r -> r = (p - q) / sz /\ q <= p) /\
  (frame_sub_frame sz p q = Ok r -> r = (p - q) / sz /\ q <= p).
Proof. exact differences_exact. Qed.
Print Assumptions C07_differences_exact.

(* ranges, any length: len = number of items, items ascending from start, no panic,
   None forever afterwards, size = len x SIZE; both profiles *)
Theorem C07_page_range : forall sz, page_size sz -> forall s e, is_page sz s -> is_page sz e ->
  same_half s e -> forall oc, s <= e ->
  let k := Z.to_nat ((e - s) / sz) in
  pr_len sz (s, e) = Ok (Z.of_nat k) /\
  pr_size oc sz (s, e) = Ok (Z.of_nat k * sz) /\
  (forall extra, iter_n (pr_next sz) (k + S extra) (s, e) = (items s sz 0 k, false, (e, e))) /\
  pr_next sz (e, e) = Ok (None, (e, e)).
Proof. exact pr_iter. Qed.
Print Assumptions C07_page_range.

Theorem C07_page_range_inclusive : forall sz, page_size sz -> forall s e, is_page sz s ->
  is_page sz e -> same_half s e -> forall oc, s <= e ->
  let k := S (Z.to_nat ((e - s) / sz)) in
  pri_len oc sz (s, e) = Ok (Z.of_nat k) /\
  pri_size oc sz (s, e) = Ok (Z.of_nat k * sz) /\
  exists fin, pri_is_empty fin = true /\
    (forall extra, iter_n (pri_next sz) (k + S extra) (s, e) = (items s sz 0 k, false, fin)) /\
    pri_next sz fin = Ok (None, fin).
Proof. exact pri_iter. Qed.
Print Assumptions C07_page_range_inclusive.

Theorem C07_frame_range : forall sz, page_size sz -> forall s e, is_frame sz s -> is_frame sz e ->
  forall oc, s <= e ->
  let k := Z.to_nat ((e - s) / sz) in
  fr_len sz (s, e) = Ok (Z.of_nat k) /\
  fr_size oc sz (s, e) = Ok (Z.of_nat k * sz) /\
  (forall extra, iter_n (fr_next sz) (k + S extra) (s, e) = (items s sz 0 k, false, (e, e))) /\
  fr_next sz (e, e) = Ok (None, (e, e)).
Proof. exact fr_iter. Qed.
Print Assumptions C07_frame_range.

Theorem C07_frame_range_inclusive : forall sz, page_size sz -> forall s e, is_frame sz s ->
  is_frame sz e -> forall oc, s <= e ->
  let k := S (Z.to_nat ((e - s) / sz)) in
  fri_len oc sz (s, e) = Ok (Z.of_nat k) /\
  fri_size oc sz (s, e) = Ok (Z.of_nat k * sz) /\
  exists fin, pri_is_empty fin = true /\
    (forall extra, iter_n (fri_next oc sz) (k + S extra) (s, e) = (items s sz 0 k, false, fin)) /\
    fri_next oc sz fin = Ok (None, fin).
Proof. exact fri_iter. Qed.
Print Assumptions C07_frame_range_inclusive.

Theorem C07_empty_ranges : forall sz, page_size sz -> forall s e oc,
  (e <= s -> pr_is_empty (s, e) = true /\ pr_len sz (s, e) = Ok 0 /\ pr_size oc sz (s, e) = Ok 0 /\
             pr_next sz (s, e) = Ok (None, (s, e))) /\
  (e < s -> pri_is_empty (s, e) = true /\ pri_len oc sz (s, e) = Ok 0 /\ pri_size oc sz (s, e) = Ok 0 /\
            pri_next sz (s, e) = Ok (None, (s, e))) /\
  (e <= s -> pr_is_empty (s, e) = true /\ fr_len sz (s, e) = Ok 0 /\ fr_size oc sz (s, e) = Ok 0 /\
             fr_next sz (s, e) = Ok (None, (s, e))) /\
  (e < s -> pri_is_empty (s, e) = true /\ fri_len oc sz (s, e) = Ok 0 /\ fri_size oc sz (s, e) = Ok 0 /\
            fri_next oc sz (s, e) = Ok (None, (s, e))).
Proof.
  intros sz Hs s e oc.
  exact (conj (pr_empty_case sz s e oc) (conj (pri_empty_case sz s e oc)
        (conj (fr_empty_case sz s e oc) (fri_empty_case sz s e oc)))).
Qed.
Print Assumptions C07_empty_ranges.

Theorem C07_as_4kib_same_bytes : forall oc s e, is_page S2M s -> is_page S2M e ->
  same_half s e -> s <= e ->
  pr_as_4k (s, e) = Ok (s, e) /\
  exists n, pr_len S2M (s, e) = Ok n /\ pr_len S4K (s, e) = Ok (512 * n) /\
            pr_size oc S2M (s, e) = Ok (n * S2M) /\ pr_size oc S4K (s, e) = Ok (n * S2M).
Proof. exact as_4kib_same_bytes. Qed.
Print Assumptions C07_as_4kib_same_bytes.
