(* C11 - Mapping changes name the page to flush, and flushes invalidate exactly that.
   This file: the instruction-level half (flush, flush_all, flush_pcid, broadcast builder).
   The token half (every mapper call returns the token of its own page) is Props/C11 part 2,
   stated on the mapper model (the Paging directory). *)
From X86 Require Import Base.Word Addr.Model Addr.Canon Addr.Align Addr.Arith Addr.Step Paging.Entry
  Machine.Wrappers Machine.Proofs Machine.TlbProofs Machine.AsmPins Machine.AsmPinsC11.
Open Scope Z_scope.

Theorem C11_flush_is_one_invlpg : forall a s, tlb_flush a s = Ok (tt, ev [E_INVLPG; a; 0; 0] s).
Proof. exact tlb_flush_spec. Qed.
Print Assumptions C11_flush_is_one_invlpg.

(* flush_all reloads CR3 with its current value, whatever the low 12 bits (PCID) are *)
Theorem C11_flush_all_reloads_current_cr3 : forall s, 0 <= cr s 3 < 2 ^ 52 ->
  tlb_flush_all s =
  Ok (tt, ev [E_MOVTOCR; 3; cr s 3; 0] (set_cr 3 (cr s 3) (ev [E_MOVFROMCR; 3; cr s 3; 0] s))).
Proof. exact flush_all_spec. Qed.
Print Assumptions C11_flush_all_reloads_current_cr3.

Theorem C11_flush_pcid_descriptor : forall kind addr pcid s,
  flush_pcid kind addr pcid s =
  Ok (tt, ev (if kind =? 0 then [E_INVPCID; 0; pcid; addr]
              else if kind =? 1 then [E_INVPCID; 1; pcid; 0]
              else if kind =? 2 then [E_INVPCID; 2; 0; 0] else [E_INVPCID; 3; 0; 0]) s).
Proof. exact flush_pcid_spec. Qed.
Print Assumptions C11_flush_pcid_descriptor.

(* one broadcast request: RAX = start page | address-valid | option bits, ECX = count | 2MiB<<31,
   EDX = pcid<<16 | asid *)
Theorem C11_broadcast_request_encoding : forall va count sz b s,
  canonical va -> va mod 4096 = 0 -> 0 <= count < 65536 -> builder_ok b ->
  flush_broadcast (Some (va, count, sz)) b s =
  Ok (tt, ev [E_INVLPGB; va + 1 + opt_bits b;
              count + (if sz =? S2M then 2147483648 else 0); edx_of b] s).
Proof. exact flush_broadcast_spec. Qed.
Print Assumptions C11_broadcast_request_encoding.

Theorem C11_broadcast_without_range : forall b s, builder_ok b ->
  exists rax, flush_broadcast None b s = Ok (tt, ev [E_INVLPGB; rax; 0; edx_of b] s) /\
              Z.testbit rax 0 = false.
Proof. exact flush_broadcast_no_range. Qed.
Print Assumptions C11_broadcast_without_range.

(* the chunking loop, for every range (any length, incl. ranges reaching the gap and the
   top), every processor maximum 0..65535, every option combination: it terminates within
   (pages + 1) iterations, never panics, and its requests Cover the range: consecutive, each
   at most min(count_max, 65535), none across the gap, ending exactly at the end *)
Theorem C11_broadcast_loop_covers : forall inv b sz, page_size sz ->
  0 <= count_max inv <= 65535 -> builder_ok b -> forall e, is_page sz e ->
  forall s0 p, is_page sz p ->
  let bb := {| b_range := Some (p, e, sz); b_pcid := b_pcid b; b_asid := b_asid b;
               b_global := b_global b; b_final := b_final b; b_nested := b_nested b |} in
  exists reqs s', builder_flush (Z.to_nat (pages_left sz e p + 1)) inv bb s0 = Ok (Some tt, s') /\
    log s' = rev (map (req_event b sz) reqs) ++ log s0 /\ Covers inv sz e reqs p.
Proof. exact builder_flush_range. Qed.
Print Assumptions C11_broadcast_loop_covers.

Theorem C11_broadcast_extents_add_up : forall inv sz, page_size sz -> forall e, is_page sz e ->
  forall reqs p, Covers inv sz e reqs p -> is_page sz p -> p <= e ->
  fold_right (fun r acc => Z.max (snd r) 1 + acc) 0 reqs * sz = pos e - pos p.
Proof. exact covers_total. Qed.
Print Assumptions C11_broadcast_extents_add_up.

Theorem C11_asid_and_nested_guards : forall inv asid,
  (builder_asid inv asid = true <-> asid < nasid inv) /\
  (builder_nested inv = Panic <-> nested_ok inv = false).
Proof. exact asid_and_nested_guards. Qed.
Print Assumptions C11_asid_and_nested_guards.

Theorem C11_asm_blocks_as_modelled : pins_C11 = true.
Proof. exact pins_C11_ok. Qed.
Print Assumptions C11_asm_blocks_as_modelled.

(* every asm! block in this property's domain is, in the current source, exactly the block the
   model was written against: template, operand bindings and the complete option list; and no
   block of the crate is `pure`, `nostack` around a push/pop, or `nomem` with a memory operand *)
Theorem C11_asm_blocks_exact : pins_C11_exact = true.
Proof. exact pins_C11_exact_ok. Qed.
Print Assumptions C11_asm_blocks_exact.
