(* C14 - GDT contents, selectors and limit always agree. *)
From X86 Require Import Base.Word Addr.Model Codec.Codec Tables.Gdt Tables.GdtProofs Arch.Manual
  Machine.Wrappers.
Open Scope Z_scope.

Theorem C14_empty : forall max,
  (gdt_empty max = Panic <-> ~ (0 < max <= 8192)) /\
  (forall g, gdt_empty max = Ok g -> Inv g /\ g_entries g = [0] /\ g_max g = max).
Proof. intros max. exact (conj (empty_panics_iff max) (empty_inv max)). Qed.
Print Assumptions C14_empty.

(* one append: fits -> pushed in order, selector = first slot / DPL / GDT; else panic, and
   (the model being functional) the table is unchanged *)
Theorem C14_append : forall g d, Inv g -> desc_ok d ->
  gdt_append g d =
  if g_len g + slots d <=? g_max g then
    Ok ({| g_max := g_max g; g_entries := g_entries g ++ words d |},
        g_len g * 8 + bitsf (desc_low d) 45 2)
  else Panic.
Proof. exact append_spec. Qed.
Print Assumptions C14_append.

Theorem C14_append_selector : forall g d g' sel, Inv g -> desc_ok d ->
  gdt_append g d = Ok (g', sel) ->
  Inv g' /\ g_max g' = g_max g /\ g_entries g' = g_entries g ++ words d /\
  sel_index sel = g_len g /\ sel_rpl sel = Ok (bitsf (desc_low d) 45 2) /\
  Z.testbit sel 2 = false /\ 0 <= sel < 65536.
Proof. exact append_inv. Qed.
Print Assumptions C14_append_selector.

(* every sequence of appends, any capacity: null descriptor followed by the accepted
   descriptors in order; never beyond capacity; limit = 8 x used slots - 1 <= 65535 *)
Theorem C14_all_histories : forall ds g, Inv g -> Forall desc_ok ds ->
  let gf := fst (run_history g ds) in
  Inv gf /\ g_max gf = g_max g /\
  g_entries gf = g_entries g ++ flat_map words (accepted (g_len g) (g_max g) ds) /\
  gdt_limit gf = g_len gf * 8 - 1 /\ gdt_limit gf <= 65535.
Proof. exact history_spec. Qed.
Print Assumptions C14_all_histories.

Theorem C14_from_raw_entries : forall max l,
  gdt_from_raw max l =
  if (0 <? max) && (max <=? 8192) && negb (Z.of_nat (length l) =? 0) && (nth 0 l 1 =? 0)
     && (Z.of_nat (length l) <=? max)
  then Ok {| g_max := max; g_entries := l |} else Panic.
Proof. exact from_raw_spec. Qed.
Print Assumptions C14_from_raw_entries.

Theorem C14_load : forall g base s,
  lgdt_of (gdt_limit g) base s = Ok (tt, ev [E_LGDT; gdt_limit g; base; 0] (set_gdtr (gdt_limit g, base) s)).
Proof. intros. reflexivity. Qed.
Print Assumptions C14_load.
