(* C16 - System-register wrappers hit the right register and never lose bits.
   Partial: the semantics of each instruction is the mini-ISA of Machine/State.v (transcribed
   from the manuals); the real CPU is replaced by the software CPU in the correspondence. *)
From X86 Require Import Base.Word Base.Bits Addr.Model Addr.Canon Paging.Entry Paging.EntryProofs
  Machine.Wrappers Machine.Proofs Machine.Proofs2 Machine.AsmPins Machine.AsmPinsC16.
Open Scope Z_scope.

(* Cr0 / Cr4 / Efer are the typed scheme over CR0 / CR4 / MSR C000_0080 *)
Theorem C16_typed_registers_hit :
  (cr0_read = typed_read (c_rd (cr_cell 0)) CR0_ALL /\
   cr0_write = typed_write (c_rd (cr_cell 0)) (c_wr (cr_cell 0)) CR0_ALL /\
   cr0_update = typed_update (c_rd (cr_cell 0)) (c_wr (cr_cell 0)) CR0_ALL /\
   cr0_read_raw = c_rd (cr_cell 0) /\ cr0_write_raw = c_wr (cr_cell 0)) /\
  (cr4_read = typed_read (c_rd (cr_cell 4)) CR4_ALL /\
   cr4_write = typed_write (c_rd (cr_cell 4)) (c_wr (cr_cell 4)) CR4_ALL /\
   cr4_update = typed_update (c_rd (cr_cell 4)) (c_wr (cr_cell 4)) CR4_ALL /\
   cr4_read_raw = c_rd (cr_cell 4) /\ cr4_write_raw = c_wr (cr_cell 4)) /\
  (efer_read = typed_read (c_rd (msr_cell MSR_EFER)) EFER_ALL /\
   efer_write = typed_write (c_rd (msr_cell MSR_EFER)) (c_wr (msr_cell MSR_EFER)) EFER_ALL /\
   efer_update = typed_update (c_rd (msr_cell MSR_EFER)) (c_wr (msr_cell MSR_EFER)) EFER_ALL /\
   efer_read_raw = c_rd (msr_cell MSR_EFER) /\ efer_write_raw = c_wr (msr_cell MSR_EFER)).
Proof. exact (conj cr0_is_typed_cr0 (conj cr4_is_typed_cr4 efer_is_typed_msr)). Qed.
Print Assumptions C16_typed_registers_hit.

Theorem C16_cells_are_registers : forall n,
  cell_ok (cr_cell n) /\ cell_ok (dr_cell n) /\ cell_ok (msr_cell n).
Proof. intros n. exact (conj (cr_cell_ok n) (conj (dr_cell_ok n) (msr_cell_ok n))). Qed.
Print Assumptions C16_cells_are_registers.

(* typed read = exactly the modelled bits; typed write = the given fields with every
   unmodelled bit preserved, and read back by the next typed read; update = read-modify-write *)
Theorem C16_typed_read : forall c, cell_ok c -> forall all s,
  typed_read (c_rd c) all s = Ok (Z.land (c_get c s) all, ev (c_rd_ev c s) s).
Proof. exact typed_read_spec. Qed.
Print Assumptions C16_typed_read.

Theorem C16_typed_write_preserves_and_reads_back : forall c, cell_ok c -> forall all, u64 all ->
  forall f s s', Z.land f all = f ->
  typed_write (c_rd c) (c_wr c) all f s = Ok (tt, s') ->
  Z.land (c_get c s') all = f /\
  Z.land (c_get c s') (not64 all) = Z.land (c_get c s) (not64 all) /\
  exists s'', typed_read (c_rd c) all s' = Ok (f, s'').
Proof. exact typed_write_effect. Qed.
Print Assumptions C16_typed_write_preserves_and_reads_back.

Theorem C16_update_is_read_modify_write : forall c all t s,
  typed_update (c_rd c) (c_wr c) all t s =
  (let* f := typed_read (c_rd c) all in typed_write (c_rd c) (c_wr c) all (Z.lxor f t)) s.
Proof. exact typed_update_is_rmw. Qed.
Print Assumptions C16_update_is_read_modify_write.

Theorem C16_raw_accessors : forall c v s, cell_ok c ->
  (c_wr c v s = Ok (tt, ev (c_wr_ev c v) (c_set c v s)) /\ c_get c (ev (c_wr_ev c v) (c_set c v s)) = v) /\
  c_rd c s = Ok (c_get c s, ev (c_rd_ev c s) s).
Proof. intros c v s H. exact (conj (raw_write_spec c v s H) (raw_read_spec c s H)). Qed.
Print Assumptions C16_raw_accessors.

Theorem C16_registers_independent :
  (forall n m v s, m <> n -> cr (set_cr n v s) m = cr s m) /\
  (forall n m v s, m <> n -> dr (set_dr n v s) m = dr s m) /\
  (forall n m v s, m <> n -> msr (set_msr n v s) m = msr s m) /\
  (forall n v s, dr (set_cr n v s) = dr s /\ msr (set_cr n v s) = msr s /\ xcr0 (set_cr n v s) = xcr0 s) /\
  (forall n v s, cr (set_msr n v s) = cr s /\ dr (set_msr n v s) = dr s /\ xcr0 (set_msr n v s) = xcr0 s) /\
  (forall n v s, cr (set_dr n v s) = cr s /\ msr (set_dr n v s) = msr s /\ xcr0 (set_dr n v s) = xcr0 s).
Proof. exact cells_independent. Qed.
Print Assumptions C16_registers_independent.

Theorem C16_msr_any_index : forall n v s,
  exists s1 s2, msr_write n v s = Ok (tt, s1) /\ msr_read n s1 = Ok (v, s2) /\
    log s1 = [E_WRMSR; n; v; 0] :: log s /\ (forall m, m <> n -> msr s1 m = msr s m) /\
    cr s1 = cr s /\ dr s1 = dr s.
Proof. exact msr_roundtrip. Qed.
Print Assumptions C16_msr_any_index.

Theorem C16_cr3_frame_flags : forall frame flags s, frame_ok frame ->
  flags = 0 \/ flags = 8 \/ flags = 16 \/ flags = 24 ->
  exists s1 s2, cr3_write frame flags s = Ok (tt, s1) /\ cr s1 3 = frame + flags /\
    cr3_read s1 = Ok ((frame, flags), s2) /\ log s1 = [E_MOVTOCR; 3; frame + flags; 0] :: log s.
Proof. exact cr3_write_read. Qed.
Print Assumptions C16_cr3_frame_flags.

Theorem C16_cr3_frame_pcid : forall frame pcid s, frame_ok frame -> 0 <= pcid < 4096 ->
  exists s1 s2, cr3_write_pcid frame pcid s = Ok (tt, s1) /\ cr s1 3 = frame + pcid /\
    cr3_read_pcid s1 = Ok ((frame, pcid), s2) /\ cr3_read_raw s1 = Ok ((frame, pcid), s2).
Proof. exact cr3_write_pcid_read. Qed.
Print Assumptions C16_cr3_frame_pcid.

Theorem C16_cr3_no_flush_bit : forall frame pcid s, frame_ok frame -> 0 <= pcid < 4096 ->
  exists s1, cr3_write_pcid_no_flush frame pcid s = Ok (tt, s1) /\ cr s1 3 = 2 ^ 63 + frame + pcid.
Proof. exact cr3_no_flush_sets_bit63. Qed.
Print Assumptions C16_cr3_no_flush_bit.

Theorem C16_debug_registers : forall n v s,
  exists s1 s2, drn_write n v s = Ok (tt, s1) /\ drn_read n s1 = Ok (v, s2) /\
    log s1 = [E_MOVTODR; n; v; 0] :: log s /\ (forall m, m <> n -> dr s1 m = dr s m) /\
    cr s1 = cr s /\ msr s1 = msr s.
Proof. exact drn_roundtrip. Qed.
Print Assumptions C16_debug_registers.

Theorem C16_dr7 : forall v s, Z.land v DR7_VALID = v ->
  exists s1 s2, dr7_write v s = Ok (tt, s1) /\ dr7_read s1 = Ok (v, s2) /\
    Z.land (dr s1 7) (not64 DR7_VALID) = Z.land (dr s 7) (not64 DR7_VALID).
Proof. exact dr7_write_read. Qed.
Print Assumptions C16_dr7.

Theorem C16_dr7_raw_dr6 : forall s v,
  dr7_write_raw v s = Ok (tt, ev [E_MOVTODR; 7; v; 0] (set_dr 7 v s)) /\
  dr7_read_raw s = Ok (dr s 7, ev [E_MOVFROMDR; 7; dr s 7; 0] s) /\
  dr6_read s = Ok (Z.land (dr s 6) DR6_ALL, ev [E_MOVFROMDR; 6; dr s 6; 0] s).
Proof. exact dr7_raw_and_dr6. Qed.
Print Assumptions C16_dr7_raw_dr6.

(* XCR0: every documented invalid combination is rejected before any XSETBV *)
Theorem C16_xcr0_write : forall f s,
  xcr0_write f s =
  if xcr0_valid f then Ok (tt, ev [E_XSETBV; 0; merge (xcr0 s) XCR0_ALL f; 0]
                                (set_xcr0 (merge (xcr0 s) XCR0_ALL f) s))
  else Panic.
Proof. exact xcr0_write_spec. Qed.
Print Assumptions C16_xcr0_write.

Theorem C16_address_msrs : forall n a s, canonical a ->
  exists s1 s2, vaddr_msr_write n a s = Ok (tt, s1) /\ msr s1 n = a /\ vaddr_msr_read n s1 = Ok (a, s2).
Proof. exact vaddr_msr_roundtrip. Qed.
Print Assumptions C16_address_msrs.

Theorem C16_address_msr_read_never_wrong : forall n s v s', u64 (msr s n) ->
  vaddr_msr_read n s = Ok (v, s') -> v = msr s n /\ canonical v.
Proof. exact vaddr_msr_read_never_wrong. Qed.
Print Assumptions C16_address_msr_read_never_wrong.

Theorem C16_star_rejects_without_writing : forall oc a1 a2 a3 a4 s r s',
  star_write oc a1 a2 a3 a4 s = Ok (r, s') -> r <> 0 -> s' = s.
Proof. exact star_write_rejects_without_writing. Qed.
Print Assumptions C16_star_rejects_without_writing.

Theorem C16_star_rejects_the_documented_mismatches : forall oc a1 a2 a3 a4 s,
  0 <= a2 < W16 -> 0 <= a4 < W16 ->
  a1 - 16 <> a2 - 8 \/ a3 <> a4 - 8 \/ a2 mod 4 <> 3 \/ a4 mod 4 <> 0 ->
  exists r, star_write oc a1 a2 a3 a4 s = Ok (r, s) /\ r <> 0.
Proof. exact star_write_decision. Qed.
Print Assumptions C16_star_rejects_the_documented_mismatches.

Theorem C16_star_roundtrip : forall a2 a3 s, 8 <= a2 < W16 - 8 -> a2 mod 4 = 3 ->
  0 <= a3 < W16 - 8 -> a3 mod 4 = 0 ->
  exists s1 s2, star_write true (a2 + 8) a2 a3 (a3 + 8) s = Ok (0, s1) /\
    msr s1 MSR_STAR = (a2 - 8) * 2 ^ 48 + a3 * 2 ^ 32 /\
    star_read true s1 = Ok ([a2 + 8; a2; a3; a3 + 8], s2).
Proof. exact star_write_read_roundtrip. Qed.
Print Assumptions C16_star_roundtrip.

Theorem C16_sfmask : forall v s, Z.land v RFLAGS_ALL = v -> u64 v ->
  exists s1 s2, sfmask_write v s = Ok (tt, s1) /\ msr s1 MSR_SFMASK = v /\ sfmask_read s1 = Ok (v, s2).
Proof. exact sfmask_roundtrip. Qed.
Print Assumptions C16_sfmask.

Theorem C16_cet : forall n flags page s, Z.land flags CET_ALL = flags -> 0 <= flags ->
  canonical page -> page mod 4096 = 0 ->
  exists s1 s2, cet_write n flags page s = Ok (tt, s1) /\ msr s1 n = page + flags /\
                cet_read n s1 = Ok ((flags, page), s2).
Proof. exact cet_roundtrip. Qed.
Print Assumptions C16_cet.

Theorem C16_pat : forall t0 t1 t2 t3 t4 t5 t6 t7 s,
  pat_valid t0 -> pat_valid t1 -> pat_valid t2 -> pat_valid t3 ->
  pat_valid t4 -> pat_valid t5 -> pat_valid t6 -> pat_valid t7 ->
  exists s1 s2, pat_write [t0; t1; t2; t3; t4; t5; t6; t7] s = Ok (tt, s1) /\
                pat_read s1 = Ok ([t0; t1; t2; t3; t4; t5; t6; t7], s2).
Proof. exact pat_roundtrip. Qed.
Print Assumptions C16_pat.

Theorem C16_apic_base : forall frame flags s, frame_ok frame -> Z.land flags APIC_ALL = flags ->
  u64 (msr s MSR_APIC_BASE) ->
  exists s1 s2, apic_write frame flags s = Ok (tt, s1) /\ apic_read s1 = Ok ((frame, flags), s2) /\
    Z.land (msr s1 MSR_APIC_BASE) (not64 (Z.lor APIC_ALL ADDR_MASK)) =
    Z.land (msr s MSR_APIC_BASE) (not64 (Z.lor APIC_ALL ADDR_MASK)).
Proof. exact apic_write_read. Qed.
Print Assumptions C16_apic_base.

Theorem C16_segments : forall n sel s,
  exists s1, seg_set_reg n sel s = Ok (tt, s1) /\ seg_get_reg n s1 = Ok (sel, s1) /\
    (forall m, m <> n -> sreg s1 m = sreg s m) /\
    (n = 1 -> log s1 = [E_RETFQ; sel; 0; 0] :: log s) /\
    (n <> 1 -> native_sel n sel = false -> log s1 = [E_MOVTOSREG; n; sel; 0] :: log s).
Proof. exact seg_set_get. Qed.
Print Assumptions C16_segments.

Theorem C16_swapgs_and_tss : forall s sel,
  (exists s1, gs_swap s = Ok (tt, s1) /\ log s1 = [E_SWAPGS; 0; 0; 0] :: log s /\
    msr s1 MSR_GS_BASE = msr s MSR_KERNEL_GS_BASE /\ msr s1 MSR_KERNEL_GS_BASE = msr s MSR_GS_BASE /\
    (forall m, m <> MSR_GS_BASE -> m <> MSR_KERNEL_GS_BASE -> msr s1 m = msr s m)) /\
  load_tss sel s = Ok (tt, ev [E_LTR; sel; 0; 0] (set_tr sel s)).
Proof. intros s sel. exact (conj (gs_swap_spec s) (load_tss_spec sel s)). Qed.
Print Assumptions C16_swapgs_and_tss.

Theorem C16_asm_blocks_as_modelled : pins_C16 = true.
Proof. exact pins_C16_ok. Qed.
Print Assumptions C16_asm_blocks_as_modelled.

(* every asm! block in this property's domain is, in the current source, exactly the block the
   model was written against: template, operand bindings and the complete option list; and no
   block of the crate is `pure`, `nostack` around a push/pop, or `nomem` with a memory operand *)
Theorem C16_asm_blocks_exact : pins_C16_exact = true.
Proof. exact pins_C16_exact_ok. Qed.
Print Assumptions C16_asm_blocks_exact.
