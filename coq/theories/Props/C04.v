(* C04 - Virtual address <-> page-table indices is an exact bijection. *)
From X86 Require Import Base.Word Addr.Model Addr.Canon Addr.Align Addr.Index.
Open Scope Z_scope.

(* indices and offset are the bit fields 39-47, 30-38, 21-29, 12-20, 0-11 *)
Theorem C04_fields : forall a, u64 a ->
  p4_index a = (a / 2 ^ 39) mod 512 /\ p3_index a = (a / 2 ^ 30) mod 512 /\
  p2_index a = (a / 2 ^ 21) mod 512 /\ p1_index a = (a / 2 ^ 12) mod 512 /\
  page_offset a = a mod 4096.
Proof.
  intros a Ha.
  exact (conj (p4_index_spec a Ha) (conj (p3_index_spec a Ha) (conj (p2_index_spec a Ha)
        (conj (p1_index_spec a Ha) (page_offset_spec a Ha))))).
Qed.
Print Assumptions C04_fields.

Theorem C04_by_level_accessor : forall a, u64 a ->
  page_table_index a 1 = p1_index a /\ page_table_index a 2 = p2_index a /\
  page_table_index a 3 = p3_index a /\ page_table_index a 4 = p4_index a.
Proof. exact page_table_index_spec. Qed.
Print Assumptions C04_by_level_accessor.

Theorem C04_fields_recompose : forall a, canonical a ->
  a mod 2 ^ 48 = p4_index a * 2 ^ 39 + p3_index a * 2 ^ 30 + p2_index a * 2 ^ 21 +
                 p1_index a * 2 ^ 12 + page_offset a.
Proof. exact indices_compose. Qed.
Print Assumptions C04_fields_recompose.

Theorem C04_ranges : forall a,
  0 <= p1_index a < 512 /\ 0 <= p2_index a < 512 /\ 0 <= p3_index a < 512 /\
  0 <= p4_index a < 512 /\ 0 <= page_offset a < 4096 /\
  forall l, 0 <= page_table_index a l < 512.
Proof. exact index_ranges. Qed.
Print Assumptions C04_ranges.

(* building a page from indices is the exact inverse: the unique canonical aligned page *)
Theorem C04_from_indices_4k : forall p4 p3 p2 p1,
  0 <= p4 < 512 -> 0 <= p3 < 512 -> 0 <= p2 < 512 -> 0 <= p1 < 512 ->
  exists pg, from_indices_4k p4 p3 p2 p1 = Ok pg /\ canonical pg /\ pg mod S4K = 0 /\
    p4_index pg = p4 /\ p3_index pg = p3 /\ p2_index pg = p2 /\ p1_index pg = p1 /\
    pg mod P48 = compose4 p4 p3 p2 p1 /\
    (forall pg', canonical pg' -> pg' mod S4K = 0 ->
       p4_index pg' = p4 -> p3_index pg' = p3 -> p2_index pg' = p2 -> p1_index pg' = p1 ->
       pg' = pg).
Proof. exact from_indices_4k_spec. Qed.
Print Assumptions C04_from_indices_4k.

Theorem C04_from_indices_2m : forall p4 p3 p2,
  0 <= p4 < 512 -> 0 <= p3 < 512 -> 0 <= p2 < 512 ->
  exists pg, from_indices_2m p4 p3 p2 = Ok pg /\ canonical pg /\ pg mod S2M = 0 /\
    p4_index pg = p4 /\ p3_index pg = p3 /\ p2_index pg = p2 /\
    (forall pg', canonical pg' -> pg' mod S2M = 0 ->
       p4_index pg' = p4 -> p3_index pg' = p3 -> p2_index pg' = p2 -> pg' = pg).
Proof. exact from_indices_2m_spec. Qed.
Print Assumptions C04_from_indices_2m.

Theorem C04_from_indices_1g : forall p4 p3,
  0 <= p4 < 512 -> 0 <= p3 < 512 ->
  exists pg, from_indices_1g p4 p3 = Ok pg /\ canonical pg /\ pg mod S1G = 0 /\
    p4_index pg = p4 /\ p3_index pg = p3 /\
    (forall pg', canonical pg' -> pg' mod S1G = 0 ->
       p4_index pg' = p4 -> p3_index pg' = p3 -> pg' = pg).
Proof. exact from_indices_1g_spec. Qed.
Print Assumptions C04_from_indices_1g.

(* index and offset constructors over all u16 *)
Theorem C04_index_constructors : forall i, u16 i ->
  pti_new i = (if i <? 512 then Ok i else Panic) /\
  (pti_new_truncate i = i mod 512 /\ 0 <= pti_new_truncate i < 512) /\
  po_new i = (if i <? 4096 then Ok i else Panic) /\
  (po_new_truncate i = i mod 4096 /\ 0 <= po_new_truncate i < 4096).
Proof.
  intros i Hi. exact (conj (pti_new_spec i Hi) (conj (pti_new_truncate_spec i Hi)
    (conj (po_new_spec i Hi) (po_new_truncate_spec i Hi)))).
Qed.
Print Assumptions C04_index_constructors.

Theorem C04_levels : forall l, 1 <= l <= 4 ->
  next_lower_level l = (if l =? 1 then None else Some (l - 1)) /\
  next_higher_level l = (if l =? 4 then None else Some (l + 1)) /\
  table_alignment l = 2 ^ (9 * l + 12) /\ entry_alignment l = 2 ^ (9 * (l - 1) + 12).
Proof. exact level_helpers. Qed.
Print Assumptions C04_levels.

Theorem C04_levels_inverse : forall l l', 1 <= l <= 4 -> 1 <= l' <= 4 ->
  (next_lower_level l = Some l' <-> next_higher_level l' = Some l).
Proof. exact level_inverse. Qed.
Print Assumptions C04_levels_inverse.
