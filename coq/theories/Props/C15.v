(* C15 - Segment/TSS descriptors and the TSS have the architectural encoding.
   Partial: repr(C, packed(N)) layout is modelled by a layout function and observed on the
   compiled structs, the compiler's layout algorithm is not proved. *)
From X86 Require Import Base.Word Addr.Model Codec.Codec Tables.Gdt Tables.GdtProofs Arch.Manual.
Open Scope Z_scope.

(* all 2^64 TSS addresses *)
Theorem C15_tss_descriptor : forall p, u64 p ->
  exists lo hi, tss_segment p = Ok (SysSeg lo hi) /\
    decode_sys16 lo hi =
    {| s_base := p; s_limit := 103; s_type := TSS_AVAILABLE_64; s_s := 0; s_dpl := 0; s_p := 1;
       s_avl_g := 0; s_reserved := 0 |}.
Proof. exact tss_segment_decodes. Qed.
Print Assumptions C15_tss_descriptor.

Theorem C15_presets_are_the_linux_values :
  [DF_KERNEL_DATA; DF_KERNEL_CODE32; DF_KERNEL_CODE64; DF_USER_DATA; DF_USER_CODE32; DF_USER_CODE64] =
  [0x00cf93000000ffff; 0x00cf9b000000ffff; 0x00af9b000000ffff; 0x00cff3000000ffff; 0x00cffb000000ffff; 0x00affb000000ffff].
Proof. exact presets_values. Qed.
Print Assumptions C15_presets_are_the_linux_values.

Theorem C15_presets_decode :
  map decode_seg8 [DF_KERNEL_CODE64; DF_KERNEL_CODE32; DF_KERNEL_DATA; DF_USER_CODE64; DF_USER_CODE32; DF_USER_DATA] =
  [ {| d_executable := 1; d_s := 1; d_dpl := 0; d_p := 1; d_l := 1; d_db := 0; d_g := 1; d_writable := 1; d_limit := 1048575 |};
    {| d_executable := 1; d_s := 1; d_dpl := 0; d_p := 1; d_l := 0; d_db := 1; d_g := 1; d_writable := 1; d_limit := 1048575 |};
    {| d_executable := 0; d_s := 1; d_dpl := 0; d_p := 1; d_l := 0; d_db := 1; d_g := 1; d_writable := 1; d_limit := 1048575 |};
    {| d_executable := 1; d_s := 1; d_dpl := 3; d_p := 1; d_l := 1; d_db := 0; d_g := 1; d_writable := 1; d_limit := 1048575 |};
    {| d_executable := 1; d_s := 1; d_dpl := 3; d_p := 1; d_l := 0; d_db := 1; d_g := 1; d_writable := 1; d_limit := 1048575 |};
    {| d_executable := 0; d_s := 1; d_dpl := 3; d_p := 1; d_l := 0; d_db := 1; d_g := 1; d_writable := 1; d_limit := 1048575 |} ].
Proof. exact presets_decode. Qed.
Print Assumptions C15_presets_decode.

(* dpl() returns the encoded level for every 64-bit pattern and never panics *)
Theorem C15_dpl : forall d, u64 (desc_low d) -> desc_dpl d = Ok (bitsf (desc_low d) 45 2).
Proof. exact desc_dpl_spec. Qed.
Print Assumptions C15_dpl.

Theorem C15_layouts :
  tss_layout = ([0; 4; 28; 36; 92; 100; 102], 104) /\ tss_new_iomap_base = 104 /\
  dtp_layout = ([0; 2], 10).
Proof. exact layouts. Qed.
Print Assumptions C15_layouts.
