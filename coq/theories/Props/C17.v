(* C17 - without_interrupts restores the interrupt flag; enable_and_hlt is atomic.
   Partial: that an asm! block without `nomem` is a compiler barrier is a rustc contract,
   outside the model; the flag is the emulated IF of the software CPU (hook H2). *)
From X86 Require Import Base.Word Machine.Wrappers Machine.Proofs Machine.AsmPins Machine.AsmPinsC17.
Open Scope Z_scope.

Theorem C17_are_enabled_reports_flag : forall s, are_enabled s = Ok (iflag s, s).
Proof. exact are_enabled_reports_flag. Qed.
Print Assumptions C17_are_enabled_reports_flag.

Theorem C17_enable_disable : forall s,
  int_enable s = Ok (tt, ev [E_STI; 0; 0; 0] (set_if true s)) /\
  int_disable s = Ok (tt, ev [E_CLI; 0; 0; 0] (set_if false s)).
Proof. exact enable_sets_flag. Qed.
Print Assumptions C17_enable_disable.

Theorem C17_flag_change_touches_nothing_else : forall b s,
  cr (set_if b s) = cr s /\ dr (set_if b s) = dr s /\ msr (set_if b s) = msr s /\
  xcr0 (set_if b s) = xcr0 s /\ sreg (set_if b s) = sreg s /\ tr (set_if b s) = tr s /\
  gdtr (set_if b s) = gdtr s /\ idtr (set_if b s) = idtr s /\ iflag (set_if b s) = b.
Proof. exact set_if_changes_only_if. Qed.
Print Assumptions C17_flag_change_touches_nothing_else.

(* the closure runs exactly once: the call is [cli] f [sti] when enabled, f alone otherwise *)
Theorem C17_runs_closure_exactly_once : forall (R : Type) (f : M R) s,
  without_interrupts f s =
  if iflag s then
    (let* _ := int_disable in let* r := f in let* _ := int_enable in ret r) s
  else (let* r := f in ret r) s.
Proof. exact @without_interrupts_unfold. Qed.
Print Assumptions C17_runs_closure_exactly_once.

(* with the flag clear, returning the closure's result, leaving the flag as it was *)
Theorem C17_without_interrupts : forall (R : Type) (f : M R) s r s', preserves_if f ->
  without_interrupts f s = Ok (r, s') ->
  iflag s' = iflag s /\ exists s1 s2, f s1 = Ok (r, s2) /\ iflag s1 = false.
Proof. exact @without_interrupts_spec. Qed.
Print Assumptions C17_without_interrupts.

(* every nesting depth and branching: induction over the nesting tree *)
Theorem C17_every_nesting_restores_flag : forall b, leaves_ok b -> preserves_if (denote b).
Proof. exact nesting_restores_flag. Qed.
Print Assumptions C17_every_nesting_restores_flag.

Theorem C17_enable_and_hlt_back_to_back : forall s,
  enable_and_hlt s = Ok (tt, ev [E_HLT; 0; 0; 1] (ev [E_STI; 0; 0; 0] (set_if true s))).
Proof. exact enable_and_hlt_spec. Qed.
Print Assumptions C17_enable_and_hlt_back_to_back.

(* the source says so: one asm! block "sti; hlt"; enable/disable are not `nomem`
   (table regenerated from /repo's asm! blocks on every run) *)
Theorem C17_asm_blocks_as_modelled : pins_C17 = true.
Proof. exact pins_C17_ok. Qed.
Print Assumptions C17_asm_blocks_as_modelled.

(* every asm! block in this property's domain is, in the current source, exactly the block the
   model was written against: template, operand bindings and the complete option list; and no
   block of the crate is `pure`, `nostack` around a push/pop, or `nomem` with a memory operand *)
Theorem C17_asm_blocks_exact : pins_C17_exact = true.
Proof. exact pins_C17_exact_ok. Qed.
Print Assumptions C17_asm_blocks_exact.
