(* C01 - Page tables built by any mapper mean what an MMU would read from them.
   The theorems are about the abstract tree model (Paging/Tree.v), parameterised over the
   mapper kind; the three implementations (OffsetPageTable, MappedPageTable, RecursivePageTable)
   are tied to it -- and to the slot-by-slot memory models Paging/Mapped.v, Paging/Recursive.v --
   by the correspondence check on whole call histories (engines "tree" and "map").
   For MappedPageTable/OffsetPageTable the refinement memory model -> tree is PROVED for
   map_to, unmap, update_flags, set_flags_p4/p3/p2_entry and translate_page (Paging/Refine*.v: a representation relation
   with a separation invariant over table and allocator frames), and with it the main statement
   at the level of raw table memory (C01_raw_memory_walk_is_history_dictated).
   (clean_up calls of any range may occur anywhere in those histories:
   C01_raw_memory_walk_with_cleanups.)  For RecursivePageTable the READ path is proved
   (C01_recursive_translate_page_reads_the_tree: its walk through the recursive addresses reaches
   the slot the tree walk reaches), its unmap / update_flags / parent-flag calls / translate_page
   are proved equal to MappedPageTable's on memory (Props/C02.v), and its map_to is proved equal to
   MappedPageTable's map_to with the recursive mapper's creation flags
   (C01_recursive_map_to_is_mapped_map_to), whose refinement to the tree operation of the
   recursive kind is C01_map_to_of_either_kind_refines_tree.  Whole histories with clean-ups run on
   the MappedPageTable memory model exactly as on the tree model
   (C01_mapped_memory_model_equals_tree_model).  For RecursivePageTable the same is proved for
   histories of map / unmap / update_flags / parent-flag calls on pages outside the recursive slot
   (C01_recursive_step_refines_tree, C01_recursive_raw_memory_walk_is_history_dictated): the
   level-4 table is represented partially (every slot but the recursive one, Paging/RecRefineTop.v),
   the recursive slot is shown untouched.  Partial: RecursivePageTable's clean-up is checked by the
   correspondence, not proved. *)
From X86 Require Import Paging.Mapped Paging.Tree Paging.TreeProofs Paging.Refine Paging.RefineOps Paging.RefineParent Paging.RefineWalk Paging.RefineHistory Paging.RefineClean Paging.RefineHistoryClean Paging.Recursive Paging.RecResolve Paging.RecRead Paging.RecMap Paging.RecRefineTop Paging.RecRefine Paging.RefineTranslate Paging.RecFull Paging.RefineFull Paging.TreeClean Paging.Run.
Open Scope Z_scope.

(* after ANY history from the empty level-4 table, every index path reaches exactly the leaf the
   successful calls dictate (last successful map / update_flags, minus unmaps), and nothing
   otherwise; `dictated` is computed from the calls and their results alone *)
Theorem C01_history_dictates_every_translation : forall rec r allocs ops s' outs,
  run_history rec r (t_init allocs) ops = (s', outs) ->
  forall path, lookup (t_root s') path = dictated (fun _ => None) ops outs path.
Proof. exact history_dictates_from_empty. Qed.
Print Assumptions C01_history_dictates_every_translation.

(* one call: exactly the paths below the mapped page change, to the stored leaf *)
Theorem C01_map_sets_exactly_the_page : forall rec idxs ch w frame page pf a ch' a' r,
  map_path rec ch idxs w frame page pf a = (ch', a', r) ->
  forall path,
    lookup ch' path =
      if is_ok r && prefix idxs path then Some (w, (length path - length idxs)%nat) else lookup ch path.
Proof. exact map_path_lookup. Qed.
Print Assumptions C01_map_sets_exactly_the_page.

(* translate, translate_addr (frame + offset of translate) and the independent hardware-style
   walk all report the leaf that `lookup` reaches: same frame, size, offset and leaf flags *)
Theorem C01_translate_and_hardware_walk_agree : forall ch va,
  match lookup ch (idx_list 0 va) with
  | None => t_translate ch va = [E_NOT_MAPPED] /\ t_hw ch va = [NONE]
  | Some (w, n) =>
      let size := size_of_rem n in
      t_translate ch va =
        [0; size; leaf_addr w - leaf_addr w mod size; Z.land va (size - 1); e_flags w] /\
      exists wr us,
        t_hw ch va = [leaf_addr w - leaf_addr w mod size + Z.land va (size - 1); size; w; b2z wr; b2z us]
  end.
Proof. exact translate_hw_agree. Qed.
Print Assumptions C01_translate_and_hardware_walk_agree.

Theorem C01_translate_page_reads_the_leaf : forall ch idxs k, idxs <> [] ->
  match t_translate_page ch idxs k with
  | [0; f] => exists w, lookup ch idxs = Some (w, O) /\ f = leaf_addr w
  | c :: _ => c < 0
  | [] => False
  end.
Proof. exact TreeProofs.t_translate_page_lookup. Qed.
Print Assumptions C01_translate_page_reads_the_leaf.

(* an unmap returns the frame stored in the leaf and names the page; the stored leaf holds the
   frame given to map (outside known finding F7b: no PAT_HUGE_PAGE/address bits in the flags) *)
Theorem C01_unmap_returns_the_frame : forall ch idxs k page ch' o, idxs <> [] ->
  t_unmap ch idxs k page = (ch', o) ->
  (exists w, o = [0; leaf_addr w; page] /\ slot_at ch idxs = inl (Leaf w) /\
     forall path, lookup ch' path = if prefix idxs path then None else lookup ch path)
  \/ (ch' = ch /\ exists c rest, o = c :: rest /\ c < 0).
Proof. exact t_unmap_lookup. Qed.
Print Assumptions C01_unmap_returns_the_frame.

Theorem C01_leaf_stores_the_frame : forall k frame flags,
  Z.land frame ADDR_MASK = frame -> Z.land flags ADDR_MASK = 0 ->
  leaf_addr (leaf_word k frame flags) = frame.
Proof. exact leaf_word_addr. Qed.
Print Assumptions C01_leaf_stores_the_frame.

(* the effective rights along the walk include the requested parent flags *)
Theorem C01_parents_carry_requested_flags : forall rec idxs ch w frame page pf a ch' a' o,
  0 <= pf -> flags_nonneg ch idxs ->
  map_path rec ch idxs w frame page pf a = (ch', a', TOk o) ->
  parents_have ch' idxs pf.
Proof. exact map_path_parents. Qed.
Print Assumptions C01_parents_carry_requested_flags.

Theorem C01_walk_rights_are_leaf_rights_when_parents_grant : forall ch idxs pf lvl wr us w l a b,
  parents_have ch idxs pf ->
  t_walk ch idxs lvl wr us = Some (w, l, a, b) ->
  l = lvl - Z.of_nat (length idxs) + 1 ->
  (Z.testbit pf 1 = true -> a = (wr && Z.testbit w 1)%bool) /\
  (Z.testbit pf 2 = true -> b = (us && Z.testbit w 2)%bool).
Proof. exact walk_rights. Qed.
Print Assumptions C01_walk_rights_are_leaf_rights_when_parents_grant.

(* flag updates and parent-flag calls *)
Theorem C01_update_flags_replaces_exactly_the_leaf_flags : forall ch idxs k page flags ch' o, idxs <> [] ->
  t_update_flags ch idxs k page flags = (ch', o) ->
  (exists w, o = [0; page] /\ slot_at ch idxs = inl (Leaf w) /\
     forall path, lookup ch' path =
       if prefix idxs path
       then Some (Z.lor (leaf_addr w) (if k =? 0 then flags else Z.lor flags PTF_HUGE),
                  (length path - length idxs)%nat)
       else lookup ch path)
  \/ (ch' = ch /\ exists c rest, o = c :: rest /\ c < 0).
Proof. exact t_update_flags_lookup. Qed.
Print Assumptions C01_update_flags_replaces_exactly_the_leaf_flags.

Theorem C01_parent_flag_calls_change_no_translation : forall ch idxs flags ch' o,
  t_set_flags_parent ch idxs flags = (ch', o) ->
  forall path, lookup ch' path = lookup ch path.
Proof. exact t_set_flags_parent_lookup. Qed.
Print Assumptions C01_parent_flag_calls_change_no_translation.

(* known finding F7b, as a theorem about the faithful model: a 2 MiB page mapped with
   PAT_HUGE_PAGE cannot be translated or unmapped *)
Theorem C01_huge_pat_flag_refuted :
  let ops := [OMap 1 1073741824 2097152 4097 1; OTranslatePage 1 1073741824; OUnmap 1 1073741824] in
  snd (run_history false 0 (t_init [1048576; 2097152; 3145728]) ops)
  = [[0; 1073741824]; [E_INVALID_FRAME; 2101248]; [E_INVALID_FRAME; 2101248]].
Proof. exact F7b_witness. Qed.
Print Assumptions C01_huge_pat_flag_refuted.

(* the slot-by-slot memory model of MappedPageTable::map_to refines the tree operation: from a
   state that represents a tree (Rep, with the table frames and the allocator's frames pairwise
   distinct) it returns what map_path returns and reaches a state that represents map_path's
   tree; memory outside the hierarchy's frames and the allocator's frames is untouched *)
Theorem C01_map_to_memory_model_refines_tree : forall s ch k page frame flags pf,
  0 <= k <= 2 ->
  rep 4 s ch (root s) -> tframe (root s) -> sep s (root s) ch -> pflags_ok pf ->
  leaf_ok (Z.to_nat (k + 1)) (leaf_word k frame flags) ->
  exists s' o ch' a' r,
    map_to s k page frame flags pf = Ok (s', o) /\
    map_path false ch (idx_list k page) (leaf_word k frame flags) frame page pf (aor_of s) = (ch', a', r) /\
    o = out_of r /\ aor_of s' = a' /\ root s' = root s /\ freed s' = freed s /\
    rep 4 s' ch' (root s') /\ sep s' (root s') ch' /\
    (forall a, 0 <= a -> ~ in_frames (root s :: frames_of ch ++ va s) a -> rd s' a = rd s a).
Proof. exact map_to_refines. Qed.
Print Assumptions C01_map_to_memory_model_refines_tree.

Theorem C01_empty_table_represents_the_empty_tree : forall rootf allocs r,
  0 <= rootf -> rootf mod 4096 = 0 -> rep 4 (init_pstate rootf allocs r) empty_children rootf.
Proof. exact rep_init. Qed.
Print Assumptions C01_empty_table_represents_the_empty_tree.

(* unmap / update_flags / translate_page of the memory model refine the tree operations *)
Theorem C01_unmap_memory_model_refines_tree : forall s ch k page,
  0 <= k <= 2 -> rep 4 s ch (root s) -> tframe (root s) -> sep s (root s) ch ->
  let s' := fst (unmap s k page) in
  let ch' := fst (t_unmap ch (idx_list k page) k page) in
  snd (unmap s k page) = snd (t_unmap ch (idx_list k page) k page) /\
  rep 4 s' ch' (root s') /\ sep s' (root s') ch' /\ MemProofs.same_alloc s s' /\
  (forall a, 0 <= a -> ~ in_frames (root s :: frames_of ch) a -> rd s' a = rd s a).
Proof. exact unmap_refines. Qed.
Print Assumptions C01_unmap_memory_model_refines_tree.

Theorem C01_update_flags_memory_model_refines_tree : forall s ch k page flags,
  0 <= k <= 2 -> rep 4 s ch (root s) -> tframe (root s) -> sep s (root s) ch ->
  0 <= flags < W64 -> Z.testbit flags 0 = true ->
  let s' := fst (update_flags s k page flags) in
  let ch' := fst (t_update_flags ch (idx_list k page) k page flags) in
  snd (update_flags s k page flags) = snd (t_update_flags ch (idx_list k page) k page flags) /\
  rep 4 s' ch' (root s') /\ sep s' (root s') ch' /\ MemProofs.same_alloc s s' /\
  (forall a, 0 <= a -> ~ in_frames (root s :: frames_of ch) a -> rd s' a = rd s a).
Proof. exact update_flags_refines. Qed.
Print Assumptions C01_update_flags_memory_model_refines_tree.

Theorem C01_translate_page_memory_model_refines_tree : forall s ch k page,
  0 <= k <= 2 -> rep 4 s ch (root s) -> tframe (root s) ->
  translate_page s k page = t_translate_page ch (idx_list k page) k.
Proof. exact translate_page_refines. Qed.
Print Assumptions C01_translate_page_memory_model_refines_tree.

Theorem C01_parent_flag_calls_memory_model_refines_tree : forall s ch k level page flags fr r0,
  2 <= level <= 4 -> 0 <= k <= 2 -> rep 4 s ch (root s) -> tframe (root s) -> sep s (root s) ch ->
  pflags_ok flags ->
  let s' := fst (set_flags_parent s k level page flags) in
  let r := apply_op false r0 {| t_root := ch; t_aor := aor_of s; t_freed := fr |} (OSetParent k level page flags) in
  snd (set_flags_parent s k level page flags) = snd r /\ t_aor (fst r) = aor_of s /\ t_freed (fst r) = fr /\
  rep 4 s' (t_root (fst r)) (root s') /\ sep s' (root s') (t_root (fst r)) /\ MemProofs.same_alloc s s' /\
  (forall a, 0 <= a -> ~ in_frames (root s :: frames_of ch) a -> rd s' a = rd s a).
Proof. exact set_flags_parent_refines. Qed.
Print Assumptions C01_parent_flag_calls_memory_model_refines_tree.

(* under the representation relation the independent hardware-style walk of the raw memory is
   the tree walk *)
Theorem C01_hardware_walk_of_memory_is_the_tree_walk : forall s ch va,
  rep 4 s ch (root s) -> enc_walk (hw_walk s va) = t_hw ch va.
Proof. exact hw_walk_rep. Qed.
Print Assumptions C01_hardware_walk_of_memory_is_the_tree_walk.

(* THE statement of C01 at the level of raw table memory, for MappedPageTable/OffsetPageTable
   and histories of map / unmap / update_flags / set_flags_p*_entry calls of the three sizes: from an empty level-4
   table, with an allocator whose frames are 4 KiB aligned, pairwise distinct and different from
   the root (the FrameAllocator contract, hypothesis `sep`), the hardware walk of the final
   memory returns for every virtual address exactly the leaf, size and physical address the
   successful calls dictate, and nothing where they dictate nothing *)
Theorem C01_raw_memory_walk_is_history_dictated : forall rootf allocs ri ops s' outs,
  tframe rootf -> sep (init_pstate rootf allocs ri) rootf empty_children ->
  Forall mop_ok ops ->
  mem_run (init_pstate rootf allocs ri) ops = Ok (s', outs) ->
  forall va,
    match dictated (fun _ => None) (map to_top ops) outs (idx_list 0 va) with
    | None => hw_walk s' va = None
    | Some (w, n) =>
        exists wr us,
          enc_walk (hw_walk s' va) =
            [leaf_addr w - leaf_addr w mod size_of_rem n + Z.land va (size_of_rem n - 1);
             size_of_rem n; w; b2z wr; b2z us]
    end.
Proof. exact memory_walk_is_history_dictated. Qed.
Print Assumptions C01_raw_memory_walk_is_history_dictated.

(* the hypotheses are satisfiable: a concrete allocator and history *)
Theorem C01_raw_memory_hypotheses_satisfiable :
  let allocs := [2097152; 3145728; 5242880; -1] in
  let ops := [MMap 0 4096 8192 3 7; MMap 1 2097152 4194304 1 1; MSetParent 0 4 4096 3; MUnmap 0 4096; MUpdate 1 2097152 3] in
  tframe 1048576 /\ sep (init_pstate 1048576 allocs 0) 1048576 empty_children /\ Forall mop_ok ops /\
  exists s' outs, mem_run (init_pstate 1048576 allocs 0) ops = Ok (s', outs) /\
    outs = [[0; 4096]; [0; 2097152]; [0]; [0; 8192; 4096]; [0; 2097152]].
Proof. exact hypotheses_satisfiable. Qed.
Print Assumptions C01_raw_memory_hypotheses_satisfiable.

(* ... and with clean_up / clean_up_addr_range calls over ANY range anywhere in the history *)
Theorem C01_raw_memory_walk_with_cleanups : forall rootf allocs ri ops s' outs,
  tframe rootf -> sep (init_pstate rootf allocs ri) rootf empty_children ->
  Forall cop_ok ops ->
  cmem_run (init_pstate rootf allocs ri) ops = Ok (s', outs) ->
  forall va,
    match dictated (fun _ => None) (map cop_top ops) outs (idx_list 0 va) with
    | None => hw_walk s' va = None
    | Some (w, n) =>
        exists wr us,
          enc_walk (hw_walk s' va) =
            [leaf_addr w - leaf_addr w mod size_of_rem n + Z.land va (size_of_rem n - 1);
             size_of_rem n; w; b2z wr; b2z us]
    end.
Proof. exact memory_walk_is_history_dictated_with_cleanup. Qed.
Print Assumptions C01_raw_memory_walk_with_cleanups.

(* RecursivePageTable, read path: with the recursive slot pointing to the level-4 table and every
   other slot of it representing the tree (repx), translate_page -- which reaches every lower
   table through the recursive addresses p3_page/p2_page/p1_page, resolved by the hardware-style
   walk -- returns exactly what the tree says, for every page outside the recursive slot *)
Theorem C01_recursive_translate_page_reads_the_tree : forall s ch k page,
  0 <= k <= 2 -> 0 <= rec_index s < 512 -> repx (rec_index s) s ch -> p4_index page <> rec_index s ->
  rtranslate_page s k page = Ok (s, t_translate_page ch (idx_list k page) k).
Proof. exact rtranslate_page_repx. Qed.
Print Assumptions C01_recursive_translate_page_reads_the_tree.

(* map_to with the creation flags of either mapper kind refines the tree operation of that kind *)
Theorem C01_map_to_of_either_kind_refines_tree : forall rc s ch k page frame flags pf,
  0 <= k <= 2 ->
  rep 4 s ch (root s) -> tframe (root s) -> sep s (root s) ch -> pflags_ok pf ->
  leaf_ok (Z.to_nat (k + 1)) (leaf_word k frame flags) ->
  exists s' o ch' a' r,
    map_to_rc rc s k page frame flags pf = Ok (s', o) /\
    map_path rc ch (idx_list k page) (leaf_word k frame flags) frame page pf (aor_of s) = (ch', a', r) /\
    o = out_of r /\ aor_of s' = a' /\ root s' = root s /\ freed s' = freed s /\
    rep 4 s' ch' (root s') /\ sep s' (root s') ch' /\
    (forall a, 0 <= a -> ~ in_frames (root s :: frames_of ch ++ va s) a -> rd s' a = rd s a).
Proof. exact map_to_rc_refines. Qed.
Print Assumptions C01_map_to_of_either_kind_refines_tree.

(* RecursivePageTable::map_to (every lower table reached through a recursive address resolved by
   the hardware-style walk, new tables zeroed through that address) computes exactly the result and
   the memory of MappedPageTable's map_to with the recursive creation flags *)
Theorem C01_recursive_map_to_is_mapped_map_to : forall s ch k page frame flags pf,
  0 <= k <= 2 -> 0 <= rec_index s < 512 -> repx (rec_index s) s ch -> tframe (root s) ->
  sep s (root s) ch -> pflags_ok pf -> p4_index page <> rec_index s ->
  rmap_to s k page frame flags pf = map_to_rc true s k page frame flags pf.
Proof. exact rmap_to_eq. Qed.
Print Assumptions C01_recursive_map_to_is_mapped_map_to.

(* MappedPageTable/OffsetPageTable, whole histories with clean-ups: memory model = tree model *)
Theorem C01_mapped_memory_model_equals_tree_model : forall rootf allocs ri ops,
  tframe rootf -> sep (init_pstate rootf allocs ri) rootf empty_children -> Forall cop_ok2 ops ->
  exists s' ch',
    cmem_run (init_pstate rootf allocs ri) ops = Ok (s', snd (tree_run 0 (t_init allocs) (map cop_top ops))) /\
    fst (tree_run 0 (t_init allocs) (map cop_top ops)) = tst ch' s' (rev (freed s')) /\
    Inv s' ch' /\ wf_children ch'.
Proof. exact mapped_model_refines_tree_model. Qed.
Print Assumptions C01_mapped_memory_model_equals_tree_model.

(* RecursivePageTable, one call on table memory with an intact recursive slot: the result is the
   tree operation's of the recursive kind, the memory afterwards represents its tree, the
   recursive slot and the invariant are preserved *)
Theorem C01_recursive_step_refines_tree : forall r s ch fr o,
  rInv r s ch -> mop_ok o -> p4_index (mop_page o) <> r ->
  exists s' out ch', rmem_apply s o = Ok (s', out) /\
    apply_op true r (tst ch s fr) (to_top o) = (tst ch' s' fr, out) /\ rInv r s' ch'.
Proof. exact rstep_refines. Qed.
Print Assumptions C01_recursive_step_refines_tree.

(* C01 at the level of raw table memory for RecursivePageTable: after any history of map / unmap /
   update_flags / parent-flag calls (pages outside the recursive slot) from a level-4 table that
   holds only its recursive entry, the hardware walk of every address outside the recursive slot
   returns what the successful calls dictate *)
Theorem C01_recursive_raw_memory_walk_is_history_dictated : forall rootf allocs r ops s' outs,
  0 <= r < 512 -> tframe rootf -> sep (init_pstate rootf allocs r) rootf empty_children ->
  Forall mop_ok ops -> Forall (fun o => p4_index (mop_page o) <> r) ops ->
  rmem_run (rinit rootf allocs r) ops = Ok (s', outs) ->
  forall va, p4_index va <> r ->
    match dictated (fun _ => None) (map to_top ops) outs (idx_list 0 va) with
    | None => hw_walk s' va = None
    | Some (w, n) =>
        exists wr us,
          enc_walk (hw_walk s' va) =
            [leaf_addr w - leaf_addr w mod size_of_rem n + Z.land va (size_of_rem n - 1);
             size_of_rem n; w; b2z wr; b2z us]
    end.
Proof. exact recursive_memory_walk_is_history_dictated. Qed.
Print Assumptions C01_recursive_raw_memory_walk_is_history_dictated.

(* all read paths of the MEMORY models report the leaf the tree reaches: translate and
   translate_addr (MappedPageTable/OffsetPageTable; never panic: frame + offset < 2^52),
   translate_page, and the independent hardware-style walk *)
Theorem C01_memory_read_paths_agree : forall s ch va,
  rep 4 s ch (root s) -> tframe (root s) ->
  match lookup ch (idx_list 0 va) with
  | None =>
      translate s va = Ok [E_NOT_MAPPED] /\ translate_addr s va = Ok [NONE] /\
      translate_page s 0 va = [E_NOT_MAPPED] /\ enc_walk (hw_walk s va) = [NONE]
  | Some (w, n) =>
      let size := size_of_rem n in
      let f := leaf_addr w - leaf_addr w mod size in
      let off := Z.land va (size - 1) in
      (n <= 2)%nat /\
      translate s va = Ok [0; size; f; off; e_flags w] /\
      translate_addr s va = Ok [f + off] /\
      translate_page s (Z.of_nat n) va =
        (if leaf_addr w mod size =? 0 then [0; leaf_addr w] else [E_INVALID_FRAME; leaf_addr w]) /\
      exists wr us, enc_walk (hw_walk s va) = [f + off; size; w; b2z wr; b2z us]
  end.
Proof. exact read_paths_agree. Qed.
Print Assumptions C01_memory_read_paths_agree.

(* RecursivePageTable::translate (every table reached through a recursive address) returns what
   the tree says, for every address outside the recursive slot - canonical or not *)
Theorem C01_recursive_translate_reads_the_tree : forall s ch va,
  0 <= rec_index s < 512 -> repx (rec_index s) s ch -> p4_index va <> rec_index s ->
  rtranslate s va = Ok (s, t_translate ch va).
Proof. exact rtranslate_refines. Qed.
Print Assumptions C01_recursive_translate_reads_the_tree.

(* RecursivePageTable, whole histories WITH clean-ups (pages outside the recursive slot, any
   clean-up range): the memory model never panics or faults, answers every call as the tree
   model of the recursive kind does, and ends in memory representing the tree model's tree with
   its allocator state and released-frame log, recursive slot intact *)
Theorem C01_recursive_memory_model_equals_tree_model : forall rootf allocs r ops,
  0 <= r < 512 -> tframe rootf -> sep (init_pstate rootf allocs r) rootf empty_children ->
  Forall cop_ok2 ops -> Forall (cop_outside r) ops ->
  exists s' ch',
    rcmem_run (rinit rootf allocs r) ops = Ok (s', snd (tree_run_k true r (t_init allocs) (map cop_top ops))) /\
    fst (tree_run_k true r (t_init allocs) (map cop_top ops)) = tst ch' s' (rev (freed s')) /\
    rInv r s' ch' /\ wf_children ch' /\ faulted s' = false.
Proof. exact recursive_model_refines_tree_model. Qed.
Print Assumptions C01_recursive_memory_model_equals_tree_model.
