(* C05 - Stepping treats the canonical address space as one contiguous sequence. *)
From X86 Require Import Base.Word Addr.Model Addr.Canon Addr.Align Addr.Step.
Open Scope Z_scope.

(* pos/unpos: the order isomorphism between canonical addresses and 0 .. 2^48-1 *)
Theorem C05_position_bijection :
  (forall a, canonical a -> 0 <= pos a < 2 ^ 48 /\ unpos (pos a) = a) /\
  (forall p, 0 <= p < 2 ^ 48 -> canonical (unpos p) /\ pos (unpos p) = p) /\
  (forall a b, canonical a -> canonical b -> (a <= b <-> pos a <= pos b)).
Proof.
  exact (conj (fun a H => conj (pos_range a H) (unpos_pos a H))
        (conj (fun p H => conj (unpos_canonical p H) (pos_unpos p H)) pos_mono)).
Qed.
Print Assumptions C05_position_bijection.

Theorem C05_forward : forall a n, canonical a -> u64 n ->
  forward_checked_u64 a n =
  Ok (if pos a + n <? 2 ^ 48 then Some (unpos (pos a + n)) else None).
Proof. exact forward_spec. Qed.
Print Assumptions C05_forward.

Theorem C05_backward : forall a n, canonical a -> u64 n ->
  backward_checked_u64 a n =
  Ok (if n <=? pos a then Some (unpos (pos a - n)) else None).
Proof. exact backward_spec. Qed.
Print Assumptions C05_backward.

Theorem C05_steps_between : forall a b, canonical a -> canonical b ->
  va_steps_between a b =
  if a <=? b then (pos b - pos a, Some (pos b - pos a)) else (0, None).
Proof. exact steps_between_spec. Qed.
Print Assumptions C05_steps_between.

Theorem C05_forward_then_backward : forall a n r, canonical a -> u64 n ->
  forward_checked_u64 a n = Ok (Some r) ->
  canonical r /\ backward_checked_u64 r n = Ok (Some a) /\ va_steps_between a r = (n, Some n).
Proof. exact forward_backward. Qed.
Print Assumptions C05_forward_then_backward.

Theorem C05_backward_then_forward : forall a n r, canonical a -> u64 n ->
  backward_checked_u64 a n = Ok (Some r) ->
  canonical r /\ forward_checked_u64 r n = Ok (Some a) /\ va_steps_between r a = (n, Some n).
Proof. exact backward_forward. Qed.
Print Assumptions C05_backward_then_forward.

Theorem C05_steps_then_step : forall a b n, canonical a -> canonical b ->
  va_steps_between a b = (n, Some n) ->
  forward_checked_u64 a n = Ok (Some b) /\ backward_checked_u64 b n = Ok (Some a).
Proof. exact steps_then_forward. Qed.
Print Assumptions C05_steps_then_step.

(* pages of each size step in whole pages, incl. counts whose product with the size overflows *)
Theorem C05_page_forward : forall sz p n, page_size sz -> canonical p -> u64 n ->
  page_forward_checked sz p n =
  Ok (if pos p + n * sz <? 2 ^ 48 then Some (unpos (pos p + n * sz)) else None).
Proof. exact page_forward_spec. Qed.
Print Assumptions C05_page_forward.

Theorem C05_page_backward : forall sz p n, page_size sz -> canonical p -> u64 n ->
  page_backward_checked sz p n =
  Ok (if n * sz <=? pos p then Some (unpos (pos p - n * sz)) else None).
Proof. exact page_backward_spec. Qed.
Print Assumptions C05_page_backward.

Theorem C05_page_step_is_page : forall sz p n r, page_size sz -> canonical p -> u64 n ->
  p mod sz = 0 ->
  (page_forward_checked sz p n = Ok (Some r) \/ page_backward_checked sz p n = Ok (Some r)) ->
  canonical r /\ r mod sz = 0.
Proof. exact page_step_stays_page. Qed.
Print Assumptions C05_page_step_is_page.

Theorem C05_page_steps_between : forall sz s e, page_size sz -> canonical s -> canonical e ->
  page_steps_between sz s e =
  if s <=? e then ((pos e - pos s) / sz, Some ((pos e - pos s) / sz)) else (0, None).
Proof. exact page_steps_between_spec. Qed.
Print Assumptions C05_page_steps_between.

(* table indices step within 0..512 *)
Theorem C05_index_steps : forall i n, 0 <= i < 512 -> u64 n ->
  pti_forward_checked i n = Ok (if i + n <? 512 then Some (i + n) else None) /\
  pti_backward_checked i n = Ok (if n <=? i then Some (i - n) else None).
Proof. intros i n Hi Hn. exact (conj (pti_forward_spec i n Hi Hn) (pti_backward_spec i n Hi Hn)). Qed.
Print Assumptions C05_index_steps.
