(* C10 - clean_up frees exactly the empty in-range tables, once; translations unchanged.
   Two layers.  (1) About the abstract tree model (Paging/Tree.v, `prune`): the exact set of
   released tables for every range.  (2) About the slot-by-slot memory model of
   MappedPageTable/OffsetPageTable (Paging/Mapped.v), PROVED for every range without any
   address arithmetic (C10_memory_clean_up_is_safe_for_every_range): the memory afterwards
   represents a tree with the same translations; the released frames are page-table frames of the
   hierarchy, each released once, never the level-4 table or a huge-page frame; no frame is
   requested; nothing outside the hierarchy is written.  (3) EXACTNESS, PROVED
   (C10_memory_clean_up_is_prune, C10_whole_histories_memory_equals_tree): for every range of
   4 KiB pages the memory model's clean_up_addr_range runs to completion, leaves table memory that
   represents exactly the tree `prune` leaves, and hands to the deallocator exactly the frames
   `prune` releases, in its order -- via Paging/TreeClean.v (the code's control flow and address
   arithmetic on the tree), Paging/RefineCleanExact.v (memory = that) and Paging/CleanArith.v
   (that = prune: the which-tables-overlap arithmetic, gap included); and whole call histories
   with clean-ups anywhere run on the memory model exactly as on the tree model.  The same exactness is proved for RecursivePageTable's clean-up
   (C10_recursive_memory_clean_up_is_prune: every child table reached through the recursive
   address of the clamped sub-range start, the recursive slot skipped and left intact, no access
   faults; Paging/RecClean*.v).  Partial (all mappers): that rustc compiles the code as the
   model reads it; Rust-level memory safety. *)
From X86 Require Import Addr.Canon Paging.Mapped Paging.Tree Paging.TreeProofs Paging.Refine Paging.RefineClean
  Paging.RefineHistory Paging.RefineHistoryClean Paging.TreeClean Paging.CleanArith Paging.RefineFull Paging.Recursive Paging.RecRefine Paging.RecCleanTop.
Require Import Permutation.
Open Scope Z_scope.

Theorem C10_no_translation_changes : forall level rs re skip ch base path,
  lookup (fst (prune level rs re skip ch base)) path = lookup ch path.
Proof. exact prune_lookup. Qed.
Print Assumptions C10_no_translation_changes.

(* released frames + table frames still linked = table frames before: every released frame is
   a level-1..3 table that was unlinked, each once; a huge-page frame (a Leaf) or the level-4
   table (not a node) is never among them *)
Theorem C10_releases_exactly_unlinked_tables_once : forall level rs re skip ch base,
  Permutation (snd (prune level rs re skip ch base) ++ frames_of (fst (prune level rs re skip ch base)))
              (frames_of ch).
Proof. exact prune_frames. Qed.
Print Assumptions C10_releases_exactly_unlinked_tables_once.

Theorem C10_repeating_releases_nothing : forall level rs re skip ch base,
  prune level rs re skip (fst (prune level rs re skip ch base)) base =
  (fst (prune level rs re skip ch base), []).
Proof. exact prune_idem. Qed.
Print Assumptions C10_repeating_releases_nothing.

(* no table the range reaches (outside the recursive slot) is left empty *)
Theorem C10_leaves_no_empty_table_in_range : forall P ch i base span rs re skip j f fl sub,
  child (fst (prune_children P ch i base span rs re skip)) j = Tab f fl sub ->
  ((base + (i + Z.of_nat j) * span + span - 1 <? rs) || (re <? base + (i + Z.of_nat j) * span)
     || (i + Z.of_nat j =? skip))%bool = false ->
  all_empty sub = false.
Proof. exact prune_children_no_empty. Qed.
Print Assumptions C10_leaves_no_empty_table_in_range.

(* tables that do not overlap the range (or sit in the recursive slot) are untouched *)
Theorem C10_tables_outside_the_range_untouched : forall P ch i base span rs re skip j,
  ((base + (i + Z.of_nat j) * span + span - 1 <? rs) || (re <? base + (i + Z.of_nat j) * span)
     || (i + Z.of_nat j =? skip))%bool = true ->
  child (fst (prune_children P ch i base span rs re skip)) j = child ch j.
Proof. exact prune_children_untouched. Qed.
Print Assumptions C10_tables_outside_the_range_untouched.

(* the memory model of clean_up_addr_range (clean_up is the full range), for EVERY rs, re *)
Theorem C10_memory_clean_up_is_safe_for_every_range : forall s ch rs re s',
  rep 4 s ch (root s) -> tframe (root s) -> sep s (root s) ch ->
  clean_up_addr_range s rs re = Ok s' ->
  exists ch' fr,
    rep 4 s' ch' (root s') /\ sep s' (root s') ch' /\
    (forall path, small path -> lookup ch' path = lookup ch path) /\
    (exists lost, Permutation (lost ++ fr ++ frames_of ch') (frames_of ch)) /\
    freed s' = rev fr ++ freed s /\ alloc s' = alloc s /\ nalloc s' = nalloc s /\
    (forall a, 0 <= a -> ~ in_frames (root s :: frames_of ch) a -> rd s' a = rd s a).
Proof. exact clean_up_addr_range_safe. Qed.
Print Assumptions C10_memory_clean_up_is_safe_for_every_range.

(* EXACTNESS on the memory model: the tree `prune` leaves, the frames it releases, in its order *)
Theorem C10_memory_clean_up_is_prune : forall s ch rs re,
  rep 4 s ch (root s) -> tframe (root s) -> sep s (root s) ch -> wf_children ch ->
  canonical rs -> canonical re -> rs mod 4096 = 0 -> re mod 4096 = 0 ->
  exists s', clean_up_addr_range s rs re = Ok s' /\
    rep 4 s' (fst (if re <? rs then (ch, []) else prune 4 (page_pos rs) (page_pos re) (-1) ch 0)) (root s') /\
    sep s' (root s') (fst (if re <? rs then (ch, []) else prune 4 (page_pos rs) (page_pos re) (-1) ch 0)) /\
    freed s' = rev (snd (if re <? rs then (ch, []) else prune 4 (page_pos rs) (page_pos re) (-1) ch 0)) ++ freed s /\
    alloc s' = alloc s /\ nalloc s' = nalloc s /\ root s' = root s /\
    (forall a, 0 <= a -> ~ in_frames (root s :: frames_of ch) a -> rd s' a = rd s a).
Proof. exact clean_up_addr_range_is_prune. Qed.
Print Assumptions C10_memory_clean_up_is_prune.

(* the code-shaped clean-up on the tree (slot windows, sub-ranges by align_down / forward_checked /
   containing_address / max / min, none of which panics) is `prune` *)
Theorem C10_code_arithmetic_is_prune : forall ch rs re,
  wf_children ch -> canonical rs -> canonical re -> rs mod 4096 = 0 -> re mod 4096 = 0 ->
  t_clean_range ch rs re =
    Ok (if re <? rs then (ch, []) else prune 4 (page_pos rs) (page_pos re) (-1) ch 0).
Proof. exact t_clean_range_is_prune. Qed.
Print Assumptions C10_code_arithmetic_is_prune.

(* whole histories (map / unmap / update_flags / parent-flag calls and clean-ups of any page
   range, in any order) from an empty level-4 table: the memory model never panics, answers
   every call as the tree model does, and ends in memory representing the tree model's tree with
   the tree model's released-frame log *)
Theorem C10_whole_histories_memory_equals_tree : forall rootf allocs ri ops,
  tframe rootf -> sep (init_pstate rootf allocs ri) rootf empty_children -> Forall cop_ok2 ops ->
  exists s' ch',
    cmem_run (init_pstate rootf allocs ri) ops = Ok (s', snd (tree_run 0 (t_init allocs) (map cop_top ops))) /\
    fst (tree_run 0 (t_init allocs) (map cop_top ops)) = tst ch' s' (rev (freed s')) /\
    Inv s' ch' /\ wf_children ch'.
Proof. exact mapped_model_refines_tree_model. Qed.
Print Assumptions C10_whole_histories_memory_equals_tree.

(* RecursivePageTable::clean_up_addr_range on table memory, every recursive index and every range
   of 4 KiB pages: runs to completion without a fault, leaves memory representing exactly the tree
   `prune` leaves when it skips the recursive slot, releases exactly prune's frames in its order,
   keeps the recursive slot (and the invariant) intact and writes nothing outside the hierarchy *)
Theorem C10_recursive_memory_clean_up_is_prune : forall r s ch rs re,
  rInv r s ch -> wf_children ch ->
  canonical rs -> canonical re -> rs mod 4096 = 0 -> re mod 4096 = 0 ->
  exists s', rclean_up_addr_range s rs re = Ok s' /\
    faulted s' = faulted s /\
    rInv r s' (fst (if re <? rs then (ch, []) else prune 4 (page_pos rs) (page_pos re) r ch 0)) /\
    freed s' = rev (snd (if re <? rs then (ch, []) else prune 4 (page_pos rs) (page_pos re) r ch 0)) ++ freed s /\
    alloc s' = alloc s /\ nalloc s' = nalloc s /\ root s' = root s /\
    wf_children (fst (if re <? rs then (ch, []) else prune 4 (page_pos rs) (page_pos re) r ch 0)) /\
    child (fst (if re <? rs then (ch, []) else prune 4 (page_pos rs) (page_pos re) r ch 0)) (Z.to_nat r) = child ch (Z.to_nat r) /\
    (forall a, 0 <= a -> ~ in_frames (root s :: frames_of ch) a -> rd s' a = rd s a).
Proof. exact rclean_up_addr_range_is_prune_unconditional. Qed.
Print Assumptions C10_recursive_memory_clean_up_is_prune.
