(* C10 - clean_up frees exactly the empty in-range tables, once; translations unchanged.
   Two layers.  (1) About the abstract tree model (Paging/Tree.v, `prune`): the exact set of
   released tables for every range.  (2) About the slot-by-slot memory model of
   MappedPageTable/OffsetPageTable (Paging/Mapped.v), PROVED for every range without any
   address arithmetic (C10_memory_clean_up_is_safe_for_every_range): the memory afterwards
   represents a tree with the same translations; the released frames are page-table frames of the
   hierarchy, each released once, never the level-4 table or a huge-page frame; no frame is
   requested; nothing outside the hierarchy is written.  Partial: that the memory model releases
   EXACTLY the tables `prune` releases (which tables overlap the range), and everything about
   RecursivePageTable's clean-up, is tied by the correspondence check (deallocation log of every
   call, the oracle's own table bookkeeping), not proved. *)
From X86 Require Import Paging.Mapped Paging.Tree Paging.TreeProofs Paging.Refine Paging.RefineClean.
Require Import Permutation.
Open Scope Z_scope.

Theorem C10_no_translation_changes : forall level rs re skip ch base path,
  lookup (fst (prune level rs re skip ch base)) path = lookup ch path.
Proof. exact prune_lookup. Qed.
Print Assumptions C10_no_translation_changes.

(* released frames + table frames still linked = table frames before: every released frame is
   a level-1..3 table that was unlinked, each once; a huge-page frame (a Leaf) or the level-4
   table (not a node) is never among them *)
Theorem C10_releases_exactly_unlinked_tables_once : forall level rs re skip ch base,
  Permutation (snd (prune level rs re skip ch base) ++ frames_of (fst (prune level rs re skip ch base)))
              (frames_of ch).
Proof. exact prune_frames. Qed.
Print Assumptions C10_releases_exactly_unlinked_tables_once.

Theorem C10_repeating_releases_nothing : forall level rs re skip ch base,
  prune level rs re skip (fst (prune level rs re skip ch base)) base =
  (fst (prune level rs re skip ch base), []).
Proof. exact prune_idem. Qed.
Print Assumptions C10_repeating_releases_nothing.

(* no table the range reaches (outside the recursive slot) is left empty *)
Theorem C10_leaves_no_empty_table_in_range : forall P ch i base span rs re skip j f fl sub,
  child (fst (prune_children P ch i base span rs re skip)) j = Tab f fl sub ->
  ((base + (i + Z.of_nat j) * span + span - 1 <? rs) || (re <? base + (i + Z.of_nat j) * span)
     || (i + Z.of_nat j =? skip))%bool = false ->
  all_empty sub = false.
Proof. exact prune_children_no_empty. Qed.
Print Assumptions C10_leaves_no_empty_table_in_range.

(* tables that do not overlap the range (or sit in the recursive slot) are untouched *)
Theorem C10_tables_outside_the_range_untouched : forall P ch i base span rs re skip j,
  ((base + (i + Z.of_nat j) * span + span - 1 <? rs) || (re <? base + (i + Z.of_nat j) * span)
     || (i + Z.of_nat j =? skip))%bool = true ->
  child (fst (prune_children P ch i base span rs re skip)) j = child ch j.
Proof. exact prune_children_untouched. Qed.
Print Assumptions C10_tables_outside_the_range_untouched.

(* the memory model of clean_up_addr_range (clean_up is the full range), for EVERY rs, re *)
Theorem C10_memory_clean_up_is_safe_for_every_range : forall s ch rs re s',
  rep 4 s ch (root s) -> tframe (root s) -> sep s (root s) ch ->
  clean_up_addr_range s rs re = Ok s' ->
  exists ch' fr,
    rep 4 s' ch' (root s') /\ sep s' (root s') ch' /\
    (forall path, small path -> lookup ch' path = lookup ch path) /\
    (exists lost, Permutation (lost ++ fr ++ frames_of ch') (frames_of ch)) /\
    freed s' = rev fr ++ freed s /\ alloc s' = alloc s /\ nalloc s' = nalloc s /\
    (forall a, 0 <= a -> ~ in_frames (root s :: frames_of ch) a -> rd s' a = rd s a).
Proof. exact clean_up_addr_range_safe. Qed.
Print Assumptions C10_memory_clean_up_is_safe_for_every_range.
