(* C19 - Named constants and small codecs match the architecture manuals.
   The crate's constants enter as Gen/Consts_gen.v: names parsed from the source, values printed
   by the compiled crate, regenerated on every run; the manual side is Arch/ManualConsts.v
   (trusted transcription by bit position). *)
Require Import String.
From X86 Require Import Base.Word Codec.Codec Codec.CodecProofs Codec.ConstsCheck Arch.Manual
  Arch.ManualConsts Gen.Consts_gen Tables.Gdt.
Open Scope Z_scope.

(* every public constant of the crate denotes what the manual table assigns to its name
   (exhaustive over the finite table) *)
Theorem C19_constants_match_manuals : forall n v, In (n, v) impl_consts -> lookup n manual_consts = Some v.
Proof. exact consts_agree. Qed.
Print Assumptions C19_constants_match_manuals.

Theorem C19_same_names_on_both_sides : same_names = true.
Proof. exact same_names_ok. Qed.
Print Assumptions C19_same_names_on_both_sides.

Theorem C19_no_undocumented_collisions :
  collisions = [("PageTableFlags::HUGE_PAGE", "PageTableFlags::PAT_4KIB_PAGE");
                ("DescriptorFlags::KERNEL_CODE64", "DescriptorFlags::KERNEL_CODE64")]%string \/
  collisions = [("PageTableFlags::HUGE_PAGE", "PageTableFlags::PAT_4KIB_PAGE")]%string.
Proof. exact collisions_documented. Qed.
Print Assumptions C19_no_undocumented_collisions.

Theorem C19_privilege_level : forall v, priv_from_u16 v = if v <? 4 then Ok v else Panic.
Proof. exact priv_from_u16_spec. Qed.
Print Assumptions C19_privilege_level.

Theorem C19_selector_roundtrip : forall i r, 0 <= i < 8192 -> 0 <= r < 4 ->
  sel_index (sel_new i r) = i /\ sel_rpl (sel_new i r) = Ok r /\ 0 <= sel_new i r < 65536.
Proof. exact selector_codec. Qed.
Print Assumptions C19_selector_roundtrip.

Theorem C19_selector_fields : forall s r, 0 <= s < 65536 -> 0 <= r < 4 ->
  sel_index s = s / 8 /\ sel_rpl s = Ok (s mod 4) /\
  sel_set_rpl s r = Ok (s - s mod 4 + r) /\ sel_index (s - s mod 4 + r) = sel_index s.
Proof. exact selector_fields. Qed.
Print Assumptions C19_selector_fields.

(* DR7: setting one breakpoint's condition (size) changes exactly that field among
   (low 16 bits, cond0, size0, ..., cond3, size3, bits above 31) *)
Theorem C19_dr7_condition : forall v n c, 0 <= v -> 0 <= n < 4 -> 0 <= c < 4 ->
  exists v', dr7_set_condition v n c = Ok v' /\ 0 <= v' /\
    dr7_fields v' = upd_nth (dr7_fields v) (cond_idx n) c /\ dr7_condition v' n = c.
Proof. exact dr7_set_condition_spec. Qed.
Print Assumptions C19_dr7_condition.

Theorem C19_dr7_size : forall v n c, 0 <= v -> 0 <= n < 4 -> 0 <= c < 4 ->
  exists v', dr7_set_size v n c = Ok v' /\ 0 <= v' /\
    dr7_fields v' = upd_nth (dr7_fields v) (size_idx n) c /\ dr7_size v' n = c.
Proof. exact dr7_set_size_spec. Qed.
Print Assumptions C19_dr7_size.

Theorem C19_dr7_accessors : forall v n, 0 <= v -> 0 <= n < 4 ->
  dr7_condition v n = nth (cond_idx n) (dr7_fields v) 0 /\
  dr7_size v n = nth (size_idx n) (dr7_fields v) 0.
Proof. exact dr7_field_accessors. Qed.
Print Assumptions C19_dr7_accessors.

Theorem C19_dr7_valid_bits : forall b,
  dr7_from_bits b = (if Z.land b (not64 DR7_VALID) =? 0 then Some b else None) /\
  dr7_from_bits_truncate b = Z.land b DR7_VALID /\ DR7_VALID = 0xFFFF2BFF.
Proof. exact dr7_from_bits_spec. Qed.
Print Assumptions C19_dr7_valid_bits.

Theorem C19_small_codecs :
  (forall p, pcid_new p = if p <? 4096 then Some p else None) /\
  (forall n, dar_new n = if n <? 4 then Some n else None) /\
  (forall v e, exception_vector_try_from v = Some e -> e = v /\ In v exception_vectors) /\
  (forall v, In v exception_vectors -> exception_vector_try_from v = Some v) /\
  (forall b t, pat_from_bits b = Some t -> t = b /\ In b [0; 1; 4; 5; 6; 7]) /\
  (forall b, In b [0; 1; 4; 5; 6; 7] -> pat_from_bits b = Some b).
Proof. exact small_codecs. Qed.
Print Assumptions C19_small_codecs.

Theorem C19_exception_vectors : forall v, 0 <= v < 256 ->
  (In v exception_vectors <-> v < 32 /\ ~ In v reserved_vectors /\ v <> 9).
Proof. exact exception_vectors_are_architectural. Qed.
Print Assumptions C19_exception_vectors.

Theorem C19_selector_error_code : forall v, 0 <= v ->
  sec_new v = (if 65535 <? v then None else Some v) /\
  sec_new_truncate v = v mod 65536 /\
  (forall t, 0 <= t < 65536 ->
     sec_external t = Z.odd t /\ sec_index t = t / 8 /\
     sec_table t = (if (t / 2) mod 4 =? 0 then 0 else if (t / 2) mod 4 =? 2 then 2 else 1) /\
     (sec_is_null t = true <-> t = 0)).
Proof. exact selector_error_code_fields. Qed.
Print Assumptions C19_selector_error_code.
