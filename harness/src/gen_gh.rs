//! Generator and oracle for C13 (engine "gh").  The oracle uses the architecture's own lists
//! (reserved vectors, error-code vectors, diverging vectors), not the model.
use crate::util::*;
use std::collections::{BTreeMap, HashSet};
use std::io::Write;

fn emit(out: &mut impl Write, c: &[u64]) {
    writeln!(out, "{}", fmt_case(c)).unwrap();
}
const RESERVED: [u64; 8] = [15, 22, 23, 24, 25, 26, 27, 31];
const ERR: [u64; 10] = [8, 10, 11, 12, 13, 14, 17, 21, 29, 30];
const DIVERGING: [u64; 2] = [8, 18];

pub fn gen(seed: u64, thorough: bool, out: &mut impl Write) {
    let mut rng = Rng::new(seed ^ 0xc13);
    // ---- installs: all (start,end) pairs of the inclusive form (thorough) or a lattice + random; every bound form
    let step = if thorough { 1 } else { 5 };
    for s in (0..256u64).step_by(step) {
        for e in (0..256u64).step_by(step) {
            emit(out, &[1, 0, s, 0, e]);
        }
    }
    let edges = [0u64, 1, 7, 8, 9, 14, 15, 16, 21, 22, 27, 28, 30, 31, 32, 33, 254, 255];
    for &s in &edges {
        for &e in &edges {
            for sk in 0..3u64 {
                for ek in 0..3u64 {
                    emit(out, &[1, sk, s, ek, e]);
                }
            }
        }
    }
    for _ in 0..(if thorough { 20000 } else { 1500 }) {
        emit(out, &[1, rng.below(3), rng.below(256), rng.below(3), rng.below(256)]);
    }
    // ---- entering every stub: all 256 vectors x frames
    let reps = if thorough { 60 } else { 8 };
    for v in 0..256u64 {
        for i in 0..reps {
            let k = if i < 2 { [0, 15][i as usize] } else { rng.below(16) };
            let rsp_off = if i < 2 { [0, 3999][i as usize] } else { rng.below(4000) };
            let rflags = match i { 0 => 0, 1 => 0xcd5, _ => rng.next() & 0xcd5 };
            let err = match i { 0 => 0, 1 => u64::MAX, 2 => 1 << 63 | 0x1f, _ => rng.next() >> rng.below(64) };
            emit(out, &[2, v, k, rsp_off, rflags, err]);
        }
    }
    // ---- iretq on a frame value
    for i in 0..(if thorough { 5000 } else { 400 }) {
        let k = if i < 16 { i } else { rng.below(16) };
        emit(out, &[3, k, rng.below(4000), rng.next() & 0xcd5]);
    }
}

fn contains(sk: u64, s: u64, ek: u64, e: u64, v: u64) -> bool {
    (match sk { 0 => s <= v, 1 => s < v, _ => true }) && (match ek { 0 => v <= e, 1 => v < e, _ => true })
}
fn judge(c: &[u64], a: &[i128]) -> (Option<&'static str>, bool) {
    match c {
        [1, sk, s, ek, e] => {
            if a.len() != 7 { return (Some("installing a general handler must not panic"), true); }
            let mut n = 0;
            for v in 0..256u64 {
                let want = contains(*sk, *s, *ek, *e, v) && !RESERVED.contains(&v);
                let got = (a[(v / 64) as usize] as u64 >> (v % 64)) & 1 == 1;
                if want { n += 1; }
                if want != got {
                    return (Some(if got { "a gate outside the range (or a reserved vector) was made present" } else { "a non-reserved vector inside the range was not made present" }), true);
                }
            }
            if a[4] != 0 { return (Some("an entry outside the installed set was modified"), true); }
            if a[5] != 0 { return (Some("an installed gate is not a present ring-0 interrupt gate with the current code selector"), true); }
            if a[6] != n { return (Some("two vectors share one stub"), true); }
            (None, n > 0 && n < 248)
        }
        [2, v, k, rsp_off, rflags, err] => {
            if RESERVED.contains(v) {
                return (if a == [-2] { None } else { Some("a reserved vector has an installed stub") }, false);
            }
            let has_err = ERR.contains(v);
            let nt = has_err || DIVERGING.contains(v) || *v < 32;
            if a == [-78] { return (Some("the gate installed over an existing handler differs from the gate the same installation writes into a fresh table (the entry is not exactly the stub)"), nt); }
            if a.len() < 9 { return (Some("entering the installed stub did not reach the general handler"), nt); }
            if a[0] != 1 { return (Some("the general handler must be called exactly once"), nt); }
            if a[1] != *v as i128 { return (Some("the general handler must be called with the index of the entered vector"), nt); }
            if a[2] != has_err as i128 { return (Some("the error code must be passed exactly on the vectors that define one"), nt); }
            if has_err && a[3] != *err as i128 { return (Some("the error code passed on must be the pushed one"), nt); }
            if a[4] != 1 || a[5] != 1 || a[6] != *rsp_off as i128 || a[7] != 1 { return (Some("the frame handed to the general handler must be the pushed frame"), nt); }
            if DIVERGING.contains(v) {
                if a[8] != 1 { return (Some("a diverging vector's stub returned"), nt); }
            } else {
                if a[8] != 0 || a.len() != 13 { return (Some("a returning vector's stub did not return"), nt); }
                if a[9] != *k as i128 { return (Some("execution must resume at the interrupted instruction"), nt); }
                if a[10] != *rsp_off as i128 { return (Some("execution must resume at the interrupted stack pointer"), nt); }
                if a[11] != (*rflags & 0xcd5) as i128 { return (Some("the interrupted flags must be restored"), nt); }
                if a[12] != 1 { return (Some("the frame's instruction pointer must be the pushed one"), nt); }
            }
            (None, nt)
        }
        [3, k, rsp_off, rflags] => {
            if a != [*k as i128, *rsp_off as i128, (*rflags & 0xcd5) as i128] {
                return (Some("iretq on a frame value must transfer to exactly the frame's instruction pointer, stack pointer and flags"), true);
            }
            (None, *rflags & 0xcd5 != 0)
        }
        _ => (Some("malformed case"), false),
    }
}

pub fn oracle() {
    use std::io::BufRead;
    let args: Vec<String> = std::env::args().collect();
    let cases = std::io::BufReader::new(std::fs::File::open(&args[3]).unwrap());
    let answers = std::io::BufReader::new(std::fs::File::open(&args[4]).unwrap());
    let (mut evals, mut nfails) = (0u64, 0u64);
    let mut distinct: HashSet<String> = HashSet::new();
    let mut mix: BTreeMap<&'static str, u64> = BTreeMap::new();
    for (ln, (cl, al)) in cases.lines().zip(answers.lines()).enumerate() {
        let (cl, al) = (cl.unwrap(), al.unwrap());
        let c = parse_line(&cl);
        let a: Vec<i128> = al.split_ascii_whitespace().map(|t| if let Some(r) = t.strip_prefix('-') { -(i128::from_str_radix(r, 16).unwrap()) } else { i128::from_str_radix(t, 16).unwrap() }).collect();
        evals += 1;
        *mix.entry(match c.first() { Some(1) => "install", Some(2) => "enter_stub", _ => "iretq" }).or_default() += 1;
        let (f, nt) = judge(&c, &a);
        if nt { distinct.insert(cl.clone()); }
        if let Some(clause) = f {
            nfails += 1;
            if nfails <= 30 { println!("FAIL {} | {} | {} | {}", ln + 1, cl, al, clause); }
        }
    }
    let m = mix.iter().map(|(k, v)| format!("\"{}\":{}", k, v)).collect::<Vec<_>>().join(",");
    println!("SUMMARY {{\"evaluations\":{},\"oracle_failures\":{},\"distinct_nontrivial\":{},\"mix\":{{{}}}}}", evals, nfails, distinct.len(), m);
}
